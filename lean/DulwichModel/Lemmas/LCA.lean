/-
  Helper lemmas for C13 (merge-base model `Model/LCA.lean`): the `cstates` array as a finite map,
  the work list, ancestry, and the loop invariants of `_find_lcas`:

    * `Sound`   — every flag that is set is justified by the graph (all DAGs, all stamps);
    * `Dom`     — every queued / candidate commit has a `cstates` entry (no `KeyError`), stamps in the
                  queue are the commits' stamps;
    * measure   — each push clears room in a flag word: at most `3·n + |c2s| + 1` iterations;
    * `Settled` — a commit whose word changed is queued again, otherwise its parents already carry its flags
                  (completeness for every clock);
    * `Ordered` — with stamps strictly increasing from parent to child nothing in the queue is newer than a
                  recorded candidate (exactness under that hypothesis).
-/
import DulwichModel.Model.LCA

namespace Dulwich.LCA

/-! ## generic fold lemmas -/

theorem foldl_inv {α β : Type} (P : α → Prop) (f : α → β → α) :
    ∀ (l : List β) (a : α), P a → (∀ a b, b ∈ l → P a → P (f a b)) → P (l.foldl f a)
  | [], _, h, _ => h
  | b :: l, a, h, hs => by
    simp only [List.foldl_cons]
    exact foldl_inv P f l (f a b) (hs a b (by simp) h) (fun a' b' hb' => hs a' b' (by simp [hb']))

/-- a fact about element `b` established by its own step and preserved by every step holds at the end -/
theorem foldl_establish {α β : Type} (f : α → β → α) (Q : β → α → Prop)
    (hest : ∀ a b, Q b (f a b)) (hpres : ∀ a b b', Q b a → Q b (f a b')) :
    ∀ (l : List β) (a : α) (b : β), b ∈ l → Q b (l.foldl f a)
  | [], _, _, h => by cases h
  | x :: l, a, b, h => by
    simp only [List.foldl_cons]
    rcases List.mem_cons.mp h with rfl | h'
    · exact foldl_inv (Q b) f l _ (hest a b) (fun a' b' _ hq => hpres a' b b' hq)
    · exact foldl_establish f Q hest hpres l (f a x) b h'

/-! ## `cstates` as a finite map -/

theorem FlagMap.get_set (m : FlagMap) (c d : Nat) (f : Flags) :
    (m.set c f).get d = if c = d ∧ c < m.size then some f else m.get d := by
  simp only [FlagMap.get, FlagMap.set, Array.getD_eq_getD_getElem?, Array.getElem?_setIfInBounds]
  by_cases h : c = d
  · subst h
    by_cases h2 : c < m.size
    · simp [h2]
    · simp [h2]
  · simp [h]

@[simp] theorem FlagMap.size_set (m : FlagMap) (c : Nat) (f : Flags) : (m.set c f).size = m.size := by
  simp [FlagMap.set]

@[simp] theorem FlagMap.size_empty (n : Nat) : (FlagMap.empty n).size = n := by
  simp [FlagMap.empty]

@[simp] theorem FlagMap.get_empty (n c : Nat) : (FlagMap.empty n).get c = none := by
  simp only [FlagMap.get, FlagMap.empty, Array.getD_eq_getD_getElem?, Array.getElem?_replicate]
  split <;> rfl

theorem FlagMap.get_set_self (m : FlagMap) (c : Nat) (f : Flags) (h : c < m.size) :
    (m.set c f).get c = some f := by
  rw [FlagMap.get_set]; simp [h]

theorem FlagMap.get_set_ne (m : FlagMap) (c d : Nat) (f : Flags) (h : c ≠ d) :
    (m.set c f).get d = m.get d := by
  rw [FlagMap.get_set]; simp [h]

/-- whatever is read after a write was either just written or was there before -/
theorem FlagMap.get_set_cases {m : FlagMap} {c d : Nat} {f f' : Flags}
    (h : (m.set c f).get d = some f') : (d = c ∧ f' = f) ∨ m.get d = some f' := by
  rw [FlagMap.get_set] at h
  split at h
  · rename_i hc
    left; exact ⟨hc.1.symm, by cases h; rfl⟩
  · right; exact h

theorem FlagMap.get_lt {m : FlagMap} {c : Nat} {f : Flags} (h : m.get c = some f) : c < m.size := by
  simp only [FlagMap.get, Array.getD_eq_getD_getElem?] at h
  by_cases hc : c < m.size
  · exact hc
  · simp [Array.getElem?_eq_none (Nat.le_of_not_lt hc)] at h

/-! ## the work list -/

theorem best_mem : ∀ (l : List Entry) (b : Entry), best b l = b ∨ best b l ∈ l
  | [], _ => Or.inl rfl
  | e :: r, b => by
    simp only [best]
    by_cases hbe : before b e = true
    · simp only [hbe, if_true]
      rcases best_mem r b with h | h
      · left; exact h
      · right; simp [h]
    · simp only [hbe]
      rcases best_mem r e with h | h
      · right; simp [h]
      · right; simp [h]

theorem before_refl (a : Entry) : before a a = true := by
  simp [before]

theorem before_trans {a b c : Entry} (h1 : before a b = true) (h2 : before b c = true) :
    before a c = true := by
  simp only [before, Bool.or_eq_true, decide_eq_true_eq, Bool.and_eq_true, beq_iff_eq] at *
  omega

theorem before_total (a b : Entry) : before a b = true ∨ before b a = true := by
  simp only [before, Bool.or_eq_true, decide_eq_true_eq, Bool.and_eq_true, beq_iff_eq]
  omega

theorem best_before : ∀ (l : List Entry) (b : Entry),
    before (best b l) b = true ∧ ∀ e, e ∈ l → before (best b l) e = true
  | [], b => ⟨before_refl b, fun _ h => by cases h⟩
  | x :: r, b => by
    simp only [best]
    have ih := best_before r (if before b x then b else x)
    by_cases hbx : before b x = true
    · simp only [hbx, if_true] at ih ⊢
      refine ⟨ih.1, fun e he => ?_⟩
      rcases List.mem_cons.mp he with rfl | he
      · exact before_trans ih.1 hbx
      · exact ih.2 e he
    · simp only [hbx] at ih ⊢
      have hxb : before x b = true := by
        rcases before_total b x with h | h
        · exact absurd h hbx
        · exact h
      refine ⟨before_trans ih.1 hxb, fun e he => ?_⟩
      rcases List.mem_cons.mp he with rfl | he
      · exact ih.1
      · exact ih.2 e he

theorem before_stamp {a b : Entry} (h : before a b = true) : b.1 ≤ a.1 := by
  simp only [before, Bool.or_eq_true, decide_eq_true_eq, Bool.and_eq_true, beq_iff_eq] at h
  omega

/-- what `WorkList.get()` returns: an element of the heap that no other element precedes, and the rest -/
theorem popMax_spec {wl : List Entry} {b : Entry} {rest : List Entry}
    (h : popMax wl = some (b, rest)) :
    b ∈ wl ∧ rest = wl.erase b ∧ ∀ e, e ∈ wl → e.1 ≤ b.1 := by
  cases wl with
  | nil => simp [popMax] at h
  | cons e r =>
    simp only [popMax, Option.some.injEq, Prod.mk.injEq] at h
    obtain ⟨hb, hr⟩ := h
    subst hb
    refine ⟨?_, hr.symm, fun x hx => ?_⟩
    · rcases best_mem r e with h | h
      · rw [h]; simp
      · simp [h]
    · have := best_before r e
      rcases List.mem_cons.mp hx with rfl | hx
      · exact before_stamp this.1
      · exact before_stamp (this.2 x hx)

theorem popMax_none {wl : List Entry} (h : popMax wl = none) : wl = [] := by
  cases wl with
  | nil => rfl
  | cons e r => simp [popMax] at h

/-! ## ancestry -/

theorem Anc.trans {g : Graph} {a b c : Nat} (h1 : Anc g a b) (h2 : Anc g b c) : Anc g a c := by
  induction h2 with
  | refl => exact h1
  | step hp _ ih => exact Anc.step hp ih

theorem Anc.parent {g : Graph} {p c : Nat} (h : p ∈ g.parents c) : Anc g p c :=
  Anc.step h (Anc.refl p)

theorem SAnc.anc {g : Graph} {a c : Nat} (h : SAnc g a c) : Anc g a c := by
  obtain ⟨p, hp, ha⟩ := h
  exact Anc.step hp ha

theorem SAnc.of_anc_left {g : Graph} {a b c : Nat} (h1 : Anc g a b) (h2 : SAnc g b c) : SAnc g a c := by
  obtain ⟨p, hp, hb⟩ := h2
  exact ⟨p, hp, h1.trans hb⟩

theorem SAnc.of_anc_right {g : Graph} {a b c : Nat} (h1 : SAnc g a b) (h2 : Anc g b c) : SAnc g a c := by
  induction h2 with
  | refl => exact h1
  | step hp _ ih => exact ⟨_, hp, ih.anc⟩

/-- an ancestor-or-self is the commit itself or a strict ancestor -/
theorem Anc.eq_or_sanc {g : Graph} {a c : Nat} (h : Anc g a c) : a = c ∨ SAnc g a c := by
  cases h with
  | refl => exact Or.inl rfl
  | step hp ha => exact Or.inr ⟨_, hp, ha⟩

theorem CA.of_anc {g : Graph} {c1 : Nat} {c2s : List Nat} {x y : Nat} (h : CA g c1 c2s y) (hx : Anc g x y) :
    CA g c1 c2s x := by
  obtain ⟨h1, c2, hc2, h2⟩ := h
  exact ⟨hx.trans h1, c2, hc2, hx.trans h2⟩

/-! ## flag words -/

theorem cflagsOf_lca (f : Flags) : (cflagsOf f).lca = false := by
  cases f with
  | mk a b c d => cases a <;> cases b <;> cases c <;> cases d <;> rfl

theorem cflagsOf_anc1 (f : Flags) : (cflagsOf f).anc1 = f.anc1 := by
  cases f with
  | mk a b c d => cases a <;> cases b <;> cases c <;> cases d <;> rfl

theorem cflagsOf_anc2 (f : Flags) : (cflagsOf f).anc2 = f.anc2 := by
  cases f with
  | mk a b c d => cases a <;> cases b <;> cases c <;> cases d <;> rfl

theorem cflagsOf_dnc (f : Flags) : (cflagsOf f).dnc = (f.dnc || (f.anc1 && f.anc2)) := by
  cases f with
  | mk a b c d => cases a <;> cases b <;> cases c <;> cases d <;> rfl

theorem isBoth_ancMask (f : Flags) : f.ancMask.isBoth = (f.anc1 && f.anc2 && !f.dnc) := by
  cases f with
  | mk a b c d => cases a <;> cases b <;> cases c <;> cases d <;> rfl

theorem covers_iff (p c : Flags) : p.covers c = true ↔
    (c.anc1 = true → p.anc1 = true) ∧ (c.anc2 = true → p.anc2 = true) ∧
    (c.dnc = true → p.dnc = true) ∧ (c.lca = true → p.lca = true) := by
  cases p with
  | mk a b c' d =>
    cases c with
    | mk a' b' c'' d' =>
      cases a <;> cases b <;> cases c' <;> cases d <;> cases a' <;> cases b' <;> cases c'' <;> cases d' <;> decide

theorem covers_union (p c : Flags) : (p.union c).covers c = true := by
  rw [covers_iff]
  simp only [Flags.union, Bool.or_eq_true]
  exact ⟨Or.inr, Or.inr, Or.inr, Or.inr⟩

theorem covers_mono {p q c : Flags} (h : p.covers c = true) (hq : q.covers p = true) :
    q.covers c = true := by
  rw [covers_iff] at *
  exact ⟨fun x => hq.1 (h.1 x), fun x => hq.2.1 (h.2.1 x), fun x => hq.2.2.1 (h.2.2.1 x),
         fun x => hq.2.2.2 (h.2.2.2 x)⟩

theorem covers_refl (p : Flags) : p.covers p = true := by
  rw [covers_iff]; exact ⟨id, id, id, id⟩

theorem union_covers_left (p c : Flags) : (p.union c).covers p = true := by
  rw [covers_iff]
  simp only [Flags.union, Bool.or_eq_true]
  exact ⟨Or.inl, Or.inl, Or.inl, Or.inl⟩

/-- a push strictly clears room when the child's flags (without `_LCA`) were not yet all present -/
theorem room_union_lt {p c : Flags} (hc : c.lca = false) (h : p.covers c = false) :
    (p.union c).room + 1 ≤ p.room := by
  cases p with
  | mk a b c' d =>
    cases c with
    | mk a' b' c'' d' =>
      cases a <;> cases b <;> cases c' <;> cases d <;> cases a' <;> cases b' <;> cases c'' <;> cases d' <;>
        first | (exfalso; revert hc; decide) | (exfalso; revert h; decide) | decide

theorem room_le (f : Flags) : f.room ≤ 3 := by
  cases f with
  | mk a b c d => cases a <;> cases b <;> cases c <;> cases d <;> decide

/-! ## invariant 1: every flag that is set is justified (all DAGs, all stamps) -/

/-- what the bits of a flag word claim about commit `c` -/
structure Good (g : Graph) (c1 : Nat) (c2s : List Nat) (c : Nat) (f : Flags) : Prop where
  a1 : f.anc1 = true → Anc g c c1
  a2 : f.anc2 = true → ∃ c2, c2 ∈ c2s ∧ Anc g c c2
  dn : f.dnc = true → ∃ y, CA g c1 c2s y ∧ SAnc g c y

def Sound (g : Graph) (c1 : Nat) (c2s : List Nat) (fl : FlagMap) : Prop :=
  ∀ c f, fl.get c = some f → Good g c1 c2s c f

theorem Good.zero (g : Graph) (c1 : Nat) (c2s : List Nat) (c : Nat) : Good g c1 c2s c Flags.zero :=
  ⟨by simp [Flags.zero], by simp [Flags.zero], by simp [Flags.zero]⟩

theorem Good.union {g : Graph} {c1 : Nat} {c2s : List Nat} {c : Nat} {a b : Flags}
    (ha : Good g c1 c2s c a) (hb : Good g c1 c2s c b) : Good g c1 c2s c (a.union b) := by
  constructor
  · intro h; simp only [Flags.union, Bool.or_eq_true] at h; exact h.elim ha.a1 hb.a1
  · intro h; simp only [Flags.union, Bool.or_eq_true] at h; exact h.elim ha.a2 hb.a2
  · intro h; simp only [Flags.union, Bool.or_eq_true] at h; exact h.elim ha.dn hb.dn

theorem Sound.set {g : Graph} {c1 : Nat} {c2s : List Nat} {fl : FlagMap} {c : Nat} {f : Flags}
    (h : Sound g c1 c2s fl) (hf : Good g c1 c2s c f) : Sound g c1 c2s (fl.set c f) := by
  intro d f' hd
  rcases FlagMap.get_set_cases hd with ⟨rfl, rfl⟩ | h'
  · exact hf
  · exact h d f' h'

/-- the flags handed down by a commit with a justified word are justified for each of its parents -/
theorem Good.down {g : Graph} {c1 : Nat} {c2s : List Nat} {c p : Nat} {f : Flags}
    (hf : Good g c1 c2s c f) (hp : p ∈ g.parents c) : Good g c1 c2s p (cflagsOf f) := by
  constructor
  · intro h; rw [cflagsOf_anc1] at h
    exact (Anc.parent hp).trans (hf.a1 h)
  · intro h; rw [cflagsOf_anc2] at h
    obtain ⟨c2, hc2, ha⟩ := hf.a2 h
    exact ⟨c2, hc2, (Anc.parent hp).trans ha⟩
  · intro h; rw [cflagsOf_dnc] at h
    simp only [Bool.or_eq_true, Bool.and_eq_true] at h
    rcases h with h | ⟨h1, h2⟩
    · obtain ⟨y, hy, hs⟩ := hf.dn h
      exact ⟨y, hy, SAnc.of_anc_left (Anc.parent hp) hs⟩
    · exact ⟨c, ⟨hf.a1 h1, hf.a2 h2⟩, p, hp, Anc.refl p⟩

theorem pushParent_sound {g : Graph} {c1 : Nat} {c2s : List Nat} {cut : Nat → Bool} {cfl : Flags}
    {acc : FlagMap × List Entry} {p : Nat}
    (h : Sound g c1 c2s acc.1) (hp : Good g c1 c2s p cfl) :
    Sound g c1 c2s (pushParent g cut cfl acc p).1 := by
  unfold pushParent
  simp only
  split
  · exact h
  · split
    · exact h
    · apply Sound.set h
      apply Good.union _ hp
      cases hg : acc.1.get p with
      | none => exact Good.zero g c1 c2s p
      | some pf => exact h p pf hg

/-! ## the loop: decomposition and induction principle -/

theorem step_ok {g : Graph} {cut : Nat → Bool} {s s' : St} (h : step g cut s = .ok s') :
    ∃ dt c rest f, popMax s.wl = some ((dt, c), rest) ∧ s.fl.get c = some f ∧
      s' = stepWith g cut s dt c rest f := by
  unfold step at h
  split at h
  · cases h
  · rename_i dt c rest hpop
    split at h
    · cases h
    · rename_i f hf
      cases h
      exact ⟨dt, c, rest, f, hpop, hf, rfl⟩

/-- an invariant of the loop body is an invariant of the loop; on exit nothing viable is queued -/
theorem loop_inv {g : Graph} {cut : Nat → Bool} (I : St → Prop)
    (hstep : ∀ s dt c rest f, I s → hasCandidates s = true → popMax s.wl = some ((dt, c), rest) →
      s.fl.get c = some f → I (stepWith g cut s dt c rest f)) :
    ∀ (fuel : Nat) (s s' : St), I s → loop g cut fuel s = .ok s' → I s' ∧ hasCandidates s' = false := by
  intro fuel
  induction fuel with
  | zero =>
    intro s s' hI h
    simp only [loop] at h
    split at h
    · cases h
    · cases h; exact ⟨hI, by simpa using ‹¬hasCandidates s = true›⟩
  | succ n ih =>
    intro s s' hI h
    simp only [loop] at h
    split at h
    · rename_i hc
      split at h
      · rename_i s1 hs1
        obtain ⟨dt, c, rest, f, hpop, hf, rfl⟩ := step_ok hs1
        exact ih _ _ (hstep s dt c rest f hI hc hpop hf) h
      · cases h
    · cases h; exact ⟨hI, by simpa using ‹¬hasCandidates s = true›⟩

/-! ## flag words only grow -/

def Grows (a b : FlagMap) : Prop :=
  ∀ c f, a.get c = some f → ∃ f', b.get c = some f' ∧ f'.covers f = true

theorem Grows.refl (a : FlagMap) : Grows a a := fun _ f h => ⟨f, h, covers_refl f⟩

theorem Grows.trans {a b c : FlagMap} (h1 : Grows a b) (h2 : Grows b c) : Grows a c := by
  intro x f hx
  obtain ⟨f1, hf1, hc1⟩ := h1 x f hx
  obtain ⟨f2, hf2, hc2⟩ := h2 x f1 hf1
  exact ⟨f2, hf2, covers_mono hc1 hc2⟩

theorem grows_set {fl : FlagMap} {c : Nat} {f : Flags}
    (h : ∀ f0, fl.get c = some f0 → f.covers f0 = true) : Grows fl (fl.set c f) := by
  intro d f0 hd
  rw [FlagMap.get_set]
  split
  · rename_i hc
    obtain ⟨rfl, _⟩ := hc
    exact ⟨f, rfl, h f0 hd⟩
  · exact ⟨f0, hd, covers_refl f0⟩

theorem pushParent_grows (g : Graph) (cut : Nat → Bool) (cfl : Flags) (acc : FlagMap × List Entry) (p : Nat) :
    Grows acc.1 (pushParent g cut cfl acc p).1 := by
  unfold pushParent
  simp only
  split
  · exact Grows.refl _
  · split
    · exact Grows.refl _
    · apply grows_set
      intro f0 hf0
      rw [hf0]
      exact union_covers_left f0 cfl

theorem pushParents_grows (g : Graph) (cut : Nat → Bool) (cfl : Flags) (ps : List Nat) (acc : FlagMap × List Entry) :
    Grows acc.1 (ps.foldl (pushParent g cut cfl) acc).1 := by
  induction ps generalizing acc with
  | nil => exact Grows.refl _
  | cons p ps ih => exact (pushParent_grows g cut cfl acc p).trans (ih _)

theorem setLca_covers (f : Flags) : ({ f with lca := true } : Flags).covers f = true := by
  cases f with
  | mk a b c d => cases a <;> cases b <;> cases c <;> cases d <;> decide

/-- the map after the candidate bookkeeping of one iteration -/
def fl1Of (s : St) (c : Nat) (f : Flags) : FlagMap :=
  if (f.ancMask.isBoth && !f.lca) = true then s.fl.set c { f with lca := true } else s.fl

theorem stepWith_fl (g : Graph) (cut : Nat → Bool) (s : St) (dt : Int) (c : Nat) (rest : List Entry) (f : Flags) :
    (stepWith g cut s dt c rest f).fl =
      ((g.parents c).foldl (pushParent g cut (cflagsOf f)) (fl1Of s c f, rest)).1 := rfl

theorem stepWith_wl (g : Graph) (cut : Nat → Bool) (s : St) (dt : Int) (c : Nat) (rest : List Entry) (f : Flags) :
    (stepWith g cut s dt c rest f).wl =
      ((g.parents c).foldl (pushParent g cut (cflagsOf f)) (fl1Of s c f, rest)).2 := rfl

theorem stepWith_cands (g : Graph) (cut : Nat → Bool) (s : St) (dt : Int) (c : Nat) (rest : List Entry) (f : Flags) :
    (stepWith g cut s dt c rest f).cands =
      if (f.ancMask.isBoth && !f.lca) = true then s.cands ++ [(dt, c)] else s.cands := rfl

theorem fl1Of_grows {s : St} {c : Nat} {f : Flags} (hf : s.fl.get c = some f) : Grows s.fl (fl1Of s c f) := by
  unfold fl1Of
  split
  · apply grows_set
    intro f0 h0
    rw [hf] at h0; cases h0
    exact setLca_covers f
  · exact Grows.refl _

theorem stepWith_grows {g : Graph} {cut : Nat → Bool} {s : St} {dt : Int} {c : Nat} {rest : List Entry} {f : Flags}
    (hf : s.fl.get c = some f) : Grows s.fl (stepWith g cut s dt c rest f).fl := by
  rw [stepWith_fl]
  exact (fl1Of_grows hf).trans (pushParents_grows g cut (cflagsOf f) (g.parents c) (fl1Of s c f, rest))

/-! ## invariant 1 for states -/

structure SoundSt (g : Graph) (c1 : Nat) (c2s : List Nat) (s : St) : Prop where
  fl : Sound g c1 c2s s.fl
  cands : ∀ e, e ∈ s.cands → ∃ f, s.fl.get e.2 = some f ∧ f.anc1 = true ∧ f.anc2 = true

theorem fl1Of_sound {g : Graph} {c1 : Nat} {c2s : List Nat} {s : St} {c : Nat} {f : Flags}
    (h : Sound g c1 c2s s.fl) (hf : s.fl.get c = some f) : Sound g c1 c2s (fl1Of s c f) := by
  unfold fl1Of
  split
  · apply Sound.set h
    have := h c f hf
    exact ⟨this.a1, this.a2, this.dn⟩
  · exact h

theorem stepWith_sound {g : Graph} {c1 : Nat} {c2s : List Nat} {cut : Nat → Bool} {s : St} {dt : Int} {c : Nat}
    {rest : List Entry} {f : Flags} (h : SoundSt g c1 c2s s) (hf : s.fl.get c = some f) :
    SoundSt g c1 c2s (stepWith g cut s dt c rest f) := by
  have hgood := h.fl c f hf
  constructor
  · rw [stepWith_fl]
    exact foldl_inv (fun acc : FlagMap × List Entry => Sound g c1 c2s acc.1) _ _ _ (fl1Of_sound h.fl hf)
      (fun acc p hp hacc => pushParent_sound hacc (hgood.down hp))
  · intro e he
    rw [stepWith_cands] at he
    have hgrow := stepWith_grows (g := g) (cut := cut) (dt := dt) (rest := rest) hf
    have old : ∀ e, e ∈ s.cands → ∃ f', (stepWith g cut s dt c rest f).fl.get e.2 = some f' ∧
        f'.anc1 = true ∧ f'.anc2 = true := by
      intro e he
      obtain ⟨f0, hf0, h1, h2⟩ := h.cands e he
      obtain ⟨f', hf', hcov⟩ := hgrow e.2 f0 hf0
      rw [covers_iff] at hcov
      exact ⟨f', hf', hcov.1 h1, hcov.2.1 h2⟩
    split at he
    · rename_i hnew
      rcases List.mem_append.mp he with he | he
      · exact old e he
      · simp only [List.mem_singleton] at he
        subst he
        obtain ⟨f', hf', hcov⟩ := hgrow c f hf
        rw [covers_iff] at hcov
        simp only [Bool.and_eq_true, isBoth_ancMask] at hnew
        exact ⟨f', hf', hcov.1 hnew.1.1.1, hcov.2.1 hnew.1.1.2⟩
    · exact old e he

/-! ## initial state -/

theorem initC2_fold_sound {g : Graph} {c1 : Nat} {c2s : List Nat} :
    ∀ (l : List Nat) (s : St), (∀ c, c ∈ l → c ∈ c2s) → SoundSt g c1 c2s s → s.cands = [] →
      SoundSt g c1 c2s (l.foldl (initC2 g) s) ∧ (l.foldl (initC2 g) s).cands = []
  | [], s, _, h, hc => ⟨h, hc⟩
  | c2 :: l, s, hl, h, hc => by
    simp only [List.foldl_cons]
    apply initC2_fold_sound l _ (fun c hc' => hl c (by simp [hc']))
    · constructor
      · simp only [initC2]
        apply Sound.set h.fl
        have hold : Good g c1 c2s c2 ((s.fl.get c2).getD Flags.zero) := by
          cases hg : s.fl.get c2 with
          | none => exact Good.zero g c1 c2s c2
          | some pf => exact h.fl c2 pf hg
        exact ⟨hold.a1, fun _ => ⟨c2, hl c2 (by simp), Anc.refl c2⟩, hold.dn⟩
      · intro e he
        simp only [initC2] at he
        rw [hc] at he; cases he
    · simp only [initC2]; exact hc

theorem init_sound (g : Graph) (c1 : Nat) (c2s : List Nat) :
    SoundSt g c1 c2s (init g c1 c2s) ∧ (init g c1 c2s).cands = [] := by
  unfold init
  apply initC2_fold_sound c2s _ (fun _ h => h)
  · constructor
    · simp only
      apply Sound.set
      · intro c f hc
        simp at hc
      · exact ⟨fun _ => Anc.refl c1, by simp, by simp⟩
    · intro e he; cases he
  · rfl

/-! ## the final filter and the sort -/

theorem mem_insertByStamp (e x : Entry) : ∀ l : List Entry, x ∈ insertByStamp e l ↔ x = e ∨ x ∈ l
  | [] => by simp [insertByStamp]
  | y :: r => by
    simp only [insertByStamp]
    split
    · simp
    · simp only [List.mem_cons, mem_insertByStamp e x r]
      constructor
      · rintro (h | h | h)
        · exact Or.inr (Or.inl h)
        · exact Or.inl h
        · exact Or.inr (Or.inr h)
      · rintro (h | h | h)
        · exact Or.inr (Or.inl h)
        · exact Or.inl h
        · exact Or.inr (Or.inr h)

theorem mem_sortByStamp_aux (x : Entry) : ∀ (l acc : List Entry),
    x ∈ l.foldl (fun acc e => insertByStamp e acc) acc ↔ x ∈ l ∨ x ∈ acc
  | [], acc => by simp
  | e :: l, acc => by
    simp only [List.foldl_cons, mem_sortByStamp_aux x l, mem_insertByStamp, List.mem_cons]
    constructor
    · rintro (h | h | h)
      · exact Or.inl (Or.inr h)
      · exact Or.inl (Or.inl h)
      · exact Or.inr h
    · rintro ((h | h) | h)
      · exact Or.inr (Or.inl h)
      · exact Or.inl h
      · exact Or.inr (Or.inr h)

theorem mem_sortByStamp (x : Entry) (l : List Entry) : x ∈ sortByStamp l ↔ x ∈ l := by
  unfold sortByStamp
  rw [mem_sortByStamp_aux]; simp

/-- the final filter returns exactly the candidates (and accumulated entries) whose word has no `_DNC` -/
theorem finalFilter_mem {fl : FlagMap} : ∀ (cands acc res : List Entry),
    finalFilter fl cands acc = .ok res →
    ∀ x, x ∈ res ↔ x ∈ acc ∨ (x ∈ cands ∧ ∃ f, fl.get x.2 = some f ∧ f.dnc = false)
  | [], acc, res, h, x => by
    simp only [finalFilter] at h; cases h; simp
  | (dt, c) :: r, acc, res, h, x => by
    simp only [finalFilter] at h
    split at h
    · cases h
    · rename_i f hf
      split at h
      · rename_i hcond
        simp only [Bool.and_eq_true, Bool.not_eq_true', List.contains_eq_mem, decide_eq_false_iff_not] at hcond
        rw [finalFilter_mem r _ res h x]
        simp only [List.mem_append, List.mem_cons, List.not_mem_nil, or_false]
        constructor
        · rintro ((h1 | h1) | h1)
          · exact Or.inl h1
          · subst h1; exact Or.inr ⟨Or.inl rfl, f, hf, hcond.1⟩
          · exact Or.inr ⟨Or.inr h1.1, h1.2⟩
        · rintro (h1 | ⟨h1 | h1, h2⟩)
          · exact Or.inl (Or.inl h1)
          · exact Or.inl (Or.inr h1)
          · exact Or.inr ⟨h1, h2⟩
      · rename_i hcond
        rw [finalFilter_mem r _ res h x]
        simp only [List.mem_cons]
        constructor
        · rintro (h1 | h1)
          · exact Or.inl h1
          · exact Or.inr ⟨Or.inr h1.1, h1.2⟩
        · rintro (h1 | ⟨h1 | h1, h2⟩)
          · exact Or.inl h1
          · subst h1
            obtain ⟨f', hf', hd⟩ := h2
            simp only at hf'
            rw [hf] at hf'; cases hf'
            simp only [Bool.and_eq_true, Bool.not_eq_true', List.contains_eq_mem, decide_eq_false_iff_not,
              not_and, Classical.not_not] at hcond
            exact Or.inl (hcond hd)
          · exact Or.inr ⟨h1, h2⟩

/-! ## invariant 2: no `KeyError`, queue stamps are commit stamps; termination measure -/

/-- state of the parents loop: the flag map has one slot per commit, every queued entry carries its commit's
stamp and has a `cstates` entry -/
structure DomAcc (g : Graph) (acc : FlagMap × List Entry) : Prop where
  size : acc.1.size = g.n
  wl : ∀ e, e ∈ acc.2 → e.1 = g.ts e.2 ∧ ∃ f, acc.1.get e.2 = some f

structure Dom (g : Graph) (s : St) : Prop where
  acc : DomAcc g (s.fl, s.wl)
  cands : ∀ e, e ∈ s.cands → e.1 = g.ts e.2 ∧ ∃ f, s.fl.get e.2 = some f

theorem Grows.some {a b : FlagMap} (h : Grows a b) {c : Nat} (hc : ∃ f, a.get c = some f) :
    ∃ f, b.get c = some f := by
  obtain ⟨f, hf⟩ := hc
  obtain ⟨f', hf', _⟩ := h c f hf
  exact ⟨f', hf'⟩

/-- the two outcomes of the body of the parents loop: nothing happens (flags already there, or the parent is
older than `min_stamp`), or the parent's word is OR-ed with the child's flags and the parent is queued -/
theorem pushParent_cases (g : Graph) (cut : Nat → Bool) (cfl : Flags) (acc : FlagMap × List Entry) (p : Nat) :
    (pushParent g cut cfl acc p = acc ∧
      (((acc.1.get p).getD Flags.zero).covers cfl = true ∨ cut p = true)) ∨
    (((acc.1.get p).getD Flags.zero).covers cfl = false ∧ ¬ cut p = true ∧
      pushParent g cut cfl acc p =
        (acc.1.set p (((acc.1.get p).getD Flags.zero).union cfl), (g.ts p, p) :: acc.2)) := by
  unfold pushParent
  simp only
  by_cases hc : ((acc.1.get p).getD Flags.zero).covers cfl = true
  · left; simp [hc]
  · by_cases hm : cut p = true
    · left; simp [hc, hm]
    · right
      refine ⟨by simpa using hc, hm, ?_⟩
      simp [hc, hm]

theorem pushParent_size (g : Graph) (cut : Nat → Bool) (cfl : Flags) (acc : FlagMap × List Entry) (p : Nat) :
    (pushParent g cut cfl acc p).1.size = acc.1.size := by
  unfold pushParent
  simp only
  split
  · rfl
  · split
    · rfl
    · simp

theorem pushParent_dom {g : Graph} {cut : Nat → Bool} {cfl : Flags} {acc : FlagMap × List Entry} {p : Nat}
    (h : DomAcc g acc) (hp : p < g.n) : DomAcc g (pushParent g cut cfl acc p) := by
  have hg := pushParent_grows g cut cfl acc p
  rcases pushParent_cases g cut cfl acc p with ⟨heq, _⟩ | ⟨_, _, heq⟩
  · rw [heq]; exact h
  · rw [heq] at hg ⊢
    constructor
    · simp only [FlagMap.size_set]; exact h.size
    · intro e he
      simp only [List.mem_cons] at he
      rcases he with rfl | he
      · exact ⟨rfl, _, FlagMap.get_set_self _ _ _ (by rw [h.size]; exact hp)⟩
      · exact ⟨(h.wl e he).1, hg.some (h.wl e he).2⟩

theorem pushParents_dom {g : Graph} {cut : Nat → Bool} {cfl : Flags} :
    ∀ (ps : List Nat) (acc : FlagMap × List Entry), DomAcc g acc → (∀ p, p ∈ ps → p < g.n) →
      DomAcc g (ps.foldl (pushParent g cut cfl) acc)
  | [], _, h, _ => h
  | p :: ps, acc, h, hps => by
    simp only [List.foldl_cons]
    exact pushParents_dom ps _ (pushParent_dom h (hps p (by simp))) (fun q hq => hps q (by simp [hq]))

theorem fl1Of_size (s : St) (c : Nat) (f : Flags) : (fl1Of s c f).size = s.fl.size := by
  unfold fl1Of; split <;> simp

theorem mem_erase_sub {l : List Entry} {b e : Entry} (h : e ∈ l.erase b) : e ∈ l :=
  List.mem_of_mem_erase h

theorem stepWith_dom {g : Graph} {cut : Nat → Bool} {s : St} {dt : Int} {c : Nat} {rest : List Entry} {f : Flags}
    (hwf : g.WF) (h : Dom g s) (hpop : popMax s.wl = some ((dt, c), rest)) (hf : s.fl.get c = some f) :
    Dom g (stepWith g cut s dt c rest f) := by
  obtain ⟨hb, hrest, _⟩ := popMax_spec hpop
  have hc : c < g.n := by
    have := FlagMap.get_lt hf
    rw [h.acc.size] at this; exact this
  have hg1 := fl1Of_grows hf
  have hacc1 : DomAcc g (fl1Of s c f, rest) := by
    constructor
    · simp only; rw [fl1Of_size]; exact h.acc.size
    · intro e he
      simp only at he ⊢
      rw [hrest] at he
      have := h.acc.wl e (mem_erase_sub he)
      exact ⟨this.1, hg1.some this.2⟩
  have hacc := pushParents_dom (cut := cut) (cfl := cflagsOf f) (g.parents c) _ hacc1 (fun p hp => hwf c hc p hp)
  constructor
  · exact hacc
  · intro e he
    have hgrow := stepWith_grows (g := g) (cut := cut) (dt := dt) (rest := rest) hf
    rw [stepWith_cands] at he
    split at he
    · rcases List.mem_append.mp he with he | he
      · exact ⟨(h.cands e he).1, hgrow.some (h.cands e he).2⟩
      · simp only [List.mem_cons, List.not_mem_nil, or_false] at he
        subst he
        exact ⟨(h.acc.wl _ hb).1, hgrow.some ⟨f, hf⟩⟩
    · exact ⟨(h.cands e he).1, hgrow.some (h.cands e he).2⟩

/-- room left in the flag word of commit `c` (an absent word has all three propagating bits clear) -/
def roomAt (fl : FlagMap) (c : Nat) : Nat :=
  match fl.get c with
  | some f => f.room
  | none => 3

/-- total room over commits `0 .. n-1` -/
def total (fl : FlagMap) : Nat → Nat
  | 0 => 0
  | n + 1 => total fl n + roomAt fl n

theorem roomAt_le (fl : FlagMap) (c : Nat) : roomAt fl c ≤ 3 := by
  unfold roomAt; split
  · exact room_le _
  · exact Nat.le_refl 3

theorem total_le (fl : FlagMap) : ∀ n, total fl n ≤ 3 * n
  | 0 => by simp [total]
  | n + 1 => by
    have := total_le fl n
    have := roomAt_le fl n
    simp only [total]; omega

theorem total_mono {a b : FlagMap} (h : ∀ d, roomAt b d ≤ roomAt a d) : ∀ n, total b n ≤ total a n
  | 0 => by simp [total]
  | n + 1 => by
    have := total_mono h n
    have := h n
    simp only [total]; omega

theorem total_strict {a b : FlagMap} (h : ∀ d, roomAt b d ≤ roomAt a d) {p : Nat}
    (hp : roomAt b p + 1 ≤ roomAt a p) : ∀ n, p < n → total b n + 1 ≤ total a n
  | 0, hn => by omega
  | n + 1, hn => by
    simp only [total]
    by_cases hpn : p = n
    · subst hpn
      have := total_mono h p
      omega
    · have := total_strict h hp n (by omega)
      have := h n
      omega

theorem roomAt_getD (fl : FlagMap) (p : Nat) : roomAt fl p = ((fl.get p).getD Flags.zero).room := by
  unfold roomAt
  cases fl.get p with
  | none => rfl
  | some f => rfl

theorem roomAt_set (fl : FlagMap) (c d : Nat) (f : Flags) :
    roomAt (fl.set c f) d = if c = d ∧ c < fl.size then f.room else roomAt fl d := by
  unfold roomAt
  rw [FlagMap.get_set]
  by_cases h : c = d ∧ c < fl.size
  · rw [if_pos h, if_pos h]
  · rw [if_neg h, if_neg h]

theorem pushParent_measure {g : Graph} {cut : Nat → Bool} {cfl : Flags} {acc : FlagMap × List Entry} {p : Nat}
    (hsize : acc.1.size = g.n) (hp : p < g.n) (hc : cfl.lca = false) :
    (pushParent g cut cfl acc p).2.length + total (pushParent g cut cfl acc p).1 g.n ≤
      acc.2.length + total acc.1 g.n := by
  rcases pushParent_cases g cut cfl acc p with ⟨heq, _⟩ | ⟨hcov, _, heq⟩
  · rw [heq]; exact Nat.le_refl _
  · rw [heq]
    simp only [List.length_cons]
    have hlt := room_union_lt (p := (acc.1.get p).getD Flags.zero) hc hcov
    have hle : ∀ d, roomAt (acc.1.set p (((acc.1.get p).getD Flags.zero).union cfl)) d ≤ roomAt acc.1 d := by
      intro d
      rw [roomAt_set]
      split
      · rename_i h; obtain ⟨rfl, _⟩ := h
        rw [roomAt_getD]; omega
      · exact Nat.le_refl _
    have hst : roomAt (acc.1.set p (((acc.1.get p).getD Flags.zero).union cfl)) p + 1 ≤ roomAt acc.1 p := by
      rw [roomAt_set, roomAt_getD]
      simp only [true_and, hsize, hp, if_true]
      exact hlt
    have := total_strict hle hst g.n hp
    omega

theorem pushParents_measure {g : Graph} {cut : Nat → Bool} {cfl : Flags} (hc : cfl.lca = false) :
    ∀ (ps : List Nat) (acc : FlagMap × List Entry), acc.1.size = g.n → (∀ p, p ∈ ps → p < g.n) →
      (ps.foldl (pushParent g cut cfl) acc).2.length + total (ps.foldl (pushParent g cut cfl) acc).1 g.n ≤
        acc.2.length + total acc.1 g.n
  | [], _, _, _ => Nat.le_refl _
  | p :: ps, acc, hs, hps => by
    simp only [List.foldl_cons]
    have h1 := pushParent_measure (cut := cut) (acc := acc) hs (hps p (by simp)) hc
    have h2 := pushParents_measure (cut := cut) hc ps (pushParent g cut cfl acc p) (by rw [pushParent_size]; exact hs)
      (fun q hq => hps q (by simp [hq]))
    omega

theorem room_setLca (f : Flags) : ({ f with lca := true } : Flags).room = f.room := rfl

theorem fl1Of_total {s : St} {c : Nat} {f : Flags} (hf : s.fl.get c = some f) (n : Nat) :
    total (fl1Of s c f) n ≤ total s.fl n := by
  apply total_mono
  intro d
  unfold fl1Of
  split
  · rw [roomAt_set]
    split
    · rename_i h; obtain ⟨rfl, _⟩ := h
      rw [room_setLca]
      simp [roomAt, hf]
    · exact Nat.le_refl _
  · exact Nat.le_refl _

/-- the termination measure: queue length plus total room -/
def mu (g : Graph) (s : St) : Nat := s.wl.length + total s.fl g.n

theorem stepWith_measure {g : Graph} {cut : Nat → Bool} {s : St} {dt : Int} {c : Nat} {rest : List Entry} {f : Flags}
    (hwf : g.WF) (h : Dom g s) (hpop : popMax s.wl = some ((dt, c), rest)) (hf : s.fl.get c = some f) :
    mu g (stepWith g cut s dt c rest f) + 1 ≤ mu g s := by
  obtain ⟨hb, hrest, _⟩ := popMax_spec hpop
  have hc : c < g.n := by
    have := FlagMap.get_lt hf
    rw [h.acc.size] at this; exact this
  unfold mu
  rw [stepWith_fl, stepWith_wl]
  have h1 := pushParents_measure (g := g) (cut := cut) (cflagsOf_lca f) (g.parents c) (fl1Of s c f, rest)
    (by simp only; rw [fl1Of_size]; exact h.acc.size) (fun p hp => hwf c hc p hp)
  have h2 := fl1Of_total hf g.n
  have h3 : rest.length + 1 = s.wl.length := by
    rw [hrest, List.length_erase_of_mem hb]
    have : 0 < s.wl.length := List.length_pos_of_mem hb
    omega
  simp only at h1
  omega

theorem hasCandidates_nonempty {s : St} (h : hasCandidates s = true) : s.wl ≠ [] := by
  intro he
  simp [hasCandidates, he] at h

/-- with fuel at least the measure the loop finishes without any error -/
theorem loop_ok {g : Graph} {cut : Nat → Bool} (hwf : g.WF) :
    ∀ (fuel : Nat) (s : St), Dom g s → mu g s ≤ fuel → ∃ s', loop g cut fuel s = .ok s'
  | 0, s, _, hmu => by
    simp only [loop]
    split
    · rename_i hc
      have := hasCandidates_nonempty hc
      unfold mu at hmu
      have : s.wl.length = 0 := by omega
      exact absurd (List.length_eq_zero_iff.mp this) ‹s.wl ≠ []›
    · exact ⟨s, rfl⟩
  | fuel + 1, s, hd, hmu => by
    simp only [loop]
    split
    · rename_i hc
      have hne := hasCandidates_nonempty hc
      cases hpop : popMax s.wl with
      | none => exact absurd (popMax_none hpop) hne
      | some r =>
        obtain ⟨⟨dt, c⟩, rest⟩ := r
        obtain ⟨hb, _, _⟩ := popMax_spec hpop
        obtain ⟨f, hf⟩ := (hd.acc.wl _ hb).2
        simp only at hf
        have hstep : step g cut s = .ok (stepWith g cut s dt c rest f) := by
          simp only [step, hpop, hf]
        rw [hstep]
        simp only
        have hm := stepWith_measure (cut := cut) hwf hd hpop hf
        exact loop_ok hwf fuel _ (stepWith_dom hwf hd hpop hf) (by omega)
    · exact ⟨s, rfl⟩

theorem finalFilter_ok {fl : FlagMap} : ∀ (cands acc : List Entry),
    (∀ e, e ∈ cands → ∃ f, fl.get e.2 = some f) → ∃ res, finalFilter fl cands acc = .ok res
  | [], acc, _ => ⟨acc, rfl⟩
  | (dt, c) :: r, acc, h => by
    obtain ⟨f, hf⟩ := h (dt, c) (by simp)
    simp only at hf
    simp only [finalFilter, hf]
    split
    · exact finalFilter_ok r _ (fun e he => h e (by simp [he]))
    · exact finalFilter_ok r _ (fun e he => h e (by simp [he]))

/-! ### initial state -/

theorem initC2_fold_dom {g : Graph} :
    ∀ (l : List Nat) (s : St), (∀ c, c ∈ l → c < g.n) → Dom g s → s.cands = [] →
      Dom g (l.foldl (initC2 g) s) ∧ (l.foldl (initC2 g) s).wl.length = s.wl.length + l.length
  | [], s, _, h, _ => ⟨h, by simp⟩
  | c2 :: l, s, hl, h, hc => by
    simp only [List.foldl_cons]
    have hgrow : Grows s.fl (s.fl.set c2 { (s.fl.get c2).getD Flags.zero with anc2 := true }) := by
      apply grows_set
      intro f0 h0
      rw [h0]
      cases f0 with
      | mk a b c d => cases a <;> cases b <;> cases c <;> cases d <;> decide
    have hd : Dom g (initC2 g s c2) := by
      constructor
      · constructor
        · simp only [initC2, FlagMap.size_set]; exact h.acc.size
        · intro e he
          simp only [initC2, List.mem_cons] at he ⊢
          rcases he with rfl | he
          · exact ⟨rfl, _, FlagMap.get_set_self _ _ _ (by rw [h.acc.size]; exact hl c2 (by simp))⟩
          · exact ⟨(h.acc.wl e he).1, hgrow.some (h.acc.wl e he).2⟩
      · intro e he
        simp only [initC2] at he
        rw [hc] at he; cases he
    have := initC2_fold_dom l (initC2 g s c2) (fun c hc' => hl c (by simp [hc'])) hd (by simp only [initC2]; exact hc)
    refine ⟨this.1, ?_⟩
    rw [this.2]
    simp only [initC2, List.length_cons]
    omega

theorem init_dom {g : Graph} {c1 : Nat} {c2s : List Nat} (h1 : c1 < g.n) (h2 : ∀ c, c ∈ c2s → c < g.n) :
    Dom g (init g c1 c2s) ∧ (init g c1 c2s).wl.length = 1 + c2s.length := by
  unfold init
  have := initC2_fold_dom (g := g) c2s
    { wl := [(g.ts c1, c1)], fl := (FlagMap.empty g.n).set c1 ⟨true, false, false, false⟩, cands := [] } h2
    (by
      constructor
      · constructor
        · simp
        · intro e he
          simp only [List.mem_cons, List.not_mem_nil, or_false] at he
          subst he
          exact ⟨rfl, _, FlagMap.get_set_self _ _ _ (by simpa using h1)⟩
      · intro e he; cases he)
    rfl
  refine ⟨this.1, ?_⟩
  rw [this.2]; simp

/-! ## invariant 3: flags are handed down completely unless the commit is queued again (every clock) -/

theorem Grows.getD {a b : FlagMap} (h : Grows a b) (p : Nat) :
    ((b.get p).getD Flags.zero).covers ((a.get p).getD Flags.zero) = true := by
  cases ha : a.get p with
  | none =>
    simp only [Option.getD_none]
    rw [covers_iff]
    simp [Flags.zero]
  | some f =>
    obtain ⟨f', hf', hc⟩ := h p f ha
    simp only [hf', Option.getD_some]
    exact hc

/-- parent `p` has been served with the flags `cfl` (or is cut off by `min_stamp`) -/
def Served (g : Graph) (cut : Nat → Bool) (cfl : Flags) (p : Nat) (fl : FlagMap) : Prop :=
  cut p = true ∨ ((fl.get p).getD Flags.zero).covers cfl = true

theorem Served.mono {g : Graph} {cut : Nat → Bool} {cfl : Flags} {p : Nat} {a b : FlagMap}
    (h : Served g cut cfl p a) (hg : Grows a b) : Served g cut cfl p b := by
  rcases h with h | h
  · exact Or.inl h
  · exact Or.inr (covers_mono h (hg.getD p))

/-- relation between the map/queue before the parents loop (`fl1`, `rest`) and at some point in it -/
structure FoldRel (fl1 : FlagMap) (rest : List Entry) (acc : FlagMap × List Entry) : Prop where
  grows : Grows fl1 acc.1
  same : ∀ d f', acc.1.get d = some f' → fl1.get d = some f' ∨ ∃ dt, (dt, d) ∈ acc.2
  sub : ∀ e, e ∈ rest → e ∈ acc.2
  lca : ∀ d f', acc.1.get d = some f' → f'.lca = true → ∃ f0, fl1.get d = some f0 ∧ f0.lca = true

theorem FoldRel.refl (fl1 : FlagMap) (rest : List Entry) : FoldRel fl1 rest (fl1, rest) :=
  ⟨Grows.refl _, fun _ _ h => Or.inl h, fun _ h => h, fun _ f' h hl => ⟨f', h, hl⟩⟩

theorem pushParent_foldRel {g : Graph} {cut : Nat → Bool} {cfl : Flags} {fl1 : FlagMap} {rest : List Entry}
    {acc : FlagMap × List Entry} {p : Nat} (hc : cfl.lca = false) (h : FoldRel fl1 rest acc) :
    FoldRel fl1 rest (pushParent g cut cfl acc p) := by
  have hg := pushParent_grows g cut cfl acc p
  rcases pushParent_cases g cut cfl acc p with ⟨heq, _⟩ | ⟨_, _, heq⟩
  · rw [heq]; exact h
  · rw [heq] at hg ⊢
    constructor
    · exact h.grows.trans hg
    · intro d f' hd
      rcases FlagMap.get_set_cases hd with ⟨rfl, _⟩ | hd'
      · exact Or.inr ⟨g.ts d, by simp⟩
      · rcases h.same d f' hd' with h1 | ⟨dt, h1⟩
        · exact Or.inl h1
        · exact Or.inr ⟨dt, by simp [h1]⟩
    · intro e he
      simp [h.sub e he]
    · intro d f' hd hl
      rcases FlagMap.get_set_cases hd with ⟨rfl, rfl⟩ | hd'
      · simp only [Flags.union, hc, Bool.or_false] at hl
        cases hg' : acc.1.get d with
        | none => simp [hg', Flags.zero] at hl
        | some pf =>
          simp only [hg', Option.getD_some] at hl
          exact h.lca d pf hg' hl
      · exact h.lca d f' hd' hl

theorem pushParents_foldRel {g : Graph} {cut : Nat → Bool} {cfl : Flags} {fl1 : FlagMap} {rest : List Entry}
    (hc : cfl.lca = false) (ps : List Nat) :
    FoldRel fl1 rest (ps.foldl (pushParent g cut cfl) (fl1, rest)) :=
  foldl_inv (FoldRel fl1 rest) _ ps _ (FoldRel.refl fl1 rest) (fun _ _ _ h => pushParent_foldRel hc h)

theorem pushParent_served {g : Graph} {cut : Nat → Bool} {cfl : Flags} {acc : FlagMap × List Entry} {p : Nat}
    (hp : p < acc.1.size) : Served g cut cfl p (pushParent g cut cfl acc p).1 := by
  rcases pushParent_cases g cut cfl acc p with ⟨heq, h | h⟩ | ⟨_, _, heq⟩
  · rw [heq]; exact Or.inr h
  · exact Or.inl h
  · rw [heq]
    right
    simp only [FlagMap.get_set_self _ _ _ hp, Option.getD_some]
    exact covers_union _ _

theorem pushParents_served {g : Graph} {cut : Nat → Bool} {cfl : Flags} (ps : List Nat) (acc : FlagMap × List Entry)
    (hps : ∀ p, p ∈ ps → p < acc.1.size) (p : Nat) (hp : p ∈ ps) :
    Served g cut cfl p (ps.foldl (pushParent g cut cfl) acc).1 := by
  induction ps generalizing acc with
  | nil => cases hp
  | cons q ps ih =>
    simp only [List.foldl_cons]
    by_cases hin : p ∈ ps
    · exact ih _ (fun r hr => by rw [pushParent_size]; exact hps r (by simp [hr])) hin
    · have : p = q := by
        rcases List.mem_cons.mp hp with h | h
        · exact h
        · exact absurd h hin
      subst this
      exact (pushParent_served (hps p (by simp))).mono (pushParents_grows g cut cfl ps _)

/-- the liveness invariant of the loop -/
structure Live (g : Graph) (cut : Nat → Bool) (c1 : Nat) (c2s : List Nat) (s : St) : Prop where
  c1 : ∃ f, s.fl.get c1 = some f ∧ f.anc1 = true
  c2 : ∀ c2, c2 ∈ c2s → ∃ f, s.fl.get c2 = some f ∧ f.anc2 = true
  settled : ∀ c f, s.fl.get c = some f →
    (∃ dt, (dt, c) ∈ s.wl) ∨ ∀ p, p ∈ g.parents c → Served g cut (cflagsOf f) p s.fl
  lcaCand : ∀ c f, s.fl.get c = some f → f.lca = true → ∃ dt, (dt, c) ∈ s.cands
  both : ∀ c f, s.fl.get c = some f → f.anc1 = true → f.anc2 = true → f.dnc = false →
    (∃ dt, (dt, c) ∈ s.wl) ∨ f.lca = true

theorem cflagsOf_setLca (f : Flags) : cflagsOf { f with lca := true } = cflagsOf f := by
  cases f with
  | mk a b c d => cases a <;> cases b <;> cases c <;> cases d <;> rfl

theorem fl1Of_get {s : St} {c : Nat} {f : Flags} {d : Nat} {f' : Flags} (h : (fl1Of s c f).get d = some f') :
    s.fl.get d = some f' ∨ (d = c ∧ f' = { f with lca := true } ∧ (f.ancMask.isBoth && !f.lca) = true) := by
  unfold fl1Of at h
  split at h
  · rename_i hn
    rcases FlagMap.get_set_cases h with ⟨rfl, rfl⟩ | h'
    · exact Or.inr ⟨rfl, rfl, hn⟩
    · exact Or.inl h'
  · exact Or.inl h

theorem stepWith_live {g : Graph} {cut : Nat → Bool} {c1 : Nat} {c2s : List Nat} {s : St} {dt : Int} {c : Nat}
    {rest : List Entry} {f : Flags} (hwf : g.WF) (hd : Dom g s) (h : Live g cut c1 c2s s)
    (hpop : popMax s.wl = some ((dt, c), rest)) (hf : s.fl.get c = some f) :
    Live g cut c1 c2s (stepWith g cut s dt c rest f) := by
  obtain ⟨hb, hrest, _⟩ := popMax_spec hpop
  have hc : c < g.n := by
    have := FlagMap.get_lt hf
    rw [hd.acc.size] at this; exact this
  have hgrow := stepWith_grows (g := g) (cut := cut) (dt := dt) (rest := rest) hf
  have hrel := pushParents_foldRel (g := g) (cut := cut) (fl1 := fl1Of s c f) (rest := rest)
    (cflagsOf_lca f) (g.parents c)
  have hserved := pushParents_served (g := g) (cut := cut) (cfl := cflagsOf f) (g.parents c) (fl1Of s c f, rest)
    (fun p hp => by simp only; rw [fl1Of_size, hd.acc.size]; exact hwf c hc p hp)
  -- an entry for another commit than `c` stays queued
  have hstay : ∀ d dt', d ≠ c → (dt', d) ∈ s.wl → ∃ dt'', (dt'', d) ∈ (stepWith g cut s dt c rest f).wl := by
    intro d dt' hne hmem
    refine ⟨dt', ?_⟩
    rw [stepWith_wl]
    apply hrel.sub
    rw [hrest]
    exact (List.mem_erase_of_ne (by intro heq; cases heq; exact hne rfl)).mpr hmem
  constructor
  · obtain ⟨f1, hf1, ha⟩ := h.c1
    obtain ⟨f', hf', hcov⟩ := hgrow c1 f1 hf1
    rw [covers_iff] at hcov
    exact ⟨f', hf', hcov.1 ha⟩
  · intro c2 hc2
    obtain ⟨f1, hf1, ha⟩ := h.c2 c2 hc2
    obtain ⟨f', hf', hcov⟩ := hgrow c2 f1 hf1
    rw [covers_iff] at hcov
    exact ⟨f', hf', hcov.2.1 ha⟩
  · intro d f' hd'
    rw [stepWith_fl] at hd'
    rcases hrel.same d f' hd' with h1 | h1
    · rcases fl1Of_get h1 with h2 | ⟨rfl, rfl, _⟩
      · by_cases hdc : d = c
        · subst hdc
          rw [hf] at h2; cases h2
          right
          intro p hp
          rw [stepWith_fl]
          exact hserved p hp
        · rcases h.settled d f' h2 with ⟨dt', hq⟩ | hs
          · exact Or.inl (hstay d dt' hdc hq)
          · right
            intro p hp
            exact (hs p hp).mono hgrow
      · right
        intro p hp
        rw [stepWith_fl, cflagsOf_setLca]
        exact hserved p hp
    · left; rw [stepWith_wl]; exact h1
  · intro d f' hd' hl
    rw [stepWith_fl] at hd'
    obtain ⟨f0, hf0, hl0⟩ := hrel.lca d f' hd' hl
    rw [stepWith_cands]
    rcases fl1Of_get hf0 with h2 | ⟨rfl, _, hn⟩
    · obtain ⟨dt', hm⟩ := h.lcaCand d f0 h2 hl0
      exact ⟨dt', by split <;> simp [hm]⟩
    · exact ⟨dt, by simp [hn]⟩
  · intro d f' hd' ha1 ha2 hdn
    rw [stepWith_fl] at hd'
    rcases hrel.same d f' hd' with h1 | h1
    · rcases fl1Of_get h1 with h2 | ⟨rfl, rfl, _⟩
      · by_cases hdc : d = c
        · subst hdc
          rw [hf] at h2; cases h2
          -- `c` itself, word unchanged: either it already had `_LCA`, or it would have been set
          right
          cases hl : f.lca with
          | true => rfl
          | false =>
            exfalso
            have hn : (f.ancMask.isBoth && !f.lca) = true := by
              rw [isBoth_ancMask]; simp [ha1, ha2, hdn, hl]
            have : (fl1Of s d f).get d = some { f with lca := true } := by
              unfold fl1Of
              rw [if_pos hn]
              exact FlagMap.get_set_self _ _ _ (by rw [hd.acc.size]; exact hc)
            rw [this] at h1
            injection h1 with h1
            have h1' := congrArg Flags.lca h1
            simp [hl] at h1'
        · rcases h.both d f' h2 ha1 ha2 hdn with ⟨dt', hq⟩ | hl
          · exact Or.inl (hstay d dt' hdc hq)
          · exact Or.inr hl
      · exact Or.inr rfl
    · left; rw [stepWith_wl]; exact h1

/-! ### initial state -/

/-- at initialisation every word belongs to a queued commit and no `_LCA` bit is set -/
def InitInv (s : St) : Prop := ∀ c f, s.fl.get c = some f → (∃ dt, (dt, c) ∈ s.wl) ∧ f.lca = false

theorem initC2_grows (g : Graph) (s : St) (c2 : Nat) : Grows s.fl (initC2 g s c2).fl := by
  simp only [initC2]
  apply grows_set
  intro f0 h0
  rw [h0]
  cases f0 with
  | mk a b c d => cases a <;> cases b <;> cases c <;> cases d <;> decide

theorem initC2_fold_live {g : Graph} :
    ∀ (l : List Nat) (s : St), (∀ c, c ∈ l → c < g.n) → s.fl.size = g.n → InitInv s →
      InitInv (l.foldl (initC2 g) s) ∧ Grows s.fl (l.foldl (initC2 g) s).fl ∧
      ∀ c2, c2 ∈ l → ∃ f, (l.foldl (initC2 g) s).fl.get c2 = some f ∧ f.anc2 = true
  | [], s, _, _, h => ⟨h, Grows.refl _, fun _ h => by cases h⟩
  | c2 :: l, s, hl, hsz, h => by
    simp only [List.foldl_cons]
    have hinv : InitInv (initC2 g s c2) := by
      intro d f' hd
      simp only [initC2] at hd ⊢
      rcases FlagMap.get_set_cases hd with ⟨rfl, rfl⟩ | hd'
      · refine ⟨⟨g.ts d, by simp⟩, ?_⟩
        cases hg : s.fl.get d with
        | none => simp [Flags.zero]
        | some pf => simp only [Option.getD_some]; exact (h d pf hg).2
      · obtain ⟨⟨dt, hm⟩, hl'⟩ := h d f' hd'
        exact ⟨⟨dt, by simp [hm]⟩, hl'⟩
    have ih := initC2_fold_live l (initC2 g s c2) (fun c hc' => hl c (by simp [hc']))
      (by simp only [initC2, FlagMap.size_set]; exact hsz) hinv
    refine ⟨ih.1, (initC2_grows g s c2).trans ih.2.1, ?_⟩
    intro c hc
    by_cases hin : c ∈ l
    · exact ih.2.2 c hin
    · have : c = c2 := by
        rcases List.mem_cons.mp hc with h | h
        · exact h
        · exact absurd h hin
      subst this
      have hget : (initC2 g s c).fl.get c = some { (s.fl.get c).getD Flags.zero with anc2 := true } := by
        simp only [initC2]
        exact FlagMap.get_set_self _ _ _ (by rw [hsz]; exact hl c (by simp))
      obtain ⟨f', hf', hcov⟩ := ih.2.1 c _ hget
      rw [covers_iff] at hcov
      exact ⟨f', hf', hcov.2.1 rfl⟩

theorem init_live {g : Graph} {cut : Nat → Bool} {c1 : Nat} {c2s : List Nat} (h1 : c1 < g.n)
    (h2 : ∀ c, c ∈ c2s → c < g.n) : Live g cut c1 c2s (init g c1 c2s) := by
  have h0 : InitInv { wl := [(g.ts c1, c1)], fl := (FlagMap.empty g.n).set c1 ⟨true, false, false, false⟩,
                      cands := [] } := by
    intro d f' hd
    simp only at hd
    rcases FlagMap.get_set_cases hd with ⟨rfl, rfl⟩ | hd'
    · exact ⟨⟨g.ts d, by simp⟩, rfl⟩
    · simp at hd'
  have := initC2_fold_live (g := g) c2s _ h2 (by simp) h0
  obtain ⟨hinv, hgrow, hc2⟩ := this
  have hc1 : ((FlagMap.empty g.n).set c1 ⟨true, false, false, false⟩).get c1 = some ⟨true, false, false, false⟩ :=
    FlagMap.get_set_self _ _ _ (by simpa using h1)
  unfold init
  constructor
  · obtain ⟨f', hf', hcov⟩ := hgrow c1 _ hc1
    rw [covers_iff] at hcov
    exact ⟨f', hf', hcov.1 rfl⟩
  · exact hc2
  · intro c f hc; exact Or.inl (hinv c f hc).1
  · intro c f hc hl; rw [(hinv c f hc).2] at hl; cases hl
  · intro c f hc _ _ _; exact Or.inl (hinv c f hc).1

/-! ### what the final state knows about a maximal common ancestor -/

theorem not_queued_of_no_dnc {s : St} (hnc : hasCandidates s = false) {c : Nat} {f : Flags}
    (hf : s.fl.get c = some f) (hd : f.dnc = false) : ¬ ∃ dt, (dt, c) ∈ s.wl := by
  rintro ⟨dt, hm⟩
  have : hasCandidates s = true := by
    unfold hasCandidates
    rw [List.any_eq_true]
    exact ⟨(dt, c), hm, by simp [hf, hd]⟩
  rw [hnc] at this; cases this

/-- Final state, every clock: a flag present at a commit `x` from which `x0` can be reached has travelled
down to `x0`, provided no commit on the way (strictly above `x0`) is still queued or cut off by `min_stamp`. -/
theorem flag_travels {g : Graph} {cut : Nat → Bool} {c1 : Nat} {c2s : List Nat} {s : St}
    (hl : Live g cut c1 c2s s) (bit : Flags → Bool)
    (hbit : ∀ f, bit f = true → bit (cflagsOf f) = true) (hzero : bit Flags.zero = false)
    (hcov : ∀ p c : Flags, p.covers c = true → bit c = true → bit p = true)
    {x0 x : Nat} (hanc : Anc g x0 x)
    (hnq : ∀ y f, SAnc g x0 y → s.fl.get y = some f → ¬ ∃ dt, (dt, y) ∈ s.wl)
    (hcut : ∀ y, Anc g x0 y → ¬ cut y = true)
    (hx : ∃ f, s.fl.get x = some f ∧ bit f = true) : ∃ f, s.fl.get x0 = some f ∧ bit f = true := by
  induction hanc with
  | refl => exact hx
  | step hp ha ih =>
    rename_i p c
    obtain ⟨f, hf, hb⟩ := hx
    rcases hl.settled c f hf with hq | hs
    · exact absurd hq (hnq c f ⟨p, hp, ha⟩ hf)
    · rcases hs p hp with hlt | hcv
      · exact absurd hlt (hcut p ha)
      · apply ih
        have hb' : bit ((s.fl.get p).getD Flags.zero) = true := hcov _ _ hcv (hbit f hb)
        cases hg : s.fl.get p with
        | none => rw [hg] at hb'; simp only [Option.getD_none] at hb'; rw [hzero] at hb'; cases hb'
        | some pf => rw [hg] at hb'; exact ⟨pf, rfl, hb'⟩

theorem final_has_max {g : Graph} {cut : Nat → Bool} {c1 : Nat} {c2s : List Nat} {s : St}
    (hs : SoundSt g c1 c2s s) (hl : Live g cut c1 c2s s) (hnc : hasCandidates s = false)
    {x : Nat} (hx : MaxCA g c1 c2s x) (hcut : ∀ y, Anc g x y → ¬ cut y = true) :
    ∃ dt f, (dt, x) ∈ s.cands ∧ s.fl.get x = some f ∧ f.dnc = false := by
  obtain ⟨⟨hx1, c2, hc2, hx2⟩, hmax⟩ := hx
  -- nothing from which `x` is reachable carries `_DNC`
  have hclean : ∀ y f, Anc g x y → s.fl.get y = some f → f.dnc = false := by
    intro y f hy hf
    cases hdn : f.dnc with
    | false => rfl
    | true =>
      exfalso
      obtain ⟨z, hz, hsz⟩ := (hs.fl y f hf).dn hdn
      exact hmax ⟨z, hz, SAnc.of_anc_left hy hsz⟩
  have hnq : ∀ y f, SAnc g x y → s.fl.get y = some f → ¬ ∃ dt, (dt, y) ∈ s.wl :=
    fun y f hy hf => not_queued_of_no_dnc hnc hf (hclean y f hy.anc hf)
  obtain ⟨fa, hfa, ha⟩ := flag_travels hl Flags.anc1 (fun f h => by rw [cflagsOf_anc1]; exact h) rfl
    (fun p c h hc => ((covers_iff p c).mp h).1 hc) hx1 hnq hcut hl.c1
  obtain ⟨fb, hfb, hb⟩ := flag_travels hl Flags.anc2 (fun f h => by rw [cflagsOf_anc2]; exact h) rfl
    (fun p c h hc => ((covers_iff p c).mp h).2.1 hc) hx2 hnq hcut (hl.c2 c2 hc2)
  rw [hfa] at hfb; cases hfb
  have hdn := hclean x fa (Anc.refl x) hfa
  rcases hl.both x fa hfa ha hb hdn with hq | hlca
  · exact absurd hq (not_queued_of_no_dnc hnc hfa hdn)
  · obtain ⟨dt, hm⟩ := hl.lcaCand x fa hfa hlca
    exact ⟨dt, fa, hm, hfa, hdn⟩

/-! ## invariant 4: candidates are recorded once; words exist only for commits that passed the cut -/

theorem pushParents_wl_mem {g : Graph} {cut : Nat → Bool} {cfl : Flags} :
    ∀ (ps : List Nat) (acc : FlagMap × List Entry) (e : Entry),
      e ∈ (ps.foldl (pushParent g cut cfl) acc).2 → e ∈ acc.2 ∨ ∃ p, p ∈ ps ∧ e = (g.ts p, p) ∧ ¬ cut p = true
  | [], _, _, h => Or.inl h
  | q :: ps, acc, e, h => by
    simp only [List.foldl_cons] at h
    rcases pushParents_wl_mem ps _ e h with h1 | ⟨p, hp, he⟩
    · rcases pushParent_cases g cut cfl acc q with ⟨heq, _⟩ | ⟨_, hm, heq⟩
      · rw [heq] at h1; exact Or.inl h1
      · rw [heq] at h1
        simp only [List.mem_cons] at h1
        rcases h1 with rfl | h1
        · exact Or.inr ⟨q, by simp, rfl, hm⟩
        · exact Or.inl h1
    · exact Or.inr ⟨p, by simp [hp], he⟩

structure CandInv (s : St) : Prop where
  lca : ∀ e, e ∈ s.cands → ∃ f, s.fl.get e.2 = some f ∧ f.lca = true
  nodup : (s.cands.map (·.2)).Nodup

theorem stepWith_candInv {g : Graph} {cut : Nat → Bool} {s : St} {dt : Int} {c : Nat} {rest : List Entry} {f : Flags}
    (hd : Dom g s) (h : CandInv s) (hf : s.fl.get c = some f) :
    CandInv (stepWith g cut s dt c rest f) := by
  have hgrow := stepWith_grows (g := g) (cut := cut) (dt := dt) (rest := rest) hf
  have hc : c < s.fl.size := FlagMap.get_lt hf
  have old : ∀ e, e ∈ s.cands → ∃ f', (stepWith g cut s dt c rest f).fl.get e.2 = some f' ∧ f'.lca = true := by
    intro e he
    obtain ⟨f0, hf0, hl0⟩ := h.lca e he
    obtain ⟨f', hf', hcov⟩ := hgrow e.2 f0 hf0
    exact ⟨f', hf', ((covers_iff _ _).mp hcov).2.2.2 hl0⟩
  constructor
  · intro e he
    rw [stepWith_cands] at he
    split at he
    · rename_i hn
      rcases List.mem_append.mp he with he | he
      · exact old e he
      · simp only [List.mem_cons, List.not_mem_nil, or_false] at he
        subst he
        have h1 : (fl1Of s c f).get c = some { f with lca := true } := by
          unfold fl1Of; rw [if_pos hn]; exact FlagMap.get_set_self _ _ _ hc
        have hg2 := pushParents_grows g cut (cflagsOf f) (g.parents c) (fl1Of s c f, rest)
        obtain ⟨f', hf', hcov⟩ := hg2 c _ h1
        rw [stepWith_fl]
        exact ⟨f', hf', ((covers_iff _ _).mp hcov).2.2.2 rfl⟩
    · exact old e he
  · rw [stepWith_cands]
    split
    · rename_i hn
      simp only [List.map_append, List.map_cons, List.map_nil]
      rw [List.nodup_append]
      refine ⟨h.nodup, by simp, ?_⟩
      intro a ha b hb
      simp only [List.mem_cons, List.not_mem_nil, or_false] at hb
      subst hb
      intro hab
      subst hab
      obtain ⟨e, he, rfl⟩ := List.mem_map.mp ha
      obtain ⟨f0, hf0, hl0⟩ := h.lca e he
      rw [hf] at hf0; cases hf0
      simp [hl0] at hn
    · exact h.nodup

/-- a commit has a word only if it is a start point or was not cut off by `min_stamp` -/
def CutInv (g : Graph) (cut : Nat → Bool) (c1 : Nat) (c2s : List Nat) (fl : FlagMap) : Prop :=
  ∀ c f, fl.get c = some f → c = c1 ∨ c ∈ c2s ∨ ¬ cut c = true

theorem pushParent_cut {g : Graph} {cut : Nat → Bool} {c1 : Nat} {c2s : List Nat} {cfl : Flags}
    {acc : FlagMap × List Entry} {p : Nat} (h : CutInv g cut c1 c2s acc.1) :
    CutInv g cut c1 c2s (pushParent g cut cfl acc p).1 := by
  rcases pushParent_cases g cut cfl acc p with ⟨heq, _⟩ | ⟨_, hm, heq⟩
  · rw [heq]; exact h
  · rw [heq]
    intro d f' hd
    rcases FlagMap.get_set_cases hd with ⟨rfl, _⟩ | hd'
    · exact Or.inr (Or.inr hm)
    · exact h d f' hd'

theorem stepWith_cut {g : Graph} {cut : Nat → Bool} {c1 : Nat} {c2s : List Nat} {s : St} {dt : Int} {c : Nat}
    {rest : List Entry} {f : Flags} (h : CutInv g cut c1 c2s s.fl) (hf : s.fl.get c = some f) :
    CutInv g cut c1 c2s (stepWith g cut s dt c rest f).fl := by
  rw [stepWith_fl]
  apply foldl_inv (fun acc : FlagMap × List Entry => CutInv g cut c1 c2s acc.1)
  · intro d f' hd
    rcases fl1Of_get hd with h1 | ⟨rfl, _, _⟩
    · exact h d f' h1
    · exact h d f hf
  · intro acc p _ hacc
    exact pushParent_cut hacc

theorem init_cut (g : Graph) (cut : Nat → Bool) (c1 : Nat) (c2s : List Nat) :
    CutInv g cut c1 c2s (init g c1 c2s).fl := by
  unfold init
  have : ∀ (l : List Nat) (s : St), (∀ c, c ∈ l → c ∈ c2s) → CutInv g cut c1 c2s s.fl →
      CutInv g cut c1 c2s (l.foldl (initC2 g) s).fl := by
    intro l
    induction l with
    | nil => intro s _ h; exact h
    | cons c2 l ih =>
      intro s hl h
      simp only [List.foldl_cons]
      apply ih _ (fun c hc => hl c (by simp [hc]))
      intro d f' hd
      simp only [initC2] at hd
      rcases FlagMap.get_set_cases hd with ⟨rfl, _⟩ | hd'
      · exact Or.inr (Or.inl (hl d (by simp)))
      · exact h d f' hd'
  apply this c2s _ (fun _ h => h)
  intro d f' hd
  simp only at hd
  rcases FlagMap.get_set_cases hd with ⟨rfl, _⟩ | hd'
  · exact Or.inl rfl
  · simp at hd'

theorem init_candInv (g : Graph) (c1 : Nat) (c2s : List Nat) : CandInv (init g c1 c2s) := by
  have := (init_sound g c1 c2s).2
  constructor
  · intro e he; rw [this] at he; cases he
  · rw [this]; simp

/-! ## invariant 5 (stamps strictly increasing from parent to child): nothing queued is newer than a
recorded candidate -/

theorem Anc.ts_le {g : Graph} (hm : g.StrictMono) {a c : Nat} (h : Anc g a c) : g.ts a ≤ g.ts c := by
  induction h with
  | refl => exact Int.le_refl _
  | step hp _ ih => exact Int.le_of_lt (Int.lt_of_le_of_lt ih (hm _ _ hp))

theorem SAnc.ts_lt {g : Graph} (hm : g.StrictMono) {a c : Nat} (h : SAnc g a c) : g.ts a < g.ts c := by
  obtain ⟨p, hp, ha⟩ := h
  exact Int.lt_of_le_of_lt (ha.ts_le hm) (hm _ _ hp)

def Ordered (s : St) : Prop := ∀ e k, e ∈ s.wl → k ∈ s.cands → e.1 ≤ k.1

theorem stepWith_ordered {g : Graph} {cut : Nat → Bool} {s : St} {dt : Int} {c : Nat} {rest : List Entry} {f : Flags}
    (hm : g.StrictMono) (hd : Dom g s) (h : Ordered s) (hpop : popMax s.wl = some ((dt, c), rest))
    (hf : s.fl.get c = some f) : Ordered (stepWith g cut s dt c rest f) := by
  obtain ⟨hb, hrest, hmax⟩ := popMax_spec hpop
  have hdt : dt = g.ts c := (hd.acc.wl _ hb).1
  intro e k he hk
  rw [stepWith_wl] at he
  rw [stepWith_cands] at hk
  have hk' : k ∈ s.cands ∨ k = (dt, c) := by
    split at hk
    · rcases List.mem_append.mp hk with h1 | h1
      · exact Or.inl h1
      · simp only [List.mem_cons, List.not_mem_nil, or_false] at h1; exact Or.inr h1
    · exact Or.inl hk
  have hdk : dt ≤ k.1 := by
    rcases hk' with h1 | h1
    · exact h _ _ hb h1
    · rw [h1]; exact Int.le_refl _
  rcases pushParents_wl_mem _ _ e he with h1 | ⟨p, hp, rfl, _⟩
  · simp only at h1
    rw [hrest] at h1
    have hew := List.mem_of_mem_erase h1
    rcases hk' with h2 | h2
    · exact h _ _ hew h2
    · rw [h2]; exact hmax e hew
  · simp only
    have := hm c p hp
    rw [← hdt] at this
    exact Int.le_of_lt (Int.lt_of_lt_of_le this hdk)

theorem init_ordered (g : Graph) (c1 : Nat) (c2s : List Nat) : Ordered (init g c1 c2s) := by
  intro e k _ hk
  rw [(init_sound g c1 c2s).2] at hk; cases hk

/-- Final state under strictly increasing stamps and no `min_stamp` cut: a recorded candidate whose word has
no `_DNC` is a maximal common ancestor. -/
theorem final_cand_max {g : Graph} {cut : Nat → Bool} {c1 : Nat} {c2s : List Nat} {s : St}
    (hmono : g.StrictMono) (hcut : ∀ z, ¬ cut z = true)
    (hd : Dom g s) (hs : SoundSt g c1 c2s s) (hl : Live g cut c1 c2s s) (ho : Ordered s)
    {x : Nat} {dt : Int} {f : Flags} (hx : (dt, x) ∈ s.cands) (hf : s.fl.get x = some f)
    (hdn : f.dnc = false) : MaxCA g c1 c2s x := by
  obtain ⟨f0, hf0, ha1, ha2⟩ := hs.cands _ hx
  simp only at hf0
  rw [hf] at hf0; cases hf0
  have hg := hs.fl x f hf
  have hca : CA g c1 c2s x := ⟨hg.a1 ha1, hg.a2 ha2⟩
  refine ⟨hca, ?_⟩
  rintro ⟨y, ⟨hy1, c2, hc2, hy2⟩, hxy⟩
  have hdtx : dt = g.ts x := (hd.cands _ hx).1
  -- nothing strictly above `x` is queued
  have hnq : ∀ z, SAnc g x z → ¬ ∃ dt', (dt', z) ∈ s.wl := by
    rintro z hz ⟨dt', hq⟩
    have h3 := ho _ _ hq hx
    have h4 := (hd.acc.wl _ hq).1
    simp only at h3 h4
    have := hz.ts_lt hmono
    omega
  -- both ancestry flags reach `y`
  obtain ⟨fa, hfa, hya⟩ := flag_travels hl Flags.anc1 (fun f h => by rw [cflagsOf_anc1]; exact h) rfl
    (fun p c h hc => ((covers_iff p c).mp h).1 hc) hy1
    (fun z _ hz _ => hnq z (SAnc.of_anc_right hxy hz.anc)) (fun z _ => hcut z) hl.c1
  obtain ⟨fb, hfb, hyb⟩ := flag_travels hl Flags.anc2 (fun f h => by rw [cflagsOf_anc2]; exact h) rfl
    (fun p c h hc => ((covers_iff p c).mp h).2.1 hc) hy2
    (fun z _ hz _ => hnq z (SAnc.of_anc_right hxy hz.anc)) (fun z _ => hcut z) (hl.c2 c2 hc2)
  rw [hfa] at hfb; cases hfb
  -- `y` is settled, so its parents carry `_DNC`
  obtain ⟨p, hp, hxp⟩ := hxy
  have hserved : Served g cut (cflagsOf fa) p s.fl := by
    rcases hl.settled y fa hfa with hq | hsv
    · exact absurd hq (hnq y ⟨p, hp, hxp⟩)
    · exact hsv p hp
  have hpd : ∃ pf, s.fl.get p = some pf ∧ pf.dnc = true := by
    rcases hserved with hlt | hcv
    · exact absurd hlt (hcut p)
    · have hcd : (cflagsOf fa).dnc = true := by rw [cflagsOf_dnc]; simp [hya, hyb]
      have := ((covers_iff _ _).mp hcv).2.2.1 hcd
      cases hgp : s.fl.get p with
      | none => rw [hgp] at this; simp [Flags.zero] at this
      | some pf => rw [hgp] at this; exact ⟨pf, rfl, this⟩
  -- and `_DNC` travels down to `x`
  obtain ⟨fx, hfx, hxd⟩ := flag_travels hl Flags.dnc
    (fun f h => by rw [cflagsOf_dnc]; simp [h]) rfl
    (fun p c h hc => ((covers_iff p c).mp h).2.2.1 hc) hxp
    (fun z _ hz _ => hnq z hz) (fun z _ => hcut z) hpd
  rw [hf] at hfx; cases hfx
  rw [hdn] at hxd; cases hxd

/-! ## all invariants together -/

structure AllInv (g : Graph) (cut : Nat → Bool) (c1 : Nat) (c2s : List Nat) (s : St) : Prop where
  dom : Dom g s
  sound : SoundSt g c1 c2s s
  live : Live g cut c1 c2s s
  cand : CandInv s
  cut : CutInv g cut c1 c2s s.fl

theorem init_all {g : Graph} {cut : Nat → Bool} {c1 : Nat} {c2s : List Nat} (h1 : c1 < g.n)
    (h2 : ∀ c, c ∈ c2s → c < g.n) : AllInv g cut c1 c2s (init g c1 c2s) :=
  ⟨(init_dom h1 h2).1, (init_sound g c1 c2s).1, init_live h1 h2, init_candInv g c1 c2s, init_cut g cut c1 c2s⟩

theorem loop_all {g : Graph} {cut : Nat → Bool} {c1 : Nat} {c2s : List Nat} (hwf : g.WF) (h1 : c1 < g.n)
    (h2 : ∀ c, c ∈ c2s → c < g.n) {fuel : Nat} {s : St} (h : loop g cut fuel (init g c1 c2s) = .ok s) :
    AllInv g cut c1 c2s s ∧ hasCandidates s = false :=
  loop_inv (AllInv g cut c1 c2s)
    (fun s dt c rest f hI _ hpop hf =>
      ⟨stepWith_dom hwf hI.dom hpop hf, stepWith_sound hI.sound hf,
       stepWith_live hwf hI.dom hI.live hpop hf, stepWith_candInv hI.dom hI.cand hf,
       stepWith_cut hI.cut hf⟩)
    fuel _ _ (init_all h1 h2) h

theorem loop_ordered {g : Graph} {cut : Nat → Bool} {c1 : Nat} {c2s : List Nat} (hwf : g.WF) (hmono : g.StrictMono)
    (h1 : c1 < g.n) (h2 : ∀ c, c ∈ c2s → c < g.n) {fuel : Nat} {s : St}
    (h : loop g cut fuel (init g c1 c2s) = .ok s) : Ordered s :=
  (loop_inv (fun s => Dom g s ∧ Ordered s)
    (fun s dt c rest f hI _ hpop hf =>
      ⟨stepWith_dom hwf hI.1 hpop hf, stepWith_ordered hmono hI.1 hI.2 hpop hf⟩)
    fuel _ _ ⟨(init_dom h1 h2).1, init_ordered g c1 c2s⟩ h).1.2

/-! ## the result list -/

/-- decomposition of `findLcasFuel … = .ok r` -/
theorem findLcasFuel_ok {fuel : Nat} {g : Graph} {c1 : Nat} {c2s : List Nat} {cut : Nat → Bool} {r : List Nat}
    (h : findLcasFuel fuel g c1 c2s cut = .ok r) :
    ∃ s res, loop g cut fuel (init g c1 c2s) = .ok s ∧ finalFilter s.fl s.cands [] = .ok res ∧
      r = (sortByStamp res).map (·.2) := by
  unfold findLcasFuel at h
  split at h
  · cases h
  · rename_i s hs
    split at h
    · cases h
    · rename_i res hres
      cases h
      exact ⟨s, res, hs, hres, rfl⟩

theorem mem_result {fl : FlagMap} {cands res : List Entry} (hres : finalFilter fl cands [] = .ok res) (x : Nat) :
    x ∈ (sortByStamp res).map (·.2) ↔ ∃ dt f, (dt, x) ∈ cands ∧ fl.get x = some f ∧ f.dnc = false := by
  constructor
  · intro hx
    obtain ⟨e, he, rfl⟩ := List.mem_map.mp hx
    rw [mem_sortByStamp] at he
    rcases (finalFilter_mem _ _ _ hres e).mp he with h0 | ⟨hc, f, hf, hd⟩
    · cases h0
    · exact ⟨e.1, f, hc, hf, hd⟩
  · rintro ⟨dt, f, hc, hf, hd⟩
    apply List.mem_map.mpr
    refine ⟨(dt, x), ?_, rfl⟩
    rw [mem_sortByStamp]
    exact (finalFilter_mem _ _ _ hres (dt, x)).mpr (Or.inr ⟨hc, f, hf, hd⟩)

theorem insertByStamp_perm (e : Entry) : ∀ l : List Entry, (insertByStamp e l).Perm (e :: l)
  | [] => List.Perm.refl _
  | x :: r => by
    simp only [insertByStamp]
    split
    · exact List.Perm.refl _
    · exact ((insertByStamp_perm e r).cons x).trans (List.Perm.swap e x r)

theorem sortByStamp_perm_aux : ∀ (l acc : List Entry),
    (l.foldl (fun acc e => insertByStamp e acc) acc).Perm (l ++ acc)
  | [], acc => List.Perm.refl _
  | e :: l, acc => by
    simp only [List.foldl_cons]
    refine (sortByStamp_perm_aux l _).trans ?_
    refine ((insertByStamp_perm e acc).append_left l).trans ?_
    simp only [List.cons_append]
    exact List.perm_middle

theorem sortByStamp_perm (l : List Entry) : (sortByStamp l).Perm l := by
  unfold sortByStamp
  simpa using sortByStamp_perm_aux l []

/-- the filter keeps a sublist of the candidates (appended to what was accumulated) -/
theorem finalFilter_sublist {fl : FlagMap} : ∀ (cands acc res : List Entry),
    finalFilter fl cands acc = .ok res → ∃ l, l.Sublist cands ∧ res = acc ++ l
  | [], acc, res, h => by
    simp only [finalFilter] at h; cases h; exact ⟨[], List.Sublist.refl _, by simp⟩
  | (dt, c) :: r, acc, res, h => by
    simp only [finalFilter] at h
    split at h
    · cases h
    · split at h
      · obtain ⟨l, hl, rfl⟩ := finalFilter_sublist r _ res h
        exact ⟨(dt, c) :: l, hl.cons₂ _, by simp⟩
      · obtain ⟨l, hl, rfl⟩ := finalFilter_sublist r _ res h
        exact ⟨l, hl.cons _, rfl⟩

theorem result_nodup {fl : FlagMap} {cands res : List Entry} (hres : finalFilter fl cands [] = .ok res)
    (hn : (cands.map (·.2)).Nodup) : ((sortByStamp res).map (·.2)).Nodup := by
  obtain ⟨l, hl, heq⟩ := finalFilter_sublist _ _ _ hres
  rw [List.nil_append] at heq
  subst heq
  have h1 : (res.map (·.2)).Nodup := List.Nodup.sublist (hl.map _) hn
  exact (List.Perm.nodup_iff ((sortByStamp_perm res).map _)).mpr h1

theorem eq_singleton_of_nodup {l : List Nat} {c : Nat} (hn : l.Nodup) (hc : c ∈ l) (hall : ∀ x, x ∈ l → x = c) :
    l = [c] := by
  cases l with
  | nil => cases hc
  | cons a r =>
    have ha : a = c := hall a (by simp)
    subst ha
    cases r with
    | nil => rfl
    | cons b r' =>
      have hb : b = a := hall b (by simp)
      subst hb
      simp at hn

/-! ## acyclic histories -/

theorem Anc.rk_le {g : Graph} {rk : Nat → Nat} (hrk : ∀ c p, p ∈ g.parents c → rk p < rk c) {a c : Nat}
    (h : Anc g a c) : rk a ≤ rk c := by
  induction h with
  | refl => exact Nat.le_refl _
  | step hp _ ih => exact Nat.le_of_lt (Nat.lt_of_le_of_lt ih (hrk _ _ hp))

theorem SAnc.rk_lt {g : Graph} {rk : Nat → Nat} (hrk : ∀ c p, p ∈ g.parents c → rk p < rk c) {a c : Nat}
    (h : SAnc g a c) : rk a < rk c := by
  obtain ⟨p, hp, ha⟩ := h
  exact Nat.lt_of_le_of_lt (ha.rk_le hrk) (hrk _ _ hp)


theorem Anc.lt_n {g : Graph} (hwf : g.WF) {a c : Nat} (h : Anc g a c) (hc : c < g.n) : a < g.n := by
  induction h with
  | refl => exact hc
  | step hp _ ih => exact ih (hwf _ hc _ hp)

/-- in an acyclic history a proper ancestor-or-self is a strict ancestor, and nothing is its own strict ancestor -/
theorem Anc.sanc_of_ne {g : Graph} {a c : Nat} (h : Anc g a c) (hne : a ≠ c) : SAnc g a c := by
  rcases h.eq_or_sanc with h | h
  · exact absurd h hne
  · exact h

theorem exists_max_rank (rk : Nat → Nat) : ∀ (l : List Nat), l ≠ [] → ∃ x, x ∈ l ∧ ∀ y, y ∈ l → rk y ≤ rk x
  | [], h => absurd rfl h
  | [a], _ => ⟨a, by simp, fun y hy => by simp at hy; subst hy; exact Nat.le_refl _⟩
  | a :: b :: l, _ => by
    obtain ⟨x, hx, hmax⟩ := exists_max_rank rk (b :: l) (by simp)
    by_cases h : rk x ≤ rk a
    · refine ⟨a, by simp, fun y hy => ?_⟩
      rcases List.mem_cons.mp hy with rfl | hy
      · exact Nat.le_refl _
      · exact Nat.le_trans (hmax y hy) h
    · refine ⟨x, by simp [hx], fun y hy => ?_⟩
      rcases List.mem_cons.mp hy with rfl | hy
      · omega
      · exact hmax y hy

/-- finite acyclic histories: above every commit with property `P` there is a `P`-commit that is not a strict
ancestor of another `P`-commit -/
theorem exists_maximal_above {g : Graph} {rk : Nat → Nat} (hrk : ∀ c p, p ∈ g.parents c → rk p < rk c)
    (P : Nat → Prop) (hP : ∀ z, P z → z < g.n) {y : Nat} (hy : P y) :
    ∃ m, P m ∧ Anc g y m ∧ ¬ ∃ z, P z ∧ SAnc g m z := by
  classical
  let L := (List.range g.n).filter (fun z => decide (P z ∧ Anc g y z))
  have hmem : ∀ z, z ∈ L ↔ P z ∧ Anc g y z := by
    intro z
    simp only [L, List.mem_filter, List.mem_range, decide_eq_true_eq]
    exact ⟨fun h => h.2, fun h => ⟨hP z h.1, h⟩⟩
  have hne : L ≠ [] := by
    intro h
    have : y ∈ L := (hmem y).mpr ⟨hy, Anc.refl y⟩
    rw [h] at this; cases this
  obtain ⟨m, hm, hmax⟩ := exists_max_rank rk L hne
  obtain ⟨hPm, hym⟩ := (hmem m).mp hm
  refine ⟨m, hPm, hym, ?_⟩
  rintro ⟨z, hPz, hs⟩
  have := hmax z ((hmem z).mpr ⟨hPz, hym.trans hs.anc⟩)
  have := hs.rk_lt hrk
  omega

/-! ## `_find_lcas` as a whole: soundness, completeness, termination, exactness under strict monotonicity -/

theorem findLcasFuel_sound {fuel : Nat} {g : Graph} {c1 : Nat} {c2s : List Nat} {cut : Nat → Bool} {r : List Nat}
    (h : findLcasFuel fuel g c1 c2s cut = .ok r) {x : Nat} (hx : x ∈ r) : CA g c1 c2s x := by
  obtain ⟨s, res, hs, hres, rfl⟩ := findLcasFuel_ok h
  have hinv := (loop_inv (SoundSt g c1 c2s)
    (fun s dt c rest f hI _ _ hf => stepWith_sound hI hf) fuel _ _ (init_sound g c1 c2s).1 hs).1
  obtain ⟨dt, f, hc, hf, _⟩ := (mem_result hres x).mp hx
  obtain ⟨f0, hf0, h1, h2⟩ := hinv.cands _ hc
  have hg := hinv.fl x f0 hf0
  exact ⟨hg.a1 h1, hg.a2 h2⟩

theorem findLcasFuel_complete {fuel : Nat} {g : Graph} (hwf : g.WF) {c1 : Nat} {c2s : List Nat}
    (h1 : c1 < g.n) (h2 : ∀ c, c ∈ c2s → c < g.n) {cut : Nat → Bool} {r : List Nat}
    (h : findLcasFuel fuel g c1 c2s cut = .ok r) {x : Nat} (hx : MaxCA g c1 c2s x)
    (hcut : ∀ y, Anc g x y → cut y = false) : x ∈ r := by
  obtain ⟨s, res, hs, hres, rfl⟩ := findLcasFuel_ok h
  obtain ⟨hinv, hnc⟩ := loop_all (cut := cut) hwf h1 h2 hs
  rw [mem_result hres]
  exact final_has_max hinv.sound hinv.live hnc hx (fun y hy => by rw [hcut y hy]; simp)

theorem findLcasFuel_nodup {fuel : Nat} {g : Graph} (hwf : g.WF) {c1 : Nat} {c2s : List Nat}
    (h1 : c1 < g.n) (h2 : ∀ c, c ∈ c2s → c < g.n) {cut : Nat → Bool} {r : List Nat}
    (h : findLcasFuel fuel g c1 c2s cut = .ok r) : r.Nodup := by
  obtain ⟨s, res, hs, hres, rfl⟩ := findLcasFuel_ok h
  obtain ⟨hinv, _⟩ := loop_all (cut := cut) hwf h1 h2 hs
  exact result_nodup hres hinv.cand.nodup

theorem findLcas_terminates {g : Graph} (hwf : g.WF) {c1 : Nat} {c2s : List Nat} (h1 : c1 < g.n)
    (h2 : ∀ c, c ∈ c2s → c < g.n) (cut : Nat → Bool) : ∃ r, findLcas g c1 c2s cut = .ok r := by
  obtain ⟨hdom, hlen⟩ := init_dom (g := g) h1 h2
  have hmu : mu g (init g c1 c2s) ≤ defaultFuel g c2s := by
    unfold mu defaultFuel
    have := total_le (init g c1 c2s).fl g.n
    omega
  obtain ⟨s, hs⟩ := loop_ok (cut := cut) hwf _ _ hdom hmu
  have hinv := (loop_all (cut := cut) hwf h1 h2 hs).1
  obtain ⟨res, hres⟩ := finalFilter_ok s.cands [] (fun e he => (hinv.dom.cands e he).2)
  exact ⟨(sortByStamp res).map (·.2), by simp only [findLcas, findLcasFuel, hs, hres]⟩

theorem findLcasFuel_exact {g : Graph} (hwf : g.WF) (hmono : g.StrictMono) {c1 : Nat} {c2s : List Nat}
    (h1 : c1 < g.n) (h2 : ∀ c, c ∈ c2s → c < g.n) {cut : Nat → Bool} (hcut : ∀ z, cut z = false)
    {fuel : Nat} {r : List Nat} (h : findLcasFuel fuel g c1 c2s cut = .ok r) :
    (∀ x, x ∈ r ↔ MaxCA g c1 c2s x) ∧ r.Nodup := by
  obtain ⟨s, res, hs, hres, rfl⟩ := findLcasFuel_ok h
  obtain ⟨hinv, hnc⟩ := loop_all (cut := cut) hwf h1 h2 hs
  have hord := loop_ordered (cut := cut) hwf hmono h1 h2 hs
  have hcut' : ∀ z, ¬ cut z = true := fun z => by rw [hcut z]; simp
  refine ⟨fun x => ?_, result_nodup hres hinv.cand.nodup⟩
  rw [mem_result hres]
  constructor
  · rintro ⟨dt, f, hc, hf, hd⟩
    exact final_cand_max hmono hcut' hinv.dom hinv.sound hinv.live hord hc hf hd
  · intro hx
    exact final_has_max hinv.sound hinv.live hnc hx (fun y _ => hcut' y)

theorem defaultCut_false (g : Graph) (z : Nat) : defaultCut g z = false := rfl

/-! ## the fixed public functions: exact on every acyclic closed history, every clock -/

/-- `c1 in _find_lcas(c1, [c2])` is the ancestry test -/
theorem mem_lcas_iff_anc {g : Graph} (hwf : g.WF) {rk : Nat → Nat} (hrk : ∀ c p, p ∈ g.parents c → rk p < rk c)
    {c1 c2 : Nat} (h1 : c1 < g.n) (h2 : c2 < g.n) {cut : Nat → Bool} (hcut : ∀ z, cut z = false)
    {fuel : Nat} {r : List Nat} (h : findLcasFuel fuel g c1 [c2] cut = .ok r) : c1 ∈ r ↔ Anc g c1 c2 := by
  constructor
  · intro hc
    obtain ⟨_, c2', hc2, ha⟩ := findLcasFuel_sound h hc
    simp only [List.mem_singleton] at hc2
    subst hc2; exact ha
  · intro hanc
    apply findLcasFuel_complete hwf h1 (by simp [h2]) h _ (fun y _ => hcut y)
    refine ⟨⟨Anc.refl c1, c2, by simp, hanc⟩, ?_⟩
    rintro ⟨y, ⟨hy, _⟩, hsy⟩
    have := hsy.rk_lt hrk
    have := hy.rk_le hrk
    omega

theorem isAncestorVia_spec {g : Graph} (hwf : g.WF) {rk : Nat → Nat} (hrk : ∀ c p, p ∈ g.parents c → rk p < rk c)
    {a b : Nat} (ha : a < g.n) (hb : b < g.n) {d : Bool} (h : isAncestorVia g a b = .ok d) :
    d = true ↔ Anc g a b := by
  unfold isAncestorVia at h
  split at h
  · cases h
  · rename_i l hl
    cases h
    rw [← mem_lcas_iff_anc hwf hrk ha hb (defaultCut_false g) hl]
    simp

theorem isAncestorVia_terminates {g : Graph} (hwf : g.WF) {a b : Nat} (ha : a < g.n) (hb : b < g.n) :
    ∃ d, isAncestorVia g a b = .ok d := by
  obtain ⟨r, hr⟩ := findLcas_terminates hwf ha (c2s := [b]) (by simp [hb]) (defaultCut g)
  exact ⟨r.contains a, by simp only [isAncestorVia, hr]⟩

theorem redundantIn_spec {g : Graph} (hwf : g.WF) {rk : Nat → Nat} (hrk : ∀ c p, p ∈ g.parents c → rk p < rk c)
    {c : Nat} (hc : c < g.n) : ∀ (l : List Nat), (∀ o, o ∈ l → o < g.n) → ∀ d, redundantIn g c l = .ok d →
      (d = true ↔ ∃ o, o ∈ l ∧ o ≠ c ∧ Anc g c o)
  | [], _, d, h => by simp only [redundantIn] at h; cases h; simp
  | o :: r, hl, d, h => by
    have ih := redundantIn_spec hwf hrk hc r (fun x hx => hl x (by simp [hx]))
    simp only [redundantIn] at h
    split at h
    · rename_i hoc
      rw [ih d h]
      constructor
      · rintro ⟨x, hx, hne, ha⟩; exact ⟨x, by simp [hx], hne, ha⟩
      · rintro ⟨x, hx, hne, ha⟩
        rcases List.mem_cons.mp hx with rfl | hx
        · exact absurd hoc hne
        · exact ⟨x, hx, hne, ha⟩
    · rename_i hoc
      split at h
      · cases h
      · rename_i hv
        cases h
        have := (isAncestorVia_spec hwf hrk hc (hl o (by simp)) hv).mp rfl
        exact ⟨fun _ => ⟨o, by simp, hoc, this⟩, fun _ => rfl⟩
      · rename_i hv
        have hnot : ¬ Anc g c o := fun ha => by
          have := (isAncestorVia_spec hwf hrk hc (hl o (by simp)) hv).mpr ha
          cases this
        rw [ih d h]
        constructor
        · rintro ⟨x, hx, hne, ha⟩; exact ⟨x, by simp [hx], hne, ha⟩
        · rintro ⟨x, hx, hne, ha⟩
          rcases List.mem_cons.mp hx with rfl | hx
          · exact absurd ha hnot
          · exact ⟨x, hx, hne, ha⟩

theorem redundantIn_terminates {g : Graph} (hwf : g.WF) {c : Nat} (hc : c < g.n) :
    ∀ (l : List Nat), (∀ o, o ∈ l → o < g.n) → ∃ d, redundantIn g c l = .ok d
  | [], _ => ⟨false, rfl⟩
  | o :: r, hl => by
    obtain ⟨d, hd⟩ := redundantIn_terminates hwf hc r (fun x hx => hl x (by simp [hx]))
    simp only [redundantIn]
    split
    · exact ⟨d, hd⟩
    · obtain ⟨v, hv⟩ := isAncestorVia_terminates hwf hc (hl o (by simp))
      rw [hv]
      cases v with
      | true => exact ⟨true, rfl⟩
      | false => exact ⟨d, hd⟩

theorem keepMaximal_spec {g : Graph} (hwf : g.WF) {rk : Nat → Nat} (hrk : ∀ c p, p ∈ g.parents c → rk p < rk c)
    {all : List Nat} (hall : ∀ o, o ∈ all → o < g.n) :
    ∀ (l : List Nat), (∀ o, o ∈ l → o < g.n) → ∀ r, keepMaximal g all l = .ok r →
      r.Sublist l ∧ ∀ x, x ∈ r ↔ x ∈ l ∧ ¬ ∃ o, o ∈ all ∧ o ≠ x ∧ Anc g x o
  | [], _, r, h => by simp only [keepMaximal] at h; cases h; simp
  | c :: l, hl, r, h => by
    simp only [keepMaximal] at h
    split at h
    · cases h
    · rename_i d hd
      split at h
      · cases h
      · rename_i rest hrest
        cases h
        have hdom := redundantIn_spec hwf hrk (hl c (by simp)) all hall d hd
        obtain ⟨hsub, hmem⟩ := keepMaximal_spec hwf hrk hall l (fun o ho => hl o (by simp [ho])) rest hrest
        cases d with
        | true =>
          have hdt := hdom.mp rfl
          simp only [if_true]
          refine ⟨hsub.cons _, fun x => ?_⟩
          rw [hmem x]
          constructor
          · rintro ⟨hx, hn⟩; exact ⟨by simp [hx], hn⟩
          · rintro ⟨hx, hn⟩
            rcases List.mem_cons.mp hx with rfl | hx
            · exact absurd hdt hn
            · exact ⟨hx, hn⟩
        | false =>
          have hdf : ¬ ∃ o, o ∈ all ∧ o ≠ c ∧ Anc g c o := fun he => by
            have := hdom.mpr he; cases this
          simp only [Bool.false_eq_true, if_false]
          refine ⟨hsub.cons₂ _, fun x => ?_⟩
          simp only [List.mem_cons]
          rw [hmem x]
          constructor
          · rintro (rfl | ⟨hx, hn⟩)
            · exact ⟨Or.inl rfl, hdf⟩
            · exact ⟨Or.inr hx, hn⟩
          · rintro ⟨hx | hx, hn⟩
            · exact Or.inl hx
            · exact Or.inr ⟨hx, hn⟩

theorem keepMaximal_terminates {g : Graph} (hwf : g.WF) {all : List Nat} (hall : ∀ o, o ∈ all → o < g.n) :
    ∀ (l : List Nat), (∀ o, o ∈ l → o < g.n) → ∃ r, keepMaximal g all l = .ok r
  | [], _ => ⟨[], rfl⟩
  | c :: l, hl => by
    obtain ⟨d, hd⟩ := redundantIn_terminates hwf (hl c (by simp)) all hall
    obtain ⟨rest, hrest⟩ := keepMaximal_terminates hwf hall l (fun o ho => hl o (by simp [ho]))
    exact ⟨if d then rest else c :: rest, by simp only [keepMaximal, hd, hrest]⟩

/-! ### `list(dict.fromkeys(l))` -/

theorem dedupe_aux (l : List Nat) : ∀ (acc : List Nat), acc.Nodup →
    (l.foldl (fun acc x => if acc.contains x then acc else acc ++ [x]) acc).Nodup ∧
    ∀ x, x ∈ l.foldl (fun acc x => if acc.contains x then acc else acc ++ [x]) acc ↔ x ∈ acc ∨ x ∈ l := by
  induction l with
  | nil => intro acc h; exact ⟨h, fun x => by simp⟩
  | cons a l ih =>
    intro acc h
    simp only [List.foldl_cons]
    by_cases ha : acc.contains a = true
    · simp only [ha, if_true]
      obtain ⟨h1, h2⟩ := ih acc h
      refine ⟨h1, fun x => ?_⟩
      rw [h2 x]
      have : a ∈ acc := by simpa using ha
      constructor
      · rintro (h | h)
        · exact Or.inl h
        · exact Or.inr (by simp [h])
      · rintro (h | h)
        · exact Or.inl h
        · rcases List.mem_cons.mp h with rfl | h
          · exact Or.inl this
          · exact Or.inr h
    · have hfalse : acc.contains a = false := by simpa using ha
      simp only [hfalse, Bool.false_eq_true, if_false]
      have hna : a ∉ acc := by simpa using ha
      obtain ⟨h1, h2⟩ := ih (acc ++ [a]) (by
        rw [List.nodup_append]
        refine ⟨h, by simp, ?_⟩
        intro x hx y hy
        simp only [List.mem_cons, List.not_mem_nil, or_false] at hy
        subst hy
        intro hxy; subst hxy; exact hna hx)
      refine ⟨h1, fun x => ?_⟩
      rw [h2 x]
      simp only [List.mem_append, List.mem_cons, List.not_mem_nil, or_false]
      constructor
      · rintro ((h | h) | h)
        · exact Or.inl h
        · exact Or.inr (Or.inl h)
        · exact Or.inr (Or.inr h)
      · rintro (h | h | h)
        · exact Or.inl (Or.inl h)
        · exact Or.inl (Or.inr h)
        · exact Or.inr h

theorem nodup_dedupe (l : List Nat) : (dedupe l).Nodup := (dedupe_aux l [] List.nodup_nil).1

theorem mem_dedupe (l : List Nat) (x : Nat) : x ∈ dedupe l ↔ x ∈ l := by
  unfold dedupe
  rw [(dedupe_aux l [] List.nodup_nil).2 x]; simp

/-- `_remove_redundant`: distinct entries; an entry survives iff no other entry descends from it -/
theorem removeRedundant_spec {g : Graph} (hwf : g.WF) {rk : Nat → Nat} (hrk : ∀ c p, p ∈ g.parents c → rk p < rk c)
    {lcas : List Nat} (hl : ∀ o, o ∈ lcas → o < g.n) {r : List Nat} (h : removeRedundant g lcas = .ok r) :
    r.Nodup ∧ ∀ x, x ∈ r ↔ x ∈ lcas ∧ ¬ ∃ o, o ∈ lcas ∧ o ≠ x ∧ Anc g x o := by
  unfold removeRedundant at h
  simp only at h
  have hnd := nodup_dedupe lcas
  split at h
  · rename_i hlen
    cases h
    refine ⟨hnd, fun x => ?_⟩
    rw [mem_dedupe]
    constructor
    · intro hx
      refine ⟨hx, ?_⟩
      rintro ⟨o, ho, hne, _⟩
      -- two different members would give length ≥ 2
      have hx' := (mem_dedupe lcas x).mpr hx
      have ho' := (mem_dedupe lcas o).mpr ho
      generalize dedupe lcas = dl at hlen hx' ho'
      cases dl with
      | nil => cases hx'
      | cons a t =>
        cases t with
        | nil =>
          simp only [List.mem_singleton] at hx' ho'
          exact hne (ho'.trans hx'.symm)
        | cons b t => simp only [List.length_cons] at hlen; omega
    · exact fun h => h.1
  · have hall : ∀ o, o ∈ dedupe lcas → o < g.n := fun o ho => hl o ((mem_dedupe lcas o).mp ho)
    obtain ⟨hsub, hmem⟩ := keepMaximal_spec hwf hrk hall _ hall r h
    refine ⟨List.Nodup.sublist hsub hnd, fun x => ?_⟩
    rw [hmem x, mem_dedupe]
    constructor
    · rintro ⟨hx, hn⟩
      exact ⟨hx, fun ⟨o, ho, hne, ha⟩ => hn ⟨o, (mem_dedupe lcas o).mpr ho, hne, ha⟩⟩
    · rintro ⟨hx, hn⟩
      exact ⟨hx, fun ⟨o, ho, hne, ha⟩ => hn ⟨o, (mem_dedupe lcas o).mp ho, hne, ha⟩⟩

theorem removeRedundant_terminates {g : Graph} (hwf : g.WF) {lcas : List Nat} (hl : ∀ o, o ∈ lcas → o < g.n) :
    ∃ r, removeRedundant g lcas = .ok r := by
  unfold removeRedundant
  simp only
  split
  · exact ⟨_, rfl⟩
  · have hall : ∀ o, o ∈ dedupe lcas → o < g.n := fun o ho => hl o ((mem_dedupe lcas o).mp ho)
    exact keepMaximal_terminates hwf hall _ hall

/-- Reducing a list that contains only `P`-commits and every maximal `P`-commit leaves exactly the maximal
`P`-commits. -/
theorem reduce_exact {g : Graph} (hwf : g.WF) {rk : Nat → Nat} (hrk : ∀ c p, p ∈ g.parents c → rk p < rk c)
    (P : Nat → Prop) (hP : ∀ z, P z → z < g.n) {lcas : List Nat} (hsound : ∀ x, x ∈ lcas → P x)
    (hcompl : ∀ m, P m → (¬ ∃ z, P z ∧ SAnc g m z) → m ∈ lcas) {r : List Nat}
    (h : removeRedundant g lcas = .ok r) :
    r.Nodup ∧ ∀ x, x ∈ r ↔ P x ∧ ¬ ∃ z, P z ∧ SAnc g x z := by
  obtain ⟨hnd, hmem⟩ := removeRedundant_spec hwf hrk (fun o ho => hP o (hsound o ho)) h
  refine ⟨hnd, fun x => ?_⟩
  rw [hmem x]
  constructor
  · rintro ⟨hx, hn⟩
    refine ⟨hsound x hx, ?_⟩
    rintro ⟨z, hz, hs⟩
    obtain ⟨m, hPm, hzm, hmax⟩ := exists_maximal_above hrk P hP hz
    have hxm : SAnc g x m := SAnc.of_anc_right hs hzm
    apply hn
    refine ⟨m, hcompl m hPm hmax, ?_, hxm.anc⟩
    intro heq
    have := hxm.rk_lt hrk
    rw [heq] at this
    omega
  · rintro ⟨hx, hmax⟩
    refine ⟨hcompl x hx hmax, ?_⟩
    rintro ⟨o, ho, hne, ha⟩
    exact hmax ⟨o, hsound o ho, ha.sanc_of_ne (fun h => hne h.symm)⟩

/-! ### `find_merge_base`, `can_fast_forward`, `independent`, `find_octopus_base` after the fix -/

theorem CA.lt_n {g : Graph} (hwf : g.WF) {c1 : Nat} {c2s : List Nat} (h1 : c1 < g.n) {x : Nat}
    (h : CA g c1 c2s x) : x < g.n := h.1.lt_n hwf h1

theorem findMergeBase_exact {g : Graph} (hwf : g.WF) {rk : Nat → Nat} (hrk : ∀ c p, p ∈ g.parents c → rk p < rk c)
    {c1 c2 : Nat} {c2s : List Nat} (h1 : c1 < g.n) (h2 : ∀ c, c ∈ c2 :: c2s → c < g.n) {r : List Nat}
    (h : findMergeBase g (c1 :: c2 :: c2s) = .ok r) :
    r.Nodup ∧ ∀ x, x ∈ r ↔ MaxCA g c1 (c2 :: c2s) x := by
  simp only [findMergeBase] at h
  split at h
  · rename_i hmem
    cases h
    have hmem' : c1 ∈ c2 :: c2s := by simpa using hmem
    refine ⟨by simp, fun x => ?_⟩
    simp only [List.mem_singleton]
    constructor
    · rintro rfl
      refine ⟨⟨Anc.refl x, x, hmem', Anc.refl x⟩, ?_⟩
      rintro ⟨y, ⟨hy, _⟩, hs⟩
      have := hs.rk_lt hrk
      have := hy.rk_le hrk
      omega
    · rintro ⟨⟨hx1, _⟩, hmax⟩
      rcases hx1.eq_or_sanc with h | h
      · exact h
      · exact absurd ⟨c1, ⟨Anc.refl c1, c1, hmem', Anc.refl c1⟩, h⟩ hmax
  · split at h
    · cases h
    · rename_i lcas hl
      exact reduce_exact hwf hrk (CA g c1 (c2 :: c2s)) (fun z hz => hz.lt_n hwf h1)
        (fun x hx => findLcasFuel_sound hl hx)
        (fun m hm hmax => findLcasFuel_complete hwf h1 h2 hl ⟨hm, hmax⟩ (fun y _ => defaultCut_false g y)) h

theorem findMergeBase_terminates {g : Graph} (hwf : g.WF) {ids : List Nat} (hids : ∀ c, c ∈ ids → c < g.n) :
    ∃ r, findMergeBase g ids = .ok r := by
  match ids, hids with
  | [], _ => exact ⟨[], rfl⟩
  | [c1], _ => exact ⟨[c1], rfl⟩
  | c1 :: c2 :: c2s, hids =>
    simp only [findMergeBase]
    split
    · exact ⟨_, rfl⟩
    · obtain ⟨l, hl⟩ := findLcas_terminates hwf (hids c1 (by simp)) (c2s := c2 :: c2s)
        (fun c hc => hids c (List.mem_cons_of_mem _ hc)) (defaultCut g)
      rw [hl]
      exact removeRedundant_terminates hwf
        (fun o ho => (findLcasFuel_sound hl ho).lt_n hwf (hids c1 (by simp)))

/-- the test `independent` relies on: `find_merge_base([c, o]) == [c]` iff `c` is `o` or an ancestor of `o` -/
theorem mergeBase_self_iff {g : Graph} (hwf : g.WF) {rk : Nat → Nat} (hrk : ∀ c p, p ∈ g.parents c → rk p < rk c)
    {c o : Nat} (hc : c < g.n) (ho : o < g.n) {mb : List Nat} (h : findMergeBase g [c, o] = .ok mb) :
    mb = [c] ↔ Anc g c o := by
  obtain ⟨hnd, hmem⟩ := findMergeBase_exact hwf hrk hc (c2s := []) (by simp [ho]) h
  constructor
  · intro heq
    have : c ∈ mb := by rw [heq]; simp
    obtain ⟨⟨_, c2, hc2, ha⟩, _⟩ := (hmem c).mp this
    simp only [List.mem_singleton] at hc2
    subst hc2; exact ha
  · intro hanc
    have hca : CA g c [o] c := ⟨Anc.refl c, o, by simp, hanc⟩
    have hmax : MaxCA g c [o] c := by
      refine ⟨hca, ?_⟩
      rintro ⟨y, ⟨hy, _⟩, hsy⟩
      have := hsy.rk_lt hrk
      have := hy.rk_le hrk
      omega
    apply eq_singleton_of_nodup hnd ((hmem c).mpr hmax)
    intro x hx
    obtain ⟨⟨hx1, _⟩, hxmax⟩ := (hmem x).mp hx
    rcases hx1.eq_or_sanc with heq | hs
    · exact heq
    · exact absurd ⟨c, hca, hs⟩ hxmax

theorem dominated_spec {g : Graph} (hwf : g.WF) {rk : Nat → Nat} (hrk : ∀ c p, p ∈ g.parents c → rk p < rk c)
    {i c : Nat} (hc : c < g.n) :
    ∀ (l : List (Nat × Nat)), (∀ e, e ∈ l → e.2 < g.n) → ∀ d, dominated g i c l = .ok d →
      (d = true ↔ ∃ e, e ∈ l ∧ e.1 ≠ i ∧ Anc g c e.2)
  | [], _, d, h => by
    simp only [dominated] at h; cases h
    simp
  | (j, o) :: r, hl, d, h => by
    have ih := dominated_spec hwf hrk (i := i) hc r (fun e he => hl e (by simp [he]))
    simp only [dominated] at h
    split at h
    · rename_i hij
      subst hij
      rw [ih d h]
      constructor
      · rintro ⟨e, he, hne, ha⟩; exact ⟨e, by simp [he], hne, ha⟩
      · rintro ⟨e, he, hne, ha⟩
        rcases List.mem_cons.mp he with rfl | he
        · exact absurd rfl hne
        · exact ⟨e, he, hne, ha⟩
    · rename_i hij
      split at h
      · cases h
      · rename_i mb hmb
        have hiff := mergeBase_self_iff hwf hrk hc (hl (j, o) (by simp)) hmb
        split at h
        · rename_i heq
          cases h
          have : mb = [c] := by simpa using heq
          exact ⟨fun _ => ⟨(j, o), by simp, fun h' => hij h'.symm, hiff.mp this⟩, fun _ => rfl⟩
        · rename_i hneq
          rw [ih d h]
          have hnot : ¬ Anc g c o := fun ha => hneq (by simpa using hiff.mpr ha)
          constructor
          · rintro ⟨e, he, hne, ha⟩; exact ⟨e, by simp [he], hne, ha⟩
          · rintro ⟨e, he, hne, ha⟩
            rcases List.mem_cons.mp he with rfl | he
            · exact absurd ha hnot
            · exact ⟨e, he, hne, ha⟩

theorem independentAux_spec {g : Graph} (hwf : g.WF) {rk : Nat → Nat}
    (hrk : ∀ c p, p ∈ g.parents c → rk p < rk c)
    {all : List (Nat × Nat)} (hall : ∀ e, e ∈ all → e.2 < g.n) :
    ∀ (l : List (Nat × Nat)), (∀ e, e ∈ l → e.2 < g.n) → ∀ r, independentAux g all l = .ok r →
      r.Sublist (l.map (·.2)) ∧
      ∀ x, x ∈ r ↔ ∃ i, (i, x) ∈ l ∧ ¬ ∃ e, e ∈ all ∧ e.1 ≠ i ∧ Anc g x e.2
  | [], _, r, h => by
    simp only [independentAux] at h; cases h
    simp
  | (i, c) :: l, hl, r, h => by
    simp only [independentAux] at h
    split at h
    · cases h
    · rename_i d hd
      split at h
      · cases h
      · rename_i rest hrest
        cases h
        have hdom := dominated_spec hwf hrk (i := i) (hl (i, c) (by simp)) all hall d hd
        obtain ⟨hsub, hmem⟩ := independentAux_spec hwf hrk hall l (fun e he => hl e (by simp [he])) rest hrest
        cases d with
        | true =>
          have hdt := hdom.mp rfl
          simp only [if_true, List.map_cons]
          refine ⟨hsub.cons _, fun x => ?_⟩
          rw [hmem x]
          constructor
          · rintro ⟨k, hk, hn⟩; exact ⟨k, by simp [hk], hn⟩
          · rintro ⟨k, hk, hn⟩
            rcases List.mem_cons.mp hk with heq | hk
            · cases heq; exact absurd hdt hn
            · exact ⟨k, hk, hn⟩
        | false =>
          have hdf : ¬ ∃ e, e ∈ all ∧ e.1 ≠ i ∧ Anc g c e.2 := fun he => by
            have := hdom.mpr he; cases this
          simp only [Bool.false_eq_true, if_false, List.map_cons]
          refine ⟨hsub.cons₂ _, fun x => ?_⟩
          simp only [List.mem_cons]
          rw [hmem x]
          constructor
          · rintro (rfl | ⟨k, hk, hn⟩)
            · exact ⟨i, Or.inl rfl, hdf⟩
            · exact ⟨k, Or.inr hk, hn⟩
          · rintro ⟨k, hk | hk, hn⟩
            · cases hk; exact Or.inl rfl
            · exact Or.inr ⟨k, hk, hn⟩

theorem mem_zip_range' : ∀ (l : List Nat) (k j o : Nat),
    (j, o) ∈ (List.range' k l.length).zip l ↔ ∃ i, j = k + i ∧ l[i]? = some o
  | [], k, j, o => by simp
  | a :: l, k, j, o => by
    simp only [List.length_cons, List.range'_succ, List.zip_cons_cons, List.mem_cons, Prod.mk.injEq,
      mem_zip_range' l (k + 1) j o]
    constructor
    · rintro (⟨rfl, rfl⟩ | ⟨i, rfl, hi⟩)
      · exact ⟨0, rfl, rfl⟩
      · exact ⟨i + 1, by omega, by simpa using hi⟩
    · rintro ⟨i, rfl, hi⟩
      cases i with
      | zero => left; simp at hi; exact ⟨rfl, hi.symm⟩
      | succ i => right; exact ⟨i, by omega, by simpa using hi⟩

/-- `independent` after the fix, every clock: exactly the ids that are not reachable from another (different)
id, each once, in the order of their first occurrence -/
theorem independent_exact {g : Graph} (hwf : g.WF) {rk : Nat → Nat} (hrk : ∀ c p, p ∈ g.parents c → rk p < rk c)
    {ids0 : List Nat} (hids0 : ∀ c, c ∈ ids0 → c < g.n) {r : List Nat}
    (h : independent g ids0 = .ok r) :
    r.Nodup ∧ r.Sublist (dedupe ids0) ∧ ∀ x, x ∈ r ↔ x ∈ ids0 ∧ ¬ ∃ o, o ∈ ids0 ∧ o ≠ x ∧ Anc g x o := by
  cases ids0 with
  | nil => simp only [independent] at h; cases h; simp [dedupe]
  | cons a0 t0 =>
    simp only [independent] at h
    generalize hids : dedupe (a0 :: t0) = ids at h ⊢
    have hnd : ids.Nodup := by rw [← hids]; exact nodup_dedupe _
    have hmemd : ∀ x, x ∈ ids ↔ x ∈ a0 :: t0 := fun x => by rw [← hids]; exact mem_dedupe _ x
    split at h
    · rename_i hlen
      have hr : r = ids := by cases h; rfl
      subst hr
      refine ⟨hnd, List.Sublist.refl _, fun x => ?_⟩
      rw [hmemd]
      constructor
      · intro hx
        refine ⟨hx, ?_⟩
        rintro ⟨o, ho, hne, _⟩
        have hx' := (hmemd x).mpr hx
        have ho' := (hmemd o).mpr ho
        cases r with
        | nil => cases hx'
        | cons b t =>
          cases t with
          | nil =>
            simp only [List.mem_singleton] at hx' ho'
            exact hne (ho'.trans hx'.symm)
          | cons b' t' => simp at hlen
      · exact fun h => h.1
    · have hids' : ∀ c, c ∈ ids → c < g.n := fun c hc => hids0 c ((hmemd c).mp hc)
      have hzip : ∀ j o, (j, o) ∈ (List.range ids.length).zip ids ↔ ids[j]? = some o := by
        intro j o
        rw [List.range_eq_range', mem_zip_range']
        constructor
        · rintro ⟨i, rfl, hi⟩; simpa using hi
        · intro hj; exact ⟨j, by omega, hj⟩
      have hall : ∀ e, e ∈ (List.range ids.length).zip ids → e.2 < g.n := by
        rintro ⟨j, o⟩ he
        exact hids' o (List.mem_iff_getElem?.mpr ⟨j, (hzip j o).mp he⟩)
      obtain ⟨hsub, hmem⟩ := independentAux_spec hwf hrk hall _ hall r h
      have hmap : ((List.range ids.length).zip ids).map (·.2) = ids := by
        rw [← List.unzip_snd, List.unzip_zip (by simp)]
      rw [hmap] at hsub
      refine ⟨List.Nodup.sublist hsub hnd, hsub, fun x => ?_⟩
      rw [hmem x]
      constructor
      · rintro ⟨i, hi, hn⟩
        have hxi := (hzip i x).mp hi
        refine ⟨(hmemd x).mp (List.mem_iff_getElem?.mpr ⟨i, hxi⟩), ?_⟩
        rintro ⟨o, ho, hne, ha⟩
        obtain ⟨j, hj⟩ := List.mem_iff_getElem?.mp ((hmemd o).mpr ho)
        apply hn
        refine ⟨(j, o), (hzip j o).mpr hj, ?_, ha⟩
        rintro rfl
        rw [hxi] at hj; cases hj; exact hne rfl
      · rintro ⟨hx, hn⟩
        obtain ⟨i, hi⟩ := List.mem_iff_getElem?.mp ((hmemd x).mpr hx)
        refine ⟨i, (hzip i x).mpr hi, ?_⟩
        rintro ⟨⟨j, o⟩, he, hne, ha⟩
        have hj := (hzip j o).mp he
        by_cases hox : o = x
        · subst hox
          have hjl : j < ids.length := by
            rcases List.getElem?_eq_some_iff.mp hj with ⟨hlt, _⟩; exact hlt
          exact hne ((List.getElem?_inj hjl hnd).mp (hj.trans hi.symm))
        · exact hn ⟨o, (hmemd o).mp (List.mem_iff_getElem?.mpr ⟨j, hj⟩), hox, ha⟩

/-! ### `find_octopus_base` -/

/-- invariant of the outer loop: `lcas` are common ancestors of the ids handled so far (`D`), and every common
ancestor of `D` lies below one of them -/
structure OctInv (g : Graph) (D lcas : List Nat) : Prop where
  sound : ∀ x, x ∈ lcas → CAall g D x
  cover : ∀ z, CAall g D z → ∃ w, w ∈ lcas ∧ Anc g z w

theorem octopusInner_spec {g : Graph} (hwf : g.WF) {cmt : Nat} (hc : cmt < g.n) :
    ∀ (lcas : List Nat), (∀ c, c ∈ lcas → c < g.n) → ∀ r, octopusInner g cmt lcas = .ok r →
      (∀ x, x ∈ r → ∃ ca, ca ∈ lcas ∧ CA g cmt [ca] x) ∧
      (∀ ca, ca ∈ lcas → ∀ m, MaxCA g cmt [ca] m → m ∈ r)
  | [], _, r, h => by simp only [octopusInner] at h; cases h; simp
  | ca :: l, hl, r, h => by
    simp only [octopusInner] at h
    split at h
    · cases h
    · rename_i res hres
      split at h
      · cases h
      · rename_i rest hrest
        cases h
        obtain ⟨i1, i2⟩ := octopusInner_spec hwf hc l (fun c hc' => hl c (by simp [hc'])) rest hrest
        constructor
        · intro x hx
          rcases List.mem_append.mp hx with hx | hx
          · exact ⟨ca, by simp, findLcasFuel_sound hres hx⟩
          · obtain ⟨ca', hca', hx'⟩ := i1 x hx
            exact ⟨ca', by simp [hca'], hx'⟩
        · intro ca' hca' m hm
          rcases List.mem_cons.mp hca' with rfl | hca'
          · exact List.mem_append.mpr (Or.inl (findLcasFuel_complete hwf hc (by simp [hl ca' (by simp)]) hres hm
              (fun y _ => defaultCut_false g y)))
          · exact List.mem_append.mpr (Or.inr (i2 ca' hca' m hm))

theorem octopusOuter_spec {g : Graph} (hwf : g.WF) {rk : Nat → Nat} (hrk : ∀ c p, p ∈ g.parents c → rk p < rk c) :
    ∀ (others D lcas : List Nat), (∀ c, c ∈ others → c < g.n) → (∀ c, c ∈ lcas → c < g.n) →
      OctInv g D lcas → ∀ r, octopusOuter g others lcas = .ok r → OctInv g (D ++ others) r
  | [], D, lcas, _, _, hinv, r, h => by
    simp only [octopusOuter] at h; cases h
    simpa using hinv
  | cmt :: others, D, lcas, ho, hl, hinv, r, h => by
    simp only [octopusOuter] at h
    split at h
    · cases h
    · rename_i next hnext
      have hc : cmt < g.n := ho cmt (by simp)
      obtain ⟨i1, i2⟩ := octopusInner_spec hwf hc lcas hl next hnext
      have hnl : ∀ c, c ∈ next → c < g.n := by
        intro c hcn
        obtain ⟨ca, _, hca⟩ := i1 c hcn
        exact hca.lt_n hwf hc
      have hinv' : OctInv g (D ++ [cmt]) next := by
        constructor
        · intro x hx c hcD
          obtain ⟨ca, hca, ⟨hx1, c2, hc2, hx2⟩⟩ := i1 x hx
          simp only [List.mem_singleton] at hc2
          subst hc2
          rcases List.mem_append.mp hcD with hcD | hcD
          · exact hx2.trans (hinv.sound c2 hca c hcD)
          · simp only [List.mem_singleton] at hcD
            subst hcD; exact hx1
        · intro z hz
          obtain ⟨w, hw, hzw⟩ := hinv.cover z (fun c hcD => hz c (List.mem_append.mpr (Or.inl hcD)))
          have hzc : Anc g z cmt := hz cmt (by simp)
          have hzca : CA g cmt [w] z := ⟨hzc, w, by simp, hzw⟩
          obtain ⟨m, hPm, hzm, hmax⟩ := exists_maximal_above hrk (CA g cmt [w])
            (fun y hy => hy.lt_n hwf hc) hzca
          exact ⟨m, i2 w hw m ⟨hPm, hmax⟩, hzm⟩
      have := octopusOuter_spec hwf hrk others (D ++ [cmt]) next
        (fun c hc' => ho c (by simp [hc'])) hnl hinv' r h
      simpa using this

theorem findOctopusBase_exact {g : Graph} (hwf : g.WF) {rk : Nat → Nat}
    (hrk : ∀ c p, p ∈ g.parents c → rk p < rk c) {ids : List Nat} (hne : ids ≠ [])
    (hids : ∀ c, c ∈ ids → c < g.n) {r : List Nat} (h : findOctopusBase g ids = .ok r) :
    r.Nodup ∧ ∀ x, x ∈ r ↔ MaxCAall g ids x := by
  have hself : ∀ a, MaxCAall g [a] a := by
    intro a
    refine ⟨fun c hc => by simp at hc; subst hc; exact Anc.refl _, ?_⟩
    rintro ⟨y, hy, hs⟩
    have := hs.rk_lt hrk
    have := (hy a (by simp)).rk_le hrk
    omega
  match ids, hne, hids, h with
  | [a], _, _, h =>
    simp only [findOctopusBase, findMergeBase] at h
    cases h
    refine ⟨by simp, fun x => ?_⟩
    simp only [List.mem_singleton]
    constructor
    · rintro rfl; exact hself x
    · rintro ⟨hx, hmax⟩
      rcases (hx a (by simp)).eq_or_sanc with h | h
      · exact h
      · exact absurd ⟨a, (hself a).1, h⟩ hmax
  | [a, b], _, hids, h =>
    simp only [findOctopusBase] at h
    obtain ⟨hnd, hmem⟩ := findMergeBase_exact hwf hrk (hids a (by simp)) (c2s := [])
      (fun c hc => hids c (List.mem_cons_of_mem _ hc)) h
    refine ⟨hnd, fun x => ?_⟩
    rw [hmem x]
    have hca : ∀ z, CA g a [b] z ↔ CAall g [a, b] z := by
      intro z
      constructor
      · rintro ⟨h1, c2, hc2, h2⟩ c hc
        simp only [List.mem_singleton] at hc2; subst hc2
        simp only [List.mem_cons, List.not_mem_nil, or_false] at hc
        rcases hc with rfl | rfl
        · exact h1
        · exact h2
      · intro hz
        exact ⟨hz a (by simp), b, by simp, hz b (by simp)⟩
    unfold MaxCA MaxCAall
    rw [hca x]
    constructor
    · rintro ⟨h1, h2⟩; exact ⟨h1, fun ⟨y, hy, hs⟩ => h2 ⟨y, (hca y).mpr hy, hs⟩⟩
    · rintro ⟨h1, h2⟩; exact ⟨h1, fun ⟨y, hy, hs⟩ => h2 ⟨y, (hca y).mp hy, hs⟩⟩
  | c0 :: c1 :: c2 :: t, _, hids, h =>
    simp only [findOctopusBase] at h
    split at h
    · cases h
    · rename_i lcas hl
      have h0 : c0 < g.n := hids c0 (by simp)
      have hinv0 : OctInv g [c0] [c0] := by
        constructor
        · intro x hx c hc
          simp only [List.mem_singleton] at hx hc
          subst hx; subst hc; exact Anc.refl _
        · intro z hz; exact ⟨c0, by simp, hz c0 (by simp)⟩
      have hinv := octopusOuter_spec hwf hrk (c1 :: c2 :: t) [c0] [c0]
        (fun c hc => hids c (List.mem_cons_of_mem _ hc)) (by simp [h0]) hinv0 lcas hl
      simp only [List.singleton_append] at hinv
      have hP : ∀ z, CAall g (c0 :: c1 :: c2 :: t) z → z < g.n := fun z hz => (hz c0 (by simp)).lt_n hwf h0
      refine reduce_exact hwf hrk (CAall g (c0 :: c1 :: c2 :: t)) hP hinv.sound ?_ h
      intro m hm hmax
      obtain ⟨w, hw, hmw⟩ := hinv.cover m hm
      rcases hmw.eq_or_sanc with heq | hs
      · rw [heq]; exact hw
      · exact absurd ⟨w, hinv.sound w hw, hs⟩ hmax

/-! ## concrete graphs: the hypotheses of the theorems are decidable on `Graph.ofLists` -/

theorem ofLists_strictMono (ps : List (List Nat)) (ts : List Int)
    (h : ∀ c, c < ps.length → ∀ p, p ∈ ps.getD c [] → ts.getD p 0 < ts.getD c 0) :
    (Graph.ofLists ps ts).StrictMono := by
  intro c p hp
  by_cases hc : c < ps.length
  · exact h c hc p hp
  · simp only [Graph.ofLists] at hp
    rw [List.getD_eq_getElem?_getD, List.getElem?_eq_none (Nat.le_of_not_lt hc)] at hp
    cases hp

theorem ofLists_rank (ps : List (List Nat)) (ts : List Int) (rk : Nat → Nat)
    (h : ∀ c, c < ps.length → ∀ p, p ∈ ps.getD c [] → rk p < rk c) :
    ∀ c p, p ∈ (Graph.ofLists ps ts).parents c → rk p < rk c := by
  intro c p hp
  by_cases hc : c < ps.length
  · exact h c hc p hp
  · simp only [Graph.ofLists] at hp
    rw [List.getD_eq_getElem?_getD, List.getElem?_eq_none (Nat.le_of_not_lt hc)] at hp
    cases hp

theorem ofLists_nonneg (ps : List (List Nat)) (ts : List Int) (h : ∀ t, t ∈ ts → 0 ≤ t) (z : Nat) :
    0 ≤ (Graph.ofLists ps ts).ts z := by
  simp only [Graph.ofLists]
  rw [List.getD_eq_getElem?_getD]
  cases hz : ts[z]? with
  | none => simp
  | some t => simp only [Option.getD_some]; exact h t (List.mem_of_getElem? hz)

end Dulwich.LCA
