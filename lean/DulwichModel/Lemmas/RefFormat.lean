/- Helper lemmas for the ref-name model (C16).  Property theorems live in Props/C16.lean. -/
import DulwichModel.Model.RefFormat
namespace Dulwich.RefFormat
open Dulwich Dulwich.Gen.Refs
theorem hasInfix_iff (pat l : Bytes) : hasInfix pat l = true ↔ pat <:+: l := by
  induction l with
  | nil => simp [hasInfix]
  | cons b rest ih =>
    simp only [hasInfix, Bool.or_eq_true, ih, List.isPrefixOf_iff_prefix, List.infix_cons_iff]

theorem hasInfix_singleton (b : UInt8) (l : Bytes) : hasInfix [b] l = true ↔ b ∈ l := by
  rw [hasInfix_iff]
  constructor
  · rintro ⟨s, t, h⟩; rw [← h]; simp
  · intro h
    obtain ⟨s, t, h⟩ := List.append_of_mem h
    exact ⟨s, t, by simp [h]⟩

theorem join_splitFirst (sep : UInt8) (l : Bytes) :
    joinWith sep ((splitFirst sep l).1 :: (splitFirst sep l).2) = l := by
  induction l with
  | nil => simp [splitFirst, joinWith]
  | cons b rest ih =>
    simp only [splitFirst]
    split
    · rename_i h; subst h
      simp only [joinWith, List.nil_append, ih]
    · generalize hr : splitFirst sep rest = r at ih
      obtain ⟨c, cs⟩ := r
      cases cs with
      | nil => simp [joinWith] at ih ⊢; exact ih
      | cons c' cs => simp [joinWith] at ih ⊢; exact ih

theorem join_split (sep : UInt8) (l : Bytes) : joinWith sep (splitOnByte sep l) = l :=
  join_splitFirst sep l

theorem splitFirst_no_sep (sep : UInt8) (l : Bytes) :
    sep ∉ (splitFirst sep l).1 ∧ ∀ c ∈ (splitFirst sep l).2, sep ∉ c := by
  induction l with
  | nil => simp [splitFirst]
  | cons b rest ih =>
    simp only [splitFirst]
    split
    · simp; exact ih
    · rename_i h
      simp; exact ⟨⟨fun h' => h h'.symm, ih.1⟩, ih.2⟩

theorem split_no_sep (sep : UInt8) (l : Bytes) : ∀ c ∈ splitOnByte sep l, sep ∉ c := by
  intro c hc
  simp only [splitOnByte, List.mem_cons] at hc
  rcases hc with rfl | hc
  · exact (splitFirst_no_sep sep l).1
  · exact (splitFirst_no_sep sep l).2 c hc

theorem splitFirst_append_nosep (sep : UInt8) (c rest : Bytes) (hc : sep ∉ c) :
    splitFirst sep (c ++ sep :: rest) = (c, (splitFirst sep rest).1 :: (splitFirst sep rest).2) := by
  induction c with
  | nil => simp [splitFirst]
  | cons b c ih =>
    simp only [List.mem_cons, not_or] at hc
    simp only [List.cons_append, splitFirst, ih hc.2]
    have : ¬ b = sep := fun h => hc.1 h.symm
    simp [this]

theorem splitFirst_nosep (sep : UInt8) (c : Bytes) (hc : sep ∉ c) : splitFirst sep c = (c, []) := by
  induction c with
  | nil => simp [splitFirst]
  | cons b c ih =>
    simp only [List.mem_cons, not_or] at hc
    have : ¬ b = sep := fun h => hc.1 h.symm
    simp [splitFirst, ih hc.2, this]

theorem split_join (sep : UInt8) : ∀ (cs : List Bytes), cs ≠ [] → (∀ c ∈ cs, sep ∉ c) →
    splitOnByte sep (joinWith sep cs) = cs := by
  intro cs
  induction cs with
  | nil => intro h; exact absurd rfl h
  | cons c cs ih =>
    intro _ hall
    cases cs with
    | nil =>
      simp only [joinWith, splitOnByte]
      rw [splitFirst_nosep sep c (hall c (by simp))]
    | cons c' cs =>
      have h1 := hall c (by simp)
      have ih' := ih (by simp) (fun x hx => hall x (by simp [hx]))
      simp only [joinWith, splitOnByte] at ih' ⊢
      rw [splitFirst_append_nosep sep c _ h1]
      simp only [ih']

theorem split_length_of_mem (sep : UInt8) (l : Bytes) (h : sep ∈ l) : 2 ≤ (splitOnByte sep l).length := by
  induction l with
  | nil => simp at h
  | cons b rest ih =>
    simp only [splitOnByte, splitFirst]
    split
    · simp
    · rename_i hb
      simp only [List.mem_cons] at h
      rcases h with h | h
      · exact absurd h.symm hb
      · have := ih h
        simp only [splitOnByte, List.length_cons] at this ⊢
        exact this

theorem mem_join_of_length (sep : UInt8) : ∀ (cs : List Bytes), 2 ≤ cs.length → sep ∈ joinWith sep cs := by
  intro cs h
  match cs, h with
  | c :: c' :: cs, _ => simp [joinWith]

theorem runTests_cons_true (t : RefTest) (ts : List RefTest) (n : Bytes) :
    runTests (t :: ts) n = some true ↔ runTest n t = some true ∧ runTests ts n = some true := by
  simp only [runTests]
  split <;> simp_all

theorem runTests_nil (n : Bytes) : runTests [] n = some true := rfl

theorem getLast?_eq_some_iff_suffix (c : UInt8) (n : Bytes) : n.getLast? = some c ↔ [c] <:+ n := by
  constructor
  · intro h
    obtain ⟨l, rfl⟩ := List.getLast?_eq_some_iff.mp h
    exact ⟨l, rfl⟩
  · rintro ⟨l, rfl⟩
    simp

theorem runTest_eqWhole (n lit : Bytes) : runTest n (.eqWhole lit) = some true ↔ n ≠ lit := by
  simp [runTest]
theorem runTest_lacks (n lit : Bytes) : runTest n (.lacks lit) = some true ↔ lit <:+: n := by
  simp [runTest, hasInfix_iff]
theorem runTest_contains (n lit : Bytes) : runTest n (.contains lit) = some true ↔ ¬ lit <:+: n := by
  simp [runTest, ← hasInfix_iff]
theorem runTest_charLoop (n : Bytes) (limit : Nat) (bad : List UInt8) :
    runTest n (.charLoop limit bad) = some true ↔ ∀ c ∈ n, ¬ c.toNat < limit ∧ c ∉ bad := by
  simp [runTest, List.all_eq_true]
theorem runTest_lastIn (n : Bytes) (set : List UInt8) :
    runTest n (.lastIn set) = some true ↔ ∃ c, n.getLast? = some c ∧ c ∉ set := by
  simp only [runTest]
  cases n.getLast? with
  | none => simp
  | some c => simp
theorem runTest_components (n : Bytes) (sep : UInt8) (tests : List CompTest) :
    runTest n (.components sep tests) = some true ↔
      ∀ c ∈ splitOnByte sep n, ∀ t ∈ tests, compFires c t = false := by
  simp [runTest, List.all_eq_true]

theorem compFires_empty (c : Bytes) : compFires c .empty = false ↔ c ≠ [] := by
  simp [compFires]
theorem compFires_startsWith (c lit : Bytes) : compFires c (.startsWith lit) = false ↔ ¬ lit <+: c := by
  simp [compFires, ← List.isPrefixOf_iff_prefix]
theorem compFires_endsWith (c lit : Bytes) : compFires c (.endsWith lit) = false ↔ ¬ lit <:+ c := by
  simp [compFires, ← List.isSuffixOf_iff_suffix]

theorem checkRefFormat_unfold (n : Bytes) : checkRefFormat n = some true ↔
    (n ≠ b!"@" ∧ (47:UInt8) ∈ n ∧ ¬ (b!".." <:+: n) ∧
     (∀ c ∈ n, ¬ (c.toNat < 32) ∧ c ∉ badRefChars) ∧
     (∃ c, n.getLast? = some c ∧ c ∉ b!"/.") ∧
     ¬ (b!"@{" <:+: n) ∧ (92:UInt8) ∉ n ∧
     (∀ c ∈ splitOnByte 47 n, c ≠ [] ∧ ¬ (b!"." <+: c) ∧ ¬ (b!".lock" <:+ c))) := by
  unfold checkRefFormat checkRefFormatTests
  simp only [runTests_cons_true, runTests_nil, and_true, runTest_eqWhole, runTest_lacks, runTest_contains,
    runTest_charLoop, runTest_lastIn, runTest_components]
  simp only [← hasInfix_iff, hasInfix_singleton]
  simp only [hasInfix_iff, List.forall_mem_cons, compFires_empty, compFires_startsWith, compFires_endsWith,
    List.not_mem_nil, false_imp_iff, implies_true, and_true]

theorem badRefChars_iff (c : UInt8) : c ∉ badRefChars ↔ (c.toNat ≠ 127 ∧ c ∉ b!" ~^:?*[") := by
  have : c.toNat ≠ 127 ↔ c ≠ 127 := by
    constructor
    · intro h h'; subst h'; exact h rfl
    · intro h h'; apply h; exact UInt8.toNat_inj.mp h'
  rw [this]
  simp only [badRefChars, List.mem_cons, List.not_mem_nil, or_false, not_or]
  grind

theorem splitFirst_snoc_sep (sep : UInt8) (l : Bytes) : [] ∈ (splitFirst sep (l ++ [sep])).2 := by
  induction l with
  | nil => simp [splitFirst]
  | cons b l ih =>
    simp only [List.cons_append, splitFirst]
    split
    · simp [ih]
    · exact ih


end Dulwich.RefFormat
