/- Helper lemmas for the index-file model (C11).  Property theorems live in Props/C11.lean. -/
import DulwichModel.Model.Index
import DulwichModel.Lemmas.Delta
import Mathlib.Tactic.Ring

namespace Dulwich.Index
open Dulwich Dulwich.Gen.Index

theorem u8 {n : Nat} (h : n < 256) : (UInt8.ofNat n).toNat = n := Dulwich.Delta.u8_toNat_ofNat h

theorem u8_lt (b : UInt8) : b.toNat < 256 := b.toNat_lt

@[simp] theorem bind_ok {α β : Type} (x : α) (f : α → R β) : (Except.ok x >>= f) = f x := rfl
@[simp] theorem bind_error {α β : Type} (e : IErr) (f : α → R β) : ((Except.error e : R α) >>= f) = .error e := rfl
@[simp] theorem pure_eq_ok {α : Type} (x : α) : (pure x : R α) = .ok x := rfl

/-! ### fixed-width integers -/

theorem be32_length (n : Nat) : (be32 n).length = 4 := rfl
theorem be16_length (n : Nat) : (be16 n).length = 2 := rfl

theorem readL_be32 {n : Nat} (h : n < 4294967296) (rest : Bytes) :
    readL (be32 n ++ rest) = .ok (n, rest) := by
  simp only [be32, List.cons_append, List.nil_append, readL]
  rw [u8 (by omega), u8 (by omega), u8 (by omega), u8 (by omega)]
  congr 2; omega

theorem readH_be16 {n : Nat} (h : n < 65536) (rest : Bytes) :
    readH (be16 n ++ rest) = .ok (n, rest) := by
  simp only [be16, List.cons_append, List.nil_append, readH]
  rw [u8 (by omega), u8 (by omega)]
  congr 2; omega

theorem packL_ok {n : Nat} (h : n < 4294967296) : packL n = .ok (be32 n) := by simp [packL, h]
theorem packL_err {n : Nat} (h : 4294967296 ≤ n) : packL n = .error .struct := by
  simp [packL]; omega
theorem packH_ok {n : Nat} (h : n < 65536) : packH n = .ok (be16 n) := by simp [packH, h]

/-! ### varint (git's offset encoding) -/

theorem encodeVarintAux_zero (v : Nat) (acc : Bytes) : encodeVarintAux 0 v acc = acc := rfl

theorem encodeVarintAux_succ (fuel v : Nat) (acc : Bytes) :
    encodeVarintAux (fuel + 1) v acc =
      if v / 128 = 0 then acc
      else encodeVarintAux fuel (v / 128 - 1) (UInt8.ofNat (128 + (v / 128 - 1) % 128) :: acc) := rfl

theorem encodeVarint_def (n : Nat) :
    encodeVarint n = encodeVarintAux (n + 1) n [UInt8.ofNat (n % 128)] := rfl

theorem encodeVarint_small {n : Nat} (h : n < 128) : encodeVarint n = [UInt8.ofNat n] := by
  have h1 : n / 128 = 0 := by omega
  rw [encodeVarint_def, encodeVarintAux_succ, if_pos h1, Nat.mod_eq_of_lt h]

theorem readVarintAux_cons (v : Nat) (b : UInt8) (rest : Bytes) :
    readVarintAux v (b :: rest) =
      if b.toNat / 128 % 2 = 0 then .ok (v * 128 + b.toNat % 128, rest)
      else readVarintAux (v * 128 + b.toNat % 128 + 1) rest := rfl

theorem decodeVarintAux_cons (v : Nat) (b : UInt8) (rest : Bytes) :
    decodeVarintAux v (b :: rest) =
      if b.toNat / 128 % 2 = 0 then .ok (v * 128 + b.toNat % 128, rest)
      else decodeVarintAux (v * 128 + b.toNat % 128 + 1) rest := rfl

/-- Reading the continuation bytes the encoder put in front of `acc` brings the decoder from state 0
to state `v / 128` (the decoder state is "value so far, plus one"). -/
theorem readVarintAux_encodeAux : ∀ (fuel v : Nat) (acc t : Bytes), v ≤ fuel →
    readVarintAux 0 (encodeVarintAux fuel v acc ++ t) = readVarintAux (v / 128) (acc ++ t) := by
  intro fuel
  induction fuel with
  | zero =>
    intro v acc t hv
    have : v = 0 := by omega
    subst this
    rfl
  | succ fuel ih =>
    intro v acc t hv
    rw [encodeVarintAux_succ]
    by_cases h0 : v / 128 = 0
    · rw [if_pos h0, h0]
    · rw [if_neg h0, ih (v / 128 - 1) _ t (by omega)]
      have hb : (UInt8.ofNat (128 + (v / 128 - 1) % 128)).toNat = 128 + (v / 128 - 1) % 128 := u8 (by omega)
      have hc : ¬ ((128 + (v / 128 - 1) % 128) / 128 % 2 = 0) := by omega
      rw [List.cons_append, readVarintAux_cons, hb, if_neg hc]
      congr 1
      omega

theorem readVarint_encode (n : Nat) (rest : Bytes) : readVarint (encodeVarint n ++ rest) = .ok (n, rest) := by
  unfold readVarint
  rw [encodeVarint_def, readVarintAux_encodeAux (n + 1) n _ rest (by omega)]
  have hb : (UInt8.ofNat (n % 128)).toNat = n % 128 := u8 (by omega)
  have hc : n % 128 / 128 % 2 = 0 := by omega
  rw [List.cons_append, List.nil_append, readVarintAux_cons, hb, if_pos hc]
  congr 2
  omega

theorem decodeVarintAux_encodeAux : ∀ (fuel v : Nat) (acc t : Bytes), v ≤ fuel →
    decodeVarintAux 0 (encodeVarintAux fuel v acc ++ t) = decodeVarintAux (v / 128) (acc ++ t) := by
  intro fuel
  induction fuel with
  | zero =>
    intro v acc t hv
    have : v = 0 := by omega
    subst this
    rfl
  | succ fuel ih =>
    intro v acc t hv
    rw [encodeVarintAux_succ]
    by_cases h0 : v / 128 = 0
    · rw [if_pos h0, h0]
    · rw [if_neg h0, ih (v / 128 - 1) _ t (by omega)]
      have hb : (UInt8.ofNat (128 + (v / 128 - 1) % 128)).toNat = 128 + (v / 128 - 1) % 128 := u8 (by omega)
      have hc : ¬ ((128 + (v / 128 - 1) % 128) / 128 % 2 = 0) := by omega
      rw [List.cons_append, decodeVarintAux_cons, hb, if_neg hc]
      congr 1
      omega

theorem decodeVarint_encode (n : Nat) (rest : Bytes) : decodeVarint (encodeVarint n ++ rest) = .ok (n, rest) := by
  unfold decodeVarint
  rw [encodeVarint_def, decodeVarintAux_encodeAux (n + 1) n _ rest (by omega)]
  have hb : (UInt8.ofNat (n % 128)).toNat = n % 128 := u8 (by omega)
  have hc : n % 128 / 128 % 2 = 0 := by omega
  rw [List.cons_append, List.nil_append, decodeVarintAux_cons, hb, if_pos hc]
  congr 2
  omega

/-- The code's encoder is git's `encode_varint` (the independent transcription of varint.c). -/
theorem encodeVarintAux_eq_git : ∀ (fuel v : Nat) (acc : Bytes),
    encodeVarintAux fuel v acc = gitEncodeVarintAux fuel v acc := by
  intro fuel
  induction fuel with
  | zero => intro v acc; rfl
  | succ fuel ih =>
    intro v acc
    rw [encodeVarintAux_succ]
    simp only [gitEncodeVarintAux]
    split
    · rfl
    · exact ih _ _

theorem encodeVarint_eq_git (n : Nat) : encodeVarint n = gitEncodeVarint n := by
  rw [encodeVarint_def]; unfold gitEncodeVarint; exact encodeVarintAux_eq_git _ _ _

/-! ### path compression -/

theorem commonPrefixLen_le_left : ∀ (a b : Bytes), commonPrefixLen a b ≤ a.length
  | [], _ => by simp [commonPrefixLen]
  | _ :: _, [] => by simp [commonPrefixLen]
  | x :: as, y :: bs => by
    simp only [commonPrefixLen]
    split
    · have := commonPrefixLen_le_left as bs; simp; omega
    · simp

theorem commonPrefixLen_le_right : ∀ (a b : Bytes), commonPrefixLen a b ≤ b.length
  | [], _ => by simp [commonPrefixLen]
  | _ :: _, [] => by simp [commonPrefixLen]
  | x :: as, y :: bs => by
    simp only [commonPrefixLen]
    split
    · have := commonPrefixLen_le_right as bs; simp; omega
    · simp

theorem take_commonPrefixLen : ∀ (a b : Bytes),
    b.take (commonPrefixLen a b) = a.take (commonPrefixLen a b)
  | [], _ => by simp [commonPrefixLen]
  | _ :: _, [] => by simp [commonPrefixLen]
  | x :: as, y :: bs => by
    simp only [commonPrefixLen]
    split
    · rename_i h; simp [h, take_commonPrefixLen as bs]
    · simp

theorem splitNul_append : ∀ (s rest : Bytes), (0 : UInt8) ∉ s →
    splitNul (s ++ 0 :: rest) = some (s, rest)
  | [], rest, _ => by simp [splitNul]
  | b :: s, rest, h => by
    have hb : b ≠ 0 := fun hb => h (by simp [hb])
    have hs : (0 : UInt8) ∉ s := fun hs => h (by simp [hs])
    simp [splitNul, hb, splitNul_append s rest hs]

theorem rebuild_compress (path prev : Bytes) :
    rebuildPath prev (prev.length - commonPrefixLen path prev) (path.drop (commonPrefixLen path prev))
      = .ok path := by
  have h1 := commonPrefixLen_le_right path prev
  unfold rebuildPath
  have h2 : ¬ (prev.length - commonPrefixLen path prev > prev.length) := by omega
  have h3 : prev.length - (prev.length - commonPrefixLen path prev) = commonPrefixLen path prev := by omega
  simp only [h2, if_false, h3, take_commonPrefixLen, List.take_append_drop]

/-! ### 12-bit split of the flags word -/

theorem and12 (x y : Nat) : x &&& y = 4096 * (x / 4096 &&& y / 4096) + (x % 4096 &&& y % 4096) := by
  have h1 := @Nat.and_div_two_pow x y 12
  have h2 := @Nat.and_mod_two_pow x y 12
  have e : (2:Nat) ^ 12 = 4096 := by decide
  rw [e] at h1 h2
  rw [← h1, ← h2]
  omega

theorem or12 (x y : Nat) : x ||| y = 4096 * (x / 4096 ||| y / 4096) + (x % 4096 ||| y % 4096) := by
  have h1 := @Nat.or_div_two_pow x y 12
  have h2 := @Nat.or_mod_two_pow x y 12
  have e : (2:Nat) ^ 12 = 4096 := by decide
  rw [e] at h1 h2
  rw [← h1, ← h2]
  omega

theorem and_4095 (x : Nat) : x &&& 4095 = x % 4096 := by
  have := Nat.and_two_pow_sub_one_eq_mod x 12
  simpa using this

theorem and_u32 (x : Nat) : x &&& 4294967295 = x % 4294967296 := by
  have := Nat.and_two_pow_sub_one_eq_mod x 32
  simpa using this

theorem clearBits_4095 (x : Nat) : clearBits x 4095 = 4096 * (x / 4096) := by
  unfold clearBits; rw [and_4095]; omega

/-- The high nibble of the on-disk flags word. -/
def hiNibble (flags ext : Nat) : Nat := flags / 4096 ||| (if ext ≠ 0 then 4 else 0)

theorem diskFlags_eq (e : Entry) :
    diskFlags e = 4096 * hiNibble e.flags e.ext + min e.name.length 4095 := by
  unfold diskFlags hiNibble
  simp only [flagNameMask, flagExtended, clearBits_4095]
  generalize hL : min e.name.length 4095 = L
  have hl : L < 4096 := by omega
  have h0 : L ||| 4096 * (e.flags / 4096) = 4096 * (e.flags / 4096) + L := by
    rw [or12]
    have a1 : L / 4096 = 0 := by omega
    have a2 : 4096 * (e.flags / 4096) / 4096 = e.flags / 4096 := by omega
    have a3 : 4096 * (e.flags / 4096) % 4096 = 0 := by omega
    have a4 : L % 4096 = L := by omega
    rw [a1, a2, a3, a4]; simp
  rw [h0]
  split
  · rw [or12]
    have a1 : (4096 * (e.flags / 4096) + L) / 4096 = e.flags / 4096 := by omega
    have a2 : (4096 * (e.flags / 4096) + L) % 4096 = L := by omega
    rw [a1, a2]; simp
  · simp

theorem word_and_ext (A L : Nat) (hl : L < 4096) : (4096 * A + L) &&& 16384 = 4096 * (A &&& 4) := by
  rw [and12]
  have a1 : (4096 * A + L) / 4096 = A := by omega
  have a2 : (4096 * A + L) % 4096 = L := by omega
  rw [a1, a2]; simp

theorem word_and_name (A L : Nat) (hl : L < 4096) : (4096 * A + L) &&& 4095 = L := by
  rw [and_4095]; omega

theorem word_clear (A L : Nat) (hl : L < 4096) : clearBits (4096 * A + L) 4095 = 4096 * A := by
  rw [clearBits_4095]; omega

/-! ### padding -/

theorem and_7 (x : Nat) : x &&& 7 = x % 8 := by
  have := Nat.and_two_pow_sub_one_eq_mod x 3
  simpa using this

theorem padLenWrite_eq (n : Nat) : padLenWrite n = 8 - n % 8 := by
  simp only [padLenWrite, padLenWith, padAddWrite, padMaskWrite, clearBits, and_7]; omega

theorem padLenRead_eq (n : Nat) : padLenRead n = padLenWrite n := rfl

/-! ### times and the fixed part -/

/-- What `read_cache_time` returns for what `write_cache_time` wrote: always a pair, each half reduced
modulo 2^32 (the code masks, as git's `(unsigned int)` assignment does). -/
def normTime : Time → Time
  | .int t => .pair (t % 4294967296) 0
  | .pair s n => .pair (s % 4294967296) (n % 4294967296)

def timeBytes : Time → Bytes
  | .int t => be32 (t % 4294967296) ++ be32 0
  | .pair s n => be32 (s % 4294967296) ++ be32 (n % 4294967296)

theorem timeBytes_length (t : Time) : (timeBytes t).length = 8 := by cases t <;> rfl

theorem packTime_ok (t : Time) : packTime t = .ok (timeBytes t) := by
  have hm : ∀ x, x % 4294967296 < 4294967296 := fun x => Nat.mod_lt _ (by decide)
  cases t with
  | int t =>
    simp only [packTime, maskOpt, timeSecMask, timeNsecMask, and_u32, timeBytes]
    rw [packL_ok (hm t), packL_ok (hm 0)]; rfl
  | pair s n =>
    simp only [packTime, maskOpt, timeSecMask, timeNsecMask, and_u32, timeBytes]
    rw [packL_ok (hm s), packL_ok (hm n)]; rfl

theorem readTime_timeBytes (t : Time) (rest : Bytes) :
    readTime (timeBytes t ++ rest) = .ok (normTime t, rest) := by
  have hm : ∀ x, x % 4294967296 < 4294967296 := fun x => Nat.mod_lt _ (by decide)
  cases t with
  | int t =>
    simp [readTime, timeBytes, List.append_assoc, readL_be32 (hm t), readL_be32 (show 0 < 4294967296 by decide), normTime]
  | pair s n =>
    simp [readTime, timeBytes, List.append_assoc, readL_be32 (hm s), readL_be32 (hm n), normTime]

theorem pack20_of_length {b : Bytes} (h : b.length = 20) : pack20 b = b := by
  unfold pack20
  rw [List.take_append_of_le_length (by omega)]
  exact List.take_of_length_le (by omega)

/-- The 46 bytes of the fixed part. -/
def fixedBytes (e : Entry) (flags : Nat) : Bytes :=
  be32 (e.dev % 4294967296) ++ be32 (e.ino % 4294967296) ++ be32 e.mode ++ be32 e.uid ++ be32 e.gid ++
    be32 (e.size % 4294967296) ++ e.sha ++ be16 flags

theorem packFixed_ok {e : Entry} {flags : Nat} (hm : e.mode < 4294967296) (hu : e.uid < 4294967296)
    (hg : e.gid < 4294967296) (hsha : e.sha.length = 20) (hf : flags < 65536) :
    packFixed e flags = .ok (fixedBytes e flags) := by
  unfold packFixed fixedBytes
  simp only [maskOpt, devMask, inoMask, modeMask, uidMask, gidMask, sizeMask, and_u32]
  rw [packL_ok (Nat.mod_lt _ (by decide)), packL_ok (Nat.mod_lt _ (by decide)), packL_ok hm, packL_ok hu,
    packL_ok hg, packL_ok (Nat.mod_lt _ (by decide)), packH_ok hf, pack20_of_length hsha]
  simp

theorem fixedBytes_length {e : Entry} {flags : Nat} (hsha : e.sha.length = 20) :
    (fixedBytes e flags).length = 46 := by
  simp [fixedBytes, be32_length, be16_length, hsha]

theorem readFixed_fixedBytes {e : Entry} {flags : Nat} (hm : e.mode < 4294967296) (hu : e.uid < 4294967296)
    (hg : e.gid < 4294967296) (hsha : e.sha.length = 20) (hf : flags < 65536)
    (rest : Bytes) :
    readFixed (fixedBytes e flags ++ rest) =
      .ok ((e.dev % 4294967296, e.ino % 4294967296, e.mode, e.uid, e.gid, e.size % 4294967296), e.sha, flags, rest) := by
  have hlen : ¬ ((fixedBytes e flags ++ rest).length < entryReadLen) := by
    simp [fixedBytes_length hsha, entryReadLen]
  unfold readFixed
  rw [if_neg hlen]
  simp only [fixedBytes, List.append_assoc]
  rw [readL_be32 (Nat.mod_lt _ (by decide))]; simp only [bind_ok]
  rw [readL_be32 (Nat.mod_lt _ (by decide))]; simp only [bind_ok]
  rw [readL_be32 hm]; simp only [bind_ok]
  rw [readL_be32 hu]; simp only [bind_ok]
  rw [readL_be32 hg]; simp only [bind_ok]
  rw [readL_be32 (Nat.mod_lt _ (by decide))]; simp only [bind_ok]
  have t : (e.sha ++ (be16 flags ++ rest)).take 20 = e.sha := by
    rw [List.take_append_of_le_length (by omega)]; exact List.take_of_length_le (by omega)
  have d : (e.sha ++ (be16 flags ++ rest)).drop 20 = be16 flags ++ rest := by
    rw [List.drop_append_of_le_length (by omega), List.drop_of_length_le (by omega)]; simp
  rw [t, d, readH_be16 hf]
  simp

/-! ### one entry -/

/-- Well-formedness as the round-trip proof needs it.  After the repair series nothing is required of
the name length, the size, the times, dev or ino.  What remains: a git path contains no NUL (for
versions below 4 only the part beyond the first 4095 bytes matters to the codec), `mode`, `uid`, `gid`
fit their 32-bit fields (they are packed unmasked), the id has 20 bytes, the two flag words 16 bits, and
extended flags need version 3. -/
def WFEntry (v : Nat) (e : Entry) : Prop :=
  (4 ≤ v → (0 : UInt8) ∉ e.name) ∧ (v < 4 → (0 : UInt8) ∉ e.name.drop 4095) ∧
  e.mode < 4294967296 ∧ e.uid < 4294967296 ∧ e.gid < 4294967296 ∧
  e.sha.length = 20 ∧ e.flags < 65536 ∧ e.ext < 65536 ∧
  ((e.ext ≠ 0 ∨ e.flags &&& flagExtended ≠ 0) → 3 ≤ v)

instance (v : Nat) (e : Entry) : Decidable (WFEntry v e) := by unfold WFEntry; infer_instance

/-- What comes back: times as pairs, and — exactly as C git narrows them — the two halves of each time,
dev, ino and size modulo 2^32; the name-length bits of the flags cleared and the "extended" bit set when
there are extended flags.  Everything else unchanged. -/
def normEntry (e : Entry) : Entry :=
  { e with ctime := normTime e.ctime, mtime := normTime e.mtime, dev := e.dev % 4294967296,
           ino := e.ino % 4294967296, size := e.size % 4294967296,
           flags := clearBits (diskFlags e) flagNameMask }

/-- The extended-flags word as written. -/
def extBytes (e : Entry) : Bytes := if diskFlags e &&& flagExtended ≠ 0 then be16 e.ext else []

theorem hiNibble_lt {f x : Nat} (hf : f < 65536) : hiNibble f x < 16 := by
  unfold hiNibble
  have h : f / 4096 < 16 := by omega
  have : ∀ a, a < 16 → ∀ b : Bool, (a ||| (if b then 4 else 0)) < 16 := by decide
  have := this _ h (decide (x ≠ 0))
  simpa using this

theorem hiNibble_ext {f x : Nat} (hf : f < 65536) :
    (hiNibble f x &&& 4 ≠ 0) ↔ (x ≠ 0 ∨ f &&& 16384 ≠ 0) := by
  have hfx : f &&& 16384 = 4096 * (f / 4096 &&& 4) := by
    have := word_and_ext (f / 4096) (f % 4096) (by omega)
    rwa [Nat.div_add_mod] at this
  rw [hfx]
  unfold hiNibble
  have h : f / 4096 < 16 := by omega
  have key : ∀ a, a < 16 → ∀ b : Bool,
      ((a ||| (if b then 4 else 0)) &&& 4 ≠ 0 ↔ (b = true ∨ 4096 * (a &&& 4) ≠ 0)) := by decide
  have := key _ h (decide (x ≠ 0))
  simpa using this

theorem diskFlags_lt {e : Entry} (hf : e.flags < 65536) : diskFlags e < 65536 := by
  rw [diskFlags_eq e]; have := hiNibble_lt (x := e.ext) hf; omega

theorem diskFlags_ext {e : Entry} (hf : e.flags < 65536) :
    (diskFlags e &&& flagExtended ≠ 0) ↔ (e.ext ≠ 0 ∨ e.flags &&& flagExtended ≠ 0) := by
  rw [diskFlags_eq e]
  simp only [flagExtended]
  rw [word_and_ext _ _ (by omega), ← hiNibble_ext hf]
  omega

theorem diskFlags_name (e : Entry) : diskFlags e &&& flagNameMask = min e.name.length 4095 := by
  rw [diskFlags_eq e]; exact word_and_name _ _ (by omega)

/-- The bytes `write_cache_entry` writes for a well-formed entry. -/
def entryBytes (v : Nat) (prev : Bytes) (e : Entry) : Bytes :=
  let head := timeBytes e.ctime ++ timeBytes e.mtime ++ fixedBytes e (diskFlags e) ++ extBytes e
  if v ≥ 4 then head ++ compressPath e.name prev
  else head ++ e.name ++ List.replicate (padLenWrite (head ++ e.name).length) 0

theorem writeCacheEntry_ok {v : Nat} {e : Entry} (prev : Bytes) (h : WFEntry v e) :
    writeCacheEntry v prev e = .ok (entryBytes v prev e) := by
  obtain ⟨_, _, hm, hu, hg, hsha, hf, hx, hv⟩ := h
  unfold writeCacheEntry
  rw [packTime_ok, packTime_ok]
  simp only [bind_ok]
  have hnot : ¬ (diskFlags e &&& flagExtended ≠ 0 ∧ v < wExtendedFrom) := by
    intro ⟨h1, h2⟩
    have := hv ((diskFlags_ext hf).1 h1)
    simp only [wExtendedFrom] at h2; omega
  rw [if_neg hnot, packFixed_ok hm hu hg hsha (diskFlags_lt hf)]
  simp only [bind_ok]
  unfold entryBytes extBytes
  by_cases hext : diskFlags e &&& flagExtended ≠ 0
  · simp only [if_pos hext, packH_ok hx, bind_ok, wCompressFrom, wCompressFrom2]
    by_cases hv4 : v ≥ 4
    · simp [hv4]
    · simp [hv4]
  · simp only [if_neg hext, pure_eq_ok, bind_ok, wCompressFrom, wCompressFrom2]
    by_cases hv4 : v ≥ 4
    · simp [hv4]
    · simp [hv4]

theorem decompressPathStream_compress (path prev rest : Bytes) (h : (0 : UInt8) ∉ path) :
    decompressPathStream prev (compressPath path prev ++ rest) = .ok (path, rest) := by
  have hd : (0 : UInt8) ∉ path.drop (commonPrefixLen path prev) := fun hm => h (List.mem_of_mem_drop hm)
  unfold decompressPathStream compressPath
  simp only [List.append_assoc, List.cons_append, List.nil_append]
  rw [readVarint_encode]
  simp only [splitNul_append _ rest hd, rebuild_compress]

theorem decompressPath_compress (path prev rest : Bytes) (h : (0 : UInt8) ∉ path) :
    decompressPath prev (compressPath path prev ++ rest) = .ok (path, rest) := by
  have hd : (0 : UInt8) ∉ path.drop (commonPrefixLen path prev) := fun hm => h (List.mem_of_mem_drop hm)
  unfold decompressPath compressPath
  simp only [List.append_assoc, List.cons_append, List.nil_append]
  rw [decodeVarint_encode]
  simp only [splitNul_append _ rest hd, rebuild_compress]

theorem extBytes_length_le (e : Entry) : (extBytes e).length ≤ 2 := by
  unfold extBytes; split <;> simp [be16_length]

/-- The name-and-padding part of `read_cache_entry` below version 4, on what the writer produced:
`hd` bytes were consumed before the name, `p` NULs of padding follow it. -/
theorem readName_ok (name rest : Bytes) (hd p : Nat) (hpe : padLenWrite (hd + name.length) = p)
    (hnul : (0 : UInt8) ∉ name.drop 4095) (d : Bytes)
    (hdlen : d.length = hd + name.length + p + rest.length) :
    (if min name.length 4095 = flagNameMask then
      match splitNul ((name ++ (List.replicate p 0 ++ rest)).drop (min name.length 4095)) with
      | none => (Except.error IErr.value : R (Bytes × Bytes))
      | some (more, d6) =>
        .ok ((name ++ (List.replicate p 0 ++ rest)).take (min name.length 4095) ++ more,
          d6.drop (padLenRead (d.length - ((name ++ (List.replicate p 0 ++ rest)).drop (min name.length 4095)).length
            + more.length) - 1))
    else .ok ((name ++ (List.replicate p 0 ++ rest)).take (min name.length 4095),
      ((name ++ (List.replicate p 0 ++ rest)).drop (min name.length 4095)).drop
        (padLenRead (d.length - ((name ++ (List.replicate p 0 ++ rest)).drop (min name.length 4095)).length))))
      = .ok (name, rest) := by
  have hp := padLenWrite_eq (hd + name.length)
  rw [hpe] at hp
  have hp1 : 1 ≤ p := by omega
  by_cases hsat : name.length < 4095
  · -- not saturated
    have hk : min name.length 4095 = name.length := by omega
    have hne : ¬ (min name.length 4095 = flagNameMask) := by simp only [flagNameMask]; omega
    have htake : (name ++ (List.replicate p 0 ++ rest)).take name.length = name := by
      rw [List.take_append_of_le_length (Nat.le_refl _)]; exact List.take_of_length_le (Nat.le_refl _)
    have hdrop : (name ++ (List.replicate p 0 ++ rest)).drop name.length = List.replicate p 0 ++ rest := by
      rw [List.drop_append_of_le_length (Nat.le_refl _)]; simp
    rw [if_neg hne, hk, htake, hdrop]
    have hl : d.length - (List.replicate p (0 : UInt8) ++ rest).length = hd + name.length := by
      simp only [List.length_append, List.length_replicate]; omega
    rw [hl, padLenRead_eq, hpe, List.drop_append_of_le_length (by simp), List.drop_of_length_le (by simp)]
    simp
  · -- saturated: 4095 bytes by length, the rest up to the NUL that starts the padding
    have hk : min name.length 4095 = 4095 := by omega
    have heq : min name.length 4095 = flagNameMask := by simp only [flagNameMask]; exact hk
    have htake : (name ++ (List.replicate p 0 ++ rest)).take 4095 = name.take 4095 := by
      rw [List.take_append_of_le_length (by omega)]
    have hrep : List.replicate p (0 : UInt8) = 0 :: List.replicate (p - 1) 0 := by
      cases p with
      | zero => omega
      | succ q => simp [List.replicate_succ]
    have hdrop : (name ++ (List.replicate p 0 ++ rest)).drop 4095
        = name.drop 4095 ++ (0 :: (List.replicate (p - 1) 0 ++ rest)) := by
      rw [List.drop_append_of_le_length (by omega), hrep]; simp
    rw [if_pos heq, hk, htake, hdrop, splitNul_append _ _ hnul]
    simp only
    have hl : d.length - (name.drop 4095 ++ (0 :: (List.replicate (p - 1) 0 ++ rest))).length
        + (name.drop 4095).length = hd + name.length := by
      simp only [List.length_append, List.length_cons, List.length_replicate, List.length_drop]; omega
    rw [hl, padLenRead_eq, hpe, List.take_append_drop,
      List.drop_append_of_le_length (by simp), List.drop_of_length_le (by simp)]
    simp

theorem readCacheEntry_entryBytes {v : Nat} {e : Entry} (prev rest : Bytes) (h : WFEntry v e) :
    readCacheEntry v prev (entryBytes v prev e ++ rest) = .ok (normEntry e, rest) := by
  obtain ⟨hnul4, hnul, hm, hu, hg, hsha, hf, hx, hv⟩ := h
  have hW := diskFlags_lt hf
  have hname := diskFlags_name e
  have hext0 : ¬ (diskFlags e &&& flagExtended ≠ 0) → e.ext = 0 := by
    intro hext
    by_contra hne
    exact hext ((diskFlags_ext hf).2 (Or.inl hne))
  unfold readCacheEntry entryBytes
  by_cases hv4 : v ≥ 4
  · -- version 4: compressed path, no padding
    simp only [if_pos hv4, List.append_assoc]
    rw [readTime_timeBytes]; simp only [bind_ok]
    rw [readTime_timeBytes]; simp only [bind_ok]
    rw [readFixed_fixedBytes hm hu hg hsha hW]; simp only [bind_ok]
    have hv3 : ¬ v < rExtendedFrom := by simp only [rExtendedFrom]; omega
    have hc : v ≥ rCompressFrom := by simp only [rCompressFrom]; omega
    unfold extBytes
    by_cases hext : diskFlags e &&& flagExtended ≠ 0
    · simp only [if_pos hext, if_neg hv3, readH_be16 hx, bind_ok, if_pos hc,
        decompressPathStream_compress _ _ _ (hnul4 hv4), pure_eq_ok]
      simp [normEntry]
    · simp only [if_neg hext, List.nil_append, pure_eq_ok, bind_ok, if_pos hc,
        decompressPathStream_compress _ _ _ (hnul4 hv4)]
      simp [normEntry, hext0 hext]
  · -- versions below 4: name by length (to the NUL when the length field is saturated), then padding
    simp only [if_neg hv4, List.append_assoc]
    rw [readTime_timeBytes]; simp only [bind_ok]
    rw [readTime_timeBytes]; simp only [bind_ok]
    rw [readFixed_fixedBytes hm hu hg hsha hW]; simp only [bind_ok]
    have hc : ¬ v ≥ rCompressFrom := by simp only [rCompressFrom]; omega
    have hnul' := hnul (by omega)
    unfold extBytes
    by_cases hext : diskFlags e &&& flagExtended ≠ 0
    · have hv3 : ¬ v < rExtendedFrom := by
        have := hv ((diskFlags_ext hf).1 hext); simp only [rExtendedFrom]; omega
      simp only [if_pos hext, if_neg hv3, readH_be16 hx, bind_ok, if_neg hc, hname, pure_eq_ok]
      have hlen : (timeBytes e.ctime ++ (timeBytes e.mtime ++ (fixedBytes e (diskFlags e) ++ (be16 e.ext ++ e.name)))).length
          = 64 + e.name.length := by
        simp [timeBytes_length, fixedBytes_length hsha, be16_length]; omega
      rw [hlen]
      have key := readName_ok e.name rest 64 _ rfl hnul'
        (timeBytes e.ctime ++ (timeBytes e.mtime ++ (fixedBytes e (diskFlags e) ++ (be16 e.ext ++
          (e.name ++ (List.replicate (padLenWrite (64 + e.name.length)) 0 ++ rest))))))
        (by simp [timeBytes_length, fixedBytes_length hsha, be16_length]; omega)
      split at key
      · rename_i hk
        rw [if_pos hk]
        split at key
        · cases key
        · rename_i more d6 hs
          rw [hs]
          simp only [Except.ok.injEq, Prod.mk.injEq] at key
          simp only [key.1, key.2]
          simp [normEntry]
      · rename_i hk
        rw [if_neg hk]
        simp only [Except.ok.injEq, Prod.mk.injEq] at key
        simp only [key.1, key.2]
        simp [normEntry]
    · simp only [if_neg hext, List.nil_append, pure_eq_ok, bind_ok, if_neg hc, hname]
      have hlen : (timeBytes e.ctime ++ (timeBytes e.mtime ++ (fixedBytes e (diskFlags e) ++ e.name))).length
          = 62 + e.name.length := by
        simp [timeBytes_length, fixedBytes_length hsha]; omega
      rw [hlen]
      have key := readName_ok e.name rest 62 _ rfl hnul'
        (timeBytes e.ctime ++ (timeBytes e.mtime ++ (fixedBytes e (diskFlags e) ++
          (e.name ++ (List.replicate (padLenWrite (62 + e.name.length)) 0 ++ rest)))))
        (by simp [timeBytes_length, fixedBytes_length hsha]; omega)
      split at key
      · rename_i hk
        rw [if_pos hk]
        split at key
        · cases key
        · rename_i more d6 hs
          rw [hs]
          simp only [Except.ok.injEq, Prod.mk.injEq] at key
          simp only [key.1, key.2]
          simp [normEntry, hext0 hext]
      · rename_i hk
        rw [if_neg hk]
        simp only [Except.ok.injEq, Prod.mk.injEq] at key
        simp only [key.1, key.2]
        simp [normEntry, hext0 hext]

/-! ### normal form of the flags -/

theorem normFlags_eq (e : Entry) : (normEntry e).flags = 4096 * hiNibble e.flags e.ext := by
  simp only [normEntry, flagNameMask]
  rw [diskFlags_eq e, word_clear _ _ (by omega)]

/-- An entry that is already in the form the reader produces. -/
def Canonical (e : Entry) : Prop :=
  (∃ s n, e.ctime = .pair s n ∧ s < 4294967296 ∧ n < 4294967296) ∧
  (∃ s n, e.mtime = .pair s n ∧ s < 4294967296 ∧ n < 4294967296) ∧
  e.dev < 4294967296 ∧ e.ino < 4294967296 ∧ e.size < 4294967296 ∧
  e.flags % 4096 = 0 ∧ (e.ext ≠ 0 → e.flags &&& flagExtended ≠ 0)

theorem normEntry_of_canonical {e : Entry} (hf : e.flags < 65536) (h : Canonical e) : normEntry e = e := by
  obtain ⟨⟨s1, n1, h1, hs1, hn1⟩, ⟨s2, n2, h2, hs2, hn2⟩, hd, hi, hsz, hlow, hx⟩ := h
  have hflags : (normEntry e).flags = e.flags := by
    rw [normFlags_eq]
    unfold hiNibble
    by_cases hext : e.ext ≠ 0
    · have hb := hx hext
      simp only [flagExtended] at hb
      have hfx : e.flags &&& 16384 = 4096 * (e.flags / 4096 &&& 4) := by
        have := word_and_ext (e.flags / 4096) (e.flags % 4096) (by omega)
        rwa [Nat.div_add_mod] at this
      rw [hfx] at hb
      have ha : e.flags / 4096 < 16 := by omega
      have key : ∀ a, a < 16 → 4096 * (a &&& 4) ≠ 0 → (a ||| 4) = a := by decide
      rw [if_pos hext, key _ ha hb]; omega
    · rw [if_neg hext]; simp; omega
  cases e with
  | mk name ctime mtime dev ino mode uid gid size sha flags ext =>
    simp only [normEntry] at hflags ⊢
    simp only at h1 h2 hd hi hsz
    subst h1 h2
    simp only [normTime, Nat.mod_eq_of_lt hd, Nat.mod_eq_of_lt hi, Nat.mod_eq_of_lt hsz, Nat.mod_eq_of_lt hs1,
      Nat.mod_eq_of_lt hn1, Nat.mod_eq_of_lt hs2, Nat.mod_eq_of_lt hn2]
    congr

/-! ### the entry loop -/

/-- The bytes of the entry loop of `write_index` (well-formed entries). -/
def entriesBytes (v : Nat) : Bytes → List Entry → Bytes
  | _, [] => []
  | prev, e :: es => entryBytes v prev e ++ entriesBytes v e.name es

theorem writeEntries_ok {v : Nat} : ∀ (es : List Entry) (prev : Bytes), (∀ e ∈ es, WFEntry v e) →
    writeEntries v prev es = .ok (entriesBytes v prev es)
  | [], _, _ => rfl
  | e :: es, prev, h => by
    have he : WFEntry v e := h e (by simp)
    have hes : ∀ x ∈ es, WFEntry v x := fun x hx => h x (by simp [hx])
    simp [writeEntries, writeCacheEntry_ok prev he, writeEntries_ok es e.name hes, entriesBytes]

/-- The dictionary-building loop on a list of entries. -/
def foldAdd : Dict → List Entry → R Dict
  | acc, [] => .ok acc
  | acc, e :: es =>
    match addEntry acc e with
    | .error x => .error x
    | .ok acc' => foldAdd acc' es

theorem readEntries_entriesBytes {v : Nat} : ∀ (es : List Entry) (prev : Bytes) (acc : Dict) (rest : Bytes),
    (∀ e ∈ es, WFEntry v e) →
    readEntries v es.length prev acc (entriesBytes v prev es ++ rest) =
      (match foldAdd acc (es.map normEntry) with
       | .ok d => .ok (d, rest)
       | .error x => .error x)
  | [], _, _, _, _ => by simp [readEntries, entriesBytes, foldAdd]
  | e :: es, prev, acc, rest, h => by
    have he : WFEntry v e := h e (by simp)
    have hes : ∀ x ∈ es, WFEntry v x := fun x hx => h x (by simp [hx])
    simp only [List.length_cons, readEntries, entriesBytes, List.append_assoc,
      readCacheEntry_entryBytes prev _ he, List.map_cons, foldAdd]
    cases hadd : addEntry acc (normEntry e) with
    | error x => simp
    | ok acc' =>
      simp only
      have hn : (normEntry e).name = e.name := rfl
      rw [hn, readEntries_entriesBytes es e.name acc' rest hes]

/-! ### extensions -/

/-- An extension the reader accepts: 4-byte signature, a payload whose length fits the `>I` field, and —
the index-format rule the code now implements — either one of the signatures dulwich has a class for
(TREE, REUC, UNTR, sdir) or a signature that starts with `A..Z` (optional, carried along unparsed). -/
def WFExt (x : Ext) : Prop :=
  x.1.length = 4 ∧ (knownSigs.contains x.1 = true ∨ firstIsOptional x.1 = true) ∧ x.2.length < 4294967296

instance (x : Ext) : Decidable (WFExt x) := by unfold WFExt; infer_instance

def extsBytes : List Ext → Bytes
  | [] => []
  | x :: xs => x.1 ++ be32 x.2.length ++ x.2 ++ extsBytes xs

theorem writeExts_ok : ∀ (xs : List Ext), (∀ x ∈ xs, x.2.length < 4294967296) → writeExts xs = .ok (extsBytes xs)
  | [], _ => rfl
  | x :: xs, h => by
    have hx : x.2.length < 4294967296 := h x (by simp)
    have hxs : ∀ y ∈ xs, y.2.length < 4294967296 := fun y hy => h y (by simp [hy])
    simp [writeExts, writeExt, packL_ok hx, writeExts_ok xs hxs, extsBytes]

theorem readExts_extsBytes : ∀ (xs : List Ext) (fuel : Nat) (trailer : Bytes),
    (∀ x ∈ xs, WFExt x) → trailer.length = 20 → (extsBytes xs ++ trailer).length ≤ fuel →
    readExts fuel (extsBytes xs ++ trailer) = .ok (xs.map fun x => fromRaw x.1 x.2, trailer)
  | [], fuel, trailer, _, ht, _ => by
    cases fuel with
    | zero => simp [readExts, extsBytes]
    | succ f => simp [readExts, extsBytes, trailerLen, ht]
  | x :: xs, fuel, trailer, h, ht, hfuel => by
    have hx : WFExt x := h x (by simp)
    have hxs : ∀ y ∈ xs, WFExt y := fun y hy => h y (by simp [hy])
    obtain ⟨h4, hsig, hlen⟩ := hx
    cases fuel with
    | zero => simp [extsBytes, h4] at hfuel
    | succ f =>
      have hbig : ¬ ((extsBytes (x :: xs) ++ trailer).length ≤ trailerLen) := by
        simp [extsBytes, h4, be32_length, trailerLen, ht]; omega
      have htake : (extsBytes (x :: xs) ++ trailer).take 4 = x.1 := by
        simp only [extsBytes, List.append_assoc]
        rw [List.take_append_of_le_length (by omega)]; exact List.take_of_length_le (by omega)
      have hdrop : (extsBytes (x :: xs) ++ trailer).drop 4 = be32 x.2.length ++ (x.2 ++ (extsBytes xs ++ trailer)) := by
        simp only [extsBytes, List.append_assoc]
        rw [List.drop_append_of_le_length (by omega), List.drop_of_length_le (by omega)]; simp
      have hf' : (extsBytes xs ++ trailer).length ≤ f := by
        simp [extsBytes, h4, be32_length] at hfuel ⊢; omega
      have hl4 : ¬ (x.1.length < 4) := by omega
      have hok : (!knownSigs.contains x.1 && !firstIsOptional x.1) = false := by
        rcases hsig with hs | hs
        · rw [hs]; rfl
        · rw [hs]; simp
      have hnotshort : ¬ ((x.2 ++ (extsBytes xs ++ trailer)).length < x.2.length) := by simp
      have ht2 : (x.2 ++ (extsBytes xs ++ trailer)).take x.2.length = x.2 := by
        rw [List.take_append_of_le_length (Nat.le_refl _)]; exact List.take_of_length_le (Nat.le_refl _)
      have hd2 : (x.2 ++ (extsBytes xs ++ trailer)).drop x.2.length = extsBytes xs ++ trailer := by
        rw [List.drop_append_of_le_length (Nat.le_refl _)]; simp
      rw [readExts.eq_def]
      simp only [if_neg hbig, htake, hdrop, if_neg hl4, readL_be32 hlen, if_neg hnotshort, hok, ht2, hd2,
        readExts_extsBytes xs f trailer hxs ht hf', List.map_cons, Bool.false_eq_true, if_false]

/-! ### whole file -/

/-- Everything before the trailer, for well-formed input. -/
def fileBody (v : Nat) (es : List Entry) (xs : List Ext) : Bytes :=
  magic ++ be32 v ++ be32 es.length ++ entriesBytes v [] es ++ extsBytes xs

theorem writeIndex_ok {ver : Option Nat} {es : List Entry} {xs : List Ext}
    (hv : effectiveVersion ver es < 4294967296) (hn : es.length < 4294967296)
    (hes : ∀ e ∈ es, WFEntry (effectiveVersion ver es) e) (hxs : ∀ x ∈ xs, x.2.length < 4294967296) :
    writeIndex ver es xs = .ok (fileBody (effectiveVersion ver es) es xs) := by
  unfold writeIndex fileBody
  simp [packL_ok hv, packL_ok hn, writeEntries_ok es [] hes, writeExts_ok xs hxs]

theorem readHeader_ok {v n : Nat} (hv : versions.contains v = true) (hv32 : v < 4294967296)
    (hn : n < 4294967296) (rest : Bytes) :
    readHeader (magic ++ (be32 v ++ (be32 n ++ rest))) = .ok (v, n, rest) := by
  unfold readHeader
  have h1 : (magic ++ (be32 v ++ (be32 n ++ rest))).take 4 = magic := by
    rw [List.take_append_of_le_length (by decide)]; rfl
  have h2 : (magic ++ (be32 v ++ (be32 n ++ rest))).drop 4 = be32 v ++ (be32 n ++ rest) := by
    rw [List.drop_append_of_le_length (by decide)]; rfl
  rw [h1, h2, readL_be32 hv32]
  simp only [ne_eq, not_true_eq_false, if_false]
  rw [readL_be32 hn]
  simp only [hv, if_true]

theorem take_body (body trailer : Bytes) :
    (body ++ trailer).take ((body ++ trailer).length - trailer.length) = body := by
  have : (body ++ trailer).length - trailer.length = body.length := by
    rw [List.length_append]; omega
  rw [this, List.take_append_of_le_length (Nat.le_refl _)]
  exact List.take_of_length_le (Nat.le_refl _)

theorem readIndexDict_of_parts (file : Bytes) {v n : Nat} {d0 d1 rest : Bytes} {dict : Dict} {exts : List Ext}
    (h1 : readHeader file = .ok (v, n, d0)) (h2 : readEntries v n [] [] d0 = .ok (dict, d1))
    (h3 : readExts d1.length d1 = .ok (exts, rest)) :
    readIndexDict file = .ok (dict, v, exts, rest, file.take (file.length - rest.length)) := by
  unfold readIndexDict
  rw [h1]; simp only
  rw [h2]; simp only
  rw [h3]

theorem readIndexDict_of_entries_error (file : Bytes) {v n : Nat} {d0 : Bytes} {x : IErr}
    (h1 : readHeader file = .ok (v, n, d0)) (h2 : readEntries v n [] [] d0 = .error x) :
    readIndexDict file = .error x := by
  unfold readIndexDict
  rw [h1]; simp only
  rw [h2]

theorem readIndexDict_file {v : Nat} {es : List Entry} {xs : List Ext} {trailer : Bytes}
    (hv : versions.contains v = true) (hv32 : v < 4294967296) (hn : es.length < 4294967296)
    (hes : ∀ e ∈ es, WFEntry v e) (hxs : ∀ x ∈ xs, WFExt x) (ht : trailer.length = 20) :
    readIndexDict (fileBody v es xs ++ trailer) =
      (match foldAdd [] (es.map normEntry) with
       | .ok d => .ok (d, v, xs.map (fun x => fromRaw x.1 x.2), trailer, fileBody v es xs)
       | .error x => .error x) := by
  have hfile : fileBody v es xs ++ trailer =
      magic ++ (be32 v ++ (be32 es.length ++ (entriesBytes v [] es ++ (extsBytes xs ++ trailer)))) := by
    simp only [fileBody, List.append_assoc]
  have h1 : readHeader (fileBody v es xs ++ trailer) =
      .ok (v, es.length, entriesBytes v [] es ++ (extsBytes xs ++ trailer)) := by
    rw [hfile, readHeader_ok hv hv32 hn]
  have h2 := readEntries_entriesBytes es [] [] (extsBytes xs ++ trailer) hes
  cases hfold : foldAdd [] (es.map normEntry) with
  | error x =>
    rw [hfold] at h2
    exact readIndexDict_of_entries_error _ h1 h2
  | ok d =>
    rw [hfold] at h2
    rw [readIndexDict_of_parts _ h1 h2 (readExts_extsBytes xs _ trailer hxs ht (Nat.le_refl _))]
    simp only [take_body]

theorem checkSha_hash (H : Bytes → Bytes) (hH : ∀ x, (H x).length = 20) (b : Bool) (body : Bytes) :
    checkSha H b body (H body) = true := by
  have : (H body).take shaReadLen = H body := List.take_of_length_le (by simp [hH, shaReadLen])
  simp [checkSha, this]

theorem checkSha_zeros (H : Bytes → Bytes) (body : Bytes) :
    checkSha H true body (List.replicate skipHashZeros 0) = true := by
  have : (List.replicate skipHashZeros (0:UInt8)).take shaReadLen = List.replicate shaZeroLen 0 := rfl
  simp [checkSha, this]

/-- Acceptance by `check_sha(allow_empty)` means: the stored trailer is the hash of what was read, or
(only with `allow_empty`) it is 20 zero bytes.  Nothing else. -/
theorem checkSha_true_iff (H : Bytes → Bytes) (b : Bool) (hashed rest : Bytes) :
    checkSha H b hashed rest = true ↔
      (rest.take 20 = H hashed ∨ (b = true ∧ rest.take 20 = zeros20)) := by
  have e1 : shaReadLen = 20 := rfl
  have e2 : List.replicate shaZeroLen (0 : UInt8) = zeros20 := rfl
  unfold checkSha
  rw [e1, e2]
  by_cases h1 : rest.take 20 = H hashed
  · simp [h1]
  · by_cases h2 : rest.take 20 = zeros20
    · cases b <;> simp [h1, h2]
    · simp [h1, h2]

/-! ### order -/

theorem u8_lt_iff (a b : UInt8) : a < b ↔ a.toNat < b.toNat := UInt8.lt_iff_toNat_lt

theorem bytesLt_asymm : ∀ (a b : Bytes), bytesLt a b = true → bytesLt b a = false
  | [], [], h => by simp [bytesLt] at h
  | [], _ :: _, _ => by simp [bytesLt]
  | _ :: _, [], h => by simp [bytesLt] at h
  | x :: as, y :: bs, h => by
    simp only [bytesLt] at h ⊢
    by_cases h1 : x < y
    · have h2 : ¬ y < x := by rw [u8_lt_iff] at *; omega
      simp [h2, h1]
    · by_cases h2 : y < x
      · simp [h1, h2] at h
      · simp only [h1, h2, if_false] at h ⊢
        exact bytesLt_asymm as bs h

theorem bytesLt_trans : ∀ (a b c : Bytes), bytesLt a b = true → bytesLt b c = true → bytesLt a c = true
  | [], [], _, h, _ => by simp [bytesLt] at h
  | [], _ :: _, [], _, h => by simp [bytesLt] at h
  | [], _ :: _, _ :: _, _, _ => by simp [bytesLt]
  | _ :: _, [], _, h, _ => by simp [bytesLt] at h
  | _ :: _, _ :: _, [], _, h => by simp [bytesLt] at h
  | x :: as, y :: bs, z :: cs, h1, h2 => by
    simp only [bytesLt] at h1 h2 ⊢
    by_cases xy : x < y
    · by_cases yz : y < z
      · have : x < z := by rw [u8_lt_iff] at *; omega
        simp [this]
      · by_cases zy : z < y
        · simp [yz, zy] at h2
        · have : x < z := by rw [u8_lt_iff] at *; omega
          simp [this]
    · by_cases yx : y < x
      · simp [xy, yx] at h1
      · simp only [xy, yx, if_false] at h1
        by_cases yz : y < z
        · have : x < z := by rw [u8_lt_iff] at *; omega
          simp [this]
        · by_cases zy : z < y
          · simp [yz, zy] at h2
          · simp only [yz, zy, if_false] at h2
            have e1 : ¬ x < z := by rw [u8_lt_iff] at *; omega
            have e2 : ¬ z < x := by rw [u8_lt_iff] at *; omega
            simp only [e1, e2, if_false]
            exact bytesLt_trans as bs cs h1 h2

theorem bytesLt_trichotomy : ∀ (a b : Bytes), a = b ∨ bytesLt a b = true ∨ bytesLt b a = true
  | [], [] => Or.inl rfl
  | [], _ :: _ => by simp [bytesLt]
  | _ :: _, [] => by simp [bytesLt]
  | x :: as, y :: bs => by
    simp only [bytesLt]
    by_cases xy : x < y
    · simp [xy]
    · by_cases yx : y < x
      · simp [yx]
      · have : x = y := by
          apply UInt8.toNat_inj.mp
          rw [u8_lt_iff] at *; omega
        subst this
        simp only [xy, if_false]
        rcases bytesLt_trichotomy as bs with h | h | h
        · exact Or.inl (by rw [h])
        · exact Or.inr (Or.inl h)
        · exact Or.inr (Or.inr h)

theorem bytesLt_prefix : ∀ (a : Bytes) (y : UInt8) (t : Bytes), bytesLt a (a ++ y :: t) = true
  | [], _, _ => by simp [bytesLt]
  | x :: as, y, t => by
    have : ¬ x < x := by rw [u8_lt_iff]; omega
    simp [bytesLt, this, bytesLt_prefix as y t]

theorem bytesLt_diverge : ∀ (p : Bytes) (x y : UInt8) (s t : Bytes), x < y →
    bytesLt (p ++ x :: s) (p ++ y :: t) = true
  | [], _, _, _, _, h => by simp [bytesLt, h]
  | c :: p, x, y, s, t, h => by
    have : ¬ c < c := by rw [u8_lt_iff]; omega
    simp [bytesLt, this, bytesLt_diverge p x y s t h]

theorem insertSorted_perm (x : Bytes × Val) : ∀ (ys : Dict), (insertSorted x ys).Perm (x :: ys)
  | [] => by simp [insertSorted]
  | y :: ys => by
    simp only [insertSorted]
    split
    · exact List.Perm.refl _
    · exact ((insertSorted_perm x ys).cons y).trans (List.Perm.swap x y ys)

theorem sortDict_perm (d : Dict) : (sortDict d).Perm d := by
  unfold sortDict
  induction d with
  | nil => simp
  | cons x xs ih =>
    simp only [List.foldr_cons]
    exact (insertSorted_perm x _).trans (ih.cons x)

theorem insertSorted_sorted (x : Bytes × Val) : ∀ (ys : Dict),
    ys.Pairwise (fun a b => bytesLt b.1 a.1 = false) →
    (insertSorted x ys).Pairwise (fun a b => bytesLt b.1 a.1 = false)
  | [], _ => by simp [insertSorted]
  | y :: ys, h => by
    simp only [insertSorted]
    rw [List.pairwise_cons] at h
    split
    · rename_i hlt
      refine List.Pairwise.cons ?_ (List.Pairwise.cons h.1 h.2)
      intro z hz
      rcases List.mem_cons.mp hz with rfl | hz
      · exact bytesLt_asymm _ _ hlt
      · have hyz := h.1 z hz
        cases hzx : bytesLt z.1 x.1 with
        | false => rfl
        | true => rw [bytesLt_trans _ _ _ hzx hlt] at hyz; cases hyz
    · rename_i hnlt
      refine List.Pairwise.cons ?_ (insertSorted_sorted x ys h.2)
      intro z hz
      rcases List.mem_cons.mp ((insertSorted_perm x ys).subset hz) with rfl | hz
      · simpa using hnlt
      · exact h.1 z hz

theorem sortDict_sorted (d : Dict) : (sortDict d).Pairwise (fun a b => bytesLt b.1 a.1 = false) := by
  unfold sortDict
  induction d with
  | nil => simp
  | cons x xs ih => simp only [List.foldr_cons]; exact insertSorted_sorted x _ ih

/-! ### stages -/

theorem or_shift12 (x st : Nat) : x ||| (st <<< 12) = 4096 * (x / 4096 ||| st) + x % 4096 := by
  rw [or12, Nat.shiftLeft_eq]
  have a1 : st * 2 ^ 12 / 4096 = st := by omega
  have a2 : st * 2 ^ 12 % 4096 = 0 := by omega
  rw [a1, a2]; simp

/-! ### Index.write then Index.read -/

theorem versions_lt {v : Nat} (h : versions.contains v = true) : v < 4294967296 := by
  have h2 : v ∈ versions := List.elem_iff.mp h
  unfold versions at h2
  rcases List.mem_cons.mp h2 with rfl | h2
  · decide
  rcases List.mem_cons.mp h2 with rfl | h2
  · decide
  rcases List.mem_cons.mp h2 with rfl | h2
  · decide
  rcases List.mem_cons.mp h2 with rfl | h2
  · decide
  cases h2

theorem indexRead_of_parts (H : Bytes → Bytes) {file : Bytes} {dict : Dict} {v : Nat} {exts : List Ext}
    {rest hashed : Bytes} (h : readIndexDict file = .ok (dict, v, exts, rest, hashed))
    (hc : checkSha H allowEmpty hashed rest = true) : indexRead H file = .ok (dict, v, exts) := by
  unfold indexRead; rw [h]; simp only [hc, if_true]

theorem indexRead_of_error (H : Bytes → Bytes) {file : Bytes} {x : IErr}
    (h : readIndexDict file = .error x) : indexRead H file = .error x := by
  unfold indexRead; rw [h]

theorem indexRead_body_trailer (H : Bytes → Bytes) {v : Nat} {es : List Entry} {xs : List Ext} {trailer : Bytes}
    (hv : versions.contains v = true) (hn : es.length < 4294967296)
    (hes : ∀ e ∈ es, WFEntry v e) (hxs : ∀ x ∈ xs, WFExt x) (ht : trailer.length = 20)
    (hc : checkSha H allowEmpty (fileBody v es xs) trailer = true) :
    indexRead H (fileBody v es xs ++ trailer) =
      (match foldAdd [] (es.map normEntry) with
       | .ok dict => .ok (dict, v, xs.map fun x => fromRaw x.1 x.2)
       | .error x => .error x) := by
  have h := readIndexDict_file hv (versions_lt hv) hn hes hxs ht
  cases hf : foldAdd [] (es.map normEntry) with
  | error x => rw [hf] at h; exact indexRead_of_error H h
  | ok dict => rw [hf] at h; exact indexRead_of_parts H h hc

theorem indexWrite_ok (H : Bytes → Bytes) (skipHash : Bool) {ver : Option Nat} {d : Dict} {xs : List Ext}
    (hv : versions.contains (effectiveVersion ver (flattenDict d)) = true)
    (hn : (flattenDict d).length < 4294967296)
    (hes : ∀ e ∈ flattenDict d, WFEntry (effectiveVersion ver (flattenDict d)) e)
    (hxs : ∀ x ∈ xs, WFExt x) :
    indexWrite H skipHash ver d xs =
      .ok (fileBody (effectiveVersion ver (flattenDict d)) (flattenDict d) (xs.filter fun x => !x.2.isEmpty) ++
        (if skipHash then List.replicate skipHashZeros 0
         else H (fileBody (effectiveVersion ver (flattenDict d)) (flattenDict d) (xs.filter fun x => !x.2.isEmpty)))) := by
  have hxs' : ∀ x ∈ xs.filter (fun x => !x.2.isEmpty), x.2.length < 4294967296 :=
    fun x hx => (hxs x (List.mem_filter.mp hx).1).2.2
  have hw := writeIndex_ok (ver := ver) (es := flattenDict d) (versions_lt hv) hn hes hxs'
  unfold indexWrite writeIndexDict
  rw [hw]
  rfl

theorem stageAt_vals : stageAt 0 = 1 ∧ stageAt 1 = 2 ∧ stageAt 2 = 3 ∧ stageAt 3 = 0 := by decide

/-! ### rebuilding the dictionary -/

def keys (d : Dict) : List Bytes := d.map (·.1)

theorem dictGet_of_not_mem : ∀ {d : Dict} {k : Bytes}, k ∉ keys d → dictGet d k = none
  | [], _, _ => rfl
  | (k', v') :: r, k, h => by
    have h1 : k' ≠ k := fun e => h (by simp [keys, e])
    have h2 : k ∉ keys r := fun m => h (by simp only [keys, List.map_cons, List.mem_cons]; exact Or.inr m)
    have := dictGet_of_not_mem h2
    unfold dictGet at this ⊢
    simp [List.find?, h1, this]

theorem dictSet_of_not_mem : ∀ {d : Dict} {k : Bytes} (v : Val), k ∉ keys d → dictSet d k v = d ++ [(k, v)]
  | [], _, _, _ => rfl
  | (k', v') :: r, k, v, h => by
    have h1 : k' ≠ k := fun e => h (by simp [keys, e])
    have h2 : k ∉ keys r := fun m => h (by simp only [keys, List.map_cons, List.mem_cons]; exact Or.inr m)
    simp [dictSet, h1, dictSet_of_not_mem v h2]

theorem dictGet_append_self : ∀ {d : Dict} {k : Bytes} (v : Val), k ∉ keys d → dictGet (d ++ [(k, v)]) k = some v
  | [], _, _, _ => by simp [dictGet]
  | (k', v') :: r, k, v, h => by
    have h1 : k' ≠ k := fun e => h (by simp [keys, e])
    have h2 : k ∉ keys r := fun m => h (by simp only [keys, List.map_cons, List.mem_cons]; exact Or.inr m)
    have := dictGet_append_self v h2
    unfold dictGet at this ⊢
    rw [List.cons_append, List.find?_cons_of_neg (by simpa using h1)]
    exact this

theorem dictSet_append_self : ∀ {d : Dict} {k : Bytes} (v v' : Val), k ∉ keys d →
    dictSet (d ++ [(k, v)]) k v' = d ++ [(k, v')]
  | [], _, _, _, _ => by simp [dictSet]
  | (k', w) :: r, k, v, v', h => by
    have h1 : k' ≠ k := fun e => h (by simp [keys, e])
    have h2 : k ∉ keys r := fun m => h (by simp only [keys, List.map_cons, List.mem_cons]; exact Or.inr m)
    simp [dictSet, h1, dictSet_append_self v v' h2]

theorem addEntry_normal {acc : Dict} {x : Entry} {k : Bytes} (hname : x.name = k) (hs : entryStage x = 0)
    (h : k ∉ keys acc) : addEntry acc x = .ok (acc ++ [(k, .normal x)]) := by
  simp [addEntry, hs, readStageNormal, hname, dictSet_of_not_mem _ h]

theorem addEntry_first {acc : Dict} {x : Entry} {k : Bytes} (hname : x.name = k)
    (hs : entryStage x = 1 ∨ entryStage x = 2 ∨ entryStage x = 3) (h : k ∉ keys acc) :
    addEntry acc x = .ok (acc ++ [(k,
      if entryStage x = 1 then .conflict (some x) none none
      else if entryStage x = 2 then .conflict none (some x) none else .conflict none none (some x))]) := by
  have hn : ¬ (entryStage x = readStageNormal) := by simp only [readStageNormal]; omega
  unfold addEntry
  simp only [hn, if_false, hname, dictGet_of_not_mem h, readStageAncestor, readStageThis, readStageOther,
    dictSet_of_not_mem _ h]
  rcases hs with hs | hs | hs <;> simp [hs]

theorem addEntry_next {acc : Dict} {x : Entry} {k : Bytes} {a t o : Option Entry} (hname : x.name = k)
    (hs : entryStage x = 1 ∨ entryStage x = 2 ∨ entryStage x = 3) (h : k ∉ keys acc) :
    addEntry (acc ++ [(k, .conflict a t o)]) x = .ok (acc ++ [(k,
      if entryStage x = 1 then .conflict (some x) t o
      else if entryStage x = 2 then .conflict a (some x) o else .conflict a t (some x))]) := by
  have hn : ¬ (entryStage x = readStageNormal) := by simp only [readStageNormal]; omega
  unfold addEntry
  simp only [hn, if_false, hname, dictGet_append_self _ h, readStageAncestor, readStageThis, readStageOther,
    dictSet_append_self _ _ h]
  rcases hs with hs | hs | hs <;> simp [hs]

/-- What one dictionary value looks like after the round trip; `none` when it contributes no entry
(a `ConflictedIndexEntry` with no stage at all). -/
def normVal (k : Bytes) : Val → Option (Bytes × Val)
  | .normal e => some (k, .normal (normEntry (serialize e k 0)))
  | .conflict a t o =>
    if a.isNone ∧ t.isNone ∧ o.isNone then none
    else some (k, .conflict (a.map fun e => normEntry (serialize e k 1)) (t.map fun e => normEntry (serialize e k 2))
                            (o.map fun e => normEntry (serialize e k 3)))

theorem foldAdd_append : ∀ (xs ys : List Entry) (acc : Dict),
    foldAdd acc (xs ++ ys) = (match foldAdd acc xs with | .ok a => foldAdd a ys | .error e => .error e)
  | [], _, _ => rfl
  | x :: xs, ys, acc => by
    simp only [List.cons_append, foldAdd]
    cases addEntry acc x with
    | error e => rfl
    | ok a => exact foldAdd_append xs ys a

theorem and_3 (x : Nat) : x &&& 3 = x % 4 := by
  have := Nat.and_two_pow_sub_one_eq_mod x 2
  simpa using this

theorem or_mod4 (x y : Nat) : (x ||| y) % 4 = x % 4 ||| y % 4 := by
  have := @Nat.or_mod_two_pow x y 2
  simpa using this

theorem stageOf_flags (f : Nat) : (f &&& 12288) >>> 12 = f / 4096 % 4 := by
  rw [and12, Nat.shiftRight_eq_div_pow]
  simp only [show (12288 : Nat) / 4096 = 3 by decide, show (12288 : Nat) % 4096 = 0 by decide, Nat.and_zero,
    Nat.add_zero, and_3]
  omega

theorem serialize_stage (e : Entry) (k : Bytes) (st : Nat) (hst : st ≤ 3) :
    entryStage (serialize e k st) = st := by
  simp only [entryStage, serialize, flagStageMask, flagStageShift]
  rw [stageOf_flags, or_shift12]
  have hc : clearBits e.flags 12288 / 4096 % 4 = 0 := by
    unfold clearBits
    have hfx : e.flags &&& 12288 = 4096 * (e.flags / 4096 % 4) := by
      rw [and12]; simp [and_3]
    rw [hfx]; omega
  have e1 : (4096 * (clearBits e.flags 12288 / 4096 ||| st) + clearBits e.flags 12288 % 4096) / 4096
      = (clearBits e.flags 12288 / 4096 ||| st) := by omega
  rw [e1, or_mod4, hc]
  simp; omega

theorem stage_normEntry (x : Entry) : entryStage (normEntry x) = entryStage x := by
  unfold entryStage
  simp only [flagStageMask, flagStageShift]
  rw [stageOf_flags, stageOf_flags, normFlags_eq]
  unfold hiNibble
  have e1 : 4096 * (x.flags / 4096 ||| if x.ext ≠ 0 then 4 else 0) / 4096 = (x.flags / 4096 ||| if x.ext ≠ 0 then 4 else 0) := by omega
  rw [e1, or_mod4]
  split <;> simp

theorem foldAdd_flattenVal {acc : Dict} {k : Bytes} (val : Val) (hk : k ∉ keys acc) :
    foldAdd acc ((flattenVal k val).map normEntry) = .ok (acc ++ (normVal k val).toList) := by
  have hst : ∀ (e : Entry) (st : Nat), st ≤ 3 → entryStage (normEntry (serialize e k st)) = st := by
    intro e st h
    rw [stage_normEntry, serialize_stage e k st h]
  have hname : ∀ (e : Entry) (st : Nat), (normEntry (serialize e k st)).name = k := fun _ _ => rfl
  cases val with
  | normal e =>
    simp only [flattenVal, stageAt_vals.2.2.2, List.map_cons, List.map_nil, foldAdd, normVal, Option.toList]
    rw [addEntry_normal (hname e 0) (hst e 0 (by omega)) hk]
  | conflict a t o =>
    simp only [flattenVal, stageAt_vals.1, stageAt_vals.2.1, stageAt_vals.2.2.1, normVal]
    cases a with
    | none =>
      cases t with
      | none =>
        cases o with
        | none => simp [foldAdd]
        | some eo =>
          simp only [Option.map_none, Option.toList, List.nil_append, Option.map_some, List.map_cons,
            List.map_nil, foldAdd]
          rw [addEntry_first (hname eo 3) (Or.inr (Or.inr (hst eo 3 (by omega)))) hk]
          simp [hst eo 3 (by omega)]
      | some et =>
        cases o with
        | none =>
          simp only [Option.map_none, Option.toList, List.nil_append, Option.map_some, List.map_cons,
            List.map_nil, List.append_nil, foldAdd]
          rw [addEntry_first (hname et 2) (Or.inr (Or.inl (hst et 2 (by omega)))) hk]
          simp [hst et 2 (by omega)]
        | some eo =>
          simp only [Option.map_none, Option.toList, List.nil_append, Option.map_some, List.map_cons,
            List.map_nil, List.cons_append, foldAdd]
          rw [addEntry_first (hname et 2) (Or.inr (Or.inl (hst et 2 (by omega)))) hk]
          simp only [hst et 2 (by omega)]
          simp only [show ¬ ((2 : Nat) = 1) by decide, if_false, if_true]
          rw [addEntry_next (hname eo 3) (Or.inr (Or.inr (hst eo 3 (by omega)))) hk]
          simp [hst eo 3 (by omega)]
    | some ea =>
      cases t with
      | none =>
        cases o with
        | none =>
          simp only [Option.map_none, Option.toList, Option.map_some, List.map_cons,
            List.map_nil, List.append_nil, foldAdd]
          rw [addEntry_first (hname ea 1) (Or.inl (hst ea 1 (by omega))) hk]
          simp [hst ea 1 (by omega)]
        | some eo =>
          simp only [Option.map_none, Option.toList, List.nil_append, Option.map_some, List.map_cons,
            List.map_nil, List.append_nil, List.cons_append, foldAdd]
          rw [addEntry_first (hname ea 1) (Or.inl (hst ea 1 (by omega))) hk]
          simp only [hst ea 1 (by omega), if_true]
          rw [addEntry_next (hname eo 3) (Or.inr (Or.inr (hst eo 3 (by omega)))) hk]
          simp [hst eo 3 (by omega)]
      | some et =>
        cases o with
        | none =>
          simp only [Option.map_none, Option.toList, List.nil_append, Option.map_some, List.map_cons,
            List.map_nil, List.append_nil, List.cons_append, foldAdd]
          rw [addEntry_first (hname ea 1) (Or.inl (hst ea 1 (by omega))) hk]
          simp only [hst ea 1 (by omega), if_true]
          rw [addEntry_next (hname et 2) (Or.inr (Or.inl (hst et 2 (by omega)))) hk]
          simp [hst et 2 (by omega)]
        | some eo =>
          simp only [Option.toList, List.nil_append, Option.map_some, List.map_cons,
            List.map_nil, List.cons_append, foldAdd]
          rw [addEntry_first (hname ea 1) (Or.inl (hst ea 1 (by omega))) hk]
          simp only [hst ea 1 (by omega), if_true]
          rw [addEntry_next (hname et 2) (Or.inr (Or.inl (hst et 2 (by omega)))) hk]
          simp only [hst et 2 (by omega), show ¬ ((2 : Nat) = 1) by decide, if_false, if_true]
          rw [addEntry_next (hname eo 3) (Or.inr (Or.inr (hst eo 3 (by omega)))) hk]
          simp [hst eo 3 (by omega)]

theorem normVal_key {k : Bytes} {v : Val} {kv : Bytes × Val} (h : normVal k v = some kv) : kv.1 = k := by
  cases v with
  | normal e => simp only [normVal, Option.some.injEq] at h; rw [← h]
  | conflict a t o =>
    simp only [normVal] at h
    split at h
    · cases h
    · simp only [Option.some.injEq] at h; rw [← h]

theorem foldAdd_flatten : ∀ (sd acc : Dict), (∀ k ∈ keys sd, k ∉ keys acc) → (keys sd).Nodup →
    foldAdd acc ((sd.flatMap fun kv => flattenVal kv.1 kv.2).map normEntry) =
      .ok (acc ++ sd.filterMap fun kv => normVal kv.1 kv.2)
  | [], acc, _, _ => by simp [foldAdd]
  | (k, v) :: rest, acc, hdis, hnd => by
    have hk : k ∉ keys acc := hdis k (by simp [keys])
    have hnd' : (keys rest).Nodup := by
      simp only [keys, List.map_cons, List.nodup_cons] at hnd; exact hnd.2
    have hkrest : k ∉ keys rest := by
      simp only [keys, List.map_cons, List.nodup_cons] at hnd; exact hnd.1
    simp only [List.flatMap_cons, List.map_append]
    rw [foldAdd_append, foldAdd_flattenVal v hk]
    simp only
    have hdis' : ∀ k' ∈ keys rest, k' ∉ keys (acc ++ (normVal k v).toList) := by
      intro k' hk' hmem
      simp only [keys, List.map_append, List.mem_append, List.mem_map] at hmem
      rcases hmem with ⟨kv, hkv, rfl⟩ | ⟨kv, hkv, rfl⟩
      · exact hdis kv.1 (by simp only [keys, List.map_cons, List.mem_cons]; exact Or.inr hk')
          (by simp only [keys, List.mem_map]; exact ⟨kv, hkv, rfl⟩)
      · have : normVal k v = some kv := by
          cases hnv : normVal k v with
          | none => rw [hnv] at hkv; simp at hkv
          | some w => rw [hnv] at hkv; simp at hkv; rw [hkv]
        rw [normVal_key this] at hk'
        exact hkrest hk'
    rw [foldAdd_flatten rest _ hdis' hnd']
    congr 1
    simp only [List.filterMap_cons]
    cases normVal k v with
    | none => simp
    | some w => simp

theorem dict_rebuilt (d : Dict) (hnd : (keys d).Nodup) :
    foldAdd [] ((flattenDict d).map normEntry) = .ok ((sortDict d).filterMap fun kv => normVal kv.1 kv.2) := by
  have hp : (keys (sortDict d)).Perm (keys d) := (sortDict_perm d).map _
  have := foldAdd_flatten (sortDict d) [] (by intro k _; simp [keys]) (hp.nodup_iff.mpr hnd)
  simpa [flattenDict] using this

theorem serialize_name (e : Entry) (k : Bytes) (st : Nat) : (serialize e k st).name = k := rfl

theorem flattenVal_normal_stage (k : Bytes) (e : Entry) :
    (flattenVal k (.normal e)).map (fun x => (x.name, entryStage x)) = [(k, 0)] := by
  simp [flattenVal, stageAt_vals.2.2.2, serialize_stage e k 0 (by omega), serialize_name]

theorem flattenVal_conflict_stages (k : Bytes) (a t o : Option Entry) :
    (flattenVal k (.conflict a t o)).map (fun x => (x.name, entryStage x)) =
      (a.map fun _ => (k, 1)).toList ++ (t.map fun _ => (k, 2)).toList ++ (o.map fun _ => (k, 3)).toList := by
  simp only [flattenVal, stageAt_vals.1, stageAt_vals.2.1, stageAt_vals.2.2.1, List.map_append]
  congr 1
  · congr 1
    · cases a with
      | none => rfl
      | some e => simp [serialize_stage e k 1 (by omega), serialize_name]
    · cases t with
      | none => rfl
      | some e => simp [serialize_stage e k 2 (by omega), serialize_name]
  · cases o with
    | none => rfl
    | some e => simp [serialize_stage e k 3 (by omega), serialize_name]

end Dulwich.Index
