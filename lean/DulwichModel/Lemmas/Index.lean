/- Helper lemmas for the index-file model (C11).  Property theorems live in Props/C11.lean. -/
import DulwichModel.Model.Index
import DulwichModel.Lemmas.Delta
import Mathlib.Tactic.Ring

namespace Dulwich.Index
open Dulwich Dulwich.Gen.Index

theorem u8 {n : Nat} (h : n < 256) : (UInt8.ofNat n).toNat = n := Dulwich.Delta.u8_toNat_ofNat h

theorem u8_lt (b : UInt8) : b.toNat < 256 := b.toNat_lt

@[simp] theorem bind_ok {α β : Type} (x : α) (f : α → R β) : (Except.ok x >>= f) = f x := rfl
@[simp] theorem bind_error {α β : Type} (e : IErr) (f : α → R β) : ((Except.error e : R α) >>= f) = .error e := rfl
@[simp] theorem pure_eq_ok {α : Type} (x : α) : (pure x : R α) = .ok x := rfl

/-! ### fixed-width integers -/

theorem be32_length (n : Nat) : (be32 n).length = 4 := rfl
theorem be16_length (n : Nat) : (be16 n).length = 2 := rfl

theorem readL_be32 {n : Nat} (h : n < 4294967296) (rest : Bytes) :
    readL (be32 n ++ rest) = .ok (n, rest) := by
  simp only [be32, List.cons_append, List.nil_append, readL]
  rw [u8 (by omega), u8 (by omega), u8 (by omega), u8 (by omega)]
  congr 2; omega

theorem readH_be16 {n : Nat} (h : n < 65536) (rest : Bytes) :
    readH (be16 n ++ rest) = .ok (n, rest) := by
  simp only [be16, List.cons_append, List.nil_append, readH]
  rw [u8 (by omega), u8 (by omega)]
  congr 2; omega

theorem packL_ok {n : Nat} (h : n < 4294967296) : packL n = .ok (be32 n) := by simp [packL, h]
theorem packL_err {n : Nat} (h : 4294967296 ≤ n) : packL n = .error .struct := by
  simp [packL]; omega
theorem packH_ok {n : Nat} (h : n < 65536) : packH n = .ok (be16 n) := by simp [packH, h]

/-! ### varint -/

theorem encodeVarint_eq (n : Nat) :
    encodeVarint n = if n < 128 then [UInt8.ofNat n]
      else UInt8.ofNat (n % 128 + 128) :: encodeVarint (n / 128) := by
  rw [encodeVarint]
  simp only [varintEncShift, varintEncMask, varintEncCont]
  by_cases h : n < 128
  · have h1 : n / 2 ^ 7 = 0 := by omega
    simp [h, h1, Nat.mod_eq_of_lt h]
  · have h1 : ¬ (n / 2 ^ 7 = 0) := by omega
    simp [h, h1]

theorem readVarintAux_encode (n : Nat) : ∀ (shift acc : Nat) (rest : Bytes),
    readVarintAux shift acc (encodeVarint n ++ rest) = .ok (acc + n * 2 ^ shift, rest) := by
  induction n using Nat.strongRecOn with
  | _ n ih =>
    intro shift acc rest
    rw [encodeVarint_eq]
    split
    · rename_i h
      have h1 : (UInt8.ofNat n).toNat = n := u8 (by omega)
      have h2 : n / 128 % 2 = 0 := by omega
      simp [readVarintAux, varintStreamMask, varintStreamCont, h1, h2, Nat.mod_eq_of_lt h]
    · rename_i h
      have h1 : (UInt8.ofNat (n % 128 + 128)).toNat = n % 128 + 128 := u8 (by omega)
      have h2 : ¬ ((n % 128 + 128) / 128 % 2 = 0) := by omega
      have h3 : (n % 128 + 128) % 128 = n % 128 := by omega
      simp only [List.cons_append, readVarintAux, varintStreamMask, varintStreamCont,
        varintStreamShift, h1, h2, h3, if_false]
      rw [ih (n / 128) (by omega)]
      have : n % 128 * 2 ^ shift + n / 128 * 2 ^ (shift + 7) = n * 2 ^ shift := by
        have hn : n = 128 * (n / 128) + n % 128 := (Nat.div_add_mod n 128).symm
        generalize n / 128 = q at *
        generalize n % 128 = r at *
        subst hn
        ring
      rw [Nat.add_assoc, this]

theorem decodeVarintAux_encode (n : Nat) : ∀ (shift acc : Nat) (rest : Bytes),
    decodeVarintAux shift acc (encodeVarint n ++ rest) = (acc + n * 2 ^ shift, rest) := by
  induction n using Nat.strongRecOn with
  | _ n ih =>
    intro shift acc rest
    rw [encodeVarint_eq]
    split
    · rename_i h
      have h1 : (UInt8.ofNat n).toNat = n := u8 (by omega)
      have h2 : n / 128 % 2 = 0 := by omega
      simp [decodeVarintAux, varintDecMask, varintDecCont, h1, h2, Nat.mod_eq_of_lt h]
    · rename_i h
      have h1 : (UInt8.ofNat (n % 128 + 128)).toNat = n % 128 + 128 := u8 (by omega)
      have h2 : ¬ ((n % 128 + 128) / 128 % 2 = 0) := by omega
      have h3 : (n % 128 + 128) % 128 = n % 128 := by omega
      simp only [List.cons_append, decodeVarintAux, varintDecMask, varintDecCont,
        varintDecShift, h1, h2, h3, if_false]
      rw [ih (n / 128) (by omega)]
      have : n % 128 * 2 ^ shift + n / 128 * 2 ^ (shift + 7) = n * 2 ^ shift := by
        have hn : n = 128 * (n / 128) + n % 128 := (Nat.div_add_mod n 128).symm
        generalize n / 128 = q at *
        generalize n % 128 = r at *
        subst hn
        ring
      rw [Nat.add_assoc, this]

/-! ### path compression -/

theorem commonPrefixLen_le_left : ∀ (a b : Bytes), commonPrefixLen a b ≤ a.length
  | [], _ => by simp [commonPrefixLen]
  | _ :: _, [] => by simp [commonPrefixLen]
  | x :: as, y :: bs => by
    simp only [commonPrefixLen]
    split
    · have := commonPrefixLen_le_left as bs; simp; omega
    · simp

theorem commonPrefixLen_le_right : ∀ (a b : Bytes), commonPrefixLen a b ≤ b.length
  | [], _ => by simp [commonPrefixLen]
  | _ :: _, [] => by simp [commonPrefixLen]
  | x :: as, y :: bs => by
    simp only [commonPrefixLen]
    split
    · have := commonPrefixLen_le_right as bs; simp; omega
    · simp

theorem take_commonPrefixLen : ∀ (a b : Bytes),
    b.take (commonPrefixLen a b) = a.take (commonPrefixLen a b)
  | [], _ => by simp [commonPrefixLen]
  | _ :: _, [] => by simp [commonPrefixLen]
  | x :: as, y :: bs => by
    simp only [commonPrefixLen]
    split
    · rename_i h; simp [h, take_commonPrefixLen as bs]
    · simp

theorem splitNul_append : ∀ (s rest : Bytes), (0 : UInt8) ∉ s →
    splitNul (s ++ 0 :: rest) = some (s, rest)
  | [], rest, _ => by simp [splitNul]
  | b :: s, rest, h => by
    have hb : b ≠ 0 := fun hb => h (by simp [hb])
    have hs : (0 : UInt8) ∉ s := fun hs => h (by simp [hs])
    simp [splitNul, hb, splitNul_append s rest hs]

theorem rebuild_compress (path prev : Bytes) :
    rebuildPath prev (prev.length - commonPrefixLen path prev) (path.drop (commonPrefixLen path prev))
      = .ok path := by
  have h1 := commonPrefixLen_le_right path prev
  unfold rebuildPath
  have h2 : ¬ (prev.length - commonPrefixLen path prev > prev.length) := by omega
  have h3 : prev.length - (prev.length - commonPrefixLen path prev) = commonPrefixLen path prev := by omega
  simp only [h2, if_false, h3, take_commonPrefixLen, List.take_append_drop]

/-! ### 12-bit split of the flags word -/

theorem and12 (x y : Nat) : x &&& y = 4096 * (x / 4096 &&& y / 4096) + (x % 4096 &&& y % 4096) := by
  have h1 := @Nat.and_div_two_pow x y 12
  have h2 := @Nat.and_mod_two_pow x y 12
  have e : (2:Nat) ^ 12 = 4096 := by decide
  rw [e] at h1 h2
  rw [← h1, ← h2]
  omega

theorem or12 (x y : Nat) : x ||| y = 4096 * (x / 4096 ||| y / 4096) + (x % 4096 ||| y % 4096) := by
  have h1 := @Nat.or_div_two_pow x y 12
  have h2 := @Nat.or_mod_two_pow x y 12
  have e : (2:Nat) ^ 12 = 4096 := by decide
  rw [e] at h1 h2
  rw [← h1, ← h2]
  omega

theorem and_4095 (x : Nat) : x &&& 4095 = x % 4096 := by
  have := Nat.and_two_pow_sub_one_eq_mod x 12
  simpa using this

theorem and_u32 (x : Nat) : x &&& 4294967295 = x % 4294967296 := by
  have := Nat.and_two_pow_sub_one_eq_mod x 32
  simpa using this

theorem clearBits_4095 (x : Nat) : clearBits x 4095 = 4096 * (x / 4096) := by
  unfold clearBits; rw [and_4095]; omega

/-- The high nibble of the on-disk flags word. -/
def hiNibble (flags ext : Nat) : Nat := flags / 4096 ||| (if ext ≠ 0 then 4 else 0)

theorem diskFlags_eq (e : Entry) (hl : e.name.length < 4096) :
    diskFlags e = 4096 * hiNibble e.flags e.ext + e.name.length := by
  unfold diskFlags hiNibble
  simp only [flagNameMask, flagExtended, clearBits_4095]
  have h0 : e.name.length ||| 4096 * (e.flags / 4096) = 4096 * (e.flags / 4096) + e.name.length := by
    rw [or12]
    have a1 : e.name.length / 4096 = 0 := by omega
    have a2 : 4096 * (e.flags / 4096) / 4096 = e.flags / 4096 := by omega
    have a3 : 4096 * (e.flags / 4096) % 4096 = 0 := by omega
    have a4 : e.name.length % 4096 = e.name.length := by omega
    rw [a1, a2, a3, a4]; simp
  rw [h0]
  split
  · rw [or12]
    have a1 : (4096 * (e.flags / 4096) + e.name.length) / 4096 = e.flags / 4096 := by omega
    have a2 : (4096 * (e.flags / 4096) + e.name.length) % 4096 = e.name.length := by omega
    rw [a1, a2]; simp
  · simp

theorem word_and_ext (A L : Nat) (hl : L < 4096) : (4096 * A + L) &&& 16384 = 4096 * (A &&& 4) := by
  rw [and12]
  have a1 : (4096 * A + L) / 4096 = A := by omega
  have a2 : (4096 * A + L) % 4096 = L := by omega
  rw [a1, a2]; simp

theorem word_and_name (A L : Nat) (hl : L < 4096) : (4096 * A + L) &&& 4095 = L := by
  rw [and_4095]; omega

theorem word_clear (A L : Nat) (hl : L < 4096) : clearBits (4096 * A + L) 4095 = 4096 * A := by
  rw [clearBits_4095]; omega

/-! ### times and the fixed part -/

def timeOk : Time → Prop
  | .int t => t < 4294967296
  | .pair s n => s < 4294967296 ∧ n < 4294967296

instance : DecidablePred timeOk := fun t => by cases t <;> simp only [timeOk] <;> infer_instance

/-- What `read_cache_time` returns for what `write_cache_time` wrote: always a pair. -/
def normTime : Time → Time
  | .int t => .pair t 0
  | .pair s n => .pair s n

def timeBytes : Time → Bytes
  | .int t => be32 t ++ be32 0
  | .pair s n => be32 s ++ be32 n

theorem timeBytes_length (t : Time) : (timeBytes t).length = 8 := by cases t <;> rfl

theorem packTime_ok {t : Time} (h : timeOk t) : packTime t = .ok (timeBytes t) := by
  cases t with
  | int t => simp only [timeOk] at h; simp [packTime, packL_ok h, packL_ok (show 0 < 4294967296 by decide), timeBytes]
  | pair s n => simp only [timeOk] at h; simp [packTime, packL_ok h.1, packL_ok h.2, timeBytes]

theorem readTime_timeBytes {t : Time} (h : timeOk t) (rest : Bytes) :
    readTime (timeBytes t ++ rest) = .ok (normTime t, rest) := by
  cases t with
  | int t =>
    simp only [timeOk] at h
    simp [readTime, timeBytes, List.append_assoc, readL_be32 h, readL_be32 (show 0 < 4294967296 by decide), normTime]
  | pair s n =>
    simp only [timeOk] at h
    simp [readTime, timeBytes, List.append_assoc, readL_be32 h.1, readL_be32 h.2, normTime]

theorem pack20_of_length {b : Bytes} (h : b.length = 20) : pack20 b = b := by
  unfold pack20
  rw [List.take_append_of_le_length (by omega)]
  exact List.take_of_length_le (by omega)

/-- The 46 bytes of the fixed part. -/
def fixedBytes (e : Entry) (flags : Nat) : Bytes :=
  be32 (e.dev % 4294967296) ++ be32 (e.ino % 4294967296) ++ be32 e.mode ++ be32 e.uid ++ be32 e.gid ++
    be32 e.size ++ e.sha ++ be16 flags

theorem packFixed_ok {e : Entry} {flags : Nat} (hm : e.mode < 4294967296) (hu : e.uid < 4294967296)
    (hg : e.gid < 4294967296) (hs : e.size < 4294967296) (hsha : e.sha.length = 20) (hf : flags < 65536) :
    packFixed e flags = .ok (fixedBytes e flags) := by
  unfold packFixed fixedBytes
  simp only [maskOpt, devMask, inoMask, modeMask, uidMask, gidMask, sizeMask, and_u32]
  rw [packL_ok (Nat.mod_lt _ (by decide)), packL_ok (Nat.mod_lt _ (by decide)), packL_ok hm, packL_ok hu,
    packL_ok hg, packL_ok hs, packH_ok hf, pack20_of_length hsha]
  simp

theorem fixedBytes_length {e : Entry} {flags : Nat} (hsha : e.sha.length = 20) :
    (fixedBytes e flags).length = 46 := by
  simp [fixedBytes, be32_length, be16_length, hsha]

theorem readFixed_fixedBytes {e : Entry} {flags : Nat} (hm : e.mode < 4294967296) (hu : e.uid < 4294967296)
    (hg : e.gid < 4294967296) (hs : e.size < 4294967296) (hsha : e.sha.length = 20) (hf : flags < 65536)
    (rest : Bytes) :
    readFixed (fixedBytes e flags ++ rest) =
      .ok ((e.dev % 4294967296, e.ino % 4294967296, e.mode, e.uid, e.gid, e.size), e.sha, flags, rest) := by
  have hlen : ¬ ((fixedBytes e flags ++ rest).length < entryReadLen) := by
    simp [fixedBytes_length hsha, entryReadLen]
  unfold readFixed
  rw [if_neg hlen]
  simp only [fixedBytes, List.append_assoc]
  rw [readL_be32 (Nat.mod_lt _ (by decide))]; simp only [bind_ok]
  rw [readL_be32 (Nat.mod_lt _ (by decide))]; simp only [bind_ok]
  rw [readL_be32 hm]; simp only [bind_ok]
  rw [readL_be32 hu]; simp only [bind_ok]
  rw [readL_be32 hg]; simp only [bind_ok]
  rw [readL_be32 hs]; simp only [bind_ok]
  have t : (e.sha ++ (be16 flags ++ rest)).take 20 = e.sha := by
    rw [List.take_append_of_le_length (by omega)]; exact List.take_of_length_le (by omega)
  have d : (e.sha ++ (be16 flags ++ rest)).drop 20 = be16 flags ++ rest := by
    rw [List.drop_append_of_le_length (by omega), List.drop_of_length_le (by omega)]; simp
  rw [t, d, readH_be16 hf]
  simp

/-! ### one entry -/

/-- Well-formedness exactly as the round-trip proof needs it (DESIGN F11: narrower than the
property's quantifier in `name_lt` and `size`). -/
def WFEntry (v : Nat) (e : Entry) : Prop :=
  e.name.length < 4096 ∧ (4 ≤ v → (0 : UInt8) ∉ e.name) ∧ timeOk e.ctime ∧ timeOk e.mtime ∧
  e.mode < 4294967296 ∧ e.uid < 4294967296 ∧ e.gid < 4294967296 ∧ e.size < 4294967296 ∧
  e.sha.length = 20 ∧ e.flags < 65536 ∧ e.ext < 65536 ∧
  ((e.ext ≠ 0 ∨ e.flags &&& flagExtended ≠ 0) → 3 ≤ v)

instance (v : Nat) (e : Entry) : Decidable (WFEntry v e) := by unfold WFEntry; infer_instance

/-- What comes back: times as pairs, dev/ino modulo 2^32 (as git), the name-length bits of the
flags cleared and the "extended" bit set when there are extended flags. -/
def normEntry (e : Entry) : Entry :=
  { e with ctime := normTime e.ctime, mtime := normTime e.mtime, dev := e.dev % 4294967296,
           ino := e.ino % 4294967296, flags := clearBits (diskFlags e) flagNameMask }

/-- The extended-flags word as written. -/
def extBytes (e : Entry) : Bytes := if diskFlags e &&& flagExtended ≠ 0 then be16 e.ext else []

theorem hiNibble_lt {f x : Nat} (hf : f < 65536) : hiNibble f x < 16 := by
  unfold hiNibble
  have h : f / 4096 < 16 := by omega
  have : ∀ a, a < 16 → ∀ b : Bool, (a ||| (if b then 4 else 0)) < 16 := by decide
  have := this _ h (decide (x ≠ 0))
  simpa using this

theorem hiNibble_ext {f x : Nat} (hf : f < 65536) :
    (hiNibble f x &&& 4 ≠ 0) ↔ (x ≠ 0 ∨ f &&& 16384 ≠ 0) := by
  have hfx : f &&& 16384 = 4096 * (f / 4096 &&& 4) := by
    have := word_and_ext (f / 4096) (f % 4096) (by omega)
    rwa [Nat.div_add_mod] at this
  rw [hfx]
  unfold hiNibble
  have h : f / 4096 < 16 := by omega
  have key : ∀ a, a < 16 → ∀ b : Bool,
      ((a ||| (if b then 4 else 0)) &&& 4 ≠ 0 ↔ (b = true ∨ 4096 * (a &&& 4) ≠ 0)) := by decide
  have := key _ h (decide (x ≠ 0))
  simpa using this

theorem diskFlags_lt {e : Entry} (hl : e.name.length < 4096) (hf : e.flags < 65536) :
    diskFlags e < 65536 := by
  rw [diskFlags_eq e hl]; have := hiNibble_lt (x := e.ext) hf; omega

theorem diskFlags_ext {e : Entry} (hl : e.name.length < 4096) (hf : e.flags < 65536) :
    (diskFlags e &&& flagExtended ≠ 0) ↔ (e.ext ≠ 0 ∨ e.flags &&& flagExtended ≠ 0) := by
  rw [diskFlags_eq e hl]
  simp only [flagExtended]
  rw [word_and_ext _ _ hl, ← hiNibble_ext hf]
  omega

/-- The bytes `write_cache_entry` writes for a well-formed entry. -/
def entryBytes (v : Nat) (prev : Bytes) (e : Entry) : Bytes :=
  let head := timeBytes e.ctime ++ timeBytes e.mtime ++ fixedBytes e (diskFlags e) ++ extBytes e
  if v ≥ 4 then head ++ compressPath e.name prev
  else head ++ e.name ++ List.replicate (padLenWrite (head ++ e.name).length) 0

theorem writeCacheEntry_ok {v : Nat} {e : Entry} (prev : Bytes) (h : WFEntry v e) :
    writeCacheEntry v prev e = .ok (entryBytes v prev e) := by
  obtain ⟨hl, _, hct, hmt, hm, hu, hg, hs, hsha, hf, hx, hv⟩ := h
  unfold writeCacheEntry
  rw [packTime_ok hct, packTime_ok hmt]
  simp only [bind_ok]
  have hnot : ¬ (diskFlags e &&& flagExtended ≠ 0 ∧ v < wExtendedFrom) := by
    intro ⟨h1, h2⟩
    have := hv ((diskFlags_ext hl hf).1 h1)
    simp only [wExtendedFrom] at h2; omega
  rw [if_neg hnot, packFixed_ok hm hu hg hs hsha (diskFlags_lt hl hf)]
  simp only [bind_ok]
  unfold entryBytes extBytes
  by_cases hext : diskFlags e &&& flagExtended ≠ 0
  · simp only [if_pos hext, packH_ok hx, bind_ok, wCompressFrom, wCompressFrom2]
    by_cases hv4 : v ≥ 4
    · simp [hv4]
    · simp [hv4]
  · simp only [if_neg hext, pure_eq_ok, bind_ok, wCompressFrom, wCompressFrom2]
    by_cases hv4 : v ≥ 4
    · simp [hv4]
    · simp [hv4]

theorem readVarint_encode (n : Nat) (rest : Bytes) : readVarint (encodeVarint n ++ rest) = .ok (n, rest) := by
  unfold readVarint; rw [readVarintAux_encode]; simp

theorem decodeVarint_encode (n : Nat) (rest : Bytes) : decodeVarint (encodeVarint n ++ rest) = (n, rest) := by
  unfold decodeVarint; rw [decodeVarintAux_encode]; simp

theorem decompressPathStream_compress (path prev rest : Bytes) (h : (0 : UInt8) ∉ path) :
    decompressPathStream prev (compressPath path prev ++ rest) = .ok (path, rest) := by
  have hd : (0 : UInt8) ∉ path.drop (commonPrefixLen path prev) := fun hm => h (List.mem_of_mem_drop hm)
  unfold decompressPathStream compressPath
  simp only [List.append_assoc, List.cons_append, List.nil_append]
  rw [readVarint_encode]
  simp only [splitNul_append _ rest hd, rebuild_compress]

theorem decompressPath_compress (path prev rest : Bytes) (h : (0 : UInt8) ∉ path) :
    decompressPath prev (compressPath path prev ++ rest) = .ok (path, rest) := by
  have hd : (0 : UInt8) ∉ path.drop (commonPrefixLen path prev) := fun hm => h (List.mem_of_mem_drop hm)
  unfold decompressPath compressPath
  simp only [List.append_assoc, List.cons_append, List.nil_append]
  rw [decodeVarint_encode]
  simp only [splitNul_append _ rest hd, rebuild_compress]

theorem padLenRead_eq (n : Nat) : padLenRead n = padLenWrite n := rfl

theorem extBytes_length_le (e : Entry) : (extBytes e).length ≤ 2 := by
  unfold extBytes; split <;> simp [be16_length]

theorem readCacheEntry_entryBytes {v : Nat} {e : Entry} (prev rest : Bytes) (h : WFEntry v e) :
    readCacheEntry v prev (entryBytes v prev e ++ rest) = .ok (normEntry e, rest) := by
  obtain ⟨hl, hnul, hct, hmt, hm, hu, hg, hs, hsha, hf, hx, hv⟩ := h
  have hW := diskFlags_lt hl hf
  have hWeq := diskFlags_eq e hl
  -- what the reader sees in the flags word
  have hname : diskFlags e &&& flagNameMask = e.name.length := by
    rw [hWeq]; exact word_and_name _ _ hl
  have hext0 : ¬ (diskFlags e &&& flagExtended ≠ 0) → e.ext = 0 := by
    intro hext
    by_contra hne
    exact hext ((diskFlags_ext hl hf).2 (Or.inl hne))
  unfold readCacheEntry entryBytes
  by_cases hv4 : v ≥ 4
  · -- version 4: compressed path, no padding
    simp only [if_pos hv4, List.append_assoc]
    rw [readTime_timeBytes hct]; simp only [bind_ok]
    rw [readTime_timeBytes hmt]; simp only [bind_ok]
    rw [readFixed_fixedBytes hm hu hg hs hsha hW]; simp only [bind_ok]
    have hv3 : ¬ v < rExtendedFrom := by simp only [rExtendedFrom]; omega
    have hc : v ≥ rCompressFrom := by simp only [rCompressFrom]; omega
    have hp : ¬ v < rPadBelow := by simp only [rPadBelow]; omega
    unfold extBytes
    by_cases hext : diskFlags e &&& flagExtended ≠ 0
    · simp only [if_pos hext, if_neg hv3, readH_be16 hx, bind_ok, if_pos hc,
        decompressPathStream_compress _ _ _ (hnul hv4), if_neg hp, pure_eq_ok]
      simp [normEntry]
    · simp only [if_neg hext, List.nil_append, pure_eq_ok, bind_ok, if_pos hc,
        decompressPathStream_compress _ _ _ (hnul hv4), if_neg hp]
      simp [normEntry, hext0 hext]
  · -- versions below 4: name of `flags & 0xFFF` bytes, then 1..8 NULs
    simp only [if_neg hv4, List.append_assoc]
    rw [readTime_timeBytes hct]; simp only [bind_ok]
    rw [readTime_timeBytes hmt]; simp only [bind_ok]
    rw [readFixed_fixedBytes hm hu hg hs hsha hW]; simp only [bind_ok]
    have hc : ¬ v ≥ rCompressFrom := by simp only [rCompressFrom]; omega
    have hp : v < rPadBelow := by simp only [rPadBelow]; omega
    have htake : ∀ t : Bytes, (e.name ++ t).take e.name.length = e.name := by
      intro t; rw [List.take_append_of_le_length (Nat.le_refl _)]; exact List.take_of_length_le (Nat.le_refl _)
    have hdrop : ∀ t : Bytes, (e.name ++ t).drop e.name.length = t := by
      intro t; rw [List.drop_append_of_le_length (Nat.le_refl _)]; simp
    unfold extBytes
    by_cases hext : diskFlags e &&& flagExtended ≠ 0
    · have hv3 : ¬ v < rExtendedFrom := by
        have := hv ((diskFlags_ext hl hf).1 hext); simp only [rExtendedFrom]; omega
      simp only [if_pos hext, if_neg hv3, readH_be16 hx, bind_ok, if_neg hc, hname,
        htake, hdrop, if_pos hp, pure_eq_ok, padLenRead_eq]
      have hlen : ∀ (p : Nat),
          (timeBytes e.ctime ++ (timeBytes e.mtime ++ (fixedBytes e (diskFlags e) ++ (be16 e.ext ++ (e.name ++ (List.replicate p 0 ++ rest)))))).length
            - (List.replicate p (0:UInt8) ++ rest).length
          = (timeBytes e.ctime ++ (timeBytes e.mtime ++ (fixedBytes e (diskFlags e) ++ (be16 e.ext ++ e.name)))).length := by
        intro p; simp only [List.length_append]; omega
      rw [hlen]
      rw [List.drop_append_of_le_length (by simp), List.drop_of_length_le (by simp)]
      simp [normEntry]
    · simp only [if_neg hext, List.nil_append, pure_eq_ok, bind_ok, if_neg hc, hname, htake, hdrop,
        if_pos hp, padLenRead_eq]
      have hlen : ∀ (p : Nat),
          (timeBytes e.ctime ++ (timeBytes e.mtime ++ (fixedBytes e (diskFlags e) ++ (e.name ++ (List.replicate p 0 ++ rest))))).length
            - (List.replicate p (0:UInt8) ++ rest).length
          = (timeBytes e.ctime ++ (timeBytes e.mtime ++ (fixedBytes e (diskFlags e) ++ e.name))).length := by
        intro p; simp only [List.length_append]; omega
      rw [hlen]
      rw [List.drop_append_of_le_length (by simp), List.drop_of_length_le (by simp)]
      simp [normEntry, hext0 hext]

end Dulwich.Index
