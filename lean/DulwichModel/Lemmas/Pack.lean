/- Helper lemmas for the pack entry codecs and trailer tracking (C02).  Property theorems live in Props/C02.lean. -/
import DulwichModel.Model.Pack
import DulwichModel.Lemmas.Delta
import Mathlib.Tactic.Ring

namespace Dulwich.Pack
open Dulwich Dulwich.Delta

/-! ### type/size header -/

theorem takeMsb_encVarTail (n : Nat) : ∀ (c : Nat) (rest : Bytes), c < 128 →
    takeMsb (encVarTail c n ++ rest) = some (encVarTail c n, rest) := by
  induction n using Nat.strongRecOn with
  | _ n ih =>
    intro c rest hc
    rw [encVarTail]
    split
    · have h1 : (UInt8.ofNat c).toNat = c := u8_toNat_ofNat (by omega)
      simp [takeMsb, h1, Gen.Pack.msbBit, hc]
    · rename_i hn
      have h1 : (UInt8.ofNat (c + Gen.Pack.hdrContBit)).toNat = c + 128 :=
        u8_toNat_ofNat (by simp only [Gen.Pack.hdrContBit]; omega)
      have h2 : ¬ (c + 128 < Gen.Pack.msbBit) := by simp only [Gen.Pack.msbBit]; omega
      simp only [List.cons_append, takeMsb, h1, h2, if_false]
      rw [ih (n / 2 ^ Gen.Pack.hdrGroupShift) (by simp only [Gen.Pack.hdrGroupShift]; omega) _ rest
        (by simp only [Gen.Pack.hdrGroupMask]; omega)]

theorem sizeTail_encVarTail (n : Nat) : ∀ (c s : Nat), c < 128 →
    sizeTail s (encVarTail c n) = (c + 128 * n) * 2 ^ s := by
  induction n using Nat.strongRecOn with
  | _ n ih =>
    intro c s hc
    rw [encVarTail]
    split
    · rename_i hn
      have h1 : (UInt8.ofNat c).toNat = c := u8_toNat_ofNat (by omega)
      subst hn
      simp [sizeTail, h1, Gen.Pack.dhGroupMask, Nat.mod_eq_of_lt hc]
    · rename_i hn
      have h1 : (UInt8.ofNat (c + Gen.Pack.hdrContBit)).toNat = c + 128 :=
        u8_toNat_ofNat (by simp only [Gen.Pack.hdrContBit]; omega)
      simp only [sizeTail, h1]
      rw [ih (n / 2 ^ Gen.Pack.hdrGroupShift) (by simp only [Gen.Pack.hdrGroupShift]; omega) _ _
        (by simp only [Gen.Pack.hdrGroupMask]; omega)]
      simp only [Gen.Pack.dhGroupMask, Gen.Pack.hdrGroupMask, Gen.Pack.hdrGroupShift, Gen.Pack.dhGroupShift]
      have e1 : (c + 128) % (127 + 1) = c := by omega
      rw [e1]
      have hn' : n = 128 * (n / 128) + n % 128 := (Nat.div_add_mod n 128).symm
      have e2 : n % (127 + 1) = n % 128 := rfl
      have e3 : n / 2 ^ 7 = n / 128 := rfl
      rw [e2, e3]
      generalize n / 128 = q at *
      generalize n % 128 = r at *
      subst hn'
      rw [Nat.pow_add]
      ring

/-! ### OFS distance code -/

theorem takeMsb_encodeOfsAux (m : Nat) : ∀ (acc rest : Bytes),
    takeMsb (acc ++ rest) = some (acc, rest) →
    takeMsb (encodeOfsAux m acc ++ rest) = some (encodeOfsAux m acc, rest) := by
  induction m using Nat.strongRecOn with
  | _ m ih =>
    intro acc rest h
    rw [encodeOfsAux]
    split
    · exact h
    · rename_i hm
      apply ih ((m - Gen.Pack.ofsBias) / 2 ^ Gen.Pack.ofsGroupShift)
        (by simp only [Gen.Pack.ofsBias, Gen.Pack.ofsGroupShift]; omega)
      have h1 : (UInt8.ofNat (Gen.Pack.ofsContBit + (m - Gen.Pack.ofsBias) % (Gen.Pack.ofsGroupMask + 1))).toNat
          = 128 + (m - 1) % 128 := u8_toNat_ofNat (by simp only [Gen.Pack.ofsContBit, Gen.Pack.ofsGroupMask]; omega)
      have h2 : ¬ (128 + (m - 1) % 128 < Gen.Pack.msbBit) := by simp only [Gen.Pack.msbBit]; omega
      simp only [List.cons_append, takeMsb, h1, h2, if_false, h]

theorem decodeOfsAux_encodeOfsAux (m : Nat) : ∀ (b : UInt8) (acc : Bytes), 0 < m →
    ∃ b' r', encodeOfsAux m (b :: acc) = b' :: r' ∧
      decodeOfsAux (b'.toNat % 128) r' = decodeOfsAux (m - 1) (b :: acc) := by
  induction m using Nat.strongRecOn with
  | _ m ih =>
    intro b acc hm
    rw [encodeOfsAux]
    have hm0 : ¬ m = 0 := by omega
    simp only [hm0, if_false]
    have hB : (UInt8.ofNat (Gen.Pack.ofsContBit + (m - Gen.Pack.ofsBias) % (Gen.Pack.ofsGroupMask + 1))).toNat
        = 128 + (m - 1) % 128 := u8_toNat_ofNat (by simp only [Gen.Pack.ofsContBit, Gen.Pack.ofsGroupMask]; omega)
    have hq : (m - Gen.Pack.ofsBias) / 2 ^ Gen.Pack.ofsGroupShift = (m - 1) / 128 := rfl
    rw [hq]
    by_cases hq0 : (m - 1) / 128 = 0
    · rw [hq0, encodeOfsAux]
      simp only [if_true]
      refine ⟨_, _, rfl, ?_⟩
      rw [hB]
      have : (128 + (m - 1) % 128) % 128 = m - 1 := by omega
      rw [this]
    · obtain ⟨b', r', he, hd⟩ := ih ((m - 1) / 128) (by omega)
        (UInt8.ofNat (Gen.Pack.ofsContBit + (m - Gen.Pack.ofsBias) % (Gen.Pack.ofsGroupMask + 1))) (b :: acc) (by omega)
      refine ⟨b', r', he, ?_⟩
      rw [hd]
      conv => lhs; rw [decodeOfsAux]
      rw [hB]
      have e : ((m - 1) / 128 - 1 + Gen.Pack.doBias) * 2 ^ Gen.Pack.doGroupShift
          + (128 + (m - 1) % 128) % (Gen.Pack.doGroupMask + 1) = m - 1 := by
        simp only [Gen.Pack.doBias, Gen.Pack.doGroupShift, Gen.Pack.doGroupMask]
        omega
      rw [e]

theorem lastHasMsb_encodeOfsAux (m : Nat) : ∀ (acc : Bytes), acc ≠ [] →
    lastHasMsb (encodeOfsAux m acc) = lastHasMsb acc := by
  induction m using Nat.strongRecOn with
  | _ m ih =>
    intro acc hacc
    rw [encodeOfsAux]
    split
    · rfl
    · rw [ih _ (by simp only [Gen.Pack.ofsBias, Gen.Pack.ofsGroupShift]; omega) _ (by simp)]
      cases acc with
      | nil => exact absurd rfl hacc
      | cons a r => simp [lastHasMsb]


/-! ### header and distance code, as whole-function facts -/

theorem takeMsb_encodeObjHeader (ty size : Nat) (rest : Bytes) (hty : ty < 8) :
    takeMsb (encodeObjHeader ty size ++ rest) = some (encodeObjHeader ty size, rest) := by
  have hc : ty * 2 ^ Gen.Pack.hdrTypeShift + size % (Gen.Pack.hdrLowMask + 1) < 128 := by
    simp only [Gen.Pack.hdrTypeShift, Gen.Pack.hdrLowMask]; omega
  exact takeMsb_encVarTail _ _ _ hc

theorem decodeObjHeaderRaw_encodeObjHeader (ty size : Nat) (hty : ty < 8) :
    decodeObjHeaderRaw (encodeObjHeader ty size) = some (ty, size) := by
  have hc : ty * 2 ^ Gen.Pack.hdrTypeShift + size % (Gen.Pack.hdrLowMask + 1) < 128 := by
    simp only [Gen.Pack.hdrTypeShift, Gen.Pack.hdrLowMask]; omega
  unfold encodeObjHeader
  rw [encVarTail]
  split
  · rename_i h0
    have h1 : (UInt8.ofNat (ty * 2 ^ Gen.Pack.hdrTypeShift + size % (Gen.Pack.hdrLowMask + 1))).toNat
        = ty * 16 + size % 16 := u8_toNat_ofNat (by omega)
    simp only [decodeObjHeaderRaw, h1, sizeTail, Gen.Pack.dhTypeShift, Gen.Pack.dhTypeMask, Gen.Pack.dhLowMask]
    simp only [Gen.Pack.hdrLowShift] at h0
    have e1 : (ty * 16 + size % 16) / 2 ^ 4 % (7 + 1) = ty := by omega
    have e2 : (ty * 16 + size % 16) % (15 + 1) + 0 = size := by omega
    rw [e1, e2]
  · rename_i h0
    have h1 : (UInt8.ofNat (ty * 2 ^ Gen.Pack.hdrTypeShift + size % (Gen.Pack.hdrLowMask + 1)
        + Gen.Pack.hdrContBit)).toNat = ty * 16 + size % 16 + 128 :=
      u8_toNat_ofNat (by simp only [Gen.Pack.hdrContBit]; omega)
    simp only [decodeObjHeaderRaw, h1]
    rw [sizeTail_encVarTail _ _ _ (by simp only [Gen.Pack.hdrGroupMask]; omega)]
    simp only [Gen.Pack.dhTypeShift, Gen.Pack.dhTypeMask, Gen.Pack.dhLowMask, Gen.Pack.dhLowShift,
      Gen.Pack.hdrGroupMask, Gen.Pack.hdrGroupShift, Gen.Pack.hdrLowShift]
    have e1 : (ty * 16 + size % 16 + 128) / 2 ^ 4 % (7 + 1) = ty := by omega
    have e2 : (ty * 16 + size % 16 + 128) % (15 + 1)
        + (size / 2 ^ 4 % (127 + 1) + 128 * (size / 2 ^ 4 / 2 ^ 7)) * 2 ^ 4 = size := by omega
    rw [e1, e2]

theorem encVarTail_ne_nil (c n : Nat) : encVarTail c n ≠ [] := by
  rw [encVarTail]; split <;> simp

theorem encodeObjHeader_ne_nil (ty size : Nat) : encodeObjHeader ty size ≠ [] := encVarTail_ne_nil _ _

theorem takeMsb_encodeOfs (n : Nat) (rest : Bytes) :
    takeMsb (encodeOfs n ++ rest) = some (encodeOfs n, rest) := by
  unfold encodeOfs
  have hb : (UInt8.ofNat (n % (Gen.Pack.ofsLowMask + 1))).toNat = n % 128 :=
    u8_toNat_ofNat (by simp only [Gen.Pack.ofsLowMask]; omega)
  exact takeMsb_encodeOfsAux _ _ _ (by simp [takeMsb, hb, Gen.Pack.msbBit]; omega)

theorem decodeOfsRaw_encodeOfs (n : Nat) (hn : 0 < n) : decodeOfsRaw (encodeOfs n) = .ok n := by
  unfold encodeOfs
  have hb : (UInt8.ofNat (n % (Gen.Pack.ofsLowMask + 1))).toNat = n % 128 :=
    u8_toNat_ofNat (by simp only [Gen.Pack.ofsLowMask]; omega)
  have hq : n / 2 ^ Gen.Pack.ofsLowShift = n / 128 := rfl
  rw [hq]
  by_cases h0 : n / 128 = 0
  · rw [h0, encodeOfsAux]
    simp only [if_true, decodeOfsRaw, lastHasMsb, hb, Gen.Pack.doContBit, decodeOfsAux, Gen.Pack.doLowMask,
      Gen.Pack.doZero]
    have e : n % 128 % (127 + 1) = n := by omega
    have e2 : ¬ n % 128 ≥ 128 := by omega
    simp [e, e2]
    omega
  · obtain ⟨b', r', he, hd⟩ := decodeOfsAux_encodeOfsAux (n / 128) (UInt8.ofNat (n % (Gen.Pack.ofsLowMask + 1))) []
      (by omega)
    have hl := lastHasMsb_encodeOfsAux (n / 128) [UInt8.ofNat (n % (Gen.Pack.ofsLowMask + 1))] (by simp)
    rw [he] at hl ⊢
    simp only [decodeOfsRaw, hl, lastHasMsb, hb, Gen.Pack.doContBit, Gen.Pack.doLowMask]
    have e2 : ¬ n % 128 ≥ 128 := by omega
    simp only [e2, decide_false, Bool.false_eq_true, if_false]
    have hd' : decodeOfsAux (b'.toNat % (127 + 1)) r' = n := by
      have : b'.toNat % (127 + 1) = b'.toNat % 128 := rfl
      rw [this, hd]
      simp only [decodeOfsAux, hb, Gen.Pack.doBias, Gen.Pack.doGroupShift, Gen.Pack.doGroupMask]
      omega
    simp only [hd', Gen.Pack.doZero]
    have : ¬ n = 0 := by omega
    simp [this]

/-! ### trailer tracking -/

theorem feed_invariant (hs : Nat) (hhs : 0 < hs) (s : TrailerState) (P data : Bytes)
    (h1 : s.hashed ++ s.trailer = P) (h2 : s.trailer.length = min hs P.length) :
    (feed hs s data).hashed ++ (feed hs s data).trailer = P ++ data ∧
    (feed hs s data).trailer.length = min hs (P ++ data).length := by
  have hP : P.length = s.hashed.length + s.trailer.length := by rw [← h1]; simp
  unfold feed
  simp only
  by_cases hn : data.length ≥ hs
  · simp only [hn, if_true, pyDropLast, pyTakeLast, show ¬ hs = 0 by omega, if_false]
    refine ⟨?_, ?_⟩
    · simp only [List.take_length, List.drop_length, List.nil_append, List.append_assoc]
      rw [List.take_append_drop, ← List.append_assoc, h1]
    · simp only [List.drop_length, List.nil_append, List.length_drop, List.length_append]
      omega
  · simp only [hn, if_false]
    by_cases hd : data.length = 0
    · have : data = [] := List.eq_nil_of_length_eq_zero hd
      subst this
      simp [pyDropLast, pyTakeLast, h1, h2]
    · simp only [pyDropLast, pyTakeLast, hd, if_false, Nat.sub_self, List.take_zero, List.drop_zero,
        List.append_nil]
      refine ⟨?_, ?_⟩
      · rw [List.append_assoc, ← List.append_assoc (s.trailer.take _), List.take_append_drop,
          ← List.append_assoc, h1]
      · simp only [List.length_append, List.length_drop]
        omega

/-! ### one entry: what the writer emits parses back to what it meant -/

theorem entryBytes_ne_nil (deflate : Bytes → Bytes) (off : Nat) (ents : List WEntry) (r : Rec) :
    entryBytes deflate off ents r ≠ [] := by
  unfold entryBytes
  have := fun t s => encodeObjHeader_ne_nil t s
  split
  · intro h; exact this _ _ (List.append_eq_nil_iff.mp h).1
  · split
    · intro h; exact this _ _ (List.append_eq_nil_iff.mp (List.append_eq_nil_iff.mp h).1).1
    · intro h; exact this _ _ (List.append_eq_nil_iff.mp (List.append_eq_nil_iff.mp h).1).1

theorem lookupOff_lt {ents : List WEntry} {b : Bytes} {off o : Nat} (hinv : ∀ e ∈ ents, e.offset < off)
    (h : lookupOff ents b = some o) : o < off := by
  unfold lookupOff at h
  split at h
  · rename_i e he
    cases h
    exact hinv e (List.mem_of_find?_eq_some he)
  · cases h

theorem parseEntry_entryBytes (deflate : Bytes → Bytes) (inflate : Bytes → Option (Bytes × Bytes))
    (hz : ZlibOk deflate inflate) (hs off : Nat) (ents : List WEntry) (r : Rec) (rest : Bytes)
    (hwf : wfRec hs r = true) (hinv : ∀ e ∈ ents, e.offset < off) (hrest : rest ≠ []) :
    parseEntry inflate hs (entryBytes deflate off ents r ++ rest) = .ok (entryOf off ents r, rest) := by
  have hne : rest.isEmpty = false := by cases rest with | nil => exact absurd rfl hrest | cons _ _ => rfl
  unfold entryBytes entryOf wfRec at *
  cases hb : r.base with
  | none =>
    rw [hb] at hwf
    simp only at hwf ⊢
    have hw := of_decide_eq_true hwf
    unfold parseEntry
    rw [List.append_assoc, takeMsb_encodeObjHeader _ _ _ hw.2.2]
    simp only [decodeObjHeaderRaw_encodeObjHeader _ _ hw.2.2]
    unfold parseBase
    simp only [hw.1, hw.2.1, if_false, hz r.data rest, hne, Bool.false_eq_true, ne_eq, not_true_eq_false]
  | some b =>
    rw [hb] at hwf
    simp only at hwf ⊢
    have hbl : b.length = hs := of_decide_eq_true hwf
    cases hl : lookupOff ents b with
    | some baseOff =>
      have hlt := lookupOff_lt hinv hl
      simp only
      unfold parseEntry
      rw [List.append_assoc, List.append_assoc,
        takeMsb_encodeObjHeader _ _ _ (by simp only [Gen.Pack.ofsDelta]; omega)]
      simp only [decodeObjHeaderRaw_encodeObjHeader _ _ (show Gen.Pack.ofsDelta < 8 by decide)]
      unfold parseBase
      simp only [if_true, takeMsb_encodeOfs, decodeOfsRaw_encodeOfs _ (show 0 < off - baseOff by omega),
        hz r.data rest, hne, Bool.false_eq_true, if_false, ne_eq, not_true_eq_false]
    | none =>
      simp only
      unfold parseEntry
      rw [List.append_assoc, List.append_assoc,
        takeMsb_encodeObjHeader _ _ _ (by simp only [Gen.Pack.refDelta]; omega)]
      simp only [decodeObjHeaderRaw_encodeObjHeader _ _ (show Gen.Pack.refDelta < 8 by decide)]
      unfold parseBase
      have h67 : ¬ Gen.Pack.refDelta = Gen.Pack.ofsDelta := by decide
      have hlen : ¬ (b ++ (deflate r.data ++ rest)).length < hs := by simp; omega
      have ht : (b ++ (deflate r.data ++ rest)).take hs = b := by
        rw [← hbl]; simp
      have hd : (b ++ (deflate r.data ++ rest)).drop hs = deflate r.data ++ rest := by
        rw [← hbl]; simp
      simp only [h67, if_false, if_true, hlen, ht, hd, hz r.data rest, hne, Bool.false_eq_true, ne_eq,
        not_true_eq_false]

/-! ### the whole record loop -/

theorem writeRecs_fst_cons (deflate : Bytes → Bytes) (off : Nat) (ents : List WEntry) (r : Rec) (rs : List Rec) :
    (writeRecs deflate off ents (r :: rs)).1 = entryBytes deflate off ents r
      ++ (writeRecs deflate (off + (entryBytes deflate off ents r).length)
            (⟨r.name, off, entryBytes deflate off ents r⟩ :: ents) rs).1 := rfl

theorem writeRecs_snd_cons (deflate : Bytes → Bytes) (off : Nat) (ents : List WEntry) (r : Rec) (rs : List Rec) :
    (writeRecs deflate off ents (r :: rs)).2
      = (writeRecs deflate (off + (entryBytes deflate off ents r).length)
            (⟨r.name, off, entryBytes deflate off ents r⟩ :: ents) rs).2 := rfl

/-- Sequential parse of what the record loop wrote, followed by a non-empty trailer. -/
theorem parseEntries_writeRecs (deflate : Bytes → Bytes) (inflate : Bytes → Option (Bytes × Bytes))
    (hz : ZlibOk deflate inflate) (hs : Nat) (trailer : Bytes) (htr : trailer ≠ []) :
    ∀ (recs : List Rec) (off total : Nat) (ents : List WEntry),
      (∀ r ∈ recs, wfRec hs r = true) → (∀ e ∈ ents, e.offset < off) →
      total = off + ((writeRecs deflate off ents recs).1 ++ trailer).length →
      parseEntries inflate hs total recs.length ((writeRecs deflate off ents recs).1 ++ trailer)
        = .ok (layoutRecs deflate off ents recs, trailer) := by
  intro recs
  induction recs with
  | nil => intro off total ents _ _ _; simp [parseEntries, writeRecs, layoutRecs]
  | cons r rs ih =>
    intro off total ents hwf hinv htot
    have hb := entryBytes_ne_nil deflate off ents r
    rw [writeRecs_fst_cons] at htot ⊢
    simp only [List.length_cons, parseEntries, layoutRecs]
    rw [List.append_assoc]
    have hrest : (writeRecs deflate (off + (entryBytes deflate off ents r).length)
        (⟨r.name, off, entryBytes deflate off ents r⟩ :: ents) rs).1 ++ trailer ≠ [] := by
      intro h; exact htr (List.append_eq_nil_iff.mp h).2
    rw [parseEntry_entryBytes deflate inflate hz hs off ents r _ (hwf r List.mem_cons_self) hinv hrest]
    simp only
    have hlen : 0 < (entryBytes deflate off ents r).length := List.length_pos_iff.mpr hb
    rw [ih (off + (entryBytes deflate off ents r).length) total _
      (fun x hx => hwf x (List.mem_cons_of_mem _ hx))
      (by
        intro e he
        rcases List.mem_cons.mp he with h | h
        · subst h; simp only; omega
        · have := hinv e h; omega)
      (by simp only [List.length_append] at htot ⊢; omega)]
    have hoff : total - (entryBytes deflate off ents r ++ ((writeRecs deflate
        (off + (entryBytes deflate off ents r).length)
        (⟨r.name, off, entryBytes deflate off ents r⟩ :: ents) rs).1 ++ trailer)).length = off := by
      simp only [List.length_append] at htot ⊢; omega
    rw [hoff]

/-- Random access: the final pack, read at the offset of any record, parses to what the writer meant. -/
theorem parseAt_layout (deflate : Bytes → Bytes) (inflate : Bytes → Option (Bytes × Bytes))
    (hz : ZlibOk deflate inflate) (hs : Nat) (trailer : Bytes) (htr : trailer ≠ []) :
    ∀ (recs : List Rec) (off : Nat) (ents : List WEntry) (pre : Bytes),
      pre.length = off → (∀ r ∈ recs, wfRec hs r = true) → (∀ e ∈ ents, e.offset < off) →
      ∀ p ∈ layoutRecs deflate off ents recs,
        parseAt inflate hs (pre ++ ((writeRecs deflate off ents recs).1 ++ trailer)) p.1 = .ok p.2 := by
  intro recs
  induction recs with
  | nil => intro off ents pre _ _ _ p hp; simp [layoutRecs] at hp
  | cons r rs ih =>
    intro off ents pre hpre hwf hinv p hp
    subst hpre
    have hb := entryBytes_ne_nil deflate pre.length ents r
    have hlen : 0 < (entryBytes deflate pre.length ents r).length := List.length_pos_iff.mpr hb
    simp only [layoutRecs, List.mem_cons] at hp
    rw [writeRecs_fst_cons, List.append_assoc]
    have hrest : (writeRecs deflate (pre.length + (entryBytes deflate pre.length ents r).length)
        (⟨r.name, pre.length, entryBytes deflate pre.length ents r⟩ :: ents) rs).1 ++ trailer ≠ [] := by
      intro h; exact htr (List.append_eq_nil_iff.mp h).2
    rcases hp with h | h
    · subst h
      unfold parseAt
      simp only
      rw [List.drop_left,
        parseEntry_entryBytes deflate inflate hz hs pre.length ents r _ (hwf r List.mem_cons_self) hinv hrest]
    · have := ih (pre.length + (entryBytes deflate pre.length ents r).length) _
        (pre ++ entryBytes deflate pre.length ents r)
        (by simp) (fun x hx => hwf x (List.mem_cons_of_mem _ hx))
        (by
          intro e he
          rcases List.mem_cons.mp he with h' | h'
          · subst h'; simp only; omega
          · have := hinv e h'; omega) p h
      rw [List.append_assoc] at this
      exact this

/-! ### pack header -/

theorem beBytes_length' (k n : Nat) : (beBytes k n).length = k := by
  induction k generalizing n with
  | zero => rfl
  | succ k ih => simp [beBytes, ih]

theorem packHeader_length (n : Nat) : (packHeader n).length = 12 := by
  simp [packHeader, Gen.Pack.packMagic, beBytes_length']

/-- Every entry the writer remembers is exactly the byte range `[offset, offset + len)` of the output. -/
theorem writeRecs_ranges (deflate : Bytes → Bytes) : ∀ (recs : List Rec) (off : Nat) (ents : List WEntry) (pre suf : Bytes),
    pre.length = off →
    ∀ e ∈ (writeRecs deflate off ents recs).2,
      e ∈ ents ∨ slice (pre ++ ((writeRecs deflate off ents recs).1 ++ suf)) e.offset e.raw.length = e.raw := by
  intro recs
  induction recs with
  | nil => intro off ents pre suf _ e he; exact Or.inl he
  | cons r rs ih =>
    intro off ents pre suf hpre e he
    subst hpre
    rw [writeRecs_snd_cons] at he
    rw [writeRecs_fst_cons, List.append_assoc]
    have := ih (pre.length + (entryBytes deflate pre.length ents r).length)
      (⟨r.name, pre.length, entryBytes deflate pre.length ents r⟩ :: ents)
      (pre ++ entryBytes deflate pre.length ents r) suf (by simp) e he
    rcases this with h | h
    · rcases List.mem_cons.mp h with h' | h'
      · right
        subst h'
        simp only [slice]
        rw [List.drop_left]
        simp
      · exact Or.inl h'
    · right
      rw [List.append_assoc] at h
      exact h

/-! ### random access: resolving OFS chains on the written pack -/

/-- Entries (newest first) aligned with resolved objects (newest first): same names, and the entry at
depth `k` from the oldest resolves with any fuel `> k`. -/
def Aligned (res : Nat → Nat → Except Err (Nat × Bytes)) : List WEntry → List (Bytes × Nat × Bytes) → Prop
  | [], [] => True
  | e :: es, a :: as =>
    e.name = a.1 ∧ 12 ≤ e.offset ∧ (∀ f, es.length + 1 ≤ f → res f e.offset = .ok (a.2.1, a.2.2)) ∧ Aligned res es as
  | _, _ => False

theorem aligned_find (res : Nat → Nat → Except Err (Nat × Bytes)) (b : Bytes) :
    ∀ (ents : List WEntry) (acc : List (Bytes × Nat × Bytes)) (a : Bytes × Nat × Bytes),
      Aligned res ents acc → acc.find? (fun a => a.1 = b) = some a →
      ∃ o, lookupOff ents b = some o ∧ 12 ≤ o ∧ ∀ f, ents.length ≤ f → res f o = .ok (a.2.1, a.2.2) := by
  intro ents
  induction ents with
  | nil =>
    intro acc a hal hf
    cases acc with
    | nil => simp at hf
    | cons _ _ => simp [Aligned] at hal
  | cons e es ih =>
    intro acc a hal hf
    cases acc with
    | nil => simp [Aligned] at hal
    | cons a0 as =>
      obtain ⟨hn, h12, hres, hrest⟩ := hal
      rw [List.find?_cons] at hf
      by_cases hb : a0.1 = b
      · simp only [hb, decide_true] at hf
        cases hf
        refine ⟨e.offset, ?_, h12, ?_⟩
        · unfold lookupOff
          rw [List.find?_cons]
          simp [hn, hb]
        · intro f hf'; exact hres f (by simpa using hf')
      · simp only [hb, decide_false] at hf
        obtain ⟨o, h1, h2, h3⟩ := ih as a hrest hf
        refine ⟨o, ?_, h2, ?_⟩
        · unfold lookupOff at h1 ⊢
          rw [List.find?_cons]
          have : decide (e.name = b) = false := decide_eq_false (by rw [hn]; exact hb)
          rw [this]
          exact h1
        · intro f hf'; exact h3 f (by simp at hf'; omega)

theorem writeRecs_snd_length (deflate : Bytes → Bytes) : ∀ (recs : List Rec) (off : Nat) (ents : List WEntry),
    (writeRecs deflate off ents recs).2.length = ents.length + recs.length := by
  intro recs
  induction recs with
  | nil => intro off ents; simp [writeRecs]
  | cons r rs ih => intro off ents; rw [writeRecs_snd_cons, ih]; simp; omega

theorem resolve_layout (deflate : Bytes → Bytes) (inflate : Bytes → Option (Bytes × Bytes)) (hs : Nat)
    (lookup : Bytes → Except Err Nat) (pack : Bytes) :
    ∀ (recs : List Rec) (off : Nat) (ents : List WEntry) (acc final : List (Bytes × Nat × Bytes)),
      (∀ p ∈ layoutRecs deflate off ents recs, parseAt inflate hs pack p.1 = .ok p.2) →
      Aligned (resolveAt inflate hs lookup pack) ents acc → 12 ≤ off → (∀ e ∈ ents, e.offset < off) →
      resolveRecs acc recs = .ok final →
      Aligned (resolveAt inflate hs lookup pack) (writeRecs deflate off ents recs).2 final := by
  intro recs
  induction recs with
  | nil =>
    intro off ents acc final _ hal _ _ hres
    simp only [resolveRecs] at hres
    cases hres
    exact hal
  | cons r rs ih =>
    intro off ents acc final hparse hal h12 hinv hres
    have hhead : parseAt inflate hs pack off = .ok (entryOf off ents r) :=
      hparse (off, entryOf off ents r) (by simp [layoutRecs])
    have htail : ∀ p ∈ layoutRecs deflate (off + (entryBytes deflate off ents r).length)
        (⟨r.name, off, entryBytes deflate off ents r⟩ :: ents) rs, parseAt inflate hs pack p.1 = .ok p.2 :=
      fun p hp => hparse p (by simp only [layoutRecs, List.mem_cons]; exact Or.inr hp)
    have hinv' : ∀ e ∈ (⟨r.name, off, entryBytes deflate off ents r⟩ :: ents : List WEntry),
        e.offset < off + (entryBytes deflate off ents r).length := by
      have hlen : 0 < (entryBytes deflate off ents r).length :=
        List.length_pos_iff.mpr (entryBytes_ne_nil deflate off ents r)
      intro e he
      rcases List.mem_cons.mp he with h | h
      · subst h; simp only; omega
      · have := hinv e h; omega
    have h12n : ¬ off < Gen.Pack.packHeaderSize := by simp only [Gen.Pack.packHeaderSize]; omega
    rw [writeRecs_snd_cons]
    simp only [resolveRecs] at hres
    cases hb : r.base with
    | none =>
      rw [hb] at hres
      simp only at hres
      apply ih _ _ _ final htail _ (by omega) hinv' hres
      refine ⟨rfl, h12, ?_, hal⟩
      intro f hf
      cases f with
      | zero => omega
      | succ f =>
        simp only [resolveAt, h12n, if_false, hhead, entryOf, hb]
    | some bname =>
      rw [hb] at hres
      simp only at hres
      cases hfind : acc.find? (fun a => a.1 = bname) with
      | none => rw [hfind] at hres; cases hres
      | some a =>
        rw [hfind] at hres
        simp only at hres
        cases hap : Delta.applyDelta a.2.2 r.data with
        | error x => rw [hap] at hres; cases hres
        | ok out =>
          rw [hap] at hres
          simp only at hres
          obtain ⟨o, hlo, ho12, hor⟩ := aligned_find _ bname ents acc a hal hfind
          have holt := lookupOff_lt hinv hlo
          apply ih _ _ _ final htail _ (by omega) hinv' hres
          refine ⟨rfl, h12, ?_, hal⟩
          intro f hf
          cases f with
          | zero => omega
          | succ f =>
            have hd : ¬ (off - o > off) := by omega
            have hoo : off - (off - o) = o := by omega
            simp only [resolveAt, h12n, if_false, hhead, entryOf, hb, hlo, hd, hoo,
              hor f (by simp at hf; omega), hap]

theorem aligned_forall₂ (res : Nat → Nat → Except Err (Nat × Bytes)) (N : Nat) :
    ∀ (ents : List WEntry) (acc : List (Bytes × Nat × Bytes)), Aligned res ents acc → ents.length ≤ N →
      List.Forall₂ (fun e a => e.name = a.1 ∧ res N e.offset = .ok (a.2.1, a.2.2)) ents acc := by
  intro ents
  induction ents with
  | nil => intro acc h _; cases acc with | nil => exact .nil | cons _ _ => simp [Aligned] at h
  | cons e es ih =>
    intro acc h hN
    cases acc with
    | nil => simp [Aligned] at h
    | cons a as =>
      obtain ⟨h1, _, h3, h4⟩ := h
      exact .cons ⟨h1, h3 N (by simpa using hN)⟩ (ih as h4 (by simp at hN; omega))

/-! ### walking a zlib stream in slices -/

theorem take_min_length (l : Bytes) (k : Nat) : l.take (min k l.length) = l.take k := by
  by_cases h : k ≤ l.length
  · rw [Nat.min_eq_left h]
  · rw [Nat.min_eq_right (by omega), List.take_length, List.take_of_length_le (by omega)]

theorem take_split (buf : Bytes) (pos n : Nat) :
    buf.take pos ++ (buf.drop pos).take n = buf.take (pos + n) := by
  rw [List.take_add]

theorem zlibWalkAt_spec (B L : Nat) (buf : Bytes) (hB : 0 < B) (hL : L < buf.length) :
    ∀ (fuel pos : Nat) (fed : Bytes), pos ≤ L → L + 1 - pos ≤ fuel → fed = buf.take pos →
      zlibWalkAt 1 B L buf fuel pos fed = some (buf.take L, L) := by
  intro fuel
  induction fuel with
  | zero => intro pos fed h1 h2 _; omega
  | succ fuel ih =>
    intro pos fed hpos hfuel hfed
    have hlen : (slice buf pos B).length = min B (buf.length - pos) := by simp [slice]
    have hne : (slice buf pos B).isEmpty = false := by
      cases h : slice buf pos B with
      | nil => rw [h] at hlen; simp at hlen; omega
      | cons _ _ => rfl
    simp only [zlibWalkAt, hne, Bool.false_eq_true, if_false, if_true]
    by_cases hdone : 0 < pos + (slice buf pos B).length - L
    · simp only [hdone, decide_true, if_true]
      have hleft : ¬ (pos + (slice buf pos B).length - L = 0) := by omega
      simp only [pyDropLast, hleft, if_false]
      have e1 : (slice buf pos B).length - (pos + (slice buf pos B).length - L) = L - pos := by omega
      have e2 : pos + (slice buf pos B).length - (pos + (slice buf pos B).length - L) = L := by omega
      rw [e1, e2, hfed]
      have : (slice buf pos B).take (L - pos) = (buf.drop pos).take (L - pos) := by
        simp only [slice, List.take_take]
        congr 1
        omega
      rw [this, take_split, show pos + (L - pos) = L by omega]
    · simp only [hdone, decide_false, Bool.false_eq_true, if_false]
      apply ih (pos + (slice buf pos B).length) _ (by omega) (by omega)
      rw [hfed]
      have hfull : slice buf pos B = (buf.drop pos).take (slice buf pos B).length := by
        rw [hlen]
        have : buf.length - pos = (buf.drop pos).length := by simp
        rw [this, take_min_length]
        rfl
      conv => lhs; rw [hfull]
      rw [take_split]

theorem zlibWalkStream_spec (L : Nat) : ∀ (chunks : List Bytes) (cum : Nat) (fed : Bytes),
    (∀ c ∈ chunks, c ≠ []) → fed.length = cum → cum ≤ L → L < (fed ++ chunks.flatten).length →
    ∃ u tail, zlibWalkStream L chunks cum fed = some ((fed ++ chunks.flatten).take L, u) ∧
      fed ++ chunks.flatten = (fed ++ chunks.flatten).take L ++ u ++ tail ∧ u ≠ [] := by
  intro chunks
  induction chunks with
  | nil => intro cum fed _ hf hc hl; simp at hl; omega
  | cons add rest ih =>
    intro cum fed hne hf hc hl
    have hadd : add ≠ [] := hne add List.mem_cons_self
    have hae : add.isEmpty = false := by cases add with | nil => exact absurd rfl hadd | cons _ _ => rfl
    simp only [zlibWalkStream, hae, Bool.false_eq_true, if_false]
    by_cases hdone : 0 < cum + add.length - L
    · simp only [hdone, if_true]
      have hleft : ¬ (cum + add.length - L = 0) := by omega
      simp only [pyDropLast, pyTakeLast, hleft, if_false]
      have e1 : add.length - (cum + add.length - L) = L - cum := by omega
      rw [e1]
      have htake : (fed ++ (add :: rest).flatten).take L = fed ++ add.take (L - cum) := by
        simp only [List.flatten_cons]
        rw [List.take_append, hf, List.take_of_length_le (by omega), List.take_append_of_le_length (by omega)]
      refine ⟨add.drop (L - cum), rest.flatten, by rw [htake], ?_, ?_⟩
      · rw [htake]
        simp only [List.flatten_cons, List.append_assoc]
        rw [← List.append_assoc (add.take _), List.take_append_drop]
      · intro h
        have := congrArg List.length h
        simp at this
        omega
    · simp only [hdone, if_false]
      have := ih (cum + add.length) (fed ++ add) (fun c hc' => hne c (List.mem_cons_of_mem _ hc'))
        (by simp [hf]) (by omega) (by simpa [List.append_assoc] using hl)
      simpa [List.append_assoc] using this

end Dulwich.Pack
