/- Helper lemmas for the pack entry codecs and trailer tracking (C02).  Property theorems live in Props/C02.lean. -/
import DulwichModel.Model.Pack
import DulwichModel.Lemmas.Delta
import Mathlib.Tactic.Ring

namespace Dulwich.Pack
open Dulwich Dulwich.Delta

/-! ### type/size header -/

theorem takeMsb_encVarTail (n : Nat) : ∀ (c : Nat) (rest : Bytes), c < 128 →
    takeMsb (encVarTail c n ++ rest) = some (encVarTail c n, rest) := by
  induction n using Nat.strongRecOn with
  | _ n ih =>
    intro c rest hc
    rw [encVarTail]
    split
    · have h1 : (UInt8.ofNat c).toNat = c := u8_toNat_ofNat (by omega)
      simp [takeMsb, h1, Gen.Pack.msbBit, hc]
    · rename_i hn
      have h1 : (UInt8.ofNat (c + Gen.Pack.hdrContBit)).toNat = c + 128 :=
        u8_toNat_ofNat (by simp only [Gen.Pack.hdrContBit]; omega)
      have h2 : ¬ (c + 128 < Gen.Pack.msbBit) := by simp only [Gen.Pack.msbBit]; omega
      simp only [List.cons_append, takeMsb, h1, h2, if_false]
      rw [ih (n / 2 ^ Gen.Pack.hdrGroupShift) (by simp only [Gen.Pack.hdrGroupShift]; omega) _ rest
        (by simp only [Gen.Pack.hdrGroupMask]; omega)]

theorem sizeTail_encVarTail (n : Nat) : ∀ (c s : Nat), c < 128 →
    sizeTail s (encVarTail c n) = (c + 128 * n) * 2 ^ s := by
  induction n using Nat.strongRecOn with
  | _ n ih =>
    intro c s hc
    rw [encVarTail]
    split
    · rename_i hn
      have h1 : (UInt8.ofNat c).toNat = c := u8_toNat_ofNat (by omega)
      subst hn
      simp [sizeTail, h1, Gen.Pack.dhGroupMask, Nat.mod_eq_of_lt hc]
    · rename_i hn
      have h1 : (UInt8.ofNat (c + Gen.Pack.hdrContBit)).toNat = c + 128 :=
        u8_toNat_ofNat (by simp only [Gen.Pack.hdrContBit]; omega)
      simp only [sizeTail, h1]
      rw [ih (n / 2 ^ Gen.Pack.hdrGroupShift) (by simp only [Gen.Pack.hdrGroupShift]; omega) _ _
        (by simp only [Gen.Pack.hdrGroupMask]; omega)]
      simp only [Gen.Pack.dhGroupMask, Gen.Pack.hdrGroupMask, Gen.Pack.hdrGroupShift, Gen.Pack.dhGroupShift]
      have e1 : (c + 128) % (127 + 1) = c := by omega
      rw [e1]
      have hn' : n = 128 * (n / 128) + n % 128 := (Nat.div_add_mod n 128).symm
      have e2 : n % (127 + 1) = n % 128 := rfl
      have e3 : n / 2 ^ 7 = n / 128 := rfl
      rw [e2, e3]
      generalize n / 128 = q at *
      generalize n % 128 = r at *
      subst hn'
      rw [Nat.pow_add]
      ring

/-! ### OFS distance code -/

theorem takeMsb_encodeOfsAux (m : Nat) : ∀ (acc rest : Bytes),
    takeMsb (acc ++ rest) = some (acc, rest) →
    takeMsb (encodeOfsAux m acc ++ rest) = some (encodeOfsAux m acc, rest) := by
  induction m using Nat.strongRecOn with
  | _ m ih =>
    intro acc rest h
    rw [encodeOfsAux]
    split
    · exact h
    · rename_i hm
      apply ih ((m - Gen.Pack.ofsBias) / 2 ^ Gen.Pack.ofsGroupShift)
        (by simp only [Gen.Pack.ofsBias, Gen.Pack.ofsGroupShift]; omega)
      have h1 : (UInt8.ofNat (Gen.Pack.ofsContBit + (m - Gen.Pack.ofsBias) % (Gen.Pack.ofsGroupMask + 1))).toNat
          = 128 + (m - 1) % 128 := u8_toNat_ofNat (by simp only [Gen.Pack.ofsContBit, Gen.Pack.ofsGroupMask]; omega)
      have h2 : ¬ (128 + (m - 1) % 128 < Gen.Pack.msbBit) := by simp only [Gen.Pack.msbBit]; omega
      simp only [List.cons_append, takeMsb, h1, h2, if_false, h]

theorem decodeOfsAux_encodeOfsAux (m : Nat) : ∀ (b : UInt8) (acc : Bytes), 0 < m →
    ∃ b' r', encodeOfsAux m (b :: acc) = b' :: r' ∧
      decodeOfsAux (b'.toNat % 128) r' = decodeOfsAux (m - 1) (b :: acc) := by
  induction m using Nat.strongRecOn with
  | _ m ih =>
    intro b acc hm
    rw [encodeOfsAux]
    have hm0 : ¬ m = 0 := by omega
    simp only [hm0, if_false]
    have hB : (UInt8.ofNat (Gen.Pack.ofsContBit + (m - Gen.Pack.ofsBias) % (Gen.Pack.ofsGroupMask + 1))).toNat
        = 128 + (m - 1) % 128 := u8_toNat_ofNat (by simp only [Gen.Pack.ofsContBit, Gen.Pack.ofsGroupMask]; omega)
    have hq : (m - Gen.Pack.ofsBias) / 2 ^ Gen.Pack.ofsGroupShift = (m - 1) / 128 := rfl
    rw [hq]
    by_cases hq0 : (m - 1) / 128 = 0
    · rw [hq0, encodeOfsAux]
      simp only [if_true]
      refine ⟨_, _, rfl, ?_⟩
      rw [hB]
      have : (128 + (m - 1) % 128) % 128 = m - 1 := by omega
      rw [this]
    · obtain ⟨b', r', he, hd⟩ := ih ((m - 1) / 128) (by omega)
        (UInt8.ofNat (Gen.Pack.ofsContBit + (m - Gen.Pack.ofsBias) % (Gen.Pack.ofsGroupMask + 1))) (b :: acc) (by omega)
      refine ⟨b', r', he, ?_⟩
      rw [hd]
      conv => lhs; rw [decodeOfsAux]
      rw [hB]
      have e : ((m - 1) / 128 - 1 + Gen.Pack.doBias) * 2 ^ Gen.Pack.doGroupShift
          + (128 + (m - 1) % 128) % (Gen.Pack.doGroupMask + 1) = m - 1 := by
        simp only [Gen.Pack.doBias, Gen.Pack.doGroupShift, Gen.Pack.doGroupMask]
        omega
      rw [e]

theorem lastHasMsb_encodeOfsAux (m : Nat) : ∀ (acc : Bytes), acc ≠ [] →
    lastHasMsb (encodeOfsAux m acc) = lastHasMsb acc := by
  induction m using Nat.strongRecOn with
  | _ m ih =>
    intro acc hacc
    rw [encodeOfsAux]
    split
    · rfl
    · rw [ih _ (by simp only [Gen.Pack.ofsBias, Gen.Pack.ofsGroupShift]; omega) _ (by simp)]
      cases acc with
      | nil => exact absurd rfl hacc
      | cons a r => simp [lastHasMsb]

/-! ### trailer tracking -/

theorem feed_invariant (hs : Nat) (hhs : 0 < hs) (s : TrailerState) (P data : Bytes)
    (h1 : s.hashed ++ s.trailer = P) (h2 : s.trailer.length = min hs P.length) :
    (feed hs s data).hashed ++ (feed hs s data).trailer = P ++ data ∧
    (feed hs s data).trailer.length = min hs (P ++ data).length := by
  have hP : P.length = s.hashed.length + s.trailer.length := by rw [← h1]; simp
  unfold feed
  simp only
  by_cases hn : data.length ≥ hs
  · simp only [hn, if_true, pyDropLast, pyTakeLast, show ¬ hs = 0 by omega, if_false]
    refine ⟨?_, ?_⟩
    · simp only [List.take_length, List.drop_length, List.nil_append, List.append_assoc]
      rw [List.take_append_drop, ← List.append_assoc, h1]
    · simp only [List.drop_length, List.nil_append, List.length_drop, List.length_append]
      omega
  · simp only [hn, if_false]
    by_cases hd : data.length = 0
    · have : data = [] := List.eq_nil_of_length_eq_zero hd
      subst this
      simp [pyDropLast, pyTakeLast, h1, h2]
    · simp only [pyDropLast, pyTakeLast, hd, if_false, Nat.sub_self, List.take_zero, List.drop_zero,
        List.append_nil]
      refine ⟨?_, ?_⟩
      · rw [List.append_assoc, ← List.append_assoc (s.trailer.take _), List.take_append_drop,
          ← List.append_assoc, h1]
      · simp only [List.length_append, List.length_drop]
        omega

end Dulwich.Pack
