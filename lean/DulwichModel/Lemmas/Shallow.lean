/-
  Helper lemmas for the shallow-boundary models (C05).  Core Lean only.
-/
import DulwichModel.Model.Shallow
import DulwichModel.Lemmas.Missing

namespace Dulwich.Shallow
open Dulwich Dulwich.Graph Dulwich.Missing

theorem shallowLines_append (a b : List ReqLine) : shallowLines (a ++ b) = shallowLines a ++ shallowLines b := by
  simp [shallowLines, List.filterMap_append]

theorem shallowLines_want (l : List Id) : shallowLines (l.map ReqLine.want) = [] := by
  induction l with
  | nil => rfl
  | cons x xs ih => simp [shallowLines] at ih ⊢

theorem shallowLines_shallow (l : List Id) : shallowLines (l.map ReqLine.shallow) = l := by
  induction l with
  | nil => rfl
  | cons x xs ih => simpa [shallowLines] using ih

theorem peelCommit_sound (s : Store) :
    ∀ (fuel : Nat) (x c : Id), peelCommit s fuel x = .ok (some c) → Reach s [x] c
  | 0, x, c, h => by simp [peelCommit] at h
  | fuel + 1, x, c, h => by
    unfold peelCommit at h
    split at h
    · cases h
    · cases h; exact .root (by simp)
    · rename_i t hs
      exact Reach.of_single (.step (.root (by simp)) hs (by simp [children])) (peelCommit_sound s fuel t c h)
    · cases h

theorem peelHeads_sound (s : Store) (fuel : Nat) :
    ∀ (heads : List Id) (l : List (Id × Nat)), peelHeads s fuel heads = .ok l → ∀ e ∈ l, Reach s heads e.1
  | [], l, h => by simp [peelHeads] at h; cases h; simp
  | x :: rest, l, h => by
    unfold peelHeads at h
    split at h
    · cases h
    · rename_i c hc
      split at h
      · cases h
      · rename_i l' hl'
        cases h
        intro e he
        simp only [List.mem_append] at he
        rcases he with he | he
        · cases c with
          | none => simp at he
          | some c =>
            simp at he; subst he
            exact Reach.mono (by intro y hy; simp at hy; subst hy; simp) (peelCommit_sound s fuel x c hc)
        · exact Reach.mono (by intro y hy; simp [hy]) (peelHeads_sound s fuel rest l' hl' e he)

/-- Everything `find_shallow` classifies satisfies any predicate that holds on the start states and
is closed under commit → parent. -/
theorem walk_sound (s : Store) (depth : Nat) (P : Id → Prop)
    (hP : ∀ y t ps x, P y → s y = some (.commit t ps) → x ∈ ps → P x) :
    ∀ (fuel : Nat) (todo seen : List (Id × Nat)) (sh ns : List Id) (r : List Id × List Id),
      walk s depth fuel todo seen sh ns = .ok r → (∀ e ∈ todo, P e.1) → (∀ x ∈ sh, P x) → (∀ x ∈ ns, P x) →
      (∀ x ∈ r.1, P x) ∧ (∀ x ∈ r.2, P x)
  | fuel, [], seen, sh, ns, r, h, _, hsh, hns => by
    cases fuel <;> (simp [walk] at h; cases h; exact ⟨hsh, hns⟩)
  | 0, _ :: _, seen, sh, ns, r, h, _, _, _ => by simp [walk] at h
  | fuel + 1, (x, d) :: todo, seen, sh, ns, r, h, ht, hsh, hns => by
    have hx : P x := ht (x, d) (by simp)
    have ht' : ∀ e ∈ todo, P e.1 := fun e he => ht e (by simp [he])
    unfold walk at h
    split at h
    · exact walk_sound s depth P hP fuel todo seen sh ns r h ht' hsh hns
    · split at h
      · split at h
        · cases h
        · rename_i t ps hs
          refine walk_sound s depth P hP fuel _ _ sh (x :: ns) r h ?_ hsh ?_
          · intro e he
            simp only [List.mem_append, List.mem_map] at he
            rcases he with ⟨p, hp, rfl⟩ | he
            · exact hP x t ps p hx hs hp
            · exact ht' e he
          · intro y hy; simp at hy; rcases hy with rfl | hy; exact hx; exact hns y hy
        · cases h
      · refine walk_sound s depth P hP fuel todo _ (x :: sh) ns r h ht' ?_ hns
        intro y hy; simp at hy; rcases hy with rfl | hy; exact hx; exact hsh y hy

theorem findShallow_sound (s : Store) (fuel : Nat) (heads : List Id) (depth : Nat) (r : List Id × List Id)
    (h : findShallow s fuel heads depth = .ok r) :
    (∀ x ∈ r.1, Reach s heads x) ∧ (∀ x ∈ r.2, Reach s heads x) := by
  unfold findShallow at h
  split at h
  · cases h
  · rename_i todo htodo
    exact walk_sound s depth (Reach s heads) (fun y t ps x hy hs hx => .step hy hs (by simp [children, hx]))
      fuel todo [] [] [] r h (peelHeads_sound s fuel heads todo htodo) (by simp) (by simp)

end Dulwich.Shallow
