/- Helper lemmas for the work-tree model (C18).  Property theorems live in Props/C18.lean. -/
import DulwichModel.Model.WorkTree
set_option linter.unusedSimpArgs false

namespace Dulwich.WorkTree
open Dulwich

namespace FMap
variable {α : Type}

@[simp] theorem get_nil (p : Path) : get ([] : FMap α) p = none := rfl

theorem get_cons (k : Path) (v : α) (r : FMap α) (p : Path) :
    get ((k, v) :: r) p = if k = p then some v else get r p := rfl

theorem get_filter_key (m : FMap α) (f : Path → Bool) (p : Path) :
    get (m.filter (fun kv => f kv.1)) p = if f p then m.get p else none := by
  induction m with
  | nil => simp
  | cons kv r ih =>
    obtain ⟨k, v⟩ := kv
    rw [List.filter_cons]
    by_cases hk : k = p
    · subst hk
      by_cases hf : f k <;> simp [hf, get_cons, ih]
    · by_cases hf : f k <;> simp [hf, get_cons, hk, ih]

theorem get_erase_same (m : FMap α) (p : Path) : (erase m p).get p = none := by
  unfold erase; rw [get_filter_key m (fun k => decide (k ≠ p)) p]; simp

theorem get_erase_ne (m : FMap α) {p q : Path} (hq : q ≠ p) : (erase m p).get q = m.get q := by
  unfold erase; rw [get_filter_key m (fun k => decide (k ≠ p)) q]; simp [hq]

theorem get_put_same (m : FMap α) (p : Path) (v : α) : (put m p v).get p = some v := by
  simp [put, get_cons]

theorem get_put_ne (m : FMap α) {p q : Path} (v : α) (hq : q ≠ p) : (put m p v).get q = m.get q := by
  have : ¬ p = q := fun e => hq e.symm
  simp [put, get_cons, this, get_erase_ne m hq]

theorem get_put (m : FMap α) (p q : Path) (v : α) :
    (put m p v).get q = if q = p then some v else m.get q := by
  by_cases h : q = p
  · subst h; simp [get_put_same]
  · simp [h, get_put_ne m v h]

theorem mem_keys_iff (m : FMap α) (p : Path) : p ∈ keys m ↔ (m.get p).isSome = true := by
  induction m with
  | nil => simp [keys]
  | cons kv r ih =>
    obtain ⟨k, v⟩ := kv
    simp only [keys, List.map_cons, List.mem_cons, get_cons] at ih ⊢
    by_cases hk : k = p
    · simp [hk]
    · have : ¬ p = k := fun e => hk e.symm
      simp [hk, this, ih]

theorem mem_keys_of_get {m : FMap α} {p : Path} {v : α} (h : m.get p = some v) : p ∈ keys m := by
  rw [mem_keys_iff, h]; rfl

theorem get_of_mem_keys {m : FMap α} {p : Path} (h : p ∈ keys m) : ∃ v, m.get p = some v := by
  rw [mem_keys_iff] at h
  exact Option.isSome_iff_exists.mp h

theorem has_iff (m : FMap α) (p : Path) : m.has p = true ↔ p ∈ keys m := by
  rw [mem_keys_iff]; rfl

theorem get_mapVal {β : Type} (m : FMap α) (f : Path → α → β) (p : Path) :
    get (m.map (fun kv => (kv.1, f kv.1 kv.2))) p = (m.get p).map (f p) := by
  induction m with
  | nil => simp
  | cons kv r ih =>
    obtain ⟨k, v⟩ := kv
    simp only [List.map_cons, get_cons]
    by_cases hk : k = p
    · subst hk; simp
    · simp [hk, ih]

theorem keys_mapVal {β : Type} (m : FMap α) (f : Path → α → β) :
    keys (m.map (fun kv => (kv.1, f kv.1 kv.2))) = keys m := by
  simp [keys, List.map_map, Function.comp_def]

end FMap

instance {ε α : Type} [DecidableEq ε] [DecidableEq α] : DecidableEq (Except ε α) := fun a b =>
  match a, b with
  | .ok x, .ok y => if h : x = y then isTrue (by rw [h]) else isFalse (fun e => by cases e; exact h rfl)
  | .error x, .error y => if h : x = y then isTrue (by rw [h]) else isFalse (fun e => by cases e; exact h rfl)
  | .ok _, .error _ => isFalse (fun e => by cases e)
  | .error _, .ok _ => isFalse (fun e => by cases e)

/-! ### hypotheses of the exactness theorem, as decidable checks -/

/-- No tracked path lies below a file (or a link leading to a file): `os.lstat` cannot raise
`NotADirectoryError`. -/
def NoTrackedBelowFile (w : World) : Prop := w.index.keys.all (fun p => !blockedByFile w.wd p) = true

/-- Every path of HEAD and of the index is valid UTF-8 (`tree_path_to_fs_path` can decode it). -/
def TrackedUtf8 (w : World) : Prop := (w.head.keys ++ w.index.keys).all validUtf8 = true

/-- The racy-git assumption: a file whose stat key matches the cached one has the cached content. -/
def StatHonest (w : World) : Prop :=
  w.index.keys.all (fun p =>
    match w.index.get p, lstatView w.wd p with
    | some e, .file f => !statMatches f.stat e.stat || f.cid == e.cid
    | _, _ => true) = true

/-- No tracked path differs from its index entry in kind alone (mode-only change, or a type change
that keeps the blob): forced by `_check_entry_for_changes` comparing only blob ids. -/
def KindFollowsContent (w : World) : Prop :=
  w.index.keys.all (fun p =>
    match w.index.get p, lstatView w.wd p with
    | some e, .file f => !(f.cid == e.cid) || decide (f.kind = e.kind)
    | _, _ => true) = true

/-- Looking a walked file up in the index by its *resolved* path gives the same answer as looking it
up by its own path, and no link leads to a directory unless it is tracked: forced by
`path_to_tree_path` resolving links and `os.walk` classifying links to directories as directories. -/
def LinkLookupHarmless (w : World) : Prop :=
  w.wd.keys.all (fun p =>
    match lstatView w.wd p with
    | .file f => (walkedAsFile f && !w.index.has (aliasOf p f)) == !w.index.has p
    | _ => true) = true

instance (w : World) : Decidable (NoTrackedBelowFile w) := by unfold NoTrackedBelowFile; infer_instance
instance (w : World) : Decidable (TrackedUtf8 w) := by unfold TrackedUtf8; infer_instance
instance (w : World) : Decidable (StatHonest w) := by unfold StatHonest; infer_instance
instance (w : World) : Decidable (KindFollowsContent w) := by unfold KindFollowsContent; infer_instance
instance (w : World) : Decidable (LinkLookupHarmless w) := by unfold LinkLookupHarmless; infer_instance

/-! ### status -/

theorem cur_flags : cur = ⟨true, true, true, true, true, false, false, false, true,
    Gen.WorkTree.absentDropsIndex, Gen.WorkTree.forceUsesIndex⟩ := rfl

theorem statMatches_self (s : StatKey) : statMatches s s = true := by
  simp [statMatches, statMatchesWith]

theorem entryDiffers_iff (h : Entry) (i : IEntry) : entryDiffers h i = true ↔ h ≠ i.entry := by
  have e1 : Gen.WorkTree.stagedCmpSha = true := rfl
  have e2 : Gen.WorkTree.stagedCmpMode = true := rfl
  obtain ⟨hk, hc⟩ := h
  obtain ⟨ik, ic, is⟩ := i
  simp only [entryDiffers, e1, e2, Bool.true_and, IEntry.entry, ne_eq, Entry.mk.injEq, Bool.or_eq_true,
    bne_iff_ne, decide_eq_true_eq]
  constructor
  · rintro (h | h) <;> intro ⟨a, b⟩ <;> contradiction
  · intro h
    by_cases hc' : hc = ic
    · right; intro hk'; exact h ⟨hk', hc'⟩
    · left; exact hc'

theorem wdEntry_file {wd : FMap WFile} {p : Path} {f : WFile} (h : lstatView wd p = .file f) :
    wdEntry wd p = some f.entry := by simp [wdEntry, h]

theorem wdEntry_isSome_iff (wd : FMap WFile) (p : Path) :
    (wdEntry wd p).isSome = true ↔ ∃ f, lstatView wd p = .file f := by
  unfold wdEntry
  cases h : lstatView wd p <;> simp

theorem lstatView_file_get {wd : FMap WFile} {p : Path} {f : WFile} (h : lstatView wd p = .file f) :
    wd.get p = some f := by
  unfold lstatView at h
  split at h
  · cases h
  · split at h
    · cases h
    · split at h
      · rename_i g hg; cases h; exact hg
      · split at h <;> cases h

/-- Under the racy-git hypothesis about the file at `p`, `_check_entry_for_changes` answers exactly
"the working directory's entry differs from the index entry". -/
theorem entryChanged_iff {wd : FMap WFile} {p : Path} {e : IEntry}
    (hstat : ∀ f, lstatView wd p = .file f → statMatches f.stat e.stat = true → f.cid = e.cid) :
    entryChanged cur wd p e = true ↔ wdEntry wd p ≠ some e.entry := by
  unfold entryChanged wdEntry
  rw [cur_flags]
  cases hv : lstatView wd p with
  | enoent => simp
  | enotdir => simp
  | dir => simp
  | file f =>
    simp only [contentDiffers, Bool.true_and, ne_eq, Option.some.injEq]
    have hent : f.entry = e.entry ↔ (f.kind = e.kind ∧ f.cid = e.cid) := by
      simp [WFile.entry, IEntry.entry]
    by_cases hk : f.kind = e.kind
    · by_cases hm : statMatches f.stat e.stat = true
      · have hc := hstat f hv hm
        simp [hm, hent, hc, hk]
      · by_cases hc : f.cid = e.cid
        · simp [hm, hent, hc, hk]
        · simp [hm, hent, hc, hk]
    · simp [hent, hk]

theorem lstatRaisesNotDir_cur (wd : FMap WFile) (p : Path) : lstatRaisesNotDir cur wd p = false := by
  simp [lstatRaisesNotDir, cur_flags]

theorem unstagedOf_cur (wd : FMap WFile) (index : FMap IEntry) :
    unstagedOf cur wd index = .ok (index.keys.filter (changedAt cur wd index)) := by
  unfold unstagedOf
  have : index.keys.any (lstatRaisesNotDir cur wd) = false := by
    rw [List.any_eq_false]; intro p _; simp [lstatRaisesNotDir_cur]
  simp [this]

theorem untrackedAt_cur (wd : FMap WFile) (index : FMap IEntry) (p : Path) :
    untrackedAt cur wd index p = match lstatView wd p with
      | .file _ => !index.has p
      | _ => false := by
  unfold untrackedAt
  rw [cur_flags]
  cases lstatView wd p <;> simp

theorem all_get {α : Type} {m : FMap α} {P : Path → Bool} (h : m.keys.all P = true) {p : Path} {v : α}
    (hp : m.get p = some v) : P p = true :=
  (List.all_eq_true.mp h) p (FMap.mem_keys_of_get hp)

/-! ### fresh checkout -/

/-- A flattened tree is well formed when no path lies below another path (a tree object cannot have
a blob and a subtree of the same name). -/
def TreeWF (t : FMap Entry) : Prop := t.keys.all (fun p => !hasFileAncestor t p) = true

instance (t : FMap Entry) : Decidable (TreeWF t) := by unfold TreeWF; infer_instance

theorem checkoutFiles_get (t : FMap Entry) (obs : Obs) (hall : t.keys.all obs.has = true) (p : Path) :
    (checkoutFiles t obs).get p =
      (t.get p).bind (fun e => (obs.get p).map (fun o => (⟨e.kind, e.cid, o.1, o.2⟩ : WFile))) := by
  induction t with
  | nil => simp [checkoutFiles]
  | cons kv r ih =>
    obtain ⟨k, e⟩ := kv
    simp only [FMap.keys, List.map_cons, List.all_cons, Bool.and_eq_true] at hall
    obtain ⟨hk, hr⟩ := hall
    obtain ⟨o, ho⟩ := Option.isSome_iff_exists.mp hk
    have ih' := ih hr
    simp only [checkoutFiles] at ih' ⊢
    rw [List.filterMap_cons]
    simp only [ho, Option.map_some, FMap.get_cons]
    by_cases hkp : k = p
    · subst hkp; simp [ho]
    · simp [hkp, ih']

theorem checkoutFiles_keys (t : FMap Entry) (obs : Obs) (hall : t.keys.all obs.has = true) :
    (checkoutFiles t obs).keys = t.keys := by
  induction t with
  | nil => simp [checkoutFiles, FMap.keys]
  | cons kv r ih =>
    obtain ⟨k, e⟩ := kv
    simp only [FMap.keys, List.map_cons, List.all_cons, Bool.and_eq_true] at hall
    obtain ⟨hk, hr⟩ := hall
    obtain ⟨o, ho⟩ := Option.isSome_iff_exists.mp hk
    have ih' := ih hr
    simp only [checkoutFiles, FMap.keys] at ih' ⊢
    rw [List.filterMap_cons]
    simp [ho, ih']

theorem blocked_imp_anc {wd : FMap WFile} {p : Path} (h : hasFileAncestor wd p = false) :
    blockedByFile wd p = false := by
  unfold blockedByFile
  unfold hasFileAncestor at h
  rw [List.any_eq_false] at h ⊢
  intro k hk
  have := h k hk
  simp at this
  simp [this]

theorem lstatView_noAnc_some {wd : FMap WFile} {p : Path} {f : WFile}
    (h : hasFileAncestor wd p = false) (hg : wd.get p = some f) : lstatView wd p = .file f := by
  unfold lstatView
  simp [blocked_imp_anc h, h, hg]

theorem lstatView_noAnc_none {wd : FMap WFile} {p : Path}
    (h : hasFileAncestor wd p = false) (hg : wd.get p = none) :
    lstatView wd p = if hasDescendant wd p then .dir else .enoent := by
  unfold lstatView
  simp [blocked_imp_anc h, h, hg]

theorem hasFileAncestor_keys {α β : Type} {m : FMap α} {m' : FMap β} (h : m.keys = m'.keys) (p : Path) :
    hasFileAncestor m p = hasFileAncestor m' p := by
  unfold hasFileAncestor; rw [h]

/-- In a freshly checked-out work tree every tree path is seen as the file checkout wrote. -/
theorem checkedOut_view {t : FMap Entry} {obs : Obs} (hall : t.keys.all obs.has = true) (hwf : TreeWF t)
    {p : Path} (hp : p ∈ t.keys) :
    ∃ e o, t.get p = some e ∧ obs.get p = some o ∧
      lstatView (checkoutFiles t obs) p = .file ⟨e.kind, e.cid, o.1, o.2⟩ ∧
      (checkoutFiles t obs).get p = some ⟨e.kind, e.cid, o.1, o.2⟩ := by
  obtain ⟨e, he⟩ := FMap.get_of_mem_keys hp
  have hob := (List.all_eq_true.mp hall) p hp
  obtain ⟨o, ho⟩ := Option.isSome_iff_exists.mp hob
  have hg : (checkoutFiles t obs).get p = some ⟨e.kind, e.cid, o.1, o.2⟩ := by
    rw [checkoutFiles_get t obs hall, he, ho]; rfl
  have hanc : hasFileAncestor (checkoutFiles t obs) p = false := by
    rw [hasFileAncestor_keys (checkoutFiles_keys t obs hall)]
    have := (List.all_eq_true.mp hwf) p hp
    simpa using this
  exact ⟨e, o, he, ho, lstatView_noAnc_some hanc hg, hg⟩

theorem checkedOut_index_get (t : FMap Entry) (obs : Obs) (p : Path) :
    (checkedOut t obs).index.get p = ((checkoutFiles t obs).get p).map WFile.ientry := by
  simp only [checkedOut]
  exact FMap.get_mapVal (checkoutFiles t obs) (fun _ v => v.ientry) p

theorem checkedOut_index_keys (t : FMap Entry) (obs : Obs) (hall : t.keys.all obs.has = true) :
    (checkedOut t obs).index.keys = t.keys := by
  simp only [checkedOut]
  rw [FMap.keys_mapVal (checkoutFiles t obs) (fun _ v => v.ientry), checkoutFiles_keys t obs hall]

/-- Right after a fresh checkout nothing is staged and nothing is unstaged. -/
theorem checkedOut_nothing_changed {t : FMap Entry} {obs : Obs} (hall : t.keys.all obs.has = true)
    (hwf : TreeWF t) :
    stagedAdd t (checkedOut t obs).index = [] ∧ stagedDel t (checkedOut t obs).index = [] ∧
    stagedMod t (checkedOut t obs).index = [] ∧
    unstagedOf cur (checkedOut t obs).wd (checkedOut t obs).index = .ok [] := by
  have hik := checkedOut_index_keys t obs hall
  refine ⟨?_, ?_, ?_, ?_⟩
  · simp only [stagedAdd, List.filter_eq_nil_iff, hik]
    intro p hp
    simp [(FMap.has_iff t p).mpr hp]
  · simp only [stagedDel, List.filter_eq_nil_iff]
    intro p hp
    have : (checkedOut t obs).index.has p = true := by rw [FMap.has_iff, hik]; exact hp
    simp [this]
  · simp only [stagedMod, List.filter_eq_nil_iff, modifiedAt]
    intro p hp
    obtain ⟨e, o, he, ho, _, hg⟩ := checkedOut_view hall hwf hp
    rw [he, checkedOut_index_get, hg]
    simp only [Option.map_some]
    have : ¬ (entryDiffers e (WFile.ientry ⟨e.kind, e.cid, o.1, o.2⟩) = true) := by
      rw [entryDiffers_iff]; simp [WFile.ientry, IEntry.entry]
    simpa using this
  · rw [unstagedOf_cur]
    congr 1
    rw [List.filter_eq_nil_iff, hik]
    intro p hp
    obtain ⟨e, o, he, ho, hv, hg⟩ := checkedOut_view hall hwf hp
    simp only [changedAt, checkedOut_index_get, hg, Option.map_some]
    simp [entryChanged, checkedOut, hv, WFile.ientry, statMatches_self]

/-! ### staging a list of paths -/

theorem stage_wd (w : World) (p : Path) : (stage w p).wd = w.wd := by
  unfold stage; split <;> rfl

theorem stage_head (w : World) (p : Path) : (stage w p).head = w.head := by
  unfold stage; split <;> rfl

theorem foldl_stage_wd (L : List Path) (w : World) : (L.foldl stage w).wd = w.wd := by
  induction L generalizing w with
  | nil => rfl
  | cons p r ih => simp [List.foldl_cons, ih, stage_wd]

theorem foldl_stage_head (L : List Path) (w : World) : (L.foldl stage w).head = w.head := by
  induction L generalizing w with
  | nil => rfl
  | cons p r ih => simp [List.foldl_cons, ih, stage_head]

/-- Staging paths whose files are already recorded as they are changes no index lookup. -/
theorem foldl_stage_same (L : List Path) (w : World)
    (h : ∀ p ∈ L, ∃ f, lstatView w.wd p = .file f ∧ w.index.get p = some f.ientry) (q : Path) :
    (L.foldl stage w).index.get q = w.index.get q := by
  induction L generalizing w with
  | nil => rfl
  | cons p r ih =>
    obtain ⟨f, hv, hi⟩ := h p List.mem_cons_self
    have hst : stage w p = { w with index := w.index.put p f.ientry } := by
      unfold stage; rw [hv]
    have hget : ∀ q, (stage w p).index.get q = w.index.get q := by
      intro q
      rw [hst]
      simp only [FMap.get_put]
      split
      · rename_i e; rw [e, hi]
      · rfl
    rw [List.foldl_cons, ih (stage w p), hget]
    intro p' hp'
    obtain ⟨f', hv', hi'⟩ := h p' (List.mem_cons_of_mem _ hp')
    exact ⟨f', by rw [stage_wd]; exact hv', by rw [hget]; exact hi'⟩

/-- Staging a list of paths that are all files records exactly those files. -/
theorem foldl_stage_files (L : List Path) (w : World)
    (h : ∀ p ∈ L, ∃ f, lstatView w.wd p = .file f) (q : Path) :
    (L.foldl stage w).index.get q =
      if q ∈ L then (w.wd.get q).map WFile.ientry else w.index.get q := by
  induction L generalizing w with
  | nil => simp
  | cons p r ih =>
    obtain ⟨f, hv⟩ := h p List.mem_cons_self
    have hst : stage w p = { w with index := w.index.put p f.ientry } := by
      unfold stage; rw [hv]
    have hr : ∀ p' ∈ r, ∃ f, lstatView (stage w p).wd p' = .file f := by
      intro p' hp'
      rw [stage_wd]; exact h p' (List.mem_cons_of_mem _ hp')
    rw [List.foldl_cons, ih (stage w p) hr, stage_wd]
    by_cases hqr : q ∈ r
    · simp [hqr]
    · simp only [hqr, if_false, List.mem_cons, or_false]
      rw [hst]
      simp only [FMap.get_put]
      split
      · rename_i e; rw [e, lstatView_file_get hv]; rfl
      · rfl

/-! ## branch switch -/

/-! ### order of changes -/

theorem mem_insertPath (p q : Path) (l : List Path) : q ∈ insertPath p l ↔ q = p ∨ q ∈ l := by
  induction l with
  | nil => simp [insertPath]
  | cons x r ih =>
    unfold insertPath
    split
    · rename_i h; subst h; simp
    · split
      · simp
      · simp only [List.mem_cons, ih]
        constructor
        · rintro (h | h | h)
          · exact Or.inr (Or.inl h)
          · exact Or.inl h
          · exact Or.inr (Or.inr h)
        · rintro (h | h | h)
          · exact Or.inr (Or.inl h)
          · exact Or.inl h
          · exact Or.inr (Or.inr h)

theorem mem_sortPaths (q : Path) (l : List Path) : q ∈ sortPaths l ↔ q ∈ l := by
  induction l with
  | nil => simp [sortPaths]
  | cons x r ih =>
    have : sortPaths (x :: r) = insertPath x (sortPaths r) := rfl
    rw [this, mem_insertPath, ih]; simp

theorem nodup_insertPath {p : Path} {l : List Path} (hp : p ∉ l) (hl : l.Nodup) : (insertPath p l).Nodup := by
  induction l with
  | nil => simp [insertPath]
  | cons x r ih =>
    have hx : p ≠ x := fun e => hp (e ▸ List.mem_cons_self)
    have hr : p ∉ r := fun e => hp (List.mem_cons_of_mem _ e)
    rw [List.nodup_cons] at hl
    unfold insertPath
    simp only [hx, if_false]
    split
    · rw [List.nodup_cons]
      exact ⟨hp, List.nodup_cons.mpr hl⟩
    · rw [List.nodup_cons]
      refine ⟨?_, ih hr hl.2⟩
      rw [mem_insertPath]
      rintro (h | h)
      · exact hx h.symm
      · exact hl.1 h

theorem mem_dedupPaths (q : Path) (l : List Path) : q ∈ dedupPaths l ↔ q ∈ l := by
  induction l with
  | nil => simp [dedupPaths]
  | cons x r ih =>
    unfold dedupPaths
    split
    · rename_i h
      rw [ih]
      constructor
      · exact List.mem_cons_of_mem _
      · intro h'
        rcases List.mem_cons.mp h' with e | e
        · rw [e]; exact h
        · exact e
    · simp [ih]

theorem nodup_dedupPaths (l : List Path) : (dedupPaths l).Nodup := by
  induction l with
  | nil => simp [dedupPaths]
  | cons x r ih =>
    unfold dedupPaths
    split
    · exact ih
    · rename_i h
      rw [List.nodup_cons]
      exact ⟨fun e => h ((mem_dedupPaths x r).mp e), ih⟩

theorem nodup_sortPaths {l : List Path} (h : l.Nodup) : (sortPaths l).Nodup := by
  induction l with
  | nil => simp [sortPaths]
  | cons x r ih =>
    rw [List.nodup_cons] at h
    have : sortPaths (x :: r) = insertPath x (sortPaths r) := rfl
    rw [this]
    exact nodup_insertPath (fun e => h.1 ((mem_sortPaths x r).mp e)) (ih h.2)

theorem mem_changedPathOrder (a b : FMap Entry) (p : Path) :
    p ∈ changedPathOrder a b ↔ p ∈ a.keys ++ b.keys := by
  unfold changedPathOrder; rw [mem_sortPaths, mem_dedupPaths]

theorem nodup_changedPathOrder (a b : FMap Entry) : (changedPathOrder a b).Nodup :=
  nodup_sortPaths (nodup_dedupPaths _)


namespace FMap
variable {α : Type}

theorem mem_keys_erase {m : FMap α} {p k : Path} (h : k ∈ (erase m p).keys) : k ∈ m.keys := by
  simp only [keys, erase, List.mem_map, List.mem_filter] at h ⊢
  obtain ⟨kv, ⟨hkv, _⟩, hk⟩ := h
  exact ⟨kv, hkv, hk⟩

theorem mem_keys_put {m : FMap α} {p k : Path} {v : α} (h : k ∈ (put m p v).keys) : k = p ∨ k ∈ m.keys := by
  simp only [put, keys, List.map_cons, List.mem_cons] at h
  rcases h with h | h
  · exact Or.inl h
  · exact Or.inr (mem_keys_erase h)

end FMap

def fileOf (y : Entry) (o : StatKey × LinkRes) : WFile := ⟨y.kind, y.cid, o.1, o.2⟩

theorem transitionToAbsent_file {s : WT} {p : Path} {f : WFile} (hv : validPath p = true)
    (hview : lstatView s.wd p = .file f) :
    transitionToAbsent cur s p = .ok ⟨s.wd.erase p, s.index.erase p⟩ := by
  unfold transitionToAbsent
  simp [hv, hview]

theorem transitionToFile_absent {obs : Obs} {s : WT} {p : Path} {e : Entry} {o : StatKey × LinkRes}
    (hv : validPath p = true) (hl : hasLinkAncestor s.wd p = false)
    (hview : lstatView s.wd p = .enoent) (ho : obs.get p = some o) :
    transitionToFile obs s p e = .ok ⟨s.wd.put p (fileOf e o), s.index.put p (fileOf e o).ientry⟩ := by
  unfold transitionToFile writeFile
  simp [hv, hl, hview, ho, fileOf, WFile.ientry]

theorem transitionToFile_differs {obs : Obs} {s : WT} {p : Path} {e : Entry} {o : StatKey × LinkRes} {f : WFile}
    (hv : validPath p = true) (hl : hasLinkAncestor s.wd p = false)
    (hview : lstatView s.wd p = .file f) (hne : f.entry ≠ e) (hsame : isLink f.kind = isLink e.kind)
    (ho : obs.get p = some o) :
    transitionToFile obs s p e = .ok ⟨s.wd.put p (fileOf e o), s.index.put p (fileOf e o).ientry⟩ := by
  unfold transitionToFile writeFile
  have hm : (if isLink f.kind = true then f.cid == e.cid else fileMatches f e) = false := by
    obtain ⟨fk, fc, fs, fr⟩ := f
    obtain ⟨ek, ec⟩ := e
    simp only [WFile.entry, ne_eq, Entry.mk.injEq, not_and] at hne
    simp only [fileMatches]
    simp only at hsame
    split
    · rename_i hlk
      have h1 : fk = .symlink := by simpa [isLink] using hlk
      have h2 : ek = .symlink := by rw [hlk] at hsame; simpa [isLink] using hsame.symm
      simpa using hne (h1.trans h2.symm)
    · rename_i hlk
      have h1 : fk ≠ .symlink := by simpa [isLink] using hlk
      have h2 : ek ≠ .symlink := by
        intro e; rw [e] at hsame; simp [isLink] at hsame; exact h1 hsame
      by_cases hk : fk = ek
      · simpa [hk] using hne hk
      · cases fk <;> cases ek <;> simp_all
  simp [hv, hl, hview, ho, hm, fileOf, WFile.ientry]


/-- The file the switch leaves at `p`: nothing if `b` has nothing there, the untouched old file if
the entry is unchanged, otherwise a freshly written file. -/
def targetWd (a b : FMap Entry) (fA : FMap WFile) (obs : Obs) (p : Path) : Option WFile :=
  match b.get p with
  | none => none
  | some y => if a.get p = some y then fA.get p else (obs.get p).map (fileOf y)

theorem applyChanges_one {fl : Flags} {obs : Obs} {s s' : WT} {c : Change} (h : applyChange fl obs s c = .ok s') :
    applyChanges fl obs s [c] = (s', none) := by
  simp [applyChanges, h]

theorem applyChanges_two {fl : Flags} {obs : Obs} {s s' s'' : WT} {c d : Change} (h : applyChange fl obs s c = .ok s')
    (h' : applyChange fl obs s' d = .ok s'') :
    applyChanges fl obs s [c, d] = (s'', none) := by
  simp [applyChanges, h, h']

theorem applyChanges_append (fl : Flags) (obs : Obs) (s : WT) (c1 c2 : List Change) :
    applyChanges fl obs s (c1 ++ c2) =
      match applyChanges fl obs s c1 with
      | (s', none) => applyChanges fl obs s' c2
      | (s', some e) => (s', some e) := by
  induction c1 generalizing s with
  | nil => simp [applyChanges]
  | cons c r ih =>
    simp only [List.cons_append, applyChanges]
    cases h : applyChange fl obs s c with
    | ok s1 => simp only [ih]
    | error e => simp

theorem foldl_ok {β : Type} (step : Except WErr Unit → β → Except WErr Unit) (l : List β)
    (h : ∀ x ∈ l, step (.ok ()) x = .ok ()) : l.foldl step (.ok ()) = .ok () := by
  induction l with
  | nil => rfl
  | cons x r ih =>
    rw [List.foldl_cons, h x List.mem_cons_self]
    exact ih (fun y hy => h y (List.mem_cons_of_mem _ hy))

def Change.path : Change → Path
  | .delete p _ => p
  | .add p _ => p
  | .modify p _ _ => p

theorem changesAt_mem {a b : FMap Entry} {p : Path} {ch : Change} (h : ch ∈ changesAt a b p) :
    ch.path = p ∧ (∀ q old, ch = .delete q old → a.get p = some old) ∧
    (∀ q old n, ch = .modify q old n → a.get p = some old) := by
  unfold changesAt at h
  cases ha : a.get p <;> cases hb : b.get p <;> simp only [ha, hb] at h
  · cases h
  · simp only [List.mem_singleton] at h; subst h
    exact ⟨rfl, fun _ _ e => (by cases e), fun _ _ _ e => (by cases e)⟩
  · simp only [List.mem_singleton] at h; subst h
    exact ⟨rfl, fun _ _ e => (by cases e; rfl), fun _ _ _ e => (by cases e)⟩
  · rename_i x y
    split at h
    · cases h
    · split at h
      · simp only [List.mem_cons, List.not_mem_nil, or_false] at h
        rcases h with h | h <;> subst h
        · exact ⟨rfl, fun _ _ e => (by cases e; rfl), fun _ _ _ e => (by cases e)⟩
        · exact ⟨rfl, fun _ _ e => (by cases e), fun _ _ _ e => (by cases e)⟩
      · simp only [List.mem_singleton] at h; subst h
        exact ⟨rfl, fun _ _ e => (by cases e), fun _ _ _ e => (by cases e; rfl)⟩

theorem changes_mem {a b : FMap Entry} {ch : Change} (h : ch ∈ changes a b) :
    ch.path ∈ a.keys ++ b.keys ∧ (∀ q old, ch = .delete q old → a.get ch.path = some old) ∧
    (∀ q old n, ch = .modify q old n → a.get ch.path = some old) := by
  unfold changes at h
  rw [List.mem_flatMap] at h
  obtain ⟨p, hp, hch⟩ := h
  obtain ⟨h1, h2, h3⟩ := changesAt_mem hch
  rw [h1]
  exact ⟨(mem_changedPathOrder a b p).mp hp, h2, h3⟩

/-! ### a world in which the index records exactly the files of the directory, which are HEAD's -/

structure Synced (w : World) : Prop where
  idx : ∀ p, w.index.get p = (w.wd.get p).map WFile.ientry
  head : ∀ p, w.head.get p = (w.wd.get p).map WFile.entry
  flat : ∀ p ∈ w.wd.keys, hasFileAncestor w.wd p = false

theorem Synced.view {w : World} (h : Synced w) {p : Path} {f : WFile} (hg : w.wd.get p = some f) :
    lstatView w.wd p = .file f :=
  lstatView_noAnc_some (h.flat p (FMap.mem_keys_of_get hg)) hg

theorem Synced.nothing_changed {w : World} (h : Synced w) :
    stagedAdd w.head w.index = [] ∧ stagedDel w.head w.index = [] ∧ stagedMod w.head w.index = [] ∧
    unstagedOf cur w.wd w.index = .ok [] ∧ untrackedOf cur w.wd w.index = [] := by
  have key : ∀ p, p ∈ w.index.keys → ∃ f, w.wd.get p = some f ∧ w.index.get p = some f.ientry ∧
      w.head.get p = some f.entry := by
    intro p hp
    obtain ⟨e, he⟩ := FMap.get_of_mem_keys hp
    have hi := h.idx p
    cases hw : w.wd.get p with
    | none => rw [hw, he] at hi; cases hi
    | some f => exact ⟨f, rfl, by rw [hi, hw]; rfl, by rw [h.head p, hw]; rfl⟩
  refine ⟨?_, ?_, ?_, ?_, ?_⟩
  · simp only [stagedAdd, List.filter_eq_nil_iff]
    intro p hp
    obtain ⟨f, _, _, hh⟩ := key p hp
    simp [FMap.has, hh]
  · simp only [stagedDel, List.filter_eq_nil_iff]
    intro p hp
    obtain ⟨e, he⟩ := FMap.get_of_mem_keys hp
    have hh := h.head p
    cases hw : w.wd.get p with
    | none => rw [hw, he] at hh; cases hh
    | some f => simp [FMap.has, h.idx p, hw]
  · simp only [stagedMod, List.filter_eq_nil_iff, modifiedAt]
    intro p hp
    obtain ⟨e, he⟩ := FMap.get_of_mem_keys hp
    have hh := h.head p
    cases hw : w.wd.get p with
    | none => rw [hw, he] at hh; cases hh
    | some f =>
      rw [h.head p, h.idx p, hw]
      simp only [Option.map_some]
      have : ¬ (entryDiffers f.entry f.ientry = true) := by
        rw [entryDiffers_iff]; simp [WFile.ientry, IEntry.entry, WFile.entry]
      simpa using this
  · rw [unstagedOf_cur]
    congr 1
    rw [List.filter_eq_nil_iff]
    intro p hp
    obtain ⟨f, hw, hi, _⟩ := key p hp
    simp [changedAt, hi, entryChanged, h.view hw, WFile.ientry, statMatches_self]
  · simp only [untrackedOf, List.filter_eq_nil_iff]
    intro p hp
    obtain ⟨f, hf⟩ := FMap.get_of_mem_keys hp
    rw [untrackedAt_cur, h.view hf]
    simp [FMap.has, h.idx p, hf]

/-- In a synced world status is clean. -/
theorem Synced.status {w : World} (h : Synced w) : status cur w = .ok ⟨[], [], [], [], []⟩ := by
  obtain ⟨ha, hd, hm, hu, hut⟩ := h.nothing_changed
  unfold WorkTree.status
  rw [hu, ha, hd, hm, hut]
  rfl

theorem Synced.wdEntry {w : World} (h : Synced w) (p : Path) : wdEntry w.wd p = w.head.get p := by
  rw [h.head p]
  cases hw : w.wd.get p with
  | some f => rw [wdEntry_file (h.view hw)]; rfl
  | none =>
    simp only [Option.map_none]
    cases hv : WorkTree.wdEntry w.wd p with
    | none => rfl
    | some e =>
      have : (WorkTree.wdEntry w.wd p).isSome = true := by rw [hv]; rfl
      obtain ⟨f, hf⟩ := (wdEntry_isSome_iff _ _).mp this
      rw [lstatView_file_get hf] at hw; cases hw

theorem Synced.treeOf {w : World} (h : Synced w) (p : Path) : (treeOf w.index).get p = w.head.get p := by
  simp only [WorkTree.treeOf]
  rw [FMap.get_mapVal _ (fun _ (v : IEntry) => v.entry) p, h.idx p, h.head p]
  cases w.wd.get p <;> rfl

theorem checkedOut_synced {t : FMap Entry} {obs : Obs} (hobs : t.keys.all obs.has = true) (hwf : TreeWF t) :
    Synced (checkedOut t obs) := by
  refine ⟨fun p => checkedOut_index_get t obs p, ?_, ?_⟩
  · intro p
    show t.get p = ((checkoutFiles t obs).get p).map WFile.entry
    rw [checkoutFiles_get t obs hobs]
    cases ht : t.get p with
    | none => rfl
    | some e =>
      obtain ⟨o, ho⟩ := Option.isSome_iff_exists.mp ((List.all_eq_true.mp hobs) p (FMap.mem_keys_of_get ht))
      simp [ho, WFile.entry]
  · intro p hp
    have hp' : p ∈ t.keys := by
      simp only [checkedOut] at hp; rwa [checkoutFiles_keys t obs hobs] at hp
    show hasFileAncestor (checkoutFiles t obs) p = false
    rw [hasFileAncestor_keys (checkoutFiles_keys t obs hobs)]
    simpa using (List.all_eq_true.mp hwf) p hp'

theorem checkUncommitted_synced {w : World} (h : Synced w) (b : FMap Entry) :
    checkUncommitted cur w b = .ok () := by
  unfold checkUncommitted
  rw [h.status]
  rfl

/-- In a synced world the files are what HEAD says, so the "uncommitted modifications" check passes. -/
theorem preCheckModified_synced {w : World} (h : Synced w) (b : FMap Entry) :
    preCheckModified w.wd (changes w.head b) = .ok () := by
  have chk : ∀ p old, w.head.get p = some old → checkUnmodified w.wd p old = .ok () := by
    intro p old hold
    unfold checkUnmodified
    split
    · rfl
    · have hh := h.head p
      rw [hold] at hh
      cases hw : w.wd.get p with
      | none => rw [hw] at hh; cases hh
      | some f =>
        rw [hw] at hh
        have hfe : f.entry = old := (Option.some.inj hh).symm
        rw [h.view hw]
        have : fileMatches f old = true := by
          rw [← hfe]; simp [fileMatches, WFile.entry]
        simp [this]
  unfold preCheckModified
  apply foldl_ok
  intro ch hch
  obtain ⟨_, h2, h3⟩ := changes_mem hch
  cases ch with
  | add p e => rfl
  | modify p x y => exact chk p x (h3 p x y rfl)
  | delete p old => exact chk p old (h2 p old rfl)

/-- In a synced world a file that is to become a directory still is what HEAD says: the "paths
becoming directories" check passes. -/
theorem preCheckDirs_synced {w : World} (h : Synced w) (b : FMap Entry) :
    preCheckDirs w.wd (changes w.head b) = .ok () := by
  unfold preCheckDirs
  apply foldl_ok
  intro ch hch
  obtain ⟨_, h2, _⟩ := changes_mem hch
  cases ch with
  | add p e => rfl
  | modify p x y => rfl
  | delete p old =>
    have hold : w.head.get p = some old := h2 p old rfl
    have hh := h.head p
    rw [hold] at hh
    cases hw : w.wd.get p with
    | none => rw [hw] at hh; cases hh
    | some f =>
      rw [hw] at hh
      have hfe : f.entry = old := (Option.some.inj hh).symm
      have hm : fileMatches f old = true := by
        rw [← hfe]; simp [fileMatches, WFile.entry]
      simp only [h.view hw, hm]
      split <;> simp

/-! ### views through `get` -/

theorem hasFileAncestor_false_iff {α : Type} (m : FMap α) (p : Path) :
    hasFileAncestor m p = false ↔ ∀ k, isAncestor k p = true → m.get k = none := by
  unfold hasFileAncestor
  rw [List.any_eq_false]
  constructor
  · intro h k hk
    cases hg : m.get k with
    | none => rfl
    | some v => exact absurd hk (h k (FMap.mem_keys_of_get hg))
  · intro h k hk hanc
    obtain ⟨v, hv⟩ := FMap.get_of_mem_keys hk
    rw [h k hanc] at hv; cases hv

theorem hasDescendant_false_iff {α : Type} (m : FMap α) (p : Path) :
    hasDescendant m p = false ↔ ∀ k, isAncestor p k = true → m.get k = none := by
  unfold hasDescendant
  rw [List.any_eq_false]
  constructor
  · intro h k hk
    cases hg : m.get k with
    | none => rfl
    | some v => exact absurd hk (h k (FMap.mem_keys_of_get hg))
  · intro h k hk hanc
    obtain ⟨v, hv⟩ := FMap.get_of_mem_keys hk
    rw [h k hanc] at hv; cases hv

theorem linkAnc_of_anc {wd : FMap WFile} {p : Path} (h : hasFileAncestor wd p = false) :
    hasLinkAncestor wd p = false := by
  unfold hasLinkAncestor
  unfold hasFileAncestor at h
  rw [List.any_eq_false] at h ⊢
  intro k hk
  have := h k hk
  simp at this
  simp [this]

theorem isAncestor_ne {k p : Path} (h : isAncestor k p = true) : k ≠ p := by
  intro e
  subst e
  unfold isAncestor at h
  rw [List.isPrefixOf_iff_prefix] at h
  obtain ⟨t, ht⟩ := h
  have := congrArg List.length ht
  simp at this

theorem TreeWF.apply {t : FMap Entry} (h : TreeWF t) {k p : Path} {e : Entry} (hp : t.get p = some e)
    (hk : isAncestor k p = true) : t.get k = none := by
  have := (List.all_eq_true.mp h) p (FMap.mem_keys_of_get hp)
  simp only [Bool.not_eq_eq_eq_not, Bool.not_true] at this
  exact (hasFileAncestor_false_iff t p).mp this k hk


/-! ### the switch: all deletions, then all writes -/

@[simp] theorem isDelete_delete (p : Path) (x : Entry) : (Change.delete p x).isDelete = true := rfl
@[simp] theorem isDelete_add (p : Path) (x : Entry) : (Change.add p x).isDelete = false := rfl
@[simp] theorem isDelete_modify (p : Path) (x y : Entry) : (Change.modify p x y).isDelete = false := rfl

/-- The deletions among the changes at `p`. -/
def delsAt (a b : FMap Entry) (p : Path) : List Change := (changesAt a b p).filter Change.isDelete

/-- The writes among the changes at `p`. -/
def addsAt (a b : FMap Entry) (p : Path) : List Change := (changesAt a b p).filter (fun c => !c.isDelete)

/-- `p` is deleted in the first phase: gone from `b`, or of a different file type there. -/
def delP (a b : FMap Entry) (p : Path) : Bool :=
  match a.get p, b.get p with
  | some _, none => true
  | some x, some y => decide (x ≠ y) && (isLink x.kind != isLink y.kind)
  | _, _ => false

theorem applyOrder_cur (a b : FMap Entry) :
    applyOrder cur (changes a b) =
      (changedPathOrder a b).flatMap (delsAt a b) ++ (changedPathOrder a b).flatMap (addsAt a b) := by
  have : cur.deletesFirst = true := rfl
  simp only [applyOrder, this, if_true, changes, List.filter_flatMap]
  rfl

/-- First phase at one path, from the state the clean checkout of `a` left there. -/
theorem applyDelsAt {a b : FMap Entry} {fA : FMap WFile} {obs : Obs} {s : WT} {p : Path}
    (hanc : ∀ x, a.get p = some x → hasFileAncestor s.wd p = false)
    (hva : ∀ x, a.get p = some x → validPath p = true)
    (hfA1 : ∀ x, a.get p = some x → ∃ f, fA.get p = some f ∧ f.entry = x)
    (hwd : s.wd.get p = fA.get p) (hidx : s.index.get p = (fA.get p).map WFile.ientry) :
    ∃ s', applyChanges cur obs s (delsAt a b p) = (s', none) ∧
      s'.wd.get p = (if delP a b p then none else fA.get p) ∧
      s'.index.get p = (if delP a b p then none else (fA.get p).map WFile.ientry) ∧
      ∀ q, q ≠ p → s'.wd.get q = s.wd.get q ∧ s'.index.get q = s.index.get q := by
  have stay : delsAt a b p = [] → delP a b p = false →
      ∃ s', applyChanges cur obs s (delsAt a b p) = (s', none) ∧
      s'.wd.get p = (if delP a b p then none else fA.get p) ∧
      s'.index.get p = (if delP a b p then none else (fA.get p).map WFile.ientry) ∧
      ∀ q, q ≠ p → s'.wd.get q = s.wd.get q ∧ s'.index.get q = s.index.get q := by
    intro h1 h2
    exact ⟨s, by rw [h1]; rfl, by simp [h2, hwd], by simp [h2, hidx], fun q _ => ⟨rfl, rfl⟩⟩
  have go : ∀ x, a.get p = some x → delsAt a b p = [.delete p x] → delP a b p = true →
      ∃ s', applyChanges cur obs s (delsAt a b p) = (s', none) ∧
      s'.wd.get p = (if delP a b p then none else fA.get p) ∧
      s'.index.get p = (if delP a b p then none else (fA.get p).map WFile.ientry) ∧
      ∀ q, q ≠ p → s'.wd.get q = s.wd.get q ∧ s'.index.get q = s.index.get q := by
    intro x ha h1 h2
    obtain ⟨f, hf, _⟩ := hfA1 x ha
    have hg : s.wd.get p = some f := by rw [hwd, hf]
    have hdel := @transitionToAbsent_file s p f (hva x ha) (lstatView_noAnc_some (hanc x ha) hg)
    refine ⟨_, by rw [h1]; exact applyChanges_one (c := .delete p x) hdel, ?_, ?_, ?_⟩
    · simp [h2, FMap.get_erase_same]
    · simp [h2, FMap.get_erase_same]
    · intro q hq; exact ⟨FMap.get_erase_ne _ hq, FMap.get_erase_ne _ hq⟩
  cases ha : a.get p with
  | none => exact stay (by simp only [delsAt, changesAt, ha]; cases b.get p <;> simp [List.filter_cons]) (by simp [delP, ha])
  | some x =>
    cases hb : b.get p with
    | none => exact go x ha (by simp [List.filter_cons, delsAt, changesAt, ha, hb]) (by simp [delP, ha, hb])
    | some y =>
      by_cases hxy : x = y
      · exact stay (by simp [List.filter_cons, delsAt, changesAt, ha, hb, hxy]) (by simp [delP, ha, hb, hxy])
      · by_cases hlk : isLink x.kind = isLink y.kind
        · exact stay (by simp [List.filter_cons, delsAt, changesAt, ha, hb, hxy, hlk])
            (by simp [delP, ha, hb, hlk])
        · have hlk' : (isLink x.kind != isLink y.kind) = true := by simpa using hlk
          exact go x ha (by simp [List.filter_cons, delsAt, changesAt, ha, hb, hxy, hlk'])
            (by simp [delP, ha, hb, hxy, hlk'])

/-- First phase over a duplicate-free list of paths. -/
theorem applyDels {a b : FMap Entry} {fA : FMap WFile} {obs : Obs} (hwfa : TreeWF a)
    (hva : ∀ p x, a.get p = some x → validPath p = true)
    (hfA0 : ∀ p, a.get p = none → fA.get p = none)
    (hfA1 : ∀ p x, a.get p = some x → ∃ f, fA.get p = some f ∧ f.entry = x)
    (L : List Path) (hL : L.Nodup) (s : WT)
    (hsub : ∀ k, s.wd.get k = none ∨ s.wd.get k = fA.get k)
    (hA : ∀ p ∈ L, s.wd.get p = fA.get p ∧ s.index.get p = (fA.get p).map WFile.ientry) :
    ∃ s', applyChanges cur obs s (L.flatMap (delsAt a b)) = (s', none) ∧
      (∀ p ∈ L, s'.wd.get p = (if delP a b p then none else fA.get p) ∧
        s'.index.get p = (if delP a b p then none else (fA.get p).map WFile.ientry)) ∧
      (∀ q, q ∉ L → s'.wd.get q = s.wd.get q ∧ s'.index.get q = s.index.get q) := by
  induction L generalizing s with
  | nil => exact ⟨s, rfl, fun _ h => absurd h List.not_mem_nil, fun _ _ => ⟨rfl, rfl⟩⟩
  | cons p r ih =>
    rw [List.nodup_cons] at hL
    have hanc : ∀ x, a.get p = some x → hasFileAncestor s.wd p = false := by
      intro x hx
      rw [hasFileAncestor_false_iff]
      intro k hk
      rcases hsub k with h | h
      · exact h
      · rw [h]; exact hfA0 k (hwfa.apply hx hk)
    obtain ⟨s1, h1, w1, i1, o1⟩ := applyDelsAt (a := a) (b := b) (fA := fA) (obs := obs) hanc (hva p) (hfA1 p)
      (hA p List.mem_cons_self).1 (hA p List.mem_cons_self).2
    have hsub1 : ∀ k, s1.wd.get k = none ∨ s1.wd.get k = fA.get k := by
      intro k
      by_cases hkp : k = p
      · rw [hkp, w1]; split <;> simp
      · rw [(o1 k hkp).1]; exact hsub k
    have hA1 : ∀ q ∈ r, s1.wd.get q = fA.get q ∧ s1.index.get q = (fA.get q).map WFile.ientry := by
      intro q hq
      have hqp : q ≠ p := fun e => hL.1 (e ▸ hq)
      rw [(o1 q hqp).1, (o1 q hqp).2]
      exact hA q (List.mem_cons_of_mem _ hq)
    obtain ⟨s2, h2, t2, o2⟩ := ih hL.2 s1 hsub1 hA1
    refine ⟨s2, ?_, ?_, ?_⟩
    · rw [List.flatMap_cons, applyChanges_append, h1]; exact h2
    · intro q hq
      rcases List.mem_cons.mp hq with e | e
      · subst e
        rw [(o2 q hL.1).1, (o2 q hL.1).2]
        exact ⟨w1, i1⟩
      · exact t2 q e
    · intro q hq
      have hqp : q ≠ p := fun e => hq (e ▸ List.mem_cons_self)
      have hqr : q ∉ r := fun e => hq (List.mem_cons_of_mem _ e)
      rw [(o2 q hqr).1, (o2 q hqr).2]
      exact o1 q hqp

/-- Second phase at one path, from the state the first phase left there. -/
theorem applyAddsAt {a b : FMap Entry} {fA : FMap WFile} {obs : Obs} {s : WT} {p : Path}
    (hfree : ∀ y, b.get p = some y → hasFileAncestor s.wd p = false ∧ hasDescendant s.wd p = false)
    (hvb : ∀ y, b.get p = some y → validPath p = true)
    (hobs : ∀ y, b.get p = some y → ∃ o, obs.get p = some o)
    (hfA0 : a.get p = none → fA.get p = none)
    (hfA1 : ∀ x, a.get p = some x → ∃ f, fA.get p = some f ∧ f.entry = x)
    (hwd : s.wd.get p = (if delP a b p then none else fA.get p))
    (hidx : s.index.get p = (if delP a b p then none else (fA.get p).map WFile.ientry)) :
    ∃ s', applyChanges cur obs s (addsAt a b p) = (s', none) ∧
      s'.wd.get p = targetWd a b fA obs p ∧
      s'.index.get p = (targetWd a b fA obs p).map WFile.ientry ∧
      ∀ q, q ≠ p → s'.wd.get q = s.wd.get q ∧ s'.index.get q = s.index.get q := by
  have written : ∀ (f : WFile),
      (s.wd.put p f).get p = some f ∧ (s.index.put p f.ientry).get p = some f.ientry ∧
      ∀ q, q ≠ p → (s.wd.put p f).get q = s.wd.get q ∧ (s.index.put p f.ientry).get q = s.index.get q :=
    fun f => ⟨FMap.get_put_same _ _ _, FMap.get_put_same _ _ _,
      fun q hq => ⟨FMap.get_put_ne _ _ hq, FMap.get_put_ne _ _ hq⟩⟩
  -- writing into an empty place
  have fresh : ∀ y, b.get p = some y → a.get p ≠ some y → s.wd.get p = none → addsAt a b p = [.add p y] →
      ∃ s', applyChanges cur obs s (addsAt a b p) = (s', none) ∧
      s'.wd.get p = targetWd a b fA obs p ∧
      s'.index.get p = (targetWd a b fA obs p).map WFile.ientry ∧
      ∀ q, q ≠ p → s'.wd.get q = s.wd.get q ∧ s'.index.get q = s.index.get q := by
    intro y hb hay hn h1
    obtain ⟨o, ho⟩ := hobs y hb
    obtain ⟨h_anc, h_desc⟩ := hfree y hb
    have hview : lstatView s.wd p = .enoent := by
      rw [lstatView_noAnc_none h_anc hn, h_desc]; rfl
    have hstep := @transitionToFile_absent obs s p y o (hvb y hb) (linkAnc_of_anc h_anc) hview ho
    obtain ⟨w2, w3, w4⟩ := written (fileOf y o)
    refine ⟨_, by rw [h1]; exact applyChanges_one (c := .add p y) hstep, ?_, ?_, w4⟩
    · simp [targetWd, hb, hay, w2, ho]
    · simp [targetWd, hb, hay, w3, ho]
  cases hb : b.get p with
  | none =>
    have h1 : addsAt a b p = [] := by
      simp only [addsAt, changesAt, hb]; cases a.get p <;> simp [List.filter_cons]
    refine ⟨s, by rw [h1]; rfl, ?_, ?_, fun q _ => ⟨rfl, rfl⟩⟩
    · rw [hwd]
      cases ha : a.get p with
      | none => simp [targetWd, hb, delP, ha, hfA0 ha]
      | some x => simp [targetWd, hb, delP, ha]
    · rw [hidx]
      cases ha : a.get p with
      | none => simp [targetWd, hb, delP, ha, hfA0 ha]
      | some x => simp [targetWd, hb, delP, ha]
  | some y =>
    cases ha : a.get p with
    | none =>
      have hn : s.wd.get p = none := by rw [hwd]; simp [delP, ha, hfA0 ha]
      exact fresh y hb (by rw [ha]; simp) hn (by simp [List.filter_cons, addsAt, changesAt, ha, hb])
    | some x =>
      by_cases hxy : x = y
      · subst hxy
        have h1 : addsAt a b p = [] := by simp [List.filter_cons, addsAt, changesAt, ha, hb]
        have hd : delP a b p = false := by simp [delP, ha, hb]
        refine ⟨s, by rw [h1]; rfl, ?_, ?_, fun q _ => ⟨rfl, rfl⟩⟩
        · rw [hwd]; simp [targetWd, hb, ha, hd]
        · rw [hidx]; simp [targetWd, hb, ha, hd]
      · have hne : a.get p ≠ some y := by rw [ha]; exact fun e => hxy (Option.some.inj e)
        by_cases hlk : isLink x.kind = isLink y.kind
        · -- modify: the old file is still there and does not match
          have hd : delP a b p = false := by simp [delP, ha, hb, hlk]
          obtain ⟨f, hf, hfx⟩ := hfA1 x ha
          have hg : s.wd.get p = some f := by rw [hwd]; simp [hd, hf]
          obtain ⟨o, ho⟩ := hobs y hb
          obtain ⟨h_anc, _⟩ := hfree y hb
          have hview := lstatView_noAnc_some h_anc hg
          have hfk : isLink f.kind = isLink y.kind := by rw [← hlk, ← hfx]; rfl
          have hstep := @transitionToFile_differs obs s p y o f (hvb y hb) (linkAnc_of_anc h_anc) hview
            (by rw [hfx]; exact hxy) hfk ho
          obtain ⟨w2, w3, w4⟩ := written (fileOf y o)
          have h1 : addsAt a b p = [.modify p x y] := by
            simp [List.filter_cons, addsAt, changesAt, ha, hb, hxy, hlk]
          refine ⟨_, by rw [h1]; exact applyChanges_one (c := .modify p x y) hstep, ?_, ?_, w4⟩
          · simp [targetWd, hb, hne, w2, ho]
          · simp [targetWd, hb, hne, w3, ho]
        · -- type change: the old file was deleted in the first phase
          have hlk' : (isLink x.kind != isLink y.kind) = true := by simpa using hlk
          have hd : delP a b p = true := by simp [delP, ha, hb, hxy, hlk']
          have hn : s.wd.get p = none := by rw [hwd]; simp [hd]
          exact fresh y hb hne hn (by simp [List.filter_cons, addsAt, changesAt, ha, hb, hxy, hlk'])

/-- Second phase over a duplicate-free list of paths: the paths still to come are in the state the
first phase left, all others are in their target state. -/
theorem applyAdds {a b : FMap Entry} {fA : FMap WFile} {obs : Obs} (hwfb : TreeWF b)
    (hvb : ∀ p y, b.get p = some y → validPath p = true)
    (hobs : ∀ p y, b.get p = some y → ∃ o, obs.get p = some o)
    (hfA0 : ∀ p, a.get p = none → fA.get p = none)
    (hfA1 : ∀ p x, a.get p = some x → ∃ f, fA.get p = some f ∧ f.entry = x)
    (L : List Path) (hL : L.Nodup) (s : WT)
    (hM : ∀ p ∈ L, s.wd.get p = (if delP a b p then none else fA.get p) ∧
      s.index.get p = (if delP a b p then none else (fA.get p).map WFile.ientry))
    (hT : ∀ p, p ∉ L → s.wd.get p = targetWd a b fA obs p ∧
      s.index.get p = (targetWd a b fA obs p).map WFile.ientry) :
    ∃ s', applyChanges cur obs s (L.flatMap (addsAt a b)) = (s', none) ∧
      ∀ p, s'.wd.get p = targetWd a b fA obs p ∧
        s'.index.get p = (targetWd a b fA obs p).map WFile.ientry := by
  -- where `b` has nothing, neither the first-phase state nor the target state has a file
  have gone : ∀ k, b.get k = none → (if delP a b k then none else fA.get k) = none ∧
      targetWd a b fA obs k = none := by
    intro k hk
    refine ⟨?_, by simp [targetWd, hk]⟩
    cases ha : a.get k with
    | none => simp [delP, ha, hfA0 k ha]
    | some x => simp [delP, ha, hk]
  induction L generalizing s with
  | nil => exact ⟨s, rfl, fun p => hT p List.not_mem_nil⟩
  | cons p r ih =>
    rw [List.nodup_cons] at hL
    have hnone : ∀ k, b.get k = none → s.wd.get k = none := by
      intro k hk
      by_cases hkL : k ∈ p :: r
      · rw [(hM k hkL).1]; exact (gone k hk).1
      · rw [(hT k hkL).1]; exact (gone k hk).2
    have hfree : ∀ y, b.get p = some y → hasFileAncestor s.wd p = false ∧ hasDescendant s.wd p = false := by
      intro y hy
      constructor
      · rw [hasFileAncestor_false_iff]
        intro k hk
        exact hnone k (hwfb.apply hy hk)
      · rw [hasDescendant_false_iff]
        intro k hk
        apply hnone k
        cases hb : b.get k with
        | none => rfl
        | some z => rw [hwfb.apply hb hk] at hy; cases hy
    obtain ⟨s1, h1, w1, i1, o1⟩ := applyAddsAt (a := a) (b := b) (fA := fA) (obs := obs) hfree (hvb p) (hobs p)
      (hfA0 p) (hfA1 p) (hM p List.mem_cons_self).1 (hM p List.mem_cons_self).2
    have hM1 : ∀ q ∈ r, s1.wd.get q = (if delP a b q then none else fA.get q) ∧
        s1.index.get q = (if delP a b q then none else (fA.get q).map WFile.ientry) := by
      intro q hq
      have hqp : q ≠ p := fun e => hL.1 (e ▸ hq)
      rw [(o1 q hqp).1, (o1 q hqp).2]
      exact hM q (List.mem_cons_of_mem _ hq)
    have hT1 : ∀ q, q ∉ r → s1.wd.get q = targetWd a b fA obs q ∧
        s1.index.get q = (targetWd a b fA obs q).map WFile.ientry := by
      intro q hq
      by_cases hqp : q = p
      · rw [hqp]; exact ⟨w1, i1⟩
      · rw [(o1 q hqp).1, (o1 q hqp).2]
        exact hT q (fun e => by rcases List.mem_cons.mp e with e | e; exact hqp e; exact hq e)
    obtain ⟨s2, h2, t2⟩ := ih hL.2 s1 hM1 hT1
    refine ⟨s2, ?_, t2⟩
    rw [List.flatMap_cons, applyChanges_append, h1]
    exact h2

/-! ## reset --hard from an arbitrary state -/

/-- No path of the list lies below another one. -/
def Flat (K : List Path) : Prop := K.all (fun p => K.all (fun q => !isAncestor p q)) = true

instance (K : List Path) : Decidable (Flat K) := by unfold Flat; infer_instance

theorem Flat.apply {K : List Path} (h : Flat K) {p q : Path} (hp : p ∈ K) (hq : q ∈ K) :
    isAncestor p q = false := by
  have := (List.all_eq_true.mp ((List.all_eq_true.mp h) p hp)) q hq
  simpa using this

theorem flat_view {wd : FMap WFile} {K : List Path} {p : Path}
    (hkeys : ∀ k ∈ wd.keys, k ∈ K) (hK : Flat K) (hp : p ∈ K) :
    hasFileAncestor wd p = false ∧ hasDescendant wd p = false := by
  constructor
  · unfold hasFileAncestor
    rw [List.any_eq_false]
    intro k hk
    simp [hK.apply (hkeys k hk) hp]
  · unfold hasDescendant
    rw [List.any_eq_false]
    intro k hk
    simp [hK.apply hp (hkeys k hk)]

/-- `_transition_to_file` at a path with nothing above and nothing below it, whatever is there now:
afterwards the path holds a file with the wanted entry and the index records exactly that file. -/
theorem transitionToFile_free {obs : Obs} {s : WT} {p : Path} {e : Entry} {o : StatKey × LinkRes}
    (hv : validPath p = true) (hanc : hasFileAncestor s.wd p = false) (hdesc : hasDescendant s.wd p = false)
    (ho : obs.get p = some o) :
    ∃ s' f', transitionToFile obs s p e = .ok s' ∧ s'.wd.get p = some f' ∧ f'.entry = e ∧
      s'.index.get p = some f'.ientry ∧
      (∀ q, q ≠ p → s'.wd.get q = s.wd.get q ∧ s'.index.get q = s.index.get q) ∧
      (∀ k ∈ s'.wd.keys, k = p ∨ k ∈ s.wd.keys) := by
  have hlink := linkAnc_of_anc hanc
  have wr : ∃ s' f', writeFile obs s p e = .ok s' ∧ s'.wd.get p = some f' ∧ f'.entry = e ∧
      s'.index.get p = some f'.ientry ∧
      (∀ q, q ≠ p → s'.wd.get q = s.wd.get q ∧ s'.index.get q = s.index.get q) ∧
      (∀ k ∈ s'.wd.keys, k = p ∨ k ∈ s.wd.keys) := by
    refine ⟨⟨s.wd.put p ⟨e.kind, e.cid, o.1, o.2⟩, s.index.put p ⟨e.kind, e.cid, o.1⟩⟩, ⟨e.kind, e.cid, o.1, o.2⟩,
      by simp [writeFile, ho], FMap.get_put_same _ _ _, rfl, FMap.get_put_same _ _ _,
      fun q hq => ⟨FMap.get_put_ne _ _ hq, FMap.get_put_ne _ _ hq⟩, fun k hk => FMap.mem_keys_put hk⟩
  unfold transitionToFile
  simp only [hv, hlink, Bool.not_true, Bool.false_eq_true, if_false]
  cases hg : s.wd.get p with
  | none =>
    have hview : lstatView s.wd p = .enoent := by
      rw [lstatView_noAnc_none hanc hg, hdesc]; rfl
    rw [hview]
    exact wr
  | some f =>
    rw [lstatView_noAnc_some hanc hg]
    simp only
    by_cases hc : (isLink f.kind == isLink e.kind && (if isLink f.kind = true then f.cid == e.cid else fileMatches f e)) = true
    · rw [if_pos hc]
      have hfe : f.entry = e ∧ f.ientry = ⟨f.kind, e.cid, f.stat⟩ := by
        obtain ⟨fk, fc, fs, fr⟩ := f
        obtain ⟨ek, ec⟩ := e
        simp only [Bool.and_eq_true, beq_iff_eq] at hc
        obtain ⟨hl, hm⟩ := hc
        simp only [WFile.entry, WFile.ientry, Entry.mk.injEq, IEntry.mk.injEq, true_and, and_true]
        by_cases hlk : isLink fk = true
        · simp only [hlk, if_true, beq_iff_eq] at hm
          have h1 : fk = .symlink := by simpa [isLink] using hlk
          have h2 : ek = .symlink := by rw [hlk] at hl; simpa [isLink] using hl.symm
          exact ⟨⟨h1.trans h2.symm, hm⟩, hm⟩
        · have hm' : ((fk == Kind.executable) == (ek == Kind.executable)) = true ∧ fc = ec := by
            simpa [hlk, fileMatches] using hm
          have h1 : fk ≠ .symlink := by simpa [isLink] using hlk
          have h2 : ek ≠ .symlink := by
            intro e'; rw [e'] at hl; simp [isLink] at hl; exact h1 hl
          refine ⟨⟨?_, hm'.2⟩, hm'.2⟩
          have := hm'.1
          cases fk <;> cases ek <;> simp_all
      refine ⟨⟨s.wd, s.index.put p ⟨f.kind, e.cid, f.stat⟩⟩, f, rfl, hg, hfe.1, ?_,
        fun q hq => ⟨rfl, FMap.get_put_ne _ _ hq⟩, fun k hk => Or.inr hk⟩
      rw [hfe.2]; exact FMap.get_put_same _ _ _
    · rw [if_neg hc]
      exact wr

/-- `_transition_to_absent` at a path with nothing above it. -/
theorem transitionToAbsent_free {fl : Flags} {s : WT} {p : Path}
    (hv : validPath p = true) (hanc : hasFileAncestor s.wd p = false) (hdesc : hasDescendant s.wd p = false) :
    ∃ s', transitionToAbsent fl s p = .ok s' ∧ s'.wd.get p = none ∧
      (s'.index.get p = none ∨ (fl.absentDropsIndex = false ∧ s.wd.get p = none ∧ s'.index.get p = s.index.get p)) ∧
      (∀ q, q ≠ p → s'.wd.get q = s.wd.get q ∧ s'.index.get q = s.index.get q) ∧
      (∀ k ∈ s'.wd.keys, k ∈ s.wd.keys) := by
  unfold transitionToAbsent
  simp only [hv, Bool.not_true, Bool.false_eq_true, if_false]
  cases hg : s.wd.get p with
  | none =>
    have hview : lstatView s.wd p = .enoent := by
      rw [lstatView_noAnc_none hanc hg, hdesc]; rfl
    rw [hview]
    simp only
    by_cases hf : fl.absentDropsIndex = true
    · rw [if_pos hf]
      exact ⟨_, rfl, hg, Or.inl (FMap.get_erase_same _ _), fun q hq => ⟨rfl, FMap.get_erase_ne _ hq⟩, fun k hk => hk⟩
    · rw [if_neg hf]
      have hf' : fl.absentDropsIndex = false := by simpa using hf
      exact ⟨s, rfl, hg, Or.inr ⟨hf', trivial, rfl⟩, fun q _ => ⟨rfl, rfl⟩, fun k hk => hk⟩
  | some f =>
    rw [lstatView_noAnc_some hanc hg]
    exact ⟨_, rfl, FMap.get_erase_same _ _, Or.inl (FMap.get_erase_same _ _),
      fun q hq => ⟨FMap.get_erase_ne _ hq, FMap.get_erase_ne _ hq⟩, fun k hk => FMap.mem_keys_erase hk⟩

/-- Processing independent steps at the paths of a duplicate-free list. -/
theorem fold_paths (fl : Flags) (obs : Obs) (steps : Path → List Change) (Inv : WT → Prop) (P : Path → Prop)
    (R Q : Path → Option WFile → Option IEntry → Prop)
    (hstep : ∀ s p, Inv s → P p → R p (s.wd.get p) (s.index.get p) →
      ∃ s', applyChanges fl obs s (steps p) = (s', none) ∧ Inv s' ∧ Q p (s'.wd.get p) (s'.index.get p) ∧
        ∀ q, q ≠ p → s'.wd.get q = s.wd.get q ∧ s'.index.get q = s.index.get q)
    (L : List Path) (hL : L.Nodup) (hP : ∀ p ∈ L, P p) (s : WT) (hinv : Inv s)
    (hR : ∀ p ∈ L, R p (s.wd.get p) (s.index.get p)) :
    ∃ s', applyChanges fl obs s (L.flatMap steps) = (s', none) ∧ Inv s' ∧
      (∀ p ∈ L, Q p (s'.wd.get p) (s'.index.get p)) ∧
      (∀ q, q ∉ L → s'.wd.get q = s.wd.get q ∧ s'.index.get q = s.index.get q) := by
  induction L generalizing s with
  | nil => exact ⟨s, rfl, hinv, fun _ h => absurd h List.not_mem_nil, fun _ _ => ⟨rfl, rfl⟩⟩
  | cons p r ih =>
    rw [List.nodup_cons] at hL
    obtain ⟨s1, h1, i1, q1, o1⟩ := hstep s p hinv (hP p List.mem_cons_self) (hR p List.mem_cons_self)
    have hR1 : ∀ q ∈ r, R q (s1.wd.get q) (s1.index.get q) := by
      intro q hq
      have hqp : q ≠ p := fun e => hL.1 (e ▸ hq)
      rw [(o1 q hqp).1, (o1 q hqp).2]
      exact hR q (List.mem_cons_of_mem _ hq)
    obtain ⟨s2, h2, i2, q2, o2⟩ := ih hL.2 (fun q hq => hP q (List.mem_cons_of_mem _ hq)) s1 i1 hR1
    refine ⟨s2, ?_, i2, ?_, ?_⟩
    · rw [List.flatMap_cons, applyChanges_append, h1]; exact h2
    · intro q hq
      rcases List.mem_cons.mp hq with e | e
      · subst e
        rw [(o2 q hL.1).1, (o2 q hL.1).2]
        exact q1
      · exact q2 q e
    · intro q hq
      have hqp : q ≠ p := fun e => hq (e ▸ List.mem_cons_self)
      have hqr : q ∉ r := fun e => hq (List.mem_cons_of_mem _ e)
      rw [(o2 q hqr).1, (o2 q hqr).2]
      exact o1 q hqp


theorem changesAtAll_mem {a b : FMap Entry} {p : Path} {ch : Change} (h : ch ∈ changesAtAll a b p) :
    ch.path = p := by
  unfold changesAtAll at h
  cases ha : a.get p <;> cases hb : b.get p <;> simp only [ha, hb] at h
  · cases h
  · simp only [List.mem_singleton] at h; subst h; rfl
  · simp only [List.mem_singleton] at h; subst h; rfl
  · split at h
    · simp only [List.mem_cons, List.not_mem_nil, or_false] at h
      rcases h with h | h <;> subst h <;> rfl
    · simp only [List.mem_singleton] at h; subst h; rfl

theorem allChanges_mem {a b : FMap Entry} {ch : Change} (h : ch ∈ allChanges a b) :
    ch.path ∈ a.keys ++ b.keys := by
  unfold allChanges at h
  rw [List.mem_flatMap] at h
  obtain ⟨p, hp, hch⟩ := h
  rw [changesAtAll_mem hch]
  exact (mem_changedPathOrder a b p).mp hp

theorem preCheckDirs_flat {wd : FMap WFile} {a b : FMap Entry} {K : List Path} (hK : Flat K)
    (hsub : ∀ p ∈ a.keys ++ b.keys, p ∈ K) : preCheckDirs wd (allChanges a b) = .ok () := by
  unfold preCheckDirs
  apply foldl_ok
  intro ch hch
  cases ch with
  | add p e => rfl
  | modify p x y => rfl
  | delete p old =>
    have hp : p ∈ K := hsub p (allChanges_mem hch)
    have hany : (allChanges a b).any (writesBelow p) = false := by
      rw [List.any_eq_false]
      intro c hc
      have hq : c.path ∈ K := hsub _ (allChanges_mem hc)
      cases c with
      | delete q o => simp [writesBelow]
      | add q e =>
        have hq' : q ∈ K := hq
        simp [writesBelow, hK.apply hp hq']
      | modify q x y =>
        have hq' : q ∈ K := hq
        simp [writesBelow, hK.apply hp hq']
    simp only [hany]
    rfl

/-- The hypothesis the code as it is forces on `reset --hard` (void once `_transition_to_absent` drops
the index entry of a file that is already gone): no path that the index has and the target lacks is
missing from the work tree. -/
def NoGoneEntries (fl : Flags) (w : World) (t : FMap Entry) : Prop :=
  fl.absentDropsIndex = true ∨
    w.index.keys.all (fun p => (w.wd.get p).isSome || t.has p) = true

instance (fl : Flags) (w : World) (t : FMap Entry) : Decidable (NoGoneEntries fl w t) := by
  unfold NoGoneEntries; infer_instance

/-- What `reset --hard` leaves at every path, in terms of the look-ups. -/
structure ResetOutcome (w : World) (t : FMap Entry) (wd' : FMap WFile) (index' : FMap IEntry) : Prop where
  tracked : ∀ p y, t.get p = some y → ∃ f, wd'.get p = some f ∧ f.entry = y ∧ index'.get p = some f.ientry
  gone : ∀ p, t.get p = none → (w.index.get p).isSome = true → wd'.get p = none ∧ index'.get p = none
  other : ∀ p, t.get p = none → w.index.get p = none → wd'.get p = w.wd.get p ∧ index'.get p = none
  keys : ∀ k ∈ wd'.keys, k ∈ w.index.keys ++ w.wd.keys ++ t.keys

/-- `reset --hard` from ANY state whose paths do not lie below one another: index `I`, work tree `W`
and target `T` may differ in every way at every path. -/
theorem resetHard_outcome (fl : Flags) (hdf : fl.deletesFirst = true) (w : World) (t : FMap Entry) (obs : Obs)
    (hflat : Flat (w.index.keys ++ w.wd.keys ++ t.keys))
    (hvi : w.index.keys.all validPath = true) (hvt : t.keys.all validPath = true)
    (hobs : t.keys.all obs.has = true) (hgone : NoGoneEntries fl w t) :
    ∃ w', resetHard fl w t obs = ⟨w', none⟩ ∧ w'.head = t ∧ ResetOutcome w t w'.wd w'.index := by
  -- abbreviations
  have hK := hflat
  generalize hKdef : w.index.keys ++ w.wd.keys ++ t.keys = K at hK
  have hIK : ∀ p ∈ w.index.keys, p ∈ K := by
    intro p hp; rw [← hKdef]; exact List.mem_append_left _ (List.mem_append_left _ hp)
  have hWK : ∀ p ∈ w.wd.keys, p ∈ K := by
    intro p hp; rw [← hKdef]; exact List.mem_append_left _ (List.mem_append_right _ hp)
  have hTK : ∀ p ∈ t.keys, p ∈ K := by
    intro p hp; rw [← hKdef]; exact List.mem_append_right _ hp
  have haget : ∀ p, (treeOf w.index).get p = (w.index.get p).map IEntry.entry := by
    intro p; simp only [treeOf]; exact FMap.get_mapVal _ (fun _ (v : IEntry) => v.entry) p
  have hakeys : (treeOf w.index).keys = w.index.keys := by
    simp only [treeOf]; exact FMap.keys_mapVal _ (fun _ (v : IEntry) => v.entry)
  have hsubK : ∀ p ∈ (treeOf w.index).keys ++ t.keys, p ∈ K := by
    intro p hp
    rcases List.mem_append.mp hp with h | h
    · rw [hakeys] at h; exact hIK p h
    · exact hTK p h
  have hpd := preCheckDirs_flat (wd := w.wd) hK hsubK
  have hvalid_a : ∀ p x, (treeOf w.index).get p = some x → validPath p = true := by
    intro p x h
    rw [haget] at h
    cases hi : w.index.get p with
    | none => rw [hi] at h; cases h
    | some i => exact (List.all_eq_true.mp hvi) p (FMap.mem_keys_of_get hi)
  have hvalid_t : ∀ p y, t.get p = some y → validPath p = true :=
    fun p y h => (List.all_eq_true.mp hvt) p (FMap.mem_keys_of_get h)
  have hobs' : ∀ p y, t.get p = some y → ∃ o, obs.get p = some o :=
    fun p y h => Option.isSome_iff_exists.mp ((List.all_eq_true.mp hobs) p (FMap.mem_keys_of_get h))
  -- the order of the changes
  have horder : applyOrder fl (allChanges (treeOf w.index) t) =
      (changedPathOrder (treeOf w.index) t).flatMap (fun p => (changesAtAll (treeOf w.index) t p).filter Change.isDelete) ++
      (changedPathOrder (treeOf w.index) t).flatMap (fun p => (changesAtAll (treeOf w.index) t p).filter (fun c => !c.isDelete)) := by
    simp only [applyOrder, hdf, if_true, allChanges, List.filter_flatMap]
  have hPK : ∀ p ∈ changedPathOrder (treeOf w.index) t, p ∈ K :=
    fun p hp => hsubK p ((mem_changedPathOrder _ _ p).mp hp)
  let Inv : WT → Prop := fun s => ∀ k ∈ s.wd.keys, k ∈ K
  -- first phase
  let Q1 : Path → Option WFile → Option IEntry → Prop := fun p a' b' =>
    match (treeOf w.index).get p, t.get p with
    | some _, none => a' = none ∧ b' = none
    | some x, some y => if (isLink x.kind != isLink y.kind) = true then a' = none else a' = w.wd.get p ∧ b' = w.index.get p
    | none, _ => a' = w.wd.get p ∧ b' = w.index.get p
  obtain ⟨s1, happ1, hinv1, hq1, hout1⟩ := fold_paths fl obs
    (fun p => (changesAtAll (treeOf w.index) t p).filter Change.isDelete) Inv (fun p => p ∈ K)
    (fun p a' b' => a' = w.wd.get p ∧ b' = w.index.get p) Q1
    (by
      intro s p hinv hpK hR
      obtain ⟨hwd, hidx⟩ := hR
      have hfree := flat_view hinv hK hpK
      have del1 : ∀ x, (treeOf w.index).get p = some x →
          ∃ s', applyChanges fl obs s [.delete p x] = (s', none) ∧ Inv s' ∧ s'.wd.get p = none ∧
            (s'.index.get p = none ∨ (fl.absentDropsIndex = false ∧ w.wd.get p = none)) ∧
            ∀ q, q ≠ p → s'.wd.get q = s.wd.get q ∧ s'.index.get q = s.index.get q := by
        intro x hx
        obtain ⟨s', h1, h2, h3, h4, h5⟩ := @transitionToAbsent_free fl s p (hvalid_a p x hx) hfree.1 hfree.2
        refine ⟨s', applyChanges_one (c := .delete p x) h1, fun k hk => hinv k (h5 k hk), h2, ?_, h4⟩
        rcases h3 with h | ⟨ha, hb, _⟩
        · exact Or.inl h
        · exact Or.inr ⟨ha, by rw [← hwd]; exact hb⟩
      simp only [Q1, changesAtAll]
      cases ha : (treeOf w.index).get p with
      | none =>
        cases hb : t.get p <;>
          exact ⟨s, by simp [applyChanges, List.filter_cons], hinv, ⟨hwd, hidx⟩, fun q _ => ⟨rfl, rfl⟩⟩
      | some x =>
        cases hb : t.get p with
        | none =>
          obtain ⟨s', h1, h2, h3, h4, h5⟩ := del1 x ha
          refine ⟨s', by simpa [List.filter_cons] using h1, h2, ⟨h3, ?_⟩, h5⟩
          rcases h4 with h | ⟨hf, hw⟩
          · exact h
          · -- excluded by the hypothesis: the index has `p`, the target lacks it, the file is gone
            exfalso
            rcases hgone with hg | hg
            · rw [hg] at hf; cases hf
            · have hi : ∃ i, w.index.get p = some i := by
                rw [haget] at ha
                cases hi : w.index.get p with
                | none => rw [hi] at ha; cases ha
                | some i => exact ⟨i, rfl⟩
              obtain ⟨i, hi⟩ := hi
              have := (List.all_eq_true.mp hg) p (FMap.mem_keys_of_get hi)
              simp [hw, FMap.has, hb] at this
        | some y =>
          by_cases hlk : (isLink x.kind != isLink y.kind) = true
          · obtain ⟨s', h1, h2, h3, _, h5⟩ := del1 x ha
            refine ⟨s', by simpa [hlk, List.filter_cons] using h1, h2, by simp [hlk, h3], h5⟩
          · exact ⟨s, by simp [hlk, applyChanges, List.filter_cons], hinv, by simp [hlk, hwd, hidx], fun q _ => ⟨rfl, rfl⟩⟩)
    (changedPathOrder (treeOf w.index) t) (nodup_changedPathOrder _ _) hPK ⟨w.wd, w.index⟩
    (fun k hk => hWK k hk) (fun p _ => ⟨rfl, rfl⟩)
  -- second phase
  let Q2 : Path → Option WFile → Option IEntry → Prop := fun p a' b' =>
    match t.get p with
    | some y => ∃ f, a' = some f ∧ f.entry = y ∧ b' = some f.ientry
    | none =>
      match (treeOf w.index).get p with
      | some _ => a' = none ∧ b' = none
      | none => a' = w.wd.get p ∧ b' = w.index.get p
  obtain ⟨s2, happ2, hinv2, hq2, hout2⟩ := fold_paths fl obs
    (fun p => (changesAtAll (treeOf w.index) t p).filter (fun c => !c.isDelete)) Inv (fun p => p ∈ K) Q1 Q2
    (by
      intro s p hinv hpK hR
      have hfree := flat_view hinv hK hpK
      have wr : ∀ y c, t.get p = some y → (c = .add p y ∨ ∃ x, c = .modify p x y) →
          ∃ s', applyChanges fl obs s [c] = (s', none) ∧ Inv s' ∧
            (∃ f, s'.wd.get p = some f ∧ f.entry = y ∧ s'.index.get p = some f.ientry) ∧
            ∀ q, q ≠ p → s'.wd.get q = s.wd.get q ∧ s'.index.get q = s.index.get q := by
        intro y c hy hc
        obtain ⟨o, ho⟩ := hobs' p y hy
        obtain ⟨s', f', h1, h2, h3, h4, h5, h6⟩ := @transitionToFile_free obs s p y o (hvalid_t p y hy) hfree.1 hfree.2 ho
        have hstep : applyChange fl obs s c = .ok s' := by
          rcases hc with hc | ⟨x, hc⟩ <;> subst hc <;> exact h1
        refine ⟨s', applyChanges_one hstep, ?_, ⟨f', h2, h3, h4⟩, h5⟩
        intro k hk
        rcases h6 k hk with e | e
        · rw [e]; exact hpK
        · exact hinv k e
      simp only [Q1] at hR
      simp only [Q2, changesAtAll]
      cases hb : t.get p with
      | none =>
        cases ha : (treeOf w.index).get p with
        | none =>
          simp only [ha, hb] at hR
          exact ⟨s, by simp [applyChanges], hinv, hR, fun q _ => ⟨rfl, rfl⟩⟩
        | some x =>
          simp only [ha, hb] at hR
          exact ⟨s, by simp [applyChanges, List.filter_cons], hinv, hR, fun q _ => ⟨rfl, rfl⟩⟩
      | some y =>
        cases ha : (treeOf w.index).get p with
        | none =>
          obtain ⟨s', h1, h2, h3, h4⟩ := wr y (.add p y) hb (Or.inl rfl)
          exact ⟨s', by simpa [List.filter_cons] using h1, h2, h3, h4⟩
        | some x =>
          by_cases hlk : (isLink x.kind != isLink y.kind) = true
          · obtain ⟨s', h1, h2, h3, h4⟩ := wr y (.add p y) hb (Or.inl rfl)
            exact ⟨s', by simpa [hlk, List.filter_cons] using h1, h2, h3, h4⟩
          · obtain ⟨s', h1, h2, h3, h4⟩ := wr y (.modify p x y) hb (Or.inr ⟨x, rfl⟩)
            exact ⟨s', by simpa [hlk, List.filter_cons] using h1, h2, h3, h4⟩)
    (changedPathOrder (treeOf w.index) t) (nodup_changedPathOrder _ _) hPK s1 hinv1 hq1
  -- every path
  have hall : ∀ p, Q2 p (s2.wd.get p) (s2.index.get p) := by
    intro p
    by_cases hp : p ∈ changedPathOrder (treeOf w.index) t
    · exact hq2 p hp
    · have hpK : p ∉ (treeOf w.index).keys ++ t.keys := fun e => hp ((mem_changedPathOrder _ _ p).mpr e)
      have han : (treeOf w.index).get p = none := by
        cases h : (treeOf w.index).get p with
        | none => rfl
        | some x => exact absurd (List.mem_append_left _ (FMap.mem_keys_of_get h)) hpK
      have hbn : t.get p = none := by
        cases h : t.get p with
        | none => rfl
        | some x => exact absurd (List.mem_append_right _ (FMap.mem_keys_of_get h)) hpK
      simp only [Q2, han, hbn]
      rw [(hout2 p hp).1, (hout2 p hp).2, (hout1 p hp).1, (hout1 p hp).2]
      exact ⟨rfl, rfl⟩
  refine ⟨⟨t, s2.index, s2.wd⟩, ?_, rfl, ?_⟩
  · unfold resetHard
    have happ : applyChanges fl obs ⟨w.wd, w.index⟩ (applyOrder fl (allChanges (treeOf w.index) t)) = (s2, none) := by
      rw [horder, applyChanges_append, happ1]
      exact happ2
    simp only [hpd, happ]
  · refine ⟨?_, ?_, ?_, ?_⟩
    · intro p y hy
      have := hall p
      simp only [Q2, hy] at this
      exact this
    · intro p hn hi
      have := hall p
      obtain ⟨i, hi'⟩ := Option.isSome_iff_exists.mp hi
      have ha : (treeOf w.index).get p = some i.entry := by rw [haget, hi']; rfl
      simp only [Q2, hn, ha] at this
      exact this
    · intro p hn hi
      have := hall p
      have ha : (treeOf w.index).get p = none := by rw [haget, hi]; rfl
      simp only [Q2, hn, ha] at this
      exact ⟨this.1, by rw [this.2, hi]⟩
    · intro k hk
      rw [hKdef]
      exact hinv2 k hk


/-- Where the index has an entry, the work tree has exactly the recorded file and HEAD the same entry;
HEAD has nothing the index lacks: nothing is staged and nothing is unstaged (untracked files may
exist). -/
theorem tracked_synced_nothing_changed {w : World}
    (h1 : ∀ p i, w.index.get p = some i → ∃ f, w.wd.get p = some f ∧ i = f.ientry ∧
      w.head.get p = some f.entry ∧ hasFileAncestor w.wd p = false)
    (h2 : ∀ p h, w.head.get p = some h → (w.index.get p).isSome = true) :
    stagedAdd w.head w.index = [] ∧ stagedDel w.head w.index = [] ∧ stagedMod w.head w.index = [] ∧
    unstagedOf cur w.wd w.index = .ok [] := by
  refine ⟨?_, ?_, ?_, ?_⟩
  · simp only [stagedAdd, List.filter_eq_nil_iff]
    intro p hp
    obtain ⟨i, hi⟩ := FMap.get_of_mem_keys hp
    obtain ⟨f, _, _, hh, _⟩ := h1 p i hi
    simp [FMap.has, hh]
  · simp only [stagedDel, List.filter_eq_nil_iff]
    intro p hp
    obtain ⟨h, hh⟩ := FMap.get_of_mem_keys hp
    obtain ⟨i, hi⟩ := Option.isSome_iff_exists.mp (h2 p h hh)
    simp [FMap.has, hi]
  · simp only [stagedMod, List.filter_eq_nil_iff, modifiedAt]
    intro p hp
    obtain ⟨h, hh⟩ := FMap.get_of_mem_keys hp
    obtain ⟨i, hi⟩ := Option.isSome_iff_exists.mp (h2 p h hh)
    obtain ⟨f, _, hif, hhf, _⟩ := h1 p i hi
    rw [hhf, hi, hif]
    have : ¬ (entryDiffers f.entry f.ientry = true) := by
      rw [entryDiffers_iff]; simp [WFile.ientry, IEntry.entry, WFile.entry]
    simpa using this
  · rw [unstagedOf_cur]
    congr 1
    rw [List.filter_eq_nil_iff]
    intro p hp
    obtain ⟨i, hi⟩ := FMap.get_of_mem_keys hp
    obtain ⟨f, hw, hif, _, hanc⟩ := h1 p i hi
    simp [changedAt, hi, hif, entryChanged, lstatView_noAnc_some hanc hw, WFile.ientry, statMatches_self]

end Dulwich.WorkTree
