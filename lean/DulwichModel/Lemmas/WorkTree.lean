/- Helper lemmas for the work-tree model (C18).  Property theorems live in Props/C18.lean. -/
import DulwichModel.Model.WorkTree
namespace Dulwich.WorkTree
open Dulwich

namespace FMap
variable {α : Type}

@[simp] theorem get_nil (p : Path) : get ([] : FMap α) p = none := rfl

theorem get_cons (k : Path) (v : α) (r : FMap α) (p : Path) :
    get ((k, v) :: r) p = if k = p then some v else get r p := rfl

theorem get_filter_key (m : FMap α) (f : Path → Bool) (p : Path) :
    get (m.filter (fun kv => f kv.1)) p = if f p then m.get p else none := by
  induction m with
  | nil => simp
  | cons kv r ih =>
    obtain ⟨k, v⟩ := kv
    rw [List.filter_cons]
    by_cases hk : k = p
    · subst hk
      by_cases hf : f k <;> simp [hf, get_cons, ih]
    · by_cases hf : f k <;> simp [hf, get_cons, hk, ih]

theorem get_erase_same (m : FMap α) (p : Path) : (erase m p).get p = none := by
  unfold erase; rw [get_filter_key m (fun k => decide (k ≠ p)) p]; simp

theorem get_erase_ne (m : FMap α) {p q : Path} (hq : q ≠ p) : (erase m p).get q = m.get q := by
  unfold erase; rw [get_filter_key m (fun k => decide (k ≠ p)) q]; simp [hq]

theorem get_put_same (m : FMap α) (p : Path) (v : α) : (put m p v).get p = some v := by
  simp [put, get_cons]

theorem get_put_ne (m : FMap α) {p q : Path} (v : α) (hq : q ≠ p) : (put m p v).get q = m.get q := by
  have : ¬ p = q := fun e => hq e.symm
  simp [put, get_cons, this, get_erase_ne m hq]

theorem get_put (m : FMap α) (p q : Path) (v : α) :
    (put m p v).get q = if q = p then some v else m.get q := by
  by_cases h : q = p
  · subst h; simp [get_put_same]
  · simp [h, get_put_ne m v h]

theorem mem_keys_iff (m : FMap α) (p : Path) : p ∈ keys m ↔ (m.get p).isSome = true := by
  induction m with
  | nil => simp [keys]
  | cons kv r ih =>
    obtain ⟨k, v⟩ := kv
    simp only [keys, List.map_cons, List.mem_cons, get_cons] at ih ⊢
    by_cases hk : k = p
    · simp [hk]
    · have : ¬ p = k := fun e => hk e.symm
      simp [hk, this, ih]

theorem mem_keys_of_get {m : FMap α} {p : Path} {v : α} (h : m.get p = some v) : p ∈ keys m := by
  rw [mem_keys_iff, h]; rfl

theorem get_of_mem_keys {m : FMap α} {p : Path} (h : p ∈ keys m) : ∃ v, m.get p = some v := by
  rw [mem_keys_iff] at h
  exact Option.isSome_iff_exists.mp h

theorem has_iff (m : FMap α) (p : Path) : m.has p = true ↔ p ∈ keys m := by
  rw [mem_keys_iff]; rfl

theorem get_mapVal {β : Type} (m : FMap α) (f : Path → α → β) (p : Path) :
    get (m.map (fun kv => (kv.1, f kv.1 kv.2))) p = (m.get p).map (f p) := by
  induction m with
  | nil => simp
  | cons kv r ih =>
    obtain ⟨k, v⟩ := kv
    simp only [List.map_cons, get_cons]
    by_cases hk : k = p
    · subst hk; simp
    · simp [hk, ih]

theorem keys_mapVal {β : Type} (m : FMap α) (f : Path → α → β) :
    keys (m.map (fun kv => (kv.1, f kv.1 kv.2))) = keys m := by
  simp [keys, List.map_map, Function.comp_def]

end FMap

instance {ε α : Type} [DecidableEq ε] [DecidableEq α] : DecidableEq (Except ε α) := fun a b =>
  match a, b with
  | .ok x, .ok y => if h : x = y then isTrue (by rw [h]) else isFalse (fun e => by cases e; exact h rfl)
  | .error x, .error y => if h : x = y then isTrue (by rw [h]) else isFalse (fun e => by cases e; exact h rfl)
  | .ok _, .error _ => isFalse (fun e => by cases e)
  | .error _, .ok _ => isFalse (fun e => by cases e)

/-! ### hypotheses of the exactness theorem, as decidable checks -/

/-- No tracked path lies below a file (or a link leading to a file): `os.lstat` cannot raise
`NotADirectoryError`. -/
def NoTrackedBelowFile (w : World) : Prop := w.index.keys.all (fun p => !blockedByFile w.wd p) = true

/-- Every path of HEAD and of the index is valid UTF-8 (`tree_path_to_fs_path` can decode it). -/
def TrackedUtf8 (w : World) : Prop := (w.head.keys ++ w.index.keys).all validUtf8 = true

/-- The racy-git assumption: a file whose stat key matches the cached one has the cached content. -/
def StatHonest (w : World) : Prop :=
  w.index.keys.all (fun p =>
    match w.index.get p, lstatView w.wd p with
    | some e, .file f => !statMatches f.stat e.stat || f.cid == e.cid
    | _, _ => true) = true

/-- No tracked path differs from its index entry in kind alone (mode-only change, or a type change
that keeps the blob): forced by `_check_entry_for_changes` comparing only blob ids. -/
def KindFollowsContent (w : World) : Prop :=
  w.index.keys.all (fun p =>
    match w.index.get p, lstatView w.wd p with
    | some e, .file f => !(f.cid == e.cid) || decide (f.kind = e.kind)
    | _, _ => true) = true

/-- Looking a walked file up in the index by its *resolved* path gives the same answer as looking it
up by its own path, and no link leads to a directory unless it is tracked: forced by
`path_to_tree_path` resolving links and `os.walk` classifying links to directories as directories. -/
def LinkLookupHarmless (w : World) : Prop :=
  w.wd.keys.all (fun p =>
    match lstatView w.wd p with
    | .file f => (walkedAsFile f && !w.index.has (aliasOf p f)) == !w.index.has p
    | _ => true) = true

instance (w : World) : Decidable (NoTrackedBelowFile w) := by unfold NoTrackedBelowFile; infer_instance
instance (w : World) : Decidable (TrackedUtf8 w) := by unfold TrackedUtf8; infer_instance
instance (w : World) : Decidable (StatHonest w) := by unfold StatHonest; infer_instance
instance (w : World) : Decidable (KindFollowsContent w) := by unfold KindFollowsContent; infer_instance
instance (w : World) : Decidable (LinkLookupHarmless w) := by unfold LinkLookupHarmless; infer_instance

/-! ### status -/

theorem statMatches_self (s : StatKey) : statMatches s s = true := by
  simp [statMatches]

theorem entryDiffers_iff (h : Entry) (i : IEntry) : entryDiffers h i = true ↔ h ≠ i.entry := by
  have e1 : Gen.WorkTree.stagedCmpSha = true := rfl
  have e2 : Gen.WorkTree.stagedCmpMode = true := rfl
  obtain ⟨hk, hc⟩ := h
  obtain ⟨ik, ic, is⟩ := i
  simp only [entryDiffers, e1, e2, Bool.true_and, IEntry.entry, ne_eq, Entry.mk.injEq, Bool.or_eq_true,
    bne_iff_ne, decide_eq_true_eq]
  constructor
  · rintro (h | h) <;> intro ⟨a, b⟩ <;> contradiction
  · intro h
    by_cases hc' : hc = ic
    · right; intro hk'; exact h ⟨hk', hc'⟩
    · left; exact hc'

theorem wdEntry_file {wd : FMap WFile} {p : Path} {f : WFile} (h : lstatView wd p = .file f) :
    wdEntry wd p = some f.entry := by simp [wdEntry, h]

theorem wdEntry_isSome_iff (wd : FMap WFile) (p : Path) :
    (wdEntry wd p).isSome = true ↔ ∃ f, lstatView wd p = .file f := by
  unfold wdEntry
  cases h : lstatView wd p <;> simp

theorem lstatView_file_get {wd : FMap WFile} {p : Path} {f : WFile} (h : lstatView wd p = .file f) :
    wd.get p = some f := by
  unfold lstatView at h
  split at h
  · cases h
  · split at h
    · cases h
    · split at h
      · rename_i g hg; cases h; exact hg
      · split at h <;> cases h

theorem contentDiffers_eq (f : WFile) (e : IEntry) : contentDiffers f e = (f.cid != e.cid) := by
  have e1 : Gen.WorkTree.unstagedCmpSha = true := rfl
  have e2 : Gen.WorkTree.unstagedCmpMode = false := rfl
  simp [contentDiffers, e1, e2]

/-- Under the two hypotheses about the file at `p`, `_check_entry_for_changes` answers exactly
"the working directory's entry differs from the index entry". -/
theorem entryChanged_iff {wd : FMap WFile} {p : Path} {e : IEntry}
    (hstat : ∀ f, lstatView wd p = .file f → statMatches f.stat e.stat = true → f.cid = e.cid)
    (hkind : ∀ f, lstatView wd p = .file f → f.cid = e.cid → f.kind = e.kind) :
    entryChanged wd p e = true ↔ wdEntry wd p ≠ some e.entry := by
  unfold entryChanged wdEntry
  cases hv : lstatView wd p with
  | enoent => simp
  | enotdir => simp
  | dir => simp
  | file f =>
    simp only [contentDiffers_eq, ne_eq, Option.some.injEq]
    have hent : f.entry = e.entry ↔ (f.kind = e.kind ∧ f.cid = e.cid) := by
      simp [WFile.entry, IEntry.entry]
    by_cases hm : statMatches f.stat e.stat = true
    · have hc := hstat f hv hm
      have hk := hkind f hv hc
      simp [hm, hent, hc, hk]
    · by_cases hc : f.cid = e.cid
      · have hk := hkind f hv hc
        simp [hm, hent, hc, hk]
      · simp [hm, hent, hc]

theorem all_get {α : Type} {m : FMap α} {P : Path → Bool} (h : m.keys.all P = true) {p : Path} {v : α}
    (hp : m.get p = some v) : P p = true :=
  (List.all_eq_true.mp h) p (FMap.mem_keys_of_get hp)

/-! ### fresh checkout -/

/-- A flattened tree is well formed when no path lies below another path (a tree object cannot have
a blob and a subtree of the same name). -/
def TreeWF (t : FMap Entry) : Prop := t.keys.all (fun p => !hasFileAncestor t p) = true

instance (t : FMap Entry) : Decidable (TreeWF t) := by unfold TreeWF; infer_instance

theorem checkoutFiles_get (t : FMap Entry) (obs : Obs) (hall : t.keys.all obs.has = true) (p : Path) :
    (checkoutFiles t obs).get p =
      (t.get p).bind (fun e => (obs.get p).map (fun o => (⟨e.kind, e.cid, o.1, o.2⟩ : WFile))) := by
  induction t with
  | nil => simp [checkoutFiles]
  | cons kv r ih =>
    obtain ⟨k, e⟩ := kv
    simp only [FMap.keys, List.map_cons, List.all_cons, Bool.and_eq_true] at hall
    obtain ⟨hk, hr⟩ := hall
    obtain ⟨o, ho⟩ := Option.isSome_iff_exists.mp hk
    have ih' := ih hr
    simp only [checkoutFiles] at ih' ⊢
    rw [List.filterMap_cons]
    simp only [ho, Option.map_some, FMap.get_cons]
    by_cases hkp : k = p
    · subst hkp; simp [ho]
    · simp [hkp, ih']

theorem checkoutFiles_keys (t : FMap Entry) (obs : Obs) (hall : t.keys.all obs.has = true) :
    (checkoutFiles t obs).keys = t.keys := by
  induction t with
  | nil => simp [checkoutFiles, FMap.keys]
  | cons kv r ih =>
    obtain ⟨k, e⟩ := kv
    simp only [FMap.keys, List.map_cons, List.all_cons, Bool.and_eq_true] at hall
    obtain ⟨hk, hr⟩ := hall
    obtain ⟨o, ho⟩ := Option.isSome_iff_exists.mp hk
    have ih' := ih hr
    simp only [checkoutFiles, FMap.keys] at ih' ⊢
    rw [List.filterMap_cons]
    simp [ho, ih']

theorem blocked_imp_anc {wd : FMap WFile} {p : Path} (h : hasFileAncestor wd p = false) :
    blockedByFile wd p = false := by
  unfold blockedByFile
  unfold hasFileAncestor at h
  rw [List.any_eq_false] at h ⊢
  intro k hk
  have := h k hk
  simp at this
  simp [this]

theorem lstatView_noAnc_some {wd : FMap WFile} {p : Path} {f : WFile}
    (h : hasFileAncestor wd p = false) (hg : wd.get p = some f) : lstatView wd p = .file f := by
  unfold lstatView
  simp [blocked_imp_anc h, h, hg]

theorem lstatView_noAnc_none {wd : FMap WFile} {p : Path}
    (h : hasFileAncestor wd p = false) (hg : wd.get p = none) :
    lstatView wd p = if hasDescendant wd p then .dir else .enoent := by
  unfold lstatView
  simp [blocked_imp_anc h, h, hg]

theorem hasFileAncestor_keys {α β : Type} {m : FMap α} {m' : FMap β} (h : m.keys = m'.keys) (p : Path) :
    hasFileAncestor m p = hasFileAncestor m' p := by
  unfold hasFileAncestor; rw [h]

/-- In a freshly checked-out work tree every tree path is seen as the file checkout wrote. -/
theorem checkedOut_view {t : FMap Entry} {obs : Obs} (hall : t.keys.all obs.has = true) (hwf : TreeWF t)
    {p : Path} (hp : p ∈ t.keys) :
    ∃ e o, t.get p = some e ∧ obs.get p = some o ∧
      lstatView (checkoutFiles t obs) p = .file ⟨e.kind, e.cid, o.1, o.2⟩ ∧
      (checkoutFiles t obs).get p = some ⟨e.kind, e.cid, o.1, o.2⟩ := by
  obtain ⟨e, he⟩ := FMap.get_of_mem_keys hp
  have hob := (List.all_eq_true.mp hall) p hp
  obtain ⟨o, ho⟩ := Option.isSome_iff_exists.mp hob
  have hg : (checkoutFiles t obs).get p = some ⟨e.kind, e.cid, o.1, o.2⟩ := by
    rw [checkoutFiles_get t obs hall, he, ho]; rfl
  have hanc : hasFileAncestor (checkoutFiles t obs) p = false := by
    rw [hasFileAncestor_keys (checkoutFiles_keys t obs hall)]
    have := (List.all_eq_true.mp hwf) p hp
    simpa using this
  exact ⟨e, o, he, ho, lstatView_noAnc_some hanc hg, hg⟩

theorem checkedOut_index_get (t : FMap Entry) (obs : Obs) (p : Path) :
    (checkedOut t obs).index.get p = ((checkoutFiles t obs).get p).map WFile.ientry := by
  simp only [checkedOut]
  exact FMap.get_mapVal (checkoutFiles t obs) (fun _ v => v.ientry) p

theorem checkedOut_index_keys (t : FMap Entry) (obs : Obs) (hall : t.keys.all obs.has = true) :
    (checkedOut t obs).index.keys = t.keys := by
  simp only [checkedOut]
  rw [FMap.keys_mapVal (checkoutFiles t obs) (fun _ v => v.ientry), checkoutFiles_keys t obs hall]

/-- Right after a fresh checkout nothing is staged and nothing is unstaged. -/
theorem checkedOut_nothing_changed {t : FMap Entry} {obs : Obs} (hall : t.keys.all obs.has = true)
    (hwf : TreeWF t) :
    stagedAdd t (checkedOut t obs).index = [] ∧ stagedDel t (checkedOut t obs).index = [] ∧
    stagedMod t (checkedOut t obs).index = [] ∧
    unstagedOf (checkedOut t obs).wd (checkedOut t obs).index = .ok [] := by
  have hcatch : Gen.WorkTree.unstagedCatchesNotDir = false := rfl
  have hik := checkedOut_index_keys t obs hall
  refine ⟨?_, ?_, ?_, ?_⟩
  · simp only [stagedAdd, List.filter_eq_nil_iff, hik]
    intro p hp
    simp [(FMap.has_iff t p).mpr hp]
  · simp only [stagedDel, List.filter_eq_nil_iff]
    intro p hp
    have : (checkedOut t obs).index.has p = true := by rw [FMap.has_iff, hik]; exact hp
    simp [this]
  · simp only [stagedMod, List.filter_eq_nil_iff, modifiedAt]
    intro p hp
    obtain ⟨e, o, he, ho, _, hg⟩ := checkedOut_view hall hwf hp
    rw [he, checkedOut_index_get, hg]
    simp only [Option.map_some]
    have : ¬ (entryDiffers e (WFile.ientry ⟨e.kind, e.cid, o.1, o.2⟩) = true) := by
      rw [entryDiffers_iff]; simp [WFile.ientry, IEntry.entry]
    simpa using this
  · unfold unstagedOf
    have hnd : (checkedOut t obs).index.keys.any (lstatRaisesNotDir (checkedOut t obs).wd) = false := by
      rw [List.any_eq_false, hik]
      intro p hp
      obtain ⟨e, o, _, _, hv, _⟩ := checkedOut_view hall hwf hp
      have hanc : hasFileAncestor (checkoutFiles t obs) p = false := by
        rw [hasFileAncestor_keys (checkoutFiles_keys t obs hall)]
        simpa using (List.all_eq_true.mp hwf) p hp
      simp [lstatRaisesNotDir, hcatch, checkedOut, blocked_imp_anc hanc]
    simp only [hnd, Bool.false_eq_true, if_false]
    congr 1
    rw [List.filter_eq_nil_iff, hik]
    intro p hp
    obtain ⟨e, o, he, ho, hv, hg⟩ := checkedOut_view hall hwf hp
    simp only [changedAt, checkedOut_index_get, hg, Option.map_some]
    simp [entryChanged, checkedOut, hv, WFile.ientry, statMatches_self]

/-! ### staging a list of paths -/

theorem stage_wd (w : World) (p : Path) : (stage w p).wd = w.wd := by
  unfold stage; split <;> rfl

theorem stage_head (w : World) (p : Path) : (stage w p).head = w.head := by
  unfold stage; split <;> rfl

theorem foldl_stage_wd (L : List Path) (w : World) : (L.foldl stage w).wd = w.wd := by
  induction L generalizing w with
  | nil => rfl
  | cons p r ih => simp [List.foldl_cons, ih, stage_wd]

theorem foldl_stage_head (L : List Path) (w : World) : (L.foldl stage w).head = w.head := by
  induction L generalizing w with
  | nil => rfl
  | cons p r ih => simp [List.foldl_cons, ih, stage_head]

/-- Staging paths whose files are already recorded as they are changes no index lookup. -/
theorem foldl_stage_same (L : List Path) (w : World)
    (h : ∀ p ∈ L, ∃ f, lstatView w.wd p = .file f ∧ w.index.get p = some f.ientry) (q : Path) :
    (L.foldl stage w).index.get q = w.index.get q := by
  induction L generalizing w with
  | nil => rfl
  | cons p r ih =>
    obtain ⟨f, hv, hi⟩ := h p List.mem_cons_self
    have hst : stage w p = { w with index := w.index.put p f.ientry } := by
      unfold stage; rw [hv]
    have hget : ∀ q, (stage w p).index.get q = w.index.get q := by
      intro q
      rw [hst]
      simp only [FMap.get_put]
      split
      · rename_i e; rw [e, hi]
      · rfl
    rw [List.foldl_cons, ih (stage w p), hget]
    intro p' hp'
    obtain ⟨f', hv', hi'⟩ := h p' (List.mem_cons_of_mem _ hp')
    exact ⟨f', by rw [stage_wd]; exact hv', by rw [hget]; exact hi'⟩

/-- Staging a list of paths that are all files records exactly those files. -/
theorem foldl_stage_files (L : List Path) (w : World)
    (h : ∀ p ∈ L, ∃ f, lstatView w.wd p = .file f) (q : Path) :
    (L.foldl stage w).index.get q =
      if q ∈ L then (w.wd.get q).map WFile.ientry else w.index.get q := by
  induction L generalizing w with
  | nil => simp
  | cons p r ih =>
    obtain ⟨f, hv⟩ := h p List.mem_cons_self
    have hst : stage w p = { w with index := w.index.put p f.ientry } := by
      unfold stage; rw [hv]
    have hr : ∀ p' ∈ r, ∃ f, lstatView (stage w p).wd p' = .file f := by
      intro p' hp'
      rw [stage_wd]; exact h p' (List.mem_cons_of_mem _ hp')
    rw [List.foldl_cons, ih (stage w p) hr, stage_wd]
    by_cases hqr : q ∈ r
    · simp [hqr]
    · simp only [hqr, if_false, List.mem_cons, or_false]
      rw [hst]
      simp only [FMap.get_put]
      split
      · rename_i e; rw [e, lstatView_file_get hv]; rfl
      · rfl

end Dulwich.WorkTree
