/- Helper lemmas for the work-tree model (C18).  Property theorems live in Props/C18.lean. -/
import DulwichModel.Model.WorkTree
namespace Dulwich.WorkTree
open Dulwich

namespace FMap
variable {α : Type}

@[simp] theorem get_nil (p : Path) : get ([] : FMap α) p = none := rfl

theorem get_cons (k : Path) (v : α) (r : FMap α) (p : Path) :
    get ((k, v) :: r) p = if k = p then some v else get r p := rfl

theorem get_filter_key (m : FMap α) (f : Path → Bool) (p : Path) :
    get (m.filter (fun kv => f kv.1)) p = if f p then m.get p else none := by
  induction m with
  | nil => simp
  | cons kv r ih =>
    obtain ⟨k, v⟩ := kv
    rw [List.filter_cons]
    by_cases hk : k = p
    · subst hk
      by_cases hf : f k <;> simp [hf, get_cons, ih]
    · by_cases hf : f k <;> simp [hf, get_cons, hk, ih]

theorem get_erase_same (m : FMap α) (p : Path) : (erase m p).get p = none := by
  unfold erase; rw [get_filter_key m (fun k => decide (k ≠ p)) p]; simp

theorem get_erase_ne (m : FMap α) {p q : Path} (hq : q ≠ p) : (erase m p).get q = m.get q := by
  unfold erase; rw [get_filter_key m (fun k => decide (k ≠ p)) q]; simp [hq]

theorem get_put_same (m : FMap α) (p : Path) (v : α) : (put m p v).get p = some v := by
  simp [put, get_cons]

theorem get_put_ne (m : FMap α) {p q : Path} (v : α) (hq : q ≠ p) : (put m p v).get q = m.get q := by
  have : ¬ p = q := fun e => hq e.symm
  simp [put, get_cons, this, get_erase_ne m hq]

theorem get_put (m : FMap α) (p q : Path) (v : α) :
    (put m p v).get q = if q = p then some v else m.get q := by
  by_cases h : q = p
  · subst h; simp [get_put_same]
  · simp [h, get_put_ne m v h]

theorem mem_keys_iff (m : FMap α) (p : Path) : p ∈ keys m ↔ (m.get p).isSome = true := by
  induction m with
  | nil => simp [keys]
  | cons kv r ih =>
    obtain ⟨k, v⟩ := kv
    simp only [keys, List.map_cons, List.mem_cons, get_cons] at ih ⊢
    by_cases hk : k = p
    · simp [hk]
    · have : ¬ p = k := fun e => hk e.symm
      simp [hk, this, ih]

theorem mem_keys_of_get {m : FMap α} {p : Path} {v : α} (h : m.get p = some v) : p ∈ keys m := by
  rw [mem_keys_iff, h]; rfl

theorem get_of_mem_keys {m : FMap α} {p : Path} (h : p ∈ keys m) : ∃ v, m.get p = some v := by
  rw [mem_keys_iff] at h
  exact Option.isSome_iff_exists.mp h

theorem has_iff (m : FMap α) (p : Path) : m.has p = true ↔ p ∈ keys m := by
  rw [mem_keys_iff]; rfl

theorem get_mapVal {β : Type} (m : FMap α) (f : Path → α → β) (p : Path) :
    get (m.map (fun kv => (kv.1, f kv.1 kv.2))) p = (m.get p).map (f p) := by
  induction m with
  | nil => simp
  | cons kv r ih =>
    obtain ⟨k, v⟩ := kv
    simp only [List.map_cons, get_cons]
    by_cases hk : k = p
    · subst hk; simp
    · simp [hk, ih]

theorem keys_mapVal {β : Type} (m : FMap α) (f : Path → α → β) :
    keys (m.map (fun kv => (kv.1, f kv.1 kv.2))) = keys m := by
  simp [keys, List.map_map, Function.comp_def]

end FMap

instance {ε α : Type} [DecidableEq ε] [DecidableEq α] : DecidableEq (Except ε α) := fun a b =>
  match a, b with
  | .ok x, .ok y => if h : x = y then isTrue (by rw [h]) else isFalse (fun e => by cases e; exact h rfl)
  | .error x, .error y => if h : x = y then isTrue (by rw [h]) else isFalse (fun e => by cases e; exact h rfl)
  | .ok _, .error _ => isFalse (fun e => by cases e)
  | .error _, .ok _ => isFalse (fun e => by cases e)

/-! ### hypotheses of the exactness theorem, as decidable checks -/

/-- No tracked path lies below a file (or a link leading to a file): `os.lstat` cannot raise
`NotADirectoryError`. -/
def NoTrackedBelowFile (w : World) : Prop := w.index.keys.all (fun p => !blockedByFile w.wd p) = true

/-- Every path of HEAD and of the index is valid UTF-8 (`tree_path_to_fs_path` can decode it). -/
def TrackedUtf8 (w : World) : Prop := (w.head.keys ++ w.index.keys).all validUtf8 = true

/-- The racy-git assumption: a file whose stat key matches the cached one has the cached content. -/
def StatHonest (w : World) : Prop :=
  w.index.keys.all (fun p =>
    match w.index.get p, lstatView w.wd p with
    | some e, .file f => !statMatches f.stat e.stat || f.cid == e.cid
    | _, _ => true) = true

/-- No tracked path differs from its index entry in kind alone (mode-only change, or a type change
that keeps the blob): forced by `_check_entry_for_changes` comparing only blob ids. -/
def KindFollowsContent (w : World) : Prop :=
  w.index.keys.all (fun p =>
    match w.index.get p, lstatView w.wd p with
    | some e, .file f => !(f.cid == e.cid) || decide (f.kind = e.kind)
    | _, _ => true) = true

/-- Looking a walked file up in the index by its *resolved* path gives the same answer as looking it
up by its own path, and no link leads to a directory unless it is tracked: forced by
`path_to_tree_path` resolving links and `os.walk` classifying links to directories as directories. -/
def LinkLookupHarmless (w : World) : Prop :=
  w.wd.keys.all (fun p =>
    match lstatView w.wd p with
    | .file f => (walkedAsFile f && !w.index.has (aliasOf p f)) == !w.index.has p
    | _ => true) = true

instance (w : World) : Decidable (NoTrackedBelowFile w) := by unfold NoTrackedBelowFile; infer_instance
instance (w : World) : Decidable (TrackedUtf8 w) := by unfold TrackedUtf8; infer_instance
instance (w : World) : Decidable (StatHonest w) := by unfold StatHonest; infer_instance
instance (w : World) : Decidable (KindFollowsContent w) := by unfold KindFollowsContent; infer_instance
instance (w : World) : Decidable (LinkLookupHarmless w) := by unfold LinkLookupHarmless; infer_instance

/-! ### status -/

theorem statMatches_self (s : StatKey) : statMatches s s = true := by
  simp [statMatches]

theorem entryDiffers_iff (h : Entry) (i : IEntry) : entryDiffers h i = true ↔ h ≠ i.entry := by
  have e1 : Gen.WorkTree.stagedCmpSha = true := rfl
  have e2 : Gen.WorkTree.stagedCmpMode = true := rfl
  obtain ⟨hk, hc⟩ := h
  obtain ⟨ik, ic, is⟩ := i
  simp only [entryDiffers, e1, e2, Bool.true_and, IEntry.entry, ne_eq, Entry.mk.injEq, Bool.or_eq_true,
    bne_iff_ne, decide_eq_true_eq]
  constructor
  · rintro (h | h) <;> intro ⟨a, b⟩ <;> contradiction
  · intro h
    by_cases hc' : hc = ic
    · right; intro hk'; exact h ⟨hk', hc'⟩
    · left; exact hc'

theorem wdEntry_file {wd : FMap WFile} {p : Path} {f : WFile} (h : lstatView wd p = .file f) :
    wdEntry wd p = some f.entry := by simp [wdEntry, h]

theorem wdEntry_isSome_iff (wd : FMap WFile) (p : Path) :
    (wdEntry wd p).isSome = true ↔ ∃ f, lstatView wd p = .file f := by
  unfold wdEntry
  cases h : lstatView wd p <;> simp

theorem lstatView_file_get {wd : FMap WFile} {p : Path} {f : WFile} (h : lstatView wd p = .file f) :
    wd.get p = some f := by
  unfold lstatView at h
  split at h
  · cases h
  · split at h
    · cases h
    · split at h
      · rename_i g hg; cases h; exact hg
      · split at h <;> cases h

theorem contentDiffers_eq (f : WFile) (e : IEntry) : contentDiffers f e = (f.cid != e.cid) := by
  have e1 : Gen.WorkTree.unstagedCmpSha = true := rfl
  have e2 : Gen.WorkTree.unstagedCmpMode = false := rfl
  simp [contentDiffers, e1, e2]

/-- Under the two hypotheses about the file at `p`, `_check_entry_for_changes` answers exactly
"the working directory's entry differs from the index entry". -/
theorem entryChanged_iff {wd : FMap WFile} {p : Path} {e : IEntry}
    (hstat : ∀ f, lstatView wd p = .file f → statMatches f.stat e.stat = true → f.cid = e.cid)
    (hkind : ∀ f, lstatView wd p = .file f → f.cid = e.cid → f.kind = e.kind) :
    entryChanged wd p e = true ↔ wdEntry wd p ≠ some e.entry := by
  unfold entryChanged wdEntry
  cases hv : lstatView wd p with
  | enoent => simp
  | enotdir => simp
  | dir => simp
  | file f =>
    simp only [contentDiffers_eq, ne_eq, Option.some.injEq]
    have hent : f.entry = e.entry ↔ (f.kind = e.kind ∧ f.cid = e.cid) := by
      simp [WFile.entry, IEntry.entry]
    by_cases hm : statMatches f.stat e.stat = true
    · have hc := hstat f hv hm
      have hk := hkind f hv hc
      simp [hm, hent, hc, hk]
    · by_cases hc : f.cid = e.cid
      · have hk := hkind f hv hc
        simp [hm, hent, hc, hk]
      · simp [hm, hent, hc]

theorem all_get {α : Type} {m : FMap α} {P : Path → Bool} (h : m.keys.all P = true) {p : Path} {v : α}
    (hp : m.get p = some v) : P p = true :=
  (List.all_eq_true.mp h) p (FMap.mem_keys_of_get hp)

/-! ### fresh checkout -/

/-- A flattened tree is well formed when no path lies below another path (a tree object cannot have
a blob and a subtree of the same name). -/
def TreeWF (t : FMap Entry) : Prop := t.keys.all (fun p => !hasFileAncestor t p) = true

instance (t : FMap Entry) : Decidable (TreeWF t) := by unfold TreeWF; infer_instance

theorem checkoutFiles_get (t : FMap Entry) (obs : Obs) (hall : t.keys.all obs.has = true) (p : Path) :
    (checkoutFiles t obs).get p =
      (t.get p).bind (fun e => (obs.get p).map (fun o => (⟨e.kind, e.cid, o.1, o.2⟩ : WFile))) := by
  induction t with
  | nil => simp [checkoutFiles]
  | cons kv r ih =>
    obtain ⟨k, e⟩ := kv
    simp only [FMap.keys, List.map_cons, List.all_cons, Bool.and_eq_true] at hall
    obtain ⟨hk, hr⟩ := hall
    obtain ⟨o, ho⟩ := Option.isSome_iff_exists.mp hk
    have ih' := ih hr
    simp only [checkoutFiles] at ih' ⊢
    rw [List.filterMap_cons]
    simp only [ho, Option.map_some, FMap.get_cons]
    by_cases hkp : k = p
    · subst hkp; simp [ho]
    · simp [hkp, ih']

theorem checkoutFiles_keys (t : FMap Entry) (obs : Obs) (hall : t.keys.all obs.has = true) :
    (checkoutFiles t obs).keys = t.keys := by
  induction t with
  | nil => simp [checkoutFiles, FMap.keys]
  | cons kv r ih =>
    obtain ⟨k, e⟩ := kv
    simp only [FMap.keys, List.map_cons, List.all_cons, Bool.and_eq_true] at hall
    obtain ⟨hk, hr⟩ := hall
    obtain ⟨o, ho⟩ := Option.isSome_iff_exists.mp hk
    have ih' := ih hr
    simp only [checkoutFiles, FMap.keys] at ih' ⊢
    rw [List.filterMap_cons]
    simp [ho, ih']

theorem blocked_imp_anc {wd : FMap WFile} {p : Path} (h : hasFileAncestor wd p = false) :
    blockedByFile wd p = false := by
  unfold blockedByFile
  unfold hasFileAncestor at h
  rw [List.any_eq_false] at h ⊢
  intro k hk
  have := h k hk
  simp at this
  simp [this]

theorem lstatView_noAnc_some {wd : FMap WFile} {p : Path} {f : WFile}
    (h : hasFileAncestor wd p = false) (hg : wd.get p = some f) : lstatView wd p = .file f := by
  unfold lstatView
  simp [blocked_imp_anc h, h, hg]

theorem lstatView_noAnc_none {wd : FMap WFile} {p : Path}
    (h : hasFileAncestor wd p = false) (hg : wd.get p = none) :
    lstatView wd p = if hasDescendant wd p then .dir else .enoent := by
  unfold lstatView
  simp [blocked_imp_anc h, h, hg]

theorem hasFileAncestor_keys {α β : Type} {m : FMap α} {m' : FMap β} (h : m.keys = m'.keys) (p : Path) :
    hasFileAncestor m p = hasFileAncestor m' p := by
  unfold hasFileAncestor; rw [h]

/-- In a freshly checked-out work tree every tree path is seen as the file checkout wrote. -/
theorem checkedOut_view {t : FMap Entry} {obs : Obs} (hall : t.keys.all obs.has = true) (hwf : TreeWF t)
    {p : Path} (hp : p ∈ t.keys) :
    ∃ e o, t.get p = some e ∧ obs.get p = some o ∧
      lstatView (checkoutFiles t obs) p = .file ⟨e.kind, e.cid, o.1, o.2⟩ ∧
      (checkoutFiles t obs).get p = some ⟨e.kind, e.cid, o.1, o.2⟩ := by
  obtain ⟨e, he⟩ := FMap.get_of_mem_keys hp
  have hob := (List.all_eq_true.mp hall) p hp
  obtain ⟨o, ho⟩ := Option.isSome_iff_exists.mp hob
  have hg : (checkoutFiles t obs).get p = some ⟨e.kind, e.cid, o.1, o.2⟩ := by
    rw [checkoutFiles_get t obs hall, he, ho]; rfl
  have hanc : hasFileAncestor (checkoutFiles t obs) p = false := by
    rw [hasFileAncestor_keys (checkoutFiles_keys t obs hall)]
    have := (List.all_eq_true.mp hwf) p hp
    simpa using this
  exact ⟨e, o, he, ho, lstatView_noAnc_some hanc hg, hg⟩

theorem checkedOut_index_get (t : FMap Entry) (obs : Obs) (p : Path) :
    (checkedOut t obs).index.get p = ((checkoutFiles t obs).get p).map WFile.ientry := by
  simp only [checkedOut]
  exact FMap.get_mapVal (checkoutFiles t obs) (fun _ v => v.ientry) p

theorem checkedOut_index_keys (t : FMap Entry) (obs : Obs) (hall : t.keys.all obs.has = true) :
    (checkedOut t obs).index.keys = t.keys := by
  simp only [checkedOut]
  rw [FMap.keys_mapVal (checkoutFiles t obs) (fun _ v => v.ientry), checkoutFiles_keys t obs hall]

/-- Right after a fresh checkout nothing is staged and nothing is unstaged. -/
theorem checkedOut_nothing_changed {t : FMap Entry} {obs : Obs} (hall : t.keys.all obs.has = true)
    (hwf : TreeWF t) :
    stagedAdd t (checkedOut t obs).index = [] ∧ stagedDel t (checkedOut t obs).index = [] ∧
    stagedMod t (checkedOut t obs).index = [] ∧
    unstagedOf (checkedOut t obs).wd (checkedOut t obs).index = .ok [] := by
  have hcatch : Gen.WorkTree.unstagedCatchesNotDir = false := rfl
  have hik := checkedOut_index_keys t obs hall
  refine ⟨?_, ?_, ?_, ?_⟩
  · simp only [stagedAdd, List.filter_eq_nil_iff, hik]
    intro p hp
    simp [(FMap.has_iff t p).mpr hp]
  · simp only [stagedDel, List.filter_eq_nil_iff]
    intro p hp
    have : (checkedOut t obs).index.has p = true := by rw [FMap.has_iff, hik]; exact hp
    simp [this]
  · simp only [stagedMod, List.filter_eq_nil_iff, modifiedAt]
    intro p hp
    obtain ⟨e, o, he, ho, _, hg⟩ := checkedOut_view hall hwf hp
    rw [he, checkedOut_index_get, hg]
    simp only [Option.map_some]
    have : ¬ (entryDiffers e (WFile.ientry ⟨e.kind, e.cid, o.1, o.2⟩) = true) := by
      rw [entryDiffers_iff]; simp [WFile.ientry, IEntry.entry]
    simpa using this
  · unfold unstagedOf
    have hnd : (checkedOut t obs).index.keys.any (lstatRaisesNotDir (checkedOut t obs).wd) = false := by
      rw [List.any_eq_false, hik]
      intro p hp
      obtain ⟨e, o, _, _, hv, _⟩ := checkedOut_view hall hwf hp
      have hanc : hasFileAncestor (checkoutFiles t obs) p = false := by
        rw [hasFileAncestor_keys (checkoutFiles_keys t obs hall)]
        simpa using (List.all_eq_true.mp hwf) p hp
      simp [lstatRaisesNotDir, hcatch, checkedOut, blocked_imp_anc hanc]
    simp only [hnd, Bool.false_eq_true, if_false]
    congr 1
    rw [List.filter_eq_nil_iff, hik]
    intro p hp
    obtain ⟨e, o, he, ho, hv, hg⟩ := checkedOut_view hall hwf hp
    simp only [changedAt, checkedOut_index_get, hg, Option.map_some]
    simp [entryChanged, checkedOut, hv, WFile.ientry, statMatches_self]

/-! ### staging a list of paths -/

theorem stage_wd (w : World) (p : Path) : (stage w p).wd = w.wd := by
  unfold stage; split <;> rfl

theorem stage_head (w : World) (p : Path) : (stage w p).head = w.head := by
  unfold stage; split <;> rfl

theorem foldl_stage_wd (L : List Path) (w : World) : (L.foldl stage w).wd = w.wd := by
  induction L generalizing w with
  | nil => rfl
  | cons p r ih => simp [List.foldl_cons, ih, stage_wd]

theorem foldl_stage_head (L : List Path) (w : World) : (L.foldl stage w).head = w.head := by
  induction L generalizing w with
  | nil => rfl
  | cons p r ih => simp [List.foldl_cons, ih, stage_head]

/-- Staging paths whose files are already recorded as they are changes no index lookup. -/
theorem foldl_stage_same (L : List Path) (w : World)
    (h : ∀ p ∈ L, ∃ f, lstatView w.wd p = .file f ∧ w.index.get p = some f.ientry) (q : Path) :
    (L.foldl stage w).index.get q = w.index.get q := by
  induction L generalizing w with
  | nil => rfl
  | cons p r ih =>
    obtain ⟨f, hv, hi⟩ := h p List.mem_cons_self
    have hst : stage w p = { w with index := w.index.put p f.ientry } := by
      unfold stage; rw [hv]
    have hget : ∀ q, (stage w p).index.get q = w.index.get q := by
      intro q
      rw [hst]
      simp only [FMap.get_put]
      split
      · rename_i e; rw [e, hi]
      · rfl
    rw [List.foldl_cons, ih (stage w p), hget]
    intro p' hp'
    obtain ⟨f', hv', hi'⟩ := h p' (List.mem_cons_of_mem _ hp')
    exact ⟨f', by rw [stage_wd]; exact hv', by rw [hget]; exact hi'⟩

/-- Staging a list of paths that are all files records exactly those files. -/
theorem foldl_stage_files (L : List Path) (w : World)
    (h : ∀ p ∈ L, ∃ f, lstatView w.wd p = .file f) (q : Path) :
    (L.foldl stage w).index.get q =
      if q ∈ L then (w.wd.get q).map WFile.ientry else w.index.get q := by
  induction L generalizing w with
  | nil => simp
  | cons p r ih =>
    obtain ⟨f, hv⟩ := h p List.mem_cons_self
    have hst : stage w p = { w with index := w.index.put p f.ientry } := by
      unfold stage; rw [hv]
    have hr : ∀ p' ∈ r, ∃ f, lstatView (stage w p).wd p' = .file f := by
      intro p' hp'
      rw [stage_wd]; exact h p' (List.mem_cons_of_mem _ hp')
    rw [List.foldl_cons, ih (stage w p) hr, stage_wd]
    by_cases hqr : q ∈ r
    · simp [hqr]
    · simp only [hqr, if_false, List.mem_cons, or_false]
      rw [hst]
      simp only [FMap.get_put]
      split
      · rename_i e; rw [e, lstatView_file_get hv]; rfl
      · rfl

/-! ## branch switch -/

/-! ### order of changes -/

theorem mem_insertPath (p q : Path) (l : List Path) : q ∈ insertPath p l ↔ q = p ∨ q ∈ l := by
  induction l with
  | nil => simp [insertPath]
  | cons x r ih =>
    unfold insertPath
    split
    · rename_i h; subst h; simp
    · split
      · simp
      · simp only [List.mem_cons, ih]
        constructor
        · rintro (h | h | h)
          · exact Or.inr (Or.inl h)
          · exact Or.inl h
          · exact Or.inr (Or.inr h)
        · rintro (h | h | h)
          · exact Or.inr (Or.inl h)
          · exact Or.inl h
          · exact Or.inr (Or.inr h)

theorem mem_sortPaths (q : Path) (l : List Path) : q ∈ sortPaths l ↔ q ∈ l := by
  induction l with
  | nil => simp [sortPaths]
  | cons x r ih =>
    have : sortPaths (x :: r) = insertPath x (sortPaths r) := rfl
    rw [this, mem_insertPath, ih]; simp

theorem nodup_insertPath {p : Path} {l : List Path} (hp : p ∉ l) (hl : l.Nodup) : (insertPath p l).Nodup := by
  induction l with
  | nil => simp [insertPath]
  | cons x r ih =>
    have hx : p ≠ x := fun e => hp (e ▸ List.mem_cons_self)
    have hr : p ∉ r := fun e => hp (List.mem_cons_of_mem _ e)
    rw [List.nodup_cons] at hl
    unfold insertPath
    simp only [hx, if_false]
    split
    · rw [List.nodup_cons]
      exact ⟨hp, List.nodup_cons.mpr hl⟩
    · rw [List.nodup_cons]
      refine ⟨?_, ih hr hl.2⟩
      rw [mem_insertPath]
      rintro (h | h)
      · exact hx h.symm
      · exact hl.1 h

theorem mem_dedupPaths (q : Path) (l : List Path) : q ∈ dedupPaths l ↔ q ∈ l := by
  induction l with
  | nil => simp [dedupPaths]
  | cons x r ih =>
    unfold dedupPaths
    split
    · rename_i h
      rw [ih]
      constructor
      · exact List.mem_cons_of_mem _
      · intro h'
        rcases List.mem_cons.mp h' with e | e
        · rw [e]; exact h
        · exact e
    · simp [ih]

theorem nodup_dedupPaths (l : List Path) : (dedupPaths l).Nodup := by
  induction l with
  | nil => simp [dedupPaths]
  | cons x r ih =>
    unfold dedupPaths
    split
    · exact ih
    · rename_i h
      rw [List.nodup_cons]
      exact ⟨fun e => h ((mem_dedupPaths x r).mp e), ih⟩

theorem nodup_sortPaths {l : List Path} (h : l.Nodup) : (sortPaths l).Nodup := by
  induction l with
  | nil => simp [sortPaths]
  | cons x r ih =>
    rw [List.nodup_cons] at h
    have : sortPaths (x :: r) = insertPath x (sortPaths r) := rfl
    rw [this]
    exact nodup_insertPath (fun e => h.1 ((mem_sortPaths x r).mp e)) (ih h.2)

theorem mem_changedPathOrder (a b : FMap Entry) (p : Path) :
    p ∈ changedPathOrder a b ↔ p ∈ a.keys ++ b.keys := by
  unfold changedPathOrder; rw [mem_sortPaths, mem_dedupPaths]

theorem nodup_changedPathOrder (a b : FMap Entry) : (changedPathOrder a b).Nodup :=
  nodup_sortPaths (nodup_dedupPaths _)


namespace FMap
variable {α : Type}

theorem mem_keys_erase {m : FMap α} {p k : Path} (h : k ∈ (erase m p).keys) : k ∈ m.keys := by
  simp only [keys, erase, List.mem_map, List.mem_filter] at h ⊢
  obtain ⟨kv, ⟨hkv, _⟩, hk⟩ := h
  exact ⟨kv, hkv, hk⟩

theorem mem_keys_put {m : FMap α} {p k : Path} {v : α} (h : k ∈ (put m p v).keys) : k = p ∨ k ∈ m.keys := by
  simp only [put, keys, List.map_cons, List.mem_cons] at h
  rcases h with h | h
  · exact Or.inl h
  · exact Or.inr (mem_keys_erase h)

end FMap

def fileOf (y : Entry) (o : StatKey × LinkRes) : WFile := ⟨y.kind, y.cid, o.1, o.2⟩

theorem transitionToAbsent_file {s : WT} {p : Path} {f : WFile} (hv : validPath p = true)
    (hview : lstatView s.wd p = .file f) :
    transitionToAbsent s p = .ok ⟨s.wd.erase p, s.index.erase p⟩ := by
  unfold transitionToAbsent
  simp [hv, hview]

theorem transitionToFile_absent {obs : Obs} {s : WT} {p : Path} {e : Entry} {o : StatKey × LinkRes}
    (hv : validPath p = true) (hl : hasLinkAncestor s.wd p = false)
    (hview : lstatView s.wd p = .enoent) (ho : obs.get p = some o) :
    transitionToFile obs s p e = .ok ⟨s.wd.put p (fileOf e o), s.index.put p (fileOf e o).ientry⟩ := by
  unfold transitionToFile writeFile
  simp [hv, hl, hview, ho, fileOf, WFile.ientry]

theorem transitionToFile_differs {obs : Obs} {s : WT} {p : Path} {e : Entry} {o : StatKey × LinkRes} {f : WFile}
    (hv : validPath p = true) (hl : hasLinkAncestor s.wd p = false)
    (hview : lstatView s.wd p = .file f) (hne : f.entry ≠ e) (hsame : isLink f.kind = isLink e.kind)
    (ho : obs.get p = some o) :
    transitionToFile obs s p e = .ok ⟨s.wd.put p (fileOf e o), s.index.put p (fileOf e o).ientry⟩ := by
  unfold transitionToFile writeFile
  have hm : (if isLink f.kind = true then f.cid == e.cid else fileMatches f e) = false := by
    obtain ⟨fk, fc, fs, fr⟩ := f
    obtain ⟨ek, ec⟩ := e
    simp only [WFile.entry, ne_eq, Entry.mk.injEq, not_and] at hne
    simp only [fileMatches]
    simp only at hsame
    split
    · rename_i hlk
      have h1 : fk = .symlink := by simpa [isLink] using hlk
      have h2 : ek = .symlink := by rw [hlk] at hsame; simpa [isLink] using hsame.symm
      simpa using hne (h1.trans h2.symm)
    · rename_i hlk
      have h1 : fk ≠ .symlink := by simpa [isLink] using hlk
      have h2 : ek ≠ .symlink := by
        intro e; rw [e] at hsame; simp [isLink] at hsame; exact h1 hsame
      by_cases hk : fk = ek
      · simpa [hk] using hne hk
      · cases fk <;> cases ek <;> simp_all
  simp [hv, hl, hview, ho, hm, fileOf, WFile.ientry]


/-- The file the switch leaves at `p`: nothing if `b` has nothing there, the untouched old file if
the entry is unchanged, otherwise a freshly written file. -/
def targetWd (a b : FMap Entry) (fA : FMap WFile) (obs : Obs) (p : Path) : Option WFile :=
  match b.get p with
  | none => none
  | some y => if a.get p = some y then fA.get p else (obs.get p).map (fileOf y)

theorem applyChanges_one {obs : Obs} {s s' : WT} {c : Change} (h : applyChange obs s c = .ok s') :
    applyChanges obs s [c] = (s', none) := by
  simp [applyChanges, h]

theorem applyChanges_two {obs : Obs} {s s' s'' : WT} {c d : Change} (h : applyChange obs s c = .ok s')
    (h' : applyChange obs s' d = .ok s'') :
    applyChanges obs s [c, d] = (s'', none) := by
  simp [applyChanges, h, h']

theorem applyChanges_append (obs : Obs) (s : WT) (c1 c2 : List Change) :
    applyChanges obs s (c1 ++ c2) =
      match applyChanges obs s c1 with
      | (s', none) => applyChanges obs s' c2
      | (s', some e) => (s', some e) := by
  induction c1 generalizing s with
  | nil => simp [applyChanges]
  | cons c r ih =>
    simp only [List.cons_append, applyChanges]
    cases h : applyChange obs s c with
    | ok s1 => simp only [ih]
    | error e => simp

theorem foldl_ok {β : Type} (step : Except WErr Unit → β → Except WErr Unit) (l : List β)
    (h : ∀ x ∈ l, step (.ok ()) x = .ok ()) : l.foldl step (.ok ()) = .ok () := by
  induction l with
  | nil => rfl
  | cons x r ih =>
    rw [List.foldl_cons, h x List.mem_cons_self]
    exact ih (fun y hy => h y (List.mem_cons_of_mem _ hy))

def Change.path : Change → Path
  | .delete p _ => p
  | .add p _ => p
  | .modify p _ _ => p

theorem changesAt_mem {a b : FMap Entry} {p : Path} {ch : Change} (h : ch ∈ changesAt a b p) :
    ch.path = p ∧ (∀ q old, ch = .delete q old → a.get p = some old) ∧
    (∀ q old n, ch = .modify q old n → a.get p = some old) := by
  unfold changesAt at h
  cases ha : a.get p <;> cases hb : b.get p <;> simp only [ha, hb] at h
  · cases h
  · simp only [List.mem_singleton] at h; subst h
    exact ⟨rfl, fun _ _ e => (by cases e), fun _ _ _ e => (by cases e)⟩
  · simp only [List.mem_singleton] at h; subst h
    exact ⟨rfl, fun _ _ e => (by cases e; rfl), fun _ _ _ e => (by cases e)⟩
  · rename_i x y
    split at h
    · cases h
    · split at h
      · simp only [List.mem_cons, List.not_mem_nil, or_false] at h
        rcases h with h | h <;> subst h
        · exact ⟨rfl, fun _ _ e => (by cases e; rfl), fun _ _ _ e => (by cases e)⟩
        · exact ⟨rfl, fun _ _ e => (by cases e), fun _ _ _ e => (by cases e)⟩
      · simp only [List.mem_singleton] at h; subst h
        exact ⟨rfl, fun _ _ e => (by cases e), fun _ _ _ e => (by cases e; rfl)⟩

theorem changes_mem {a b : FMap Entry} {ch : Change} (h : ch ∈ changes a b) :
    ch.path ∈ a.keys ++ b.keys ∧ (∀ q old, ch = .delete q old → a.get ch.path = some old) ∧
    (∀ q old n, ch = .modify q old n → a.get ch.path = some old) := by
  unfold changes at h
  rw [List.mem_flatMap] at h
  obtain ⟨p, hp, hch⟩ := h
  obtain ⟨h1, h2, h3⟩ := changesAt_mem hch
  rw [h1]
  exact ⟨(mem_changedPathOrder a b p).mp hp, h2, h3⟩

/-! ### a world in which the index records exactly the files of the directory, which are HEAD's -/

structure Synced (w : World) : Prop where
  idx : ∀ p, w.index.get p = (w.wd.get p).map WFile.ientry
  head : ∀ p, w.head.get p = (w.wd.get p).map WFile.entry
  flat : ∀ p ∈ w.wd.keys, hasFileAncestor w.wd p = false

theorem Synced.view {w : World} (h : Synced w) {p : Path} {f : WFile} (hg : w.wd.get p = some f) :
    lstatView w.wd p = .file f :=
  lstatView_noAnc_some (h.flat p (FMap.mem_keys_of_get hg)) hg

theorem Synced.nothing_changed {w : World} (h : Synced w) :
    stagedAdd w.head w.index = [] ∧ stagedDel w.head w.index = [] ∧ stagedMod w.head w.index = [] ∧
    unstagedOf w.wd w.index = .ok [] := by
  have hcatch : Gen.WorkTree.unstagedCatchesNotDir = false := rfl
  have key : ∀ p, p ∈ w.index.keys → ∃ f, w.wd.get p = some f ∧ w.index.get p = some f.ientry ∧
      w.head.get p = some f.entry := by
    intro p hp
    obtain ⟨e, he⟩ := FMap.get_of_mem_keys hp
    have hi := h.idx p
    cases hw : w.wd.get p with
    | none => rw [hw, he] at hi; cases hi
    | some f => exact ⟨f, rfl, by rw [hi, hw]; rfl, by rw [h.head p, hw]; rfl⟩
  refine ⟨?_, ?_, ?_, ?_⟩
  · simp only [stagedAdd, List.filter_eq_nil_iff]
    intro p hp
    obtain ⟨f, _, _, hh⟩ := key p hp
    simp [FMap.has, hh]
  · simp only [stagedDel, List.filter_eq_nil_iff]
    intro p hp
    obtain ⟨e, he⟩ := FMap.get_of_mem_keys hp
    have hh := h.head p
    cases hw : w.wd.get p with
    | none => rw [hw, he] at hh; cases hh
    | some f => simp [FMap.has, h.idx p, hw]
  · simp only [stagedMod, List.filter_eq_nil_iff, modifiedAt]
    intro p hp
    obtain ⟨e, he⟩ := FMap.get_of_mem_keys hp
    have hh := h.head p
    cases hw : w.wd.get p with
    | none => rw [hw, he] at hh; cases hh
    | some f =>
      rw [h.head p, h.idx p, hw]
      simp only [Option.map_some]
      have : ¬ (entryDiffers f.entry f.ientry = true) := by
        rw [entryDiffers_iff]; simp [WFile.ientry, IEntry.entry, WFile.entry]
      simpa using this
  · unfold unstagedOf
    have hnd : w.index.keys.any (lstatRaisesNotDir w.wd) = false := by
      rw [List.any_eq_false]
      intro p hp
      obtain ⟨f, hw, _, _⟩ := key p hp
      simp [lstatRaisesNotDir, hcatch, blocked_imp_anc (h.flat p (FMap.mem_keys_of_get hw))]
    simp only [hnd, Bool.false_eq_true, if_false]
    congr 1
    rw [List.filter_eq_nil_iff]
    intro p hp
    obtain ⟨f, hw, hi, _⟩ := key p hp
    simp [changedAt, hi, entryChanged, h.view hw, WFile.ientry, statMatches_self]

theorem Synced.status {w : World} (h : Synced w) :
    status w = .ok ⟨[], [], [], [], untrackedOf w.wd w.index⟩ := by
  obtain ⟨ha, hd, hm, hu⟩ := h.nothing_changed
  unfold WorkTree.status
  rw [hu, ha, hd, hm]
  rfl

theorem Synced.wdEntry {w : World} (h : Synced w) (p : Path) : wdEntry w.wd p = w.head.get p := by
  rw [h.head p]
  cases hw : w.wd.get p with
  | some f => rw [wdEntry_file (h.view hw)]; rfl
  | none =>
    simp only [Option.map_none]
    cases hv : WorkTree.wdEntry w.wd p with
    | none => rfl
    | some e =>
      have : (WorkTree.wdEntry w.wd p).isSome = true := by rw [hv]; rfl
      obtain ⟨f, hf⟩ := (wdEntry_isSome_iff _ _).mp this
      rw [lstatView_file_get hf] at hw; cases hw

theorem Synced.treeOf {w : World} (h : Synced w) (p : Path) : (treeOf w.index).get p = w.head.get p := by
  simp only [WorkTree.treeOf]
  rw [FMap.get_mapVal _ (fun _ (v : IEntry) => v.entry) p, h.idx p, h.head p]
  cases w.wd.get p <;> rfl


theorem checkedOut_synced {t : FMap Entry} {obs : Obs} (hobs : t.keys.all obs.has = true) (hwf : TreeWF t) :
    Synced (checkedOut t obs) := by
  refine ⟨fun p => checkedOut_index_get t obs p, ?_, ?_⟩
  · intro p
    show t.get p = ((checkoutFiles t obs).get p).map WFile.entry
    rw [checkoutFiles_get t obs hobs]
    cases ht : t.get p with
    | none => rfl
    | some e =>
      obtain ⟨o, ho⟩ := Option.isSome_iff_exists.mp ((List.all_eq_true.mp hobs) p (FMap.mem_keys_of_get ht))
      simp [ho, WFile.entry]
  · intro p hp
    have hp' : p ∈ t.keys := by
      simp only [checkedOut] at hp; rwa [checkoutFiles_keys t obs hobs] at hp
    show hasFileAncestor (checkoutFiles t obs) p = false
    rw [hasFileAncestor_keys (checkoutFiles_keys t obs hobs)]
    simpa using (List.all_eq_true.mp hwf) p hp'

theorem checkUncommitted_synced {w : World} (h : Synced w) (b : FMap Entry) : checkUncommitted w b = .ok () := by
  unfold checkUncommitted
  rw [h.status]
  rfl

/-- In a synced world the files are what HEAD says, so the "uncommitted modifications" check passes. -/
theorem preCheckModified_synced {w : World} (h : Synced w) (b : FMap Entry) :
    preCheckModified w.wd (changes w.head b) = .ok () := by
  have chk : ∀ p old, w.head.get p = some old → checkUnmodified w.wd p old = .ok () := by
    intro p old hold
    unfold checkUnmodified
    split
    · rfl
    · have hh := h.head p
      rw [hold] at hh
      cases hw : w.wd.get p with
      | none => rw [hw] at hh; cases hh
      | some f =>
        rw [hw] at hh
        have hfe : f.entry = old := (Option.some.inj hh).symm
        rw [h.view hw]
        have : fileMatches f old = true := by
          rw [← hfe]; simp [fileMatches, WFile.entry]
        simp [this]
  unfold preCheckModified
  apply foldl_ok
  intro ch hch
  obtain ⟨_, h2, h3⟩ := changes_mem hch
  cases ch with
  | add p e => rfl
  | modify p x y => exact chk p x (h3 p x y rfl)
  | delete p old => exact chk p old (h2 p old rfl)


/-! ### the walk order is a strict total order in which a directory precedes what is below it -/

theorem keyLt_irrefl : ∀ a : List Nat, keyLt a a = false
  | [] => rfl
  | x :: r => by simp [keyLt, keyLt_irrefl r]

theorem keyLt_trans : ∀ {a b c : List Nat}, keyLt a b = true → keyLt b c = true → keyLt a c = true
  | [], [], _, h, _ => by simp [keyLt] at h
  | [], _ :: _, [], _, h => by simp [keyLt] at h
  | [], _ :: _, _ :: _, _, _ => by simp [keyLt]
  | _ :: _, [], _, h, _ => by simp [keyLt] at h
  | _ :: _, _ :: _, [], _, h => by simp [keyLt] at h
  | x :: a, y :: b, z :: c, h1, h2 => by
    simp only [keyLt, Bool.or_eq_true, decide_eq_true_eq, Bool.and_eq_true, beq_iff_eq] at h1 h2 ⊢
    rcases h1 with h1 | ⟨e1, h1⟩ <;> rcases h2 with h2 | ⟨e2, h2⟩
    · left; omega
    · left; omega
    · left; omega
    · right; exact ⟨by omega, keyLt_trans h1 h2⟩

theorem keyLt_total : ∀ (a b : List Nat), keyLt a b = true ∨ a = b ∨ keyLt b a = true
  | [], [] => Or.inr (Or.inl rfl)
  | [], _ :: _ => Or.inl (by simp [keyLt])
  | _ :: _, [] => Or.inr (Or.inr (by simp [keyLt]))
  | x :: a, y :: b => by
    simp only [keyLt, Bool.or_eq_true, decide_eq_true_eq, Bool.and_eq_true, beq_iff_eq, List.cons.injEq]
    rcases Nat.lt_trichotomy x y with h | h | h
    · left; left; exact h
    · rcases keyLt_total a b with h' | h' | h'
      · left; right; exact ⟨h, h'⟩
      · right; left; exact ⟨h, h'⟩
      · right; right; right; exact ⟨h.symm, h'⟩
    · right; right; left; exact h

theorem pathKey_inj : ∀ {p q : Path}, pathKey p = pathKey q → p = q
  | [], [], _ => rfl
  | [], _ :: _, h => by simp [pathKey] at h
  | _ :: _, [], h => by simp [pathKey] at h
  | x :: p, y :: q, h => by
    simp only [pathKey, List.map_cons, List.cons.injEq] at h
    obtain ⟨h1, h2⟩ := h
    have := @pathKey_inj p q h2
    subst this
    congr 1
    by_cases hx : x = slash <;> by_cases hy : y = slash <;> simp only [hx, hy, if_true, if_false] at h1
    · rw [hx, hy]
    · omega
    · omega
    · exact UInt8.toNat_inj.mp (by omega)

theorem pathLt_irrefl (p : Path) : pathLt p p = false := keyLt_irrefl _

theorem pathLt_trans {p q r : Path} (h1 : pathLt p q = true) (h2 : pathLt q r = true) : pathLt p r = true :=
  keyLt_trans h1 h2

theorem pathLt_total (p q : Path) : pathLt p q = true ∨ p = q ∨ pathLt q p = true := by
  rcases keyLt_total (pathKey p) (pathKey q) with h | h | h
  · exact Or.inl h
  · exact Or.inr (Or.inl (pathKey_inj h))
  · exact Or.inr (Or.inr h)

theorem pathLt_asymm {p q : Path} (h : pathLt p q = true) : pathLt q p = false := by
  cases h' : pathLt q p with
  | false => rfl
  | true => have := pathLt_trans h h'; rw [pathLt_irrefl] at this; cases this

/-- a proper prefix sorts first -/
theorem keyLt_append : ∀ (a : List Nat) (x : Nat) (r : List Nat), keyLt a (a ++ x :: r) = true
  | [], _, _ => by simp [keyLt]
  | y :: a, x, r => by simp [keyLt, keyLt_append a x r]

theorem isAncestor_pathLt {a p : Path} (h : isAncestor a p = true) : pathLt a p = true := by
  unfold isAncestor at h
  rw [List.isPrefixOf_iff_prefix] at h
  obtain ⟨t, ht⟩ := h
  unfold pathLt
  rw [← ht]
  simp only [pathKey, List.map_append, List.map_cons, List.append_assoc, List.cons_append, List.nil_append]
  exact keyLt_append _ _ _


theorem hasFileAncestor_false_iff {α : Type} (m : FMap α) (p : Path) :
    hasFileAncestor m p = false ↔ ∀ k, isAncestor k p = true → m.get k = none := by
  unfold hasFileAncestor
  rw [List.any_eq_false]
  constructor
  · intro h k hk
    cases hg : m.get k with
    | none => rfl
    | some v => exact absurd hk (h k (FMap.mem_keys_of_get hg))
  · intro h k hk hanc
    obtain ⟨v, hv⟩ := FMap.get_of_mem_keys hk
    rw [h k hanc] at hv; cases hv

theorem hasDescendant_false_iff {α : Type} (m : FMap α) (p : Path) :
    hasDescendant m p = false ↔ ∀ k, isAncestor p k = true → m.get k = none := by
  unfold hasDescendant
  rw [List.any_eq_false]
  constructor
  · intro h k hk
    cases hg : m.get k with
    | none => rfl
    | some v => exact absurd hk (h k (FMap.mem_keys_of_get hg))
  · intro h k hk hanc
    obtain ⟨v, hv⟩ := FMap.get_of_mem_keys hk
    rw [h k hanc] at hv; cases hv

theorem linkAnc_of_anc {wd : FMap WFile} {p : Path} (h : hasFileAncestor wd p = false) :
    hasLinkAncestor wd p = false := by
  unfold hasLinkAncestor
  unfold hasFileAncestor at h
  rw [List.any_eq_false] at h ⊢
  intro k hk
  have := h k hk
  simp at this
  simp [this]

theorem isAncestor_ne {k p : Path} (h : isAncestor k p = true) : k ≠ p := by
  intro e
  subst e
  unfold isAncestor at h
  rw [List.isPrefixOf_iff_prefix] at h
  obtain ⟨t, ht⟩ := h
  have := congrArg List.length ht
  simp at this

/-- Processing the changes at one path, from the state a clean checkout of `a` left there, when
nothing lies above `p` in the directory and — if something is to be written — nothing below. -/
theorem applyChangesAt' {a b : FMap Entry} {fA : FMap WFile} {obs : Obs} {s : WT} {p : Path}
    (hanc : hasFileAncestor s.wd p = false)
    (hdesc : ∀ y, b.get p = some y → hasDescendant s.wd p = false)
    (hva : ∀ x, a.get p = some x → validPath p = true) (hvb : ∀ y, b.get p = some y → validPath p = true)
    (hobs : ∀ y, b.get p = some y → ∃ o, obs.get p = some o)
    (hfA0 : a.get p = none → fA.get p = none)
    (hfA1 : ∀ x, a.get p = some x → ∃ f, fA.get p = some f ∧ f.entry = x)
    (hwd : s.wd.get p = fA.get p) (hidx : s.index.get p = (fA.get p).map WFile.ientry) :
    ∃ s', applyChanges obs s (changesAt a b p) = (s', none) ∧
      s'.wd.get p = targetWd a b fA obs p ∧
      s'.index.get p = (targetWd a b fA obs p).map WFile.ientry ∧
      ∀ q, q ≠ p → s'.wd.get q = s.wd.get q ∧ s'.index.get q = s.index.get q := by
  have hlink := linkAnc_of_anc hanc
  have view_none : ∀ {wd : FMap WFile}, hasFileAncestor wd p = false → hasDescendant wd p = false →
      wd.get p = none → lstatView wd p = .enoent := by
    intro wd h1 h2 h3
    rw [lstatView_noAnc_none h1 h3, h2]; rfl
  have erased : (FMap.erase s.wd p).get p = none ∧ (FMap.erase s.index p).get p = none ∧
      ∀ q, q ≠ p → (FMap.erase s.wd p).get q = s.wd.get q ∧ (FMap.erase s.index p).get q = s.index.get q :=
    ⟨FMap.get_erase_same _ _, FMap.get_erase_same _ _,
      fun q hq => ⟨FMap.get_erase_ne _ hq, FMap.get_erase_ne _ hq⟩⟩
  have written : ∀ (wd0 : FMap WFile) (ix0 : FMap IEntry) (f : WFile),
      (wd0.put p f).get p = some f ∧ (ix0.put p f.ientry).get p = some f.ientry ∧
      ∀ q, q ≠ p → (wd0.put p f).get q = wd0.get q ∧ (ix0.put p f.ientry).get q = ix0.get q :=
    fun wd0 ix0 f => ⟨FMap.get_put_same _ _ _, FMap.get_put_same _ _ _,
      fun q hq => ⟨FMap.get_put_ne _ _ hq, FMap.get_put_ne _ _ hq⟩⟩
  unfold changesAt targetWd
  cases ha : a.get p with
  | none =>
    have hn : s.wd.get p = none := by rw [hwd, hfA0 ha]
    cases hb : b.get p with
    | none =>
      refine ⟨s, rfl, ?_, ?_, fun q _ => ⟨rfl, rfl⟩⟩
      · simp [hn]
      · simp [hidx, hfA0 ha]
    | some y =>
      obtain ⟨o, ho⟩ := hobs y hb
      have hstep := @transitionToFile_absent obs s p y o (hvb y hb) hlink (view_none hanc (hdesc y hb) hn) ho
      obtain ⟨w2, w3, w4⟩ := written s.wd s.index (fileOf y o)
      refine ⟨_, applyChanges_one (c := .add p y) hstep, ?_, ?_, w4⟩
      · simp [w2, ho]
      · simp [w3, ho]
  | some x =>
    obtain ⟨f, hf, hfx⟩ := hfA1 x ha
    have hg : s.wd.get p = some f := by rw [hwd, hf]
    have hview := lstatView_noAnc_some hanc hg
    have hdel := @transitionToAbsent_file s p f (hva x ha) hview
    obtain ⟨e2, e3, e4⟩ := erased
    cases hb : b.get p with
    | none =>
      refine ⟨_, applyChanges_one (c := .delete p x) hdel, ?_, ?_, e4⟩
      · simp [e2]
      · simp [e3]
    | some y =>
      obtain ⟨o, ho⟩ := hobs y hb
      by_cases hxy : x = y
      · subst hxy
        refine ⟨s, by simp [applyChanges], ?_, ?_, fun q _ => ⟨rfl, rfl⟩⟩
        · simp [hwd]
        · simp [hidx]
      · have hne : ¬ (some x = some y) := fun e => hxy (Option.some.inj e)
        simp only [hxy, if_false, hne]
        by_cases hlk : isLink x.kind = isLink y.kind
        · have hfk : isLink f.kind = isLink y.kind := by rw [← hlk, ← hfx]; rfl
          have hstep := @transitionToFile_differs obs s p y o f (hvb y hb) hlink hview
            (by rw [hfx]; exact hxy) hfk ho
          obtain ⟨w2, w3, w4⟩ := written s.wd s.index (fileOf y o)
          refine ⟨_, by simpa [hlk] using applyChanges_one (c := .modify p x y) hstep, ?_, ?_, w4⟩
          · simp [w2, ho]
          · simp [w3, ho]
        · have hanc1 : hasFileAncestor (FMap.erase s.wd p) p = false := by
            rw [hasFileAncestor_false_iff] at hanc ⊢
            intro k hk
            rw [FMap.get_erase_ne _ (isAncestor_ne hk)]
            exact hanc k hk
          have hdesc1 : hasDescendant (FMap.erase s.wd p) p = false := by
            have := hdesc y hb
            rw [hasDescendant_false_iff] at this ⊢
            intro k hk
            rw [FMap.get_erase_ne _ (isAncestor_ne hk).symm]
            exact this k hk
          have hstep := @transitionToFile_absent obs ⟨s.wd.erase p, s.index.erase p⟩ p y o (hvb y hb)
            (linkAnc_of_anc hanc1) (view_none hanc1 hdesc1 e2) ho
          obtain ⟨w2, w3, w4⟩ := written (s.wd.erase p) (s.index.erase p) (fileOf y o)
          have hlk' : (isLink x.kind != isLink y.kind) = true := by simpa using hlk
          refine ⟨_, by simpa [hlk'] using applyChanges_two (c := .delete p x) (d := .add p y) hdel hstep,
            ?_, ?_, ?_⟩
          · simp [w2, ho]
          · simp [w3, ho]
          · intro q hq
            exact ⟨(w4 q hq).1.trans (e4 q hq).1, (w4 q hq).2.trans (e4 q hq).2⟩


/-! ### the list of changed paths is strictly sorted -/

def SortedP (l : List Path) : Prop := l.Pairwise (fun x y => pathLt x y = true)

theorem sorted_insertPath {p : Path} {l : List Path} (hl : SortedP l) : SortedP (insertPath p l) := by
  induction l with
  | nil => simp [insertPath, SortedP]
  | cons q r ih =>
    unfold SortedP at hl ih ⊢
    rw [List.pairwise_cons] at hl
    unfold insertPath
    split
    · exact List.pairwise_cons.mpr hl
    · rename_i hpq
      split
      · rename_i hlt
        rw [List.pairwise_cons]
        refine ⟨?_, List.pairwise_cons.mpr hl⟩
        intro y hy
        rcases List.mem_cons.mp hy with e | e
        · rw [e]; exact hlt
        · exact pathLt_trans hlt (hl.1 y e)
      · rename_i hnlt
        rw [List.pairwise_cons]
        refine ⟨?_, ih hl.2⟩
        intro y hy
        rcases (mem_insertPath p y r).mp hy with e | e
        · rw [e]
          rcases pathLt_total p q with h | h | h
          · exact absurd h hnlt
          · exact absurd h hpq
          · exact h
        · exact hl.1 y e

theorem sorted_sortPaths (l : List Path) : SortedP (sortPaths l) := by
  induction l with
  | nil => simp [sortPaths, SortedP]
  | cons x r ih =>
    have : sortPaths (x :: r) = insertPath x (sortPaths r) := rfl
    rw [this]; exact sorted_insertPath ih

theorem sorted_changedPathOrder (a b : FMap Entry) : SortedP (changedPathOrder a b) := sorted_sortPaths _

/-- No path of `b` has paths of `a` below it: no directory of `a` becomes a file. -/
def NoDirToFile (a b : FMap Entry) : Prop := b.keys.all (fun p => !hasDescendant a p) = true

instance (a b : FMap Entry) : Decidable (NoDirToFile a b) := by unfold NoDirToFile; infer_instance

theorem TreeWF.apply {t : FMap Entry} (h : TreeWF t) {k p : Path} {e : Entry} (hp : t.get p = some e)
    (hk : isAncestor k p = true) : t.get k = none := by
  have := (List.all_eq_true.mp h) p (FMap.mem_keys_of_get hp)
  simp only [Bool.not_eq_eq_eq_not, Bool.not_true] at this
  exact (hasFileAncestor_false_iff t p).mp this k hk

theorem NoDirToFile.apply {a b : FMap Entry} (h : NoDirToFile a b) {p k : Path} {e : Entry}
    (hp : b.get p = some e) (hk : isAncestor p k = true) : a.get k = none := by
  have := (List.all_eq_true.mp h) p (FMap.mem_keys_of_get hp)
  simp only [Bool.not_eq_eq_eq_not, Bool.not_true] at this
  exact (hasDescendant_false_iff a p).mp this k hk

/-- Processing the changes at every path of a strictly sorted list: the paths still to come are in the
state the clean checkout of `a` left, all others are already in their target state. -/
theorem applyChanges_sorted {a b : FMap Entry} {fA : FMap WFile} {obs : Obs}
    (hwfb : TreeWF b) (hndf : NoDirToFile a b)
    (hva : ∀ p x, a.get p = some x → validPath p = true) (hvb : ∀ p y, b.get p = some y → validPath p = true)
    (hobs : ∀ p y, b.get p = some y → ∃ o, obs.get p = some o)
    (hfA0 : ∀ p, a.get p = none → fA.get p = none)
    (hfA1 : ∀ p x, a.get p = some x → ∃ f, fA.get p = some f ∧ f.entry = x)
    (L : List Path) (hL : SortedP L) (hLK : ∀ p ∈ L, p ∈ a.keys ++ b.keys) (s : WT)
    (hA : ∀ p ∈ L, s.wd.get p = fA.get p ∧ s.index.get p = (fA.get p).map WFile.ientry)
    (hT : ∀ p, p ∉ L → s.wd.get p = targetWd a b fA obs p ∧
      s.index.get p = (targetWd a b fA obs p).map WFile.ientry) :
    ∃ s', applyChanges obs s (L.flatMap (changesAt a b)) = (s', none) ∧
      ∀ p, s'.wd.get p = targetWd a b fA obs p ∧
        s'.index.get p = (targetWd a b fA obs p).map WFile.ientry := by
  induction L generalizing s with
  | nil => exact ⟨s, rfl, fun p => hT p List.not_mem_nil⟩
  | cons p r ih =>
    unfold SortedP at hL
    rw [List.pairwise_cons] at hL
    -- nothing of `b` lies above `p`
    have hbk : ∀ k, isAncestor k p = true → b.get k = none := by
      intro k hk
      rcases List.mem_append.mp (hLK p List.mem_cons_self) with hp | hp
      · obtain ⟨x, hx⟩ := FMap.get_of_mem_keys hp
        cases hb : b.get k with
        | none => rfl
        | some y => rw [hndf.apply hb hk] at hx; cases hx
      · obtain ⟨y, hy⟩ := FMap.get_of_mem_keys hp
        exact hwfb.apply hy hk
    have hnotin : ∀ k, isAncestor k p = true → k ∉ p :: r := by
      intro k hk hmem
      rcases List.mem_cons.mp hmem with e | e
      · exact isAncestor_ne hk e
      · have h1 := hL.1 k e
        rw [pathLt_asymm (isAncestor_pathLt hk)] at h1; cases h1
    have hanc : hasFileAncestor s.wd p = false := by
      rw [hasFileAncestor_false_iff]
      intro k hk
      rw [(hT k (hnotin k hk)).1]
      simp [targetWd, hbk k hk]
    have hdesc : ∀ y, b.get p = some y → hasDescendant s.wd p = false := by
      intro y hy
      rw [hasDescendant_false_iff]
      intro k hk
      by_cases hkL : k ∈ p :: r
      · rw [(hA k hkL).1]
        exact hfA0 k (hndf.apply hy hk)
      · rw [(hT k hkL).1]
        have : b.get k = none := by
          cases hb : b.get k with
          | none => rfl
          | some z => rw [hwfb.apply hb hk] at hy; cases hy
        simp [targetWd, this]
    obtain ⟨s1, h1, w1, i1, o1⟩ := applyChangesAt' (a := a) (b := b) (fA := fA) (obs := obs) hanc hdesc
      (hva p) (hvb p) (hobs p) (hfA0 p) (hfA1 p) (hA p List.mem_cons_self).1 (hA p List.mem_cons_self).2
    have hpr : p ∉ r := fun e => by have := hL.1 p e; rw [pathLt_irrefl] at this; cases this
    have hA1 : ∀ q ∈ r, s1.wd.get q = fA.get q ∧ s1.index.get q = (fA.get q).map WFile.ientry := by
      intro q hq
      have hqp : q ≠ p := fun e => hpr (e ▸ hq)
      rw [(o1 q hqp).1, (o1 q hqp).2]
      exact hA q (List.mem_cons_of_mem _ hq)
    have hT1 : ∀ q, q ∉ r → s1.wd.get q = targetWd a b fA obs q ∧
        s1.index.get q = (targetWd a b fA obs q).map WFile.ientry := by
      intro q hq
      by_cases hqp : q = p
      · rw [hqp]; exact ⟨w1, i1⟩
      · rw [(o1 q hqp).1, (o1 q hqp).2]
        exact hT q (fun e => by rcases List.mem_cons.mp e with e | e; exact hqp e; exact hq e)
    obtain ⟨s2, h2, t2⟩ := ih hL.2 (fun q hq => hLK q (List.mem_cons_of_mem _ hq)) s1 hA1 hT1
    refine ⟨s2, ?_, t2⟩
    rw [List.flatMap_cons, applyChanges_append, h1]
    exact h2


/-- In a synced world a file that is to become a directory still is what HEAD says: the "paths
becoming directories" check passes. -/
theorem preCheckDirs_synced {w : World} (h : Synced w) (b : FMap Entry) :
    preCheckDirs w.wd (changes w.head b) = .ok () := by
  unfold preCheckDirs
  apply foldl_ok
  intro ch hch
  obtain ⟨_, h2, _⟩ := changes_mem hch
  cases ch with
  | add p e => rfl
  | modify p x y => rfl
  | delete p old =>
    have hold : w.head.get p = some old := h2 p old rfl
    have hh := h.head p
    rw [hold] at hh
    cases hw : w.wd.get p with
    | none => rw [hw] at hh; cases hh
    | some f =>
      rw [hw] at hh
      have hfe : f.entry = old := (Option.some.inj hh).symm
      have hm : fileMatches f old = true := by
        rw [← hfe]; simp [fileMatches, WFile.entry]
      simp only [h.view hw, hm]
      split <;> simp

end Dulwich.WorkTree
