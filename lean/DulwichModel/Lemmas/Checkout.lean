/-
  Helper lemmas for C17 (checkout model): path resolution over chains of real directories, what each
  system call of the model can touch, and the per-phase lemmas behind `safe_prefix_sound` / `confined`.
  Core Lean only.
-/
import DulwichModel.Model.Checkout
import DulwichModel.Lemmas.PathSafe

open Dulwich Dulwich.PathSafe Dulwich.Gen.PathSafe

namespace Dulwich.Checkout

def CleanName (c : Name) : Prop := c ≠ [] ∧ c ≠ [46] ∧ c ≠ [46, 46]
def Clean (comps : List Name) : Prop := ∀ c ∈ comps, CleanName c

/-- the first `k` prefixes of `root/comps` are real directories -/
def DirChain (fs : FS) (root : PPath) (comps : List Name) (k : Nat) : Prop :=
  ∀ i, 1 ≤ i → i ≤ k → fs (root ++ comps.take i) = some .dir

theorem resolve_nil (fs : FS) (fuel : Nat) (cur : PPath) (fl : Bool) : resolve fs fuel cur [] fl = .ok cur := by
  cases fuel <;> rfl

theorem resolve_step_dir (fs : FS) (fuel : Nat) (cur : PPath) (c : Name) (rest : List Name) (fl : Bool)
    (hc : CleanName c) (hd : fs (cur ++ [c]) = some .dir) :
    resolve fs (fuel + 1) cur (c :: rest) fl = resolve fs fuel (cur ++ [c]) rest fl := by
  obtain ⟨h1, h2, h3⟩ := hc
  simp [resolve, h1, h2, h3, hd]

theorem DirChain.tail {fs : FS} {root : PPath} {c : Name} {rest : List Name} {k : Nat}
    (h : DirChain fs root (c :: rest) (k + 1)) : DirChain fs (root ++ [c]) rest k := by
  intro i h1 h2
  have := h (i + 1) (by omega) (by omega)
  simpa using this

/-- resolution walks down a chain of real directories without leaving it -/
theorem resolve_chain (fs : FS) (fl : Bool) : ∀ (comps : List Name) (k fuel : Nat) (root : PPath),
    Clean comps → k ≤ comps.length → k ≤ fuel → DirChain fs root comps k →
    resolve fs fuel root comps fl = resolve fs (fuel - k) (root ++ comps.take k) (comps.drop k) fl := by
  intro comps
  induction comps with
  | nil =>
    intro k fuel root _ hk _ _
    have : k = 0 := by simpa using hk
    subst this; simp
  | cons c rest ih =>
    intro k fuel root hcl hk hf hd
    cases k with
    | zero => simp
    | succ k =>
      cases fuel with
      | zero => omega
      | succ fuel =>
        have hc : CleanName c := hcl c List.mem_cons_self
        have h1 : fs (root ++ [c]) = some .dir := by simpa using hd 1 (by omega) (by omega)
        rw [resolve_step_dir fs fuel root c rest fl hc h1]
        rw [ih k fuel (root ++ [c]) (fun x hx => hcl x (List.mem_cons_of_mem _ hx)) (by simpa using hk) (by omega) hd.tail]
        simp


theorem resolve_one_absent (fs : FS) (fuel : Nat) (cur : PPath) (c : Name) (rest : List Name) (fl : Bool)
    (hc : CleanName c) (hn : fs (cur ++ [c]) = none) :
    resolve fs (fuel + 1) cur (c :: rest) fl = if rest = [] then .ok (cur ++ [c]) else .error .enoent := by
  obtain ⟨h1, h2, h3⟩ := hc
  simp [resolve, h1, h2, h3, hn]

theorem resolve_one_file (fs : FS) (fuel : Nat) (cur : PPath) (c : Name) (rest : List Name) (fl : Bool)
    (hc : CleanName c) {ct : Bytes} {m : Nat} (hn : fs (cur ++ [c]) = some (.file ct m)) :
    resolve fs (fuel + 1) cur (c :: rest) fl = if rest = [] then .ok (cur ++ [c]) else .error .enotdir := by
  obtain ⟨h1, h2, h3⟩ := hc
  simp [resolve, h1, h2, h3, hn]

theorem resolve_last_nofollow (fs : FS) (fuel : Nat) (cur : PPath) (c : Name) (hc : CleanName c) :
    resolve fs (fuel + 1) cur [c] false = .ok (cur ++ [c]) := by
  obtain ⟨h1, h2, h3⟩ := hc
  simp only [resolve, h1, h2, h3, or_self, if_false]
  cases h : fs (cur ++ [c]) with
  | none => simp
  | some n => cases n <;> simp

theorem resolve_last_follow (fs : FS) (fuel : Nat) (cur : PPath) (c : Name) (hc : CleanName c)
    (hl : ∀ t, fs (cur ++ [c]) ≠ some (.link t)) :
    resolve fs (fuel + 1) cur [c] true = .ok (cur ++ [c]) := by
  obtain ⟨h1, h2, h3⟩ := hc
  simp only [resolve, h1, h2, h3, or_self, if_false]
  cases h : fs (cur ++ [c]) with
  | none => simp
  | some n =>
    cases n with
    | link t => exact absurd h (hl t)
    | dir => simp
    | file ct m => simp

theorem DirChain.append {fs : FS} {root : PPath} {lead : List Name} {k : Nat} (last : List Name)
    (h : DirChain fs root lead k) (hk : k ≤ lead.length) : DirChain fs root (lead ++ last) k := by
  intro i h1 h2
  rw [List.take_append_of_le_length (by omega)]
  exact h i h1 h2

theorem DirChain.mono {fs : FS} {root : PPath} {lead : List Name} {k j : Nat}
    (h : DirChain fs root lead k) (hj : j ≤ k) : DirChain fs root lead j :=
  fun i h1 h2 => h i h1 (by omega)

/-- all parents real directories ⇒ a call that does not follow the final component acts on the lexical path -/
theorem resolve_lex_nofollow (fs : FS) (root : PPath) (lead : List Name) (last : Name)
    (hcl : Clean (lead ++ [last])) (hd : DirChain fs root lead lead.length) :
    resolve fs (fuelFor (lead ++ [last]).length) root (lead ++ [last]) false = .ok (root ++ (lead ++ [last])) := by
  have := resolve_chain fs false (lead ++ [last]) lead.length (fuelFor (lead ++ [last]).length) root hcl
    (by simp) (by simp [fuelFor]; omega) (hd.append [last] (Nat.le_refl _))
  rw [this]
  have e : fuelFor (lead ++ [last]).length - lead.length = 4096 + 1 := by simp [fuelFor]; omega
  simp only [List.take_left', List.drop_left', e]
  rw [resolve_last_nofollow fs 4096 _ last (hcl last (by simp))]
  simp

theorem resolve_lex_follow (fs : FS) (root : PPath) (lead : List Name) (last : Name)
    (hcl : Clean (lead ++ [last])) (hd : DirChain fs root lead lead.length)
    (hl : ∀ t, fs (root ++ (lead ++ [last])) ≠ some (.link t)) :
    resolve fs (fuelFor (lead ++ [last]).length) root (lead ++ [last]) true = .ok (root ++ (lead ++ [last])) := by
  have := resolve_chain fs true (lead ++ [last]) lead.length (fuelFor (lead ++ [last]).length) root hcl
    (by simp) (by simp [fuelFor]; omega) (hd.append [last] (Nat.le_refl _))
  rw [this]
  have e : fuelFor (lead ++ [last]).length - lead.length = 4096 + 1 := by simp [fuelFor]; omega
  simp only [List.take_left', List.drop_left', e]
  rw [resolve_last_follow fs 4096 _ last (hcl last (by simp)) (by simpa using hl)]
  simp

/-- a regular file in the parent position: every call on the path fails with ENOTDIR -/
theorem resolve_parent_file (fs : FS) (root : PPath) (lead : List Name) (mid last : Name) (fl : Bool)
    (hcl : Clean (lead ++ [mid, last])) (hd : DirChain fs root lead lead.length)
    {ct : Bytes} {m : Nat} (hf : fs (root ++ (lead ++ [mid])) = some (.file ct m)) :
    resolve fs (fuelFor (lead ++ [mid, last]).length) root (lead ++ [mid, last]) fl = .error .enotdir := by
  have := resolve_chain fs fl (lead ++ [mid, last]) lead.length (fuelFor (lead ++ [mid, last]).length) root hcl
    (by simp) (by simp [fuelFor]; omega) (hd.append [mid, last] (Nat.le_refl _))
  rw [this]
  have e : fuelFor (lead ++ [mid, last]).length - lead.length = 4097 + 1 := by simp [fuelFor]; omega
  simp only [List.take_left', List.drop_left', e]
  rw [resolve_one_file fs 4097 _ mid [last] fl (hcl mid (by simp)) (by simpa using hf)]
  simp


/-- what a step may do while working on `root/comps`: log only calls that acted on a prefix of `root/comps`,
keep every directory a directory, leave the cache alone -/
structure Ext (root : PPath) (comps : List Name) (st st' : St) : Prop where
  log : ∀ m ∈ st'.log, m ∈ st.log ∨ ∃ i, 1 ≤ i ∧ i ≤ comps.length ∧ m.target = root ++ comps.take i
  dirs : ∀ q, st.fs q = some .dir → st'.fs q = some .dir
  safe : st'.safe = st.safe

theorem Ext.refl (root : PPath) (comps : List Name) (st : St) : Ext root comps st st :=
  ⟨fun _ hm => Or.inl hm, fun _ h => h, rfl⟩

theorem Ext.trans {root : PPath} {comps : List Name} {a b c : St} (h1 : Ext root comps a b) (h2 : Ext root comps b c) :
    Ext root comps a c :=
  ⟨fun m hm => (h2.log m hm).elim (fun h => h1.log m h) Or.inr, fun q h => h2.dirs q (h1.dirs q h),
   h2.safe.trans h1.safe⟩

theorem FS.set_same (fs : FS) (p : PPath) (n : Option Node) : (fs.set p n) p = n := by simp [FS.set]
theorem FS.set_other (fs : FS) {p q : PPath} (n : Option Node) (h : q ≠ p) : (fs.set p n) q = fs q := by
  simp [FS.set, h]

/-- a successful call whose target is `P` and which keeps directories: one more confined log entry -/
theorem Ext.of_apply {root : PPath} {comps : List Name} (st : St) (r : Except Errno (FS × Mut)) (i : Nat)
    (hi : 1 ≤ i ∧ i ≤ comps.length)
    (h : ∀ fs' m, r = .ok (fs', m) → m.target = root ++ comps.take i ∧ ∀ q, st.fs q = some .dir → fs' q = some .dir) :
    Ext root comps st (st.apply r).1 := by
  cases r with
  | error e => exact Ext.refl _ _ _
  | ok v =>
    obtain ⟨fs', m⟩ := v
    obtain ⟨ht, hd⟩ := h fs' m rfl
    refine ⟨?_, hd, rfl⟩
    intro x hx
    simp only [St.apply, List.mem_append, List.mem_cons, List.not_mem_nil, or_false] at hx
    rcases hx with hx | rfl
    · exact Or.inl hx
    · exact Or.inr ⟨i, hi.1, hi.2, ht⟩

theorem apply_err (st : St) (r : Except Errno (FS × Mut)) {e : Errno} (h : (st.apply r).2 = some e) :
    (st.apply r).1 = st := by
  cases r with
  | error e' => rfl
  | ok v => simp [St.apply] at h

theorem sysMkdir_spec {fs : FS} {root : PPath} {cs : List Name} {P : PPath}
    (hr : resolve fs (fuelFor cs.length) root cs false = .ok P) {fs' : FS} {m : Mut}
    (h : sysMkdir fs root cs = .ok (fs', m)) :
    m.target = P ∧ fs P = none ∧ fs' = fs.set P (some .dir) := by
  simp only [sysMkdir, hr] at h
  cases hp : fs P with
  | some n => simp [hp] at h
  | none =>
    simp only [hp, Except.ok.injEq, Prod.mk.injEq] at h
    obtain ⟨rfl, rfl⟩ := h
    exact ⟨rfl, rfl, rfl⟩

theorem sysUnlink_spec {fs : FS} {root : PPath} {cs : List Name} {P : PPath}
    (hr : resolve fs (fuelFor cs.length) root cs false = .ok P) {fs' : FS} {m : Mut}
    (h : sysUnlink fs root cs = .ok (fs', m)) :
    m.target = P ∧ fs P ≠ some .dir ∧ fs' = fs.set P none := by
  simp only [sysUnlink, hr] at h
  cases hp : fs P with
  | none => simp [hp] at h
  | some n =>
    cases n with
    | dir => simp [hp] at h
    | file c md =>
      simp only [hp, Except.ok.injEq, Prod.mk.injEq] at h
      obtain ⟨rfl, rfl⟩ := h
      exact ⟨rfl, by simp, rfl⟩
    | link t =>
      simp only [hp, Except.ok.injEq, Prod.mk.injEq] at h
      obtain ⟨rfl, rfl⟩ := h
      exact ⟨rfl, by simp, rfl⟩

theorem sysSymlink_spec {fs : FS} {root : PPath} {cs : List Name} {P : PPath} {tg : Bytes}
    (hr : resolve fs (fuelFor cs.length) root cs false = .ok P) {fs' : FS} {m : Mut}
    (h : sysSymlink fs tg root cs = .ok (fs', m)) :
    m.target = P ∧ fs P = none ∧ fs' = fs.set P (some (.link tg)) := by
  simp only [sysSymlink, hr] at h
  cases hp : fs P with
  | some n => simp [hp] at h
  | none =>
    simp only [hp, Except.ok.injEq, Prod.mk.injEq] at h
    obtain ⟨rfl, rfl⟩ := h
    exact ⟨rfl, rfl, rfl⟩

theorem sysOpenWrite_spec {fs : FS} {root : PPath} {cs : List Name} {P : PPath} {ct : Bytes}
    (hr : resolve fs (fuelFor cs.length) root cs true = .ok P) {fs' : FS} {m : Mut}
    (h : sysOpenWrite fs ct root cs = .ok (fs', m)) :
    m.target = P ∧ fs P ≠ some .dir ∧ ∃ md, fs' = fs.set P (some (.file ct md)) := by
  simp only [sysOpenWrite, hr] at h
  cases hp : fs P with
  | none =>
    simp only [hp, Except.ok.injEq, Prod.mk.injEq] at h
    obtain ⟨rfl, rfl⟩ := h
    exact ⟨rfl, by simp, _, rfl⟩
  | some n =>
    cases n with
    | dir => simp [hp] at h
    | link t => simp [hp] at h
    | file c md =>
      simp only [hp, Except.ok.injEq, Prod.mk.injEq] at h
      obtain ⟨rfl, rfl⟩ := h
      exact ⟨rfl, by simp, _, rfl⟩

theorem sysChmod_spec {fs : FS} {root : PPath} {cs : List Name} {P : PPath} {mode : Nat}
    (hr : resolve fs (fuelFor cs.length) root cs true = .ok P) {fs' : FS} {m : Mut}
    (h : sysChmod fs mode root cs = .ok (fs', m)) :
    m.target = P ∧ ∀ q, fs q = some .dir → fs' q = some .dir := by
  simp only [sysChmod, hr] at h
  cases hp : fs P with
  | none => simp [hp] at h
  | some n =>
    cases n with
    | file c md =>
      simp only [hp, Except.ok.injEq, Prod.mk.injEq] at h
      obtain ⟨rfl, rfl⟩ := h
      refine ⟨rfl, fun q hq => ?_⟩
      by_cases hqp : q = P
      · subst hqp; rw [hp] at hq; cases hq
      · rw [FS.set_other _ _ hqp]; exact hq
    | dir =>
      simp only [hp, Except.ok.injEq, Prod.mk.injEq] at h
      obtain ⟨rfl, rfl⟩ := h
      refine ⟨rfl, fun q hq => ?_⟩
      by_cases hqp : q = P
      · subst hqp; rw [FS.set_same]
      · rw [FS.set_other _ _ hqp]; exact hq
    | link t =>
      simp only [hp, Except.ok.injEq, Prod.mk.injEq] at h
      obtain ⟨rfl, rfl⟩ := h
      refine ⟨rfl, fun q hq => ?_⟩
      by_cases hqp : q = P
      · subst hqp; rw [hp] at hq; cases hq
      · rw [FS.set_other _ _ hqp]; exact hq

/-- replacing a non-directory (or nothing) keeps every directory -/
theorem set_keeps_dirs {fs : FS} {P : PPath} (n : Option Node) (h : fs P ≠ some .dir) :
    ∀ q, fs q = some .dir → (fs.set P n) q = some .dir := by
  intro q hq
  by_cases hqp : q = P
  · subst hqp; exact absurd hq h
  · rw [FS.set_other _ _ hqp]; exact hq


theorem Ext.andThen {root : PPath} {comps : List Name} {a : St} {r : Step} {f : St → Step}
    (h1 : Ext root comps a r.1) (h2 : r.2 = none → Ext root comps r.1 (f r.1).1) :
    Ext root comps a (r.andThen f).1 := by
  obtain ⟨st1, e⟩ := r
  cases e with
  | none => exact h1.trans (h2 rfl)
  | some e => exact h1

theorem andThen_ok {r : Step} {f : St → Step} {st' : St} (h : r.andThen f = (st', none)) :
    r.2 = none ∧ f r.1 = (st', none) := by
  obtain ⟨st1, e⟩ := r
  cases e with
  | none => exact ⟨rfl, h⟩
  | some e => simp [Step.andThen] at h

theorem apply_ok {st : St} {r : Except Errno (FS × Mut)} (h : (st.apply r).2 = none) :
    ∃ fs' m, r = .ok (fs', m) ∧ (st.apply r).1 = { st with fs := fs', log := st.log ++ [m] } := by
  cases r with
  | error e => simp [St.apply] at h
  | ok v => exact ⟨v.1, v.2, rfl, rfl⟩

section leaf
variable {root : PPath} {lead : List Name} {last : Name}

/-- state facts used by the leaf phase: every parent of `root/lead/last` is a real directory -/
theorem DirChain.ext {st st' : St} {comps : List Name} (h : DirChain st.fs root lead lead.length)
    (e : Ext root comps st st') : DirChain st'.fs root lead lead.length :=
  fun i h1 h2 => e.dirs _ (h i h1 h2)

theorem writeAndChmod_ext (st : St) (mode : Nat) (content : Bytes) (hcl : Clean (lead ++ [last]))
    (hd : DirChain st.fs root lead lead.length) (hl : ∀ t, st.fs (root ++ (lead ++ [last])) ≠ some (.link t)) :
    Ext root (lead ++ [last]) st (writeAndChmod root (lead ++ [last]) mode content st).1 := by
  unfold writeAndChmod
  have hr := resolve_lex_follow st.fs root lead last hcl hd hl
  have h1 : Ext root (lead ++ [last]) st (st.apply (sysOpenWrite st.fs content root (lead ++ [last]))).1 := by
    apply Ext.of_apply st _ (lead ++ [last]).length ⟨by simp, Nat.le_refl _⟩
    intro fs' m h
    obtain ⟨ht, hnd, md, rfl⟩ := sysOpenWrite_spec hr h
    exact ⟨by rw [List.take_length]; exact ht, set_keeps_dirs _ hnd⟩
  refine h1.andThen ?_
  intro hok
  obtain ⟨fs', m, hr1, hst1⟩ := apply_ok hok
  obtain ⟨_, _, md, rfl⟩ := sysOpenWrite_spec hr hr1
  generalize (st.apply (sysOpenWrite st.fs content root (lead ++ [last]))).1 = st1 at *
  subst hst1
  have hd1 : DirChain (st.fs.set (root ++ (lead ++ [last])) (some (.file content md))) root lead lead.length :=
    hd.ext h1
  have hl1 : ∀ t, (st.fs.set (root ++ (lead ++ [last])) (some (.file content md))) (root ++ (lead ++ [last])) ≠ some (.link t) := by
    intro t; rw [FS.set_same]; simp
  have hr2 := resolve_lex_follow _ root lead last hcl hd1 hl1
  apply Ext.of_apply _ _ (lead ++ [last]).length ⟨by simp, Nat.le_refl _⟩
  intro fs'' m' h
  obtain ⟨ht, hdirs⟩ := sysChmod_spec hr2 h
  exact ⟨by rw [List.take_length]; exact ht, hdirs⟩

theorem lstat_lex (fs : FS) (hcl : Clean (lead ++ [last])) (hd : DirChain fs root lead lead.length) :
    lstat fs root (lead ++ [last]) = match fs (root ++ (lead ++ [last])) with
      | none => .error .enoent | some n => .ok n := by
  simp only [lstat, resolve_lex_nofollow fs root lead last hcl hd]
  rfl

theorem unlink_then (st : St) (f : St → Step) (hcl : Clean (lead ++ [last]))
    (hd : DirChain st.fs root lead lead.length)
    (hf : ∀ st1 : St, DirChain st1.fs root lead lead.length → st1.fs (root ++ (lead ++ [last])) = none →
      Ext root (lead ++ [last]) st1 (f st1).1) :
    Ext root (lead ++ [last]) st ((st.apply (sysUnlink st.fs root (lead ++ [last]))).andThen f).1 := by
  have hr := resolve_lex_nofollow st.fs root lead last hcl hd
  have h1 : Ext root (lead ++ [last]) st (st.apply (sysUnlink st.fs root (lead ++ [last]))).1 := by
    apply Ext.of_apply st _ (lead ++ [last]).length ⟨by simp, Nat.le_refl _⟩
    intro fs' m h
    obtain ⟨ht, hnd, rfl⟩ := sysUnlink_spec hr h
    exact ⟨by rw [List.take_length]; exact ht, set_keeps_dirs _ hnd⟩
  refine h1.andThen ?_
  intro hok
  obtain ⟨fs', m, hr1, hst1⟩ := apply_ok hok
  obtain ⟨_, _, rfl⟩ := sysUnlink_spec hr hr1
  have hd1 := hd.ext h1
  rw [hst1] at hd1 ⊢
  exact hf _ hd1 (by simp [FS.set_same])

theorem symlink_ext (st : St) (tg : Bytes) (hcl : Clean (lead ++ [last])) (hd : DirChain st.fs root lead lead.length) :
    Ext root (lead ++ [last]) st (st.apply (sysSymlink st.fs tg root (lead ++ [last]))).1 := by
  have hr := resolve_lex_nofollow st.fs root lead last hcl hd
  apply Ext.of_apply st _ (lead ++ [last]).length ⟨by simp, Nat.le_refl _⟩
  intro fs' m h
  obtain ⟨ht, hn, rfl⟩ := sysSymlink_spec hr h
  exact ⟨by rw [List.take_length]; exact ht, set_keeps_dirs _ (by rw [hn]; simp)⟩

/-- **leaf phase, blob/symlink entry**: with all parents real directories, `build_file_from_blob` acts on the
lexical path only and keeps directories. -/
theorem buildFileFromBlob_ext (st : St) (mode : Nat) (content : Bytes) (hcl : Clean (lead ++ [last]))
    (hd : DirChain st.fs root lead lead.length) :
    Ext root (lead ++ [last]) st (buildFileFromBlob root (lead ++ [last]) mode content st).1 := by
  unfold buildFileFromBlob
  rw [lstat_lex st.fs hcl hd]
  cases hP : st.fs (root ++ (lead ++ [last])) with
  | none =>
    simp only
    split
    · exact symlink_ext st content hcl hd
    · exact writeAndChmod_ext st mode content hcl hd (by intro t; rw [hP]; simp)
  | some old =>
    simp only
    split
    · exact unlink_then st _ hcl hd (fun st1 hd1 _ => symlink_ext st1 content hcl hd1)
    · cases old with
      | link t =>
        exact unlink_then st _ hcl hd (fun st1 hd1 hn =>
          writeAndChmod_ext st1 mode content hcl hd1 (by intro t; rw [hn]; simp))
      | dir => exact Ext.refl _ _ _
      | file c md =>
        simp only
        split
        · exact Ext.refl _ _ _
        · exact writeAndChmod_ext st mode content hcl hd (by intro t; rw [hP]; simp)

theorem buildGitlink_ext (st : St) (hcl : Clean (lead ++ [last])) (hd : DirChain st.fs root lead lead.length) :
    Ext root (lead ++ [last]) st (buildGitlink root (lead ++ [last]) st).1 := by
  unfold buildGitlink
  split
  · exact Ext.refl _ _ _
  · have hr := resolve_lex_nofollow st.fs root lead last hcl hd
    apply Ext.of_apply st _ (lead ++ [last]).length ⟨by simp, Nat.le_refl _⟩
    intro fs' m h
    obtain ⟨ht, hn, rfl⟩ := sysMkdir_spec hr h
    exact ⟨by rw [List.take_length]; exact ht, set_keeps_dirs _ (by rw [hn]; simp)⟩

end leaf



theorem Ext.widen {root : PPath} {lead : List Name} {a b : St} (more : List Name) (h : Ext root lead a b) :
    Ext root (lead ++ more) a b := by
  refine ⟨fun m hm => ?_, h.dirs, h.safe⟩
  rcases h.log m hm with h1 | ⟨i, h1, h2, h3⟩
  · exact Or.inl h1
  · exact Or.inr ⟨i, h1, by simp; omega, by rw [List.take_append_of_le_length h2]; exact h3⟩

theorem Clean.take {l : List Name} (h : Clean l) (n : Nat) : Clean (l.take n) :=
  fun c hc => h c (List.mem_of_mem_take hc)

theorem DirChain.of_take {fs : FS} {root : PPath} {l : List Name} {n k : Nat} (h : DirChain fs root l k) (hk : k ≤ n) :
    DirChain fs root (l.take n) k := by
  intro i h1 h2
  rw [List.take_take, Nat.min_eq_left (by omega)]
  exact h i h1 h2

section parent
variable {root : PPath}

theorem chain_after_mkdir {fs : FS} {lead : List Name} {i : Nat} (hd : DirChain fs root lead i) (hi : i < lead.length) :
    DirChain (fs.set (root ++ lead.take (i + 1)) (some .dir)) root lead (i + 1) := by
  intro j h1 h2
  by_cases hj : j = i + 1
  · subst hj; simp [FS.set_same]
  · rw [FS.set_other]
    · exact hd j h1 (by omega)
    · intro he
      have := congrArg List.length he
      simp at this; omega

/-- the `mkdir` loop of makedirs: started below a chain of real directories, it only creates lexical prefixes -/
theorem mkdirsUp_ext (lead : List Name) (hcl : Clean lead) : ∀ (cnt i : Nat) (st : St), i + cnt ≤ lead.length →
    DirChain st.fs root lead i →
    Ext root lead st (mkdirsUp root lead i cnt st).1 ∧
    ((mkdirsUp root lead i cnt st).2 = none → DirChain (mkdirsUp root lead i cnt st).1.fs root lead (i + cnt)) := by
  intro cnt
  induction cnt with
  | zero => intro i st _ hd; exact ⟨Ext.refl _ _ _, fun _ => hd⟩
  | succ cnt ih =>
    intro i st hlen hd
    have hi : i < lead.length := by omega
    have htk : lead.take (i + 1) = lead.take i ++ [lead[i]] := List.take_succ_eq_append_getElem hi
    have hcl' : Clean (lead.take i ++ [lead[i]]) := by rw [← htk]; exact hcl.take _
    have hd' : DirChain st.fs root (lead.take i) (lead.take i).length := by
      have : (lead.take i).length = i := by simp; omega
      rw [this]; exact hd.of_take (Nat.le_refl _)
    have hr := resolve_lex_nofollow st.fs root (lead.take i) lead[i] hcl' hd'
    rw [← htk] at hr
    simp only [mkdirsUp]
    have h1 : Ext root lead st (st.apply (sysMkdir st.fs root (lead.take (i + 1)))).1 := by
      apply Ext.of_apply st _ (i + 1) ⟨by omega, by omega⟩
      intro fs' m h
      obtain ⟨ht, hn, rfl⟩ := sysMkdir_spec hr h
      exact ⟨ht, set_keeps_dirs _ (by rw [hn]; simp)⟩
    constructor
    · refine h1.andThen ?_
      intro hok
      obtain ⟨fs', m, hr1, hst1⟩ := apply_ok hok
      obtain ⟨_, hn, rfl⟩ := sysMkdir_spec hr hr1
      rw [hst1]
      exact (ih (i + 1) _ (by omega) (chain_after_mkdir hd hi)).1
    · intro hok
      obtain ⟨hok1, hok2⟩ := andThen_ok (show (st.apply (sysMkdir st.fs root (lead.take (i + 1)))).andThen
        (mkdirsUp root lead (i + 1) cnt) = (_, none) from Prod.ext rfl hok)
      obtain ⟨fs', m, hr1, hst1⟩ := apply_ok hok1
      obtain ⟨_, hn, rfl⟩ := sysMkdir_spec hr hr1
      have hd1 : DirChain (st.apply (sysMkdir st.fs root (lead.take (i + 1)))).1.fs root lead (i + 1) := by
        rw [hst1]
        exact chain_after_mkdir hd hi
      have := (ih (i + 1) _ (by omega) hd1).2
      have e : i + (cnt + 1) = i + 1 + cnt := by omega
      rw [e]
      simp only [Step.andThen] at hok ⊢
      revert hok this
      generalize (st.apply (sysMkdir st.fs root (lead.take (i + 1)))) = r at *
      obtain ⟨st1, e1⟩ := r
      cases e1 with
      | none => intro hok this; exact this hok
      | some e => simp at hok1

end parent


section parent2
variable {root : PPath}

/-- what `verify_leading_dirs` establishes about the chain of leading directories: real directories up to
position `j`, then either the end, or nothing at all, or (in the last position only) a regular file -/
def Verified (fs : FS) (root : PPath) (lead : List Name) (j : Nat) : Prop :=
  j ≤ lead.length ∧ DirChain fs root lead j ∧
  (j = lead.length ∨ fs (root ++ lead.take (j + 1)) = none ∨
   (j + 1 = lead.length ∧ ∃ c m, fs (root ++ lead) = some (.file c m)))

/-- below a missing component nothing exists -/
theorem exists_absent {fs : FS} {cs : List Name} {k : Nat} (hcl : Clean cs) (hk : k < cs.length)
    (hd : DirChain fs root cs k) (hn : fs (root ++ cs.take (k + 1)) = none) : exists_ fs root cs = false := by
  have hr := resolve_chain fs true cs k (fuelFor cs.length) root hcl (by omega) (by simp [fuelFor]; omega) hd
  have hdrop : cs.drop k = cs[k] :: cs.drop (k + 1) := List.drop_eq_getElem_cons hk
  have hf : fuelFor cs.length - k = (fuelFor cs.length - k - 1) + 1 := by simp [fuelFor]; omega
  have hn' : fs (root ++ cs.take k ++ [cs[k]]) = none := by
    rw [List.append_assoc, ← List.take_succ_eq_append_getElem hk]; exact hn
  rw [hdrop, hf, resolve_one_absent fs _ _ cs[k] _ true (hcl _ (List.getElem_mem hk)) hn'] at hr
  by_cases hd0 : List.drop (k + 1) cs = []
  · simp [exists_, stat, hr, hd0, hn]
  · simp [exists_, stat, hr, hd0]

theorem deepestExisting_le {fs : FS} {lead : List Name} {j : Nat} (hcl : Clean lead) (hv : Verified fs root lead j) :
    ∀ n, n ≤ lead.length - 1 → deepestExisting fs root lead n ≤ j := by
  obtain ⟨hj, hd, hcase⟩ := hv
  intro n
  induction n with
  | zero => intro _; simp [deepestExisting]
  | succ n ih =>
    intro hn
    simp only [deepestExisting]
    split
    · rename_i hex
      by_cases hle : n + 1 ≤ j
      · exact hle
      · exfalso
        rcases hcase with h | h | ⟨h, _⟩
        · omega
        · have : exists_ fs root (lead.take (n + 1)) = false := by
            apply exists_absent (k := j) (hcl.take _) (by simp; omega) (hd.of_take (by omega))
            rw [List.take_take, Nat.min_eq_left (by omega)]; exact h
          rw [this] at hex; cases hex
        · omega
    · exact ih (by omega)

/-- **parent phase** (`if not exists(dirname): makedirs(dirname)`): only lexical prefixes are created; on success
every leading component is a real directory — or the last one is the regular file it already was. -/
theorem ensureParent_ext {lead : List Name} {j : Nat} (st : St) (hcl : Clean lead) (hv : Verified st.fs root lead j) :
    Ext root lead st (ensureParent root lead st).1 ∧
    ((ensureParent root lead st).2 = none →
      DirChain (ensureParent root lead st).1.fs root lead lead.length ∨
      ((ensureParent root lead st).1 = st ∧ j + 1 = lead.length ∧ ∃ c m, st.fs (root ++ lead) = some (.file c m))) := by
  unfold ensureParent
  split
  · rename_i hex
    refine ⟨Ext.refl _ _ _, fun _ => ?_⟩
    obtain ⟨hj, hd, hcase⟩ := hv
    rcases hcase with h | h | ⟨h, hf⟩
    · left; rw [← h]; exact hd
    · exfalso
      rcases Nat.lt_or_ge j lead.length with h' | h'
      · have := exists_absent (k := j) hcl h' hd h
        rw [this] at hex; cases hex
      · have hjl : j = lead.length := by omega
        subst hjl
        rw [List.take_of_length_le (by omega)] at h
        cases hl : lead with
        | nil =>
          subst hl
          simp only [List.append_nil] at h
          simp [exists_, stat, resolve_nil, h] at hex
        | cons c r =>
          have := hd lead.length (by rw [hl]; simp) (Nat.le_refl _)
          rw [List.take_length, h] at this; cases this
    · right; exact ⟨rfl, h, hf⟩
  · simp only [makedirs]
    have hs : deepestExisting st.fs root lead (lead.length - 1) ≤ j := deepestExisting_le hcl hv _ (Nat.le_refl _)
    have hs2 : ∀ n, deepestExisting st.fs root lead n ≤ n := by
      intro n; induction n with
      | zero => simp [deepestExisting]
      | succ n ih => simp only [deepestExisting]; split <;> omega
    have hs3 := hs2 (lead.length - 1)
    generalize deepestExisting st.fs root lead (lead.length - 1) = start at *
    have := mkdirsUp_ext (root := root) lead hcl (lead.length - start) start st (by omega) (hv.2.1.mono hs)
    refine ⟨this.1, fun hok => Or.inl ?_⟩
    have h2 := this.2 hok
    have e : start + (lead.length - start) = lead.length := by omega
    rw [e] at h2
    exact h2

end parent2


section verify
variable {root : PPath}

/-- a regular file in the parent position: the leaf phase does nothing and fails -/
theorem leaf_parent_file (st : St) (lead : List Name) (mid last : Name) (hcl : Clean (lead ++ [mid, last]))
    (hd : DirChain st.fs root lead lead.length) {ct : Bytes} {m : Nat}
    (hf : st.fs (root ++ (lead ++ [mid])) = some (.file ct m)) (mode : Nat) (content : Bytes) :
    buildFileFromBlob root (lead ++ [mid, last]) mode content st = (st, some .enotdir) ∧
    buildGitlink root (lead ++ [mid, last]) st = (st, some .enotdir) := by
  have h1 := resolve_parent_file st.fs root lead mid last false hcl hd hf
  have h2 := resolve_parent_file st.fs root lead mid last true hcl hd hf
  constructor
  · simp only [buildFileFromBlob, lstat, h1]
  · simp only [buildGitlink, isdir, stat, h2, sysMkdir, h1, St.apply]
    simp

theorem commonLen_spec : ∀ (a b : List Name), a.take (commonLen a b) = b.take (commonLen a b) ∧
    commonLen a b ≤ a.length ∧ commonLen a b ≤ b.length := by
  intro a
  induction a with
  | nil => intro b; cases b <;> simp [commonLen]
  | cons x xs ih =>
    intro b
    cases b with
    | nil => simp [commonLen]
    | cons y ys =>
      simp only [commonLen]
      split
      · rename_i h; subst h
        obtain ⟨h1, h2, h3⟩ := ih ys
        simp [h1, h2, h3]
      · simp

/-- the `for part in components[common:]` loop of verify_leading_dirs -/
theorem verifyLoop_spec {fs : FS} {lead : List Name} (hcl : Clean lead) : ∀ (todo done : List Name) {safe' : List Name},
    lead = done ++ todo → DirChain fs root lead done.length →
    verifyLoop fs root done todo done = .ok safe' →
    (∃ j, Verified fs root lead j) ∧ ∃ s, s ≤ lead.length ∧ safe' = lead.take s := by
  intro todo
  induction todo with
  | nil =>
    intro done safe' hl hd h
    simp only [verifyLoop, Except.ok.injEq] at h
    subst h
    simp only [List.append_nil] at hl
    subst hl
    exact ⟨⟨lead.length, Nat.le_refl _, hd, Or.inl rfl⟩, lead.length, Nat.le_refl _, by simp⟩
  | cons c rest ih =>
    intro done safe' hl hd h
    have hclc : Clean (done ++ [c]) := by
      intro x hx; apply hcl x; rw [hl]
      rcases List.mem_append.mp hx with h1 | h1
      · exact List.mem_append_left _ h1
      · exact List.mem_append_right _ (by simp at h1; simp [h1])
    have hdd : DirChain fs root done done.length := by
      intro i h1 h2
      have := hd i h1 h2
      rwa [hl, List.take_append_of_le_length h2] at this
    have htake : lead.take (done.length + 1) = done ++ [c] := by
      rw [hl, List.take_append]; simp [List.take_of_length_le]
    have htake0 : lead.take done.length = done := by
      rw [hl]; simp
    simp only [verifyLoop, lstat_lex fs hclc hdd] at h
    cases hP : fs (root ++ (done ++ [c])) with
    | none =>
      simp only [hP, Except.ok.injEq] at h
      subst h
      exact ⟨⟨done.length, by rw [hl]; simp, hd, Or.inr (Or.inl (by rw [htake]; exact hP))⟩,
        done.length, by rw [hl]; simp, htake0.symm⟩
    | some n =>
      cases n with
      | link t => simp [hP] at h
      | dir =>
        simp only [hP] at h
        refine ih (done ++ [c]) (by rw [hl]; simp) ?_ h
        intro i h1 h2
        by_cases hi : i ≤ done.length
        · exact hd i h1 hi
        · have : i = done.length + 1 := by simp at h2; omega
          subst this; rw [htake]; exact hP
      | file ct md =>
        simp only [hP] at h
        cases rest with
        | nil =>
          simp only [verifyLoop, Except.ok.injEq] at h
          subst h
          have hlen : lead.length = done.length + 1 := by rw [hl]; simp
          have hle : lead = done ++ [c] := hl
          exact ⟨⟨done.length, by omega, hd, Or.inr (Or.inr ⟨hlen.symm, ct, md, by rw [hle]; exact hP⟩)⟩,
            lead.length, Nat.le_refl _, by rw [List.take_length]; exact hle.symm⟩
        | cons c2 r =>
          exfalso
          have hcl2 : Clean (done ++ [c, c2]) := by
            intro x hx; apply hcl x; rw [hl]
            rcases List.mem_append.mp hx with h1 | h1
            · exact List.mem_append_left _ h1
            · exact List.mem_append_right _ (by simp at h1; rcases h1 with rfl | rfl <;> simp)
          have := resolve_parent_file fs root done c c2 false hcl2 hdd hP
          simp only [verifyLoop, lstat] at h
          have e : done ++ [c] ++ [c2] = done ++ [c, c2] := by simp
          rw [e, this] at h
          simp at h

end verify


section entry
variable {root : PPath}

/-- the cache invariant: every prefix of `safe_prefix` is a real directory NOW -/
def Inv (root : PPath) (st : St) : Prop := DirChain st.fs root st.safe st.safe.length

theorem verifyLeadingDirs_spec {fs : FS} {comps safe safe' : List Name} (hcl : Clean comps.dropLast)
    (hne : comps.dropLast ≠ []) (hinv : DirChain fs root safe safe.length)
    (h : verifyLeadingDirs fs root comps safe = .ok safe') :
    (∃ j, Verified fs root comps.dropLast j) ∧ ∃ s, s ≤ comps.dropLast.length ∧ safe' = comps.dropLast.take s := by
  simp only [verifyLeadingDirs, hne, if_false] at h
  obtain ⟨h1, h2, h3⟩ := commonLen_spec safe comps.dropLast
  generalize commonLen safe comps.dropLast = common at *
  generalize comps.dropLast = lead at *
  rw [h1] at h
  refine verifyLoop_spec hcl (lead.drop common) (lead.take common) (List.take_append_drop _ _).symm ?_ h
  have hlen : (lead.take common).length = common := by simp; omega
  rw [hlen]
  intro i hi1 hi2
  have e : lead.take i = safe.take i := by
    have a1 : lead.take i = (lead.take common).take i := by rw [List.take_take, Nat.min_eq_left hi2]
    have a2 : safe.take i = (safe.take common).take i := by rw [List.take_take, Nat.min_eq_left hi2]
    rw [a1, a2, h1]
  rw [e]
  exact hinv i hi1 (by omega)

/-- what one loop iteration does, given the cache invariant -/
structure EntryOK (root : PPath) (comps : List Name) (st st' : St) (err : Option Errno) : Prop where
  log : ∀ m ∈ st'.log, m ∈ st.log ∨ ∃ i, 1 ≤ i ∧ i ≤ comps.length ∧ m.target = root ++ comps.take i
  dirs : ∀ q, st.fs q = some .dir → st'.fs q = some .dir
  inv : err = none → Inv root st'

theorem processEntry_ok (v : Bytes → Bool) (e : Entry) (st : St) (hinv : Inv root st)
    (hclean : validatePath v e.path = true → Clean (splitOn pathSep e.path)) :
    EntryOK root (splitOn pathSep e.path) st (processEntry v root e st).1 (processEntry v root e st).2 := by
  unfold processEntry
  split
  · exact ⟨fun m hm => Or.inl hm, fun q h => h, by simp⟩
  · rename_i hval
    have hval : validatePath v e.path = true := by simpa using hval
    have hcl := hclean hval
    simp only
    generalize hcomps : splitOn pathSep e.path = comps at *
    have hne : comps ≠ [] := by rw [← hcomps]; exact splitOn_ne_nil _ _
    have hsplit : comps = comps.dropLast ++ [comps.getLast hne] := (List.dropLast_concat_getLast hne).symm
    generalize hlead : comps.dropLast = lead at *
    generalize comps.getLast hne = last at *
    have hcll : Clean lead := fun c hc => hcl c (by rw [hsplit]; exact List.mem_append_left _ hc)
    cases hver : verifyLeadingDirs st.fs root comps st.safe with
    | error err => exact ⟨fun m hm => Or.inl hm, fun q h => h, by simp⟩
    | ok safe' =>
      simp only
      -- the chain facts established by verify
      have hV : (∃ j, Verified st.fs root lead j) ∧
          (safe' = st.safe ∧ lead = [] ∨ ∃ s, s ≤ lead.length ∧ safe' = lead.take s) := by
        by_cases hl0 : lead = []
        · subst hl0
          have : safe' = st.safe := by
            simp only [verifyLeadingDirs, hlead, if_true] at hver
            exact (Except.ok.inj hver).symm
          exact ⟨⟨0, Nat.le_refl _, fun i h1 h2 => by omega, Or.inl rfl⟩, Or.inl ⟨this, rfl⟩⟩
        · have := verifyLeadingDirs_spec (root := root) (comps := comps) (by rw [hlead]; exact hcll)
            (by rw [hlead]; exact hl0) hinv hver
          rw [hlead] at this
          exact ⟨this.1, Or.inr this.2⟩
      obtain ⟨⟨j, hVj⟩, hsafe⟩ := hV
      generalize hst0 : ({ st with safe := safe' } : St) = st0
      have hfs0 : st0.fs = st.fs := by rw [← hst0]
      have hlog0 : st0.log = st.log := by rw [← hst0]
      have hsafe0 : st0.safe = safe' := by rw [← hst0]
      have hVj0 : Verified st0.fs root lead j := by rw [hfs0]; exact hVj
      obtain ⟨hE1, hE2⟩ := ensureParent_ext st0 hcll hVj0
      generalize hr : ensureParent root lead st0 = r at *
      obtain ⟨st1, e1⟩ := r
      cases e1 with
      | some err =>
        simp only [Step.andThen]
        refine ⟨fun m hm => ?_, fun q h => hE1.dirs q (by rw [hfs0]; exact h), by simp⟩
        rcases hE1.log m hm with h | ⟨i, h1, h2, h3⟩
        · left; rw [← hlog0]; exact h
        · right; exact ⟨i, h1, by rw [hsplit]; simp; omega, by rw [hsplit, List.take_append_of_le_length h2]; exact h3⟩
      | none =>
        simp only [Step.andThen]
        have hE1' : Ext root comps st0 st1 := by rw [hsplit]; exact hE1.widen _
        rcases hE2 rfl with hall | ⟨hsame, hj1, ct, md, hfile⟩
        · -- every parent is a real directory: the leaf phase acts on the lexical path
          have hleaf : Ext root comps st1 (if isGitlinkMode e.mode = true then buildGitlink root comps st1
              else buildFileFromBlob root comps e.mode e.content st1).1 := by
            rw [hsplit] at hcl ⊢
            split
            · exact buildGitlink_ext st1 hcl hall
            · exact buildFileFromBlob_ext st1 e.mode e.content hcl hall
          have hE := hE1'.trans hleaf
          generalize (if isGitlinkMode e.mode = true then buildGitlink root comps st1
              else buildFileFromBlob root comps e.mode e.content st1) = fin at *
          refine ⟨fun m hm => ?_, fun q h => hE.dirs q (by rw [hfs0]; exact h), fun _ => ?_⟩
          · rcases hE.log m hm with h | h
            · left; rw [← hlog0]; exact h
            · right; exact h
          · -- the cache is sound again
            have hsf : fin.1.safe = safe' := by rw [hE.safe, hsafe0]
            have hchain : DirChain fin.1.fs root lead lead.length := fun i h1 h2 => hleaf.dirs _ (hall i h1 h2)
            unfold Inv
            rw [hsf]
            rcases hsafe with ⟨hs, _⟩ | ⟨s, hs1, hs2⟩
            · rw [hs]
              exact fun i h1 h2 => hE.dirs _ (by rw [hfs0]; exact hinv i h1 h2)
            · rw [hs2]
              have hl : (lead.take s).length = s := by simp; omega
              rw [hl]
              exact (hchain.mono hs1).of_take (Nat.le_refl _)
        · -- the last leading component is a regular file: nothing happens, the entry fails
          have hsame' : st1 = st0 := hsame
          rw [hsame']
          have hlead2 : ∃ l2 mid, lead = l2 ++ [mid] := by
            have : lead ≠ [] := by intro h; subst h; simp at hj1
            exact ⟨lead.dropLast, lead.getLast this, (List.dropLast_concat_getLast this).symm⟩
          obtain ⟨l2, mid, rfl⟩ := hlead2
          have hd2 : DirChain st0.fs root l2 l2.length := by
            have hjl : j = l2.length := by simp at hj1; omega
            intro i h1 h2
            have := hVj0.2.1 i h1 (by omega)
            rwa [List.take_append_of_le_length h2] at this
          have hcomps2 : comps = l2 ++ [mid, last] := by rw [hsplit]; simp
          have hnoop := leaf_parent_file st0 l2 mid last (by rw [← hcomps2]; exact hcl) hd2 hfile e.mode e.content
          rw [← hcomps2] at hnoop
          have : (if isGitlinkMode e.mode = true then buildGitlink root comps st0
              else buildFileFromBlob root comps e.mode e.content st0) = (st0, some .enotdir) := by
            split
            · exact hnoop.2
            · exact hnoop.1
          rw [this]
          exact ⟨fun m hm => Or.inl (by rw [← hlog0]; exact hm), fun q h => by rw [hfs0]; exact h, by simp⟩

end entry

section run
variable {root : PPath}

theorem processEntry_invalid (v : Bytes → Bool) (e : Entry) (st : St) (h : validatePath v e.path = false) :
    processEntry v root e st = (st, some .invalidPath) := by
  simp [processEntry, h]

/-- the whole loop: the log only grows by calls on lexical prefixes of validated entry paths, and after every
completed iteration the cache is sound -/
theorem runEntries_ok (v : Bytes → Bool) (hclean : ∀ p, validatePath v p = true → Clean (splitOn pathSep p)) :
    ∀ (es : List Entry) (st : St), Inv root st →
    (∀ m ∈ (runEntries v root es st).1.log, m ∈ st.log ∨ ∃ e ∈ es, validatePath v e.path = true ∧
      ∃ i, 1 ≤ i ∧ i ≤ (splitOn pathSep e.path).length ∧ m.target = root ++ (splitOn pathSep e.path).take i) ∧
    ((runEntries v root es st).2 = none → Inv root (runEntries v root es st).1) := by
  intro es
  induction es with
  | nil => intro st hinv; exact ⟨fun m hm => Or.inl hm, fun _ => hinv⟩
  | cons e es ih =>
    intro st hinv
    have hE := processEntry_ok (root := root) v e st hinv (hclean e.path)
    simp only [runEntries]
    by_cases hval : validatePath v e.path = true
    · generalize processEntry v root e st = r at *
      obtain ⟨st1, e1⟩ := r
      cases e1 with
      | some err =>
        simp only [Step.andThen]
        refine ⟨fun m hm => ?_, by simp⟩
        rcases hE.log m hm with h | h
        · exact Or.inl h
        · exact Or.inr ⟨e, List.mem_cons_self, hval, h⟩
      | none =>
        simp only [Step.andThen]
        obtain ⟨ih1, ih2⟩ := ih st1 (hE.inv rfl)
        refine ⟨fun m hm => ?_, ih2⟩
        rcases ih1 m hm with h | ⟨e', he', h⟩
        · rcases hE.log m h with h | h
          · exact Or.inl h
          · exact Or.inr ⟨e, List.mem_cons_self, hval, h⟩
        · exact Or.inr ⟨e', List.mem_cons_of_mem _ he', h⟩
    · have hv : validatePath v e.path = false := by simpa using hval
      rw [processEntry_invalid v e st hv]
      simp only [Step.andThen]
      exact ⟨fun m hm => Or.inl hm, by simp⟩

end run

section modes

/-- a logged call is mode-canonical: a chmod carries `cleanup_mode(m) % 4096` for some `m` -/
def GoodMut : Mut → Prop
  | .chmod _ md => ∃ mode, md = cleanupMode mode % 4096
  | _ => True

def GoodLog (st : St) : Prop := ∀ m ∈ st.log, GoodMut m

theorem GoodLog.apply {st : St} {r : Except Errno (FS × Mut)} (h : GoodLog st)
    (hr : ∀ fs' m, r = .ok (fs', m) → GoodMut m) : GoodLog (st.apply r).1 := by
  cases r with
  | error e => exact h
  | ok v =>
    intro m hm
    simp only [St.apply, List.mem_append, List.mem_cons, List.not_mem_nil, or_false] at hm
    rcases hm with hm | rfl
    · exact h m hm
    · exact hr v.1 v.2 rfl

theorem GoodLog.andThen {r : Step} {f : St → Step} (h : GoodLog r.1) (hf : ∀ st, GoodLog st → GoodLog (f st).1) :
    GoodLog (r.andThen f).1 := by
  obtain ⟨st1, e⟩ := r
  cases e with
  | none => exact hf st1 h
  | some e => exact h

theorem sysMkdir_good {fs : FS} {root : PPath} {cs : List Name} : ∀ fs' m, sysMkdir fs root cs = .ok (fs', m) → GoodMut m := by
  intro fs' m h
  simp only [sysMkdir] at h
  split at h
  · cases h
  · split at h
    · cases h
    · cases h; trivial

theorem sysUnlink_good {fs : FS} {root : PPath} {cs : List Name} : ∀ fs' m, sysUnlink fs root cs = .ok (fs', m) → GoodMut m := by
  intro fs' m h
  simp only [sysUnlink] at h
  split at h
  · cases h
  · split at h
    · cases h
    · cases h
    · cases h; trivial

theorem sysSymlink_good {fs : FS} {root : PPath} {cs : List Name} {t : Bytes} :
    ∀ fs' m, sysSymlink fs t root cs = .ok (fs', m) → GoodMut m := by
  intro fs' m h
  simp only [sysSymlink] at h
  split at h
  · cases h
  · split at h
    · cases h
    · cases h; trivial

theorem sysOpenWrite_good {fs : FS} {root : PPath} {cs : List Name} {t : Bytes} :
    ∀ fs' m, sysOpenWrite fs t root cs = .ok (fs', m) → GoodMut m := by
  intro fs' m h
  simp only [sysOpenWrite] at h
  split at h
  · cases h
  · split at h
    · cases h
    · cases h
    · cases h; trivial
    · cases h; trivial

theorem sysChmod_good {fs : FS} {root : PPath} {cs : List Name} (mode : Nat) :
    ∀ fs' m, sysChmod fs (cleanupMode mode) root cs = .ok (fs', m) → GoodMut m := by
  intro fs' m h
  simp only [sysChmod] at h
  split at h
  · cases h
  · split at h
    · cases h
    · cases h; exact ⟨mode, rfl⟩
    · cases h; exact ⟨mode, rfl⟩

theorem mkdirsUp_good (root : PPath) (lead : List Name) : ∀ (cnt i : Nat) (st : St), GoodLog st →
    GoodLog (mkdirsUp root lead i cnt st).1 := by
  intro cnt
  induction cnt with
  | zero => intro i st h; exact h
  | succ cnt ih =>
    intro i st h
    simp only [mkdirsUp]
    exact GoodLog.andThen (h.apply sysMkdir_good) (fun st1 h1 => ih (i + 1) st1 h1)

theorem writeAndChmod_good (root : PPath) (comps : List Name) (mode : Nat) (content : Bytes) (st : St) (h : GoodLog st) :
    GoodLog (writeAndChmod root comps mode content st).1 :=
  GoodLog.andThen (h.apply sysOpenWrite_good) (fun _ h1 => h1.apply (sysChmod_good mode))

theorem buildFileFromBlob_good (root : PPath) (comps : List Name) (mode : Nat) (content : Bytes) (st : St) (h : GoodLog st) :
    GoodLog (buildFileFromBlob root comps mode content st).1 := by
  unfold buildFileFromBlob
  split
  · split
    · exact h.apply sysSymlink_good
    · exact writeAndChmod_good _ _ _ _ _ h
  · exact h
  · split
    · exact GoodLog.andThen (h.apply sysUnlink_good) (fun _ h1 => h1.apply sysSymlink_good)
    · split
      · exact GoodLog.andThen (h.apply sysUnlink_good) (fun _ h1 => writeAndChmod_good _ _ _ _ _ h1)
      · exact h
      · split
        · exact h
        · exact writeAndChmod_good _ _ _ _ _ h

theorem processEntry_good (v : Bytes → Bool) (root : PPath) (e : Entry) (st : St) (h : GoodLog st) :
    GoodLog (processEntry v root e st).1 := by
  unfold processEntry
  split
  · exact h
  · simp only
    split
    · exact h
    · refine GoodLog.andThen ?_ (fun st1 h1 => ?_)
      · unfold ensureParent
        split
        · exact h
        · exact mkdirsUp_good _ _ _ _ _ h
      · split
        · unfold buildGitlink
          split
          · exact h1
          · exact h1.apply sysMkdir_good
        · exact buildFileFromBlob_good _ _ _ _ _ h1

theorem runEntries_good (v : Bytes → Bool) (root : PPath) : ∀ (es : List Entry) (st : St), GoodLog st →
    GoodLog (runEntries v root es st).1 := by
  intro es
  induction es with
  | nil => intro st h; exact h
  | cons e es ih =>
    intro st h
    simp only [runEntries]
    exact GoodLog.andThen (processEntry_good v root e st h) (fun st1 h1 => ih st1 h1)

end modes


section delete
variable {root : PPath}

/-- the delete of one old path is confined WHEN every leading component is a real directory on disk -/
theorem deleteOld_ext (v : Bytes → Bool) (path : Bytes) (st : St) (lead : List Name) (last : Name)
    (hsplit : splitOn pathSep path = lead ++ [last]) (hcl : Clean (lead ++ [last]))
    (hd : DirChain st.fs root lead lead.length) :
    Ext root (lead ++ [last]) st (deleteOldG false v root path st).1 := by
  unfold deleteOldG
  split
  · exact Ext.refl _ _ _
  · simp only [hsplit, Bool.false_eq_true, if_false]
    rw [lstat_lex st.fs hcl hd]
    cases hP : st.fs (root ++ (lead ++ [last])) with
    | none => exact Ext.refl _ _ _
    | some n =>
      cases n with
      | dir => exact Ext.refl _ _ _
      | file c md =>
        have hr := resolve_lex_nofollow st.fs root lead last hcl hd
        apply Ext.of_apply st _ (lead ++ [last]).length ⟨by simp, Nat.le_refl _⟩
        intro fs' m h
        obtain ⟨ht, hnd, rfl⟩ := sysUnlink_spec hr h
        exact ⟨by rw [List.take_length]; exact ht, set_keeps_dirs _ hnd⟩
      | link t =>
        have hr := resolve_lex_nofollow st.fs root lead last hcl hd
        apply Ext.of_apply st _ (lead ++ [last]).length ⟨by simp, Nat.le_refl _⟩
        intro fs' m h
        obtain ⟨ht, hnd, rfl⟩ := sysUnlink_spec hr h
        exact ⟨by rw [List.take_length]; exact ht, set_keeps_dirs _ hnd⟩

end delete
section guarded
variable {root : PPath}

/-- a missing component strictly inside the path: every call on the path fails with ENOENT -/
theorem resolve_absent_mid {fs : FS} {cs : List Name} {k : Nat} (fl : Bool) (hcl : Clean cs) (hk : k + 1 < cs.length)
    (hd : DirChain fs root cs k) (hn : fs (root ++ cs.take (k + 1)) = none) :
    resolve fs (fuelFor cs.length) root cs fl = .error .enoent := by
  have hk' : k < cs.length := by omega
  have hr := resolve_chain fs fl cs k (fuelFor cs.length) root hcl (by omega) (by simp [fuelFor]; omega) hd
  have hdrop : cs.drop k = cs[k] :: cs.drop (k + 1) := List.drop_eq_getElem_cons hk'
  have hf : fuelFor cs.length - k = (fuelFor cs.length - k - 1) + 1 := by simp [fuelFor]; omega
  have hn' : fs (root ++ cs.take k ++ [cs[k]]) = none := by
    rw [List.append_assoc, ← List.take_succ_eq_append_getElem hk']; exact hn
  rw [hdrop, hf, resolve_one_absent fs _ _ cs[k] _ fl (hcl _ (List.getElem_mem hk')) hn'] at hr
  have hne : cs.drop (k + 1) ≠ [] := by
    intro h
    have := congrArg List.length h
    simp at this; omega
  simpa [hne] using hr

/-- **the guarded lstat is lexical**: whenever `_lstat_tracked_path` reports an object for `root/lead/last`, every
leading component is a real directory, so the object is the one at the lexical path inside the work tree — for
EVERY file system. -/
theorem lstatTracked_lexical {fs : FS} {lead : List Name} {last : Name} {n : Node} (hcl : Clean (lead ++ [last]))
    (h : lstatTracked fs root (lead ++ [last]) = .ok n) :
    DirChain fs root lead lead.length ∧ fs (root ++ (lead ++ [last])) = some n := by
  have hcll : Clean lead := fun c hc => hcl c (List.mem_append_left _ hc)
  have hdl : (lead ++ [last]).dropLast = lead := by simp
  unfold lstatTracked at h
  cases hver : verifyLeadingDirs fs root (lead ++ [last]) [] with
  | error e => rw [hver] at h; cases e <;> simp at h
  | ok safe' =>
    rw [hver] at h
    simp only at h
    have hchain : DirChain fs root lead lead.length := by
      by_cases hl0 : lead = []
      · subst hl0; intro i h1 h2; simp at h2; omega
      · have := verifyLeadingDirs_spec (root := root) (comps := lead ++ [last]) (by rw [hdl]; exact hcll)
          (by rw [hdl]; exact hl0) (fun i h1 h2 => by simp at h2; omega) hver
        rw [hdl] at this
        obtain ⟨⟨j, hj, hd, hcase⟩, _⟩ := this
        rcases hcase with hje | hn | ⟨hj1, ct, md, hf⟩
        · rw [← hje]; exact hd
        · exfalso
          have hjl : j < lead.length := by
            rcases Nat.lt_or_ge j lead.length with h' | h'
            · exact h'
            · exfalso
              have hje : j = lead.length := by omega
              subst hje
              rw [List.take_of_length_le (by omega)] at hn
              have hpos : 1 ≤ lead.length := by
                cases lead with
                | nil => exact absurd rfl hl0
                | cons a l => simp
              have := hd lead.length hpos (Nat.le_refl _)
              rw [List.take_length, hn] at this; cases this
          have hr := resolve_absent_mid (root := root) (cs := lead ++ [last]) (k := j) false hcl (by simp; omega)
            (hd.append [last] (by omega)) (by rw [List.take_append_of_le_length (by omega)]; exact hn)
          simp only [lstat, hr] at h
          cases h
        · exfalso
          have hne : lead ≠ [] := hl0
          obtain ⟨l2, mid, rfl⟩ : ∃ l2 mid, lead = l2 ++ [mid] :=
            ⟨lead.dropLast, lead.getLast hne, (List.dropLast_concat_getLast hne).symm⟩
          have hjl : j = l2.length := by simp at hj1; omega
          have hd2 : DirChain fs root l2 l2.length := by
            intro i h1 h2
            have := hd i h1 (by omega)
            rwa [List.take_append_of_le_length h2] at this
          have e : l2 ++ [mid] ++ [last] = l2 ++ [mid, last] := by simp
          have hr := resolve_parent_file fs root l2 mid last false (by rw [← e]; exact hcl) hd2 hf
          simp only [lstat] at h
          rw [e, hr] at h
          simp at h
    refine ⟨hchain, ?_⟩
    rw [lstat_lex fs hcl hchain] at h
    cases hP : fs (root ++ (lead ++ [last])) with
    | none => rw [hP] at h; simp at h
    | some n' => rw [hP] at h; simp at h; rw [h]

/-- the guarded delete of one old path is confined for EVERY file system -/
theorem deleteOldG_guarded_ext (v : Bytes → Bool) (path : Bytes) (st : St) (lead : List Name) (last : Name)
    (hsplit : splitOn pathSep path = lead ++ [last]) (hcl : Clean (lead ++ [last])) :
    Ext root (lead ++ [last]) st (deleteOldG true v root path st).1 := by
  unfold deleteOldG
  split
  · exact Ext.refl _ _ _
  · simp only [hsplit, if_true]
    cases hl : lstatTracked st.fs root (lead ++ [last]) with
    | error e => cases e <;> exact Ext.refl _ _ _
    | ok n =>
      obtain ⟨hd, hP⟩ := lstatTracked_lexical hcl hl
      have hr := resolve_lex_nofollow st.fs root lead last hcl hd
      cases n with
      | dir => exact Ext.refl _ _ _
      | file c md =>
        apply Ext.of_apply st _ (lead ++ [last]).length ⟨by simp, Nat.le_refl _⟩
        intro fs' m h
        obtain ⟨ht, hnd, rfl⟩ := sysUnlink_spec hr h
        exact ⟨by rw [List.take_length]; exact ht, set_keeps_dirs _ hnd⟩
      | link t =>
        apply Ext.of_apply st _ (lead ++ [last]).length ⟨by simp, Nat.le_refl _⟩
        intro fs' m h
        obtain ⟨ht, hnd, rfl⟩ := sysUnlink_spec hr h
        exact ⟨by rw [List.take_length]; exact ht, set_keeps_dirs _ hnd⟩

end guarded

section writephase
variable {root : PPath}

/-- log-only extension: every new log entry acted on a lexical prefix of `root/comps` (directories may go away) -/
def LogExt (root : PPath) (comps : List Name) (st st' : St) : Prop :=
  ∀ m ∈ st'.log, m ∈ st.log ∨ ∃ i, 1 ≤ i ∧ i ≤ comps.length ∧ m.target = root ++ comps.take i

theorem LogExt.refl (comps : List Name) (st : St) : LogExt root comps st st := fun _ hm => Or.inl hm

theorem LogExt.trans {comps : List Name} {a b c : St} (h1 : LogExt root comps a b) (h2 : LogExt root comps b c) :
    LogExt root comps a c := fun m hm => (h2 m hm).elim (fun h => h1 m h) Or.inr

theorem Ext.toLog {comps : List Name} {a b : St} (h : Ext root comps a b) : LogExt root comps a b := h.log

theorem LogExt.andThen {comps : List Name} {a : St} {r : Step} {f : St → Step}
    (h1 : LogExt root comps a r.1) (h2 : r.2 = none → LogExt root comps r.1 (f r.1).1) :
    LogExt root comps a (r.andThen f).1 := by
  obtain ⟨st1, e⟩ := r
  cases e with
  | none => exact h1.trans (h2 rfl)
  | some e => exact h1

/-- parent phase + `build_file_from_blob`, from a state in which `verify_leading_dirs` has just succeeded -/
theorem parent_then_blob_log {lead : List Name} {last : Name} {j : Nat} (st : St) (hcl : Clean (lead ++ [last]))
    (hv : Verified st.fs root lead j) (mode : Nat) (content : Bytes) :
    LogExt root (lead ++ [last]) st
      ((ensureParent root lead st).andThen (buildFileFromBlob root (lead ++ [last]) mode content)).1 := by
  have hcll : Clean lead := fun c hc => hcl c (List.mem_append_left _ hc)
  obtain ⟨hE1, hE2⟩ := ensureParent_ext st hcll hv
  refine LogExt.andThen (hE1.widen [last]).toLog ?_
  intro hok
  rcases hE2 hok with hall | ⟨hsame, hj1, ct, md, hfile⟩
  · exact (buildFileFromBlob_ext _ mode content hcl hall).toLog
  · rw [hsame]
    have hne : lead ≠ [] := by intro h; subst h; simp at hj1
    obtain ⟨l2, mid, rfl⟩ : ∃ l2 mid, lead = l2 ++ [mid] :=
      ⟨lead.dropLast, lead.getLast hne, (List.dropLast_concat_getLast hne).symm⟩
    have hd2 : DirChain st.fs root l2 l2.length := by
      have hjl : j = l2.length := by simp at hj1; omega
      intro i h1 h2
      have := hv.2.1 i h1 (by omega)
      rwa [List.take_append_of_le_length h2] at this
    have e : l2 ++ [mid] ++ [last] = l2 ++ [mid, last] := by simp
    have := (leaf_parent_file st l2 mid last (by rw [← e]; exact hcl) hd2 hfile mode content).1
    rw [e, this]
    exact LogExt.refl _ _

theorem sysRmdir_spec {isEmpty : FS → PPath → Bool} {fs : FS} {cs : List Name} {P : PPath}
    (hr : resolve fs (fuelFor cs.length) root cs false = .ok P) {fs' : FS} {m : Mut}
    (h : sysRmdir isEmpty fs root cs = .ok (fs', m)) : m.target = P ∧ fs' = fs.set P none := by
  simp only [sysRmdir, hr] at h
  cases hp : fs P with
  | none => simp [hp] at h
  | some n =>
    cases n with
    | dir =>
      simp only [hp] at h
      split at h
      · simp only [Except.ok.injEq, Prod.mk.injEq] at h
        obtain ⟨rfl, rfl⟩ := h
        exact ⟨rfl, rfl⟩
      · cases h
    | file c md => simp [hp] at h
    | link t => simp [hp] at h

/-- removing the object at `root/lead/last` keeps the chain of leading directories -/
theorem chain_after_remove {fs : FS} {lead : List Name} {last : Name} (hd : DirChain fs root lead lead.length) :
    DirChain (fs.set (root ++ (lead ++ [last])) none) root lead lead.length := by
  intro i h1 h2
  rw [FS.set_other]
  · exact hd i h1 h2
  · intro he
    have := congrArg List.length he
    simp at this; omega

/-- **write step of `update_working_tree` with a fresh cache**: for EVERY state (whatever the delete phase or
earlier writes left: removed directories, new symlinks, any `safe` list) each logged call acted on a lexical prefix
of the validated path. -/
theorem uwtWriteG_fresh_log (isEmpty : FS → PPath → Bool) (v : Bytes → Bool) (e : Entry) (st : St)
    (lead : List Name) (last : Name) (hsplit : splitOn pathSep e.path = lead ++ [last]) (hcl : Clean (lead ++ [last])) :
    LogExt root (lead ++ [last]) st (uwtWriteG true isEmpty v root e st).1 := by
  have hcll : Clean lead := fun c hc => hcl c (List.mem_append_left _ hc)
  have hdl : (lead ++ [last]).dropLast = lead := by simp
  unfold uwtWriteG
  split
  · exact LogExt.refl _ _
  · simp only [hsplit, if_true, hdl]
    have hst : ({ st with safe := st.safe } : St) = st := by cases st; rfl
    rw [hst]
    cases hver : verifyLeadingDirs st.fs root (lead ++ [last]) [] with
    | error err => exact LogExt.refl _ _
    | ok safe' =>
      simp only
      have hV : ∃ j, Verified st.fs root lead j := by
        by_cases hl0 : lead = []
        · subst hl0
          exact ⟨0, Nat.le_refl _, fun i h1 h2 => by omega, Or.inl rfl⟩
        · have := verifyLeadingDirs_spec (root := root) (comps := lead ++ [last]) (by rw [hdl]; exact hcll)
            (by rw [hdl]; exact hl0) (fun i h1 h2 => by simp at h2; omega) hver
          rw [hdl] at this
          exact this.1
      obtain ⟨j, hVj⟩ := hV
      cases hl : lstat st.fs root (lead ++ [last]) with
      | error err =>
        cases err <;> first | exact LogExt.refl _ _ | exact parent_then_blob_log st hcl hVj e.mode e.content
      | ok cur =>
        simp only
        split
        · exact LogExt.refl _ _
        · have hlt : lstatTracked st.fs root (lead ++ [last]) = .ok cur := by
            simp only [lstatTracked, hver, hl]
          obtain ⟨hd, hP⟩ := lstatTracked_lexical (root := root) hcl hlt
          have hr := resolve_lex_nofollow st.fs root lead last hcl hd
          have hrm : ∀ (r : Except Errno (FS × Mut)),
              (∀ fs' m, r = .ok (fs', m) → m.target = root ++ (lead ++ [last]) ∧ fs' = st.fs.set (root ++ (lead ++ [last])) none) →
              LogExt root (lead ++ [last]) st ((st.apply r).andThen fun s =>
                (ensureParent root lead s).andThen (buildFileFromBlob root (lead ++ [last]) e.mode e.content)).1 := by
            intro r hspec
            have h1 : LogExt root (lead ++ [last]) st (st.apply r).1 := by
              cases r with
              | error er => exact LogExt.refl _ _
              | ok val =>
                obtain ⟨ht, _⟩ := hspec val.1 val.2 rfl
                intro m hm
                simp only [St.apply, List.mem_append, List.mem_cons, List.not_mem_nil, or_false] at hm
                rcases hm with hm | rfl
                · exact Or.inl hm
                · exact Or.inr ⟨(lead ++ [last]).length, by simp, Nat.le_refl _, by rw [List.take_length]; exact ht⟩
            refine LogExt.andThen h1 ?_
            intro hok
            obtain ⟨fs', m, hr1, hst1⟩ := apply_ok hok
            obtain ⟨_, rfl⟩ := hspec fs' m hr1
            rw [hst1]
            exact parent_then_blob_log _ hcl
              ⟨Nat.le_refl _, chain_after_remove hd, Or.inl rfl⟩ e.mode e.content
          cases cur with
          | dir => exact hrm _ (fun fs' m h => sysRmdir_spec hr h)
          | file c md =>
            exact hrm _ (fun fs' m h => by obtain ⟨a, _, b⟩ := sysUnlink_spec hr h; exact ⟨a, b⟩)
          | link t =>
            exact hrm _ (fun fs' m h => by obtain ⟨a, _, b⟩ := sysUnlink_spec hr h; exact ⟨a, b⟩)

end writephase

section shapes

theorem sysMkdir_shape {fs : FS} {root : PPath} {cs : List Name} {fs' : FS} {m : Mut}
    (h : sysMkdir fs root cs = .ok (fs', m)) : ∃ p, fs' = fs.set p (some .dir) ∧ m = .mkdir p := by
  simp only [sysMkdir] at h
  split at h
  · cases h
  · split at h
    · cases h
    · cases h; exact ⟨_, rfl, rfl⟩

theorem sysUnlink_shape {fs : FS} {root : PPath} {cs : List Name} {fs' : FS} {m : Mut}
    (h : sysUnlink fs root cs = .ok (fs', m)) : ∃ p, fs' = fs.set p none ∧ m = .unlink p := by
  simp only [sysUnlink] at h
  split at h
  · cases h
  · split at h
    · cases h
    · cases h
    · cases h; exact ⟨_, rfl, rfl⟩

theorem sysRmdir_shape {isEmpty : FS → PPath → Bool} {fs : FS} {root : PPath} {cs : List Name} {fs' : FS} {m : Mut}
    (h : sysRmdir isEmpty fs root cs = .ok (fs', m)) : ∃ p, fs' = fs.set p none ∧ m = .rmdir p := by
  simp only [sysRmdir] at h
  split at h
  · cases h
  · split at h
    · cases h
    · split at h
      · cases h; exact ⟨_, rfl, rfl⟩
      · cases h
    · cases h

theorem sysSymlink_shape {fs : FS} {root : PPath} {cs : List Name} {t : Bytes} {fs' : FS} {m : Mut}
    (h : sysSymlink fs t root cs = .ok (fs', m)) : ∃ p, fs' = fs.set p (some (.link t)) ∧ m = .symlink p t := by
  simp only [sysSymlink] at h
  split at h
  · cases h
  · split at h
    · cases h
    · cases h; exact ⟨_, rfl, rfl⟩

theorem sysOpenWrite_shape {fs : FS} {root : PPath} {cs : List Name} {t : Bytes} {fs' : FS} {m : Mut}
    (h : sysOpenWrite fs t root cs = .ok (fs', m)) : ∃ p md, fs' = fs.set p (some (.file t md)) ∧ m = .write p := by
  simp only [sysOpenWrite] at h
  split at h
  · cases h
  · split at h
    · cases h
    · cases h
    · cases h; exact ⟨_, _, rfl, rfl⟩
    · cases h; exact ⟨_, _, rfl, rfl⟩

theorem sysChmod_shape {fs : FS} {root : PPath} {cs : List Name} {mode : Nat} {fs' : FS} {m : Mut}
    (h : sysChmod fs mode root cs = .ok (fs', m)) :
    ∃ p n md, fs' = fs.set p (some n) ∧ m = .chmod p md ∧ (∀ t, n = .link t → fs p = some (.link t)) := by
  simp only [sysChmod] at h
  split at h
  · cases h
  · split at h
    · cases h
    · cases h; exact ⟨_, _, _, rfl, rfl, fun t ht => by cases ht⟩
    · rename_i hp; cases h; exact ⟨_, _, _, rfl, rfl, fun t ht => by rw [hp, ht]⟩

/-- a predicate on states closed under every mutating call of the model (whatever path it resolved to) -/
structure OpClosed (P : St → Prop) : Prop where
  set : ∀ (st : St) (p : PPath) (n : Option Node) (m : Mut),
    (∀ t, n = some (.link t) → m = .symlink p t ∨ st.fs p = some (.link t)) →
    P st → P { st with fs := st.fs.set p n, log := st.log ++ [m] }
  safe : ∀ (st : St) (s : List Name), P st → P { st with safe := s }

variable {P : St → Prop} (hc : OpClosed P)
include hc

theorem OpClosed.apply_mkdir {st : St} {root : PPath} {cs : List Name} (h : P st) :
    P (st.apply (sysMkdir st.fs root cs)).1 := by
  cases hr : sysMkdir st.fs root cs with
  | error e => exact h
  | ok v =>
    obtain ⟨p, h1, h2⟩ := sysMkdir_shape (fs' := v.1) (m := v.2) hr
    simp only [St.apply]; rw [h1, h2]
    exact hc.set st p _ _ (fun t ht => by cases ht) h

theorem OpClosed.apply_unlink {st : St} {root : PPath} {cs : List Name} (h : P st) :
    P (st.apply (sysUnlink st.fs root cs)).1 := by
  cases hr : sysUnlink st.fs root cs with
  | error e => exact h
  | ok v =>
    obtain ⟨p, h1, h2⟩ := sysUnlink_shape (fs' := v.1) (m := v.2) hr
    simp only [St.apply]; rw [h1, h2]
    exact hc.set st p _ _ (fun t ht => by cases ht) h

theorem OpClosed.apply_rmdir {isEmpty : FS → PPath → Bool} {st : St} {root : PPath} {cs : List Name} (h : P st) :
    P (st.apply (sysRmdir isEmpty st.fs root cs)).1 := by
  cases hr : sysRmdir isEmpty st.fs root cs with
  | error e => exact h
  | ok v =>
    obtain ⟨p, h1, h2⟩ := sysRmdir_shape (fs' := v.1) (m := v.2) hr
    simp only [St.apply]; rw [h1, h2]
    exact hc.set st p _ _ (fun t ht => by cases ht) h

theorem OpClosed.apply_symlink {st : St} {root : PPath} {cs : List Name} {t : Bytes} (h : P st) :
    P (st.apply (sysSymlink st.fs t root cs)).1 := by
  cases hr : sysSymlink st.fs t root cs with
  | error e => exact h
  | ok v =>
    obtain ⟨p, h1, h2⟩ := sysSymlink_shape (fs' := v.1) (m := v.2) hr
    simp only [St.apply]; rw [h1, h2]
    exact hc.set st p _ _ (fun t' ht => by cases ht; exact Or.inl rfl) h

theorem OpClosed.apply_write {st : St} {root : PPath} {cs : List Name} {t : Bytes} (h : P st) :
    P (st.apply (sysOpenWrite st.fs t root cs)).1 := by
  cases hr : sysOpenWrite st.fs t root cs with
  | error e => exact h
  | ok v =>
    obtain ⟨p, md, h1, h2⟩ := sysOpenWrite_shape (fs' := v.1) (m := v.2) hr
    simp only [St.apply]; rw [h1, h2]
    exact hc.set st p _ _ (fun t' ht => by cases ht) h

theorem OpClosed.apply_chmod {st : St} {root : PPath} {cs : List Name} {mode : Nat} (h : P st) :
    P (st.apply (sysChmod st.fs mode root cs)).1 := by
  cases hr : sysChmod st.fs mode root cs with
  | error e => exact h
  | ok v =>
    obtain ⟨p, n, md, h1, h2, h3⟩ := sysChmod_shape (fs' := v.1) (m := v.2) hr
    simp only [St.apply]; rw [h1, h2]
    exact hc.set st p _ _ (fun t' ht => by cases ht; exact Or.inr (h3 t' rfl)) h

omit hc in
theorem OpClosed.andThen {r : Step} {f : St → Step} (h : P r.1) (hf : ∀ st, P st → P (f st).1) : P (r.andThen f).1 := by
  obtain ⟨st1, e⟩ := r
  cases e with
  | none => exact hf st1 h
  | some e => exact h

theorem OpClosed.mkdirsUp (root : PPath) (lead : List Name) : ∀ (cnt i : Nat) (st : St), P st →
    P (mkdirsUp root lead i cnt st).1 := by
  intro cnt
  induction cnt with
  | zero => intro i st h; exact h
  | succ cnt ih =>
    intro i st h
    simp only [Checkout.mkdirsUp]
    exact OpClosed.andThen (hc.apply_mkdir h) (fun st1 h1 => ih (i + 1) st1 h1)

theorem OpClosed.ensureParent (root : PPath) (lead : List Name) (st : St) (h : P st) :
    P (ensureParent root lead st).1 := by
  unfold Checkout.ensureParent
  split
  · exact h
  · exact hc.mkdirsUp _ _ _ _ _ h

theorem OpClosed.writeAndChmod (root : PPath) (comps : List Name) (mode : Nat) (content : Bytes) (st : St) (h : P st) :
    P (writeAndChmod root comps mode content st).1 :=
  OpClosed.andThen (hc.apply_write h) (fun _ h1 => hc.apply_chmod h1)

theorem OpClosed.buildFileFromBlob (root : PPath) (comps : List Name) (mode : Nat) (content : Bytes) (st : St) (h : P st) :
    P (buildFileFromBlob root comps mode content st).1 := by
  unfold Checkout.buildFileFromBlob
  split
  · split
    · exact hc.apply_symlink h
    · exact hc.writeAndChmod _ _ _ _ _ h
  · exact h
  · split
    · exact OpClosed.andThen (hc.apply_unlink h) (fun _ h1 => hc.apply_symlink h1)
    · split
      · exact OpClosed.andThen (hc.apply_unlink h) (fun _ h1 => hc.writeAndChmod _ _ _ _ _ h1)
      · exact h
      · split
        · exact h
        · exact hc.writeAndChmod _ _ _ _ _ h

theorem OpClosed.uwtWriteG (fresh : Bool) (isEmpty : FS → PPath → Bool) (v : Bytes → Bool) (root : PPath) (e : Entry)
    (st : St) (h : P st) : P (uwtWriteG fresh isEmpty v root e st).1 := by
  unfold Checkout.uwtWriteG
  split
  · exact h
  · simp only
    split
    · exact h
    · have h0 := hc.safe st (if fresh = true then st.safe else ‹List Name›) h
      have hw : ∀ s, P s → P ((Checkout.ensureParent root (splitOn pathSep e.path).dropLast s).andThen
          (Checkout.buildFileFromBlob root (splitOn pathSep e.path) e.mode e.content)).1 :=
        fun s hs => OpClosed.andThen (hc.ensureParent _ _ _ hs) (fun s1 h1 => hc.buildFileFromBlob _ _ _ _ _ h1)
      split
      · exact hw _ h0
      · exact h0
      · split
        · exact h0
        · refine OpClosed.andThen ?_ hw
          split
          · exact hc.apply_rmdir h0
          · exact hc.apply_unlink h0

theorem OpClosed.placeholder (root : PPath) (comps : List Name) (content : Bytes) (st : St) (h : P st) :
    P (placeholder root comps content st).1 := by
  unfold Checkout.placeholder
  refine OpClosed.andThen (hc.ensureParent _ _ _ h) (fun s hs => ?_)
  split
  · exact hs
  · exact hc.apply_write hs

theorem OpClosed.uwtGitlinkG (follows : Bool) (root : PPath) (comps : List Name) (content : Bytes) (st : St) (h : P st) :
    P (uwtGitlinkG follows root comps content st).1 := by
  unfold Checkout.uwtGitlinkG
  split
  · exact hc.placeholder _ _ _ _ h
  · exact h
  · have h2 : P ((st.apply (sysUnlink st.fs root comps)).andThen (Checkout.placeholder root comps content)).1 :=
      OpClosed.andThen (hc.apply_unlink h) (fun s hs => hc.placeholder _ _ _ _ hs)
    cases follows
    · simp only [Bool.false_eq_true, if_false]
      split
      · exact hc.placeholder _ _ _ _ h
      · exact h2
    · simp only [if_true]
      split
      · exact hc.placeholder _ _ _ _ h
      · exact h2

theorem OpClosed.uwtEntryG (fresh follows : Bool) (isEmpty : FS → PPath → Bool) (v : Bytes → Bool) (root : PPath)
    (e : Entry) (st : St) (h : P st) : P (uwtEntryG fresh follows isEmpty v root e st).1 := by
  unfold Checkout.uwtEntryG
  split
  · split
    · exact h
    · simp only
      split
      · exact h
      · exact hc.uwtGitlinkG _ _ _ _ _ (hc.safe st _ h)
  · exact hc.uwtWriteG _ _ _ _ _ _ h

theorem OpClosed.deleteOldG (guarded : Bool) (v : Bytes → Bool) (root : PPath) (path : Bytes) (st : St) (h : P st) :
    P (deleteOldG guarded v root path st).1 := by
  unfold Checkout.deleteOldG
  split
  · exact h
  · simp only
    split
    · exact h
    · exact h
    · exact h
    · exact hc.apply_unlink h

theorem OpClosed.deletePhaseG (guarded : Bool) (v : Bytes → Bool) (root : PPath) : ∀ (ps : List Bytes) (st : St), P st →
    P (deletePhaseG guarded v root ps st).1 := by
  intro ps
  induction ps with
  | nil => intro st h; exact h
  | cons p ps ih =>
    intro st h
    simp only [Checkout.deletePhaseG]
    exact OpClosed.andThen (hc.deleteOldG _ _ _ _ _ h) ih

end shapes

section gitlink
variable {root : PPath}

/-- log extension for a gitlink entry: lexical prefixes of `root/comps`, or the write of the placeholder
`root/comps/.git` -/
def LogExtG (root : PPath) (comps : List Name) (st st' : St) : Prop :=
  ∀ m ∈ st'.log, m ∈ st.log ∨ (∃ i, 1 ≤ i ∧ i ≤ comps.length ∧ m.target = root ++ comps.take i) ∨
    m = .write (root ++ (comps ++ [dotGit]))

theorem LogExtG.refl (comps : List Name) (st : St) : LogExtG root comps st st := fun _ hm => Or.inl hm

theorem LogExtG.trans {comps : List Name} {a b c : St} (h1 : LogExtG root comps a b) (h2 : LogExtG root comps b c) :
    LogExtG root comps a c := fun m hm => (h2 m hm).elim (fun h => h1 m h) Or.inr

theorem LogExt.toG {comps : List Name} {a b : St} (h : LogExt root comps a b) : LogExtG root comps a b :=
  fun m hm => (h m hm).elim Or.inl (fun h => Or.inr (Or.inl h))

theorem LogExtG.andThen {comps : List Name} {a : St} {r : Step} {f : St → Step}
    (h1 : LogExtG root comps a r.1) (h2 : r.2 = none → LogExtG root comps r.1 (f r.1).1) :
    LogExtG root comps a (r.andThen f).1 := by
  obtain ⟨st1, e⟩ := r
  cases e with
  | none => exact h1.trans (h2 rfl)
  | some e => exact h1

/-- `makedirs` only ever sets directories: a path that holds no symlink keeps holding none -/
theorem mkdirsUp_nolink (lead : List Name) (Q : PPath) : ∀ (cnt i : Nat) (st : St),
    (∀ t, st.fs Q ≠ some (.link t)) → ∀ t, (mkdirsUp root lead i cnt st).1.fs Q ≠ some (.link t) := by
  intro cnt
  induction cnt with
  | zero => intro i st h; exact h
  | succ cnt ih =>
    intro i st h
    simp only [mkdirsUp]
    cases hr : sysMkdir st.fs root (lead.take (i + 1)) with
    | error e => simpa [St.apply, Step.andThen] using h
    | ok v =>
      obtain ⟨p, h1, h2⟩ := sysMkdir_shape (fs' := v.1) (m := v.2) hr
      simp only [St.apply, Step.andThen]
      apply ih
      intro t
      simp only [h1]
      by_cases hq : Q = p
      · subst hq; rw [FS.set_same]; simp
      · rw [FS.set_other _ _ hq]; exact h t

theorem ensureParent_nolink (lead : List Name) (Q : PPath) (st : St) (h : ∀ t, st.fs Q ≠ some (.link t)) :
    ∀ t, (ensureParent root lead st).1.fs Q ≠ some (.link t) := by
  unfold ensureParent
  split
  · exact h
  · exact mkdirsUp_nolink lead Q _ _ st h

theorem dotGit_clean : CleanName dotGit := by unfold CleanName dotGit; decide

/-- `ensure_submodule_placeholder` below a verified chain: creates missing directories of `root/comps` and writes
`root/comps/.git` — provided no symlink sits at that very name -/
theorem placeholder_log {comps : List Name} {j : Nat} (content : Bytes) (st : St) (hcl : Clean comps)
    (hv : Verified st.fs root comps j)
    (hC : ¬ (j + 1 = comps.length ∧ ∃ c m, st.fs (root ++ comps) = some (.file c m)))
    (hgit : ∀ t, st.fs (root ++ (comps ++ [dotGit])) ≠ some (.link t)) :
    LogExtG root comps st (placeholder root comps content st).1 := by
  unfold placeholder
  obtain ⟨hE1, hE2⟩ := ensureParent_ext st hcl hv
  have hnl := ensureParent_nolink (root := root) comps (root ++ (comps ++ [dotGit])) st hgit
  refine LogExtG.andThen hE1.toLog.toG ?_
  intro hok
  generalize ensureParent root comps st = r at *
  obtain ⟨s, e⟩ := r
  simp only at hok hE2 hnl ⊢
  rcases hE2 hok with hall | ⟨hsame, hj1, hf⟩
  · split
    · exact LogExtG.refl _ _
    · have hcl2 : Clean (comps ++ [dotGit]) := by
        intro c hc
        rcases List.mem_append.mp hc with h | h
        · exact hcl c h
        · simp at h; subst h; exact dotGit_clean
      have hr := resolve_lex_follow s.fs root comps dotGit hcl2 hall hnl
      intro m hm
      cases hw : sysOpenWrite s.fs content root (comps ++ [dotGit]) with
      | error er => rw [hw] at hm; exact Or.inl hm
      | ok val =>
        rw [hw] at hm
        obtain ⟨ht, _, _⟩ := sysOpenWrite_spec hr hw
        obtain ⟨p, md, _, hm2⟩ := sysOpenWrite_shape hw
        simp only [St.apply, List.mem_append, List.mem_cons, List.not_mem_nil, or_false] at hm
        rcases hm with hm | rfl
        · exact Or.inl hm
        · right; right
          rw [hm2] at ht ⊢
          simp only [Mut.target] at ht
          rw [ht]
  · exfalso
    apply hC
    refine ⟨hj1, ?_⟩
    obtain ⟨c, m, h⟩ := hf
    exact ⟨c, m, h⟩

end gitlink

section gitlink2
variable {root : PPath}

theorem Verified.extend_absent {fs : FS} {lead : List Name} {last : Name} {j : Nat}
    (hd : DirChain fs root lead j) (hj : j < lead.length) (hn : fs (root ++ lead.take (j + 1)) = none) :
    Verified fs root (lead ++ [last]) j :=
  ⟨by simp; omega, hd.append [last] (by omega), Or.inr (Or.inl (by
    rw [List.take_append_of_le_length (by omega)]; exact hn))⟩

/-- **gitlink step with the LSTAT directory test and a fresh cache**: from EVERY state in which no symlink sits at
the placeholder's own name, every logged call acted on a lexical prefix of the validated path or wrote
`root/path/.git`. -/
theorem uwtGitlink_log (content : Bytes) (st : St) (lead : List Name) (last : Name) (hcl : Clean (lead ++ [last]))
    {safe' : List Name} (hver : verifyLeadingDirs st.fs root (lead ++ [last]) [] = .ok safe')
    (hgit : ∀ t, st.fs (root ++ (lead ++ [last] ++ [dotGit])) ≠ some (.link t)) :
    LogExtG root (lead ++ [last]) st (uwtGitlinkG false root (lead ++ [last]) content st).1 := by
  have hcll : Clean lead := fun c hc => hcl c (List.mem_append_left _ hc)
  have hdl : (lead ++ [last]).dropLast = lead := by simp
  have hV : ∃ j, Verified st.fs root lead j := by
    by_cases hl0 : lead = []
    · subst hl0
      exact ⟨0, Nat.le_refl _, fun i h1 h2 => by omega, Or.inl rfl⟩
    · have := verifyLeadingDirs_spec (root := root) (comps := lead ++ [last]) (by rw [hdl]; exact hcll)
        (by rw [hdl]; exact hl0) (fun i h1 h2 => by simp at h2; omega) hver
      rw [hdl] at this
      exact this.1
  obtain ⟨j, hj, hd, hcase⟩ := hV
  unfold uwtGitlinkG
  cases hl : lstat st.fs root (lead ++ [last]) with
  | error err =>
    cases err <;> first | exact LogExtG.refl _ _ | skip
    -- ENOENT: nothing at the path (or a leading component is missing)
    simp only
    have htk : (lead ++ [last]).take (lead.length + 1) = lead ++ [last] := by
      rw [List.take_of_length_le (by simp)]
    by_cases hje : j = lead.length
    · subst hje
      have hnone : st.fs (root ++ (lead ++ [last])) = none := by
        rw [lstat_lex st.fs hcl hd] at hl
        cases hP : st.fs (root ++ (lead ++ [last])) with
        | none => rfl
        | some n => rw [hP] at hl; cases hl
      refine placeholder_log content st hcl (j := lead.length)
        ⟨by simp, ?_, Or.inr (Or.inl (by rw [htk]; exact hnone))⟩ ?_ hgit
      · exact hd.append [last] (Nat.le_refl _)
      · rintro ⟨_, c, m, h⟩; rw [hnone] at h; cases h
    have hjl : j < lead.length := by omega
    rcases hcase with hje' | hn | ⟨hj1, ct, md, hf⟩
    · exact absurd hje' hje
    · exact placeholder_log content st hcl (Verified.extend_absent hd hjl hn)
        (by rintro ⟨h1, _⟩; simp at h1; omega) hgit
    · exfalso
      have hne : lead ≠ [] := by intro h; subst h; simp at hj1
      obtain ⟨l2, mid, rfl⟩ : ∃ l2 mid, lead = l2 ++ [mid] :=
        ⟨lead.dropLast, lead.getLast hne, (List.dropLast_concat_getLast hne).symm⟩
      have hjl : j = l2.length := by simp at hj1; omega
      have hd2 : DirChain st.fs root l2 l2.length := by
        intro i h1 h2
        have := hd i h1 (by omega)
        rwa [List.take_append_of_le_length h2] at this
      have e : l2 ++ [mid] ++ [last] = l2 ++ [mid, last] := by simp
      have hr := resolve_parent_file st.fs root l2 mid last false (by rw [← e]; exact hcl) hd2 hf
      simp only [lstat] at hl
      rw [e, hr] at hl
      cases hl
  | ok cur =>
    simp only [Bool.false_eq_true, if_false]
    have hlt : lstatTracked st.fs root (lead ++ [last]) = .ok cur := by
      simp only [lstatTracked, hver, hl]
    obtain ⟨hdall, hP⟩ := lstatTracked_lexical (root := root) hcl hlt
    split
    · -- a real directory is there
      rename_i hdir
      have hcd : cur = .dir := by simpa using hdir
      subst hcd
      refine placeholder_log content st hcl (j := (lead ++ [last]).length) ⟨Nat.le_refl _, ?_, Or.inl rfl⟩
        (by rintro ⟨h1, _⟩; omega) hgit
      intro i h1 h2
      by_cases hi : i ≤ lead.length
      · rw [List.take_append_of_le_length hi]; exact hdall i h1 hi
      · have : i = (lead ++ [last]).length := by simp at h2 ⊢; omega
        rw [this, List.take_length]; exact hP
    · -- anything else (a symlink included) is removed first
      have hr := resolve_lex_nofollow st.fs root lead last hcl hdall
      have h1 : LogExtG root (lead ++ [last]) st (st.apply (sysUnlink st.fs root (lead ++ [last]))).1 := by
        cases hu : sysUnlink st.fs root (lead ++ [last]) with
        | error er => exact LogExtG.refl _ _
        | ok val =>
          obtain ⟨ht, _, _⟩ := sysUnlink_spec hr hu
          intro m hm
          simp only [St.apply, List.mem_append, List.mem_cons, List.not_mem_nil, or_false] at hm
          rcases hm with hm | rfl
          · exact Or.inl hm
          · exact Or.inr (Or.inl ⟨(lead ++ [last]).length, by simp, Nat.le_refl _, by rw [List.take_length]; exact ht⟩)
      refine LogExtG.andThen h1 ?_
      intro hok
      obtain ⟨fs', m, hr1, hst1⟩ := apply_ok hok
      obtain ⟨_, _, rfl⟩ := sysUnlink_spec hr hr1
      rw [hst1]
      refine placeholder_log content _ hcl (j := lead.length)
        ⟨by simp, (chain_after_remove hdall).append [last] (Nat.le_refl _), Or.inr (Or.inl (by
          rw [List.take_of_length_le (by simp)]; exact FS.set_same _ _ _))⟩ ?_ ?_
      · rintro ⟨_, c, md, h⟩
        simp [FS.set_same] at h
      · intro t
        simp only
        rw [FS.set_other]
        · exact hgit t
        · intro he
          have := congrArg List.length he
          simp at this

end gitlink2

section inv
variable {root : PPath}

/-- the components a validator lets through: clean and not `.git` in any ASCII case -/
def SafeComps (comps : List Name) : Prop :=
  comps ≠ [] ∧ Clean comps ∧ ∀ c ∈ comps, lower c ≠ [46, 103, 105, 116]

/-- where a logged call of `update_working_tree` may have acted: on a lexical prefix of a validated path, or — the
gitlink placeholder — it is the write of `<validated path>/.git` -/
def LexMut (root : PPath) (m : Mut) : Prop :=
  ∃ comps : List Name, SafeComps comps ∧
    ((∃ i, 1 ≤ i ∧ i ≤ comps.length ∧ m.target = root ++ comps.take i) ∨ m = .write (root ++ (comps ++ [dotGit])))

/-- no symlink NAMED `.git` anywhere -/
def NoDotGitLink (fs : FS) : Prop := ∀ p t, fs (p ++ [dotGit]) ≠ some (.link t)

/-- every symlink of the current file system was already there at the start or was created by a logged `symlink` -/
def LinkFrame (fs0 : FS) (st : St) : Prop :=
  ∀ q t, st.fs q = some (.link t) → (∃ t', fs0 q = some (.link t')) ∨ ∃ t', Mut.symlink q t' ∈ st.log

theorem linkFrame_closed (fs0 : FS) : OpClosed (LinkFrame fs0) where
  set := by
    intro st p n m hn h q t hq
    simp only at hq
    by_cases hqp : q = p
    · subst hqp
      rw [FS.set_same] at hq
      rcases hn t hq with rfl | h'
      · exact Or.inr ⟨t, by simp⟩
      · rcases h q t h' with a | ⟨t', b⟩
        · exact Or.inl a
        · exact Or.inr ⟨t', by simp [b]⟩
    · rw [FS.set_other _ _ hqp] at hq
      rcases h q t hq with a | ⟨t', b⟩
      · exact Or.inl a
      · exact Or.inr ⟨t', by simp [b]⟩
  safe := fun st s h => h

theorem lower_dotGit : lower dotGit = [46, 103, 105, 116] := by decide

/-- the invariant gives the local hypothesis of the gitlink step: no symlink sits at any `…/.git` -/
theorem nolink_at_dotgit {fs0 : FS} {st : St} (h0 : NoDotGitLink fs0) (hlog : ∀ m ∈ st.log, LexMut root m)
    (hfr : LinkFrame fs0 st) : NoDotGitLink st.fs := by
  intro p t hq
  rcases hfr _ t hq with ⟨t', h⟩ | ⟨t', hm⟩
  · exact h0 p t' h
  · obtain ⟨comps, ⟨_, _, hs⟩, hcase⟩ := hlog _ hm
    rcases hcase with ⟨i, hi1, hi2, ht⟩ | hw
    · simp only [Mut.target] at ht
      -- the last component of `root ++ comps.take i` is a component of `comps`, so it is not `.git`
      have hne : comps.take i ≠ [] := by
        intro he
        have := congrArg List.length he
        simp only [List.length_take, List.length_nil] at this
        omega
      have hrev := congrArg List.reverse ht
      simp only [List.reverse_append, List.reverse_cons, List.reverse_nil, List.nil_append, List.singleton_append] at hrev
      cases hr : (comps.take i).reverse with
      | nil => exact hne (by simpa using hr)
      | cons x xs =>
        rw [hr] at hrev
        simp only [List.cons_append, List.cons.injEq] at hrev
        have hx : x ∈ comps := by
          have : x ∈ (comps.take i).reverse := by rw [hr]; exact List.mem_cons_self
          exact List.mem_of_mem_take (List.mem_reverse.mp this)
        exact hs x hx (by rw [← hrev.1]; exact lower_dotGit)
    · cases hw

end inv


section sparse
variable {root : PPath}

/-- one guarded step of the sparse apply loop: lexical log, from EVERY state -/
theorem sparseEntryG_guarded_log (v : Bytes → Bool) (e : Entry) (x : Bool) (st : St) (lead : List Name) (last : Name)
    (hsplit : splitOn pathSep e.path = lead ++ [last]) (hcl : Clean (lead ++ [last])) :
    LogExt root (lead ++ [last]) st (sparseEntryG true v root e x st).1 := by
  have hcll : Clean lead := fun c hc => hcl c (List.mem_append_left _ hc)
  have hdl : (lead ++ [last]).dropLast = lead := by simp
  unfold sparseEntryG
  simp only [if_true]
  split
  · exact (deleteOldG_guarded_ext v e.path st lead last hsplit hcl).toLog
  · split
    · exact LogExt.refl _ _
    · simp only [hsplit, hdl]
      cases hver : verifyLeadingDirs st.fs root (lead ++ [last]) [] with
      | error err => exact LogExt.refl _ _
      | ok safe' =>
        simp only
        have hV : ∃ j, Verified st.fs root lead j := by
          by_cases hl0 : lead = []
          · subst hl0
            exact ⟨0, Nat.le_refl _, fun i h1 h2 => by omega, Or.inl rfl⟩
          · have := verifyLeadingDirs_spec (root := root) (comps := lead ++ [last]) (by rw [hdl]; exact hcll)
              (by rw [hdl]; exact hl0) (fun i h1 h2 => by simp at h2; omega) hver
            rw [hdl] at this
            exact this.1
        obtain ⟨j, hVj⟩ := hV
        cases hl : lstat st.fs root (lead ++ [last]) with
        | error err =>
          cases err <;> first | exact LogExt.refl _ _ | exact parent_then_blob_log st hcl hVj e.mode e.content
        | ok cur => exact LogExt.refl _ _

end sparse
end Dulwich.Checkout
