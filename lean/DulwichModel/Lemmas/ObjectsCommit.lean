/- Helper lemmas for time entries, tags and commits (C01). -/
import DulwichModel.Lemmas.ObjectsText

namespace Dulwich.Objects
open Dulwich

/-! ### time entries -/

theorem rindexGtSp_none : ∀ (l : Bytes), (62 : UInt8) ∉ l → rindexGtSp l = none := by
  intro l
  induction l with
  | nil => intro _; rfl
  | cons b r ih =>
    intro h
    have hb : ¬ b = 62 := fun e => h (by simp [e])
    simp [rindexGtSp, ih (fun e => h (List.mem_cons_of_mem _ e)), hb]

theorem rindexGtSp_person : ∀ (q s : Bytes), (62 : UInt8) ∉ s →
    rindexGtSp (q ++ 62 :: 32 :: s) = some q.length := by
  intro q
  induction q with
  | nil =>
    intro s hs
    have h32 : (62 : UInt8) ∉ (32 :: s) := by
      intro h
      rcases List.mem_cons.mp h with h | h
      · exact absurd h (by decide)
      · exact hs h
    show rindexGtSp (62 :: 32 :: s) = some 0
    rw [rindexGtSp, rindexGtSp_none _ h32]
    simp
  | cons c q ih =>
    intro s hs
    simp [rindexGtSp, ih s hs]

theorem rsplitSpace_none : ∀ (l : Bytes), (32 : UInt8) ∉ l → rsplitSpace l = none := by
  intro l
  induction l with
  | nil => intro _; rfl
  | cons b r ih =>
    intro h
    have hb : ¬ b = 32 := fun e => h (by simp [e])
    simp [rsplitSpace, ih (fun e => h (List.mem_cons_of_mem _ e)), hb]

theorem rsplitSpace_last : ∀ (a z : Bytes), (32 : UInt8) ∉ z → rsplitSpace (a ++ 32 :: z) = some (a, z) := by
  intro a
  induction a with
  | nil => intro z hz; simp [rsplitSpace, rsplitSpace_none z hz]
  | cons c a ih => intro z hz; simp [rsplitSpace, ih z hz]

/-- bytes of a signed decimal / of a timezone text: digits and signs only -/
def isNumCh (c : UInt8) : Prop := isDig c ∨ c = 43 ∨ c = 45

theorem isNumCh_ne (c : UInt8) (h : isNumCh c) (x : UInt8) (hx : (x.toNat < 48 ∨ 57 < x.toNat) ∧ x ≠ 43 ∧ x ≠ 45) :
    ¬ c = x := by
  rcases h with h | h | h
  · exact dig_ne c h x hx.1
  · intro e; exact hx.2.1 (e ▸ h)
  · intro e; exact hx.2.2 (e ▸ h)

theorem natToDec_isNumCh (n : Nat) : ∀ c ∈ natToDec n, isNumCh c :=
  fun c hc => Or.inl (natToBase_isDig 10 (by omega) (by omega) n c hc)

theorem intToDec_isNumCh (t : Int) : ∀ c ∈ intToDec t, isNumCh c := by
  intro c hc
  unfold intToDec at hc
  split at hc
  · rcases List.mem_cons.mp hc with h | h
    · exact Or.inr (Or.inr h)
    · exact natToDec_isNumCh _ c h
  · exact natToDec_isNumCh _ c hc

theorem fmt02_isNumCh (x : Int) : ∀ c ∈ fmt02 x, isNumCh c := by
  intro c hc
  unfold fmt02 at hc
  split at hc
  · rcases List.mem_cons.mp hc with h | h
    · exact Or.inr (Or.inr h)
    · exact natToDec_isNumCh _ c h
  · split at hc
    · rename_i h1 h2
      simp only [List.mem_cons, List.not_mem_nil, or_false] at hc
      rcases hc with rfl | rfl
      · exact Or.inl ⟨by decide, by decide⟩
      · exact Or.inl (digitChar_isDig _ (by omega))
    · exact natToDec_isNumCh _ c hc

theorem formatTimezone_isNumCh (tz : Int) (neg : Bool) (z : Bytes) (h : formatTimezone tz neg = .ok z) :
    ∀ c ∈ z, isNumCh c := by
  unfold formatTimezone at h
  split at h
  · cases h
  · simp only [Except.ok.injEq] at h
    subst h
    intro c hc
    rcases List.mem_cons.mp hc with h | h
    · subst h
      split
      · exact Or.inr (Or.inr rfl)
      · exact Or.inr (Or.inl rfl)
    · rcases List.mem_append.mp h with h | h
      · exact fmt02_isNumCh _ c h
      · exact fmt02_isNumCh _ c h

/-- `int(str(t)) = t` for every integer. -/
theorem pyInt_intToDec (t : Int) : pyInt 10 (intToDec t) = some t := by
  unfold intToDec
  split
  · rename_i hneg
    -- "-" followed by the digits of |t|
    have hd := natToBase_isDig 10 (by omega) (by omega) (-t).toNat
    have hne : natToDec (-t).toNat ≠ [] := natToBaseAux_ne_nil 10 _ _
    unfold pyInt
    have h45 : isSpace 45 = false := by decide
    have e1 : stripL (45 :: natToDec (-t).toNat) = 45 :: natToDec (-t).toNat := by simp [stripL, h45]
    have e2 : stripR (45 :: natToDec (-t).toNat) = 45 :: natToDec (-t).toNat := by
      have := stripR_dig (natToDec (-t).toNat) hd
      cases hq : natToDec (-t).toNat with
      | nil => exact absurd hq hne
      | cons a b =>
        rw [hq] at this
        rw [stripR, this]
    have e3 : dropSign (45 :: natToDec (-t).toNat) = (true, natToDec (-t).toNat) := by simp [dropSign]
    simp only [e1, e2, e3]
    have hP := parseDigits_natToBaseAux 10 (by omega) (by omega) ((-t).toNat + 1) (-t).toNat (by omega) [] false
    simp only [List.append_nil] at hP
    have : (if (10 : Nat) = 8 then dropOctPrefix (natToDec (-t).toNat) else natToDec (-t).toNat) = natToDec (-t).toNat := by
      simp
    rw [this]
    simp only [natToDec, natToBase, hP, parseDigits]
    simp
    omega
  · rename_i hpos
    have := pyInt_natToBase 10 (by omega) (by omega) t.toNat
    simp only [natToDec, this]
    congr 1
    omega

theorem getLast?_eq_some_concat : ∀ (p : Bytes) (x : UInt8), p.getLast? = some x → ∃ q, p = q ++ [x] := by
  intro p
  induction p with
  | nil => intro x h; simp at h
  | cons a r ih =>
    intro x h
    cases r with
    | nil => simp at h; exact ⟨[], by simp [h]⟩
    | cons b r' =>
      rw [List.getLast?_cons_cons] at h
      obtain ⟨q, hq⟩ := ih x h
      exact ⟨a :: q, by rw [hq]; simp⟩

/-- An identity as git writes it ends with `>`. -/
def WFPerson (p : Bytes) : Prop := p.getLast? = some 62

instance (p : Bytes) : Decidable (WFPerson p) := by unfold WFPerson; infer_instance

/-- Parsing a formatted time entry: the person, the time and whatever `parse_timezone` makes of the
timezone text. -/
theorem parseTimeEntry_format (p : Bytes) (hp : WFPerson p) (t tz : Int) (neg : Bool) (z : Bytes)
    (hz : formatTimezone tz neg = .ok z) :
    formatTimeEntry p t tz neg = .ok (p ++ [32] ++ intToDec t ++ [32] ++ z) ∧
    parseTimeEntry (p ++ [32] ++ intToDec t ++ [32] ++ z)
      = match parseTimezone z with
        | .ok (tz', neg') => .ok ⟨some p, some t, some tz', some neg'⟩
        | .error e => .error e := by
  refine ⟨by simp [formatTimeEntry, hz], ?_⟩
  -- p = q ++ ">"
  obtain ⟨q, rfl⟩ : ∃ q, p = q ++ [62] := getLast?_eq_some_concat p 62 hp
  have hzc := formatTimezone_isNumCh tz neg z hz
  have htc := intToDec_isNumCh t
  have no62 : (62 : UInt8) ∉ intToDec t ++ 32 :: z := by
    intro h
    rcases List.mem_append.mp h with h | h
    · exact isNumCh_ne _ (htc _ h) 62 (by decide) rfl
    · rcases List.mem_cons.mp h with h | h
      · exact absurd h (by decide)
      · exact isNumCh_ne _ (hzc _ h) 62 (by decide) rfl
  have no32 : (32 : UInt8) ∉ z := fun h => isNumCh_ne _ (hzc _ h) 32 (by decide) rfl
  have e : q ++ [62] ++ [32] ++ intToDec t ++ [32] ++ z = q ++ 62 :: 32 :: (intToDec t ++ 32 :: z) := by simp
  unfold parseTimeEntry
  rw [e, rindexGtSp_person q _ no62]
  have htake : (q ++ 62 :: 32 :: (intToDec t ++ 32 :: z)).take (q.length + 1) = q ++ [62] := by
    have : q ++ 62 :: 32 :: (intToDec t ++ 32 :: z) = (q ++ [62]) ++ 32 :: (intToDec t ++ 32 :: z) := by simp
    rw [this]
    exact List.take_left' (by simp)
  have hdrop : (q ++ 62 :: 32 :: (intToDec t ++ 32 :: z)).drop (q.length + 2) = intToDec t ++ 32 :: z := by
    have : q ++ 62 :: 32 :: (intToDec t ++ 32 :: z) = (q ++ [62, 32]) ++ (intToDec t ++ 32 :: z) := by simp
    rw [this]
    exact List.drop_left' (by simp)
  simp only [htake, hdrop, rsplitSpace_last _ _ no32, pyInt_intToDec]
  cases parseTimezone z with
  | error e => rfl
  | ok r => rfl


/-- A timezone value git can express: whole minutes; the neg-utc flag only on a zero offset (`-0000`). -/
def WFTz (tz : Int) (neg : Bool) : Prop := tz % 60 = 0 ∧ (neg = true → tz = 0)

instance (tz : Int) (neg : Bool) : Decidable (WFTz tz neg) := by unfold WFTz; infer_instance

theorem timezone_roundtrip_wf (tz : Int) (neg : Bool) (h : WFTz tz neg) :
    ∃ z, formatTimezone tz neg = .ok z ∧ parseTimezone z = .ok (tz, neg) := by
  obtain ⟨h60, hneg⟩ := h
  cases neg with
  | true =>
    have : tz = 0 := hneg rfl
    subst this
    exact ⟨_, formatTimezone_neg 0 rfl true (Or.inr rfl), parseTimezone_hhmm 45 (Or.inr rfl) 0 0 (by omega)⟩
  | false =>
    by_cases hpos : 0 ≤ tz
    · obtain ⟨n, rfl⟩ := Int.eq_ofNat_of_zero_le hpos
      have hn : n % 60 = 0 := by omega
      refine ⟨_, formatTimezone_pos n hn, ?_⟩
      rw [parseTimezone_hhmm 43 (Or.inl rfl) _ _ (by omega)]
      have : n / 3600 * 3600 + n / 60 % 60 * 60 = n := by omega
      simp [this]
    · obtain ⟨n, rfl⟩ : ∃ n : Nat, tz = -(n : Int) := ⟨tz.natAbs, by omega⟩
      have hn : n % 60 = 0 := by omega
      have hn0 : 0 < n := by omega
      refine ⟨_, formatTimezone_neg n hn false (Or.inl hn0), ?_⟩
      rw [parseTimezone_hhmm 45 (Or.inr rfl) _ _ (by omega)]
      have e1 : n / 3600 * 3600 + n / 60 % 60 * 60 = n := by omega
      simp [e1]
      intro _
      omega

/-- **Time entry round trip.** -/
theorem timeEntry_roundtrip (p : Bytes) (hp : WFPerson p) (t tz : Int) (neg : Bool) (hz : WFTz tz neg) :
    ∃ v, formatTimeEntry p t tz neg = .ok v ∧ parseTimeEntry v = .ok ⟨some p, some t, some tz, some neg⟩ := by
  obtain ⟨z, hf, hpz⟩ := timezone_roundtrip_wf tz neg hz
  obtain ⟨h1, h2⟩ := parseTimeEntry_format p hp t tz neg z hf
  exact ⟨_, h1, by rw [h2, hpz]⟩

/-! ### folding header lists -/

theorem foldFields_append {α : Type} (f : α → Bytes × Bytes → Except Err α) : ∀ (xs ys : Headers) (a : α),
    foldFields f a (xs ++ ys) = match foldFields f a xs with
      | .ok a' => foldFields f a' ys
      | .error e => .error e := by
  intro xs
  induction xs with
  | nil => intro ys a; rfl
  | cons x xs ih =>
    intro ys a
    simp only [List.cons_append, foldFields]
    cases f a x with
    | error e => rfl
    | ok a' => exact ih ys a'

theorem collect_cons {σ : Type} (f : σ → Except Err Headers) (s : σ) (ss : List σ) (a b : Headers)
    (h1 : f s = .ok a) (h2 : collect f ss = .ok b) : collect f (s :: ss) = .ok (a ++ b) := by
  simp [collect, h1, h2]

/-! ### tags -/

/-- The body splits back into message and signature where the serialiser joined them: no signature
marker inside a signature-less message; otherwise the first marker (PGP preferred) sits exactly where
the signature starts. -/
def WFBody (m : Bytes) (sig : Option Bytes) : Prop :=
  match sig with
  | none => findSub OGen.pgpMarker m = none ∧ findSub OGen.sshMarker m = none
  | some s => ((findSub OGen.pgpMarker (m ++ s)).orElse fun _ => findSub OGen.sshMarker (m ++ s)) = some m.length

instance (m : Bytes) (sig : Option Bytes) : Decidable (WFBody m sig) := by
  unfold WFBody; cases sig <;> infer_instance

/-- A tag in git's grammar, field by field. -/
def WFTag (t : Tag) : Prop :=
  (∃ s, t.objectSha = some s) ∧
  (∃ ty, t.objectType = some ty ∧ (typeNum? ty).isSome = true) ∧
  (∃ n, t.name = some n) ∧
  (match t.tagger with
   | none => t.tagTime = none ∧ t.tagTz = none ∧ t.tagNeg = some false
   | some p => WFPerson p ∧ ∃ tm tz ng, t.tagTime = some tm ∧ t.tagTz = some tz ∧ t.tagNeg = some ng ∧ WFTz tz ng) ∧
  (∃ m, t.message = some m ∧ WFBody m t.signature)

theorem tagSetBody_wf (t : Tag) (m : Bytes) (sig : Option Bytes) (h : WFBody m sig) :
    tagSetBody t (some (m ++ sig.getD [])) = { t with message := some m, signature := sig } := by
  unfold WFBody at h
  cases sig with
  | none =>
    simp only [Option.getD_none, List.append_nil, tagSetBody, h.1, h.2, Option.orElse]
  | some s =>
    simp only [Option.getD_some, tagSetBody, h]
    simp

theorem WFKey_consts : WFKey OGen.hdrObject ∧ WFKey OGen.hdrType ∧ WFKey OGen.hdrTag ∧ WFKey OGen.hdrTagger ∧
    WFKey OGen.hdrTree ∧ WFKey OGen.hdrParent ∧ WFKey OGen.hdrAuthor ∧ WFKey OGen.hdrCommitter ∧
    WFKey OGen.hdrEncoding ∧ WFKey OGen.hdrMergetag ∧ WFKey OGen.hdrGpgsig := by decide

/-- **Tag round trip**: `Tag._deserialize (Tag._serialize t) = t` on any previous attribute values. -/
theorem resetTag_eq (prev : Tag) :
    resetTag prev = { prev with tagger := none, tagTime := none, tagTz := none, tagNeg := some false } := rfl

theorem tag_roundtrip_lemma (prev t : Tag) (h : WFTag t) :
    ∃ bs, serializeTag t = .ok bs ∧ deserializeTag prev bs = .ok t := by
  obtain ⟨osha, oty, nm, tagger, ttime, ttz, tneg, msg, sig⟩ := t
  obtain ⟨⟨s, hs⟩, ⟨ty, hty, htn⟩, ⟨n, hn⟩, htg, ⟨m, hm, hbody⟩⟩ := h
  simp only at hs hty hn hm hbody htg
  subst hs; subst hty; subst hn; subst hm
  have slots : tagSlots = [.object, .type, .tag, .tagger] := by decide
  obtain ⟨wo, wt, wg, wr, _⟩ := WFKey_consts
  have n1 : ¬ OGen.hdrType = OGen.hdrObject := by decide
  have n2 : ¬ OGen.hdrTag = OGen.hdrObject := by decide
  have n3 : ¬ OGen.hdrTag = OGen.hdrType := by decide
  have n4 : ¬ OGen.hdrTagger = OGen.hdrObject := by decide
  have n5 : ¬ OGen.hdrTagger = OGen.hdrType := by decide
  have n6 : ¬ OGen.hdrTagger = OGen.hdrTag := by decide
  obtain ⟨num, hnum⟩ := Option.isSome_iff_exists.mp htn
  cases tagger with
  | none =>
    obtain ⟨h1, h2, h3⟩ := htg
    subst h1; subst h2; subst h3
    refine ⟨formatMessage [(OGen.hdrObject, s), (OGen.hdrType, ty), (OGen.hdrTag, n)] (some (m ++ sig.getD [])), ?_, ?_⟩
    · simp [serializeTag, slots, collect, tagSlot, tagBody]
    · have wf : WFHeaders [(OGen.hdrObject, s), (OGen.hdrType, ty), (OGen.hdrTag, n)] := by
        intro kv hkv
        simp only [List.mem_cons, List.not_mem_nil, or_false] at hkv
        rcases hkv with rfl | rfl | rfl <;> assumption
      simp only [deserializeTag, resetTag_eq, parseMessageP_format _ _ wf, Option.getD_some, foldFields, tagField, n1, n2, n3,
        if_true, if_false, hnum]
      rw [tagSetBody_wf _ m sig hbody]
  | some p =>
    obtain ⟨hp, tm, tz, ng, h1, h2, h3, hz⟩ := htg
    subst h1; subst h2; subst h3
    obtain ⟨v, hv1, hv2⟩ := timeEntry_roundtrip p hp tm tz ng hz
    have hpne : p.isEmpty = false := by
      unfold WFPerson at hp
      cases p with
      | nil => simp at hp
      | cons a b => rfl
    refine ⟨formatMessage [(OGen.hdrObject, s), (OGen.hdrType, ty), (OGen.hdrTag, n), (OGen.hdrTagger, v)]
      (some (m ++ sig.getD [])), ?_, ?_⟩
    · simp [serializeTag, slots, collect, tagSlot, tagBody, hpne, hv1]
    · have wf : WFHeaders [(OGen.hdrObject, s), (OGen.hdrType, ty), (OGen.hdrTag, n), (OGen.hdrTagger, v)] := by
        intro kv hkv
        simp only [List.mem_cons, List.not_mem_nil, or_false] at hkv
        rcases hkv with rfl | rfl | rfl | rfl <;> assumption
      simp only [deserializeTag, resetTag_eq, parseMessageP_format _ _ wf, Option.getD_some, foldFields, tagField, n1, n2, n3,
        n4, n5, n6, if_true, if_false, hnum, hv2]
      rw [tagSetBody_wf _ m sig hbody]


/-! ### commits -/

/-- The header names `_parse_commit` interprets itself; any other name is an extra header. -/
def reservedKeys : List Bytes :=
  [OGen.hdrTree, OGen.hdrParent, OGen.hdrAuthor, OGen.hdrCommitter, OGen.hdrEncoding, OGen.hdrMergetag, OGen.hdrGpgsig]

def WFTime (ti : TimeInfo) : Prop :=
  ∃ p tm tz ng, ti = ⟨some p, some tm, some tz, some ng⟩ ∧ WFPerson p ∧ WFTz tz ng

/-- An optional header that is written when present: absent, or a non-empty value. -/
def WFOpt (o : Option Bytes) : Prop :=
  match o with
  | none => True
  | some v => v ≠ []

instance (o : Option Bytes) : Decidable (WFOpt o) := by unfold WFOpt; cases o <;> infer_instance

/-- A commit in git's grammar, field by field.  `tree` and `parents` may be any bytes; identities
must end in `>`; time zones are whole minutes with the neg-utc flag only on zero; `encoding`/`gpgsig`
absent or non-empty; every mergetag text ends in LF and is itself a parsable tag; extra header names are
well-formed field names other than the reserved ones, their values arbitrary bytes; a message is present. -/
def WFCommit (c : Commit) : Prop :=
  (∃ t, c.tree = some t) ∧ WFTime c.author ∧ WFTime c.committer ∧ WFOpt c.encoding ∧
  (∀ raw ∈ c.mergetag, raw.getLast? = some 10 ∧ ∃ tg, deserializeTag Tag.empty raw = .ok tg) ∧
  (∀ kv ∈ c.extra, WFKey kv.1 ∧ kv.1 ∉ reservedKeys) ∧ WFOpt c.gpgsig ∧ (∃ m, c.message = some m)

/-- A mergetag text with its last line completed: what the parser stores (`Tag.from_string(value + b"\n")`)
after the serialiser removed a final LF if there was one. -/
def completeLF (raw : Bytes) : Bytes := stripLastLF raw ++ [10]

theorem completeLF_of_last (raw : Bytes) (h : raw.getLast? = some 10) : completeLF raw = raw := by
  obtain ⟨q, hq⟩ := getLast?_eq_some_concat raw 10 h
  subst hq
  simp [completeLF, stripLastLF]

theorem completeLF_of_not_last (raw : Bytes) (h : raw.getLast? ≠ some 10) : completeLF raw = raw ++ [10] := by
  simp [completeLF, stripLastLF, h]

theorem mergetagValue_eq (raw : Bytes) : mergetagValue raw = stripLastLF raw := by
  have : OGen.mergetagStripConditional = true := rfl
  simp [mergetagValue, this]

/-- `WFCommit` without the requirement that mergetag texts end in LF: it suffices that the completed
text parses as a tag. -/
def WFCommitG (c : Commit) : Prop :=
  (∃ t, c.tree = some t) ∧ WFTime c.author ∧ WFTime c.committer ∧ WFOpt c.encoding ∧
  (∀ raw ∈ c.mergetag, ∃ tg, deserializeTag Tag.empty (completeLF raw) = .ok tg) ∧
  (∀ kv ∈ c.extra, WFKey kv.1 ∧ kv.1 ∉ reservedKeys) ∧ WFOpt c.gpgsig ∧ (∃ m, c.message = some m)

theorem WFCommitG_of_WFCommit (c : Commit) (h : WFCommit c) : WFCommitG c := by
  obtain ⟨h1, h2, h3, h4, h5, h6, h7, h8⟩ := h
  refine ⟨h1, h2, h3, h4, fun raw hr => ?_, h6, h7, h8⟩
  obtain ⟨hl, tg, htg⟩ := h5 raw hr
  exact ⟨tg, by rw [completeLF_of_last raw hl]; exact htg⟩

theorem fold_parents : ∀ (ps : List Bytes) (c : Commit),
    foldFields commitField c (ps.map fun p => (OGen.hdrParent, p)) = .ok { c with parents := c.parents ++ ps } := by
  have n1 : ¬ OGen.hdrParent = OGen.hdrTree := by decide
  intro ps
  induction ps with
  | nil => intro c; simp [foldFields]
  | cons p ps ih =>
    intro c
    simp only [List.map_cons, foldFields, commitField, n1, if_false, if_true]
    rw [ih]
    simp

theorem fold_mergetag : ∀ (raws : List Bytes) (c : Commit),
    (∀ raw ∈ raws, ∃ tg, deserializeTag Tag.empty (completeLF raw) = .ok tg) →
    foldFields commitField c (raws.map fun raw => (OGen.hdrMergetag, mergetagValue raw))
      = .ok { c with mergetag := c.mergetag ++ raws.map completeLF } := by
  have n1 : ¬ OGen.hdrMergetag = OGen.hdrTree := by decide
  have n2 : ¬ OGen.hdrMergetag = OGen.hdrParent := by decide
  have n3 : ¬ OGen.hdrMergetag = OGen.hdrAuthor := by decide
  have n4 : ¬ OGen.hdrMergetag = OGen.hdrCommitter := by decide
  have n5 : ¬ OGen.hdrMergetag = OGen.hdrEncoding := by decide
  intro raws
  induction raws with
  | nil => intro c _; simp [foldFields]
  | cons raw raws ih =>
    intro c h
    obtain ⟨tg, htg⟩ := h raw List.mem_cons_self
    have hd : mergetagValue raw ++ [10] = completeLF raw := by rw [mergetagValue_eq]; rfl
    simp only [List.map_cons, foldFields, commitField, n1, n2, n3, n4, n5, if_false, if_true, hd, htg]
    rw [ih _ (fun r hr => h r (List.mem_cons_of_mem _ hr))]
    simp

theorem fold_extra : ∀ (ex : Headers) (c : Commit), (∀ kv ∈ ex, kv.1 ∉ reservedKeys) →
    foldFields commitField c ex = .ok { c with extra := c.extra ++ ex } := by
  intro ex
  induction ex with
  | nil => intro c _; simp [foldFields]
  | cons kv ex ih =>
    intro c h
    have hk := h kv List.mem_cons_self
    simp only [reservedKeys, List.mem_cons, List.not_mem_nil, or_false, not_or] at hk
    obtain ⟨k1, k2, k3, k4, k5, k6, k7⟩ := hk
    simp only [foldFields, commitField, k1, k2, k3, k4, k5, k6, k7, if_false]
    rw [ih _ (fun x hx => h x (List.mem_cons_of_mem _ hx))]
    simp

theorem fold_encoding (o : Option Bytes) (ho : WFOpt o) (c : Commit) :
    foldFields commitField c (optHeader OGen.hdrEncoding o)
      = .ok (match o with | none => c | some v => { c with encoding := some v }) := by
  have n1 : ¬ OGen.hdrEncoding = OGen.hdrTree := by decide
  have n2 : ¬ OGen.hdrEncoding = OGen.hdrParent := by decide
  have n3 : ¬ OGen.hdrEncoding = OGen.hdrAuthor := by decide
  have n4 : ¬ OGen.hdrEncoding = OGen.hdrCommitter := by decide
  cases o with
  | none => rfl
  | some v =>
    have : v.isEmpty = false := by cases v with
      | nil => exact absurd rfl ho
      | cons a b => rfl
    simp [optHeader, this, foldFields, commitField, n1, n2, n3, n4]

theorem fold_gpgsig (o : Option Bytes) (ho : WFOpt o) (c : Commit) :
    foldFields commitField c (optHeader OGen.hdrGpgsig o)
      = .ok (match o with | none => c | some v => { c with gpgsig := some v }) := by
  have n1 : ¬ OGen.hdrGpgsig = OGen.hdrTree := by decide
  have n2 : ¬ OGen.hdrGpgsig = OGen.hdrParent := by decide
  have n3 : ¬ OGen.hdrGpgsig = OGen.hdrAuthor := by decide
  have n4 : ¬ OGen.hdrGpgsig = OGen.hdrCommitter := by decide
  have n5 : ¬ OGen.hdrGpgsig = OGen.hdrEncoding := by decide
  have n6 : ¬ OGen.hdrGpgsig = OGen.hdrMergetag := by decide
  cases o with
  | none => rfl
  | some v =>
    have : v.isEmpty = false := by cases v with
      | nil => exact absurd rfl ho
      | cons a b => rfl
    simp [optHeader, this, foldFields, commitField, n1, n2, n3, n4, n5, n6]

theorem WFHeaders_optHeader (k : Bytes) (hk : WFKey k) (o : Option Bytes) : WFHeaders (optHeader k o) := by
  intro kv h
  cases o with
  | none => simp [optHeader] at h
  | some v =>
    simp only [optHeader] at h
    split at h
    · simp at h
    · simp only [List.mem_singleton] at h; subst h; exact hk

theorem WFHeaders_map (k : Bytes) (hk : WFKey k) {α : Type} (l : List α) (f : α → Bytes) :
    WFHeaders (l.map fun x => (k, f x)) := by
  intro kv h
  obtain ⟨x, _, rfl⟩ := List.mem_map.mp h
  exact hk

/-- **Commit round trip, general form**: `Commit._deserialize (Commit._serialize c)` is `c` with every
mergetag text completed by a final LF if it lacked one (nothing else changes, no byte is lost). -/
theorem commit_roundtrip_general_lemma (c : Commit) (h : WFCommitG c) :
    ∃ bs, serializeCommit c = .ok bs ∧
      deserializeCommit bs = .ok { c with mergetag := c.mergetag.map completeLF } := by
  obtain ⟨tree, parents, author, committer, encoding, mergetag, extra, gpgsig, message⟩ := c
  obtain ⟨⟨t, ht⟩, ⟨pa, ta, za, na, hau, hpa, hza⟩, ⟨pc, tc, zc, nc, hco, hpc, hzc⟩, henc, hmt, hex, hsig, ⟨m, hm⟩⟩ := h
  simp only at ht hau hco henc hmt hex hsig hm
  subst ht; subst hau; subst hco; subst hm
  have slots : commitSlots = [.tree, .parent, .author, .committer, .encoding, .mergetag, .extra, .gpgsig] := by decide
  obtain ⟨_, _, _, _, wtree, wparent, wauthor, wcommitter, wenc, wmt, wsig⟩ := WFKey_consts
  obtain ⟨va, hva1, hva2⟩ := timeEntry_roundtrip pa hpa ta za na hza
  obtain ⟨vc, hvc1, hvc2⟩ := timeEntry_roundtrip pc hpc tc zc nc hzc
  have n1 : ¬ OGen.hdrAuthor = OGen.hdrTree := by decide
  have n2 : ¬ OGen.hdrAuthor = OGen.hdrParent := by decide
  have n3 : ¬ OGen.hdrCommitter = OGen.hdrTree := by decide
  have n4 : ¬ OGen.hdrCommitter = OGen.hdrParent := by decide
  have n5 : ¬ OGen.hdrCommitter = OGen.hdrAuthor := by decide
  refine ⟨formatMessage ((OGen.hdrTree, t) :: ((parents.map fun p => (OGen.hdrParent, p)) ++
      ((OGen.hdrAuthor, va) :: (OGen.hdrCommitter, vc) :: (optHeader OGen.hdrEncoding encoding ++
        ((mergetag.map fun raw => (OGen.hdrMergetag, mergetagValue raw)) ++ (extra ++ optHeader OGen.hdrGpgsig gpgsig))))))
      (some m), ?_, ?_⟩
  · simp [serializeCommit, slots, collect, commitSlot, timeHeader, hva1, hvc1]
  · have wf : WFHeaders ((OGen.hdrTree, t) :: ((parents.map fun p => (OGen.hdrParent, p)) ++
        ((OGen.hdrAuthor, va) :: (OGen.hdrCommitter, vc) :: (optHeader OGen.hdrEncoding encoding ++
          ((mergetag.map fun raw => (OGen.hdrMergetag, mergetagValue raw)) ++ (extra ++ optHeader OGen.hdrGpgsig gpgsig)))))) := by
      have e : ∀ (x : Bytes × Bytes) (l : Headers), x :: l = [x] ++ l := fun _ _ => rfl
      rw [e (OGen.hdrTree, t), e (OGen.hdrAuthor, va), e (OGen.hdrCommitter, vc)]
      simp only [WFHeaders_append]
      refine ⟨?_, WFHeaders_map _ wparent _ _, ?_, ?_, WFHeaders_optHeader _ wenc _, WFHeaders_map _ wmt _ _,
        fun kv hkv => (hex kv hkv).1, WFHeaders_optHeader _ wsig _⟩
      · intro kv hkv; simp only [List.mem_singleton] at hkv; subst hkv; exact wtree
      · intro kv hkv; simp only [List.mem_singleton] at hkv; subst hkv; exact wauthor
      · intro kv hkv; simp only [List.mem_singleton] at hkv; subst hkv; exact wcommitter
    simp only [deserializeCommit, parseMessageP_format _ _ wf, Option.getD_some]
    simp only [foldFields, commitField, if_true]
    rw [foldFields_append, fold_parents]
    simp only [foldFields, commitField, n1, n2, n3, n4, n5, if_true, if_false, hva2, hvc2]
    rw [foldFields_append, fold_encoding _ henc]
    simp only
    rw [foldFields_append, fold_mergetag _ _ hmt]
    simp only
    rw [foldFields_append, fold_extra _ _ (fun kv hkv => (hex kv hkv).2)]
    simp only
    rw [fold_gpgsig _ hsig]
    cases encoding <;> cases gpgsig <;> simp [Commit.empty]

/-- **Commit round trip**: `Commit._deserialize (Commit._serialize c) = c`. -/
theorem commit_roundtrip_lemma (c : Commit) (h : WFCommit c) :
    ∃ bs, serializeCommit c = .ok bs ∧ deserializeCommit bs = .ok c := by
  obtain ⟨bs, h1, h2⟩ := commit_roundtrip_general_lemma c (WFCommitG_of_WFCommit c h)
  refine ⟨bs, h1, ?_⟩
  have hid : c.mergetag.map completeLF = c.mergetag := by
    have : ∀ raw ∈ c.mergetag, completeLF raw = id raw := fun raw hr => completeLF_of_last raw (h.2.2.2.2.1 raw hr).1
    rw [List.map_congr_left this, List.map_id]
  rw [h2, hid]

end Dulwich.Objects
