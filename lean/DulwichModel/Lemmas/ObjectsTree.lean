/- Helper lemmas for the tree model (C01): hex, mode token, parse ∘ serialize, sorting. -/
import DulwichModel.Lemmas.ObjectsText

namespace Dulwich.Objects
open Dulwich

/-! ### hex -/

theorem nibVal_hexNib (n : Nat) (h : n < 16) : nibVal? (hexNib n) = some n := by
  unfold hexNib nibVal?
  by_cases h10 : n < 10
  · simp only [h10, if_true]
    rw [UInt8.toNat_ofNat']
    have : (48 + n) % 256 = 48 + n := by omega
    simp [this]; omega
  · simp only [h10, if_false]
    rw [UInt8.toNat_ofNat']
    have e : (87 + n) % 256 = 87 + n := by omega
    have a : ¬ (48 ≤ 87 + n ∧ 87 + n ≤ 57) := by omega
    have b : 97 ≤ 87 + n ∧ 87 + n ≤ 102 := by omega
    simp [e, a, b]

theorem unhexlify_hexlify (raw : Bytes) : unhexlify (hexlify raw) = some raw := by
  induction raw with
  | nil => rfl
  | cons b r ih =>
    have hb := b.toNat_lt
    simp only [hexlify, unhexlify, nibVal_hexNib (b.toNat / 16) (by omega),
      nibVal_hexNib (b.toNat % 16) (by omega), ih]
    have : 16 * (b.toNat / 16) + b.toNat % 16 = b.toNat := by omega
    simp [this]

theorem hexlify_length (raw : Bytes) : (hexlify raw).length = 2 * raw.length := by
  induction raw with
  | nil => rfl
  | cons b r ih => simp [hexlify, ih]; omega

theorem hexToSha_hexlify (raw : Bytes) (h : 2 * raw.length ∈ OGen.hexLens) :
    hexToSha (hexlify raw) = .ok raw := by
  simp [hexToSha, hexlify_length, h, unhexlify_hexlify]

theorem shaToHex_ok (raw : Bytes) (h : 2 * raw.length ∈ OGen.hexLens) :
    shaToHex raw = .ok (hexlify raw) := by
  simp [shaToHex, hexlify_length, h]

/-! ### the mode token -/

theorem padZeros_isDig (w n : Nat) : ∀ c ∈ padZeros w (natToOct n), isDig c := by
  intro c hc
  unfold padZeros at hc
  rcases List.mem_append.mp hc with h | h
  · have := List.eq_of_mem_replicate h
    subst this
    exact ⟨by decide, by decide⟩
  · exact natToBase_isDig 8 (by omega) (by omega) n c h

theorem pyInt_padZeros (w n : Nat) : pyInt 8 (padZeros w (natToOct n)) = some (n : Int) := by
  rw [pyInt_dig 8 _ (padZeros_isDig w n)]
  unfold padZeros
  have hP := parseDigits_natToBaseAux 8 (by omega) (by omega) (n + 1) n (by omega) []
  simp only [List.append_nil] at hP
  by_cases hk : 0 < w - (natToOct n).length
  · rw [parseDigits_zeros 8 (by omega) (by omega) _ _ _ hk]
    simp [natToOct, natToBase, hP, parseDigits]
  · have : w - (natToOct n).length = 0 := by omega
    simp only [this, List.replicate_zero, List.nil_append]
    simp [natToOct, natToBase, hP, parseDigits]

theorem allOct_natToBaseAux : ∀ (f n : Nat), allOct (natToBaseAux 8 f n) = true := by
  intro f
  induction f with
  | zero => intro n; rfl
  | succ f ih =>
    intro n
    have oct : ∀ d, d < 8 → (48 ≤ digitChar d && digitChar d ≤ 55) = true := by
      intro d hd
      have := digitChar_toNat d (by omega)
      simp only [Bool.and_eq_true, decide_eq_true_eq, UInt8.le_iff_toNat_le, this]
      constructor <;> simp <;> omega
    have app : ∀ (xs ys : Bytes), allOct xs = true → allOct ys = true → allOct (xs ++ ys) = true := by
      intro xs ys hx hy
      induction xs with
      | nil => simpa using hy
      | cons x xs ihx =>
        simp only [allOct, Bool.and_eq_true] at hx
        simp only [List.cons_append, allOct, Bool.and_eq_true]
        exact ⟨hx.1, ihx hx.2⟩
    unfold natToBaseAux
    split
    · rename_i h; simp [allOct, oct n h]
    · exact app _ _ (ih _) (by simp [allOct, oct (n % 8) (Nat.mod_lt n (by omega))])

theorem octVal_eq_parseDigits : ∀ (t : Bytes) (acc : Nat) (prev : Bool), allOct t = true → t ≠ [] →
    parseDigits 8 t acc prev = some (octVal t acc) := by
  intro t
  induction t with
  | nil => intro _ _ _ h; exact absurd rfl h
  | cons c r ih =>
    intro acc prev ho _
    simp only [allOct, Bool.and_eq_true, decide_eq_true_eq, UInt8.le_iff_toNat_le] at ho
    obtain ⟨⟨h1, h2⟩, hr⟩ := ho
    have h1' : 48 ≤ c.toNat := by simpa using h1
    have h2' : c.toNat ≤ 55 := by simpa using h2
    have hne : ¬ c = 95 := by intro e; subst e; simp at h2'
    have hv : digitVal? 8 c = some (c.toNat - 48) := by
      unfold digitVal?; simp; omega
    simp only [parseDigits, hne, if_false, hv, octVal]
    cases r with
    | nil => simp [parseDigits, octVal]
    | cons d r' => exact ih _ true hr (by simp)

/-- Rust's mode parse on the token dulwich writes (mode below 2^32). -/
theorem rsOctU32_padZeros (w n : Nat) (hn : n < 4294967296) : rsOctU32 (padZeros w (natToOct n)) = some n := by
  have hd := padZeros_isDig w n
  have hne : padZeros w (natToOct n) ≠ [] := by
    unfold padZeros natToOct natToBase
    intro h
    have := List.append_eq_nil_iff.mp h
    exact natToBaseAux_ne_nil 8 n n this.2
  have hall : allOct (padZeros w (natToOct n)) = true := by
    unfold padZeros
    have rep : ∀ k, allOct (List.replicate k 48 ++ natToOct n) = true := by
      intro k
      induction k with
      | zero => simpa [natToOct, natToBase] using allOct_natToBaseAux (n + 1) n
      | succ k ih => simp only [List.replicate_succ, List.cons_append, allOct, ih]; decide
    exact rep _
  have hv : octVal (padZeros w (natToOct n)) 0 = n := by
    have h1 := octVal_eq_parseDigits _ 0 false hall hne
    have h2 := pyInt_padZeros w n
    rw [pyInt_dig 8 _ hd, h1] at h2
    have h3 : ((octVal (padZeros w (natToOct n)) 0 : Nat) : Int) = (n : Int) := by simpa using h2
    omega
  unfold rsOctU32
  cases hp : padZeros w (natToOct n) with
  | nil => exact absurd hp hne
  | cons c r =>
    have hc : ¬ c = 43 := by
      have := hd c (by rw [hp]; exact List.mem_cons_self)
      exact dig_ne c this 43 (by decide)
    rw [hp] at hall hv
    simp [hc, hall, hv, hn]

/-- The strict mode token (Python and Rust since 5d5709a) on the token dulwich writes. -/
theorem strictOct_padZeros (w n : Nat) (hn : n < 4294967296) : strictOct (padZeros w (natToOct n)) = some n := by
  have hd := padZeros_isDig w n
  have hne : padZeros w (natToOct n) ≠ [] := by
    unfold padZeros natToOct natToBase
    intro h
    exact natToBaseAux_ne_nil 8 n n (List.append_eq_nil_iff.mp h).2
  have hall : allOct (padZeros w (natToOct n)) = true := by
    unfold padZeros
    have rep : ∀ k, allOct (List.replicate k 48 ++ natToOct n) = true := by
      intro k
      induction k with
      | zero => simpa [natToOct, natToBase] using allOct_natToBaseAux (n + 1) n
      | succ k ih => simp only [List.replicate_succ, List.cons_append, allOct, ih]; decide
    exact rep _
  have hv : octVal (padZeros w (natToOct n)) 0 = n := by
    have h1 := octVal_eq_parseDigits _ 0 false hall hne
    have h2 := pyInt_padZeros w n
    rw [pyInt_dig 8 _ hd, h1] at h2
    have h3 : ((octVal (padZeros w (natToOct n)) 0 : Nat) : Int) = (n : Int) := by simpa using h2
    omega
  have hm : OGen.treeModeMax = 4294967295 := rfl
  unfold strictOct
  have he : (padZeros w (natToOct n)).isEmpty = false := by
    cases hp : padZeros w (natToOct n) with
    | nil => exact absurd hp hne
    | cons c r => rfl
  simp [he, hall, hv, hm]
  omega

theorem pyModeToken_padZeros (w n : Nat) (hn : n < 4294967296) :
    pyModeToken (padZeros w (natToOct n)) = some (n : Int) := by
  have : OGen.pyModeStrict = true := rfl
  simp [pyModeToken, this, strictOct_padZeros w n hn]

theorem rsModeToken_padZeros (w n : Nat) (hn : n < 4294967296) :
    rsModeToken (padZeros w (natToOct n)) = some (n : Int) := by
  have : OGen.rsRejectsPlus = true := rfl
  simp [rsModeToken, this, strictOct_padZeros w n hn]

/-! ### parse ∘ serialize -/

/-- A tree entry dulwich can write and read back: non-negative mode, no NUL in the name, the id is
the lowercase hex of `shaLen` bytes. -/
def WFEntry (shaLen : Nat) (e : Entry) : Prop :=
  0 ≤ e.mode ∧ (0 : UInt8) ∉ e.name ∧ ∃ raw : Bytes, raw.length = shaLen ∧ e.sha = hexlify raw

theorem fmtOct_nonneg (w : Nat) (m : Int) (h : 0 ≤ m) : fmtOct w m = padZeros w (natToOct m.toNat) := by
  unfold fmtOct
  have : ¬ m < 0 := by omega
  simp [this]

theorem parseTreeAux_serialize (pm : Bytes → Option Int) (shaLen : Nat)
    (hlen : 2 * shaLen ∈ OGen.hexLens)
    (hpm : ∀ n : Nat, n < 4294967296 → pm (padZeros OGen.treeModeWidth (natToOct n)) = some (n : Int)) :
    ∀ (es : List Entry), (∀ e ∈ es, WFEntry shaLen e ∧ e.mode < 4294967296) →
    ∃ bs, serializeTree es = .ok bs ∧ es.length ≤ bs.length ∧
      ∀ f, es.length ≤ f → parseTreeAux pm shaLen f bs = .ok es := by
  intro es
  induction es with
  | nil => intro _; exact ⟨[], rfl, Nat.le_refl _, fun f _ => by cases f <;> simp [parseTreeAux]⟩
  | cons e es ih =>
    intro hwf
    obtain ⟨bs, hbs, hbl, hparse⟩ := ih (fun x hx => hwf x (List.mem_cons_of_mem _ hx))
    obtain ⟨⟨hm, hname, raw, hraw, hsha⟩, hmode⟩ := hwf e List.mem_cons_self
    have hlen' : 2 * raw.length ∈ OGen.hexLens := by rw [hraw]; exact hlen
    have hse : serializeEntry e = .ok (padZeros OGen.treeModeWidth (natToOct e.mode.toNat) ++ [32] ++ e.name ++ [0] ++ raw) := by
      unfold serializeEntry
      rw [hsha, hexToSha_hexlify raw hlen', fmtOct_nonneg _ _ hm]
    refine ⟨padZeros OGen.treeModeWidth (natToOct e.mode.toNat) ++ [32] ++ e.name ++ [0] ++ raw ++ bs,
      by simp only [serializeTree, hse, hbs], by simp; omega, ?_⟩
    intro f hf
    cases f with
    | zero => simp at hf
    | succ f =>
      have hd := padZeros_isDig OGen.treeModeWidth e.mode.toNat
      have h32 : (32 : UInt8) ∉ padZeros OGen.treeModeWidth (natToOct e.mode.toNat) :=
        fun h => dig_ne _ (hd _ h) 32 (by decide) rfl
      have hne : padZeros OGen.treeModeWidth (natToOct e.mode.toNat) ≠ [] := by
        unfold padZeros natToOct natToBase
        intro h
        exact natToBaseAux_ne_nil 8 _ _ (List.append_eq_nil_iff.mp h).2
      have hmode' : pm (padZeros OGen.treeModeWidth (natToOct e.mode.toNat)) = some e.mode := by
        have := hpm e.mode.toNat (by omega)
        rw [this]; congr 1; omega
      rw [parseTreeAux]
      have hnil : (padZeros OGen.treeModeWidth (natToOct e.mode.toNat) ++ [32] ++ e.name ++ [0] ++ raw ++ bs).isEmpty = false := by
        cases hp : padZeros OGen.treeModeWidth (natToOct e.mode.toNat) with
        | nil => exact absurd hp hne
        | cons c r => simp
      simp only [hnil, Bool.false_eq_true, if_false]
      have e1 : padZeros OGen.treeModeWidth (natToOct e.mode.toNat) ++ [32] ++ e.name ++ [0] ++ raw ++ bs
          = padZeros OGen.treeModeWidth (natToOct e.mode.toNat) ++ 32 :: (e.name ++ 0 :: (raw ++ bs)) := by simp
      rw [e1, splitFirst_append 32 _ _ h32]
      simp only [hmode']
      rw [splitFirst_append 0 _ _ hname]
      have hnl : ¬ ((raw ++ bs).length < shaLen) := by simp; omega
      have htake : (raw ++ bs).take shaLen = raw := by rw [← hraw]; simp
      have hdrop : (raw ++ bs).drop shaLen = bs := by rw [← hraw]; simp
      simp only [hnl, if_false, htake, hdrop, shaToHex_ok raw hlen', hparse f (by simpa using hf)]
      rw [← hsha]

/-! ### sorting -/

theorem insertBy_perm (le : Entry → Entry → Bool) (x : Entry) : ∀ l, (insertBy le x l).Perm (x :: l) := by
  intro l
  induction l with
  | nil => exact List.Perm.refl _
  | cons y ys ih =>
    simp only [insertBy]
    split
    · exact List.Perm.refl _
    · exact (List.Perm.cons y ih).trans (List.Perm.swap x y ys)

theorem sortBy_perm (le : Entry → Entry → Bool) : ∀ l, (sortBy le l).Perm l := by
  intro l
  induction l with
  | nil => exact List.Perm.refl _
  | cons x xs ih => exact (insertBy_perm le x _).trans (List.Perm.cons x ih)

theorem insertBy_pairwise (le : Entry → Entry → Bool)
    (htot : ∀ a b, le a b = true ∨ le b a = true)
    (htr : ∀ a b c, le a b = true → le b c = true → le a c = true) (x : Entry) :
    ∀ l, l.Pairwise (fun a b => le a b = true) → (insertBy le x l).Pairwise (fun a b => le a b = true) := by
  intro l
  induction l with
  | nil => intro _; simp [insertBy]
  | cons y ys ih =>
    intro h
    have hy := List.pairwise_cons.mp h
    simp only [insertBy]
    split
    · rename_i hxy
      refine List.pairwise_cons.mpr ⟨?_, h⟩
      intro z hz
      rcases List.mem_cons.mp hz with rfl | hz
      · exact hxy
      · exact htr _ _ _ hxy (hy.1 z hz)
    · rename_i hxy
      have hyx : le y x = true := by
        rcases htot x y with h1 | h1
        · exact absurd h1 hxy
        · exact h1
      refine List.pairwise_cons.mpr ⟨?_, ih hy.2⟩
      intro z hz
      have := (insertBy_perm le x ys).mem_iff.mp hz
      rcases List.mem_cons.mp this with rfl | hz'
      · exact hyx
      · exact hy.1 z hz'

theorem sortBy_pairwise (le : Entry → Entry → Bool)
    (htot : ∀ a b, le a b = true ∨ le b a = true)
    (htr : ∀ a b c, le a b = true → le b c = true → le a c = true) :
    ∀ l, (sortBy le l).Pairwise (fun a b => le a b = true) := by
  intro l
  induction l with
  | nil => simp [sortBy]
  | cons x xs ih => exact insertBy_pairwise le htot htr x _ ih

theorem bytesLe_total : ∀ (a b : Bytes), bytesLe a b = true ∨ bytesLe b a = true := by
  intro a
  induction a with
  | nil => intro b; left; simp [bytesLe]
  | cons x xs ih =>
    intro b
    cases b with
    | nil => right; simp [bytesLe]
    | cons y ys =>
      simp only [bytesLe]
      by_cases h1 : x < y
      · left; simp [h1]
      · by_cases h2 : y < x
        · right; simp [h2]
        · simp only [h1, h2, if_false]
          exact ih ys

theorem bytesLe_trans : ∀ (a b c : Bytes), bytesLe a b = true → bytesLe b c = true → bytesLe a c = true := by
  intro a
  induction a with
  | nil => intro b c _ _; simp [bytesLe]
  | cons x xs ih =>
    intro b c hab hbc
    cases b with
    | nil => simp [bytesLe] at hab
    | cons y ys =>
      cases c with
      | nil => simp [bytesLe] at hbc
      | cons z zs =>
        simp only [bytesLe] at hab hbc ⊢
        have lx := @UInt8.lt_iff_toNat_lt
        by_cases h1 : x < y
        · by_cases h2 : y < z
          · have : x < z := by rw [lx] at *; omega
            simp [this]
          · by_cases h3 : z < y
            · simp [h2, h3] at hbc
            · have : x < z := by rw [lx] at *; omega
              simp [this]
        · by_cases h1' : y < x
          · simp [h1, h1'] at hab
          · simp only [h1, h1', if_false] at hab
            have exy : x = y := by
              apply UInt8.toNat_inj.mp
              rw [lx] at h1 h1'; omega
            subst exy
            by_cases h2 : x < z
            · simp [h2]
            · by_cases h3 : z < x
              · simp [h2, h3] at hbc
              · simp only [h2, h3, if_false] at hbc ⊢
                exact ih ys zs hab hbc


theorem keyLe_total (a b : Entry) : keyLe a b = true ∨ keyLe b a = true := bytesLe_total _ _

theorem keyLe_trans (a b c : Entry) : keyLe a b = true → keyLe b c = true → keyLe a c = true :=
  bytesLe_trans _ _ _

/-- Sorting a sorted list changes nothing. -/
theorem sortBy_sorted (le : Entry → Entry → Bool) : ∀ l, l.Pairwise (fun a b => le a b = true) → sortBy le l = l := by
  intro l
  induction l with
  | nil => intro _; rfl
  | cons x xs ih =>
    intro h
    have hx := List.pairwise_cons.mp h
    simp only [sortBy, ih hx.2]
    cases xs with
    | nil => rfl
    | cons y ys => simp [insertBy, hx.1 y List.mem_cons_self]

theorem dictSet_fresh : ∀ (d : List Entry) (e : Entry), (∀ x ∈ d, x.name ≠ e.name) → dictSet d e = d ++ [e] := by
  intro d
  induction d with
  | nil => intro e _; rfl
  | cons x xs ih =>
    intro e h
    have hx : ¬ x.name = e.name := h x List.mem_cons_self
    simp [dictSet, hx, ih e (fun y hy => h y (List.mem_cons_of_mem _ hy))]

/-- Building the `_entries` dict from a list with pairwise distinct names keeps the list. -/
theorem foldl_dictSet_distinct : ∀ (es acc : List Entry),
    es.Pairwise (fun a b => a.name ≠ b.name) → (∀ a ∈ acc, ∀ b ∈ es, a.name ≠ b.name) →
    es.foldl dictSet acc = acc ++ es := by
  intro es
  induction es with
  | nil => intro acc _ _; simp
  | cons e es ih =>
    intro acc hp hd
    have he := List.pairwise_cons.mp hp
    simp only [List.foldl_cons]
    rw [dictSet_fresh acc e (fun x hx => hd x hx e List.mem_cons_self)]
    rw [ih (acc ++ [e]) he.2 ?_]
    · simp
    · intro a ha b hb
      rcases List.mem_append.mp ha with ha | ha
      · exact hd a ha b (List.mem_cons_of_mem _ hb)
      · simp only [List.mem_singleton] at ha
        subst ha
        exact he.1 b hb


/-! ### `key_entry` order = `cmp_with_suffix` (git's `base_name_compare`) on legal names -/

/-- A name that can occur in a tree git accepts: no NUL, no `/`. -/
def CleanName (n : Bytes) : Prop := (0 : UInt8) ∉ n ∧ (47 : UInt8) ∉ n

instance (n : Bytes) : Decidable (CleanName n) := by unfold CleanName; infer_instance

theorem u8_lt_or (x y : UInt8) (h : x ≠ y) : x < y ∨ y < x := by
  have lx := @UInt8.lt_iff_toNat_lt
  have : x.toNat ≠ y.toNat := fun e => h (UInt8.toNat_inj.mp e)
  rw [lx, lx]; omega

theorem u8_lt_asymm (x y : UInt8) (h : x < y) : ¬ y < x := by
  have lx := @UInt8.lt_iff_toNat_lt
  rw [lx] at *; omega

theorem keyLe_eq_rsLeOld_aux (ma mb : Int) : ∀ (an bn : Bytes), CleanName an → CleanName bn →
    bytesLe (if rsIsDir ma then an ++ [47] else an) (if rsIsDir mb then bn ++ [47] else bn)
      = (cmpWithSuffixOld ma an mb bn != .gt) := by
  have t1 : OGen.rsDirTerm = 47 := rfl
  have t2 : OGen.rsFileTerm = 0 := rfl
  have z47 : (0 : UInt8) < 47 := by decide
  have n470 : ¬ (47 : UInt8) < 0 := by decide
  intro an
  induction an with
  | nil =>
    intro bn _ hb
    cases bn with
    | nil =>
      simp only [cmpWithSuffixOld, rsTerm, t1, t2, List.nil_append]
      cases rsIsDir ma <;> cases rsIsDir mb <;> simp [bytesLe, cmpByte, z47, n470]
    | cons y ys =>
      have hy0 : (0 : UInt8) ≠ y := fun e => hb.1 (by simp [e])
      have hy47 : (47 : UInt8) ≠ y := fun e => hb.2 (by simp [e])
      have h0y : (0 : UInt8) < y := by
        rcases u8_lt_or 0 y hy0 with h | h
        · exact h
        · exact absurd h (by rw [UInt8.lt_iff_toNat_lt]; simp)
      simp only [cmpWithSuffixOld, rsTerm, t1, t2, List.nil_append]
      cases rsIsDir ma <;> cases rsIsDir mb <;> simp only [Bool.false_eq_true, if_false, if_true, List.cons_append]
      · simp [bytesLe, cmpByte, h0y]
      · simp [bytesLe, cmpByte, h0y]
      · rcases u8_lt_or 47 y hy47 with h | h
        · simp [bytesLe, cmpByte, h]
        · simp [bytesLe, cmpByte, h, u8_lt_asymm _ _ h]
      · rcases u8_lt_or 47 y hy47 with h | h
        · simp [bytesLe, cmpByte, h]
        · simp [bytesLe, cmpByte, h, u8_lt_asymm _ _ h]
  | cons x xs ih =>
    intro bn ha hb
    have hx0 : (0 : UInt8) ≠ x := fun e => ha.1 (by simp [e])
    have hx47 : x ≠ (47 : UInt8) := fun e => ha.2 (by simp [e])
    have h0x : (0 : UInt8) < x := by
      rcases u8_lt_or 0 x hx0 with h | h
      · exact h
      · exact absurd h (by rw [UInt8.lt_iff_toNat_lt]; simp)
    have hxs : CleanName xs := ⟨fun h => ha.1 (List.mem_cons_of_mem _ h), fun h => ha.2 (List.mem_cons_of_mem _ h)⟩
    cases bn with
    | nil =>
      simp only [cmpWithSuffixOld, rsTerm, t1, t2]
      cases rsIsDir ma <;> cases rsIsDir mb <;> simp only [Bool.false_eq_true, if_false, if_true, List.cons_append, List.nil_append]
      · simp [bytesLe, cmpByte, h0x, u8_lt_asymm _ _ h0x]
      · rcases u8_lt_or x 47 hx47 with h | h
        · simp [bytesLe, cmpByte, h]
        · simp [bytesLe, cmpByte, h, u8_lt_asymm _ _ h]
      · simp [bytesLe, cmpByte, h0x, u8_lt_asymm _ _ h0x]
      · rcases u8_lt_or x 47 hx47 with h | h
        · simp [bytesLe, cmpByte, h]
        · simp [bytesLe, cmpByte, h, u8_lt_asymm _ _ h]
    | cons y ys =>
      have hys : CleanName ys := ⟨fun h => hb.1 (List.mem_cons_of_mem _ h), fun h => hb.2 (List.mem_cons_of_mem _ h)⟩
      have := ih ys hxs hys
      simp only [cmpWithSuffixOld]
      by_cases h1 : x < y
      · cases rsIsDir ma <;> cases rsIsDir mb <;> simp [bytesLe, h1]
      · by_cases h2 : y < x
        · cases rsIsDir ma <;> cases rsIsDir mb <;> simp [bytesLe, h1, h2]
        · simp only [h1, h2, if_false]
          rw [← this]
          cases rsIsDir ma <;> cases rsIsDir mb <;> simp [bytesLe, h1, h2]

theorem isDir_eq_rsIsDir (m : Int) : isDir m = rsIsDir m := rfl

/-- The OLD Rust comparator (one byte past the common prefix) agrees with Python's `key_entry` order only
on entries whose names contain neither NUL nor `/`. -/
theorem keyLe_eq_rsLeOld (a b : Entry) (ha : CleanName a.name) (hb : CleanName b.name) : keyLe a b = rsLeOld a b := by
  have d : OGen.dirSuffix = 47 := rfl
  unfold keyLe rsLeOld keyEntry
  rw [isDir_eq_rsIsDir, isDir_eq_rsIsDir, d]
  exact keyLe_eq_rsLeOld_aux a.mode b.mode a.name b.name ha hb

theorem bytesLe_eq_cmpBytes : ∀ (u v : Bytes), bytesLe u v = (cmpBytes u v != .gt) := by
  intro u
  induction u with
  | nil => intro v; cases v <;> simp [bytesLe, cmpBytes]
  | cons x xs ih =>
    intro v
    cases v with
    | nil => simp [bytesLe, cmpBytes]
    | cons y ys =>
      simp only [bytesLe, cmpBytes]
      by_cases h1 : x < y
      · simp [h1]
      · by_cases h2 : y < x
        · simp [h1, h2]
        · simp only [h1, h2, if_false]
          exact ih ys

/-- "common prefix first, then the chained rests" is plain lexicographic comparison of the chained strings -/
theorem cmpPrefixThenRest : ∀ (an bn sa sb : Bytes),
    (match cmpBytes (an.take (min an.length bn.length)) (bn.take (min an.length bn.length)) with
     | .eq => cmpBytes (an.drop (min an.length bn.length) ++ sa) (bn.drop (min an.length bn.length) ++ sb)
     | c => c) = cmpBytes (an ++ sa) (bn ++ sb) := by
  intro an
  induction an with
  | nil => intro bn sa sb; simp [cmpBytes]
  | cons x xs ih =>
    intro bn sa sb
    cases bn with
    | nil => simp [cmpBytes]
    | cons y ys =>
      have hm : min (x :: xs).length (y :: ys).length = min xs.length ys.length + 1 := by
        simp only [List.length_cons]; omega
      rw [hm]
      simp only [List.take_succ_cons, List.drop_succ_cons, List.cons_append, cmpBytes]
      by_cases h1 : x < y
      · simp [h1]
      · by_cases h2 : y < x
        · simp [h1, h2]
        · simp only [h1, h2, if_false]
          exact ih ys sa sb

theorem cmpWithSuffix_eq_lex (ma : Int) (an : Bytes) (mb : Int) (bn : Bytes) :
    cmpWithSuffix ma an mb bn = cmpBytes (an ++ rsSuffix ma) (bn ++ rsSuffix mb) := by
  have : OGen.rsCmpWhole = true := rfl
  simp only [cmpWithSuffix, this, if_true, cmpWithSuffixNew]
  exact cmpPrefixThenRest an bn _ _

theorem keyEntry_eq_suffix (e : Entry) : keyEntry e = e.name ++ rsSuffix e.mode := by
  have d : OGen.dirSuffix = 47 := rfl
  have s1 : OGen.rsDirSuffix = [47] := rfl
  have s2 : OGen.rsFileSuffix = [] := rfl
  unfold keyEntry rsSuffix
  rw [isDir_eq_rsIsDir]
  cases rsIsDir e.mode <;> simp [d, s1, s2]

/-- **Python's `key_entry` order is the order of the Rust `cmp_with_suffix`** (git's tree order: names as
bytes, a directory's name counting as `name/`) — for every pair of entries, whatever bytes the names hold. -/
theorem keyLe_eq_rsLe (a b : Entry) : keyLe a b = rsLe a b := by
  unfold keyLe rsLe
  rw [keyEntry_eq_suffix, keyEntry_eq_suffix, cmpWithSuffix_eq_lex, bytesLe_eq_cmpBytes]

theorem insertBy_congr (le1 le2 : Entry → Entry → Bool) (x : Entry) : ∀ l, (∀ y ∈ l, le1 x y = le2 x y) →
    insertBy le1 x l = insertBy le2 x l := by
  intro l
  induction l with
  | nil => intro _; rfl
  | cons y ys ih =>
    intro h
    simp only [insertBy, h y List.mem_cons_self, ih (fun z hz => h z (List.mem_cons_of_mem _ hz))]

theorem sortBy_congr (le1 le2 : Entry → Entry → Bool) : ∀ l, (∀ x ∈ l, ∀ y ∈ l, le1 x y = le2 x y) →
    sortBy le1 l = sortBy le2 l := by
  intro l
  induction l with
  | nil => intro _; rfl
  | cons x xs ih =>
    intro h
    have ihx := ih (fun a ha b hb => h a (List.mem_cons_of_mem _ ha) b (List.mem_cons_of_mem _ hb))
    simp only [sortBy, ihx]
    apply insertBy_congr
    intro y hy
    have : y ∈ xs := (sortBy_perm le2 xs).mem_iff.mp hy
    exact h x List.mem_cons_self y (List.mem_cons_of_mem _ this)

end Dulwich.Objects
