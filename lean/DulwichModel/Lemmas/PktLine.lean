/-
  Helper lemmas for the pkt-line model (C19).  Core Lean only.
-/
import DulwichModel.Model.PktLine

namespace Dulwich.PktLine
open Dulwich

/-! ### hex formatting -/

theorem hexDigitsLE_fuel : ∀ (f n : Nat), n < f → hexDigitsLE f n = hexDigitsLE (n + 1) n := by
  intro f
  induction f using Nat.strongRecOn with
  | _ f ih =>
    intro n hn
    cases f with
    | zero => omega
    | succ f =>
      unfold hexDigitsLE
      by_cases h : n < 16
      · simp [h]
      · simp only [h, if_false]
        have h1 : n / 16 < f := by omega
        have h2 : n / 16 < n := by omega
        rw [ih f (by omega) _ h1, ih n (by omega) _ h2]

theorem hexDigitsLE_step (n : Nat) (h : 16 ≤ n) :
    hexDigitsLE (n + 1) n = n % 16 :: hexDigitsLE (n / 16 + 1) (n / 16) := by
  conv => lhs; unfold hexDigitsLE
  have : ¬ n < 16 := by omega
  simp only [this, if_false]
  rw [hexDigitsLE_fuel n (n / 16) (by omega)]

theorem hexDigitsLE_small (n : Nat) (h : n < 16) : hexDigitsLE (n + 1) n = [n] := by
  unfold hexDigitsLE; simp [h]

theorem hexDigitsLE_length_pos (n : Nat) : 0 < (hexDigitsLE (n + 1) n).length := by
  by_cases h : n < 16
  · rw [hexDigitsLE_small n h]; simp
  · rw [hexDigitsLE_step n (by omega)]; simp

theorem hexStr_length (n : Nat) : (hexStr n).length = (hexDigitsLE (n + 1) n).length := by
  simp [hexStr]

/-- below 16^4 the `:04x` format is exactly the four nibbles -/
theorem fmtHex_four (n : Nat) (h : n < 65536) :
    fmtHex 4 n = [hexChar (n / 4096), hexChar (n / 256 % 16), hexChar (n / 16 % 16), hexChar (n % 16)] := by
  unfold fmtHex hexStr
  by_cases h1 : n < 16
  · rw [hexDigitsLE_small n h1]
    have a : n / 4096 = 0 := by omega
    have b : n / 256 % 16 = 0 := by omega
    have c : n / 16 % 16 = 0 := by omega
    have d : n % 16 = n := by omega
    simp [a, b, c, d, hexChar, List.replicate]
  · rw [hexDigitsLE_step n (by omega)]
    by_cases h2 : n / 16 < 16
    · rw [hexDigitsLE_small _ h2]
      have a : n / 4096 = 0 := by omega
      have b : n / 256 % 16 = 0 := by omega
      have c : n / 16 % 16 = n / 16 := by omega
      simp [a, b, c, hexChar, List.replicate]
    · rw [hexDigitsLE_step _ (by omega)]
      by_cases h3 : n / 16 / 16 < 16
      · rw [hexDigitsLE_small _ h3]
        have a : n / 4096 = 0 := by omega
        have b : n / 256 % 16 = n / 16 / 16 := by omega
        have c : n / 16 % 16 = n / 16 % 16 := rfl
        simp [a, b, hexChar]
      · rw [hexDigitsLE_step _ (by omega)]
        have h4 : n / 16 / 16 / 16 < 16 := by omega
        rw [hexDigitsLE_small _ h4]
        have a : n / 4096 = n / 16 / 16 / 16 := by omega
        have b : n / 256 % 16 = n / 16 / 16 % 16 := by omega
        simp [a, b]

/-- from 16^4 on the `:04x` format has at least five digits -/
theorem fmtHex_long (w n : Nat) (h : 65536 ≤ n) : 5 ≤ (fmtHex w n).length := by
  unfold fmtHex
  simp only [List.length_append, hexStr_length]
  rw [hexDigitsLE_step n (by omega), hexDigitsLE_step _ (by omega), hexDigitsLE_step _ (by omega),
    hexDigitsLE_step _ (by omega)]
  have := hexDigitsLE_length_pos (n / 16 / 16 / 16 / 16)
  simp only [List.length_cons]
  omega

/-! ### `_parse_pkt_line_length` -/

theorem hexChar_ok : ∀ d, d < 16 →
    Gen.PktLine.hexDigits.contains (hexChar d).toNat = true ∧ digitVal (hexChar d) = some d := by
  decide

/-- the four nibbles parse back -/
theorem parseLen_nibbles (a b c d : Nat) (ha : a < 16) (hb : b < 16) (hc : c < 16) (hd : d < 16) :
    parseLen [hexChar a, hexChar b, hexChar c, hexChar d] = .ok (((a * 16 + b) * 16 + c) * 16 + d) := by
  have wa := hexChar_ok a ha
  have wb := hexChar_ok b hb
  have wc := hexChar_ok c hc
  have wd := hexChar_ok d hd
  have e1 : Gen.PktLine.lenWidth = 4 := rfl
  have e2 : Gen.PktLine.lenBase = 16 := rfl
  have ma : (hexChar a).toNat ∈ Gen.PktLine.hexDigits := by simpa using wa.1
  have mb : (hexChar b).toNat ∈ Gen.PktLine.hexDigits := by simpa using wb.1
  have mc : (hexChar c).toNat ∈ Gen.PktLine.hexDigits := by simpa using wc.1
  have md : (hexChar d).toNat ∈ Gen.PktLine.hexDigits := by simpa using wd.1
  simp [parseLen, e1, e2, ma, mb, mc, md, intOfDigits, wa.2, wb.2, wc.2, wd.2, ha, hb, hc, hd]

theorem parseLen_fmtHex (n : Nat) (h : n < 65536) : parseLen (fmtHex 4 n) = .ok n := by
  rw [fmtHex_four n h, parseLen_nibbles _ _ _ _ (by omega) (by omega) (by omega) (by omega)]
  congr 1
  omega

theorem fmtHex_length (n : Nat) (h : n < 65536) : (fmtHex 4 n).length = 4 := by
  rw [fmtHex_four n h]; rfl

/-- per-byte table: a byte that `_HEX_DIGITS` lets through has a digit value below the base -/
def digitOk (b : UInt8) : Bool :=
  match digitVal b with
  | some v => decide (v < Gen.PktLine.lenBase)
  | none => false

theorem digit_table : ∀ n, n < 256 → Gen.PktLine.hexDigits.contains n = true → digitOk (UInt8.ofNat n) = true := by
  decide +kernel

theorem digit_of_mem (b : UInt8) (h : Gen.PktLine.hexDigits.contains b.toNat = true) :
    ∃ v, v < 16 ∧ digitVal b = some v := by
  have := digit_table b.toNat (UInt8.toNat_lt b) h
  rw [UInt8.ofNat_toNat] at this
  unfold digitOk at this
  split at this
  · rename_i v hv
    have e2 : Gen.PktLine.lenBase = 16 := rfl
    rw [e2] at this
    exact ⟨v, by simpa using this, hv⟩
  · cases this

/-- Every byte string offered as a length prefix is classified: a protocol error (wrong length or a
byte outside `_HEX_DIGITS`), or four hex digits and a length below 16^4.  Never `other`. -/
theorem parseLen_classified (s : Bytes) :
    (parseLen s = .protocol ∧ (s.length ≠ 4 ∨ ∃ b ∈ s, Gen.PktLine.hexDigits.contains b.toNat = false)) ∨
    (∃ n, n < 65536 ∧ parseLen s = .ok n ∧ s.length = 4 ∧
      ∀ b ∈ s, Gen.PktLine.hexDigits.contains b.toNat = true) := by
  have e1 : Gen.PktLine.lenWidth = 4 := rfl
  have e2 : Gen.PktLine.lenBase = 16 := rfl
  by_cases hl : s.length = 4
  · by_cases ha : s.all (fun b => Gen.PktLine.hexDigits.contains b.toNat) = true
    · right
      match s, hl with
      | [b0, b1, b2, b3], _ =>
        have ha' := ha
        simp only [List.all_cons, List.all_nil, Bool.and_true, Bool.and_eq_true] at ha'
        obtain ⟨h0, h1, h2, h3⟩ := ha'
        obtain ⟨v0, l0, d0⟩ := digit_of_mem b0 h0
        obtain ⟨v1, l1, d1⟩ := digit_of_mem b1 h1
        obtain ⟨v2, l2, d2⟩ := digit_of_mem b2 h2
        obtain ⟨v3, l3, d3⟩ := digit_of_mem b3 h3
        refine ⟨((v0 * 16 + v1) * 16 + v2) * 16 + v3, by omega, ?_, rfl, ?_⟩
        · unfold parseLen
          rw [if_neg (by rw [e1]; intro h; rcases h with h | h; exact h rfl; exact h ha)]
          simp [e2, intOfDigits, d0, d1, d2, d3, l0, l1, l2, l3]
        · intro b hb
          simp only [List.mem_cons, List.not_mem_nil, or_false] at hb
          rcases hb with rfl | rfl | rfl | rfl <;> assumption
    · left
      refine ⟨?_, Or.inr ?_⟩
      · unfold parseLen; rw [if_pos (Or.inr ha)]
      · rw [Bool.not_eq_true, List.all_eq_false] at ha
        obtain ⟨b, hb, hf⟩ := ha
        exact ⟨b, hb, by simpa using hf⟩
  · left
    refine ⟨?_, Or.inl hl⟩
    unfold parseLen; rw [if_pos (Or.inl (by rw [e1]; exact hl))]

/-! ### `read_pkt_line` over any reader that hands out consecutive stream bytes -/

/-- What the framing theorems need from a transport reader: for `n > 0`, `rd n` returns the next
`min n (remaining)` bytes of the stream `abs s` (blocking read).  (`read_pkt_line` never asks
for zero bytes.) -/
def ReadSpec {τ : Type} (rd : Reader τ) (abs : τ → Bytes) (Valid : τ → Prop) : Prop :=
  ∀ n s, Valid s → 0 < n →
    ∃ out s', rd n s = some (out, s') ∧ out ++ abs s' = abs s ∧ out.length = min n (abs s).length ∧ Valid s'

/-- the payload fits the four-digit length field -/
def Fits : Pkt → Prop
  | none => True
  | some d => d.length + 4 < 65536

theorem frame_flush : frame none = [48, 48, 48, 48] := by decide

theorem parseLen_flush : parseLen [48, 48, 48, 48] = .ok 0 := by decide

theorem frame_data (d : Bytes) : frame (some d) = fmtHex 4 (d.length + 4) ++ d := rfl

/-- `pkt_line` frames exactly the payloads of at most `MAX_PKT_LINE_DATA_LEN` bytes -/
theorem pktLine_some (d : Bytes) (h : d.length ≤ 65516) : pktLine (some d) = some (frame (some d)) := by
  have k : Gen.PktLine.maxDataLen = 65516 := rfl
  simp only [pktLine, k]
  rw [if_neg (by omega)]

theorem pktLine_none_iff (d : Bytes) : pktLine (some d) = none ↔ 65516 < d.length := by
  have k : Gen.PktLine.maxDataLen = 65516 := rfl
  simp only [pktLine, k]
  by_cases h : d.length > 65516 <;> simp [h]

theorem pktLine_eq_some {x : Pkt} {f : Bytes} (h : pktLine x = some f) : f = frame x ∧ Fits x := by
  have k : Gen.PktLine.maxDataLen = 65516 := rfl
  cases x with
  | none => simp only [pktLine, Option.some.injEq] at h; exact ⟨h.symm, trivial⟩
  | some d =>
    simp only [pktLine, k] at h
    by_cases hd : d.length > 65516
    · simp [hd] at h
    · simp only [hd, if_false, Option.some.injEq] at h
      exact ⟨h.symm, by show d.length + 4 < 65536; omega⟩

theorem mapM_some_of_forall {α β : Type} (f : α → Option β) (g : α → β) : ∀ (l : List α),
    (∀ x ∈ l, f x = some (g x)) → l.mapM f = some (l.map g) := by
  intro l
  induction l with
  | nil => intro _; rfl
  | cons a l ih =>
    intro h
    simp only [List.mapM_cons, h a List.mem_cons_self, ih (fun x hx => h x (List.mem_cons_of_mem _ hx))]
    rfl

/-- what `b"".join(pkt_line(p) for p in ps)` returns when no `pkt_line` call refuses: the frames,
and every payload fits -/
theorem wire_eq_some : ∀ (ps : List Pkt) (w : Bytes), wire ps = some w → w = encode ps ∧ ∀ x ∈ ps, Fits x := by
  intro ps
  induction ps with
  | nil => intro w h; simp [wire, encode] at h ⊢; exact h
  | cons x ps ih =>
    intro w h
    simp only [wire, List.mapM_cons, Option.map_eq_some_iff] at h
    obtain ⟨fs, hfs, rfl⟩ := h
    cases hx : pktLine x with
    | none => simp [hx] at hfs
    | some f =>
      cases hr : ps.mapM pktLine with
      | none => simp [hx, hr] at hfs
      | some fr =>
        simp [hx, hr] at hfs
        subst hfs
        obtain ⟨e1, f1⟩ := pktLine_eq_some hx
        obtain ⟨e2, f2⟩ := ih fr.flatten (by simp [wire, hr])
        refine ⟨by simp [encode, e1] at e2 ⊢; exact e2, ?_⟩
        intro y hy
        simp only [List.mem_cons] at hy
        rcases hy with rfl | hy
        · exact f1
        · exact f2 y hy

theorem readCore_frame {τ : Type} {rd : Reader τ} {abs : τ → Bytes} {Valid : τ → Prop}
    (hrd : ReadSpec rd abs Valid) (s : τ) (x : Pkt) (rest : Bytes) (hv : Valid s)
    (habs : abs s = frame x ++ rest) (hf : Fits x) :
    ∃ s', readCore rd s = .pkt x s' ∧ abs s' = rest ∧ Valid s' := by
  have c1 : Gen.PktLine.rdPrefix = 4 := rfl
  have c2 : Gen.PktLine.rdFlush = 0 := rfl
  have c3 : Gen.PktLine.rdDelim = 1 := rfl
  have c4 : Gen.PktLine.rdMin = 4 := rfl
  have c5 : Gen.PktLine.rdHdr = 4 := rfl
  have c6 : Gen.PktLine.rdChk = 4 := rfl
  have c7 : Gen.PktLine.rdEmpty = 4 := rfl
  cases x with
  | none =>
    obtain ⟨out, s1, h1, h2, h3, h4⟩ := hrd 4 s hv (by omega)
    rw [habs, frame_flush] at h2 h3
    have hsplit := List.append_inj h2 (by simp at h3 ⊢; omega)
    refine ⟨s1, ?_, hsplit.2, h4⟩
    unfold readCore
    rw [c1, h1]
    simp [hsplit.1, parseLen_flush, c2]
  | some d =>
    have hfit : d.length + 4 < 65536 := hf
    have hpl := fmtHex_length (d.length + 4) hfit
    obtain ⟨out, s1, h1, h2, h3, h4⟩ := hrd 4 s hv (by omega)
    rw [habs, frame_data, List.append_assoc] at h2 h3
    have hsplit := List.append_inj h2 (by simp only [List.length_append] at h3; omega)
    have hne : fmtHex 4 (d.length + 4) ≠ [] := by
      intro h; rw [h] at hpl; simp at hpl
    have n1 : ¬ (d.length + 4 = 0 ∨ d.length + 4 = 1) := by omega
    have n2 : ¬ (d.length + 4 < 4) := by omega
    by_cases hd0 : d.length = 0
    · -- the empty pkt-line: the transport is not touched
      have hd : d = [] := List.eq_nil_of_length_eq_zero hd0
      subst hd
      refine ⟨s1, ?_, by simpa using hsplit.2, h4⟩
      unfold readCore
      rw [c1, h1]
      simp only [hsplit.1, hne, if_false, parseLen_fmtHex _ hfit, c2, c3, c4, c5, c6, c7]
      simp
    · obtain ⟨body, s2, g1, g2, g3, g4⟩ := hrd d.length s1 h4 (by omega)
      rw [hsplit.2] at g2 g3
      have hsplit2 := List.append_inj g2 (by simp only [List.length_append] at g3; omega)
      refine ⟨s2, ?_, hsplit2.2, g4⟩
      unfold readCore
      rw [c1, h1]
      have n3 : d.length + 4 > 4 := by omega
      simp only [hsplit.1, hne, if_false, parseLen_fmtHex _ hfit, c2, c3, c4, c5, c6, c7]
      simp only [n1, n2, n3, if_false, if_true, Nat.add_sub_cancel, g1, hsplit2.1]
      simp

theorem readCore_eof {τ : Type} {rd : Reader τ} {abs : τ → Bytes} {Valid : τ → Prop}
    (hrd : ReadSpec rd abs Valid) (s : τ) (hv : Valid s) (habs : abs s = []) :
    ∃ s', readCore rd s = .hangup s' := by
  have c1 : Gen.PktLine.rdPrefix = 4 := rfl
  obtain ⟨out, s1, h1, _, h3, _⟩ := hrd 4 s hv (by omega)
  rw [habs] at h3
  have : out = [] := by
    cases out with
    | nil => rfl
    | cons _ _ => simp at h3
  refine ⟨s1, ?_⟩
  unfold readCore
  rw [c1, h1]
  simp [this]

theorem readAll_roundtrip {τ : Type} {rd : Reader τ} {abs : τ → Bytes} {Valid : τ → Prop}
    (hrd : ReadSpec rd abs Valid) : ∀ (ps : List Pkt) (fuel : Nat) (s : τ), Valid s →
    abs s = encode ps → (∀ x ∈ ps, Fits x) → ps.length < fuel →
    readAll rd fuel ⟨none, s⟩ = (ps, .hangup) := by
  intro ps
  induction ps with
  | nil =>
    intro fuel s hv habs _ hfuel
    cases fuel with
    | zero => simp at hfuel
    | succ f =>
      obtain ⟨s', h⟩ := readCore_eof hrd s hv (by simpa [encode] using habs)
      simp [readAll, readPktLine, h]
  | cons x ps ih =>
    intro fuel s hv habs hall hfuel
    cases fuel with
    | zero => simp at hfuel
    | succ f =>
      have hx := hall x (List.mem_cons_self)
      obtain ⟨s', h1, h2, h3⟩ := readCore_frame hrd s x (encode ps) hv
        (by simpa [encode] using habs) hx
      simp only [readAll, readPktLine, h1]
      rw [ih f s' h3 h2 (fun y hy => hall y (List.mem_cons_of_mem _ hy)) (by simp at hfuel; omega)]

/-- the plain blocking reader meets the spec -/
theorem bytesRead_spec : ReadSpec bytesRead (fun s => s) (fun _ => True) := by
  intro n s _ _
  refine ⟨s.take n, s.drop n, rfl, List.take_append_drop n s, ?_, trivial⟩
  simp [List.length_take]

/-! ### `ReceivableProtocol.read` is a blocking read of the fragment stream, whatever the fragments -/

/-- the transport never returns `b""` before EOF -/
def RPValid (st : RP) : Prop := ∀ c ∈ st.src, c ≠ []

theorem rpFill_spec (size : Nat) : ∀ (src : List Bytes) (buf : Bytes), (∀ c ∈ src, c ≠ []) →
    buf.length < size →
    (rpFill size buf src).1 ++ (rpFill size buf src).2.flatten = buf ++ src.flatten ∧
    (rpFill size buf src).1.length = min size (buf.length + src.flatten.length) ∧
    (∀ c ∈ (rpFill size buf src).2, c ≠ []) := by
  intro src
  induction src with
  | nil =>
    intro buf _ hb
    simp only [rpFill, List.flatten_nil, List.append_nil, List.length_nil, Nat.add_zero]
    exact ⟨trivial, by omega, by simp⟩
  | cons c cs ih =>
    intro buf hv hb
    have hc : c ≠ [] := hv c (List.mem_cons_self)
    have hcl : 0 < c.length := by cases c with | nil => exact absurd rfl hc | cons _ _ => simp
    have hcs : ∀ c' ∈ cs, c' ≠ [] := fun c' h => hv c' (List.mem_cons_of_mem _ h)
    simp only [rpFill]
    by_cases h1 : c.length ≤ size - buf.length
    · simp only [h1, if_true, hc, if_false]
      by_cases h2 : c.length = size - buf.length
      · simp only [h2, if_true, List.flatten_cons, List.length_append]
        exact ⟨by simp, by omega, hcs⟩
      · simp only [h2, if_false]
        have := ih (buf ++ c) hcs (by simp only [List.length_append]; omega)
        simp only [List.append_assoc, List.length_append, List.flatten_cons] at this ⊢
        refine ⟨this.1, ?_, this.2.2⟩
        rw [this.2.1]; omega
    · simp only [h1, if_false, List.flatten_cons, List.length_append, List.length_take]
      refine ⟨?_, by omega, ?_⟩
      · rw [List.append_assoc, ← List.append_assoc (c.take _), List.take_append_drop]
      · intro c' hc'
        simp only [List.mem_cons] at hc'
        rcases hc' with rfl | h
        · intro h0
          have := congrArg List.length h0
          simp only [List.length_drop, List.length_nil] at this
          omega
        · exact hcs _ h

theorem rpRead_spec : ReadSpec rpRead RP.stream RPValid := by
  intro n st hv hn0
  unfold rpRead
  have : ¬ n = 0 := by omega
  simp only [this, if_false]
  by_cases h : st.rbuf.length ≥ n
  · simp only [h, if_true]
    refine ⟨_, _, rfl, ?_, ?_, hv⟩
    · simp only [RP.stream]
      rw [← List.append_assoc, List.take_append_drop]
    · simp only [RP.stream, List.length_take, List.length_append]; omega
  · simp only [h, if_false]
    obtain ⟨a, b, c⟩ := rpFill_spec n st.src st.rbuf hv (by omega)
    refine ⟨_, _, rfl, ?_, ?_, c⟩
    · simpa [RP.stream] using a
    · simpa [RP.stream] using b

/-! ### `PktLineParser` -/

theorem parseLoop_fuel : ∀ (f : Nat) (buf : Bytes), buf.length ≤ f →
    parseLoop f buf = parseLoop buf.length buf := by
  have c1 : Gen.PktLine.psMin = 4 := rfl
  have c2 : Gen.PktLine.psFlushDrop = 4 := rfl
  have c3 : Gen.PktLine.psMinSize = 4 := rfl
  intro f
  induction f using Nat.strongRecOn with
  | _ f ih =>
    intro buf hf
    cases f with
    | zero =>
      have : buf.length = 0 := by omega
      rw [this]
    | succ f =>
      cases hb : buf.length with
      | zero =>
        have : buf = [] := List.eq_nil_of_length_eq_zero hb
        subst this
        simp [parseLoop, c1]
      | succ m =>
        simp only [parseLoop, c1, c2, c3, hb]
        split
        · rfl
        · split
          · rfl
          · rfl
          · rename_i size _
            split
            · have hl : (buf.drop 4).length ≤ m := by simp only [List.length_drop]; omega
              rw [ih f (by omega) _ (by omega), ih m (by omega) _ hl]
            · split
              · rfl
              · split
                · have hl : (buf.drop size).length ≤ m := by simp only [List.length_drop]; omega
                  rw [ih f (by omega) _ (by omega), ih m (by omega) _ hl]
                · rfl

/-- one iteration of the parser loop, fuel-free -/
theorem parse_unfold (buf : Bytes) :
    parse buf =
      if buf.length < 4 then ([], .tail buf)
      else match parseLen (buf.take 4) with
        | .protocol => ([], .protoErr)
        | .other => ([], .otherErr)
        | .ok size =>
          if size = 0 then ((none : Pkt) :: (parse (buf.drop 4)).1, (parse (buf.drop 4)).2)
          else if size < 4 then ([], .protoErr)
          else if size ≤ buf.length then
            (some ((buf.take size).drop 4) :: (parse (buf.drop size)).1, (parse (buf.drop size)).2)
          else ([], .tail buf) := by
  have c1 : Gen.PktLine.psMin = 4 := rfl
  have c2 : Gen.PktLine.psFlushDrop = 4 := rfl
  have c3 : Gen.PktLine.psMinSize = 4 := rfl
  have c4 : Gen.PktLine.psPrefix = 4 := rfl
  have c5 : Gen.PktLine.psFlush = 0 := rfl
  have c6 : Gen.PktLine.psHdr = 4 := rfl
  unfold parse
  cases hb : buf.length with
  | zero => simp [parseLoop]
  | succ m =>
    simp only [parseLoop, c1, c2, c3, c4, c5, c6, hb]
    by_cases h4 : m + 1 < 4
    · simp only [h4, if_true]
    · simp only [h4, if_false]
      cases hp : parseLen (buf.take 4) with
      | protocol => rfl
      | other => rfl
      | ok size =>
        simp only
        by_cases h0 : size = 0
        · simp only [h0, if_true]
          rw [parseLoop_fuel m _ (by simp only [List.length_drop]; omega)]
        · simp only [h0, if_false]
          by_cases h1 : size < 4
          · simp only [h1, if_true]
          · simp only [h1, if_false]
            by_cases h2 : size ≤ m + 1
            · simp only [h2, if_true]
              rw [parseLoop_fuel m _ (by simp only [List.length_drop]; omega)]
            · simp only [h2, if_false]

/-- continuing a parse result with more data: what the next `parse()` call adds -/
def andThen (r : List Pkt × PEnd) (b : Bytes) : List Pkt × PEnd :=
  match r with
  | (l, .tail t) => (l ++ (parse (t ++ b)).1, (parse (t ++ b)).2)
  | (l, e) => (l, e)

theorem andThen_cons (x : Pkt) (r : List Pkt × PEnd) (b : Bytes) :
    andThen (x :: r.1, r.2) b = (x :: (andThen r b).1, (andThen r b).2) := by
  obtain ⟨l, e⟩ := r
  cases e <;> simp [andThen]

/-- Parsing `a ++ b` in one go is parsing `a`, then parsing the left-over tail followed by `b`. -/
theorem parse_append : ∀ (n : Nat) (a b : Bytes), a.length ≤ n →
    parse (a ++ b) = andThen (parse a) b := by
  intro n
  induction n using Nat.strongRecOn with
  | _ n ih =>
    intro a b hn
    conv => rhs; rw [parse_unfold a]
    by_cases h4 : a.length < 4
    · simp [h4, andThen]
    · simp only [h4, if_false]
      have htake : (a ++ b).take 4 = a.take 4 := List.take_append_of_le_length (by omega)
      have hlen : ¬ (a ++ b).length < 4 := by simp only [List.length_append]; omega
      cases hp : parseLen (a.take 4) with
      | protocol =>
        rw [parse_unfold (a ++ b)]
        simp only [hlen, if_false, htake, hp]
        rfl
      | other =>
        rw [parse_unfold (a ++ b)]
        simp only [hlen, if_false, htake, hp]
        rfl
      | ok size =>
        simp only
        by_cases h0 : size = 0
        · rw [parse_unfold (a ++ b)]
          simp only [hlen, if_false, htake, hp, h0, if_true]
          rw [List.drop_append_of_le_length (by omega)]
          rw [ih (a.length - 4) (by omega) (a.drop 4) b (by simp)]
          rw [andThen_cons]
        · simp only [h0, if_false]
          by_cases h1 : size < 4
          · rw [parse_unfold (a ++ b)]
            simp only [hlen, if_false, htake, hp, h0, h1, if_true]
            rfl
          · simp only [h1, if_false]
            by_cases h2 : size ≤ a.length
            · rw [parse_unfold (a ++ b)]
              have h2' : size ≤ (a ++ b).length := by simp only [List.length_append]; omega
              simp only [hlen, if_false, htake, hp, h0, h1, h2, h2', if_true]
              rw [List.drop_append_of_le_length h2, List.take_append_of_le_length h2]
              rw [ih (a.length - size) (by omega) (a.drop size) b (by simp)]
              rw [andThen_cons]
            · simp [h2, andThen]

/-- what a `parse()` call leaves in `_readahead` yields nothing when parsed again on its own -/
theorem parse_tail_stuck (a : Bytes) (l : List Pkt) (t : Bytes) (h : parse a = (l, .tail t)) :
    parse t = ([], .tail t) := by
  have := parse_append a.length a [] (Nat.le_refl _)
  rw [List.append_nil, h] at this
  simp only [andThen, List.append_nil] at this
  have h1 := congrArg Prod.fst this
  have h2 := congrArg Prod.snd this
  simp only at h1 h2
  have : (parse t).1 = [] := by
    have := List.self_eq_append_right.mp h1
    exact this
  exact Prod.ext this h2.symm

/-- **Chunking independence of the incremental parser**, any byte string, any fragments. -/
theorem feedAll_eq_parse : ∀ (cs : List Bytes) (t : Bytes), parse t = ([], .tail t) →
    feedAll t cs = parse (t ++ cs.flatten) := by
  intro cs
  induction cs with
  | nil => intro t ht; simp [feedAll, ht]
  | cons c cs ih =>
    intro t _
    simp only [feedAll, List.flatten_cons]
    rw [← List.append_assoc, parse_append (t ++ c).length (t ++ c) cs.flatten (Nat.le_refl _)]
    cases hp : parse (t ++ c) with
    | mk l e =>
      cases e with
      | tail t' =>
        simp only [andThen]
        rw [ih t' (parse_tail_stuck _ _ _ hp)]
      | protoErr => rfl
      | otherErr => rfl

theorem parse_nil : parse [] = ([], .tail []) := by decide

/-- one well-formed frame at the head of the buffer is handed over as is -/
theorem parse_frame (x : Pkt) (rest : Bytes) (hf : Fits x) :
    parse (frame x ++ rest) = (x :: (parse rest).1, (parse rest).2) := by
  rw [parse_unfold]
  cases x with
  | none =>
    rw [frame_flush]
    simp [parseLen_flush]
  | some d =>
    have hfit : d.length + 4 < 65536 := hf
    have hpl := fmtHex_length (d.length + 4) hfit
    rw [frame_data, List.append_assoc]
    have hlen : ¬ (fmtHex 4 (d.length + 4) ++ (d ++ rest)).length < 4 := by
      simp only [List.length_append, hpl]; omega
    have htake : (fmtHex 4 (d.length + 4) ++ (d ++ rest)).take 4 = fmtHex 4 (d.length + 4) := by
      rw [List.take_append_of_le_length (by omega), List.take_of_length_le (by omega)]
    simp only [hlen, if_false, htake, parseLen_fmtHex _ hfit]
    have n0 : ¬ d.length + 4 = 0 := by omega
    have n1 : ¬ d.length + 4 < 4 := by omega
    have n2 : d.length + 4 ≤ (fmtHex 4 (d.length + 4) ++ (d ++ rest)).length := by
      simp only [List.length_append, hpl]; omega
    simp only [n0, n1, n2, if_false, if_true]
    have e1 : (fmtHex 4 (d.length + 4) ++ (d ++ rest)).drop (d.length + 4) = rest := by
      rw [← List.append_assoc]
      rw [List.drop_append_of_le_length (by simp only [List.length_append, hpl]; omega)]
      rw [List.drop_of_length_le (by simp only [List.length_append, hpl]; omega)]
      rfl
    have e2 : ((fmtHex 4 (d.length + 4) ++ (d ++ rest)).take (d.length + 4)).drop 4 = d := by
      rw [← List.append_assoc]
      rw [List.take_append_of_le_length (by simp only [List.length_append, hpl]; omega)]
      rw [List.take_of_length_le (by simp only [List.length_append, hpl]; omega)]
      rw [List.drop_append_of_le_length (by omega), List.drop_of_length_le (by omega)]
      rfl
    rw [e1, e2]

theorem parse_encode : ∀ (ps : List Pkt), (∀ x ∈ ps, Fits x) → parse (encode ps) = (ps, .tail []) := by
  intro ps
  induction ps with
  | nil => intro _; exact parse_nil
  | cons x ps ih =>
    intro h
    have : encode (x :: ps) = frame x ++ encode ps := by simp [encode]
    rw [this, parse_frame x _ (h x List.mem_cons_self), ih (fun y hy => h y (List.mem_cons_of_mem _ hy))]

/-! ### side-band -/

theorem sbChunks_flatten : ∀ (f : Nat) (blob : Bytes), blob.length ≤ f → (sbChunks f blob).flatten = blob := by
  have k : Gen.PktLine.sbChunk = 65515 := rfl
  intro f
  induction f with
  | zero =>
    intro blob h
    have : blob = [] := List.eq_nil_of_length_eq_zero (by omega)
    simp [sbChunks, this]
  | succ f ih =>
    intro blob h
    simp only [sbChunks]
    by_cases hb : blob = []
    · simp [hb]
    · simp only [hb, if_false, List.flatten_cons]
      have hpos : 0 < blob.length := by
        cases blob with | nil => exact absurd rfl hb | cons _ _ => simp
      rw [ih _ (by simp only [List.length_drop, k]; omega), List.take_append_drop]

theorem sbChunks_bounds : ∀ (f : Nat) (blob : Bytes), ∀ c ∈ sbChunks f blob,
    0 < c.length ∧ c.length ≤ Gen.PktLine.sbChunk := by
  have k : Gen.PktLine.sbChunk = 65515 := rfl
  intro f
  induction f with
  | zero => intro blob c hc; simp [sbChunks] at hc
  | succ f ih =>
    intro blob c hc
    simp only [sbChunks] at hc
    by_cases hb : blob = []
    · simp [hb] at hc
    · simp only [hb, if_false, List.mem_cons] at hc
      have hpos : 0 < blob.length := by
        cases blob with | nil => exact absurd rfl hb | cons _ _ => simp
      rcases hc with rfl | hc
      · simp only [List.length_take, k]; omega
      · exact ih _ c hc

theorem sidebandDemux_map (ch : UInt8) : ∀ (cs : List Bytes) (rest : List Bytes),
    sidebandDemux (cs.map (ch :: ·) ++ rest) = (sidebandDemux rest).map ((cs.map (ch, ·)) ++ ·) := by
  intro cs
  induction cs with
  | nil => intro rest; simp
  | cons c cs ih =>
    intro rest
    simp only [List.map_cons, List.cons_append, sidebandDemux, ih]
    cases sidebandDemux rest <;> simp

/-- `read_pkt_seq` over any conforming reader returns the non-empty packets up to the flush-pkt -/
theorem readPktSeq_roundtrip {τ : Type} {rd : Reader τ} {abs : τ → Bytes} {Valid : τ → Prop}
    (hrd : ReadSpec rd abs Valid) (rest : Bytes) : ∀ (ds : List Bytes) (fuel : Nat) (s : τ), Valid s →
    abs s = encode (ds.map some) ++ (frame none ++ rest) →
    (∀ d ∈ ds, d ≠ [] ∧ d.length + 4 < 65536) → ds.length < fuel →
    ∃ s', readPktSeq rd fuel ⟨none, s⟩ = (ds, none, ⟨none, s'⟩) ∧ abs s' = rest ∧ Valid s' := by
  intro ds
  induction ds with
  | nil =>
    intro fuel s hv habs _ hfuel
    cases fuel with
    | zero => simp at hfuel
    | succ f =>
      obtain ⟨s', h1, h2, h3⟩ := readCore_frame hrd s none rest hv (by simpa [encode] using habs) trivial
      exact ⟨s', by simp [readPktSeq, readPktLine, h1], h2, h3⟩
  | cons d ds ih =>
    intro fuel s hv habs hall hfuel
    cases fuel with
    | zero => simp at hfuel
    | succ f =>
      have hd := hall d List.mem_cons_self
      obtain ⟨s1, h1, h2, h3⟩ := readCore_frame hrd s (some d) (encode (ds.map some) ++ (frame none ++ rest)) hv
        (by simpa [encode] using habs) hd.2
      obtain ⟨s', g1, g2, g3⟩ := ih f s1 h3 h2 (fun y hy => hall y (List.mem_cons_of_mem _ hy))
        (by simp at hfuel; omega)
      refine ⟨s', ?_, g2, g3⟩
      cases d with
      | nil => exact absurd rfl hd.1
      | cons b r => simp [readPktSeq, readPktLine, h1, g1]

/-! ### `BufferedPktLineWriter` -/

theorem pySlice_append (l : Bytes) (i : Int) : pySliceTo l i ++ pySliceFrom l i = l := by
  unfold pySliceTo pySliceFrom
  split <;> exact List.take_append_drop _ _

theorem bwFlush_stream (st : BW) : (bwFlush st).1.flatten = st.wbuf ∧ (bwFlush st).2.wbuf = [] := by
  unfold bwFlush
  by_cases h : st.wbuf = [] <;> simp [h]

theorem bwWrite_stream (bufsize : Nat) (st : BW) (d : Bytes) :
    (bwWrite bufsize st d).1.flatten ++ (bwWrite bufsize st d).2.wbuf = st.wbuf ++ frame (some d) := by
  unfold bwWrite
  simp only
  split
  · rename_i h
    have f := bwFlush_stream ⟨st.wbuf ++ pySliceTo (frame (some d)) (↑(frame (some d)).length -
      (↑st.buflen + ↑(frame (some d)).length - ↑bufsize)), st.buflen⟩
    simp only [f.1, f.2, List.nil_append, List.append_assoc, pySlice_append]
  · simp

theorem bwRun_stream (bufsize : Nat) : ∀ (ds : List Bytes) (st : BW), (∀ d ∈ ds, d.length ≤ 65516) →
    ∃ outs, bwRun bufsize st ds = some outs ∧ outs.flatten = st.wbuf ++ encode (ds.map some) := by
  intro ds
  induction ds with
  | nil => intro st _; exact ⟨_, rfl, by simp [encode, (bwFlush_stream st).1]⟩
  | cons d ds ih =>
    intro st h
    obtain ⟨outs, h1, h2⟩ := ih (bwWrite bufsize st d).2 (fun y hy => h y (List.mem_cons_of_mem _ hy))
    refine ⟨(bwWrite bufsize st d).1 ++ outs, ?_, ?_⟩
    · simp only [bwRun, pktLine_some d (h d List.mem_cons_self), h1, Option.map_some]
    · simp only [List.flatten_append, h2]
      rw [← List.append_assoc, bwWrite_stream]
      simp [encode]

/-- a write that `pkt_line` refuses aborts the run with the ValueError -/
theorem bwRun_refuses (bufsize : Nat) (st : BW) (d : Bytes) (ds : List Bytes) (h : 65516 < d.length) :
    bwRun bufsize st (d :: ds) = none := by
  simp only [bwRun, (pktLine_none_iff d).mpr h]

/-! ### `PackStreamReader._read` trailer -/

theorem trailerStep_inv (h : Nat) (hh : 0 < h) (st : Trailer) (total data : Bytes)
    (h1 : st.hashed ++ st.trailer = total) (h2 : st.trailer.length = min h total.length) :
    (trailerStep h st data).hashed ++ (trailerStep h st data).trailer = total ++ data ∧
    (trailerStep h st data).trailer.length = min h (total ++ data).length := by
  unfold trailerStep
  simp only
  by_cases hn : data.length ≥ h
  · have e0 : ¬ h = 0 := by omega
    simp only [hn, if_true, e0, if_false, List.take_length, List.drop_length, List.nil_append]
    refine ⟨?_, ?_⟩
    · rw [List.append_assoc, List.take_append_drop, ← h1]
    · simp only [List.length_drop, List.length_append]; omega
  · simp only [hn, if_false]
    by_cases h0 : data.length = 0
    · have : data = [] := List.eq_nil_of_length_eq_zero h0
      subst this
      have hp : 0 + st.trailer.length - h = 0 := by omega
      simp only [List.length_nil, hp, List.take_zero, List.drop_zero, List.append_nil, if_true]
      exact ⟨h1, h2⟩
    · simp only [h0, if_false, Nat.sub_self, List.drop_zero, List.take_zero, List.append_nil]
      refine ⟨?_, ?_⟩
      · rw [List.append_assoc, ← List.append_assoc (st.trailer.take _), List.take_append_drop,
          ← List.append_assoc, h1]
      · simp only [List.length_append, List.length_drop]; omega

theorem trailerRun_inv (h : Nat) (hh : 0 < h) : ∀ (cs : List Bytes) (st : Trailer) (total : Bytes),
    st.hashed ++ st.trailer = total → st.trailer.length = min h total.length →
    (trailerRun h st cs).hashed ++ (trailerRun h st cs).trailer = total ++ cs.flatten ∧
    (trailerRun h st cs).trailer.length = min h (total ++ cs.flatten).length := by
  intro cs
  induction cs with
  | nil => intro st total h1 h2; simpa [trailerRun] using ⟨h1, h2⟩
  | cons c cs ih =>
    intro st total h1 h2
    obtain ⟨a, b⟩ := trailerStep_inv h hh st total c h1 h2
    have := ih (trailerStep h st c) (total ++ c) a b
    simpa [trailerRun, List.append_assoc] using this

/-! ### capability lists -/

theorem rstrip_snoc_ws (p : UInt8 → Bool) (s : Bytes) (b : UInt8) (h : p b = true) :
    rstripBy p (s ++ [b]) = rstripBy p s := by
  simp [rstripBy, List.reverse_append, h]

theorem rstrip_snoc_nonws (p : UInt8 → Bool) (s : Bytes) (b : UInt8) (h : p b = false) :
    rstripBy p (s ++ [b]) = s ++ [b] := by
  simp [rstripBy, List.reverse_append, h]

theorem splitOn_ne_nil (sep : UInt8) : ∀ s : Bytes, splitOn sep s ≠ [] := by
  intro s
  induction s with
  | nil => simp [splitOn]
  | cons b r ih =>
    simp only [splitOn]
    split
    · simp
    · split <;> simp

theorem splitOn_append (sep : UInt8) : ∀ (a r : Bytes), sep ∉ a →
    splitOn sep (a ++ sep :: r) = a :: splitOn sep r := by
  intro a
  induction a with
  | nil => intro r _; simp [splitOn]
  | cons x a ih =>
    intro r h
    have hx : ¬ x = sep := fun e => h (by simp [e])
    have ha : sep ∉ a := fun e => h (List.mem_cons_of_mem _ e)
    simp only [List.cons_append, splitOn, hx, if_false, ih r ha]

theorem splitOn_nosep (sep : UInt8) : ∀ (a : Bytes), sep ∉ a → splitOn sep a = [a] := by
  intro a
  induction a with
  | nil => intro _; rfl
  | cons x a ih =>
    intro h
    have hx : ¬ x = sep := fun e => h (by simp [e])
    have ha : sep ∉ a := fun e => h (List.mem_cons_of_mem _ e)
    simp only [splitOn, hx, if_false, ih ha]

theorem splitOn_join (sep : UInt8) : ∀ (parts : List Bytes), parts ≠ [] → (∀ p ∈ parts, sep ∉ p) →
    splitOn sep (joinWith sep parts) = parts := by
  intro parts
  induction parts with
  | nil => intro h; exact absurd rfl h
  | cons p rest ih =>
    intro _ hall
    cases rest with
    | nil => simp only [joinWith]; exact splitOn_nosep sep p (hall p List.mem_cons_self)
    | cons q r =>
      simp only [joinWith]
      rw [splitOn_append sep p _ (hall p List.mem_cons_self),
        ih (by simp) (fun x hx => hall x (List.mem_cons_of_mem _ hx))]

theorem mem_joinWith (sep x : UInt8) : ∀ (parts : List Bytes), x ∈ joinWith sep parts →
    x = sep ∨ ∃ p ∈ parts, x ∈ p := by
  intro parts
  induction parts with
  | nil => intro h; simp [joinWith] at h
  | cons p rest ih =>
    intro h
    cases rest with
    | nil => exact Or.inr ⟨p, List.mem_cons_self, by simpa [joinWith] using h⟩
    | cons q r =>
      simp only [joinWith, List.mem_append, List.mem_cons] at h
      rcases h with h | h | h
      · exact Or.inr ⟨p, List.mem_cons_self, h⟩
      · exact Or.inl h
      · rcases ih h with h | ⟨p', hp', hx⟩
        · exact Or.inl h
        · exact Or.inr ⟨p', List.mem_cons_of_mem _ hp', hx⟩

theorem joinWith_snoc (sep : UInt8) : ∀ (i : List Bytes) (p : Bytes), i ≠ [] →
    joinWith sep (i ++ [p]) = joinWith sep i ++ sep :: p := by
  intro i
  induction i with
  | nil => intro p h; exact absurd rfl h
  | cons a i ih =>
    intro p _
    cases i with
    | nil => simp [joinWith]
    | cons b i =>
      have := ih p (by simp)
      simp only [List.cons_append, joinWith] at this ⊢
      rw [this]
      simp

/-- a list whose last part ends in `b` joins to a string ending in `b` -/
theorem joinWith_last (sep : UInt8) (i : List Bytes) (c : Bytes) (b : UInt8) :
    ∃ X, joinWith sep (i ++ [c ++ [b]]) = X ++ [b] := by
  by_cases h : i = []
  · subst h; exact ⟨c, by simp [joinWith]⟩
  · exact ⟨joinWith sep i ++ sep :: c, by rw [joinWith_snoc sep i _ h]; simp⟩

theorem formatCapabilityLine_eq : ∀ (caps : List Bytes), caps ≠ [] →
    formatCapabilityLine caps = 32 :: joinWith 32 caps := by
  intro caps
  induction caps with
  | nil => intro h; exact absurd rfl h
  | cons c rest ih =>
    intro _
    cases rest with
    | nil => simp [formatCapabilityLine, joinWith]
    | cons d r =>
      have := ih (by simp)
      simp only [formatCapabilityLine, List.map_cons, List.flatten_cons, joinWith] at this ⊢
      rw [this]
      simp

/-- Capability tokens: non-empty, without the separator SP, the terminator LF and NUL. -/
def CapsWF (caps : List Bytes) : Prop :=
  ∀ c ∈ caps, c ≠ [] ∧ ∀ b ∈ c, b ≠ 32 ∧ b ≠ 10 ∧ b ≠ 0

theorem CapsWF.nosep {caps : List Bytes} (h : CapsWF caps) (x : UInt8) (hx : x = 32 ∨ x = 10 ∨ x = 0) :
    ∀ c ∈ caps, x ∉ c := by
  intro c hc hm
  have := (h c hc).2 x hm
  rcases hx with rfl | rfl | rfl
  · exact this.1 rfl
  · exact this.2.1 rfl
  · exact this.2.2 rfl

theorem isSepLf_false {b : UInt8} (h : b ≠ 32 ∧ b ≠ 10 ∧ b ≠ 0) : isSepLf b = false := by
  simp [isSepLf, h.1, h.2.1]

theorem CapsWF.first {caps : List Bytes} (h : CapsWF caps) (hne : caps ≠ []) :
    ∃ b r t, caps = (b :: r) :: t ∧ isSepLf b = false := by
  cases caps with
  | nil => exact absurd rfl hne
  | cons c t =>
    have hc := h c List.mem_cons_self
    cases c with
    | nil => exact absurd rfl hc.1
    | cons b r => exact ⟨b, r, t, rfl, isSepLf_false (hc.2 b List.mem_cons_self)⟩

theorem CapsWF.last {caps : List Bytes} (h : CapsWF caps) (hne : caps ≠ []) :
    ∃ i c b, caps = i ++ [c ++ [b]] ∧ isSepLf b = false := by
  have e := (List.dropLast_concat_getLast hne).symm
  have hl := h _ (List.getLast_mem hne)
  have e2 := (List.dropLast_concat_getLast hl.1).symm
  refine ⟨caps.dropLast, (caps.getLast hne).dropLast, (caps.getLast hne).getLast hl.1, ?_, ?_⟩
  · rw [← e2]; exact e
  · exact isSepLf_false (hl.2 _ (List.getLast_mem hl.1))

theorem joinWith_first (sep b : UInt8) (r : Bytes) (t : List Bytes) :
    ∃ J, joinWith sep ((b :: r) :: t) = b :: J := by
  cases t with
  | nil => exact ⟨r, rfl⟩
  | cons q t => exact ⟨r ++ sep :: joinWith sep (q :: t), rfl⟩

/-- `strip(b" \n")` of ` c1 c2 … cn\n` is `c1 c2 … cn` -/
theorem strip_capline (caps : List Bytes) (h : CapsWF caps) (hne : caps ≠ []) :
    stripBy isSepLf ((32 :: joinWith 32 caps) ++ [10]) = joinWith 32 caps := by
  obtain ⟨i, c, b, e, hb⟩ := h.last hne
  obtain ⟨X, hX⟩ := joinWith_last 32 i c b
  obtain ⟨b0, r, t, e0, hb0⟩ := h.first hne
  obtain ⟨J, hJ⟩ := joinWith_first 32 b0 r t
  unfold stripBy
  have : rstripBy isSepLf ((32 :: joinWith 32 caps) ++ [10]) = 32 :: joinWith 32 caps := by
    rw [rstrip_snoc_ws _ _ _ (by decide), e, hX, ← List.cons_append, rstrip_snoc_nonws _ _ _ hb]
  rw [this]
  have w32 : isSepLf 32 = true := by decide
  rw [e0, hJ]
  simp [lstripBy, w32, hb0]

/-! ### side-band: the packets a sequence of writes produces -/

/-- the packets `write_sideband` frames for a sequence of `(channel, blob)` writes -/
def sbPackets (writes : List (UInt8 × Bytes)) : List Bytes :=
  writes.flatMap (fun w => (sbChunks w.2.length w.2).map (w.1 :: ·))

/-- the `(channel, data)` pairs a reader should see -/
def sbPairs (writes : List (UInt8 × Bytes)) : List (UInt8 × Bytes) :=
  writes.flatMap (fun w => (sbChunks w.2.length w.2).map (fun c => (w.1, c)))

/-- the frames `write_sideband` writes (it never refuses: `writeSideband_eq`) -/
def sbFrames (ch : UInt8) (blob : Bytes) : List Bytes :=
  (sbChunks blob.length blob).map (fun c => frame (some (ch :: c)))

/-- every slice leaves room for the channel byte, so `pkt_line` accepts every frame -/
theorem writeSideband_eq (ch : UInt8) (blob : Bytes) : writeSideband ch blob = some (sbFrames ch blob) := by
  have k : Gen.PktLine.sbChunk = 65515 := rfl
  unfold writeSideband sbFrames
  apply mapM_some_of_forall
  intro c hc
  obtain ⟨_, b2⟩ := sbChunks_bounds _ _ c hc
  exact pktLine_some _ (by simp only [List.length_cons]; omega)

theorem sideband_wire (writes : List (UInt8 × Bytes)) :
    (writes.flatMap (fun w => sbFrames w.1 w.2)).flatten = encode ((sbPackets writes).map some) := by
  induction writes with
  | nil => simp [sbPackets, encode]
  | cons w ws ih =>
    have hw : (sbFrames w.1 w.2).flatten
        = encode (((sbChunks w.2.length w.2).map (w.1 :: ·)).map some) := by
      simp [sbFrames, encode, List.map_map, Function.comp_def]
    simp only [List.flatMap_cons, List.flatten_append, ih, hw]
    simp [sbPackets, encode]

theorem sbPackets_ok (writes : List (UInt8 × Bytes)) :
    ∀ d ∈ sbPackets writes, d ≠ [] ∧ d.length + 4 < 65536 := by
  intro d hd
  simp only [sbPackets, List.mem_flatMap, List.mem_map] at hd
  obtain ⟨w, _, c, hc, rfl⟩ := hd
  obtain ⟨_, b2⟩ := sbChunks_bounds _ _ c hc
  have k : Gen.PktLine.sbChunk = 65515 := rfl
  exact ⟨by simp, by simp only [List.length_cons]; omega⟩

theorem sidebandDemux_packets (writes : List (UInt8 × Bytes)) :
    sidebandDemux (sbPackets writes) = some (sbPairs writes) := by
  induction writes with
  | nil => simp [sbPackets, sbPairs, sidebandDemux]
  | cons w ws ih =>
    simp only [sbPackets, sbPairs, List.flatMap_cons] at ih ⊢
    rw [sidebandDemux_map, ih]
    rfl

theorem sbPairs_channel (ch a : UInt8) (cs : List Bytes) :
    (((cs.map (fun c => (a, c))).filter (fun x => x.1 = ch)).map (·.2)) = if a = ch then cs else [] := by
  induction cs with
  | nil => simp
  | cons c cs ih =>
    by_cases h : a = ch
    · simp only [h, if_true] at ih ⊢
      simp [ih]
    · simp only [h, if_false] at ih ⊢
      simp [h, ih]

end Dulwich.PktLine
