/-
  Helper lemmas for C12 (tree operations).  Core Lean only.
  Sections: order facts on names/paths; listings (lookup, sortedness, extensionality); canonical sort;
  tree ↔ listing (insert / flatten); change lists (patch semantics, permutation invariance).
-/
import DulwichModel.Model.TreeOps

namespace Dulwich.TreeOps
open Dulwich

/-! ### order facts (bytewise order on names, component-wise order on paths) -/

theorem name_lt_irrefl (a : Name) : ¬ a < a := Std.lt_irrefl
theorem name_lt_trans {a b c : Name} (h1 : a < b) (h2 : b < c) : a < c := Std.lt_trans h1 h2
theorem name_lt_asymm {a b : Name} (h : a < b) : ¬ b < a := fun h2 => name_lt_irrefl a (name_lt_trans h h2)
theorem name_tri (a b : Name) : a < b ∨ a = b ∨ b < a := Std.lt_trichotomy a b

theorem path_lt_irrefl (a : Path) : ¬ a < a := Std.lt_irrefl
theorem path_lt_trans {a b c : Path} (h1 : a < b) (h2 : b < c) : a < c := Std.lt_trans h1 h2
theorem path_lt_asymm {a b : Path} (h : a < b) : ¬ b < a := fun h2 => path_lt_irrefl a (path_lt_trans h h2)
theorem path_tri (a b : Path) : a < b ∨ a = b ∨ b < a := Std.lt_trichotomy a b

theorem path_cons_lt_cons {n m : Name} {p q : Path} : n :: p < m :: q ↔ n < m ∨ n = m ∧ p < q :=
  List.cons_lt_cons_iff

/-! ### listings -/

/-- the entry a listing holds at a path (first match) -/
def lookupL (l : List Entry) (p : Path) : Option Entry := l.find? (fun e => e.path = p)

/-- strictly increasing paths -/
def SortedL (l : List Entry) : Prop := l.Pairwise (fun a b => a.path < b.path)

@[simp] theorem lookupL_nil (p : Path) : lookupL [] p = none := rfl

theorem lookupL_cons (e : Entry) (l : List Entry) (p : Path) :
    lookupL (e :: l) p = if e.path = p then some e else lookupL l p := by
  simp only [lookupL, List.find?_cons]
  by_cases h : e.path = p <;> simp [h]

theorem lookupL_some_path {l : List Entry} {p : Path} {e : Entry} (h : lookupL l p = some e) : e.path = p := by
  have := List.find?_some h
  simpa using this

theorem lookupL_some_mem {l : List Entry} {p : Path} {e : Entry} (h : lookupL l p = some e) : e ∈ l :=
  List.mem_of_find?_eq_some h

theorem lookupL_eq_none {l : List Entry} {p : Path} : lookupL l p = none ↔ ∀ e ∈ l, e.path ≠ p := by
  simp [lookupL, List.find?_eq_none]

theorem lookupL_append (l1 l2 : List Entry) (p : Path) :
    lookupL (l1 ++ l2) p = (lookupL l1 p).or (lookupL l2 p) := by
  simp [lookupL, List.find?_append]

/-- in a sorted listing every member is found at its own path -/
theorem lookupL_of_mem {l : List Entry} (hs : SortedL l) {e : Entry} (he : e ∈ l) : lookupL l e.path = some e := by
  induction l with
  | nil => cases he
  | cons x xs ih =>
    rw [lookupL_cons]
    rcases List.mem_cons.mp he with rfl | hmem
    · simp
    · have hx : x.path < e.path := (List.pairwise_cons.mp hs).1 e hmem
      have : x.path ≠ e.path := fun h => path_lt_irrefl e.path (h ▸ hx)
      simp [this, ih (List.pairwise_cons.mp hs).2 hmem]

theorem lookupL_filter (f : Path → Bool) (l : List Entry) (p : Path) :
    lookupL (l.filter (fun e => f e.path)) p = if f p then lookupL l p else none := by
  induction l with
  | nil => simp
  | cons x xs ih =>
    by_cases hx : f x.path
    · rw [List.filter_cons_of_pos (by simpa using hx), lookupL_cons, lookupL_cons, ih]
      by_cases hp : x.path = p
      · subst hp; simp [hx]
      · simp [hp]
    · rw [List.filter_cons_of_neg (by simpa using hx), lookupL_cons, ih]
      by_cases hp : x.path = p
      · subst hp; simp [hx]
      · simp [hp]

theorem SortedL.filter {l : List Entry} (h : SortedL l) (f : Entry → Bool) : SortedL (l.filter f) :=
  List.Pairwise.filter f h

theorem SortedL.nodup_paths {l : List Entry} (h : SortedL l) : (l.map (·.path)).Nodup := by
  unfold SortedL at h
  rw [List.Nodup, List.pairwise_map]
  exact h.imp (fun {a b} (hab : a.path < b.path) (heq : a.path = b.path) =>
    path_lt_irrefl b.path (by rw [heq] at hab; exact hab))

/-- two sorted listings with the same lookup function are the same list -/
theorem sorted_ext {l1 l2 : List Entry} (h1 : SortedL l1) (h2 : SortedL l2)
    (h : ∀ p, lookupL l1 p = lookupL l2 p) : l1 = l2 := by
  induction l1 generalizing l2 with
  | nil =>
    cases l2 with
    | nil => rfl
    | cons y ys => have := h y.path; simp [lookupL_cons] at this
  | cons x xs ih =>
    cases l2 with
    | nil => have := h x.path; simp [lookupL_cons] at this
    | cons y ys =>
      have hx := List.pairwise_cons.mp h1
      have hy := List.pairwise_cons.mp h2
      have hpath : x.path = y.path := by
        rcases path_tri x.path y.path with hlt | heq | hgt
        · exfalso
          have := h x.path
          rw [lookupL_cons, lookupL_cons] at this
          simp only [if_true] at this
          have hne : y.path ≠ x.path := fun e => path_lt_irrefl _ (e ▸ hlt)
          simp only [hne, if_false] at this
          have hm := lookupL_some_mem this.symm
          have hp := lookupL_some_path this.symm
          have := hy.1 x hm
          exact path_lt_asymm hlt this
        · exact heq
        · exfalso
          have := h y.path
          rw [lookupL_cons, lookupL_cons] at this
          have hne : x.path ≠ y.path := fun e => path_lt_irrefl _ (e ▸ hgt)
          simp only [hne, if_false, if_true] at this
          have hm := lookupL_some_mem this
          have := hx.1 y hm
          exact path_lt_asymm hgt this
      have hxy : x = y := by
        have := h x.path
        rw [lookupL_cons, lookupL_cons] at this
        simpa [hpath] using this
      subst hxy
      congr 1
      apply ih hx.2 hy.2
      intro p
      by_cases hp : x.path = p
      · subst hp
        rw [lookupL_eq_none.mpr (fun e he heq => path_lt_irrefl _ (heq ▸ hx.1 e he)),
            lookupL_eq_none.mpr (fun e he heq => path_lt_irrefl _ (heq ▸ hy.1 e he))]
      · have := h p
        rw [lookupL_cons, lookupL_cons] at this
        simpa [hp] using this

/-! ### insertListing / insertAll / sortListing -/

theorem mem_insertListing {e y : Entry} {l : List Entry} (h : y ∈ insertListing e l) : y = e ∨ y ∈ l := by
  induction l with
  | nil => simp [insertListing] at h; exact Or.inl h
  | cons x xs ih =>
    unfold insertListing at h
    split at h
    · rcases List.mem_cons.mp h with h | h
      · exact Or.inl h
      · exact Or.inr h
    · split at h
      · rcases List.mem_cons.mp h with h | h
        · exact Or.inl h
        · exact Or.inr (List.mem_cons_of_mem _ h)
      · rcases List.mem_cons.mp h with h | h
        · exact Or.inr (h ▸ List.mem_cons_self)
        · rcases ih h with h | h
          · exact Or.inl h
          · exact Or.inr (List.mem_cons_of_mem _ h)

theorem SortedL.insertListing {l : List Entry} (hs : SortedL l) (e : Entry) : SortedL (insertListing e l) := by
  induction l with
  | nil => simp [TreeOps.insertListing, SortedL]
  | cons x xs ih =>
    have hx := List.pairwise_cons.mp hs
    unfold TreeOps.insertListing
    split
    · rename_i hlt
      refine List.pairwise_cons.mpr ⟨?_, hs⟩
      intro y hy
      rcases List.mem_cons.mp hy with rfl | hy
      · exact hlt
      · exact path_lt_trans hlt (hx.1 y hy)
    · split
      · rename_i heq
        refine List.pairwise_cons.mpr ⟨?_, hx.2⟩
        intro y hy
        rw [heq]; exact hx.1 y hy
      · rename_i hnlt hne
        have hgt : x.path < e.path := by
          rcases path_tri e.path x.path with h | h | h
          · exact absurd h hnlt
          · exact absurd h hne
          · exact h
        refine List.pairwise_cons.mpr ⟨?_, ih hx.2⟩
        intro y hy
        rcases mem_insertListing hy with rfl | hy
        · exact hgt
        · exact hx.1 y hy

theorem lookupL_insertListing (e : Entry) (l : List Entry) (p : Path) :
    lookupL (insertListing e l) p = if p = e.path then some e else lookupL l p := by
  induction l with
  | nil =>
    simp only [insertListing, lookupL_cons, lookupL_nil]
    by_cases h : e.path = p
    · simp [h]
    · have h' : ¬ p = e.path := fun hh => h hh.symm
      simp [h, h']
  | cons x xs ih =>
    unfold insertListing
    split
    · rw [lookupL_cons]
      by_cases h : e.path = p
      · simp [h]
      · have h' : ¬ p = e.path := fun hh => h hh.symm
        simp [h, h']
    · split
      · rename_i heq
        rw [lookupL_cons, lookupL_cons]
        by_cases h : e.path = p
        · simp [h]
        · have : ¬ x.path = p := heq ▸ h
          have h' : ¬ p = e.path := fun hh => h hh.symm
          simp [h, this, h']
      · rename_i hne
        rw [lookupL_cons, lookupL_cons, ih]
        by_cases h : x.path = p
        · have : ¬ p = e.path := fun hh => hne (hh ▸ h.symm)
          simp [h, this]
        · simp [h]

theorem SortedL.insertAll {l : List Entry} (hs : SortedL l) (es : List Entry) : SortedL (insertAll es l) := by
  induction es generalizing l with
  | nil => exact hs
  | cons e es ih => exact ih (hs.insertListing e)

/-- the last entry of `es` at path `p`, if any -/
def lastAt (es : List Entry) (p : Path) : Option Entry := es.reverse.find? (fun e => e.path = p)

theorem lastAt_cons (e : Entry) (es : List Entry) (p : Path) :
    lastAt (e :: es) p = (lastAt es p).or (if e.path = p then some e else none) := by
  simp only [lastAt, List.reverse_cons, List.find?_append, List.find?_cons, List.find?_nil]
  by_cases h : e.path = p <;> simp [h]

theorem lookupL_insertAll (es l : List Entry) (p : Path) :
    lookupL (insertAll es l) p = (lastAt es p).or (lookupL l p) := by
  induction es generalizing l with
  | nil => simp [insertAll, lastAt]
  | cons e es ih =>
    show lookupL (insertAll es (insertListing e l)) p = _
    rw [ih, lookupL_insertListing, lastAt_cons]
    cases hl : lastAt es p with
    | some v => simp
    | none =>
      by_cases h : e.path = p
      · simp [h]
      · have : ¬ p = e.path := fun hh => h hh.symm
        simp [h, this]

theorem sortedL_sortListing (es : List Entry) : SortedL (sortListing es) :=
  SortedL.insertAll (l := []) List.Pairwise.nil es

theorem lookupL_sortListing (es : List Entry) (p : Path) : lookupL (sortListing es) p = lastAt es p := by
  simp [sortListing, lookupL_insertAll]

/-- with distinct paths, "last at p" is "the member at p" -/
theorem lastAt_eq_some_iff {es : List Entry} (hnd : (es.map (·.path)).Nodup) {p : Path} {e : Entry} :
    lastAt es p = some e ↔ e ∈ es ∧ e.path = p := by
  constructor
  · intro h
    have h1 := List.mem_of_find?_eq_some h
    have h2 := List.find?_some h
    exact ⟨by simpa using h1, by simpa using h2⟩
  · rintro ⟨hm, hp⟩
    induction es with
    | nil => cases hm
    | cons x xs ih =>
      rw [lastAt_cons]
      have hnd' := List.nodup_cons.mp hnd
      rcases List.mem_cons.mp hm with rfl | hm
      · have : lastAt xs p = none := by
          unfold lastAt
          rw [List.find?_eq_none]
          intro y hy
          have hy' : y ∈ xs := by simpa using hy
          intro hyp
          apply hnd'.1
          have : y.path = e.path := by simpa [hp] using hyp
          have hmem : y.path ∈ xs.map (·.path) := List.mem_map_of_mem hy'
          rw [this] at hmem
          exact hmem
        simp [this, hp]
      · simp [ih hnd'.2 hm]

theorem lastAt_perm {es es' : List Entry} (hp : es.Perm es') (hnd : (es.map (·.path)).Nodup) (p : Path) :
    lastAt es p = lastAt es' p := by
  have hnd' : (es'.map (·.path)).Nodup := (hp.map _).nodup_iff.mp hnd
  cases h : lastAt es p with
  | some e =>
    have := (lastAt_eq_some_iff hnd).mp h
    exact ((lastAt_eq_some_iff hnd').mpr ⟨hp.mem_iff.mp this.1, this.2⟩).symm
  | none =>
    cases h' : lastAt es' p with
    | none => rfl
    | some e =>
      have := (lastAt_eq_some_iff hnd').mp h'
      have := (lastAt_eq_some_iff hnd).mpr ⟨hp.mem_iff.mpr this.1, this.2⟩
      rw [h] at this; cases this

/-! ### canonical (git) order of serialised entries -/

theorem bytes_le_total (a b : Bytes) : ¬ a < b ∨ ¬ b < a := by
  by_cases h : a < b
  · exact Or.inr (fun h2 => (Std.lt_irrefl (a := a)) (Std.lt_trans h h2))
  · exact Or.inl h

def CanonSorted (l : List TEntry) : Prop := l.Pairwise (fun a b => ¬ keyEntry b < keyEntry a)

theorem mem_insertCanon {x y : TEntry} {l : List TEntry} (h : y ∈ insertCanon x l) : y = x ∨ y ∈ l := by
  induction l with
  | nil => simp [insertCanon] at h; exact Or.inl h
  | cons z zs ih =>
    unfold insertCanon at h
    split at h
    · rcases List.mem_cons.mp h with h | h
      · exact Or.inl h
      · exact Or.inr h
    · rcases List.mem_cons.mp h with h | h
      · exact Or.inr (h ▸ List.mem_cons_self)
      · rcases ih h with h | h
        · exact Or.inl h
        · exact Or.inr (List.mem_cons_of_mem _ h)

theorem bytes_not_lt_trans {a b c : Bytes} (h1 : ¬ b < a) (h2 : ¬ c < b) : ¬ c < a := by
  intro h
  rcases Std.lt_trichotomy a b with hab | hab | hab
  · exact h2 (Std.lt_trans h hab)
  · subst hab; exact h2 h
  · exact h1 hab

theorem canonSorted_insertCanon {l : List TEntry} (hs : CanonSorted l) (x : TEntry) : CanonSorted (insertCanon x l) := by
  induction l with
  | nil => simp [insertCanon, CanonSorted]
  | cons z zs ih =>
    have hz := List.pairwise_cons.mp hs
    unfold insertCanon
    split
    · rename_i hle
      have hle' : ¬ keyEntry z < keyEntry x := by simpa [keyLe] using hle
      refine List.pairwise_cons.mpr ⟨?_, hs⟩
      intro y hy
      rcases List.mem_cons.mp hy with rfl | hy
      · exact hle'
      · exact bytes_not_lt_trans hle' (hz.1 y hy)
    · rename_i hnle
      have hlt : keyEntry z < keyEntry x := by simpa [keyLe] using hnle
      refine List.pairwise_cons.mpr ⟨?_, ih hz.2⟩
      intro y hy
      rcases mem_insertCanon hy with rfl | hy
      · exact fun h => (Std.lt_irrefl (a := keyEntry y)) (Std.lt_trans h hlt)
      · exact hz.1 y hy

theorem canonSorted_sortCanon (l : List TEntry) : CanonSorted (sortCanon l) := by
  induction l with
  | nil => exact List.Pairwise.nil
  | cons x xs ih => exact canonSorted_insertCanon ih x

theorem perm_insertCanon (x : TEntry) (l : List TEntry) : (insertCanon x l).Perm (x :: l) := by
  induction l with
  | nil => simp [insertCanon]
  | cons z zs ih =>
    unfold insertCanon
    split
    · exact List.Perm.refl _
    · exact (List.Perm.cons z ih).trans (List.Perm.swap x z zs)

theorem perm_sortCanon (l : List TEntry) : (sortCanon l).Perm l := by
  induction l with
  | nil => exact List.Perm.refl _
  | cons x xs ih => exact (perm_insertCanon x _).trans (List.Perm.cons x ih)

/-! ### trees and listings: insert / flatten -/

theorem flatten_mkPath (l : Leaf) (rest : Tree) (n : Name) (p : Path) :
    (mkPath l rest n p).flatten = ⟨n :: p, l.mode, l.id⟩ :: rest.flatten := by
  induction p generalizing n rest with
  | nil => simp [mkPath, Tree.flatten]
  | cons m q ih => simp [mkPath, Tree.flatten, ih, Entry.under]

theorem lookupL_map_under_nil (n : Name) (l : List Entry) : lookupL (l.map (Entry.under n)) [] = none := by
  rw [lookupL_eq_none]
  intro e he
  rcases List.mem_map.mp he with ⟨e', _, rfl⟩
  simp [Entry.under]

theorem lookupL_map_under_cons (n m : Name) (l : List Entry) (q : Path) :
    lookupL (l.map (Entry.under n)) (m :: q) = if m = n then (lookupL l q).map (Entry.under n) else none := by
  induction l with
  | nil => simp
  | cons x xs ih =>
    rw [List.map_cons, lookupL_cons, lookupL_cons, ih]
    by_cases hm : m = n
    · subst hm
      by_cases hx : x.path = q
      · simp [Entry.under, hx]
      · simp [Entry.under, hx]
    · have : ¬ (Entry.under n x).path = m :: q := by
        simp [Entry.under]; intro h; exact absurd h.symm hm
      simp [hm, this]

theorem lookupL_flatten_insert {t t' : Tree} {l : Leaf} {p : Path} (h : t.insert l p = some t') (q : Path) :
    lookupL t'.flatten q = if q = p then some ⟨p, l.mode, l.id⟩ else lookupL t.flatten q := by
  induction t generalizing p t' q with
  | nil =>
    cases p with
    | nil => simp [Tree.insert] at h
    | cons n p' =>
      simp only [Tree.insert, Option.some.injEq] at h
      subst h
      rw [flatten_mkPath, lookupL_cons]
      by_cases hq : n :: p' = q
      · simp [hq]
      · have : ¬ q = n :: p' := fun hh => hq hh.symm
        simp [hq, this, Tree.flatten]
  | file m lf r ihr =>
    cases p with
    | nil => simp [Tree.insert] at h
    | cons n p' =>
      simp only [Tree.insert] at h
      split at h
      · simp only [Option.some.injEq] at h
        subst h
        rw [flatten_mkPath, lookupL_cons]
        by_cases hq : n :: p' = q
        · simp [hq]
        · have : ¬ q = n :: p' := fun hh => hq hh.symm
          simp [hq, this]
      · split at h
        · rename_i hnm
          split at h
          · rename_i hp'
            simp only [Option.some.injEq] at h
            subst h; subst hp'; subst hnm
            simp only [Tree.flatten, lookupL_cons]
            by_cases hq : [n] = q
            · simp [hq]
            · have : ¬ q = [n] := fun hh => hq hh.symm
              simp [hq, this]
          · cases h
        · rename_i hnlt hne
          cases hr : r.insert l (n :: p') with
          | none => simp [hr] at h
          | some r' =>
            simp only [hr, Option.map_some, Option.some.injEq] at h
            subst h
            simp only [Tree.flatten, lookupL_cons, ihr hr]
            by_cases hq : [m] = q
            · have : ¬ q = n :: p' := by
                rw [← hq]; intro hh; injection hh with h1 h2; exact hne h1.symm
              simp [hq, this]
            · simp [hq]
  | dir m cs r ihc ihr =>
    cases p with
    | nil => simp [Tree.insert] at h
    | cons n p' =>
      simp only [Tree.insert] at h
      split at h
      · simp only [Option.some.injEq] at h
        subst h
        rw [flatten_mkPath, lookupL_cons]
        by_cases hq : n :: p' = q
        · simp [hq]
        · have : ¬ q = n :: p' := fun hh => hq hh.symm
          simp [hq, this]
      · split at h
        · rename_i hnm
          split at h
          · cases h
          · rename_i hp'
            cases hc : cs.insert l p' with
            | none => simp [hc] at h
            | some cs' =>
              simp only [hc, Option.map_some, Option.some.injEq] at h
              subst h; subst hnm
              simp only [Tree.flatten, lookupL_append]
              cases q with
              | nil => simp [lookupL_map_under_nil]
              | cons k q' =>
                rw [lookupL_map_under_cons, lookupL_map_under_cons, ihc hc]
                by_cases hk : k = n
                · subst hk
                  by_cases hq' : q' = p'
                  · subst hq'; simp [Entry.under]
                  · simp [hq']
                · have : ¬ (k :: q' = n :: p') := by
                    intro hh; injection hh with h1 h2; exact hk h1
                  simp [hk, this]
        · rename_i hnlt hne
          cases hr : r.insert l (n :: p') with
          | none => simp [hr] at h
          | some r' =>
            simp only [hr, Option.map_some, Option.some.injEq] at h
            subst h
            simp only [Tree.flatten, lookupL_append, ihr hr]
            by_cases hq : q = n :: p'
            · subst hq
              rw [lookupL_map_under_cons]
              simp [hne]
            · simp [hq]

/-! ### well-formedness is preserved by insert; flatten of a well-formed tree is sorted -/

theorem allGt_trans {k n : Name} {t : Tree} (h : t.allGt n = true) (hk : k < n) : t.allGt k = true := by
  induction t with
  | nil => rfl
  | file m lf r ih =>
    simp only [Tree.allGt, Bool.and_eq_true, decide_eq_true_eq] at h ⊢
    exact ⟨name_lt_trans hk h.1, ih h.2⟩
  | dir m cs r _ ih =>
    simp only [Tree.allGt, Bool.and_eq_true, decide_eq_true_eq] at h ⊢
    exact ⟨name_lt_trans hk h.1, ih h.2⟩

theorem mkPath_allGt {k n : Name} {l : Leaf} {rest : Tree} {p : Path} (hk : k < n) (hrest : rest.allGt k = true) :
    (mkPath l rest n p).allGt k = true := by
  cases p <;> simp [mkPath, Tree.allGt, hk, hrest]

theorem mkPath_isNil (l : Leaf) (rest : Tree) (n : Name) (p : Path) : (mkPath l rest n p).isNil = false := by
  cases p <;> rfl

theorem mkPath_WF {l : Leaf} {rest : Tree} {n : Name} {p : Path} (hl : isDirMode l.mode = false)
    (hgt : rest.allGt n = true) (hwf : rest.WF = true) : (mkPath l rest n p).WF = true := by
  induction p generalizing n rest with
  | nil => simp [mkPath, Tree.WF, hl, hgt, hwf]
  | cons m q ih =>
    have := ih (n := m) (rest := .nil) rfl rfl
    simp [mkPath, Tree.WF, hgt, hwf, this, mkPath_isNil]

theorem insert_isNil {t t' : Tree} {l : Leaf} {p : Path} (h : t.insert l p = some t') : t'.isNil = false := by
  cases t with
  | nil =>
    cases p with
    | nil => simp [Tree.insert] at h
    | cons n p' => simp only [Tree.insert, Option.some.injEq] at h; subst h; exact mkPath_isNil ..
  | file m lf r =>
    cases p with
    | nil => simp [Tree.insert] at h
    | cons n p' =>
      simp only [Tree.insert] at h
      split at h
      · simp only [Option.some.injEq] at h; subst h; exact mkPath_isNil ..
      · split at h
        · split at h
          · simp only [Option.some.injEq] at h; subst h; rfl
          · cases h
        · cases hr : r.insert l (n :: p') with
          | none => simp [hr] at h
          | some r' => simp only [hr, Option.map_some, Option.some.injEq] at h; subst h; rfl
  | dir m cs r =>
    cases p with
    | nil => simp [Tree.insert] at h
    | cons n p' =>
      simp only [Tree.insert] at h
      split at h
      · simp only [Option.some.injEq] at h; subst h; exact mkPath_isNil ..
      · split at h
        · split at h
          · cases h
          · cases hc : cs.insert l p' with
            | none => simp [hc] at h
            | some cs' => simp only [hc, Option.map_some, Option.some.injEq] at h; subst h; rfl
        · cases hr : r.insert l (n :: p') with
          | none => simp [hr] at h
          | some r' => simp only [hr, Option.map_some, Option.some.injEq] at h; subst h; rfl

theorem insert_allGt {t t' : Tree} {l : Leaf} {n k : Name} {p : Path} (h : t.insert l (n :: p) = some t')
    (hk : k < n) (hgt : t.allGt k = true) : t'.allGt k = true := by
  induction t generalizing t' with
  | nil =>
    simp only [Tree.insert, Option.some.injEq] at h; subst h
    exact mkPath_allGt hk rfl
  | file m lf r ihr =>
    simp only [Tree.insert] at h
    split at h
    · simp only [Option.some.injEq] at h; subst h
      exact mkPath_allGt hk hgt
    · split at h
      · split at h
        · simp only [Option.some.injEq] at h; subst h
          simpa [Tree.allGt] using hgt
        · cases h
      · cases hr : r.insert l (n :: p) with
        | none => simp [hr] at h
        | some r' =>
          simp only [hr, Option.map_some, Option.some.injEq] at h; subst h
          simp only [Tree.allGt, Bool.and_eq_true, decide_eq_true_eq] at hgt ⊢
          exact ⟨hgt.1, ihr hr hgt.2⟩
  | dir m cs r _ ihr =>
    simp only [Tree.insert] at h
    split at h
    · simp only [Option.some.injEq] at h; subst h
      exact mkPath_allGt hk hgt
    · split at h
      · split at h
        · cases h
        · cases hc : cs.insert l p with
          | none => simp [hc] at h
          | some cs' =>
            simp only [hc, Option.map_some, Option.some.injEq] at h; subst h
            simpa [Tree.allGt] using hgt
      · cases hr : r.insert l (n :: p) with
        | none => simp [hr] at h
        | some r' =>
          simp only [hr, Option.map_some, Option.some.injEq] at h; subst h
          simp only [Tree.allGt, Bool.and_eq_true, decide_eq_true_eq] at hgt ⊢
          exact ⟨hgt.1, ihr hr hgt.2⟩

theorem insert_WF {t t' : Tree} {l : Leaf} {p : Path} (hwf : t.WF = true) (hl : isDirMode l.mode = false)
    (h : t.insert l p = some t') : t'.WF = true := by
  induction t generalizing p t' with
  | nil =>
    cases p with
    | nil => simp [Tree.insert] at h
    | cons n p' =>
      simp only [Tree.insert, Option.some.injEq] at h; subst h
      exact mkPath_WF hl rfl rfl
  | file m lf r ihr =>
    cases p with
    | nil => simp [Tree.insert] at h
    | cons n p' =>
      simp only [Tree.WF, Bool.and_eq_true, Bool.not_eq_true'] at hwf
      simp only [Tree.insert] at h
      split at h
      · rename_i hlt
        simp only [Option.some.injEq] at h; subst h
        refine mkPath_WF hl ?_ ?_
        · simp [Tree.allGt, hlt, allGt_trans hwf.1.2 hlt]
        · simp [Tree.WF, hwf.1.1, hwf.1.2, hwf.2]
      · split at h
        · split at h
          · simp only [Option.some.injEq] at h; subst h
            simp [Tree.WF, hl, hwf.1.2, hwf.2]
          · cases h
        · rename_i hnlt hne
          have hmn : m < n := by
            rcases name_tri n m with h1 | h1 | h1
            · exact absurd h1 hnlt
            · exact absurd h1 hne
            · exact h1
          cases hr : r.insert l (n :: p') with
          | none => simp [hr] at h
          | some r' =>
            simp only [hr, Option.map_some, Option.some.injEq] at h; subst h
            simp [Tree.WF, hwf.1.1, insert_allGt hr hmn hwf.1.2, ihr hwf.2 hr]
  | dir m cs r ihc ihr =>
    cases p with
    | nil => simp [Tree.insert] at h
    | cons n p' =>
      simp only [Tree.WF, Bool.and_eq_true, Bool.not_eq_true'] at hwf
      simp only [Tree.insert] at h
      split at h
      · rename_i hlt
        simp only [Option.some.injEq] at h; subst h
        refine mkPath_WF hl ?_ ?_
        · simp [Tree.allGt, hlt, allGt_trans hwf.1.2 hlt]
        · simp [Tree.WF, hwf.1.1.1, hwf.1.1.2, hwf.1.2, hwf.2]
      · split at h
        · split at h
          · cases h
          · cases hc : cs.insert l p' with
            | none => simp [hc] at h
            | some cs' =>
              simp only [hc, Option.map_some, Option.some.injEq] at h; subst h
              simp [Tree.WF, insert_isNil hc, ihc hwf.1.1.2 hc, hwf.1.2, hwf.2]
        · rename_i hnlt hne
          have hmn : m < n := by
            rcases name_tri n m with h1 | h1 | h1
            · exact absurd h1 hnlt
            · exact absurd h1 hne
            · exact h1
          cases hr : r.insert l (n :: p') with
          | none => simp [hr] at h
          | some r' =>
            simp only [hr, Option.map_some, Option.some.injEq] at h; subst h
            simp [Tree.WF, hwf.1.1.1, hwf.1.1.2, insert_allGt hr hmn hwf.1.2, ihr hwf.2 hr]

theorem allGt_flatten {t : Tree} {n : Name} (h : t.allGt n = true) :
    ∀ e ∈ t.flatten, ∃ m q, e.path = m :: q ∧ n < m := by
  induction t with
  | nil => intro e he; cases he
  | file m lf r ih =>
    simp only [Tree.allGt, Bool.and_eq_true, decide_eq_true_eq] at h
    intro e he
    simp only [Tree.flatten, List.mem_cons] at he
    rcases he with rfl | he
    · exact ⟨m, [], rfl, h.1⟩
    · exact ih h.2 e he
  | dir m cs r _ ih =>
    simp only [Tree.allGt, Bool.and_eq_true, decide_eq_true_eq] at h
    intro e he
    simp only [Tree.flatten, List.mem_append, List.mem_map] at he
    rcases he with ⟨e', _, rfl⟩ | he
    · exact ⟨m, e'.path, rfl, h.1⟩
    · exact ih h.2 e he

theorem flatten_sorted {t : Tree} (h : t.WF = true) : SortedL t.flatten := by
  induction t with
  | nil => exact List.Pairwise.nil
  | file m lf r ih =>
    simp only [Tree.WF, Bool.and_eq_true] at h
    simp only [Tree.flatten]
    refine List.pairwise_cons.mpr ⟨?_, ih h.2⟩
    intro e he
    rcases allGt_flatten h.1.2 e he with ⟨k, q, hp, hk⟩
    rw [hp]
    exact path_cons_lt_cons.mpr (Or.inl hk)
  | dir m cs r ihc ihr =>
    simp only [Tree.WF, Bool.and_eq_true] at h
    simp only [Tree.flatten]
    refine List.pairwise_append.mpr ⟨?_, ihr h.2, ?_⟩
    · rw [List.pairwise_map]
      exact (ihc h.1.1.2).imp (fun {a b} hab => path_cons_lt_cons.mpr (Or.inr ⟨rfl, hab⟩))
    · intro a ha b hb
      rcases List.mem_map.mp ha with ⟨a', _, rfl⟩
      rcases allGt_flatten h.1.2 b hb with ⟨k, q, hp, hk⟩
      rw [hp]
      exact path_cons_lt_cons.mpr (Or.inl hk)

/-- on well-formed trees `Tree.insert` is insertion into the sorted flat listing -/
theorem flatten_insert {t t' : Tree} {l : Leaf} {p : Path} (hwf : t.WF = true) (hl : isDirMode l.mode = false)
    (h : t.insert l p = some t') : t'.flatten = insertListing ⟨p, l.mode, l.id⟩ t.flatten := by
  apply sorted_ext (flatten_sorted (insert_WF hwf hl h)) ((flatten_sorted hwf).insertListing _)
  intro q
  rw [lookupL_flatten_insert h, lookupL_insertListing]

theorem buildFrom_flatten {t0 t : Tree} {L : List Entry} (hwf : t0.WF = true)
    (hL : ∀ e ∈ L, isDirMode e.mode = false) (h : buildFrom t0 L = some t) :
    t.WF = true ∧ t.flatten = insertAll L t0.flatten := by
  induction L generalizing t0 with
  | nil => simp only [buildFrom, Option.some.injEq] at h; subst h; exact ⟨hwf, rfl⟩
  | cons e es ih =>
    simp only [buildFrom] at h
    cases h1 : insertEntry t0 e with
    | none => simp [h1] at h
    | some t1 =>
      simp only [h1] at h
      have hl := hL e List.mem_cons_self
      have hwf1 := insert_WF (l := ⟨e.mode, e.id⟩) hwf hl h1
      have := ih hwf1 (fun x hx => hL x (List.mem_cons_of_mem _ hx)) h
      refine ⟨this.1, ?_⟩
      rw [this.2, flatten_insert (l := ⟨e.mode, e.id⟩) hwf hl h1]
      rfl

/-! ### conflicts, valid listings, success of commitTree -/

/-- one path is a proper directory prefix of the other (file/directory conflict) -/
def conflictB (p q : Path) : Bool := (p.isPrefixOf q || q.isPrefixOf p) && p != q

def noConflicts : List Entry → Bool
  | [] => true
  | e :: es => es.all (fun x => !conflictB e.path x.path) && noConflicts es

/-- component-level validity of a listing entry (implied by `validEntry`) -/
def okEntry (e : Entry) : Bool := e.path != [] && !isDirMode e.mode

/-- `ValidListing`: non-empty paths, no directory modes, no path a proper directory-prefix of another -/
def validListing (L : List Entry) : Bool := L.all okEntry && noConflicts L

theorem validEntry_ok {e : Entry} (h : validEntry e = true) : okEntry e = true := by
  simp only [validEntry, Bool.and_eq_true] at h
  simp [okEntry, h.1.1, h.2]

theorem conflictB_cons_cons (n : Name) (p q : Path) : conflictB (n :: p) (n :: q) = conflictB p q := by
  have : (n :: p != n :: q) = (p != q) := by
    by_cases h : p = q
    · subst h; simp
    · have : ¬ (n :: p = n :: q) := fun hh => h (List.cons.inj hh).2
      simp [bne]
  simp only [conflictB, List.isPrefixOf, this, beq_self_eq_true, Bool.true_and]

theorem conflictB_cons_ne {n m : Name} (h : n ≠ m) (p q : Path) : conflictB (n :: p) (m :: q) = false := by
  have h' : m ≠ n := fun e => h e.symm
  simp [conflictB, List.isPrefixOf, h, h']

theorem flatten_path_ne_nil {t : Tree} : ∀ e ∈ t.flatten, e.path ≠ [] := by
  induction t with
  | nil => intro e he; cases he
  | file m lf r ih =>
    intro e he
    simp only [Tree.flatten, List.mem_cons] at he
    rcases he with rfl | he
    · simp
    · exact ih e he
  | dir m cs r _ ih =>
    intro e he
    simp only [Tree.flatten, List.mem_append, List.mem_map] at he
    rcases he with ⟨e', _, rfl⟩ | he
    · simp [Entry.under]
    · exact ih e he

theorem flatten_ne_nil {t : Tree} (hwf : t.WF = true) (hn : t.isNil = false) : ∃ e, e ∈ t.flatten := by
  induction t with
  | nil => cases hn
  | file m lf r _ => exact ⟨_, List.mem_cons_self⟩
  | dir m cs r ihc _ =>
    simp only [Tree.WF, Bool.and_eq_true, Bool.not_eq_true'] at hwf
    rcases ihc hwf.1.1.2 hwf.1.1.1 with ⟨e, he⟩
    exact ⟨Entry.under m e, by simp only [Tree.flatten]; exact List.mem_append_left _ (List.mem_map_of_mem he)⟩

/-- `Tree.insert` fails only on the empty path or on a file/directory conflict with an entry already present -/
theorem insert_none {t : Tree} {l : Leaf} {p : Path} (hwf : t.WF = true) (h : t.insert l p = none) :
    p = [] ∨ ∃ e ∈ t.flatten, conflictB e.path p = true := by
  induction t generalizing p with
  | nil =>
    cases p with
    | nil => exact Or.inl rfl
    | cons n p' => simp [Tree.insert] at h
  | file m lf r ihr =>
    cases p with
    | nil => exact Or.inl rfl
    | cons n p' =>
      right
      simp only [Tree.WF, Bool.and_eq_true] at hwf
      simp only [Tree.insert] at h
      split at h
      · cases h
      · split at h
        · rename_i hnm
          split at h
          · cases h
          · rename_i hp'
            refine ⟨⟨[m], lf.mode, lf.id⟩, by simp [Tree.flatten], ?_⟩
            subst hnm
            cases p' with
            | nil => exact absurd rfl hp'
            | cons k q => simp [conflictB, List.isPrefixOf]
        · have hr : r.insert l (n :: p') = none := by
            cases hr : r.insert l (n :: p') with
            | none => rfl
            | some r' => simp [hr] at h
          rcases ihr hwf.2 hr with h0 | ⟨e, he, hc⟩
          · cases h0
          · exact ⟨e, by simp only [Tree.flatten]; exact List.mem_cons_of_mem _ he, hc⟩
  | dir m cs r ihc ihr =>
    cases p with
    | nil => exact Or.inl rfl
    | cons n p' =>
      right
      simp only [Tree.WF, Bool.and_eq_true, Bool.not_eq_true'] at hwf
      simp only [Tree.insert] at h
      split at h
      · cases h
      · split at h
        · rename_i hnm
          subst hnm
          split at h
          · rename_i hp'
            subst hp'
            rcases flatten_ne_nil hwf.1.1.2 hwf.1.1.1 with ⟨e', he'⟩
            refine ⟨Entry.under n e', by simp only [Tree.flatten]; exact List.mem_append_left _ (List.mem_map_of_mem he'), ?_⟩
            have := flatten_path_ne_nil e' he'
            cases hq : e'.path with
            | nil => exact absurd hq this
            | cons k q => simp [conflictB, List.isPrefixOf, Entry.under, hq]
          · rename_i hp'
            have hc : cs.insert l p' = none := by
              cases hc : cs.insert l p' with
              | none => rfl
              | some c' => simp [hc] at h
            rcases ihc hwf.1.1.2 hc with h0 | ⟨e', he', hcf⟩
            · exact absurd h0 hp'
            · refine ⟨Entry.under n e', by simp only [Tree.flatten]; exact List.mem_append_left _ (List.mem_map_of_mem he'), ?_⟩
              simpa [Entry.under, conflictB_cons_cons] using hcf
        · have hr : r.insert l (n :: p') = none := by
            cases hr : r.insert l (n :: p') with
            | none => rfl
            | some r' => simp [hr] at h
          rcases ihr hwf.2 hr with h0 | ⟨e, he, hc⟩
          · cases h0
          · exact ⟨e, by simp only [Tree.flatten]; exact List.mem_append_right _ he, hc⟩

theorem buildFrom_succeeds {t0 : Tree} {L : List Entry} (hwf : t0.WF = true) (hv : validListing L = true)
    (hinv : ∀ e ∈ t0.flatten, ∀ x ∈ L, conflictB e.path x.path = false) : ∃ t, buildFrom t0 L = some t := by
  induction L generalizing t0 with
  | nil => exact ⟨t0, rfl⟩
  | cons e es ih =>
    simp only [validListing, List.all_cons, noConflicts, Bool.and_eq_true] at hv
    obtain ⟨⟨hok, hoks⟩, hnc, hncs⟩ := hv
    simp only [okEntry, Bool.and_eq_true, bne_iff_ne, ne_eq, Bool.not_eq_true'] at hok
    cases h1 : insertEntry t0 e with
    | none =>
      exfalso
      rcases insert_none hwf h1 with h0 | ⟨x, hx, hc⟩
      · exact hok.1 h0
      · rw [hinv x hx e List.mem_cons_self] at hc; cases hc
    | some t1 =>
      have hwf1 := insert_WF (l := ⟨e.mode, e.id⟩) hwf hok.2 h1
      have hfl := flatten_insert (l := ⟨e.mode, e.id⟩) hwf hok.2 h1
      have : ∃ t, buildFrom t1 es = some t := by
        apply ih hwf1
        · simp [validListing, hoks, hncs]
        · intro y hy x hx
          rw [hfl] at hy
          rcases mem_insertListing hy with rfl | hy
          · have := List.all_eq_true.mp hnc x hx
            simpa using this
          · exact hinv y hy x (List.mem_cons_of_mem _ hx)
      rcases this with ⟨t, ht⟩
      exact ⟨t, by simp [buildFrom, h1, ht]⟩

/-! ### the flat listing of a well-formed tree is a valid listing; flatten is injective -/

theorem flatten_noConflicts {t : Tree} (hwf : t.WF = true) :
    t.flatten.Pairwise (fun a b => conflictB a.path b.path = false) := by
  induction t with
  | nil => exact List.Pairwise.nil
  | file m lf r ih =>
    simp only [Tree.WF, Bool.and_eq_true] at hwf
    simp only [Tree.flatten]
    refine List.pairwise_cons.mpr ⟨?_, ih hwf.2⟩
    intro e he
    rcases allGt_flatten hwf.1.2 e he with ⟨k, q, hp, hk⟩
    rw [hp]
    exact conflictB_cons_ne (fun h => name_lt_irrefl _ (h ▸ hk)) _ _
  | dir m cs r ihc ihr =>
    simp only [Tree.WF, Bool.and_eq_true] at hwf
    simp only [Tree.flatten]
    refine List.pairwise_append.mpr ⟨?_, ihr hwf.2, ?_⟩
    · rw [List.pairwise_map]
      exact (ihc hwf.1.1.2).imp (fun {a b} hab => by simpa [Entry.under, conflictB_cons_cons] using hab)
    · intro a ha b hb
      rcases List.mem_map.mp ha with ⟨a', _, rfl⟩
      rcases allGt_flatten hwf.1.2 b hb with ⟨k, q, hp, hk⟩
      rw [hp]
      exact conflictB_cons_ne (fun h => name_lt_irrefl _ (h ▸ hk)) _ _

theorem noConflicts_of_pairwise {L : List Entry} (h : L.Pairwise (fun a b => conflictB a.path b.path = false)) :
    noConflicts L = true := by
  induction L with
  | nil => rfl
  | cons e es ih =>
    have := List.pairwise_cons.mp h
    simp only [noConflicts, Bool.and_eq_true, List.all_eq_true, Bool.not_eq_true']
    exact ⟨fun x hx => this.1 x hx, ih this.2⟩

theorem flatten_modes_ok {t : Tree} (hwf : t.WF = true) : ∀ e ∈ t.flatten, isDirMode e.mode = false := by
  induction t with
  | nil => intro e he; cases he
  | file m lf r ih =>
    simp only [Tree.WF, Bool.and_eq_true, Bool.not_eq_true'] at hwf
    intro e he
    simp only [Tree.flatten, List.mem_cons] at he
    rcases he with rfl | he
    · exact hwf.1.1
    · exact ih hwf.2 e he
  | dir m cs r ihc ihr =>
    simp only [Tree.WF, Bool.and_eq_true] at hwf
    intro e he
    simp only [Tree.flatten, List.mem_append, List.mem_map] at he
    rcases he with ⟨e', he', rfl⟩ | he
    · exact ihc hwf.1.1.2 e' he'
    · exact ihr hwf.2 e he

theorem flatten_validListing {t : Tree} (hwf : t.WF = true) : validListing t.flatten = true := by
  simp only [validListing, Bool.and_eq_true, List.all_eq_true]
  refine ⟨?_, noConflicts_of_pairwise (flatten_noConflicts hwf)⟩
  intro e he
  simp [okEntry, flatten_path_ne_nil e he, flatten_modes_ok hwf e he]

/-- head component of a path equals `n` -/
def headIs (n : Name) (e : Entry) : Bool := e.path.head? == some n

theorem filter_headIs_under (n : Name) (l : List Entry) : (l.map (Entry.under n)).filter (headIs n) = l.map (Entry.under n) := by
  apply List.filter_eq_self.mpr
  intro e he
  rcases List.mem_map.mp he with ⟨e', _, rfl⟩
  simp [headIs, Entry.under]

theorem filter_headIs_allGt {t : Tree} {n : Name} (h : t.allGt n = true) : t.flatten.filter (headIs n) = [] := by
  apply List.filter_eq_nil_iff.mpr
  intro e he
  rcases allGt_flatten h e he with ⟨k, q, hp, hk⟩
  simp only [headIs, hp, List.head?_cons, beq_iff_eq, Option.some.injEq]
  exact fun heq => name_lt_irrefl _ (heq ▸ hk)

theorem filter_not_headIs_under (n : Name) (l : List Entry) : (l.map (Entry.under n)).filter (fun e => !headIs n e) = [] := by
  apply List.filter_eq_nil_iff.mpr
  intro e he
  rcases List.mem_map.mp he with ⟨e', _, rfl⟩
  simp [headIs, Entry.under]

theorem filter_not_headIs_allGt {t : Tree} {n : Name} (h : t.allGt n = true) :
    t.flatten.filter (fun e => !headIs n e) = t.flatten := by
  apply List.filter_eq_self.mpr
  intro e he
  rcases allGt_flatten h e he with ⟨k, q, hp, hk⟩
  simp only [headIs, hp, List.head?_cons, Bool.not_eq_true', beq_eq_false_iff_ne, ne_eq, Option.some.injEq]
  exact fun heq => name_lt_irrefl _ (heq ▸ hk)

theorem under_injective (n : Name) : Function.Injective (Entry.under n) := by
  intro a b h
  cases a; cases b
  simp only [Entry.under, Entry.mk.injEq, List.cons.injEq, true_and] at h
  simp [h.1, h.2.1, h.2.2]

theorem flatten_inj {t1 t2 : Tree} (h1 : t1.WF = true) (h2 : t2.WF = true) (h : t1.flatten = t2.flatten) : t1 = t2 := by
  induction t1 generalizing t2 with
  | nil =>
    cases t2 with
    | nil => rfl
    | file m lf r => simp [Tree.flatten] at h
    | dir m cs r =>
      simp only [Tree.WF, Bool.and_eq_true, Bool.not_eq_true'] at h2
      rcases flatten_ne_nil h2.1.1.2 h2.1.1.1 with ⟨e, he⟩
      have : Entry.under m e ∈ (Tree.dir m cs r).flatten := by
        simp only [Tree.flatten]; exact List.mem_append_left _ (List.mem_map_of_mem he)
      rw [← h] at this; cases this
  | file n lf r ihr =>
    simp only [Tree.WF, Bool.and_eq_true] at h1
    cases t2 with
    | nil => simp [Tree.flatten] at h
    | file m lf' r' =>
      simp only [Tree.WF, Bool.and_eq_true] at h2
      simp only [Tree.flatten, List.cons.injEq, Entry.mk.injEq, List.cons.injEq, and_true] at h
      obtain ⟨⟨hn, hm, hi⟩, hr⟩ := h
      have : lf = lf' := by cases lf; cases lf'; simp_all
      rw [hn, this, ihr h1.2 h2.2 hr]
    | dir m cs r' =>
      exfalso
      simp only [Tree.WF, Bool.and_eq_true, Bool.not_eq_true'] at h2
      rcases flatten_ne_nil h2.1.1.2 h2.1.1.1 with ⟨e, he⟩
      simp only [Tree.flatten] at h
      cases hcs : cs.flatten with
      | nil => rw [hcs] at he; cases he
      | cons x xs =>
        rw [hcs] at h
        simp only [List.map_cons, List.cons_append, List.cons.injEq] at h
        have hx : x ∈ cs.flatten := by rw [hcs]; exact List.mem_cons_self
        have := flatten_path_ne_nil x hx
        have h0 := h.1
        simp only [Entry.under, Entry.mk.injEq, List.cons.injEq] at h0
        exact this h0.1.2.symm
  | dir n cs r ihc ihr =>
    simp only [Tree.WF, Bool.and_eq_true, Bool.not_eq_true'] at h1
    cases t2 with
    | nil =>
      rcases flatten_ne_nil h1.1.1.2 h1.1.1.1 with ⟨e, he⟩
      have : Entry.under n e ∈ (Tree.dir n cs r).flatten := by
        simp only [Tree.flatten]; exact List.mem_append_left _ (List.mem_map_of_mem he)
      rw [h] at this; cases this
    | file m lf' r' =>
      exfalso
      rcases flatten_ne_nil h1.1.1.2 h1.1.1.1 with ⟨e, he⟩
      simp only [Tree.flatten] at h
      cases hcs : cs.flatten with
      | nil => rw [hcs] at he; cases he
      | cons x xs =>
        rw [hcs] at h
        simp only [List.map_cons, List.cons_append, List.cons.injEq] at h
        have hx : x ∈ cs.flatten := by rw [hcs]; exact List.mem_cons_self
        have := flatten_path_ne_nil x hx
        have h0 := h.1
        simp only [Entry.under, Entry.mk.injEq, List.cons.injEq] at h0
        exact this h0.1.2
    | dir m cs' r' =>
      simp only [Tree.WF, Bool.and_eq_true, Bool.not_eq_true'] at h2
      simp only [Tree.flatten] at h
      -- the names agree (look at the first entry)
      have hnm : n = m := by
        rcases flatten_ne_nil h1.1.1.2 h1.1.1.1 with ⟨e, he⟩
        rcases flatten_ne_nil h2.1.1.2 h2.1.1.1 with ⟨e', he'⟩
        cases hcs : cs.flatten with
        | nil => rw [hcs] at he; cases he
        | cons x xs =>
          cases hcs' : cs'.flatten with
          | nil => rw [hcs'] at he'; cases he'
          | cons y ys =>
            rw [hcs, hcs'] at h
            simp only [List.map_cons, List.cons_append, List.cons.injEq, Entry.under, Entry.mk.injEq] at h
            exact h.1.1.1
      subst hnm
      have hA := congrArg (List.filter (headIs n)) h
      have hB := congrArg (List.filter (fun e => !headIs n e)) h
      simp only [List.filter_append, filter_headIs_under, filter_headIs_allGt h1.1.2, filter_headIs_allGt h2.1.2,
        List.append_nil] at hA
      simp only [List.filter_append, filter_not_headIs_under, filter_not_headIs_allGt h1.1.2,
        filter_not_headIs_allGt h2.1.2, List.nil_append] at hB
      have hcs : cs.flatten = cs'.flatten := (List.map_inj_right (fun x y hxy => under_injective n hxy)).mp hA
      rw [ihc h1.1.1.2 h2.1.1.2 hcs, ihr h1.2 h2.2 hB]

/-- sorting a sorted listing changes nothing -/
theorem sortListing_of_sorted {L : List Entry} (h : SortedL L) : sortListing L = L := by
  apply sorted_ext (sortedL_sortListing L) h
  intro p
  rw [lookupL_sortListing]
  cases hl : lookupL L p with
  | some e =>
    exact (lastAt_eq_some_iff h.nodup_paths).mpr ⟨lookupL_some_mem hl, lookupL_some_path hl⟩
  | none =>
    cases hl' : lastAt L p with
    | none => rfl
    | some e =>
      have := (lastAt_eq_some_iff h.nodup_paths).mp hl'
      exact absurd this.2 (lookupL_eq_none.mp hl e this.1)

/-! ### change lists: patch semantics, permutation invariance, rename post-pass -/

def removedOf (c : Change) : List Path :=
  match c.type, c.old with
  | .delete, some o => [o.path]
  | .modify, some o => [o.path]
  | .rename, some o => [o.path]
  | _, _ => []

def addedOf (c : Change) : List Entry :=
  match c.type, c.new with
  | .add, some n => [n]
  | .modify, some n => [n]
  | .rename, some n => [n]
  | .copy, some n => [n]
  | _, _ => []

theorem removedPaths_cons (c : Change) (cs : List Change) : removedPaths (c :: cs) = removedOf c ++ removedPaths cs := by
  simp only [removedPaths, removedOf]
  split <;> simp_all

theorem addedEntries_cons (c : Change) (cs : List Change) : addedEntries (c :: cs) = addedOf c ++ addedEntries cs := by
  simp only [addedEntries, addedOf]
  split <;> simp_all

theorem removedPaths_eq (cs : List Change) : removedPaths cs = cs.flatMap removedOf := by
  induction cs with
  | nil => rfl
  | cons c cs ih => rw [removedPaths_cons, ih, List.flatMap_cons]

theorem addedEntries_eq (cs : List Change) : addedEntries cs = cs.flatMap addedOf := by
  induction cs with
  | nil => rfl
  | cons c cs ih => rw [addedEntries_cons, ih, List.flatMap_cons]

theorem removedPaths_append (a b : List Change) : removedPaths (a ++ b) = removedPaths a ++ removedPaths b := by
  simp [removedPaths_eq]

theorem addedEntries_append (a b : List Change) : addedEntries (a ++ b) = addedEntries a ++ addedEntries b := by
  simp [addedEntries_eq]

theorem removedPaths_perm {cs cs' : List Change} (h : cs.Perm cs') : (removedPaths cs).Perm (removedPaths cs') := by
  rw [removedPaths_eq, removedPaths_eq]; exact h.flatMap_right _

theorem addedEntries_perm {cs cs' : List Change} (h : cs.Perm cs') : (addedEntries cs).Perm (addedEntries cs') := by
  rw [addedEntries_eq, addedEntries_eq]; exact h.flatMap_right _

theorem lookupL_applyChanges (cs : List Change) (l : List Entry) (p : Path) :
    lookupL (applyChanges cs l) p =
      (lastAt (addedEntries cs) p).or (if (removedPaths cs).contains p then none else lookupL l p) := by
  unfold applyChanges
  rw [lookupL_insertAll, lookupL_filter (fun q => !(removedPaths cs).contains q)]
  cases h : (removedPaths cs).contains p <;> simp

theorem SortedL.applyChanges {l : List Entry} (hs : SortedL l) (cs : List Change) : SortedL (applyChanges cs l) :=
  SortedL.insertAll (hs.filter _) _

/-- the patch depends on a change list only through the multiset of removed paths and the multiset of
installed entries (when no path is installed twice) -/
theorem applyChanges_congr {cs cs' : List Change} {l : List Entry} (hs : SortedL l)
    (hr : (removedPaths cs).Perm (removedPaths cs')) (ha : (addedEntries cs).Perm (addedEntries cs'))
    (hnd : ((addedEntries cs).map (·.path)).Nodup) : applyChanges cs l = applyChanges cs' l := by
  apply sorted_ext (hs.applyChanges cs) (hs.applyChanges cs')
  intro p
  rw [lookupL_applyChanges, lookupL_applyChanges, lastAt_perm ha hnd]
  have : (removedPaths cs).contains p = (removedPaths cs').contains p := by
    rw [Bool.eq_iff_iff]
    simp only [List.contains_iff_mem]
    exact hr.mem_iff
  rw [this]

theorem renameStep_perm (cs : List Change) (pg : Pairing) :
    (removedPaths (renameStep cs pg)).Perm (removedPaths cs) ∧
    (addedEntries (renameStep cs pg)).Perm (addedEntries cs) := by
  cases pg with
  | rename o n =>
    simp only [renameStep]
    split
    · rename_i hc
      simp only [Bool.and_eq_true, List.contains_iff_mem] at hc
      have hd : (⟨.delete, some o, none⟩ : Change) ∈ cs := hc.1
      have ha : (⟨.add, none, some n⟩ : Change) ∈ cs.erase ⟨.delete, some o, none⟩ :=
        (List.mem_erase_of_ne (by intro h; cases h)).mpr hc.2
      have hperm : cs.Perm (⟨.delete, some o, none⟩ :: ⟨.add, none, some n⟩ ::
          (cs.erase ⟨.delete, some o, none⟩).erase ⟨.add, none, some n⟩) :=
        (List.perm_cons_erase hd).trans (List.Perm.cons _ (List.perm_cons_erase ha))
      constructor
      · refine List.Perm.trans ?_ (removedPaths_perm hperm).symm
        rw [removedPaths_append, removedPaths_cons, removedPaths_cons]
        simp only [removedOf, removedPaths, List.append_nil]
        exact List.perm_append_comm
      · refine List.Perm.trans ?_ (addedEntries_perm hperm).symm
        rw [addedEntries_append, addedEntries_cons, addedEntries_cons]
        simp only [addedOf, addedEntries, List.append_nil, List.nil_append]
        exact List.perm_append_comm
    · exact ⟨List.Perm.refl _, List.Perm.refl _⟩
  | copy o n =>
    simp only [renameStep]
    split
    · rename_i hc
      simp only [List.contains_iff_mem] at hc
      have hperm : cs.Perm (⟨.add, none, some n⟩ :: cs.erase ⟨.add, none, some n⟩) := List.perm_cons_erase hc
      constructor
      · refine List.Perm.trans ?_ (removedPaths_perm hperm).symm
        rw [removedPaths_append, removedPaths_cons]
        simp [removedOf, removedPaths]
      · refine List.Perm.trans ?_ (addedEntries_perm hperm).symm
        rw [addedEntries_append, addedEntries_cons]
        simp only [addedOf, addedEntries, List.append_nil]
        exact List.perm_append_comm
    · exact ⟨List.Perm.refl _, List.Perm.refl _⟩

theorem foldl_renameStep_perm (ps : List Pairing) (cs : List Change) :
    (removedPaths (ps.foldl renameStep cs)).Perm (removedPaths cs) ∧
    (addedEntries (ps.foldl renameStep cs)).Perm (addedEntries cs) := by
  induction ps generalizing cs with
  | nil => exact ⟨List.Perm.refl _, List.Perm.refl _⟩
  | cons p ps ih =>
    have h1 := renameStep_perm cs p
    have h2 := ih (renameStep cs p)
    exact ⟨h2.1.trans h1.1, h2.2.trans h1.2⟩

/-! ### _merge_entries -/

/-- value stored under a name in an association list (first match) -/
def assoc {α : Type} (xs : List (Name × α)) (n : Name) : Option α := (xs.find? (fun e => e.1 = n)).map (·.2)

def NameSorted {α : Type} (xs : List (Name × α)) : Prop := xs.Pairwise (fun a b => a.1 < b.1)

theorem assoc_cons {α : Type} (e : Name × α) (xs : List (Name × α)) (n : Name) :
    assoc (e :: xs) n = if e.1 = n then some e.2 else assoc xs n := by
  simp only [assoc, List.find?_cons]
  by_cases h : e.1 = n <;> simp [h]

theorem assoc_eq_none_of_lt {α : Type} {xs : List (Name × α)} {n : Name} (h : ∀ e ∈ xs, n < e.1) : assoc xs n = none := by
  simp only [assoc, Option.map_eq_none_iff, List.find?_eq_none]
  intro e he
  simp only [decide_eq_true_eq]
  exact fun heq => name_lt_irrefl _ (heq ▸ h e he)

theorem flatMap_congr' {α β : Type} {l : List α} {f g : α → List β} (h : ∀ a ∈ l, f a = g a) : l.flatMap f = l.flatMap g := by
  induction l with
  | nil => rfl
  | cons x xs ih =>
    rw [List.flatMap_cons, List.flatMap_cons, h x List.mem_cons_self, ih (fun a ha => h a (List.mem_cons_of_mem _ ha))]

theorem flatMap_eq_nil_of {α β : Type} {l : List α} {g : α → List β} (h : ∀ a ∈ l, g a = []) : l.flatMap g = [] := by
  simp only [List.flatMap_eq_nil_iff]; exact h

/-- right view of the merge: folding any `G` that vanishes on left-only pairs over the merged list is folding it
over the right list with the matching left entry looked up by name -/
theorem mergeAux_right {α β : Type} (G : Name → Option α → Option α → List β) :
    ∀ (fuel : Nat) (xs ys : List (Name × α)), xs.length + ys.length < fuel → NameSorted xs → NameSorted ys →
      (∀ e ∈ xs, G e.1 (some e.2) none = []) →
      (mergeAux fuel xs ys).flatMap (fun k => G k.1 k.2.1 k.2.2) = ys.flatMap (fun e => G e.1 (assoc xs e.1) (some e.2)) := by
  intro fuel
  induction fuel with
  | zero => intro xs ys h; omega
  | succ fuel ih =>
    intro xs ys hlen hx hy hG
    cases xs with
    | nil =>
      simp only [mergeAux, List.flatMap_map]
      rfl
    | cons x xs' =>
      cases ys with
      | nil =>
        simp only [mergeAux, List.flatMap_map, List.flatMap_nil]
        exact flatMap_eq_nil_of (fun e he => hG e he)
      | cons y ys' =>
        obtain ⟨n1, vx⟩ := x
        obtain ⟨n2, vy⟩ := y
        have hx' := List.pairwise_cons.mp hx
        have hy' := List.pairwise_cons.mp hy
        simp only [mergeAux]
        split
        · rename_i hlt
          rw [List.flatMap_cons, hG (n1, vx) List.mem_cons_self, List.nil_append,
            ih xs' ((n2, vy) :: ys') (by simp at hlen ⊢; omega) hx'.2 hy (fun e he => hG e (List.mem_cons_of_mem _ he))]
          apply flatMap_congr'
          intro e he
          have hne : ¬ n1 = e.1 := by
            intro heq
            rcases List.mem_cons.mp he with rfl | he'
            · exact name_lt_irrefl _ (heq ▸ hlt)
            · exact name_lt_irrefl _ (heq ▸ name_lt_trans hlt (hy'.1 e he'))
          rw [assoc_cons]; simp [hne]
        · split
          · rename_i hnlt hgt
            rw [List.flatMap_cons, List.flatMap_cons,
              ih ((n1, vx) :: xs') ys' (by simp at hlen ⊢; omega) hx hy'.2 hG]
            have : assoc ((n1, vx) :: xs') n2 = none := by
              apply assoc_eq_none_of_lt
              intro e he
              rcases List.mem_cons.mp he with rfl | he'
              · exact hgt
              · exact name_lt_trans hgt (hx'.1 e he')
            simp [this]
          · rename_i hnlt hngt
            have heq : n1 = n2 := by
              rcases name_tri n1 n2 with h | h | h
              · exact absurd h hnlt
              · exact h
              · exact absurd h hngt
            subst heq
            rw [List.flatMap_cons, List.flatMap_cons,
              ih xs' ys' (by simp at hlen ⊢; omega) hx'.2 hy'.2 (fun e he => hG e (List.mem_cons_of_mem _ he))]
            congr 1
            · simp [assoc_cons]
            · apply flatMap_congr'
              intro e he
              have hne : ¬ n1 = e.1 := fun heq => name_lt_irrefl _ (heq ▸ hy'.1 e he)
              rw [assoc_cons]; simp [hne]

theorem mergeAux_left {α β : Type} (G : Name → Option α → Option α → List β) :
    ∀ (fuel : Nat) (xs ys : List (Name × α)), xs.length + ys.length < fuel → NameSorted xs → NameSorted ys →
      (∀ e ∈ ys, G e.1 none (some e.2) = []) →
      (mergeAux fuel xs ys).flatMap (fun k => G k.1 k.2.1 k.2.2) = xs.flatMap (fun e => G e.1 (some e.2) (assoc ys e.1)) := by
  intro fuel
  induction fuel with
  | zero => intro xs ys h; omega
  | succ fuel ih =>
    intro xs ys hlen hx hy hG
    cases xs with
    | nil =>
      simp only [mergeAux, List.flatMap_map, List.flatMap_nil]
      exact flatMap_eq_nil_of (fun e he => hG e he)
    | cons x xs' =>
      cases ys with
      | nil =>
        simp only [mergeAux, List.flatMap_map]
        rfl
      | cons y ys' =>
        obtain ⟨n1, vx⟩ := x
        obtain ⟨n2, vy⟩ := y
        have hx' := List.pairwise_cons.mp hx
        have hy' := List.pairwise_cons.mp hy
        simp only [mergeAux]
        split
        · rename_i hlt
          rw [List.flatMap_cons, List.flatMap_cons,
            ih xs' ((n2, vy) :: ys') (by simp at hlen ⊢; omega) hx'.2 hy hG]
          have : assoc ((n2, vy) :: ys') n1 = none := by
            apply assoc_eq_none_of_lt
            intro e he
            rcases List.mem_cons.mp he with rfl | he'
            · exact hlt
            · exact name_lt_trans hlt (hy'.1 e he')
          simp [this]
        · split
          · rename_i hnlt hgt
            rw [List.flatMap_cons, hG (n2, vy) List.mem_cons_self, List.nil_append,
              ih ((n1, vx) :: xs') ys' (by simp at hlen ⊢; omega) hx hy'.2 (fun e he => hG e (List.mem_cons_of_mem _ he))]
            apply flatMap_congr'
            intro e he
            have hne : ¬ n2 = e.1 := by
              intro heq
              rcases List.mem_cons.mp he with rfl | he'
              · exact name_lt_irrefl _ (heq ▸ hgt)
              · exact name_lt_irrefl _ (heq ▸ name_lt_trans hgt (hx'.1 e he'))
            rw [assoc_cons]; simp [hne]
          · rename_i hnlt hngt
            have heq : n1 = n2 := by
              rcases name_tri n1 n2 with h | h | h
              · exact absurd h hnlt
              · exact h
              · exact absurd h hngt
            subst heq
            rw [List.flatMap_cons, List.flatMap_cons,
              ih xs' ys' (by simp at hlen ⊢; omega) hx'.2 hy'.2 (fun e he => hG e (List.mem_cons_of_mem _ he))]
            congr 1
            · simp [assoc_cons]
            · apply flatMap_congr'
              intro e he
              have hne : ¬ n1 = e.1 := fun heq => name_lt_irrefl _ (heq ▸ hx'.1 e he)
              rw [assoc_cons]; simp [hne]

/-! ### nodes: relative listings, children, well-formedness -/

/-- entries at or below a node, relative to the node (a leaf sits at the empty relative path) -/
def flattenN : Option Node → List Entry
  | none => []
  | some (.file l) => [⟨[], l.mode, l.id⟩]
  | some (.dir t) => t.flatten

/-- entries strictly below a node -/
def belowN : Option Node → List Entry
  | some (.dir t) => t.flatten
  | _ => []

def childOf (x : Option Node) (n : Name) : Option Node := assoc (Node.children x) n

def NodeWF : Option Node → Prop
  | none => True
  | some (.file l) => isDirMode l.mode = false
  | some (.dir t) => t.WF = true

def depthN : Option Node → Nat
  | some (.dir t) => t.depth + 1
  | _ => 0

def Entry.pre (pfx : Path) (e : Entry) : Entry := { e with path := pfx ++ e.path }

theorem belowN_eq (y : Option Node) :
    belowN y = (Node.children y).flatMap (fun e => (flattenN (some e.2)).map (Entry.under e.1)) := by
  cases y with
  | none => rfl
  | some nd =>
    cases nd with
    | file l => rfl
    | dir t =>
      simp only [belowN, Node.children]
      induction t with
      | nil => rfl
      | file m lf r ih => simp [Tree.flatten, Tree.toList, flattenN, Entry.under, ih]
      | dir m cs r _ ih => simp [Tree.flatten, Tree.toList, flattenN, ih]

theorem allGt_toList {t : Tree} {n : Name} (h : t.allGt n = true) : ∀ e ∈ t.toList, n < e.1 := by
  induction t with
  | nil => intro e he; cases he
  | file m lf r ih =>
    simp only [Tree.allGt, Bool.and_eq_true, decide_eq_true_eq] at h
    intro e he
    simp only [Tree.toList, List.mem_cons] at he
    rcases he with rfl | he
    · exact h.1
    · exact ih h.2 e he
  | dir m cs r _ ih =>
    simp only [Tree.allGt, Bool.and_eq_true, decide_eq_true_eq] at h
    intro e he
    simp only [Tree.toList, List.mem_cons] at he
    rcases he with rfl | he
    · exact h.1
    · exact ih h.2 e he

theorem toList_sorted {t : Tree} (h : t.WF = true) : NameSorted t.toList := by
  induction t with
  | nil => exact List.Pairwise.nil
  | file m lf r ih =>
    simp only [Tree.WF, Bool.and_eq_true] at h
    exact List.pairwise_cons.mpr ⟨allGt_toList h.1.2, ih h.2⟩
  | dir m cs r _ ih =>
    simp only [Tree.WF, Bool.and_eq_true] at h
    exact List.pairwise_cons.mpr ⟨allGt_toList h.1.2, ih h.2⟩

theorem toList_children {t : Tree} (h : t.WF = true) :
    ∀ e ∈ t.toList, NodeWF (some e.2) ∧ depthN (some e.2) ≤ t.depth := by
  induction t with
  | nil => intro e he; cases he
  | file m lf r ih =>
    simp only [Tree.WF, Bool.and_eq_true, Bool.not_eq_true'] at h
    intro e he
    simp only [Tree.toList, List.mem_cons] at he
    rcases he with rfl | he
    · exact ⟨h.1.1, Nat.zero_le _⟩
    · exact ⟨(ih h.2 e he).1, (ih h.2 e he).2⟩
  | dir m cs r _ ih =>
    simp only [Tree.WF, Bool.and_eq_true, Bool.not_eq_true'] at h
    intro e he
    simp only [Tree.toList, List.mem_cons] at he
    rcases he with rfl | he
    · exact ⟨h.1.1.2, by simp only [depthN, Tree.depth]; omega⟩
    · exact ⟨(ih h.2 e he).1, by have := (ih h.2 e he).2; simp only [Tree.depth]; omega⟩

theorem children_sorted {x : Option Node} (h : NodeWF x) : NameSorted (Node.children x) := by
  cases x with
  | none => exact List.Pairwise.nil
  | some nd =>
    cases nd with
    | file l => exact List.Pairwise.nil
    | dir t => exact toList_sorted h

theorem children_WF {x : Option Node} (h : NodeWF x) :
    ∀ e ∈ Node.children x, NodeWF (some e.2) ∧ depthN (some e.2) < depthN x := by
  cases x with
  | none => intro e he; cases he
  | some nd =>
    cases nd with
    | file l => intro e he; cases he
    | dir t =>
      intro e he
      have := toList_children h e he
      exact ⟨this.1, by simp only [depthN] at this ⊢; omega⟩

theorem assoc_mem {α : Type} {xs : List (Name × α)} {n : Name} {v : α} (h : assoc xs n = some v) : (n, v) ∈ xs := by
  simp only [assoc, Option.map_eq_some_iff] at h
  rcases h with ⟨e, he, rfl⟩
  have h1 := List.mem_of_find?_eq_some he
  have h2 := List.find?_some he
  simp only [decide_eq_true_eq] at h2
  rw [← h2]; exact h1

theorem childOf_WF {x : Option Node} (h : NodeWF x) (n : Name) :
    NodeWF (childOf x n) ∧ (depthN (childOf x n) < depthN x ∨ childOf x n = none) := by
  cases hc : childOf x n with
  | none => exact ⟨trivial, Or.inr rfl⟩
  | some nd =>
    have := children_WF h (n, nd) (assoc_mem hc)
    exact ⟨this.1, Or.inl this.2⟩

theorem lookupL_flatten_nil (t : Tree) : lookupL t.flatten [] = none :=
  lookupL_eq_none.mpr (fun e he => flatten_path_ne_nil e he)

theorem lookupL_flatten_cons {t : Tree} (h : t.WF = true) (n : Name) (q : Path) :
    lookupL t.flatten (n :: q) = (lookupL (flattenN (assoc t.toList n)) q).map (Entry.under n) := by
  induction t with
  | nil => rfl
  | file m lf r ih =>
    simp only [Tree.WF, Bool.and_eq_true] at h
    simp only [Tree.flatten, Tree.toList, lookupL_cons, assoc_cons]
    have hnone : m = n → lookupL r.flatten (n :: q) = none := by
      intro hmn
      apply lookupL_eq_none.mpr
      intro e he heq
      rcases allGt_flatten h.1.2 e he with ⟨k, q', hp, hk⟩
      rw [hp] at heq
      injection heq with h1 h2
      exact name_lt_irrefl _ (by rw [h1, ← hmn] at hk; exact hk)
    by_cases hmn : m = n
    · subst hmn
      by_cases hq : q = []
      · subst hq; simp [flattenN, lookupL_cons, Entry.under]
      · have h1 : ¬ ([m] = m :: q) := by intro hh; injection hh with _ h2; exact hq h2.symm
        have h2 : ¬ ([] = q) := fun hh => hq hh.symm
        simp [h1, hnone rfl, flattenN, lookupL_cons, h2]
    · have h1 : ¬ ([m] = n :: q) := by intro hh; injection hh with h1 _; exact hmn h1
      simp [h1, hmn, ih h.2]
  | dir m cs r _ ih =>
    simp only [Tree.WF, Bool.and_eq_true] at h
    simp only [Tree.flatten, Tree.toList, lookupL_append, lookupL_map_under_cons, assoc_cons]
    by_cases hmn : m = n
    · subst hmn
      have hnone : lookupL r.flatten (m :: q) = none := by
        apply lookupL_eq_none.mpr
        intro e he heq
        rcases allGt_flatten h.1.2 e he with ⟨k, q', hp, hk⟩
        rw [hp] at heq
        injection heq with h1 h2
        exact name_lt_irrefl _ (by rw [h1] at hk; exact hk)
      simp [hnone, flattenN]
    · have : ¬ n = m := fun hh => hmn hh.symm
      simp [hmn, this, ih h.2]

theorem lookupL_flattenN_cons {x : Option Node} (h : NodeWF x) (n : Name) (q : Path) :
    lookupL (flattenN x) (n :: q) = (lookupL (flattenN (childOf x n)) q).map (Entry.under n) := by
  cases x with
  | none => rfl
  | some nd =>
    cases nd with
    | file l => simp [flattenN, lookupL_cons, childOf, Node.children, assoc]
    | dir t => exact lookupL_flatten_cons h n q

theorem under_ne_iff (n : Name) (o : Option Entry) (e : Entry) :
    (o.map (Entry.under n) != some (Entry.under n e)) = (o != some e) := by
  cases o with
  | none => rfl
  | some v =>
    by_cases hv : v = e
    · subst hv; simp
    · have : ¬ Entry.under n v = Entry.under n e := fun hh => hv (under_injective n hh)
      rw [Bool.eq_iff_iff]
      simp only [Option.map_some, bne_iff_ne, ne_eq, Option.some.injEq]
      exact ⟨fun _ => hv, fun _ => this⟩

theorem pre_under (P : Path) (n : Name) (e : Entry) : Entry.pre P (Entry.under n e) = Entry.pre (P ++ [n]) e := by
  simp [Entry.pre, Entry.under]

/-- the entries of `y` strictly below the node, filtered against `x`, decompose along the children of `y` -/
theorem below_filter_decomp {x : Option Node} (hx : NodeWF x) (y : Option Node) (P : Path) :
    ((belowN y).filter (fun e => lookupL (flattenN x) e.path != some e)).map (Entry.pre P) =
    (Node.children y).flatMap (fun c =>
      ((flattenN (some c.2)).filter (fun e => lookupL (flattenN (childOf x c.1)) e.path != some e)).map (Entry.pre (P ++ [c.1]))) := by
  rw [belowN_eq, List.filter_flatMap, List.map_flatMap]
  apply flatMap_congr'
  intro c _
  rw [List.filter_map, List.map_map]
  have : (fun e => lookupL (flattenN x) e.path != some e) ∘ Entry.under c.1 =
      (fun e => lookupL (flattenN (childOf x c.1)) e.path != some e) := by
    funext e
    show (lookupL (flattenN x) (c.1 :: e.path) != some (Entry.under c.1 e)) = _
    rw [lookupL_flattenN_cons hx, under_ne_iff]
  rw [this]
  apply List.map_congr_left
  intro e _
  exact pre_under P c.1 e

theorem below_filter_decomp_paths {y : Option Node} (hy : NodeWF y) (x : Option Node) (P : Path) :
    ((belowN x).filter (fun e => lookupL (flattenN y) e.path != some e)).map (fun e => P ++ e.path) =
    (Node.children x).flatMap (fun c =>
      ((flattenN (some c.2)).filter (fun e => lookupL (flattenN (childOf y c.1)) e.path != some e)).map (fun e => (P ++ [c.1]) ++ e.path)) := by
  have := congrArg (List.map (·.path)) (below_filter_decomp hy x P)
  simp only [List.map_map, List.map_flatMap] at this
  exact this

/-! ### tree_changes: what the walk adds and removes -/

/-- the tree hash separates well-formed trees (follows from injectivity of `H` and of the serialisation; taken as an
explicit hypothesis where pruning of identical sub-trees needs it) -/
def IdInjective (H : Bytes → Id) : Prop :=
  ∀ t1 t2 : Tree, t1.WF = true → t2.WF = true → t1.id H = t2.id H → t1 = t2

/-- all proper sub-directories of a tree -/
def Tree.subtrees : Tree → List Tree
  | .nil => []
  | .file _ _ r => r.subtrees
  | .dir _ cs r => cs :: (cs.subtrees ++ r.subtrees)

/-- the directories at and below a node -/
def subtreesN : Option Node → List Tree
  | some (.dir t) => t :: t.subtrees
  | _ => []

/-- the same, only for the sub-trees actually involved: those of the left root against those of the right root -/
def IdInjectiveOn (H : Bytes → Id) (A B : List Tree) : Prop :=
  ∀ ta ∈ A, ∀ tb ∈ B, ta.WF = true → tb.WF = true → ta.id H = tb.id H → ta = tb

theorem IdInjective.on {H : Bytes → Id} (h : IdInjective H) (A B : List Tree) : IdInjectiveOn H A B :=
  fun ta _ tb _ => h ta tb

theorem subtrees_toList {t : Tree} {c : Name × Node} (hc : c ∈ t.toList) :
    ∀ s ∈ subtreesN (some c.2), s ∈ t.subtrees := by
  induction t with
  | nil => cases hc
  | file m lf r ih =>
    simp only [Tree.toList, List.mem_cons] at hc
    rcases hc with rfl | hc
    · intro s hs; cases hs
    · exact ih hc
  | dir m cs r _ ih =>
    simp only [Tree.toList, List.mem_cons] at hc
    rcases hc with rfl | hc
    · intro s hs
      simp only [subtreesN, List.mem_cons] at hs
      simp only [Tree.subtrees, List.mem_cons, List.mem_append]
      rcases hs with h | h
      · exact Or.inl h
      · exact Or.inr (Or.inl h)
    · intro s hs
      simp only [Tree.subtrees, List.mem_cons, List.mem_append]
      exact Or.inr (Or.inr (ih hc s hs))

theorem subtreesN_child {x : Option Node} {c : Name × Node} (hc : c ∈ Node.children x) :
    ∀ s ∈ subtreesN (some c.2), s ∈ subtreesN x := by
  cases x with
  | none => cases hc
  | some nd =>
    cases nd with
    | file l => cases hc
    | dir t =>
      intro s hs
      exact List.mem_cons_of_mem _ (subtrees_toList hc s hs)

theorem subtreesN_childOf {x : Option Node} (n : Name) : ∀ s ∈ subtreesN (childOf x n), s ∈ subtreesN x := by
  cases hc : childOf x n with
  | none => intro s hs; cases hs
  | some nd => exact subtreesN_child (c := (n, nd)) (assoc_mem hc)

variable (H : Bytes → Id)

/-- changes reported at and below one pair of nodes -/
def chg (f : Flags) (fuel : Nat) (P : Path) (x y : Option Node) : List Change :=
  (walk H (!f.wantUnchanged) none fuel P x y).flatMap (fun p => changesOfPair f p.1 p.2)

def specAdded (x y : Option Node) (P : Path) : List Entry :=
  ((flattenN y).filter (fun e => lookupL (flattenN x) e.path != some e)).map (Entry.pre P)

def specRemoved (x y : Option Node) (P : Path) : List Path :=
  ((flattenN x).filter (fun e => lookupL (flattenN y) e.path != some e)).map (fun e => P ++ e.path)

theorem children_of_not_dir {x : Option Node} (h : Node.isDir x = false) : Node.children x = [] := by
  cases x with
  | none => rfl
  | some nd => cases nd with
    | file l => rfl
    | dir t => cases h

theorem mergeEntries_nil_nil {α : Type} : mergeEntries ([] : List (Name × α)) [] = [] := rfl

theorem chg_succ (f : Flags) (fuel : Nat) (P : Path) (x y : Option Node) :
    chg H f (fuel + 1) P x y =
      if (!f.wantUnchanged && Node.isDir x && Node.isDir y && (x.map (nodeEntry H P) == y.map (nodeEntry H P))) then []
      else changesOfPair f (x.map (nodeEntry H P)) (y.map (nodeEntry H P)) ++
        (mergeEntries (Node.children x) (Node.children y)).flatMap (fun k => chg H f fuel (P ++ [k.1]) k.2.1 k.2.2) := by
  simp only [chg, walk]
  split
  · rfl
  · simp only [Bool.false_eq_true, if_false, List.cons_append, List.nil_append, List.flatMap_cons, List.flatMap_assoc]
    congr 1
    by_cases hd : (Node.isDir x || Node.isDir y) = true
    · simp [hd]
    · simp only [Bool.or_eq_true, not_or, Bool.not_eq_true] at hd
      simp [hd.1, hd.2, children_of_not_dir hd.1, children_of_not_dir hd.2, mergeEntries_nil_nil]

theorem addedEntries_flatMap {α : Type} (l : List α) (g : α → List Change) :
    addedEntries (l.flatMap g) = l.flatMap (fun a => addedEntries (g a)) := by
  simp only [addedEntries_eq, List.flatMap_assoc]

theorem removedPaths_flatMap {α : Type} (l : List α) (g : α → List Change) :
    removedPaths (l.flatMap g) = l.flatMap (fun a => removedPaths (g a)) := by
  simp only [removedPaths_eq, List.flatMap_assoc]

theorem isDirMode_dirMode : isDirMode dirMode = true := by decide

section pair
set_option linter.unusedSectionVars false
variable (f : Flags) (hit : f.includeTrees = false)
include hit

theorem cop_files {a b : Entry} (ha : isDirMode a.mode = false) (hb : isDirMode b.mode = false) (hne : a ≠ b) :
    addedEntries (changesOfPair f (some a) (some b)) = [b] ∧ removedPaths (changesOfPair f (some a) (some b)) = [a.path] := by
  have h1 : ((some a == some b) = false) := by simpa using hne
  simp only [changesOfPair, h1, Bool.false_and, Bool.false_eq_true, if_false, skipTree, hit, Bool.not_false,
    Bool.true_and, ha, hb]
  split
  · simp [addedEntries, removedPaths]
  · have : (a == b) = false := by simpa using hne
    simp [this, addedEntries, removedPaths]

theorem cop_same (o : Option Entry) :
    addedEntries (changesOfPair f o o) = [] ∧ removedPaths (changesOfPair f o o) = [] := by
  cases o with
  | none => simp [changesOfPair, skipTree, addedEntries, removedPaths]
  | some a =>
    by_cases ha : isDirMode a.mode = true
    · simp [changesOfPair, skipTree, hit, ha, addedEntries, removedPaths]
    · have ha' : isDirMode a.mode = false := by simpa using ha
      simp only [changesOfPair, skipTree, hit, ha', bne_self_eq_false, Bool.false_and, beq_self_eq_true, Bool.true_and,
        Bool.not_false, Bool.false_eq_true, if_false, if_true]
      split <;> simp [addedEntries, removedPaths]

theorem cop_left {a : Entry} (ha : isDirMode a.mode = false) (o : Option Entry)
    (ho : o = none ∨ ∃ b, o = some b ∧ isDirMode b.mode = true) :
    addedEntries (changesOfPair f (some a) o) = [] ∧ removedPaths (changesOfPair f (some a) o) = [a.path] := by
  rcases ho with rfl | ⟨b, rfl, hb⟩
  · simp [changesOfPair, skipTree, hit, ha, addedEntries, removedPaths]
  · have hne : a ≠ b := fun h => by rw [h, hb] at ha; cases ha
    have h1 : ((some a == some b) = false) := by simpa using hne
    simp [changesOfPair, h1, skipTree, hit, ha, hb, addedEntries, removedPaths]

theorem cop_right {b : Entry} (hb : isDirMode b.mode = false) (o : Option Entry)
    (ho : o = none ∨ ∃ a, o = some a ∧ isDirMode a.mode = true) :
    addedEntries (changesOfPair f o (some b)) = [b] ∧ removedPaths (changesOfPair f o (some b)) = [] := by
  rcases ho with rfl | ⟨a, rfl, ha⟩
  · simp [changesOfPair, skipTree, hit, hb, addedEntries, removedPaths]
  · have hne : a ≠ b := fun h => by rw [h, hb] at ha; cases ha
    have h1 : ((some a == some b) = false) := by simpa using hne
    simp [changesOfPair, h1, skipTree, hit, ha, hb, addedEntries, removedPaths]

theorem cop_dirs (o1 o2 : Option Entry) (h1 : o1 = none ∨ ∃ a, o1 = some a ∧ isDirMode a.mode = true)
    (h2 : o2 = none ∨ ∃ b, o2 = some b ∧ isDirMode b.mode = true) :
    changesOfPair f o1 o2 = [] := by
  rcases h1 with rfl | ⟨a, rfl, ha⟩ <;> rcases h2 with rfl | ⟨b, rfl, hb⟩ <;>
    simp [changesOfPair, skipTree, *]

end pair


theorem nodeEntry_dir_mode (P : Path) (t : Tree) : isDirMode (nodeEntry H P (.dir t)).mode = true := isDirMode_dirMode

theorem specAdded_none_right (x : Option Node) (P : Path) : specAdded x none P = [] := rfl
theorem specRemoved_none_left (y : Option Node) (P : Path) : specRemoved none y P = [] := rfl

/-- What `tree_changes` (no tree entries; with or without unchanged entries, with or without `change_type_same`;
the hash assumption only when identical sub-trees are pruned, i.e. `want_unchanged = False`) installs and
removes at and below a pair of nodes: exactly the entries of the right side that the left side does not hold
identically, and the paths of the entries of the left side that the right side does not hold identically. -/
theorem chg_spec (A B : List Tree) (f : Flags) (hH : f.wantUnchanged = false → IdInjectiveOn H A B)
    (hit : f.includeTrees = false) :
    ∀ (fuel : Nat) (P : Path) (x y : Option Node), NodeWF x → NodeWF y → depthN x < fuel → depthN y < fuel →
      (∀ s ∈ subtreesN x, s ∈ A) → (∀ s ∈ subtreesN y, s ∈ B) →
      addedEntries (chg H f fuel P x y) = specAdded x y P ∧ removedPaths (chg H f fuel P x y) = specRemoved x y P := by
  intro fuel
  induction fuel with
  | zero => intro P x y _ _ h; omega
  | succ fuel ih =>
    intro P x y hx hy hdx hdy hsx hsy
    -- the children, through the two views of the merge
    have kidsA : (mergeEntries (Node.children x) (Node.children y)).flatMap
          (fun k => addedEntries (chg H f fuel (P ++ [k.1]) k.2.1 k.2.2)) =
        ((belowN y).filter (fun e => lookupL (flattenN x) e.path != some e)).map (Entry.pre P) := by
      unfold mergeEntries
      rw [mergeAux_right (fun n xo yo => addedEntries (chg H f fuel (P ++ [n]) xo yo)) _ _ _ (by omega)
        (children_sorted hx) (children_sorted hy)]
      · rw [below_filter_decomp hx y P]
        apply flatMap_congr'
        intro c hc
        have hcw := children_WF hy c hc
        have hxw := childOf_WF hx c.1
        have hd : depthN (childOf x c.1) < fuel := by
          rcases hxw.2 with h | h
          · omega
          · rw [h]; simp only [depthN]; omega
        exact (ih (P ++ [c.1]) (childOf x c.1) (some c.2) hxw.1 hcw.1 hd (by omega)
          (fun s hs => hsx s (subtreesN_childOf c.1 s hs)) (fun s hs => hsy s (subtreesN_child hc s hs))).1
      · intro e he
        have hew := children_WF hx e he
        have hd : depthN (none : Option Node) < fuel := by simp only [depthN]; omega
        rw [(ih (P ++ [e.1]) (some e.2) none hew.1 trivial (by omega) hd
          (fun s hs => hsx s (subtreesN_child he s hs)) (fun s hs => by cases hs)).1]
        rfl
    have kidsR : (mergeEntries (Node.children x) (Node.children y)).flatMap
          (fun k => removedPaths (chg H f fuel (P ++ [k.1]) k.2.1 k.2.2)) =
        ((belowN x).filter (fun e => lookupL (flattenN y) e.path != some e)).map (fun e => P ++ e.path) := by
      unfold mergeEntries
      rw [mergeAux_left (fun n xo yo => removedPaths (chg H f fuel (P ++ [n]) xo yo)) _ _ _ (by omega)
        (children_sorted hx) (children_sorted hy)]
      · rw [below_filter_decomp_paths hy x P]
        apply flatMap_congr'
        intro c hc
        have hcw := children_WF hx c hc
        have hyw := childOf_WF hy c.1
        have hd : depthN (childOf y c.1) < fuel := by
          rcases hyw.2 with h | h
          · omega
          · rw [h]; simp only [depthN]; omega
        exact (ih (P ++ [c.1]) (some c.2) (childOf y c.1) hcw.1 hyw.1 (by omega) hd
          (fun s hs => hsx s (subtreesN_child hc s hs)) (fun s hs => hsy s (subtreesN_childOf c.1 s hs))).2
      · intro e he
        have hew := children_WF hy e he
        have hd : depthN (none : Option Node) < fuel := by simp only [depthN]; omega
        rw [(ih (P ++ [e.1]) none (some e.2) trivial hew.1 hd (by omega)
          (fun s hs => by cases hs) (fun s hs => hsy s (subtreesN_child he s hs))).2]
        rfl
    rw [chg_succ H f]
    cases x with
    | none =>
      cases y with
      | none =>
        have hc := cop_same f hit none
        simp only [Node.isDir, Bool.and_false, Bool.false_and, Bool.false_eq_true, if_false, Option.map_none,
          addedEntries_append, removedPaths_append, addedEntries_flatMap, removedPaths_flatMap, kidsA, kidsR, hc.1, hc.2]
        simp [specAdded, specRemoved, flattenN, belowN]
      | some ny =>
        cases ny with
        | file ly =>
          have hc := cop_right f hit (b := nodeEntry H P (.file ly)) hy none (Or.inl rfl)
          simp only [Node.isDir, Bool.and_false, Bool.false_and, Bool.false_eq_true, if_false, Option.map_none, Option.map_some,
            addedEntries_append, removedPaths_append, addedEntries_flatMap, removedPaths_flatMap, kidsA, kidsR, hc.1, hc.2]
          simp [specAdded, specRemoved, flattenN, belowN, lookupL, nodeEntry, Entry.pre]
        | dir tb =>
          have hc := cop_dirs f hit none (some (nodeEntry H P (.dir tb))) (Or.inl rfl)
            (Or.inr ⟨_, rfl, nodeEntry_dir_mode H P tb⟩)
          simp only [Node.isDir, Bool.and_false, Bool.false_and, Bool.false_eq_true, if_false, Option.map_none, Option.map_some,
            addedEntries_append, removedPaths_append, addedEntries_flatMap, removedPaths_flatMap, kidsA, kidsR, hc]
          simp [specAdded, specRemoved, flattenN, belowN, addedEntries, removedPaths]
    | some nx =>
      cases nx with
      | file lx =>
        cases y with
        | none =>
          have hc := cop_left f hit (a := nodeEntry H P (.file lx)) hx none (Or.inl rfl)
          simp only [Node.isDir, Bool.and_false, Bool.false_and, Bool.false_eq_true, if_false, Option.map_none, Option.map_some,
            addedEntries_append, removedPaths_append, addedEntries_flatMap, removedPaths_flatMap, kidsA, kidsR, hc.1, hc.2]
          simp [specAdded, specRemoved, flattenN, belowN, lookupL, nodeEntry]
        | some ny =>
          cases ny with
          | file ly =>
            by_cases hl : lx = ly
            · subst hl
              have hc := cop_same f hit (some (nodeEntry H P (.file lx)))
              simp only [Node.isDir, Bool.and_false, Bool.false_and, Bool.false_eq_true, if_false, Option.map_some,
                addedEntries_append, removedPaths_append, addedEntries_flatMap, removedPaths_flatMap,
                kidsA, kidsR, hc.1, hc.2]
              simp [specAdded, specRemoved, flattenN, belowN, lookupL]
            · have hne : nodeEntry H P (.file lx) ≠ nodeEntry H P (.file ly) := by
                intro h
                simp only [nodeEntry, Entry.mk.injEq, true_and] at h
                apply hl; cases lx; cases ly; simp_all
              have hc := cop_files f hit (a := nodeEntry H P (.file lx)) (b := nodeEntry H P (.file ly)) hx hy hne
              simp only [Node.isDir, Bool.and_false, Bool.false_and, Bool.false_eq_true, if_false, Option.map_some,
                addedEntries_append, removedPaths_append, addedEntries_flatMap, removedPaths_flatMap, kidsA, kidsR, hc.1, hc.2]
              have h1 : ¬ ((⟨[], lx.mode, lx.id⟩ : Entry) = ⟨[], ly.mode, ly.id⟩) := by
                intro h; apply hl; cases lx; cases ly; simp_all
              have h2 : ¬ ((⟨[], ly.mode, ly.id⟩ : Entry) = ⟨[], lx.mode, lx.id⟩) := fun h => h1 h.symm
              simp [specAdded, specRemoved, flattenN, belowN, lookupL, nodeEntry, Entry.pre, h1, h2]
          | dir tb =>
            have hc := cop_left f hit (a := nodeEntry H P (.file lx)) hx (some (nodeEntry H P (.dir tb)))
              (Or.inr ⟨_, rfl, nodeEntry_dir_mode H P tb⟩)
            simp only [Node.isDir, Bool.and_false, Bool.false_and, Bool.false_eq_true, if_false, Option.map_some,
              addedEntries_append, removedPaths_append, addedEntries_flatMap, removedPaths_flatMap, kidsA, kidsR, hc.1, hc.2]
            simp [specAdded, specRemoved, flattenN, belowN, lookupL_flatten_nil, nodeEntry]
      | dir ta =>
        cases y with
        | none =>
          have hc := cop_dirs f hit (some (nodeEntry H P (.dir ta))) none
            (Or.inr ⟨_, rfl, nodeEntry_dir_mode H P ta⟩) (Or.inl rfl)
          simp only [Node.isDir, Bool.and_false, Bool.false_and, Bool.false_eq_true, if_false, Option.map_none, Option.map_some,
            addedEntries_append, removedPaths_append, addedEntries_flatMap, removedPaths_flatMap, kidsA, kidsR, hc]
          simp [specAdded, specRemoved, flattenN, belowN, addedEntries, removedPaths]
        | some ny =>
          cases ny with
          | file ly =>
            have hc := cop_right f hit (b := nodeEntry H P (.file ly)) hy (some (nodeEntry H P (.dir ta)))
              (Or.inr ⟨_, rfl, nodeEntry_dir_mode H P ta⟩)
            simp only [Node.isDir, Bool.and_false, Bool.false_and, Bool.false_eq_true, if_false, Option.map_some,
              addedEntries_append, removedPaths_append, addedEntries_flatMap, removedPaths_flatMap, kidsA, kidsR, hc.1, hc.2]
            simp [specAdded, specRemoved, flattenN, belowN, lookupL_flatten_nil, nodeEntry, Entry.pre]
          | dir tb =>
            by_cases hpr : f.wantUnchanged = false ∧ ta.id H = tb.id H
            · have hEq : ta = tb :=
                hH hpr.1 ta (hsx ta (by simp [subtreesN])) tb (hsy tb (by simp [subtreesN])) hx hy hpr.2
              subst hEq
              simp only [Node.isDir, hpr.1, Bool.not_false, Bool.and_self, Option.map_some, beq_self_eq_true, if_true,
                addedEntries, removedPaths]
              have hs := flatten_sorted hx
              constructor
              · simp only [specAdded, flattenN]
                rw [List.filter_eq_nil_iff.mpr]
                · rfl
                · intro e he; simp [lookupL_of_mem hs he]
              · simp only [specRemoved, flattenN]
                rw [List.filter_eq_nil_iff.mpr]
                · rfl
                · intro e he; simp [lookupL_of_mem hs he]
            · have hcond : (!f.wantUnchanged && Node.isDir (some (Node.dir ta)) && Node.isDir (some (Node.dir tb)) &&
                  ((some (Node.dir ta)).map (nodeEntry H P) == (some (Node.dir tb)).map (nodeEntry H P))) = false := by
                cases hw : f.wantUnchanged with
                | true => simp
                | false =>
                  have hid : ¬ ta.id H = tb.id H := fun h => hpr ⟨hw, h⟩
                  simp [Node.isDir, nodeEntry, hid]
              have hc := cop_dirs f hit (some (nodeEntry H P (.dir ta))) (some (nodeEntry H P (.dir tb)))
                (Or.inr ⟨_, rfl, nodeEntry_dir_mode H P ta⟩) (Or.inr ⟨_, rfl, nodeEntry_dir_mode H P tb⟩)
              rw [hcond]
              simp only [Bool.false_eq_true, if_false, Option.map_some,
                addedEntries_append, removedPaths_append, addedEntries_flatMap, removedPaths_flatMap, kidsA, kidsR, hc]
              simp [specAdded, specRemoved, flattenN, belowN, addedEntries, removedPaths]

/-! ### from the added / removed characterisation to the patch image -/

/-- a change list that installs exactly the entries of `lb` not held identically by `la`, and removes exactly the
paths of the entries of `la` not held identically by `lb`, patches `la` into `lb` -/
theorem apply_diff {cs : List Change} {la lb : List Entry} (hsa : SortedL la) (hsb : SortedL lb)
    (hA : addedEntries cs = lb.filter (fun e => lookupL la e.path != some e))
    (hR : removedPaths cs = (la.filter (fun e => lookupL lb e.path != some e)).map (·.path)) :
    applyChanges cs la = lb := by
  apply sorted_ext (hsa.applyChanges cs) hsb
  intro p
  rw [lookupL_applyChanges, hA, hR]
  have hndA : ((lb.filter (fun e => lookupL la e.path != some e)).map (·.path)).Nodup :=
    (hsb.nodup_paths).sublist (List.filter_sublist.map _)
  cases hb : lookupL lb p with
  | none =>
    have hAn : lastAt (lb.filter (fun e => lookupL la e.path != some e)) p = none := by
      cases h : lastAt (lb.filter (fun e => lookupL la e.path != some e)) p with
      | none => rfl
      | some e =>
        have := (lastAt_eq_some_iff hndA).mp h
        exact absurd this.2 (lookupL_eq_none.mp hb e (List.mem_filter.mp this.1).1)
    rw [hAn, Option.none_or]
    cases ha : lookupL la p with
    | none => split <;> rfl
    | some ea =>
      have hmem : ea ∈ la := lookupL_some_mem ha
      have hpath : ea.path = p := lookupL_some_path ha
      have : p ∈ (la.filter (fun e => lookupL lb e.path != some e)).map (·.path) := by
        apply List.mem_map.mpr
        refine ⟨ea, List.mem_filter.mpr ⟨hmem, ?_⟩, hpath⟩
        rw [hpath, hb]; rfl
      have hc := List.contains_iff_mem.mpr this
      rw [hc]; rfl
  | some eb =>
    have hbm : eb ∈ lb := lookupL_some_mem hb
    have hbp : eb.path = p := lookupL_some_path hb
    by_cases hsame : lookupL la p = some eb
    · have hAn : lastAt (lb.filter (fun e => lookupL la e.path != some e)) p = none := by
        cases h : lastAt (lb.filter (fun e => lookupL la e.path != some e)) p with
        | none => rfl
        | some e =>
          exfalso
          have := (lastAt_eq_some_iff hndA).mp h
          have hm := List.mem_filter.mp this.1
          have heq : e = eb := by
            have h1 := lookupL_of_mem hsb hm.1
            rw [this.2, hb] at h1
            exact (Option.some.inj h1).symm
          have hc := hm.2
          rw [heq, hbp, hsame] at hc
          simp at hc
      have hRn : ((la.filter (fun e => lookupL lb e.path != some e)).map (·.path)).contains p = false := by
        rw [Bool.eq_false_iff]
        intro hc
        rcases List.mem_map.mp (List.contains_iff_mem.mp hc) with ⟨ea, hea, hpa⟩
        have hm := List.mem_filter.mp hea
        have heq : ea = eb := by
          have h1 := lookupL_of_mem hsa hm.1
          rw [hpa, hsame] at h1
          exact (Option.some.inj h1).symm
        have hc2 := hm.2
        rw [heq, hbp, hb] at hc2
        simp at hc2
      rw [hAn, hRn, Option.none_or]
      simpa using hsame
    · have : lastAt (lb.filter (fun e => lookupL la e.path != some e)) p = some eb := by
        apply (lastAt_eq_some_iff hndA).mpr
        refine ⟨List.mem_filter.mpr ⟨hbm, ?_⟩, hbp⟩
        rw [hbp]
        simpa using hsame
      rw [this]; rfl

variable (H : Bytes → Id)

theorem pre_nil (e : Entry) : Entry.pre [] e = e := by simp [Entry.pre]

/-- the full `tree_changes` result between two optional roots (default walk: pruning on, no tree entries) -/
theorem treeChanges_spec (wu cts : Bool) (a b : Option Tree)
    (hH : wu = false → IdInjectiveOn H (subtreesN (rootNode a)) (subtreesN (rootNode b)))
    (ha : NodeWF (rootNode a)) (hb : NodeWF (rootNode b)) :
    addedEntries (treeChanges H ⟨wu, false, cts⟩ none a b) =
      (flattenN (rootNode b)).filter (fun e => lookupL (flattenN (rootNode a)) e.path != some e) ∧
    removedPaths (treeChanges H ⟨wu, false, cts⟩ none a b) =
      ((flattenN (rootNode a)).filter (fun e => lookupL (flattenN (rootNode b)) e.path != some e)).map (·.path) := by
  have hda : depthN (rootNode a) < max (optDepth a) (optDepth b) + 2 := by
    cases a <;> simp only [rootNode, depthN, optDepth] <;> omega
  have hdb : depthN (rootNode b) < max (optDepth a) (optDepth b) + 2 := by
    cases b <;> simp only [rootNode, depthN, optDepth] <;> omega
  have := chg_spec H _ _ ⟨wu, false, cts⟩ hH rfl _ [] (rootNode a) (rootNode b) ha hb hda hdb
    (fun _ hs => hs) (fun _ hs => hs)
  simp only [chg, specAdded, specRemoved, List.nil_append] at this
  constructor
  · rw [treeChanges, this.1]
    have : (Entry.pre []) = id := by funext e; exact pre_nil e
    rw [this, List.map_id]
  · rw [treeChanges, this.2]

theorem treeChanges_self (f : Flags) (hwu : f.wantUnchanged = false) (a : Tree) :
    treeChanges H f none (some a) (some a) = [] := by
  simp [treeChanges, walk, hwu, rootNode, Node.isDir]

/-! ### commit_tree_changes: one installed entry -/

theorem find_none_of_allGt {t : Tree} {n : Name} (h : t.allGt n = true) : t.find n = none := by
  induction t with
  | nil => rfl
  | file m lf r ih =>
    simp only [Tree.allGt, Bool.and_eq_true, decide_eq_true_eq] at h
    have : ¬ n = m := fun e => name_lt_irrefl _ (e ▸ h.1)
    simp [Tree.find, this, ih h.2]
  | dir m cs r _ ih =>
    simp only [Tree.allGt, Bool.and_eq_true, decide_eq_true_eq] at h
    have : ¬ n = m := fun e => name_lt_irrefl _ (e ▸ h.1)
    simp [Tree.find, this, ih h.2]

theorem find_dir_WF {t : Tree} (h : t.WF = true) {n : Name} {sub : Tree} (hf : t.find n = some (.dir sub)) :
    sub.WF = true := by
  induction t with
  | nil => cases hf
  | file m lf r ih =>
    simp only [Tree.WF, Bool.and_eq_true] at h
    simp only [Tree.find] at hf
    split at hf
    · cases hf
    · exact ih h.2 hf
  | dir m cs r _ ih =>
    simp only [Tree.WF, Bool.and_eq_true] at h
    simp only [Tree.find] at hf
    split at hf
    · simp only [Option.some.injEq, Node.dir.injEq] at hf; subst hf; exact h.1.1.2
    · exact ih h.2 hf

theorem set_file_of_insert {t t1 : Tree} {l : Leaf} {n : Name} (h : t.insert l [n] = some t1) :
    t.set n (.file l) = t1 := by
  induction t generalizing t1 with
  | nil => simp only [Tree.insert, mkPath, Option.some.injEq] at h; subst h; rfl
  | file m lf r ih =>
    simp only [Tree.insert] at h
    simp only [Tree.set]
    split at h
    · rename_i hlt
      simp only [mkPath, Option.some.injEq] at h; subst h; simp [hlt]
    · rename_i hnlt
      split at h
      · rename_i heq
        simp only [if_true, Option.some.injEq] at h; subst h; subst heq; simp [hnlt]
      · rename_i hne
        cases hr : r.insert l [n] with
        | none => simp [hr] at h
        | some r1 =>
          simp only [hr, Option.map_some, Option.some.injEq] at h; subst h
          simp [hnlt, hne, ih hr]
  | dir m cs r _ ih =>
    simp only [Tree.insert] at h
    simp only [Tree.set]
    split at h
    · rename_i hlt
      simp only [mkPath, Option.some.injEq] at h; subst h; simp [hlt]
    · rename_i hnlt
      split at h
      · simp at h
      · rename_i hne
        cases hr : r.insert l [n] with
        | none => simp [hr] at h
        | some r1 =>
          simp only [hr, Option.map_some, Option.some.injEq] at h; subst h
          simp [hnlt, hne, ih hr]

theorem insert_deep {t t1 : Tree} {l : Leaf} {n m : Name} {q : Path} (hwf : t.WF = true)
    (h : t.insert l (n :: m :: q) = some t1) :
    (t.find n = none ∧ t1 = t.set n (.dir (mkPath l .nil m q))) ∨
    (∃ sub sub', t.find n = some (.dir sub) ∧ sub.insert l (m :: q) = some sub' ∧ t1 = t.set n (.dir sub')) := by
  induction t generalizing t1 with
  | nil =>
    left
    simp only [Tree.insert, mkPath, Option.some.injEq] at h; subst h
    exact ⟨rfl, rfl⟩
  | file k lf r ih =>
    simp only [Tree.WF, Bool.and_eq_true] at hwf
    simp only [Tree.insert] at h
    split at h
    · rename_i hlt
      left
      simp only [mkPath, Option.some.injEq] at h; subst h
      have hne : ¬ n = k := fun e => name_lt_irrefl _ (e ▸ hlt)
      refine ⟨?_, by simp [Tree.set, hlt]⟩
      simp [Tree.find, hne, find_none_of_allGt (allGt_trans hwf.1.2 hlt)]
    · rename_i hnlt
      split at h
      · simp at h
      · rename_i hne
        cases hr : r.insert l (n :: m :: q) with
        | none => simp [hr] at h
        | some r1 =>
          simp only [hr, Option.map_some, Option.some.injEq] at h; subst h
          rcases ih hwf.2 hr with ⟨hf, hs⟩ | ⟨sub, sub', hf, hi, hs⟩
          · left; exact ⟨by simp [Tree.find, hne, hf], by simp [Tree.set, hnlt, hne, hs]⟩
          · right; exact ⟨sub, sub', by simp [Tree.find, hne, hf], hi, by simp [Tree.set, hnlt, hne, hs]⟩
  | dir k cs r _ ih =>
    simp only [Tree.WF, Bool.and_eq_true] at hwf
    simp only [Tree.insert] at h
    split at h
    · rename_i hlt
      left
      simp only [mkPath, Option.some.injEq] at h; subst h
      have hne : ¬ n = k := fun e => name_lt_irrefl _ (e ▸ hlt)
      refine ⟨?_, by simp [Tree.set, hlt]⟩
      simp [Tree.find, hne, find_none_of_allGt (allGt_trans hwf.1.2 hlt)]
    · rename_i hnlt
      split at h
      · rename_i heq
        subst heq
        right
        simp only [reduceCtorEq, if_false] at h
        cases hc : cs.insert l (m :: q) with
        | none => simp [hc] at h
        | some cs' =>
          simp only [hc, Option.map_some, Option.some.injEq] at h; subst h
          exact ⟨cs, cs', by simp [Tree.find], hc, by simp [Tree.set, hnlt]⟩
      · rename_i hne
        cases hr : r.insert l (n :: m :: q) with
        | none => simp [hr] at h
        | some r1 =>
          simp only [hr, Option.map_some, Option.some.injEq] at h; subst h
          rcases ih hwf.2 hr with ⟨hf, hs⟩ | ⟨sub, sub', hf, hi, hs⟩
          · left; exact ⟨by simp [Tree.find, hne, hf], by simp [Tree.set, hnlt, hne, hs]⟩
          · right; exact ⟨sub, sub', by simp [Tree.find, hne, hf], hi, by simp [Tree.set, hnlt, hne, hs]⟩

/-- installing one entry with commit_tree_changes is `Tree.insert` (whenever that does not hit a file/directory
conflict) -/
theorem ctcAux_single_set (l : Leaf) :
    ∀ (fuel : Nat) (p : Path) (t t1 : Tree), p.length < fuel → t.WF = true → t.insert l p = some t1 →
      ctcAux fuel t [(p, some l)] = .ok t1 := by
  intro fuel
  induction fuel with
  | zero => intro p t t1 h; omega
  | succ fuel ih =>
    intro p t t1 hlen hwf hins
    cases p with
    | nil => simp [Tree.insert] at hins
    | cons n p' =>
      cases p' with
      | nil =>
        simp [ctcAux, ctcDirect, ctcSets, set_file_of_insert hins]
      | cons m q =>
        have hlen' : (m :: q).length < fuel := by simp at hlen ⊢; omega
        rcases insert_deep hwf hins with ⟨hf, hs⟩ | ⟨sub, sub', hf, hi, hs⟩
        · have := ih (m :: q) .nil (mkPath l .nil m q) hlen' rfl (by simp [Tree.insert])
          simp [ctcAux, ctcDirect, ctcGroup, ctcOrig, ctcSets, groupAdd, hf, this, mkPath_isNil, hs]
        · have := ih (m :: q) sub sub' hlen' (find_dir_WF hwf hf) hi
          simp [ctcAux, ctcDirect, ctcGroup, ctcOrig, ctcSets, groupAdd, hf, this, insert_isNil hi, hs]

/-! ### commit_tree_changes: one removed entry (with pruning of emptied directories) -/

theorem lookupL_none_of_allGt {t : Tree} {n : Name} (h : t.allGt n = true) (q : Path) :
    lookupL t.flatten (n :: q) = none := by
  apply lookupL_eq_none.mpr
  intro e he heq
  rcases allGt_flatten h e he with ⟨k, q', hp, hk⟩
  rw [hp] at heq
  injection heq with h1 _
  exact name_lt_irrefl _ (by rw [h1] at hk; exact hk)

theorem del_allGt {t t' : Tree} {n k : Name} (h : t.del n = some t') (hgt : t.allGt k = true) : t'.allGt k = true := by
  induction t generalizing t' with
  | nil => cases h
  | file m lf r ih =>
    simp only [Tree.allGt, Bool.and_eq_true, decide_eq_true_eq] at hgt
    simp only [Tree.del] at h
    split at h
    · simp only [Option.some.injEq] at h; subst h; exact hgt.2
    · cases hr : r.del n with
      | none => simp [hr] at h
      | some r' =>
        simp only [hr, Option.map_some, Option.some.injEq] at h; subst h
        simp [Tree.allGt, hgt.1, ih hr hgt.2]
  | dir m cs r _ ih =>
    simp only [Tree.allGt, Bool.and_eq_true, decide_eq_true_eq] at hgt
    simp only [Tree.del] at h
    split at h
    · simp only [Option.some.injEq] at h; subst h; exact hgt.2
    · cases hr : r.del n with
      | none => simp [hr] at h
      | some r' =>
        simp only [hr, Option.map_some, Option.some.injEq] at h; subst h
        simp [Tree.allGt, hgt.1, ih hr hgt.2]

theorem del_WF {t t' : Tree} {n : Name} (hwf : t.WF = true) (h : t.del n = some t') : t'.WF = true := by
  induction t generalizing t' with
  | nil => cases h
  | file m lf r ih =>
    simp only [Tree.WF, Bool.and_eq_true] at hwf
    simp only [Tree.del] at h
    split at h
    · simp only [Option.some.injEq] at h; subst h; exact hwf.2
    · cases hr : r.del n with
      | none => simp [hr] at h
      | some r' =>
        simp only [hr, Option.map_some, Option.some.injEq] at h; subst h
        simp [Tree.WF, hwf.1.1, del_allGt hr hwf.1.2, ih hwf.2 hr]
  | dir m cs r _ ih =>
    simp only [Tree.WF, Bool.and_eq_true] at hwf
    simp only [Tree.del] at h
    split at h
    · simp only [Option.some.injEq] at h; subst h; exact hwf.2
    · cases hr : r.del n with
      | none => simp [hr] at h
      | some r' =>
        simp only [hr, Option.map_some, Option.some.injEq] at h; subst h
        simp [Tree.WF, hwf.1.1.1, hwf.1.1.2, del_allGt hr hwf.1.2, ih hwf.2 hr]

theorem del_of_find {t : Tree} {n : Name} {nd : Node} (h : t.find n = some nd) : ∃ t', t.del n = some t' := by
  induction t with
  | nil => cases h
  | file m lf r ih =>
    simp only [Tree.find] at h
    simp only [Tree.del]
    split
    · exact ⟨r, rfl⟩
    · rename_i hne
      simp only [hne, if_false] at h
      rcases ih h with ⟨r', hr'⟩
      exact ⟨_, by rw [hr']; rfl⟩
  | dir m cs r _ ih =>
    simp only [Tree.find] at h
    simp only [Tree.del]
    split
    · exact ⟨r, rfl⟩
    · rename_i hne
      simp only [hne, if_false] at h
      rcases ih h with ⟨r', hr'⟩
      exact ⟨_, by rw [hr']; rfl⟩

theorem lookupL_del {t t' : Tree} {n : Name} (hwf : t.WF = true) (h : t.del n = some t') (k : Name) (q : Path) :
    lookupL t'.flatten (k :: q) = if k = n then none else lookupL t.flatten (k :: q) := by
  induction t generalizing t' with
  | nil => cases h
  | file m lf r ih =>
    simp only [Tree.WF, Bool.and_eq_true] at hwf
    simp only [Tree.del] at h
    split at h
    · rename_i hnm
      simp only [Option.some.injEq] at h; subst h; subst hnm
      by_cases hk : k = n
      · subst hk; simp [lookupL_none_of_allGt hwf.1.2]
      · have : ¬ ([n] = k :: q) := by intro hh; injection hh with h1 _; exact hk h1.symm
        simp [hk, Tree.flatten, lookupL_cons, this]
    · rename_i hnm
      cases hr : r.del n with
      | none => simp [hr] at h
      | some r' =>
        simp only [hr, Option.map_some, Option.some.injEq] at h; subst h
        simp only [Tree.flatten, lookupL_cons, ih hwf.2 hr]
        by_cases hmk : [m] = k :: q
        · have : ¬ k = n := by
            intro hh; injection hmk with h1 _; exact hnm (hh ▸ h1 ▸ rfl)
          simp [hmk, this]
        · simp [hmk]
  | dir m cs r _ ih =>
    simp only [Tree.WF, Bool.and_eq_true] at hwf
    simp only [Tree.del] at h
    split at h
    · rename_i hnm
      simp only [Option.some.injEq] at h; subst h; subst hnm
      by_cases hk : k = n
      · subst hk; simp [lookupL_none_of_allGt hwf.1.2]
      · simp [hk, Tree.flatten, lookupL_append, lookupL_map_under_cons]
    · rename_i hnm
      cases hr : r.del n with
      | none => simp [hr] at h
      | some r' =>
        simp only [hr, Option.map_some, Option.some.injEq] at h; subst h
        simp only [Tree.flatten, lookupL_append, lookupL_map_under_cons, ih hwf.2 hr]
        by_cases hk : k = n
        · subst hk
          have : ¬ k = m := fun hh => hnm hh
          simp [this]
        · simp [hk]

theorem set_allGt {t : Tree} {n k : Name} (nd : Node) (hk : k < n) (hgt : t.allGt k = true) :
    (t.set n nd).allGt k = true := by
  induction t with
  | nil => cases nd <;> simp [Tree.set, Tree.allGt, hk]
  | file m lf r ih =>
    simp only [Tree.allGt, Bool.and_eq_true, decide_eq_true_eq] at hgt
    simp only [Tree.set]
    split
    · cases nd <;> simp [Tree.allGt, hk, hgt.1, hgt.2]
    · split
      · cases nd <;> simp [Tree.allGt, hk, hgt.2]
      · simp [Tree.allGt, hgt.1, ih hgt.2]
  | dir m cs r _ ih =>
    simp only [Tree.allGt, Bool.and_eq_true, decide_eq_true_eq] at hgt
    simp only [Tree.set]
    split
    · cases nd <;> simp [Tree.allGt, hk, hgt.1, hgt.2]
    · split
      · cases nd <;> simp [Tree.allGt, hk, hgt.2]
      · simp [Tree.allGt, hgt.1, ih hgt.2]

theorem set_dir_WF {t s : Tree} {n : Name} (hwf : t.WF = true) (hs : s.WF = true) (hn : s.isNil = false) :
    (t.set n (.dir s)).WF = true := by
  induction t with
  | nil => simp [Tree.set, Tree.WF, hs, hn, Tree.allGt]
  | file m lf r ih =>
    simp only [Tree.WF, Bool.and_eq_true] at hwf
    simp only [Tree.set]
    split
    · rename_i hlt
      simp [Tree.WF, hs, hn, Tree.allGt, hlt, allGt_trans hwf.1.2 hlt, hwf.1.1, hwf.1.2, hwf.2]
    · rename_i hnlt
      split
      · rename_i heq
        subst heq
        simp [Tree.WF, hs, hn, hwf.1.2, hwf.2]
      · rename_i hne
        have hmn : m < n := by
          rcases name_tri n m with h1 | h1 | h1
          · exact absurd h1 hnlt
          · exact absurd h1 hne
          · exact h1
        simp [Tree.WF, hwf.1.1, set_allGt _ hmn hwf.1.2, ih hwf.2]
  | dir m cs r _ ih =>
    simp only [Tree.WF, Bool.and_eq_true] at hwf
    simp only [Tree.set]
    split
    · rename_i hlt
      simp [Tree.WF, hs, hn, Tree.allGt, hlt, allGt_trans hwf.1.2 hlt, hwf.1.1.1, hwf.1.1.2, hwf.1.2, hwf.2]
    · rename_i hnlt
      split
      · rename_i heq
        subst heq
        simp [Tree.WF, hs, hn, hwf.1.2, hwf.2]
      · rename_i hne
        have hmn : m < n := by
          rcases name_tri n m with h1 | h1 | h1
          · exact absurd h1 hnlt
          · exact absurd h1 hne
          · exact h1
        simp [Tree.WF, hwf.1.1.1, hwf.1.1.2, set_allGt _ hmn hwf.1.2, ih hwf.2]

theorem lookupL_set_dir {t s : Tree} {n : Name} (hwf : t.WF = true) (k : Name) (q : Path) :
    lookupL (t.set n (.dir s)).flatten (k :: q) =
      if k = n then (lookupL s.flatten q).map (Entry.under n) else lookupL t.flatten (k :: q) := by
  induction t with
  | nil =>
    simp only [Tree.set, Tree.flatten, List.append_nil, lookupL_map_under_cons]
    by_cases hk : k = n <;> simp [hk]
  | file m lf r ih =>
    simp only [Tree.WF, Bool.and_eq_true] at hwf
    simp only [Tree.set]
    split
    · rename_i hlt
      simp only [Tree.flatten, lookupL_append, lookupL_map_under_cons]
      by_cases hk : k = n
      · subst hk
        have h1 : ¬ ([m] = k :: q) := by
          intro hh; injection hh with h1 _; exact name_lt_irrefl _ (h1 ▸ hlt)
        simp [lookupL_cons, h1, lookupL_none_of_allGt (allGt_trans hwf.1.2 hlt)]
      · simp [hk]
    · rename_i hnlt
      split
      · rename_i heq
        subst heq
        simp only [Tree.flatten, lookupL_append, lookupL_map_under_cons, lookupL_cons]
        by_cases hk : k = n
        · subst hk; simp [lookupL_none_of_allGt hwf.1.2]
        · have h1 : ¬ ([n] = k :: q) := by intro hh; injection hh with h1 _; exact hk h1.symm
          simp [hk, h1]
      · rename_i hne
        simp only [Tree.flatten, lookupL_cons, ih hwf.2]
        by_cases hmk : [m] = k :: q
        · have : ¬ k = n := by
            intro hh; injection hmk with h1 _; exact hne (hh ▸ h1 ▸ rfl)
          simp [hmk, this]
        · simp [hmk]
  | dir m cs r _ ih =>
    simp only [Tree.WF, Bool.and_eq_true] at hwf
    simp only [Tree.set]
    split
    · rename_i hlt
      simp only [Tree.flatten, lookupL_append, lookupL_map_under_cons]
      by_cases hk : k = n
      · subst hk
        have h1 : ¬ k = m := fun hh => name_lt_irrefl _ (hh ▸ hlt)
        simp [h1, lookupL_none_of_allGt (allGt_trans hwf.1.2 hlt)]
      · simp [hk]
    · rename_i hnlt
      split
      · rename_i heq
        subst heq
        simp only [Tree.flatten, lookupL_append, lookupL_map_under_cons]
        by_cases hk : k = n
        · subst hk; simp [lookupL_none_of_allGt hwf.1.2]
        · simp [hk]
      · rename_i hne
        simp only [Tree.flatten, lookupL_append, lookupL_map_under_cons, ih hwf.2]
        by_cases hk : k = n
        · subst hk
          have : ¬ k = m := hne
          simp [this]
        · simp [hk]

theorem assoc_toList (t : Tree) (n : Name) : assoc t.toList n = t.find n := by
  induction t with
  | nil => rfl
  | file m lf r ih =>
    simp only [Tree.toList, assoc_cons, Tree.find, ih]
    by_cases h : m = n
    · simp [h]
    · have : ¬ n = m := fun hh => h hh.symm
      simp [h, this]
  | dir m cs r _ ih =>
    simp only [Tree.toList, assoc_cons, Tree.find, ih]
    by_cases h : m = n
    · simp [h]
    · have : ¬ n = m := fun hh => h hh.symm
      simp [h, this]

theorem lookupL_flatten_find {t : Tree} (h : t.WF = true) (n : Name) (q : Path) :
    lookupL t.flatten (n :: q) = (lookupL (flattenN (t.find n)) q).map (Entry.under n) := by
  rw [lookupL_flatten_cons h, assoc_toList]

theorem ne_bne_path (a b : Path) : (a != b) = true ↔ a ≠ b := by simp

/-- removing one existing entry with commit_tree_changes removes exactly that entry from the flat listing (emptied
directories are pruned, so the result is again well-formed) -/
theorem ctcAux_single_del :
    ∀ (fuel : Nat) (p : Path) (t : Tree) (e : Entry), p.length < fuel → t.WF = true → lookupL t.flatten p = some e →
      ∃ t', ctcAux fuel t [(p, none)] = .ok t' ∧ t'.WF = true ∧
        t'.flatten = t.flatten.filter (fun x => x.path != p) := by
  intro fuel
  induction fuel with
  | zero => intro p t e h; omega
  | succ fuel ih =>
    intro p t e hlen hwf hlk
    cases p with
    | nil => rw [lookupL_flatten_nil] at hlk; cases hlk
    | cons n p' =>
      cases p' with
      | nil =>
        -- a leaf directly in this tree
        have hfind : ∃ l, t.find n = some (.file l) := by
          rw [lookupL_flatten_find hwf] at hlk
          cases hf : t.find n with
          | none => rw [hf] at hlk; cases hlk
          | some nd =>
            cases nd with
            | file l => exact ⟨l, rfl⟩
            | dir s => rw [hf] at hlk; simp [flattenN, lookupL_flatten_nil] at hlk
        rcases hfind with ⟨l, hf⟩
        rcases del_of_find hf with ⟨t', hdel⟩
        refine ⟨t', by simp [ctcAux, ctcDirect, ctcSets, hdel], del_WF hwf hdel, ?_⟩
        apply sorted_ext (flatten_sorted (del_WF hwf hdel)) ((flatten_sorted hwf).filter _)
        intro x
        rw [lookupL_filter (fun q => q != [n])]
        cases x with
        | nil => simp [lookupL_flatten_nil]
        | cons k q =>
          rw [lookupL_del hwf hdel]
          by_cases hk : k = n
          · subst hk
            by_cases hq : q = []
            · subst hq; simp
            · have : lookupL t.flatten (k :: q) = none := by
                rw [lookupL_flatten_find hwf, hf]
                have : ¬ ([] = q) := fun hh => hq hh.symm
                simp [flattenN, lookupL_cons, this]
              simp [this]
          · have : (k :: q != [n]) = true := by
              rw [ne_bne_path]; intro hh; injection hh with h1 _; exact hk h1
            simp [hk, this]
      | cons m q =>
        have hfind : ∃ sub e', t.find n = some (.dir sub) ∧ lookupL sub.flatten (m :: q) = some e' := by
          rw [lookupL_flatten_find hwf] at hlk
          cases hf : t.find n with
          | none => rw [hf] at hlk; cases hlk
          | some nd =>
            cases nd with
            | file l => rw [hf] at hlk; simp [flattenN, lookupL_cons] at hlk
            | dir s =>
              rw [hf] at hlk
              simp only [flattenN, Option.map_eq_some_iff] at hlk
              rcases hlk with ⟨e', he', _⟩
              exact ⟨s, e', rfl, he'⟩
        rcases hfind with ⟨sub, e', hf, hsub⟩
        have hlen' : (m :: q).length < fuel := by simp at hlen ⊢; omega
        have hsubwf := find_dir_WF hwf hf
        rcases ih (m :: q) sub e' hlen' hsubwf hsub with ⟨sub', hctc, hwf', hfl'⟩
        have hlk_sub' : ∀ q0, lookupL sub'.flatten q0 = if (q0 != m :: q) then lookupL sub.flatten q0 else none := by
          intro q0; rw [hfl', lookupL_filter (fun z => z != m :: q)]
        by_cases hnil : sub'.isNil = true
        · rcases del_of_find hf with ⟨t', hdel⟩
          refine ⟨t', by simp [ctcAux, ctcDirect, ctcGroup, ctcOrig, ctcSets, groupAdd, hf, hctc, hnil, hdel], del_WF hwf hdel, ?_⟩
          apply sorted_ext (flatten_sorted (del_WF hwf hdel)) ((flatten_sorted hwf).filter _)
          intro x
          rw [lookupL_filter (fun z => z != n :: m :: q)]
          cases x with
          | nil => simp [lookupL_flatten_nil]
          | cons k q0 =>
            rw [lookupL_del hwf hdel]
            by_cases hk : k = n
            · subst hk
              have hsn : sub' = .nil := by cases sub' <;> simp_all [Tree.isNil]
              by_cases hq0 : q0 = m :: q
              · subst hq0; simp
              · have h1 := hlk_sub' q0
                have hne : (q0 != m :: q) = true := by rw [ne_bne_path]; exact hq0
                rw [hsn, hne] at h1
                simp only [Tree.flatten, lookupL_nil, if_true] at h1
                have : lookupL t.flatten (k :: q0) = none := by
                  rw [lookupL_flatten_find hwf, hf]; simp [flattenN, ← h1]
                simp [this]
            · have : (k :: q0 != n :: m :: q) = true := by
                rw [ne_bne_path]; intro hh; injection hh with h1 _; exact hk h1
              simp [hk, this]
        · have hnil' : sub'.isNil = false := by simpa using hnil
          refine ⟨t.set n (.dir sub'), by simp [ctcAux, ctcDirect, ctcGroup, ctcOrig, ctcSets, groupAdd, hf, hctc, hnil'],
            set_dir_WF hwf hwf' hnil', ?_⟩
          apply sorted_ext (flatten_sorted (set_dir_WF hwf hwf' hnil')) ((flatten_sorted hwf).filter _)
          intro x
          rw [lookupL_filter (fun z => z != n :: m :: q)]
          cases x with
          | nil => simp [lookupL_flatten_nil]
          | cons k q0 =>
            rw [lookupL_set_dir hwf]
            by_cases hk : k = n
            · subst hk
              rw [hlk_sub' q0, lookupL_flatten_find hwf, hf]
              by_cases hq0 : q0 = m :: q
              · subst hq0; simp
              · have hne : (q0 != m :: q) = true := by rw [ne_bne_path]; exact hq0
                have hne2 : (k :: q0 != k :: m :: q) = true := by
                  rw [ne_bne_path]; intro hh; injection hh with _ h2; exact hq0 h2
                simp [hne, hne2, flattenN]
            · have : (k :: q0 != n :: m :: q) = true := by
                rw [ne_bne_path]; intro hh; injection hh with h1 _; exact hk h1
              simp [hk, this]

/-! ### tree_lookup_path agrees with the flat listing -/

theorem lookupRel_of_flatten (H : Bytes → Id) {t : Tree} (hwf : t.WF = true) {p : Path} {e : Entry}
    (h : lookupL t.flatten p = some e) : t.lookupRel H p = .ok (e.mode, e.id) := by
  induction t generalizing p e with
  | nil => cases h
  | file m lf r ih =>
    simp only [Tree.WF, Bool.and_eq_true] at hwf
    cases p with
    | nil => rw [lookupL_flatten_nil] at h; cases h
    | cons n p' =>
      simp only [Tree.flatten, lookupL_cons] at h
      by_cases hn : n = m
      · subst hn
        by_cases hp' : p' = []
        · subst hp'
          simp only [if_true, Option.some.injEq] at h
          subst h
          simp [Tree.lookupRel]
        · have : ¬ ([n] = n :: p') := by intro hh; injection hh with _ h2; exact hp' h2.symm
          simp only [this, if_false] at h
          rw [lookupL_none_of_allGt hwf.1.2] at h; cases h
      · have : ¬ ([m] = n :: p') := by intro hh; injection hh with h1 _; exact hn h1.symm
        simp only [this, if_false] at h
        simp [Tree.lookupRel, hn, ih hwf.2 h]
  | dir m cs r ihc ihr =>
    simp only [Tree.WF, Bool.and_eq_true] at hwf
    cases p with
    | nil => rw [lookupL_flatten_nil] at h; cases h
    | cons n p' =>
      simp only [Tree.flatten, lookupL_append, lookupL_map_under_cons] at h
      by_cases hn : n = m
      · subst hn
        simp only [if_true] at h
        cases hc : lookupL cs.flatten p' with
        | none =>
          rw [hc] at h
          simp only [Option.map_none, Option.none_or] at h
          rw [lookupL_none_of_allGt hwf.1.2] at h; cases h
        | some e' =>
          rw [hc] at h
          simp only [Option.map_some, Option.some_or, Option.some.injEq] at h
          subst h
          have hp' : p' ≠ [] := by
            intro hh; subst hh; rw [lookupL_flatten_nil] at hc; cases hc
          simp [Tree.lookupRel, hp', ihc hwf.1.1.2 hc, Entry.under]
      · simp only [hn, if_false, Option.none_or] at h
        simp [Tree.lookupRel, hn, ihr hwf.2 h]

/-! ### paths at the byte boundary: split ∘ join = id on valid names -/

theorem splitOn_ne_nil (sep : UInt8) (b : Bytes) : splitOn sep b ≠ [] := by
  induction b with
  | nil => simp [splitOn]
  | cons x xs ih =>
    simp only [splitOn]
    split
    · simp
    · split <;> simp

theorem splitOn_no_sep (sep : UInt8) (c : Bytes) (h : sep ∉ c) : splitOn sep c = [c] := by
  induction c with
  | nil => rfl
  | cons x xs ih =>
    have hx : x ≠ sep := fun e => h (e ▸ List.mem_cons_self)
    have hxs : sep ∉ xs := fun hm => h (List.mem_cons_of_mem _ hm)
    simp [splitOn, ih hxs, hx]

theorem splitOn_append_sep (sep : UInt8) (c rest : Bytes) (h : sep ∉ c) :
    splitOn sep (c ++ sep :: rest) = c :: splitOn sep rest := by
  induction c with
  | nil =>
    simp only [List.nil_append, splitOn]
    cases hr : splitOn sep rest with
    | nil => exact absurd hr (splitOn_ne_nil sep rest)
    | cons y ys => simp
  | cons x xs ih =>
    have hx : x ≠ sep := fun e => h (e ▸ List.mem_cons_self)
    have hxs : sep ∉ xs := fun hm => h (List.mem_cons_of_mem _ hm)
    simp only [List.cons_append, splitOn, ih hxs]
    simp [hx]

theorem validName_no_sep {n : Name} (h : validName n = true) : Gen.TreeOps.pathSep ∉ n := by
  simp only [validName, Bool.and_eq_true, Bool.not_eq_true'] at h
  intro hm
  have := List.contains_iff_mem.mpr hm
  rw [h.2] at this; cases this

/-- joining the components of a path with `/` and splitting again is the identity when every component is a valid
name (so the component-level theorems transfer to dulwich's byte paths) -/
theorem splitPath_joinPath {p : Path} (hne : p ≠ []) (hv : p.all validName = true) : splitPath (joinPath p) = p := by
  induction p with
  | nil => exact absurd rfl hne
  | cons c cs ih =>
    simp only [List.all_cons, Bool.and_eq_true] at hv
    cases cs with
    | nil => simp [joinPath, splitPath, splitOn_no_sep _ _ (validName_no_sep hv.1)]
    | cons d ds =>
      simp only [joinPath, splitPath]
      rw [splitOn_append_sep _ _ _ (validName_no_sep hv.1)]
      have := ih (by simp) hv.2
      simp only [splitPath] at this
      rw [this]

/-! ### commit_tree_changes on whole change lists: the three loops -/

/-- names removed directly from this tree, in order -/
def dDels : List TChange → List Name
  | [] => []
  | (p, v) :: cs => match p, v with
    | [n], none => n :: dDels cs
    | _, _ => dDels cs

/-- entries stored directly in this tree, in order -/
def dSets : List TChange → List (Name × Leaf)
  | [] => []
  | (p, v) :: cs => match p, v with
    | [n], some l => (n, l) :: dSets cs
    | _, _ => dSets cs

/-- the nested changes with their first component split off -/
def nestedOf : List TChange → List (Name × TChange)
  | [] => []
  | (p, v) :: cs => match p with
    | n :: m :: q => (n, (m :: q, v)) :: nestedOf cs
    | _ => nestedOf cs

def delAll : Tree → List Name → Option Tree
  | t, [] => some t
  | t, n :: ns => match t.del n with
    | none => none
    | some t' => delAll t' ns

def groupAll (gs : List (Name × List TChange)) (nd : List (Name × TChange)) : List (Name × List TChange) :=
  nd.foldl (fun gs x => groupAdd x.1 x.2 gs) gs

theorem ctcDirect_eq (cs : List TChange) (hne : ∀ c ∈ cs, c.1 ≠ []) :
    ∀ (t : Tree) (gs : List (Name × List TChange)) (ss : List (Name × Leaf)),
      ctcDirect t gs ss cs = match delAll t (dDels cs) with
        | none => .error .key
        | some t' => .ok (t', groupAll gs (nestedOf cs), ss ++ dSets cs) := by
  induction cs with
  | nil => intro t gs ss; simp [ctcDirect, dDels, delAll, groupAll, nestedOf, dSets]
  | cons c cs ih =>
    intro t gs ss
    obtain ⟨p, v⟩ := c
    have ih' := ih (fun c hc => hne c (List.mem_cons_of_mem _ hc))
    cases p with
    | nil => exact absurd rfl (hne ([], v) List.mem_cons_self)
    | cons n p' =>
      cases p' with
      | nil =>
        cases v with
        | none =>
          simp only [ctcDirect, dDels, delAll, nestedOf, dSets]
          cases hd : t.del n with
          | none => rfl
          | some t' => simp only [ih']
        | some l =>
          simp only [ctcDirect, dDels, nestedOf, dSets, ih', List.append_assoc, List.singleton_append]
      | cons m q =>
        simp only [ctcDirect, dDels, nestedOf, dSets, ih', groupAll, List.foldl_cons]

/-! #### groups -/

def gnames {β : Type} (gs : List (Name × β)) : List Name := gs.map (·.1)

theorem assoc_groupAdd (n : Name) (c : TChange) (gs : List (Name × List TChange)) (k : Name) :
    assoc (groupAdd n c gs) k = if k = n then some ((assoc gs n).getD [] ++ [c]) else assoc gs k := by
  induction gs with
  | nil =>
    simp only [groupAdd, assoc_cons]
    by_cases h : n = k
    · subst h; simp [assoc]
    · have : ¬ k = n := fun hh => h hh.symm
      simp [h, this, assoc]
  | cons g gs ih =>
    obtain ⟨m, l⟩ := g
    simp only [groupAdd]
    split
    · rename_i hmn
      subst hmn
      simp only [assoc_cons]
      by_cases h : m = k
      · subst h; simp
      · have : ¬ k = m := fun hh => h hh.symm
        simp [h, this]
    · rename_i hmn
      simp only [assoc_cons, ih]
      by_cases h : m = k
      · subst h
        have : ¬ m = n := hmn
        simp [this]
      · simp [h, hmn]

theorem gnames_groupAdd (n : Name) (c : TChange) (gs : List (Name × List TChange)) (k : Name) :
    k ∈ gnames (groupAdd n c gs) ↔ k = n ∨ k ∈ gnames gs := by
  induction gs with
  | nil => simp [groupAdd, gnames]
  | cons g gs ih =>
    obtain ⟨m, l⟩ := g
    simp only [groupAdd]
    split
    · rename_i hmn
      subst hmn
      simp only [gnames, List.map_cons, List.mem_cons]
      constructor
      · intro h; exact Or.inr h
      · intro h; rcases h with h | h
        · exact Or.inl h
        · exact h
    · simp only [gnames, List.map_cons, List.mem_cons] at ih ⊢
      rw [ih]
      constructor
      · rintro (h | h | h)
        · exact Or.inr (Or.inl h)
        · exact Or.inl h
        · exact Or.inr (Or.inr h)
      · rintro (h | h | h)
        · exact Or.inr (Or.inl h)
        · exact Or.inl h
        · exact Or.inr (Or.inr h)

theorem nodup_groupAdd (n : Name) (c : TChange) (gs : List (Name × List TChange)) (h : (gnames gs).Nodup) :
    (gnames (groupAdd n c gs)).Nodup := by
  induction gs with
  | nil => simp [groupAdd, gnames]
  | cons g gs ih =>
    obtain ⟨m, l⟩ := g
    have h' := List.nodup_cons.mp h
    simp only [groupAdd]
    split
    · exact h
    · rename_i hmn
      show (m :: gnames (groupAdd n c gs)).Nodup
      refine List.nodup_cons.mpr ⟨?_, ih h'.2⟩
      intro hm
      rcases (gnames_groupAdd n c gs m).mp hm with h1 | h1
      · exact hmn h1
      · exact h'.1 h1

/-- the nested changes below `k`, in order -/
def subOf (k : Name) (nd : List (Name × TChange)) : List TChange :=
  nd.filterMap (fun x => if x.1 = k then some x.2 else none)

theorem subOf_cons (k : Name) (x : Name × TChange) (nd : List (Name × TChange)) :
    subOf k (x :: nd) = (if x.1 = k then [x.2] else []) ++ subOf k nd := by
  simp only [subOf, List.filterMap_cons]
  by_cases h : x.1 = k <;> simp [h]

theorem groupAll_spec (nd : List (Name × TChange)) :
    ∀ gs : List (Name × List TChange), (gnames gs).Nodup →
      (gnames (groupAll gs nd)).Nodup ∧
      (∀ k, assoc (groupAll gs nd) k =
        if subOf k nd = [] then assoc gs k else some ((assoc gs k).getD [] ++ subOf k nd)) ∧
      (∀ k, k ∈ gnames (groupAll gs nd) ↔ k ∈ gnames gs ∨ subOf k nd ≠ []) := by
  induction nd with
  | nil => intro gs h; simp [groupAll, subOf, h]
  | cons x nd ih =>
    intro gs h
    have := ih (groupAdd x.1 x.2 gs) (nodup_groupAdd _ _ _ h)
    refine ⟨this.1, ?_, ?_⟩
    · intro k
      show assoc (groupAll (groupAdd x.1 x.2 gs) nd) k = _
      rw [this.2.1 k, assoc_groupAdd, subOf_cons]
      by_cases hk : x.1 = k
      · subst hk
        by_cases hs : subOf x.1 nd = []
        · simp [hs]
        · simp [hs, List.append_assoc]
      · have hk' : ¬ k = x.1 := fun hh => hk hh.symm
        simp [hk, hk']
    · intro k
      show k ∈ gnames (groupAll (groupAdd x.1 x.2 gs) nd) ↔ _
      rw [this.2.2 k, gnames_groupAdd, subOf_cons]
      by_cases hk : x.1 = k
      · subst hk; simp
      · have hk' : ¬ k = x.1 := fun hh => hk hh.symm
        simp [hk, hk']

theorem assoc_of_mem {β : Type} {gs : List (Name × β)} (hnd : (gnames gs).Nodup) {g : Name × β} (hg : g ∈ gs) :
    assoc gs g.1 = some g.2 := by
  induction gs with
  | nil => cases hg
  | cons x xs ih =>
    have h' := List.nodup_cons.mp hnd
    rw [assoc_cons]
    rcases List.mem_cons.mp hg with rfl | hg
    · simp
    · have : ¬ x.1 = g.1 := by
        intro heq
        apply h'.1
        show x.1 ∈ gnames xs
        rw [heq]
        exact List.mem_map_of_mem hg
      simp [this, ih h'.2 hg]

theorem assoc_none_iff {β : Type} (gs : List (Name × β)) (k : Name) : assoc gs k = none ↔ k ∉ gnames gs := by
  induction gs with
  | nil => simp [assoc, gnames]
  | cons x xs ih =>
    rw [assoc_cons]
    simp only [gnames, List.map_cons, List.mem_cons] at ih ⊢
    by_cases h : x.1 = k
    · subst h; simp
    · have : ¬ k = x.1 := fun hh => h hh.symm
      simp [h, this, ih]

/-! #### find after set / del; the three folds -/

theorem find_set (t : Tree) (n : Name) (nd : Node) (k : Name) :
    (t.set n nd).find k = if k = n then some nd else t.find k := by
  induction t with
  | nil => cases nd <;> simp [Tree.set, Tree.find]
  | file m lf r ih =>
    simp only [Tree.set]
    split
    · rename_i hlt
      cases nd <;> (by_cases hk : k = n <;> simp [Tree.find, hk])
    · split
      · rename_i heq
        subst heq
        cases nd <;> (by_cases hk : k = n <;> simp [Tree.find, hk])
      · rename_i hne
        simp only [Tree.find, ih]
        by_cases hk : k = m
        · have : ¬ k = n := fun hh => hne (hh ▸ hk)
          simp [hk, this]
          intro h; exact absurd h.symm hne
        · simp [hk]
  | dir m cs r _ ih =>
    simp only [Tree.set]
    split
    · cases nd <;> (by_cases hk : k = n <;> simp [Tree.find, hk])
    · split
      · rename_i heq
        subst heq
        cases nd <;> (by_cases hk : k = n <;> simp [Tree.find, hk])
      · rename_i hne
        simp only [Tree.find, ih]
        by_cases hk : k = m
        · simp [hk]
          intro h; exact absurd h.symm hne
        · simp [hk]

theorem find_del {t t' : Tree} {n : Name} (hwf : t.WF = true) (h : t.del n = some t') (k : Name) :
    t'.find k = if k = n then none else t.find k := by
  induction t generalizing t' with
  | nil => cases h
  | file m lf r ih =>
    simp only [Tree.WF, Bool.and_eq_true] at hwf
    simp only [Tree.del] at h
    split at h
    · rename_i hnm
      simp only [Option.some.injEq] at h; subst h; subst hnm
      by_cases hk : k = n
      · subst hk; simp [find_none_of_allGt hwf.1.2]
      · simp [Tree.find, hk]
    · rename_i hnm
      cases hr : r.del n with
      | none => simp [hr] at h
      | some r' =>
        simp only [hr, Option.map_some, Option.some.injEq] at h; subst h
        simp only [Tree.find, ih hwf.2 hr]
        by_cases hk : k = m
        · have : ¬ k = n := fun hh => hnm (hh ▸ hk ▸ rfl)
          simp [hk, this]
          intro hh; exact absurd hh.symm hnm
        · simp [hk]
  | dir m cs r _ ih =>
    simp only [Tree.WF, Bool.and_eq_true] at hwf
    simp only [Tree.del] at h
    split at h
    · rename_i hnm
      simp only [Option.some.injEq] at h; subst h; subst hnm
      by_cases hk : k = n
      · subst hk; simp [find_none_of_allGt hwf.1.2]
      · simp [Tree.find, hk]
    · rename_i hnm
      cases hr : r.del n with
      | none => simp [hr] at h
      | some r' =>
        simp only [hr, Option.map_some, Option.some.injEq] at h; subst h
        simp only [Tree.find, ih hwf.2 hr]
        by_cases hk : k = m
        · simp [hk]
          intro hh; exact absurd hh.symm hnm
        · simp [hk]

theorem set_file_WF {t : Tree} {n : Name} {l : Leaf} (hwf : t.WF = true) (hl : isDirMode l.mode = false) :
    (t.set n (.file l)).WF = true := by
  induction t with
  | nil => simp [Tree.set, Tree.WF, hl, Tree.allGt]
  | file m lf r ih =>
    simp only [Tree.WF, Bool.and_eq_true] at hwf
    simp only [Tree.set]
    split
    · rename_i hlt
      simp [Tree.WF, hl, Tree.allGt, hlt, allGt_trans hwf.1.2 hlt, hwf.1.1, hwf.1.2, hwf.2]
    · rename_i hnlt
      split
      · rename_i heq
        subst heq
        simp [Tree.WF, hl, hwf.1.2, hwf.2]
      · rename_i hne
        have hmn : m < n := by
          rcases name_tri n m with h1 | h1 | h1
          · exact absurd h1 hnlt
          · exact absurd h1 hne
          · exact h1
        simp [Tree.WF, hwf.1.1, set_allGt _ hmn hwf.1.2, ih hwf.2]
  | dir m cs r _ ih =>
    simp only [Tree.WF, Bool.and_eq_true] at hwf
    simp only [Tree.set]
    split
    · rename_i hlt
      simp [Tree.WF, hl, Tree.allGt, hlt, allGt_trans hwf.1.2 hlt, hwf.1.1.1, hwf.1.1.2, hwf.1.2, hwf.2]
    · rename_i hnlt
      split
      · rename_i heq
        subst heq
        simp [Tree.WF, hl, hwf.1.2, hwf.2]
      · rename_i hne
        have hmn : m < n := by
          rcases name_tri n m with h1 | h1 | h1
          · exact absurd h1 hnlt
          · exact absurd h1 hne
          · exact h1
        simp [Tree.WF, hwf.1.1.1, hwf.1.1.2, set_allGt _ hmn hwf.1.2, ih hwf.2]

theorem del_some_of_find_ne_none {t : Tree} {n : Name} (h : t.find n ≠ none) : ∃ t', t.del n = some t' := by
  cases hf : t.find n with
  | none => exact absurd hf h
  | some nd => exact del_of_find hf

/-- first loop: removing a list of distinct names that are all present -/
theorem delAll_spec : ∀ (ns : List Name) (t : Tree), t.WF = true → ns.Nodup → (∀ n ∈ ns, t.find n ≠ none) →
    ∃ t1, delAll t ns = some t1 ∧ t1.WF = true ∧ ∀ k, t1.find k = if k ∈ ns then none else t.find k := by
  intro ns
  induction ns with
  | nil => intro t hwf _ _; exact ⟨t, rfl, hwf, by simp⟩
  | cons n ns ih =>
    intro t hwf hnd hex
    have hnd' := List.nodup_cons.mp hnd
    rcases del_some_of_find_ne_none (hex n List.mem_cons_self) with ⟨t', hd⟩
    have hf := find_del hwf hd
    rcases ih t' (del_WF hwf hd) hnd'.2 (by
      intro m hm
      rw [hf]
      have : ¬ m = n := fun hh => hnd'.1 (hh ▸ hm)
      simp only [this, if_false]
      exact hex m (List.mem_cons_of_mem _ hm)) with ⟨t1, h1, hwf1, hfind⟩
    refine ⟨t1, by simp [delAll, hd, h1], hwf1, ?_⟩
    intro k
    rw [hfind, hf]
    by_cases hk : k = n
    · subst hk; simp
    · simp [hk]

/-- third loop: storing a list of entries with distinct names -/
theorem ctcSets_spec : ∀ (ss : List (Name × Leaf)) (t : Tree), t.WF = true →
    (∀ s ∈ ss, isDirMode s.2.mode = false) → (gnames ss).Nodup →
    (ctcSets t ss).WF = true ∧
    ∀ k, (ctcSets t ss).find k = match assoc ss k with
      | some l => some (.file l)
      | none => t.find k := by
  intro ss
  induction ss with
  | nil => intro t hwf _ _; exact ⟨hwf, by simp [ctcSets, assoc]⟩
  | cons s ss ih =>
    intro t hwf hl hnd
    have hnd' := List.nodup_cons.mp hnd
    have := ih (t.set s.1 (.file s.2)) (set_file_WF hwf (hl s List.mem_cons_self))
      (fun x hx => hl x (List.mem_cons_of_mem _ hx)) hnd'.2
    refine ⟨this.1, ?_⟩
    intro k
    show (ctcSets (t.set s.1 (.file s.2)) ss).find k = _
    rw [this.2 k, assoc_cons, find_set]
    by_cases hk : s.1 = k
    · subst hk
      have : assoc ss s.1 = none := (assoc_none_iff ss s.1).mpr hnd'.1
      simp [this]
    · have : ¬ k = s.1 := fun hh => hk hh.symm
      simp [hk, this]

/-- the sub-tree a name holds if it holds a directory, the empty tree otherwise -/
def dirOr (t : Tree) (k : Name) : Tree :=
  match t.find k with
  | some (.dir s) => s
  | _ => .nil

/-- second loop: every group `g` starts from `origs g.1`, its recursive call yields `rb g.1` -/
theorem groups_fold_spec (rec : Tree → List TChange → Except CtcErr Tree) (rb : Name → Tree) :
    ∀ (G : List (Name × List TChange)) (t1 : Tree), t1.WF = true → (gnames G).Nodup →
      (∀ g ∈ G, ∃ sub, ctcOrig t1 g.1 = .ok sub ∧ rec sub g.2 = .ok (rb g.1) ∧ (rb g.1).WF = true ∧
        ((rb g.1).isNil = true → t1.find g.1 ≠ none)) →
      ∃ t2, G.foldl (ctcGroup rec) (.ok t1) = .ok t2 ∧ t2.WF = true ∧
        ∀ k, t2.find k = if k ∈ gnames G then (if (rb k).isNil then none else some (.dir (rb k))) else t1.find k := by
  intro G
  induction G with
  | nil => intro t1 hwf _ _; exact ⟨t1, rfl, hwf, by simp [gnames]⟩
  | cons g G ih =>
    intro t1 hwf hnd hg
    have hnd' := List.nodup_cons.mp hnd
    rcases hg g List.mem_cons_self with ⟨sub, horig, hrec, hrwf, hnil⟩
    -- the tree after this group
    have hstep : ∃ t1', ctcGroup rec (.ok t1) g = .ok t1' ∧ t1'.WF = true ∧
        ∀ k, t1'.find k = if k = g.1 then (if (rb g.1).isNil then none else some (.dir (rb g.1))) else t1.find k := by
      by_cases hn : (rb g.1).isNil = true
      · rcases del_some_of_find_ne_none (hnil hn) with ⟨t', hd⟩
        refine ⟨t', by simp [ctcGroup, horig, hrec, hn, hd], del_WF hwf hd, ?_⟩
        intro k; rw [find_del hwf hd]; simp [hn]
      · have hn' : (rb g.1).isNil = false := by simpa using hn
        refine ⟨t1.set g.1 (.dir (rb g.1)), by simp [ctcGroup, horig, hrec, hn'], set_dir_WF hwf hrwf hn', ?_⟩
        intro k; rw [find_set]; simp [hn']
    rcases hstep with ⟨t1', hs, hwf', hf'⟩
    have hrest : ∀ g' ∈ G, ∃ sub, ctcOrig t1' g'.1 = .ok sub ∧ rec sub g'.2 = .ok (rb g'.1) ∧ (rb g'.1).WF = true ∧
        ((rb g'.1).isNil = true → t1'.find g'.1 ≠ none) := by
      intro g' hg'
      have hne : ¬ g'.1 = g.1 := by
        intro heq
        apply hnd'.1
        show g.1 ∈ gnames G
        rw [← heq]; exact List.mem_map_of_mem hg'
      rcases hg g' (List.mem_cons_of_mem _ hg') with ⟨sub', ho', hr', hw', hn'⟩
      have hfe : t1'.find g'.1 = t1.find g'.1 := by rw [hf']; simp [hne]
      refine ⟨sub', ?_, hr', hw', ?_⟩
      · simp only [ctcOrig, hfe] at ho' ⊢; exact ho'
      · rw [hfe]; exact hn'
    rcases ih t1' hwf' hnd'.2 hrest with ⟨t2, h2, hwf2, hf2⟩
    refine ⟨t2, by rw [List.foldl_cons, hs, h2], hwf2, ?_⟩
    intro k
    rw [hf2, hf']
    show _ = if k ∈ g.1 :: gnames G then _ else _
    by_cases hk : k = g.1
    · have : g.1 ∉ gnames G := hnd'.1
      simp [hk, this]
    · simp [hk]

/-! #### the change list of a diff, as a function of the two flat listings -/

def toDel (e : Entry) : TChange := (e.path, none)
def toSet (e : Entry) : TChange := (e.path, some ⟨e.mode, e.id⟩)

/-- entries of `la` whose path `lb` does not hold at all -/
def specDels (la lb : List Entry) : List Entry := la.filter (fun e => (lookupL lb e.path).isNone)
/-- entries of `lb` that `la` does not hold identically -/
def specSets (la lb : List Entry) : List Entry := lb.filter (fun e => lookupL la e.path != some e)

/-- `toTChanges` of any change list that is a diff of `la` → `lb` -/
def specT (la lb : List Entry) : List TChange := (specDels la lb).map toDel ++ (specSets la lb).map toSet

theorem toTChanges_eq_specT {cs : List Change} {la lb : List Entry} (hsa : SortedL la) (hsb : SortedL lb)
    (hA : addedEntries cs = lb.filter (fun e => lookupL la e.path != some e))
    (hR : removedPaths cs = (la.filter (fun e => lookupL lb e.path != some e)).map (·.path)) :
    toTChanges cs = specT la lb := by
  simp only [toTChanges, specT, hA, hR]
  congr 1
  rw [List.filter_map, List.map_map, List.filter_filter]
  unfold specDels toDel
  have : la.filter (fun a => ((fun p => !(List.map (fun x => x.path)
        (lb.filter (fun e => lookupL la e.path != some e))).contains p) ∘ fun x => x.path) a &&
        (lookupL lb a.path != some a)) = la.filter (fun e => (lookupL lb e.path).isNone) := by
    apply List.filter_congr
    intro e he
    have hla : lookupL la e.path = some e := lookupL_of_mem hsa he
    cases hb : lookupL lb e.path with
    | none =>
      have : ¬ e.path ∈ List.map (fun x => x.path) (lb.filter (fun e => lookupL la e.path != some e)) := by
        intro hm
        rcases List.mem_map.mp hm with ⟨eb, heb, hp⟩
        exact lookupL_eq_none.mp hb eb (List.mem_filter.mp heb).1 hp
      simp [this]
    | some eb =>
      have hbm := lookupL_some_mem hb
      have hbp := lookupL_some_path hb
      by_cases heq : eb = e
      · subst heq; simp
      · have : e.path ∈ List.map (fun x => x.path) (lb.filter (fun e => lookupL la e.path != some e)) := by
          apply List.mem_map.mpr
          refine ⟨eb, List.mem_filter.mpr ⟨hbm, ?_⟩, hbp⟩
          rw [hbp, hla]
          simp only [bne_iff_ne, ne_eq, Option.some.injEq]
          exact fun h => heq h.symm
        simp [this]
  rw [this]
  rfl

/-! #### direct parts of `specT` -/

def nameOfSingle (p : Path) : Option Name :=
  match p with
  | [n] => some n
  | _ => none

theorem dDels_append (xs ys : List TChange) : dDels (xs ++ ys) = dDels xs ++ dDels ys := by
  induction xs with
  | nil => rfl
  | cons c cs ih =>
    obtain ⟨p, v⟩ := c
    simp only [List.cons_append, dDels]
    split <;> simp [ih]

theorem dSets_append (xs ys : List TChange) : dSets (xs ++ ys) = dSets xs ++ dSets ys := by
  induction xs with
  | nil => rfl
  | cons c cs ih =>
    obtain ⟨p, v⟩ := c
    simp only [List.cons_append, dSets]
    split <;> simp [ih]

theorem dDels_map_toSet (l : List Entry) : dDels (l.map toSet) = [] := by
  induction l with
  | nil => rfl
  | cons e es ih => simp only [List.map_cons, toSet, dDels]; split <;> simp_all [toSet]

theorem dSets_map_toDel (l : List Entry) : dSets (l.map toDel) = [] := by
  induction l with
  | nil => rfl
  | cons e es ih => simp only [List.map_cons, toDel, dSets]; split <;> simp_all [toDel]

theorem dDels_map_toDel (l : List Entry) : dDels (l.map toDel) = l.filterMap (fun e => nameOfSingle e.path) := by
  induction l with
  | nil => rfl
  | cons e es ih =>
    simp only [List.map_cons, toDel, dDels, List.filterMap_cons]
    cases hp : e.path with
    | nil => simp [nameOfSingle, toDel]; exact ih
    | cons n q =>
      cases q with
      | nil => simp [nameOfSingle, toDel]; exact ih
      | cons m q' => simp [nameOfSingle, toDel]; exact ih

theorem dSets_map_toSet (l : List Entry) :
    dSets (l.map toSet) = l.filterMap (fun e => (nameOfSingle e.path).map (fun n => (n, (⟨e.mode, e.id⟩ : Leaf)))) := by
  induction l with
  | nil => rfl
  | cons e es ih =>
    simp only [List.map_cons, toSet, dSets, List.filterMap_cons]
    cases hp : e.path with
    | nil => simp [nameOfSingle, toSet]; exact ih
    | cons n q =>
      cases q with
      | nil => simp [nameOfSingle, toSet]; exact ih
      | cons m q' => simp [nameOfSingle, toSet]; exact ih

theorem dDels_specT (la lb : List Entry) :
    dDels (specT la lb) = (specDels la lb).filterMap (fun e => nameOfSingle e.path) := by
  simp [specT, dDels_append, dDels_map_toSet, dDels_map_toDel]

theorem dSets_specT (la lb : List Entry) :
    dSets (specT la lb) =
      (specSets la lb).filterMap (fun e => (nameOfSingle e.path).map (fun n => (n, (⟨e.mode, e.id⟩ : Leaf)))) := by
  simp [specT, dSets_append, dSets_map_toDel, dSets_map_toSet]

theorem nodup_filterMap_single {l : List Entry} (h : (l.map (·.path)).Nodup) :
    (l.filterMap (fun e => nameOfSingle e.path)).Nodup := by
  have : l.filterMap (fun e => nameOfSingle e.path) = (l.map (·.path)).filterMap nameOfSingle := by
    rw [List.filterMap_map]; rfl
  rw [this]
  rw [List.Nodup, List.pairwise_filterMap]
  refine h.imp ?_
  intro a a' hne b hb b' hb' heq
  apply hne
  subst heq
  cases a with
  | nil => simp [nameOfSingle] at hb
  | cons n q =>
    cases q with
    | cons _ _ => simp [nameOfSingle] at hb
    | nil =>
      cases a' with
      | nil => simp [nameOfSingle] at hb'
      | cons n' q' =>
        cases q' with
        | cons _ _ => simp [nameOfSingle] at hb'
        | nil =>
          simp only [nameOfSingle, Option.mem_def, Option.some.injEq] at hb hb'
          rw [hb, hb']

theorem specDels_nodup {la : List Entry} (hsa : SortedL la) (lb : List Entry) : ((specDels la lb).map (·.path)).Nodup :=
  hsa.nodup_paths.sublist (List.filter_sublist.map _)

theorem specSets_nodup (la : List Entry) {lb : List Entry} (hsb : SortedL lb) : ((specSets la lb).map (·.path)).Nodup :=
  hsb.nodup_paths.sublist (List.filter_sublist.map _)

theorem dDels_specT_nodup {la : List Entry} (hsa : SortedL la) (lb : List Entry) : (dDels (specT la lb)).Nodup := by
  rw [dDels_specT]; exact nodup_filterMap_single (specDels_nodup hsa lb)

theorem gnames_dSets_specT (la lb : List Entry) :
    gnames (dSets (specT la lb)) = (specSets la lb).filterMap (fun e => nameOfSingle e.path) := by
  rw [dSets_specT, gnames, List.map_filterMap]
  congr 1
  funext e
  cases nameOfSingle e.path <;> rfl

theorem dSets_specT_nodup (la : List Entry) {lb : List Entry} (hsb : SortedL lb) : (gnames (dSets (specT la lb))).Nodup := by
  rw [gnames_dSets_specT]; exact nodup_filterMap_single (specSets_nodup la hsb)

theorem mem_dDels_specT {la lb : List Entry} {k : Name} :
    k ∈ dDels (specT la lb) ↔ ∃ e ∈ la, e.path = [k] ∧ lookupL lb [k] = none := by
  rw [dDels_specT, List.mem_filterMap]
  constructor
  · rintro ⟨e, he, hn⟩
    have hm := List.mem_filter.mp he
    have hp : e.path = [k] := by
      cases hq : e.path with
      | nil => rw [hq] at hn; simp [nameOfSingle] at hn
      | cons n q =>
        cases q with
        | nil => rw [hq] at hn; simp only [nameOfSingle, Option.some.injEq] at hn; rw [hn]
        | cons _ _ => rw [hq] at hn; simp [nameOfSingle] at hn
    refine ⟨e, hm.1, hp, ?_⟩
    have := hm.2
    rw [hp] at this
    simpa using this
  · rintro ⟨e, he, hp, hn⟩
    refine ⟨e, List.mem_filter.mpr ⟨he, by rw [hp, hn]; rfl⟩, by rw [hp]; rfl⟩

theorem mem_dSets_specT {la lb : List Entry} {k : Name} {l : Leaf} :
    (k, l) ∈ dSets (specT la lb) ↔ (⟨[k], l.mode, l.id⟩ : Entry) ∈ lb ∧ lookupL la [k] ≠ some ⟨[k], l.mode, l.id⟩ := by
  rw [dSets_specT, List.mem_filterMap]
  constructor
  · rintro ⟨e, he, hn⟩
    have hm := List.mem_filter.mp he
    have hp : e.path = [k] ∧ l = ⟨e.mode, e.id⟩ := by
      cases hq : e.path with
      | nil => rw [hq] at hn; simp [nameOfSingle] at hn
      | cons n q =>
        cases q with
        | nil =>
          rw [hq] at hn
          simp only [nameOfSingle, Option.map_some, Option.some.injEq, Prod.mk.injEq] at hn
          exact ⟨by rw [hn.1], hn.2.symm⟩
        | cons _ _ => rw [hq] at hn; simp [nameOfSingle] at hn
    have he' : e = ⟨[k], l.mode, l.id⟩ := by
      cases e; simp only [Entry.mk.injEq] at hp ⊢; rw [hp.2]; exact ⟨hp.1, rfl, rfl⟩
    rw [← he']
    refine ⟨hm.1, ?_⟩
    have := hm.2
    rw [he'] at this ⊢
    simpa using this
  · rintro ⟨he, hne⟩
    refine ⟨⟨[k], l.mode, l.id⟩, List.mem_filter.mpr ⟨he, by simpa using hne⟩, ?_⟩
    simp [nameOfSingle]

/-! #### the nested part of `specT` below one name is the `specT` of the two sub-trees -/

/-- an entry at `k/m/q…` relative to the directory `k` -/
def stripHead (k : Name) (e : Entry) : Option Entry :=
  match e.path with
  | n :: m :: q => if n = k then some { e with path := m :: q } else none
  | _ => none

def stripT (k : Name) (c : TChange) : Option TChange :=
  match c.1 with
  | n :: m :: q => if n = k then some (m :: q, c.2) else none
  | _ => none

theorem subOf_nestedOf (k : Name) (cs : List TChange) : subOf k (nestedOf cs) = cs.filterMap (stripT k) := by
  induction cs with
  | nil => rfl
  | cons c cs ih =>
    obtain ⟨p, v⟩ := c
    cases p with
    | nil => rw [List.filterMap_cons_none (by rfl)]; simpa [nestedOf] using ih
    | cons n p' =>
      cases p' with
      | nil => rw [List.filterMap_cons_none (by rfl)]; simpa [nestedOf] using ih
      | cons m q =>
        simp only [nestedOf, subOf_cons, List.filterMap_cons, stripT, ih]
        by_cases h : n = k <;> simp [h]

theorem stripT_toDel (k : Name) (e : Entry) : stripT k (toDel e) = (stripHead k e).map toDel := by
  cases e with
  | mk p md i =>
    cases p with
    | nil => rfl
    | cons n p' =>
      cases p' with
      | nil => rfl
      | cons m q =>
        simp only [stripT, stripHead, toDel]
        by_cases h : n = k <;> simp [h, toDel]

theorem stripT_toSet (k : Name) (e : Entry) : stripT k (toSet e) = (stripHead k e).map toSet := by
  cases e with
  | mk p md i =>
    cases p with
    | nil => rfl
    | cons n p' =>
      cases p' with
      | nil => rfl
      | cons m q =>
        simp only [stripT, stripHead, toSet]
        by_cases h : n = k <;> simp [h, toSet]

theorem filterMap_congr' {α β : Type} {l : List α} {f g : α → Option β} (h : ∀ a ∈ l, f a = g a) :
    l.filterMap f = l.filterMap g := by
  induction l with
  | nil => rfl
  | cons x xs ih =>
    simp only [List.filterMap_cons, h x List.mem_cons_self, ih (fun a ha => h a (List.mem_cons_of_mem _ ha))]

theorem stripHead_some {k : Name} {e e' : Entry} (h : stripHead k e = some e') :
    e = Entry.under k e' ∧ e'.path ≠ [] := by
  cases e with
  | mk p m i =>
    cases p with
    | nil => simp [stripHead] at h
    | cons n p' =>
      cases p' with
      | nil => simp [stripHead] at h
      | cons m' q =>
        simp only [stripHead] at h
        split at h
        · rename_i hn
          simp only [Option.some.injEq] at h
          subst h; subst hn
          simp [Entry.under]
        · cases h

theorem stripHead_under (k : Name) (e : Entry) (he : e.path ≠ []) : stripHead k (Entry.under k e) = some e := by
  cases e with
  | mk p m i =>
    cases p with
    | nil => exact absurd rfl he
    | cons n q => simp [stripHead, Entry.under]

theorem stripHead_under_ne {k m : Name} (h : m ≠ k) (e : Entry) : stripHead k (Entry.under m e) = none := by
  cases e with
  | mk p md i =>
    cases p with
    | nil => simp [stripHead, Entry.under]
    | cons n q => simp [stripHead, Entry.under, h]

theorem dirOr_of_find_none {t : Tree} {k : Name} (h : t.find k = none) : dirOr t k = .nil := by
  simp [dirOr, h]

theorem filterMap_stripHead_flatten {t : Tree} (hwf : t.WF = true) (k : Name) :
    t.flatten.filterMap (stripHead k) = (dirOr t k).flatten := by
  induction t with
  | nil => rfl
  | file m lf r ih =>
    simp only [Tree.WF, Bool.and_eq_true] at hwf
    simp only [Tree.flatten, List.filterMap_cons, stripHead, ih hwf.2]
    by_cases hk : k = m
    · subst hk
      simp [dirOr, Tree.find, find_none_of_allGt hwf.1.2, Tree.flatten]
    · simp [dirOr, Tree.find, hk]
  | dir m cs r _ ih =>
    simp only [Tree.WF, Bool.and_eq_true] at hwf
    simp only [Tree.flatten, List.filterMap_append, ih hwf.2, List.filterMap_map]
    by_cases hk : k = m
    · subst hk
      have h1 : cs.flatten.filterMap (stripHead k ∘ Entry.under k) = cs.flatten := by
        have : cs.flatten.filterMap (stripHead k ∘ Entry.under k) = cs.flatten.filterMap some := by
          apply filterMap_congr'
          intro e he
          exact stripHead_under k e (flatten_path_ne_nil e he)
        rw [this, List.filterMap_some]
      rw [h1, dirOr_of_find_none (find_none_of_allGt hwf.1.2)]
      simp [dirOr, Tree.find, Tree.flatten]
    · have hk' : m ≠ k := fun hh => hk hh.symm
      have h1 : cs.flatten.filterMap (stripHead k ∘ Entry.under m) = [] := by
        apply List.filterMap_eq_nil_iff.mpr
        intro e _
        exact stripHead_under_ne hk' e
      rw [h1]
      simp [dirOr, Tree.find, hk]

theorem filter_filterMap_comm {α β : Type} (l : List α) (f : α → Option β) (c : α → Bool) (c' : β → Bool)
    (h : ∀ a b, f a = some b → c a = c' b) : (l.filter c).filterMap f = (l.filterMap f).filter c' := by
  induction l with
  | nil => rfl
  | cons a l ih =>
    cases hf : f a with
    | none =>
      by_cases hc : c a = true
      · rw [List.filter_cons_of_pos hc, List.filterMap_cons_none hf, List.filterMap_cons_none hf, ih]
      · rw [List.filter_cons_of_neg hc, List.filterMap_cons_none hf, ih]
    | some b =>
      have hcb := h a b hf
      by_cases hc : c a = true
      · rw [List.filter_cons_of_pos hc, List.filterMap_cons_some hf, List.filterMap_cons_some hf,
          List.filter_cons_of_pos (by rw [← hcb]; exact hc), ih]
      · rw [List.filter_cons_of_neg hc, List.filterMap_cons_some hf,
          List.filter_cons_of_neg (by rw [← hcb]; exact hc), ih]

theorem lookupL_flatten_deep {t : Tree} (hwf : t.WF = true) (k : Name) {q : Path} (hq : q ≠ []) :
    lookupL t.flatten (k :: q) = (lookupL (dirOr t k).flatten q).map (Entry.under k) := by
  rw [lookupL_flatten_find hwf]
  cases hf : t.find k with
  | none => simp [dirOr, hf, flattenN, Tree.flatten]
  | some nd =>
    cases nd with
    | file l =>
      have : ¬ ([] = q) := fun h => hq h.symm
      simp [dirOr, hf, flattenN, Tree.flatten, lookupL_cons, this]
    | dir s => simp [dirOr, hf, flattenN]

/-- the nested changes of a diff below `k` are the diff of the two sub-trees at `k` -/
theorem subOf_specT {a b : Tree} (ha : a.WF = true) (hb : b.WF = true) (k : Name) :
    subOf k (nestedOf (specT a.flatten b.flatten)) = specT (dirOr a k).flatten (dirOr b k).flatten := by
  rw [subOf_nestedOf]
  simp only [specT, List.filterMap_append, List.filterMap_map]
  have e1 : (stripT k ∘ toDel) = fun e => (stripHead k e).map toDel := by funext e; exact stripT_toDel k e
  have e2 : (stripT k ∘ toSet) = fun e => (stripHead k e).map toSet := by funext e; exact stripT_toSet k e
  rw [e1, e2, ← List.map_filterMap, ← List.map_filterMap]
  congr 2
  · unfold specDels
    rw [filter_filterMap_comm _ _ _ (fun e => (lookupL (dirOr b k).flatten e.path).isNone),
      filterMap_stripHead_flatten ha]
    intro e e' h
    have := stripHead_some h
    rw [this.1]
    show (lookupL b.flatten (k :: e'.path)).isNone = _
    rw [lookupL_flatten_deep hb k this.2]
    cases lookupL (dirOr b k).flatten e'.path <;> rfl
  · unfold specSets
    rw [filter_filterMap_comm _ _ _ (fun e => lookupL (dirOr a k).flatten e.path != some e),
      filterMap_stripHead_flatten hb]
    intro e e' h
    have := stripHead_some h
    rw [this.1]
    show (lookupL a.flatten (k :: e'.path) != some (Entry.under k e')) = _
    rw [lookupL_flatten_deep ha k this.2, under_ne_iff]

/-! #### direct parts of `specT` in terms of `find` -/

theorem lookupL_single {t : Tree} (hwf : t.WF = true) (k : Name) :
    lookupL t.flatten [k] = match t.find k with
      | some (.file l) => some ⟨[k], l.mode, l.id⟩
      | _ => none := by
  rw [lookupL_flatten_find hwf]
  cases hf : t.find k with
  | none => simp [flattenN]
  | some nd =>
    cases nd with
    | file l => simp [flattenN, lookupL_cons, Entry.under]
    | dir s => simp [flattenN, lookupL_flatten_nil]

theorem mem_dDels_find {a b : Tree} (ha : a.WF = true) (hb : b.WF = true) (k : Name) :
    k ∈ dDels (specT a.flatten b.flatten) ↔ (∃ l, a.find k = some (.file l)) ∧ (∀ l, b.find k ≠ some (.file l)) := by
  rw [mem_dDels_specT]
  constructor
  · rintro ⟨e, he, hp, hn⟩
    have h1 := lookupL_of_mem (flatten_sorted ha) he
    rw [hp, lookupL_single ha] at h1
    rw [lookupL_single hb] at hn
    constructor
    · cases hf : a.find k with
      | none => rw [hf] at h1; cases h1
      | some nd => cases nd with
        | file l => exact ⟨l, rfl⟩
        | dir s => rw [hf] at h1; cases h1
    · intro l hl; rw [hl] at hn; cases hn
  · rintro ⟨⟨l, hl⟩, hnb⟩
    have h1 : lookupL a.flatten [k] = some ⟨[k], l.mode, l.id⟩ := by rw [lookupL_single ha, hl]
    refine ⟨_, lookupL_some_mem h1, rfl, ?_⟩
    rw [lookupL_single hb]
    cases hf : b.find k with
    | none => rfl
    | some nd => cases nd with
      | file l' => exact absurd hf (hnb l')
      | dir s => rfl

theorem assoc_dSets_find {a b : Tree} (ha : a.WF = true) (hb : b.WF = true) (k : Name) :
    assoc (dSets (specT a.flatten b.flatten)) k = match b.find k with
      | some (.file l) => if a.find k = some (.file l) then none else some l
      | _ => none := by
  have hnd := dSets_specT_nodup a.flatten (flatten_sorted hb)
  have hmem : ∀ l, (k, l) ∈ dSets (specT a.flatten b.flatten) ↔
      b.find k = some (.file l) ∧ a.find k ≠ some (.file l) := by
    intro l
    rw [mem_dSets_specT]
    constructor
    · rintro ⟨he, hne⟩
      have h1 := lookupL_of_mem (flatten_sorted hb) he
      rw [lookupL_single hb] at h1
      rw [lookupL_single ha] at hne
      constructor
      · cases hf : b.find k with
        | none => rw [hf] at h1; cases h1
        | some nd => cases nd with
          | file l' =>
            rw [hf] at h1
            simp only [Option.some.injEq, Entry.mk.injEq, true_and] at h1
            have : l' = l := by cases l; cases l'; simp_all
            rw [this]
          | dir s => rw [hf] at h1; cases h1
      · intro hl; rw [hl] at hne; exact hne rfl
    · rintro ⟨hbl, hal⟩
      have h1 : lookupL b.flatten [k] = some ⟨[k], l.mode, l.id⟩ := by rw [lookupL_single hb, hbl]
      refine ⟨lookupL_some_mem h1, ?_⟩
      rw [lookupL_single ha]
      cases hf : a.find k with
      | none => simp
      | some nd => cases nd with
        | file l' =>
          simp only [ne_eq, Option.some.injEq, Entry.mk.injEq, true_and]
          intro h
          apply hal
          rw [hf]
          have : l' = l := by cases l; cases l'; simp_all
          rw [this]
        | dir s => simp
  cases hf : b.find k with
  | none =>
    apply (assoc_none_iff _ k).mpr
    intro hk
    rcases List.mem_map.mp hk with ⟨⟨k', l⟩, hm, rfl⟩
    have := (hmem l).mp hm
    rw [hf] at this; cases this.1
  | some nd =>
    cases nd with
    | dir s =>
      apply (assoc_none_iff _ k).mpr
      intro hk
      rcases List.mem_map.mp hk with ⟨⟨k', l⟩, hm, rfl⟩
      have := (hmem l).mp hm
      rw [hf] at this; cases this.1
    | file l =>
      by_cases hal : a.find k = some (.file l)
      · simp only [hal, if_true]
        apply (assoc_none_iff _ k).mpr
        intro hk
        rcases List.mem_map.mp hk with ⟨⟨k', l'⟩, hm, rfl⟩
        have := (hmem l').mp hm
        rw [hf] at this
        have hl : l = l' := by have := this.1; simp only [Option.some.injEq, Node.file.injEq] at this; exact this
        subst hl
        exact this.2 hal
      · simp only [hal, if_false]
        exact assoc_of_mem hnd (g := (k, l)) ((hmem l).mpr ⟨hf, hal⟩)

/-! #### when the diff is empty; trees with the same entries -/

theorem tree_ext {a b : Tree} (ha : a.WF = true) (hb : b.WF = true) (h : ∀ k, a.find k = b.find k) : a = b := by
  apply flatten_inj ha hb
  apply sorted_ext (flatten_sorted ha) (flatten_sorted hb)
  intro p
  cases p with
  | nil => rw [lookupL_flatten_nil, lookupL_flatten_nil]
  | cons k q => rw [lookupL_flatten_find ha, lookupL_flatten_find hb, h k]

theorem specT_nil_eq {a b : Tree} (ha : a.WF = true) (hb : b.WF = true)
    (h : specT a.flatten b.flatten = []) : a = b := by
  simp only [specT, List.append_eq_nil_iff, List.map_eq_nil_iff] at h
  have hd : ∀ e ∈ a.flatten, lookupL b.flatten e.path ≠ none := by
    intro e he hn
    have : e ∈ specDels a.flatten b.flatten := List.mem_filter.mpr ⟨he, by rw [hn]; rfl⟩
    rw [h.1] at this; cases this
  have hs : ∀ e ∈ b.flatten, lookupL a.flatten e.path = some e := by
    intro e he
    by_cases hh : lookupL a.flatten e.path = some e
    · exact hh
    · have : e ∈ specSets a.flatten b.flatten := List.mem_filter.mpr ⟨he, by simpa using hh⟩
      rw [h.2] at this; cases this
  apply flatten_inj ha hb
  apply sorted_ext (flatten_sorted ha) (flatten_sorted hb)
  intro p
  cases hbp : lookupL b.flatten p with
  | some e =>
    have := hs e (lookupL_some_mem hbp)
    rw [lookupL_some_path hbp] at this
    exact this
  | none =>
    cases hap : lookupL a.flatten p with
    | none => rfl
    | some e =>
      have := hd e (lookupL_some_mem hap)
      rw [lookupL_some_path hap] at this
      exact absurd hbp this

theorem dirOr_WF {t : Tree} (h : t.WF = true) (k : Name) : (dirOr t k).WF = true := by
  unfold dirOr
  cases hf : t.find k with
  | none => rfl
  | some nd => cases nd with
    | file l => rfl
    | dir s => exact find_dir_WF h hf

theorem find_dir_nonnil {t : Tree} (h : t.WF = true) {k : Name} {s : Tree} (hf : t.find k = some (.dir s)) :
    s.isNil = false := by
  induction t with
  | nil => cases hf
  | file m lf r ih =>
    simp only [Tree.WF, Bool.and_eq_true] at h
    simp only [Tree.find] at hf
    split at hf
    · cases hf
    · exact ih h.2 hf
  | dir m cs r _ ih =>
    simp only [Tree.WF, Bool.and_eq_true, Bool.not_eq_true'] at h
    simp only [Tree.find] at hf
    split at hf
    · simp only [Option.some.injEq, Node.dir.injEq] at hf; subst hf; exact h.1.1.1
    · exact ih h.2 hf

theorem specT_ne_nil_left {s : Tree} (hs : s.WF = true) (hn : s.isNil = false) : specT s.flatten [] ≠ [] := by
  rcases flatten_ne_nil hs hn with ⟨e, he⟩
  intro h
  simp only [specT, List.append_eq_nil_iff, List.map_eq_nil_iff] at h
  have : e ∈ specDels s.flatten [] := List.mem_filter.mpr ⟨he, rfl⟩
  rw [h.1] at this; cases this

theorem specT_mem_ne_nil {a b : Tree} : ∀ c ∈ specT a.flatten b.flatten, c.1 ≠ [] := by
  intro c hc
  simp only [specT, List.mem_append, List.mem_map] at hc
  rcases hc with ⟨e, he, rfl⟩ | ⟨e, he, rfl⟩
  · exact flatten_path_ne_nil e (List.mem_filter.mp he).1
  · exact flatten_path_ne_nil e (List.mem_filter.mp he).1

/-! #### commit_tree_changes applied to the diff of two trees rebuilds the second tree -/

theorem dirOr_eq_nil_or {t : Tree} (k : Name) :
    (dirOr t k = .nil ∧ ∀ s, t.find k ≠ some (.dir s)) ∨ (∃ s, t.find k = some (.dir s) ∧ dirOr t k = s) := by
  unfold dirOr
  cases hf : t.find k with
  | none => left; exact ⟨rfl, fun s h => by cases h⟩
  | some nd => cases nd with
    | file l => left; exact ⟨rfl, fun s h => by cases h⟩
    | dir s => right; exact ⟨s, rfl, rfl⟩

/-- one level: if the recursive calls on the sub-trees are right, so is this call -/
theorem ctc_step (fuel : Nat) {a b : Tree} (ha : a.WF = true) (hb : b.WF = true)
    (hrec : ∀ k, specT (dirOr a k).flatten (dirOr b k).flatten ≠ [] →
      ctcAux fuel (dirOr a k) (specT (dirOr a k).flatten (dirOr b k).flatten) = .ok (dirOr b k)) :
    ctcAux (fuel + 1) a (specT a.flatten b.flatten) = .ok b := by
  have hne := specT_mem_ne_nil (a := a) (b := b)
  -- first loop
  have hdd := dDels_specT_nodup (flatten_sorted ha) b.flatten
  have hdm := mem_dDels_find ha hb
  have hdex : ∀ n ∈ dDels (specT a.flatten b.flatten), a.find n ≠ none := by
    intro n hn
    rcases ((hdm n).mp hn).1 with ⟨l, hl⟩
    rw [hl]; exact fun h => by cases h
  rcases delAll_spec _ a ha hdd hdex with ⟨a1, hda, hwf1, hf1⟩
  -- groups
  have hG := groupAll_spec (nestedOf (specT a.flatten b.flatten)) [] (by simp [gnames])
  have hsub : ∀ k, subOf k (nestedOf (specT a.flatten b.flatten)) =
      specT (dirOr a k).flatten (dirOr b k).flatten := subOf_specT ha hb
  have hGmem : ∀ k, k ∈ gnames (groupAll [] (nestedOf (specT a.flatten b.flatten))) ↔
      specT (dirOr a k).flatten (dirOr b k).flatten ≠ [] := by
    intro k; rw [hG.2.2 k, hsub k]; simp [gnames]
  have hcond : ∀ g ∈ groupAll [] (nestedOf (specT a.flatten b.flatten)),
      ∃ sub, ctcOrig a1 g.1 = .ok sub ∧ ctcAux fuel sub g.2 = .ok (dirOr b g.1) ∧ (dirOr b g.1).WF = true ∧
        ((dirOr b g.1).isNil = true → a1.find g.1 ≠ none) := by
    intro g hg
    have hgn : specT (dirOr a g.1).flatten (dirOr b g.1).flatten ≠ [] :=
      (hGmem g.1).mp (List.mem_map_of_mem hg)
    have hg2 : g.2 = specT (dirOr a g.1).flatten (dirOr b g.1).flatten := by
      have h1 := assoc_of_mem hG.1 hg
      rw [hG.2.1 g.1, hsub g.1] at h1
      simp only [hgn, if_false, assoc, List.find?_nil, Option.map_none, Option.getD_none, List.nil_append,
        Option.some.injEq] at h1
      exact h1.symm
    refine ⟨dirOr a g.1, ?_, by rw [hg2]; exact hrec g.1 hgn, dirOr_WF hb g.1, ?_⟩
    · -- the sub-tree the group starts from
      have hfa := hf1 g.1
      cases hfind : a.find g.1 with
      | none =>
        have : a1.find g.1 = none := by rw [hfa, hfind]; split <;> rfl
        simp [ctcOrig, this, dirOr, hfind]
      | some nd =>
        cases nd with
        | dir s =>
          have hnd : g.1 ∉ dDels (specT a.flatten b.flatten) := by
            intro hm
            rcases ((hdm g.1).mp hm).1 with ⟨l, hl⟩
            rw [hfind] at hl; cases hl
          have : a1.find g.1 = some (.dir s) := by rw [hfa, hfind]; simp [hnd]
          simp [ctcOrig, this, dirOr, hfind]
        | file l =>
          have hda' : dirOr a g.1 = .nil := by simp [dirOr, hfind]
          have hbdir : ∃ s, b.find g.1 = some (.dir s) := by
            rcases dirOr_eq_nil_or (t := b) g.1 with ⟨hbn, _⟩ | ⟨s, hs, _⟩
            · exfalso; apply hgn; rw [hda', hbn]; rfl
            · exact ⟨s, hs⟩
          rcases hbdir with ⟨s, hs⟩
          have hin : g.1 ∈ dDels (specT a.flatten b.flatten) :=
            (hdm g.1).mpr ⟨⟨l, hfind⟩, fun l' hl' => by rw [hs] at hl'; cases hl'⟩
          have : a1.find g.1 = none := by rw [hfa]; simp [hin]
          simp [ctcOrig, this, hda']
    · intro hnil
      have hbn : dirOr b g.1 = .nil := by cases hd : dirOr b g.1 <;> simp_all [Tree.isNil]
      rcases dirOr_eq_nil_or (t := a) g.1 with ⟨han, _⟩ | ⟨s, hs, _⟩
      · exfalso; apply hgn; rw [han, hbn]; rfl
      · have hnd : g.1 ∉ dDels (specT a.flatten b.flatten) := by
          intro hm
          rcases ((hdm g.1).mp hm).1 with ⟨l, hl⟩
          rw [hs] at hl; cases hl
        rw [hf1 g.1, hs]; simp [hnd]
  rcases groups_fold_spec (ctcAux fuel) (fun k => dirOr b k) _ a1 hwf1 hG.1 hcond with ⟨a2, hfold, hwf2, hf2⟩
  -- third loop
  have hsl : ∀ s ∈ dSets (specT a.flatten b.flatten), isDirMode s.2.mode = false := by
    intro s hs
    have := (mem_dSets_specT (k := s.1) (l := s.2)).mp hs
    exact flatten_modes_ok hb _ this.1
  have hS := ctcSets_spec (dSets (specT a.flatten b.flatten)) a2 hwf2 hsl
    (dSets_specT_nodup a.flatten (flatten_sorted hb))
  have hres : ctcAux (fuel + 1) a (specT a.flatten b.flatten) =
      .ok (ctcSets a2 (dSets (specT a.flatten b.flatten))) := by
    simp only [ctcAux, ctcDirect_eq _ hne, hda, List.nil_append, hfold]
  rw [hres]
  congr 1
  apply tree_ext hS.1 hb
  intro k
  rw [hS.2 k, assoc_dSets_find ha hb k, hf2 k, hf1 k]
  -- case analysis on what `b` and `a` hold at `k`
  cases hbk : b.find k with
  | none =>
    have hbn : dirOr b k = .nil := by simp [dirOr, hbk]
    simp only [hbn, Tree.isNil, if_true]
    cases hak : a.find k with
    | none => simp
    | some nd =>
      cases nd with
      | file l =>
        have hin : k ∈ dDels (specT a.flatten b.flatten) :=
          (hdm k).mpr ⟨⟨l, hak⟩, fun l' hl' => by rw [hbk] at hl'; cases hl'⟩
        simp [hin]
      | dir s =>
        have hkG : k ∈ gnames (groupAll [] (nestedOf (specT a.flatten b.flatten))) := by
          rw [hGmem, hbn]
          have : dirOr a k = s := by simp [dirOr, hak]
          rw [this]
          exact specT_ne_nil_left (find_dir_WF ha hak) (find_dir_nonnil ha hak)
        simp [hkG]
  | some nd =>
    cases nd with
    | file l =>
      have hbn : dirOr b k = .nil := by simp [dirOr, hbk]
      by_cases hal : a.find k = some (.file l)
      · have han : dirOr a k = .nil := by simp [dirOr, hal]
        have hkG : k ∉ gnames (groupAll [] (nestedOf (specT a.flatten b.flatten))) := by
          rw [hGmem, han, hbn]; exact fun h => h rfl
        have hnd : k ∉ dDels (specT a.flatten b.flatten) := by
          intro hm; exact ((hdm k).mp hm).2 l hbk
        simp [hal, hkG, hnd]
      · simp [hal]
    | dir s =>
      have hbs : dirOr b k = s := by simp [dirOr, hbk]
      have hsn : s.isNil = false := find_dir_nonnil hb hbk
      simp only []
      by_cases hkG : k ∈ gnames (groupAll [] (nestedOf (specT a.flatten b.flatten)))
      · simp [hkG, hbs, hsn]
      · have hempty : specT (dirOr a k).flatten (dirOr b k).flatten = [] := by
          by_cases hh : specT (dirOr a k).flatten (dirOr b k).flatten = []
          · exact hh
          · exact absurd ((hGmem k).mpr hh) hkG
        have heq : dirOr a k = dirOr b k := specT_nil_eq (dirOr_WF ha k) (dirOr_WF hb k) hempty
        have hak : a.find k = some (.dir s) := by
          rcases dirOr_eq_nil_or (t := a) k with ⟨han, _⟩ | ⟨s', hs', hd'⟩
          · rw [han, hbs] at heq; rw [← heq] at hsn; cases hsn
          · rw [hd', hbs] at heq; rw [hs', heq]
        have hnd : k ∉ dDels (specT a.flatten b.flatten) := by
          intro hm
          rcases ((hdm k).mp hm).1 with ⟨l, hl⟩
          rw [hak] at hl; cases hl
        simp [hkG, hnd, hak]

theorem stripT_some {k : Name} {c0 c : TChange} (h : stripT k c0 = some c) : c0.1 = k :: c.1 := by
  obtain ⟨p, v⟩ := c0
  cases p with
  | nil => simp [stripT] at h
  | cons n p' =>
    cases p' with
    | nil => simp [stripT] at h
    | cons m q =>
      simp only [stripT] at h
      split at h
      · rename_i hn
        simp only [Option.some.injEq] at h
        subst h; subst hn; rfl
      · cases h

theorem mem_specT_sub {a b : Tree} (ha : a.WF = true) (hb : b.WF = true) {k : Name} {c : TChange}
    (hc : c ∈ specT (dirOr a k).flatten (dirOr b k).flatten) :
    ∃ c0 ∈ specT a.flatten b.flatten, c0.1 = k :: c.1 := by
  rw [← subOf_specT ha hb k, subOf_nestedOf, List.mem_filterMap] at hc
  rcases hc with ⟨c0, hc0, hs⟩
  exact ⟨c0, hc0, stripT_some hs⟩

theorem le_maxLen : ∀ (cs : List TChange), ∀ c ∈ cs, c.1.length ≤ maxLen cs := by
  intro cs
  induction cs with
  | nil => intro c hc; cases hc
  | cons x xs ih =>
    intro c hc
    simp only [maxLen]
    rcases List.mem_cons.mp hc with rfl | hc
    · omega
    · have := ih c hc; omega

/-- commit_tree_changes applied to the change list of the diff `a → b` returns `b` (any sufficient fuel) -/
theorem ctcAux_specT : ∀ (fuel : Nat) (a b : Tree), a.WF = true → b.WF = true →
    (∀ c ∈ specT a.flatten b.flatten, c.1.length ≤ fuel) →
    ctcAux (fuel + 1) a (specT a.flatten b.flatten) = .ok b := by
  intro fuel
  induction fuel with
  | zero =>
    intro a b ha hb hlen
    apply ctc_step 0 ha hb
    intro k hne
    exfalso
    cases hs : specT (dirOr a k).flatten (dirOr b k).flatten with
    | nil => exact hne hs
    | cons c cs =>
      rcases mem_specT_sub ha hb (k := k) (c := c) (by rw [hs]; exact List.mem_cons_self) with ⟨c0, hc0, hp⟩
      have := hlen c0 hc0
      rw [hp] at this
      simp at this
  | succ f ih =>
    intro a b ha hb hlen
    apply ctc_step (f + 1) ha hb
    intro k _
    apply ih (dirOr a k) (dirOr b k) (dirOr_WF ha k) (dirOr_WF hb k)
    intro c hc
    rcases mem_specT_sub ha hb hc with ⟨c0, hc0, hp⟩
    have := hlen c0 hc0
    rw [hp] at this
    simp at this
    omega

theorem commitTreeChanges_specT {a b : Tree} (ha : a.WF = true) (hb : b.WF = true) :
    commitTreeChanges a (specT a.flatten b.flatten) = .ok b :=
  ctcAux_specT _ a b ha hb (le_maxLen _)

end Dulwich.TreeOps
