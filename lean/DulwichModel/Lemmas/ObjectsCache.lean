/- Helper lemmas for the ShaFile cache state machine (C01). -/
import DulwichModel.Model.Objects

namespace Dulwich.Objects
open Dulwich

variable {F : Type}

/-- The hash a correct `id` must return for content `b`. -/
def nameOf (H : Bytes → Bytes) (C : Cls F) (b : Bytes) : Option Bytes := (hashInput C.typeNum b).map H

/-- The cached digest, whenever the object is clean, is the hash of the cached text. -/
def CacheOk (H : Bytes → Bytes) (C : Cls F) (s : St F) : Prop :=
  s.needs = false → ∀ d, s.sha = some d → ∃ b, s.chunks = some b ∧ nameOf H C b = some d

/-- Blob: the cached text is the field. -/
def AliasOk (C : Cls F) (s : St F) : Prop := C.alias = true → s.chunks = C.ser s.fields

def Inv (H : Bytes → Bytes) (C : Cls F) (s : St F) : Prop := CacheOk H C s ∧ AliasOk C s

/-- Requirement on a class whose field is the chunk cache (Blob): `_deserialize` cannot fail and
stores exactly the bytes. -/
def AliasClass (C : Cls F) : Prop :=
  C.alias = true → ∀ f b, ∃ f', C.deser f b = some f' ∧ C.ser f' = some b

/-- A step that is not a flag-less setter. -/
def Op.invalidating : Op F → Prop
  | .set k _ => k ≠ 0
  | _ => True

theorem asRawChunks_fst (C : Cls F) (s : St F) : (asRawChunks C s).1 = content C s := by
  unfold asRawChunks content
  split
  · split <;> simp_all
  · rfl

theorem asRawChunks_fields (C : Cls F) (s : St F) : (asRawChunks C s).2.fields = s.fields := by
  unfold asRawChunks
  split
  · split <;> rfl
  · rfl

theorem asRawChunks_content (C : Cls F) (s : St F) : content C (asRawChunks C s).2 = content C s := by
  unfold asRawChunks content
  split
  · rename_i h
    split
    · rename_i h2; simp [h, h2]
    · rename_i b h2; simp [h2]
  · rfl

theorem asRawChunks_inv (H : Bytes → Bytes) (C : Cls F) (s : St F) (h : Inv H C s) :
    Inv H C (asRawChunks C s).2 := by
  unfold asRawChunks
  split
  · split
    · exact ⟨fun _ d hd => by simp at hd, h.2⟩
    · rename_i b hb
      refine ⟨fun _ d hd => by simp at hd, fun _ => ?_⟩
      simp [hb]
  · exact h

theorem shaStep_fields (H : Bytes → Bytes) (C : Cls F) (s : St F) : (shaStep H C s).2.fields = s.fields := by
  unfold shaStep
  split
  · have := asRawChunks_fields C s
    split
    · rename_i s1 h1; rw [h1] at this; exact this
    · rename_i body s1 h1
      rw [h1] at this
      split <;> simpa using this
  · rfl

theorem shaStep_content (H : Bytes → Bytes) (C : Cls F) (s : St F) : content C (shaStep H C s).2 = content C s := by
  unfold shaStep
  split
  · have := asRawChunks_content C s
    split
    · rename_i s1 h1; rw [h1] at this; exact this
    · rename_i body s1 h1
      rw [h1] at this
      split
      · exact this
      · simpa [content] using this
  · rfl

theorem shaStep_inv (H : Bytes → Bytes) (C : Cls F) (s : St F) (h : Inv H C s) : Inv H C (shaStep H C s).2 := by
  unfold shaStep
  split
  · have hi := asRawChunks_inv H C s h
    have hf := asRawChunks_fst C s
    have hc := asRawChunks_content C s
    split
    · rename_i s1 h1; rw [h1] at hi; exact hi
    · rename_i body s1 h1
      rw [h1] at hi hf hc
      split
      · exact hi
      · rename_i inp hinp
        refine ⟨fun hn d hd => ?_, hi.2⟩
        simp only [Option.some.injEq] at hd
        -- the state is clean, so its content is the cached text, which is `body`
        have hcs : s1.chunks = some body := by
          have : content C s1 = some body := by rw [hc, ← hf]
          simpa [content, show s1.needs = false from hn] using this
        exact ⟨body, hcs, by simp [nameOf, hinp, hd]⟩
  · exact h

/-- **`id` is the hash of the content**, in every state satisfying the invariant. -/
theorem shaStep_fst (H : Bytes → Bytes) (C : Cls F) (s : St F) (h : Inv H C s) :
    (shaStep H C s).1 = (content C s).bind (nameOf H C) := by
  unfold shaStep
  split
  · have hf := asRawChunks_fst C s
    split
    · rename_i s1 h1; rw [h1] at hf; simp [← hf]
    · rename_i body s1 h1
      rw [h1] at hf
      simp only at hf
      rw [← hf]
      simp only [Option.bind_some, nameOf]
      split <;> simp_all
  · rename_i hc
    simp only [Bool.or_eq_true, Option.isNone_iff_eq_none, not_or, Bool.not_eq_true] at hc
    obtain ⟨hs, hn⟩ := hc
    cases hsd : s.sha with
    | none => exact absurd hsd hs
    | some d =>
      obtain ⟨b, hb, hname⟩ := h.1 hn d hsd
      simp [content, hn, hb, hname]

theorem setRawStep_inv (H : Bytes → Bytes) (C : Cls F) (hA : AliasClass C) (b : Bytes) (s : St F) :
    Inv H C (setRawStep C b s) := by
  unfold setRawStep
  split
  · rename_i f hf
    refine ⟨fun _ d hd => by simp at hd, fun ha => ?_⟩
    obtain ⟨f', h1, h2⟩ := hA ha s.fields b
    rw [hf] at h1
    cases h1
    simp [h2]
  · rename_i hf
    refine ⟨fun _ d hd => by simp at hd, fun ha => ?_⟩
    obtain ⟨f', h1, _⟩ := hA ha s.fields b
    rw [hf] at h1
    cases h1

theorem setStep_inv (H : Bytes → Bytes) (C : Cls F) (hA : AliasClass C) (k : Nat) (u : F → F) (s : St F)
    (hk : k ≠ 0) (h : Inv H C s) : Inv H C (setStep C k u s) := by
  unfold setStep
  match k, hk with
  | 1, _ =>
    refine ⟨fun hn => by simp at hn, fun ha => ?_⟩
    simp [ha]
  | 2, _ =>
    simp only
    split
    · exact setRawStep_inv H C hA _ s
    · exact h
  | 3, _ =>
    refine ⟨fun _ d hd => by simp at hd, fun ha => ?_⟩
    simp [ha]
  | k + 4, _ =>
    simp only
    split
    · exact setRawStep_inv H C hA _ s
    · exact h

/-- The invariant is preserved by every step that is not a flag-less setter. -/
theorem step_inv (H : Bytes → Bytes) (C : Cls F) (hA : AliasClass C) (s : St F) (op : Op F)
    (hop : op.invalidating) (h : Inv H C s) : Inv H C (step H C s op) := by
  cases op with
  | set k u => exact setStep_inv H C hA k u s hop h
  | setRaw b => exact setRawStep_inv H C hA b s
  | getId => exact shaStep_inv H C s h
  | asRaw => exact asRawChunks_inv H C s h

theorem run_inv (H : Bytes → Bytes) (C : Cls F) (hA : AliasClass C) : ∀ (ops : List (Op F)) (s : St F),
    (∀ op ∈ ops, op.invalidating) → Inv H C s → Inv H C (run H C s ops) := by
  intro ops
  induction ops with
  | nil => intro s _ h; exact h
  | cons op ops ih =>
    intro s hops h
    simp only [run, List.foldl_cons]
    exact ih _ (fun o ho => hops o (List.mem_cons_of_mem _ ho))
      (step_inv H C hA s op (hops op List.mem_cons_self) h)

/-- Reads: `id` and `as_raw_string()`. -/
def Op.isRead : Op F → Prop
  | .getId => True
  | .asRaw => True
  | _ => False

theorem run_reads (H : Bytes → Bytes) (C : Cls F) : ∀ (ops : List (Op F)) (s : St F),
    (∀ op ∈ ops, op.isRead) →
    content C (run H C s ops) = content C s ∧ (run H C s ops).fields = s.fields := by
  intro ops
  induction ops with
  | nil => intro s _; exact ⟨rfl, rfl⟩
  | cons op ops ih =>
    intro s hops
    simp only [run, List.foldl_cons]
    have hr := hops op List.mem_cons_self
    have := ih (step H C s op) (fun o ho => hops o (List.mem_cons_of_mem _ ho))
    cases op with
    | set k u => exact absurd hr (by simp [Op.isRead])
    | setRaw b => exact absurd hr (by simp [Op.isRead])
    | getId =>
      simp only [step] at this ⊢
      rw [shaStep_content, shaStep_fields] at this
      exact this
    | asRaw =>
      simp only [step] at this ⊢
      rw [asRawChunks_content, asRawChunks_fields] at this
      exact this

theorem isRead_invalidating {op : Op F} (h : op.isRead) : op.invalidating := by
  cases op <;> simp_all [Op.isRead, Op.invalidating]

end Dulwich.Objects
