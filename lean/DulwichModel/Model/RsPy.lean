/-
  C15 — two models per function that dulwich implements twice (pure Python / Rust extension).
  This file: what both sides share (exception classes, byte-string order, the stable sort the two
  standard libraries provide) and the tree functions:

    Python  dulwich/objects.py     parse_tree, sorted_tree_items, key_entry, key_entry_name_order
    Rust    crates/objects/src/lib.rs   parse_tree, cmp_with_suffix, sorted_tree_items

  Each side is transcribed from its own source; nothing is shared between `…Py` and `…Rs` except
  language-level primitives (lexicographic order of byte strings, hex digits, "a stable sort").
  Every constant the code uses (radix 8, integer widths, S_IFMT/S_IFDIR, the terminator bytes, the `/`
  suffix, the mode pattern and bound) comes from Gen/RsPy.lean, which the translator regenerates from
  the sources.

  The definitions without suffix describe the code AFTER the C15 repair series (findings/C15.jsonl,
  `fixed`); the `…Old` variants describe the code before it and are used only for the regression
  witnesses in Props/C15.lean (their constants are literals: the sources no longer contain them).
-/
import DulwichModel.Model.Basic
import DulwichModel.Gen.RsPy

namespace Dulwich.RsPy
open Dulwich

/-! ## exception classes (what `type(e).__name__` shows in the child process) -/

inductive Exc where
  | objectFormat   -- dulwich.errors.ObjectFormatException
  | value          -- ValueError
  | type           -- TypeError
  | overflow       -- OverflowError
  | assertion      -- AssertionError
  | index          -- IndexError (raised by the `unpack_name` callback of the harness)
  | panic          -- pyo3_runtime.PanicException (a BaseException): Rust panic in a debug build
  | fuel           -- model artefact: loop bound exhausted (proved unreachable)
  deriving DecidableEq, Repr, Inhabited

def Exc.toString : Exc → String
  | .objectFormat => "ObjectFormatException" | .value => "ValueError" | .type => "TypeError"
  | .overflow => "OverflowError" | .assertion => "AssertionError" | .index => "IndexError"
  | .panic => "PanicException" | .fuel => "out-of-fuel"

instance : ToString Exc := ⟨Exc.toString⟩

/-- The observable the property speaks about: the return value, or "it failed". -/
def obs {α : Type} : Except Exc α → Option α
  | .ok a => some a
  | .error _ => none

/-! ## byte strings: lexicographic order (Python `bytes.__lt__`, Rust `<[u8] as Ord>::cmp`) -/

def cmpU8 (a b : UInt8) : Ordering :=
  if a.toNat < b.toNat then .lt else if b.toNat < a.toNat then .gt else .eq

def cmpBytes : Bytes → Bytes → Ordering
  | [], [] => .eq
  | [], _ :: _ => .lt
  | _ :: _, [] => .gt
  | x :: xs, y :: ys =>
    if x.toNat < y.toNat then .lt else if y.toNat < x.toNat then .gt else cmpBytes xs ys

def bytesLt (a b : Bytes) : Bool := cmpBytes a b == .lt

/-- Position of the first `b` in a byte string (`bytes.index`, `memchr`). -/
def findByte (b : UInt8) : Bytes → Option Nat
  | [] => none
  | c :: cs => if c = b then some 0 else (findByte b cs).map (· + 1)

/-- Lower-case hex of a byte string (`binascii.hexlify`, Rust `bytehex`). -/
def hexNibble (n : Nat) : UInt8 := if n < 10 then UInt8.ofNat (48 + n) else UInt8.ofNat (87 + n)

def hexlify : Bytes → Bytes
  | [] => []
  | c :: cs => hexNibble (c.toNat / 16) :: hexNibble (c.toNat % 16) :: hexlify cs

/-! ## the stable sort both standard libraries provide

`sorted(key=…)` (timsort) and `slice::sort_by` are stable sorts.  For a comparator that is a total
preorder the stable result is unique; the definition below is in addition *exactly* what Rust's
`sort_by` computes on at most 20 elements for any comparator whatsoever (`insertion_sort_shift_left`:
each element in turn is shifted left while it is less than its left neighbour).  The accumulator is the
sorted prefix, reversed. -/

def insertRev {α : Type} (lt : α → α → Bool) (x : α) : List α → List α
  | [] => [x]
  | y :: ys => if lt x y then y :: insertRev lt x ys else x :: y :: ys

def stableSort {α : Type} (lt : α → α → Bool) (l : List α) : List α :=
  (l.foldl (fun rev x => insertRev lt x rev) []).reverse

/-! ## integer literals -/

/-- value of an ASCII digit below `base` (`base ≤ 10`) -/
def digit? (base : Nat) (c : UInt8) : Option Nat :=
  if 48 ≤ c.toNat ∧ c.toNat < 48 + base then some (c.toNat - 48) else none

/-- `Py_ISSPACE`: space, \t \n \v \f \r -/
def pyIsSpace (c : UInt8) : Bool := c.toNat = 32 || (9 ≤ c.toNat && c.toNat ≤ 13)

def dropSpaces : Bytes → Bytes
  | [] => []
  | c :: cs => if pyIsSpace c then dropSpaces cs else c :: cs

/-- The digit/underscore scan of CPython's `long_from_string_base` after the first digit:
`us` = "the previous character was `_`".  Stops at the first character that is neither; a doubled or
trailing underscore is a syntax error. -/
def pyScan (base : Nat) : Bytes → Bool → Nat → Option (Nat × Bytes)
  | [], us, acc => if us then none else some (acc, [])
  | c :: cs, us, acc =>
    if c.toNat = 95 then (if us then none else pyScan base cs true acc)
    else match digit? base c with
      | some d => pyScan base cs false (acc * base + d)
      | none => if us then none else some (acc, c :: cs)

/-- one optional sign -/
def pySign (s : Bytes) : Bool × Bytes :=
  match s with
  | c :: r => if c.toNat = 43 then (false, r) else if c.toNat = 45 then (true, r) else (false, s)
  | [] => (false, s)

/-- optional `0o` / `0O` prefix (base 8 only), optionally followed by one underscore -/
def pyPrefix (base : Nat) (s : Bytes) : Bytes :=
  match s with
  | z :: o :: r =>
    if z.toNat = 48 ∧ base = 8 ∧ (o.toNat = 111 ∨ o.toNat = 79) then
      (match r with
       | u :: r' => if u.toNat = 95 then r' else r
       | [] => r)
    else s
  | _ => s

/-- the digit string: must start with a digit (empty string, leading underscore, junk: error) -/
def pyDigits (base : Nat) (s : Bytes) : Option (Nat × Bytes) :=
  match s with
  | [] => none
  | c :: cs =>
    match digit? base c with
    | none => none
    | some d => pyScan base cs false d

/-- CPython `int(tok, base)` on a `bytes` token for `base = 8` (`_PyLong_FromBytes` →
`PyLong_FromString`): leading whitespace, one sign, an optional `0o`/`0O` prefix optionally followed by
one underscore, digits with single underscores between them, trailing whitespace, then the end of the
token (an embedded NUL ends the C string early and fails the length check — same as "junk left").
Arbitrary precision.  `none` = `ValueError`. -/
def pyInt (base : Nat) (tok : Bytes) : Option Int :=
  let sg := pySign (dropSpaces tok)
  match pyDigits base (pyPrefix base sg.2) with
  | none => none
  | some (v, rest) =>
    if (dropSpaces rest).isEmpty then some (if sg.1 then -(Int.ofNat v) else Int.ofNat v) else none

/-- the digit loop of Rust's `from_str_radix` for an unsigned type of `bits` bits
(`checked_mul`, `checked_add`). -/
def rsDigits (radix bits : Nat) : Bytes → Nat → Option Nat
  | [], acc => some acc
  | c :: cs, acc =>
    match digit? radix c with
    | none => none                                   -- InvalidDigit
    | some d =>
      if acc * radix ≥ 2 ^ bits then none            -- PosOverflow
      else if acc * radix + d ≥ 2 ^ bits then none   -- PosOverflow
      else rsDigits radix bits cs (acc * radix + d)

/-- `u32::from_str_radix(String::from_utf8_lossy(tok), 8)`: empty → error; a lone sign → error; one
leading `+` is skipped (`-` is not, the type is unsigned); every other character must be a digit
(bytes ≥ 0x80, replaced or not by U+FFFD, never are). -/
def rsFromStrRadix (radix bits : Nat) (tok : Bytes) : Option Nat :=
  match tok with
  | [] => none
  | [c] => if c.toNat = 43 ∨ c.toNat = 45 then none else rsDigits radix bits [c] 0
  | c :: rest => if c.toNat = 43 then rsDigits radix bits rest 0 else rsDigits radix bits (c :: rest) 0

/-! ## parse_tree -/

structure TreeEntry where
  name : Bytes
  mode : Int
  hexsha : Bytes
  deriving DecidableEq, Repr

/-- Python `text[a:b]` for `0 ≤ a`, `0 ≤ b`. -/
def pySlice (t : Bytes) (a b : Nat) : Bytes := (t.drop a).take (b - a)

/-- Python `text.index(sep, start)`; `none` = `ValueError`. -/
def pyIndex (t : Bytes) (b : UInt8) (start : Nat) : Option Nat :=
  (findByte b (t.drop start)).map (· + start)

/-- `_TREE_MODE_RE.fullmatch(mode_text)` for the pattern `[lo-hi]+` the translator read. -/
def pyModeRegex (tok : Bytes) : Bool :=
  !tok.isEmpty && tok.all fun c => decide (Gen.pyModeReLo ≤ c.toNat) && decide (c.toNat ≤ Gen.pyModeReHi)

/-- The mode of a token in the repaired Python `parse_tree`: the pattern, then `int(mode_text, 8)`, then
the bound.  `none` = `ObjectFormatException` (`int()` cannot fail after the pattern:
`Lemmas.pyInt_of_regex`). -/
def pyModeTok (tok : Bytes) : Option Int :=
  if pyModeRegex tok then
    match pyInt Gen.pyModeBase tok with
    | none => none
    | some m => if m > Gen.pyModeMax then none else some m
  else none

inductive PyStep where
  | done
  | fail (e : Exc)
  | entry (e : TreeEntry) (count : Nat)

/-- One iteration of the `while count < length` loop of Python `parse_tree`; `modeFn` is what the
code does with the mode token after the `strict` check (`none` = `ObjectFormatException`). -/
def pyParseStepG (modeFn : Bytes → Option Int) (text : Bytes) (shaLen : Option Nat) (strict : Bool)
    (count : Nat) : PyStep :=
  if ¬ (count < text.length) then .done else
  match pyIndex text Gen.pyModeTerm count with
  | none => .fail .value                                        -- text.index(b" ", count)
  | some modeEnd =>
    let modeText := pySlice text count modeEnd
    if strict ∧ modeText.head? = some Gen.pyStrictLead then .fail .objectFormat else
    match modeFn modeText with
    | none => .fail .objectFormat
    | some mode =>
      match pyIndex text Gen.pyNameTerm modeEnd with
      | none => .fail .value                                    -- text.index(b"\0", mode_end)
      | some nameEnd =>
        let name := pySlice text (modeEnd + 1) nameEnd
        match shaLen with
        | none => .fail .objectFormat                           -- "sha_len must be specified"
        | some n =>
          let count' := nameEnd + 1 + n
          if count' > text.length then .fail .objectFormat else
          let sha := pySlice text (nameEnd + 1) count'
          if sha.length ≠ n then .fail .objectFormat else
          let hx := hexlify sha
          if hx.length ∉ Gen.pyHexLens then .fail .value        -- sha_to_hex
          else .entry ⟨name, mode, hx⟩ count'

/-- `list(parse_tree(text, sha_len, strict=strict))`.  Every iteration advances `count` by at least
two bytes, so `text.length + 1` iterations suffice (`Props.C15.parse_tree_fuel`). -/
def pyParseLoopG (modeFn : Bytes → Option Int) (text : Bytes) (shaLen : Option Nat) (strict : Bool) :
    Nat → Nat → Except Exc (List TreeEntry)
  | 0, _ => .error .fuel
  | fuel + 1, count =>
    match pyParseStepG modeFn text shaLen strict count with
    | .done => .ok []
    | .fail e => .error e
    | .entry e c =>
      match pyParseLoopG modeFn text shaLen strict fuel c with
      | .ok es => .ok (e :: es)
      | .error x => .error x

/-- Python `parse_tree` (repaired: pattern `[0-7]+`, value ≤ 0xFFFFFFFF). -/
def parseTreePy (text : Bytes) (shaLen : Option Nat) (strict : Bool) : Except Exc (List TreeEntry) :=
  pyParseLoopG pyModeTok text shaLen strict (text.length + 1) 0

/-- Python `parse_tree` before the repair: `int(mode_text, 8)`, `ValueError` → `ObjectFormatException`. -/
def parseTreePyOld (text : Bytes) (shaLen : Option Nat) (strict : Bool) : Except Exc (List TreeEntry) :=
  pyParseLoopG (pyInt 8) text shaLen strict (text.length + 1) 0

inductive RsStep where
  | done
  | fail (e : Exc)
  | entry (e : TreeEntry) (rest : Bytes)

/-- One iteration of `while !text.is_empty()` of Rust `parse_tree`; `text` is the remaining slice and
`modeOf text mode_end` what the code does to obtain the mode (`none` = `ObjectFormatException`). -/
def rsParseStepG (modeOf : Bytes → Nat → Option Nat) (shaLen : Nat) (strict : Bool) (text : Bytes) : RsStep :=
  if text.isEmpty then .done else
  match findByte Gen.rsModeTerm text with
  | none => .fail .objectFormat                                 -- "Missing terminator for mode"
  | some modeEnd =>
    match modeOf text modeEnd with
    | none => .fail .objectFormat                               -- "invalid mode"
    | some mode =>
      if strict ∧ text.head? = some Gen.rsStrictLead then .fail .objectFormat else
      let text1 := text.drop (modeEnd + 1)
      match findByte Gen.rsNameTerm text1 with
      | none => .fail .objectFormat                             -- "Missing trailing \0"
      | some namelen =>
        let name := text1.take namelen
        let text2 := text1.drop (namelen + 1)
        if text2.length < shaLen then .fail .objectFormat       -- "SHA truncated"
        else .entry ⟨name, Int.ofNat mode, hexlify (text2.take shaLen)⟩ (text2.drop shaLen)

def rsParseLoopG (modeOf : Bytes → Nat → Option Nat) (shaLen : Nat) (strict : Bool) :
    Nat → Bytes → Except Exc (List TreeEntry)
  | 0, _ => .error .fuel
  | fuel + 1, text =>
    match rsParseStepG modeOf shaLen strict text with
    | .done => .ok []
    | .fail e => .error e
    | .entry e rest =>
      match rsParseLoopG modeOf shaLen strict fuel rest with
      | .ok es => .ok (e :: es)
      | .error x => .error x

/-- Repaired Rust: `if text[0] == b'+' { error }`, then `u32::from_str_radix(lossy(text[..mode_end]), 8)`. -/
def rsModeOf (text : Bytes) (modeEnd : Nat) : Option Nat :=
  if text.head? = some Gen.rsRejectLead then none
  else rsFromStrRadix Gen.rsModeRadix Gen.rsModeBits (text.take modeEnd)

/-- Before the repair: `from_str_radix` alone (accepts one leading `+`). -/
def rsModeOfOld (text : Bytes) (modeEnd : Nat) : Option Nat := rsFromStrRadix 8 32 (text.take modeEnd)

/-- Rust `parse_tree(text, sha_len, strict)`; `sha_len=None` is a `TypeError` at the call boundary. -/
def parseTreeRs (text : Bytes) (shaLen : Option Nat) (strict : Bool) : Except Exc (List TreeEntry) :=
  match shaLen with
  | none => .error .type
  | some n => rsParseLoopG rsModeOf n strict (text.length + 1) text

def parseTreeRsOld (text : Bytes) (shaLen : Option Nat) (strict : Bool) : Except Exc (List TreeEntry) :=
  match shaLen with
  | none => .error .type
  | some n => rsParseLoopG rsModeOfOld n strict (text.length + 1) text

/-! ## sorted_tree_items -/

/-- C `S_ISDIR(mode)` behind Python's `stat.S_ISDIR`: the argument is converted to `mode_t` (32-bit
unsigned) first; out of range is an `OverflowError`. -/
def pyIsDir (mode : Int) : Except Exc Bool :=
  if mode < 0 ∨ mode ≥ 2 ^ Gen.pyModeTBits then .error .overflow
  else .ok (Nat.land mode.toNat Gen.pySIfmt == Gen.pySIfdir)

/-- `key_entry`: `name + b"/"` for directories. -/
def pyKeyEntry (e : TreeEntry) : Except Exc Bytes :=
  match pyIsDir e.mode with
  | .error x => .error x
  | .ok d => .ok (if d then e.name ++ [Gen.pyDirSuffix] else e.name)

def pyKeyAll : List TreeEntry → Except Exc (List (Bytes × TreeEntry))
  | [] => .ok []
  | e :: es =>
    match pyKeyEntry e with
    | .error x => .error x
    | .ok k =>
      match pyKeyAll es with
      | .error x => .error x
      | .ok ks => .ok ((k, e) :: ks)

/-- Python `list(sorted_tree_items(entries, name_order))` before the repair; `entries` in dictionary
order, values typed `(int, bytes)`.  `sorted` computes every key before comparing anything. -/
def sortedTreeItemsPyOld (entries : List TreeEntry) (nameOrder : Bool) : Except Exc (List TreeEntry) :=
  if nameOrder then .ok (stableSort (fun a b => bytesLt a.name b.name) entries)
  else
    match pyKeyAll entries with
    | .error x => .error x
    | .ok keyed => .ok ((stableSort (fun p q => bytesLt p.1 q.1) keyed).map (·.2))

/-- the range check of the loop body: `if not 0 <= mode <= 0xFFFFFFFF: raise TypeError` -/
def pyModeInRange (e : TreeEntry) : Bool := decide (0 ≤ e.mode) && decide (e.mode ≤ Gen.pySortModeMax)

/-- Python `list(sorted_tree_items(entries, name_order))` (repaired: every mode is range-checked while
the sorted entries are produced). -/
def sortedTreeItemsPy (entries : List TreeEntry) (nameOrder : Bool) : Except Exc (List TreeEntry) :=
  match sortedTreeItemsPyOld entries nameOrder with
  | .error x => .error x
  | .ok sorted => if sorted.all pyModeInRange then .ok sorted else .error .type

def rsObjIsDir (mode : Nat) : Bool := Nat.land mode Gen.rsObjSIfmt == Gen.rsObjSIfdir

/-- the virtual suffix of a name: `b"/"` for a directory, `b""` otherwise -/
def rsSuffix (mode : Nat) : Bytes := if rsObjIsDir mode then [Gen.rsDirSuffix] else []

/-- Rust `cmp_with_suffix((mode, name), (mode, name))` (repaired): common prefix by slice comparison,
then `rest_a.iter().chain(suffix_a).cmp(rest_b.iter().chain(suffix_b))`. -/
def rsCmpWithSuffix (a b : Nat × Bytes) : Ordering :=
  let len := min a.2.length b.2.length
  let c := cmpBytes (a.2.take len) (b.2.take len)
  if c ≠ .eq then c else
  cmpBytes (a.2.drop len ++ rsSuffix a.1) (b.2.drop len ++ rsSuffix b.1)

/-- Before the repair: ONE byte past the common prefix, `0` standing for "no suffix". -/
def rsCmpWithSuffixOld (a b : Nat × Bytes) : Ordering :=
  let len := min a.2.length b.2.length
  let c := cmpBytes (a.2.take len) (b.2.take len)
  if c ≠ .eq then c else
  let c1 : UInt8 := match a.2[len]? with
    | some ch => ch
    | none => if rsObjIsDir a.1 then 47 else 0
  let c2 : UInt8 := match b.2[len]? with
    | some ch => ch
    | none => if rsObjIsDir b.1 then 47 else 0
  cmpU8 c1 c2

/-- `value.extract::<(u32, Vec<u8>)>()` for every entry, in dictionary order. -/
def rsExtractAll (bits : Nat) : List TreeEntry → Except Exc (List (Bytes × Nat × Bytes))
  | [] => .ok []
  | e :: es =>
    if e.mode < 0 ∨ e.mode ≥ 2 ^ bits then .error .type        -- "invalid type: OverflowError…"
    else
      match rsExtractAll bits es with
      | .error x => .error x
      | .ok r => .ok ((e.name, e.mode.toNat, e.hexsha) :: r)

/-- Rust `sorted_tree_items(entries, name_order)` with the tree-order comparator `cmp`. -/
def sortedTreeItemsRsG (cmp : Nat × Bytes → Nat × Bytes → Ordering) (entries : List TreeEntry)
    (nameOrder : Bool) : Except Exc (List TreeEntry) :=
  match rsExtractAll Gen.rsSortModeBits entries with
  | .error x => .error x
  | .ok q =>
    let sorted :=
      if nameOrder then stableSort (fun a b => cmpBytes a.1 b.1 == .lt) q
      else stableSort (fun a b => cmp (a.2.1, a.1) (b.2.1, b.1) == .lt) q
    .ok (sorted.map fun t => ⟨t.1, Int.ofNat t.2.1, t.2.2⟩)

def sortedTreeItemsRs := sortedTreeItemsRsG rsCmpWithSuffix
def sortedTreeItemsRsOld := sortedTreeItemsRsG rsCmpWithSuffixOld

end Dulwich.RsPy
