/-
  C15 — rename-detection helpers with two implementations.

    Python  dulwich/diff_tree.py          _tree_entries, _merge_entries, _is_tree, _count_blocks
            dulwich/objects.py            TreeEntry.in_path (posixpath.join)
    Rust    crates/diff-tree/src/lib.rs   tree_entries, _merge_entries, _is_tree, _count_blocks

  A tree argument is `none` (Python `None`) or the entry dictionary of a `Tree` in insertion order.
  `Tree.iteritems(name_order=True)` is `sorted_tree_items(entries, True)` — the Python one in the
  pure-Python configuration, the Rust one when the extensions are loaded.
-/
import DulwichModel.Model.RsPy

namespace Dulwich.RsPy
open Dulwich

/-! ## _merge_entries -/

/-- `posixpath.join(a, b)` on bytes (what `TreeEntry.in_path` does; used by `_tree_entries` before the
repair): an absolute `b` replaces `a`; no separator is inserted after an empty `a` or one that already
ends with `/`. -/
def pyPosixJoin (a b : Bytes) : Bytes :=
  if b.head? = some 47 then b
  else if a.isEmpty ∨ a.getLast? = some 47 then a ++ b
  else a ++ 47 :: b

/-- repaired `_tree_entries`: `path + b"/" + entry.path if path else entry.path` -/
def pyJoin (path name : Bytes) : Bytes :=
  if ¬ path.isEmpty then path ++ Gen.pyPathSep :: name else name

/-- Python `_tree_entries(path, tree)` with the sort and the join of the given code version. -/
def pyTreeEntriesG (sortFn : List TreeEntry → Bool → Except Exc (List TreeEntry)) (join : Bytes → Bytes → Bytes)
    (path : Bytes) (tree : Option (List TreeEntry)) : Except Exc (List TreeEntry) :=
  match tree with
  | none => .ok []                                              -- `if not tree`
  | some [] => .ok []                                           -- `if not tree` (empty tree is falsy)
  | some es =>
    match sortFn es true with
    | .error x => .error x
    | .ok items => .ok (items.map fun e => ⟨join path e.name, e.mode, e.hexsha⟩)

def pyTreeEntries := pyTreeEntriesG sortedTreeItemsPy pyJoin
def pyTreeEntriesOld := pyTreeEntriesG sortedTreeItemsPyOld pyPosixJoin

/-- The two-pointer loop of Python `_merge_entries` (`<`, `>`, else), then the two tails. -/
def pyMergeLoop : Nat → List TreeEntry → List TreeEntry → List (Option TreeEntry × Option TreeEntry)
  | 0, _, _ => []
  | _ + 1, [], l2 => l2.map fun e => (none, some e)
  | _ + 1, e1 :: r1, [] => (e1 :: r1).map fun e => (some e, none)
  | fuel + 1, e1 :: r1, e2 :: r2 =>
    if bytesLt e1.name e2.name then (some e1, none) :: pyMergeLoop fuel r1 (e2 :: r2)
    else if bytesLt e2.name e1.name then (none, some e2) :: pyMergeLoop fuel (e1 :: r1) r2
    else (some e1, some e2) :: pyMergeLoop fuel r1 r2

abbrev MergeResult := List (Option TreeEntry × Option TreeEntry)

/-- Python `_merge_entries(path, tree1, tree2)` (entries carry the joined path in `.name`). -/
def mergeEntriesPy (path : Bytes) (t1 t2 : Option (List TreeEntry)) : Except Exc MergeResult :=
  match pyTreeEntries path t1 with
  | .error x => .error x
  | .ok e1 =>
    match pyTreeEntries path t2 with
    | .error x => .error x
    | .ok e2 => .ok (pyMergeLoop (e1.length + e2.length + 1) e1 e2)

def mergeEntriesPyOld (path : Bytes) (t1 t2 : Option (List TreeEntry)) : Except Exc MergeResult :=
  match pyTreeEntriesOld path t1 with
  | .error x => .error x
  | .ok e1 =>
    match pyTreeEntriesOld path t2 with
    | .error x => .error x
    | .ok e2 => .ok (pyMergeLoop (e1.length + e2.length + 1) e1 e2)

/-- Rust `tree_entries`: `path + "/" + name` unless `path` is empty; mode extracted as `u32`. -/
def rsJoin (path name : Bytes) : Bytes :=
  if ¬ path.isEmpty then path ++ Gen.rsPathSep :: name else name

def rsTreeEntriesMap (path : Bytes) : List TreeEntry → Except Exc (List TreeEntry)
  | [] => .ok []
  | e :: es =>
    if e.mode < 0 ∨ e.mode ≥ 2 ^ Gen.rsMergeModeBits then .error .type
    else
      match rsTreeEntriesMap path es with
      | .error x => .error x
      | .ok r => .ok (⟨rsJoin path e.name, e.mode, e.hexsha⟩ :: r)

def rsTreeEntries (path : Bytes) (tree : Option (List TreeEntry)) : Except Exc (List TreeEntry) :=
  match tree with
  | none => .ok []                                              -- `tree.is_none()`
  | some es =>
    match sortedTreeItemsRs es true with                        -- tree.iteritems(True)
    | .error x => .error x
    | .ok items => rsTreeEntriesMap path items

/-- The Rust loop: `match path1.cmp(path2)`. -/
def rsMergeLoop : Nat → List TreeEntry → List TreeEntry → MergeResult
  | 0, _, _ => []
  | _ + 1, [], l2 => l2.map fun e => (none, some e)
  | _ + 1, e1 :: r1, [] => (e1 :: r1).map fun e => (some e, none)
  | fuel + 1, e1 :: r1, e2 :: r2 =>
    match cmpBytes e1.name e2.name with
    | .eq => (some e1, some e2) :: rsMergeLoop fuel r1 r2
    | .lt => (some e1, none) :: rsMergeLoop fuel r1 (e2 :: r2)
    | .gt => (none, some e2) :: rsMergeLoop fuel (e1 :: r1) r2

def mergeEntriesRs (path : Bytes) (t1 t2 : Option (List TreeEntry)) : Except Exc MergeResult :=
  match rsTreeEntries path t1 with
  | .error x => .error x
  | .ok e1 =>
    match rsTreeEntries path t2 with
    | .error x => .error x
    | .ok e2 => .ok (rsMergeLoop (e1.length + e2.length + 1) e1 e2)

/-! ## _is_tree: argument is `None`, an entry whose mode is `None`, or an entry with an int mode -/

inductive IsTreeArg where
  | noEntry
  | noMode
  | mode (m : Int)
  deriving DecidableEq, Repr

def isTreePy : IsTreeArg → Except Exc Bool
  | .noEntry => .ok false
  | .noMode => .ok false
  | .mode m => pyIsDir m                                        -- stat.S_ISDIR(entry.mode)

def isTreeRs : IsTreeArg → Except Exc Bool
  | .noEntry => .ok false
  | .noMode => .ok false
  | .mode m =>
    if m < 0 ∨ m ≥ 2 ^ Gen.rsIsTreeModeBits then .error .overflow   -- mode.extract::<u32>()
    else .ok (Nat.land m.toNat Gen.rsDiffSIfmt == Gen.rsDiffSIfdir)

/-! ## _count_blocks: the sequence of blocks whose `hash()` keys the result dictionary -/

/-- Python: one pass over `chain.from_iterable(chunks)` with a byte counter `n` beside the buffer. -/
def pyBlocksLoop (bs : Nat) : Bytes → Bytes → Nat → List Bytes
  | [], block, n => if n > 0 then [block] else []
  | c :: cs, block, n =>
    if c = Gen.pyBlockNl ∨ n + 1 = bs then (block ++ [c]) :: pyBlocksLoop bs cs [] 0
    else pyBlocksLoop bs cs (block ++ [c]) (n + 1)

def countBlocksPy (bs : Nat) (chunks : List Bytes) : List Bytes :=
  pyBlocksLoop bs chunks.flatten [] 0

/-- Rust: nested loops (chunks, bytes), the buffer's own length is the counter. -/
def rsChunkLoop (bs : Nat) : Bytes → Bytes → List Bytes × Bytes
  | [], block => ([], block)
  | c :: cs, block =>
    let block' := block ++ [c]
    if c = Gen.rsBlockNl ∨ block'.length = bs then
      let r := rsChunkLoop bs cs []
      (block' :: r.1, r.2)
    else rsChunkLoop bs cs block'

def rsChunksLoop (bs : Nat) : List Bytes → Bytes → List Bytes
  | [], block => if ¬ block.isEmpty then [block] else []
  | ch :: chs, block =>
    let r := rsChunkLoop bs ch block
    r.1 ++ rsChunksLoop bs chs r.2

def countBlocksRs (bs : Nat) (chunks : List Bytes) : List Bytes := rsChunksLoop bs chunks []

/-- The dictionary both build: block ↦ total number of bytes (keyed by the block here, by
`hash(block)` in the code; the harness maps one to the other with the child's own `hash`). -/
def blockCounts : List Bytes → List (Bytes × Nat)
  | [] => []
  | b :: bs =>
    let r := blockCounts bs
    if r.any (·.1 == b) then r.map fun p => if p.1 == b then (p.1, p.2 + b.length) else p
    else (b, b.length) :: r

end Dulwich.RsPy
