/-
  Model of `dulwich.refs.check_ref_format` and `RefsContainer._check_refname` (C16).

  `check_ref_format` is modelled as *the code's own sequence of tests*: the translator turns every
  statement of the Python function into one `Gen.Refs.RefTest` (in source order) and `runTests`
  interprets that list with Python's semantics (`return False` on the first test that fires,
  `IndexError` for `refname[-1]` on an empty name).  The declarative counterpart — the rule list of
  git-check-ref-format(1) — is `GitRefRules` in Props/C16.lean; it does not look at the generated
  list.  Core Lean only.
-/
import DulwichModel.Model.Basic
import DulwichModel.Gen.Refs

namespace Dulwich.RefFormat
open Dulwich Dulwich.Gen.Refs

/-- compile-time byte-string literal: `b!"refs/heads/a"` is the list of its UTF-8 bytes -/
scoped macro:max "b!" s:str : term => do
  let bs := s.getString.toUTF8.toList
  let elems ← bs.toArray.mapM (fun b => `(($(Lean.quote b.toNat) : UInt8)))
  `(([$elems,*] : List UInt8))

/-- Python `pat in s` for bytes -/
def hasInfix (pat : Bytes) : Bytes → Bool
  | [] => pat.isEmpty
  | b :: rest => pat.isPrefixOf (b :: rest) || hasInfix pat rest

/-- first component and remaining components of `s.split(sep)` -/
def splitFirst (sep : UInt8) : Bytes → Bytes × List Bytes
  | [] => ([], [])
  | b :: rest =>
    let r := splitFirst sep rest
    if b = sep then ([], r.1 :: r.2) else (b :: r.1, r.2)

/-- Python `s.split(sep)` for a one-byte separator (never the empty list) -/
def splitOnByte (sep : UInt8) (s : Bytes) : List Bytes :=
  (splitFirst sep s).1 :: (splitFirst sep s).2

/-- Python `sep.join(parts)` for a one-byte separator -/
def joinWith (sep : UInt8) : List Bytes → Bytes
  | [] => []
  | [c] => c
  | c :: c' :: cs => c ++ sep :: joinWith sep (c' :: cs)

/-- does the component test fire (⇒ `return False`)? -/
def compFires (c : Bytes) : CompTest → Bool
  | .empty => c.isEmpty
  | .startsWith lit => lit.isPrefixOf c
  | .endsWith lit => lit.isSuffixOf c

/-- One statement of `check_ref_format`: `some true` = falls through to the next statement,
`some false` = `return False`, `none` = the statement raises (`refname[-1]` on `b""`). -/
def runTest (n : Bytes) : RefTest → Option Bool
  | .eqWhole lit => some (n != lit)
  | .lacks lit => some (hasInfix lit n)
  | .contains lit => some (!hasInfix lit n)
  | .charLoop limit bad => some (n.all fun c => !(decide (c.toNat < limit) || bad.contains c))
  | .lastIn set => match n.getLast? with
      | none => none
      | some c => some (!set.contains c)
  | .components sep tests => some ((splitOnByte sep n).all fun c => tests.all fun t => !compFires c t)

def runTests : List RefTest → Bytes → Option Bool
  | [], _ => some true
  | t :: ts, n =>
    match runTest n t with
    | none => none
    | some false => some false
    | some true => runTests ts n

/-- `check_ref_format(refname)`: `some b` = returns `b`, `none` = raises. -/
def checkRefFormat (n : Bytes) : Option Bool := runTests checkRefFormatTests n

/-- `_collapse_slashes` -/
def collapseSlashes (n : Bytes) : Bytes :=
  joinWith 47 ((splitOnByte 47 n).filter fun c => !c.isEmpty)

/-- `RefsContainer._check_refname(name)`: `true` = returns (possibly after the deprecation warning),
`false` = raises `RefFormatError`.  (A raising `check_ref_format` would propagate; `checkRefFormat_total`
in Props/C16 shows it never raises, so it is folded into `false` here.) -/
def checkRefname (name : Bytes) : Bool :=
  if name = headRef || name = stashRef then true
  else if !refsPrefix.isPrefixOf name then false
  else
    let rest := name.drop refsPrefixLen
    if checkRefFormat rest = some true then true
    else hasInfix doubleSlash name && (checkRefFormat (collapseSlashes rest) = some true)

/-- `valid_hexsha`: length 40 or 64 and `binascii.unhexlify` succeeds (hex digits of either case) -/
def isHexDigit (b : UInt8) : Bool :=
  (48 ≤ b.toNat && b.toNat ≤ 57) || (97 ≤ b.toNat && b.toNat ≤ 102) || (65 ≤ b.toNat && b.toNat ≤ 70)

def validHexSha (s : Bytes) : Bool := hexShaLengths.contains s.length && s.all isHexDigit

/-- `_check_ref_value`: a valid hex sha or something starting with `SYMREF` -/
def validRefValue (v : Bytes) : Bool := validHexSha v || symref.isPrefixOf v

end Dulwich.RefFormat
