/-
  C20 — executable model of dulwich/config.py (value quoting/escaping, value parser, subsection
  escaping, section-header parser, line-continuation test, the per-line reader `ConfigFile.from_file`
  without include expansion, `ConfigFile.write_to_file`, and the case-insensitive ordered multi-dict
  behind `ConfigDict.set/add/remove/get/get_multivar`).

  Core Lean only.  Every table / syntax byte comes from Gen/Config.lean, which the translator
  regenerates from /repo (and from the running CPython for `bytes.strip/isalnum/lower`) on every run.
  The model describes the code that exists (after the repairs 6d569a0, f1ebc7b and 21a48ab), defects included.
-/
import DulwichModel.Model.Basic
import DulwichModel.Gen.Config

namespace Dulwich.Config
open Dulwich

/-- decidable equality of results (core has none for `Except`); scoped so that other models are unaffected -/
scoped instance exceptDecEq {α : Type} [DecidableEq α] : DecidableEq (Except Err α)
  | .ok a, .ok b => if h : a = b then isTrue (by rw [h]) else isFalse (fun h' => by cases h'; exact h rfl)
  | .error a, .error b => if h : a = b then isTrue (by rw [h]) else isFalse (fun h' => by cases h'; exact h rfl)
  | .ok _, .error _ => isFalse (fun h => by cases h)
  | .error _, .ok _ => isFalse (fun h => by cases h)

/-! ## CPython byte classes and slicing helpers -/

/-- byte removed by argument-less `bytes.strip()/lstrip()/rstrip()` -/
def isPyWs (c : UInt8) : Bool := Gen.Config.pyStripSet.contains c
/-- `bytes([c]).isalnum()` -/
def isAlnum (c : UInt8) : Bool := Gen.Config.pyAlnum.contains c
/-- `bytes.lower()` on one byte -/
def lowerByte (c : UInt8) : UInt8 := if Gen.Config.pyUpper.contains c then c + 32 else c
def lowerBytes (s : Bytes) : Bytes := s.map lowerByte

def lstrip (s : Bytes) : Bytes := s.dropWhile isPyWs
def rstrip (s : Bytes) : Bytes := (s.reverse.dropWhile isPyWs).reverse
def strip (s : Bytes) : Bytes := rstrip (lstrip s)

/-- byte removed around a value by the `value.strip(...)` of `_parse_string` (git's `isspace`) -/
def isParseWs (c : UInt8) : Bool := Gen.Config.parseStripSet.contains c
def plstrip (s : Bytes) : Bytes := s.dropWhile isParseWs
def prstrip (s : Bytes) : Bytes := (s.reverse.dropWhile isParseWs).reverse
/-- `value.strip(b" \t\r\n")` -/
def pstrip (s : Bytes) : Bytes := prstrip (plstrip s)

/-- `s[:-n]` for `n ≤ len(s)` (used only behind an `endswith` of that length) -/
def dropLast (n : Nat) (s : Bytes) : Bytes := s.take (s.length - n)

/-- `s.split(sep, 1)`: `(before, some after)` if `sep` occurs, else `(s, none)` -/
def splitOnce (sep : UInt8) : Bytes → Bytes × Option Bytes
  | [] => ([], none)
  | c :: rest =>
    if c = sep then ([], some rest)
    else let (a, b) := splitOnce sep rest; (c :: a, b)

/-! ## writer side: `_escape_value`, `_format_string`, `_escape_subsection` -/

/-- `v.replace(bytes([a]), to)` for a one-byte pattern -/
def replaceByte (a : UInt8) (to : Bytes) (v : Bytes) : Bytes :=
  v.flatMap (fun c => if c = a then to else [c])

/-- a chain of `.replace` calls, applied in order -/
def applyWrites (tbl : List (UInt8 × Bytes)) (v : Bytes) : Bytes :=
  tbl.foldl (fun acc p => replaceByte p.1 p.2 acc) v

/-- `_escape_value` -/
def escapeValue (v : Bytes) : Bytes := applyWrites Gen.Config.escapeWrites v

/-- the condition of `_format_string` -/
def needsQuote (v : Bytes) : Bool :=
  (Gen.Config.quoteIfStripChanges && strip v != v) ||
  (match v.head? with | some c => Gen.Config.quoteIfStartsWith.contains c | none => false) ||
  (match v.getLast? with | some c => Gen.Config.quoteIfEndsWith.contains c | none => false) ||
  v.any (fun c => Gen.Config.quoteIfContains.contains c)

/-- `_format_string` -/
def formatString (v : Bytes) : Bytes :=
  if needsQuote v then Gen.Config.formatQuoteOpen ++ escapeValue v ++ Gen.Config.formatQuoteClose
  else escapeValue v

/-- `_escape_subsection` (ValueError ↦ `format`) -/
def escapeSubsection (s : Bytes) : Except Err Bytes :=
  if s.any (fun c => Gen.Config.subsectionForbidden.contains c) then .error .format
  else .ok (applyWrites Gen.Config.subsectionWrites s)

/-- `_unescape_subsection` -/
def unescapeSubsection : Bytes → Bytes
  | [] => []
  | [c] => [c]
  | c :: d :: rest =>
    if c = Gen.Config.unescapeChar then d :: unescapeSubsection rest
    else c :: unescapeSubsection (d :: rest)

/-! ## reader side: `_parse_string` -/

def escLookup (c : UInt8) : Option UInt8 :=
  (Gen.Config.escapeTable.find? (fun p => p.1 = c)).map (fun p => p.2)

def isCommentChar (c : UInt8) : Bool := Gen.Config.commentChars.contains c
def isBlankChar (c : UInt8) : Bool := Gen.Config.whitespaceChars.contains c

/-- end of the `while` loop of `_parse_string`: `if in_quotes: raise ValueError` -/
def parseFinish (ret : Bytes) (inq : Bool) : Except Err Bytes :=
  if inq then .error .format else .ok ret

/-- The `while` loop of `_parse_string` with its three state variables `ret`, `whitespace`,
`in_quotes`.  The "unknown escape: reprocess the next character" step (`i -= 1`) is the
recursive call on `d :: rest`. -/
def parseLoop : Bytes → (ret ws : Bytes) → (inq : Bool) → Except Err Bytes
  | [], ret, _, inq => parseFinish ret inq
  | c :: rest, ret, ws, inq =>
    if c = Gen.Config.parseEscapeChar then
      match rest with
      | [] => parseFinish (ret ++ ws ++ [Gen.Config.parseEscapeChar]) inq
      | d :: rest' =>
        match escLookup d with
        | some v => parseLoop rest' (ret ++ ws ++ [v]) [] inq
        | none => parseLoop (d :: rest') (ret ++ ws ++ [Gen.Config.parseEscapeChar]) [] inq
    else if c = Gen.Config.parseQuoteChar then parseLoop rest ret ws (!inq)
    else if isCommentChar c && !inq then parseFinish ret inq
    else if isBlankChar c then
      (if inq then parseLoop rest (ret ++ [c]) ws inq else parseLoop rest ret (ws ++ [c]) inq)
    else parseLoop rest (ret ++ ws ++ [c]) [] inq

/-- `_parse_string` -/
def parseString (v : Bytes) : Except Err Bytes := parseLoop (pstrip v) [] [] false

/-! ## `_check_variable_name`, `_check_section_name`, `_strip_comments`, `_is_line_continuation` -/

def checkVariableName (s : Bytes) : Bool :=
  s.all (fun c => isAlnum c || Gen.Config.varNameExtra.contains c)
def checkSectionName (s : Bytes) : Bool :=
  s.all (fun c => isAlnum c || Gen.Config.sectionNameExtra.contains c)

def stripCommentsAux : Bytes → (opn esc : Bool) → Bytes
  | [], _, _ => []
  | c :: rest, opn, esc =>
    if esc then c :: stripCommentsAux rest opn false
    else if c = Gen.Config.stripCommentEscape then c :: stripCommentsAux rest opn true
    else if c = Gen.Config.stripCommentQuote then c :: stripCommentsAux rest (!opn) false
    else if !opn && Gen.Config.stripCommentChars.contains c then []
    else c :: stripCommentsAux rest opn false

/-- `_strip_comments` (quote-aware; a backslash escapes the next byte, inside and outside quotes) -/
def stripComments (line : Bytes) : Bytes := stripCommentsAux line false false

/-- number of trailing `x` bytes -/
def trailingCount (x : UInt8) (s : Bytes) : Nat := (s.reverse.takeWhile (· = x)).length

/-- `_is_line_continuation` -/
def isLineContinuation (v : Bytes) : Bool :=
  let lf := Gen.Config.contSuffixLF
  let crlf := Gen.Config.contSuffixCRLF
  if !(lf.isSuffixOf v || crlf.isSuffixOf v) then false
  else
    let content := if crlf.isSuffixOf v then dropLast 2 v else dropLast 1 v
    if ![Gen.Config.contBackslash].isSuffixOf content then false
    else trailingCount Gen.Config.contBackslash content % 2 == 1

/-- what `from_file` keeps of a continued line: `value[:-3]` / `value[:-2]` -/
def continuationBody (v : Bytes) : Bytes :=
  if Gen.Config.contSuffixCRLF.isSuffixOf v then dropLast Gen.Config.contSuffixCRLF.length v
  else dropLast Gen.Config.contSuffixLF.length v

/-! ## `_parse_section_header_line` -/

/-- a section key: `(name,)` or `(name, subsection)` -/
abbrev Section := Bytes × Option Bytes

/-- the `for i, c in enumerate(line)` loop looking for the closing bracket -/
def findClose : Bytes → (inq esc : Bool) → (i : Nat) → Option Nat
  | [], _, _, _ => none
  | c :: rest, inq, esc, i =>
    if esc then findClose rest inq false (i + 1)
    else
      let inq' := if c = Gen.Config.hdrQuote then !inq else inq
      if c = Gen.Config.hdrClose && !inq' then some i
      else findClose rest inq' (c = Gen.Config.hdrEscape) (i + 1)

/-- `x[:1] == q and x[-1:] == q` -/
def isQuoted (x : Bytes) : Bool :=
  x.head? = some Gen.Config.hdrQuote && x.getLast? = some Gen.Config.hdrQuote

/-- `x[1:-1]` -/
def inner (x : Bytes) : Bytes := (x.drop 1).dropLast

/-- `_parse_section_header_line`: returns the section and the rest of the line -/
def parseHeader (line0 : Bytes) : Except Err (Section × Bytes) :=
  let line := rstrip (stripComments line0)
  match findClose line false false 0 with
  | none => .error .format
  | some last =>
    let body := (line.take last).drop 1
    let rest := line.drop (last + 1)
    match splitOnce Gen.Config.hdrSplit body with
    | (p0, some p1) =>
      let sub : Except Err Bytes :=
        if isQuoted p1 then .ok (unescapeSubsection (inner p1))
        else if p0 = Gen.Config.includeIfName then
          let p1' := strip p1
          if isQuoted p1' then .ok (unescapeSubsection (inner p1')) else .ok p1'
        else .error .format
      match sub with
      | .error e => .error e
      | .ok s => if checkSectionName p0 then .ok ((p0, some s), rest) else .error .format
    | (p0, none) =>
      if !checkSectionName p0 then .error .format
      else match splitOnce Gen.Config.hdrDot p0 with
        | (a, some b) => .ok ((a, some b), rest)
        | (a, none) => .ok ((a, none), rest)

/-! ## the configuration value: ordered multi-dict of sections, each an ordered multi-dict -/

abbrev Entries := List (Bytes × Bytes)
abbrev Cfg := List (Section × Entries)

/-- `lower_key` on a section tuple: only the first element is lowered -/
def lowerSection (s : Section) : Section := (lowerBytes s.1, s.2)

def sameSection (a b : Section) : Bool := lowerSection a == lowerSection b
def sameKey (a b : Bytes) : Bool := lowerBytes a == lowerBytes b

/-! ### `CaseInsensitiveOrderedMultiDict` on entries -/

/-- `d[k] = v` (`__setitem__`: append) -/
def entAdd (d : Entries) (k v : Bytes) : Entries := d ++ [(k, v)]
/-- `d.set(k, v)`: drop every entry with the same lowered key, then append -/
def entSet (d : Entries) (k v : Bytes) : Entries := d.filter (fun e => !sameKey e.1 k) ++ [(k, v)]
/-- `d.get_all(k)` -/
def entGetAll (d : Entries) (k : Bytes) : List Bytes := (d.filter (fun e => sameKey e.1 k)).map (·.2)
/-- `d[k]` (`_keyed[lower]`: the value stored last under the lowered key) -/
def entGet (d : Entries) (k : Bytes) : Option Bytes := (entGetAll d k).getLast?
/-- `del d[k]` (KeyError if absent) -/
def entDel (d : Entries) (k : Bytes) : Except Err Entries :=
  if d.any (fun e => sameKey e.1 k) then .ok (d.filter (fun e => !sameKey e.1 k)) else .error .key

/-! ### `ConfigDict` -/

def cfgFind (cfg : Cfg) (sec : Section) : Option Entries :=
  (cfg.find? (fun e => sameSection e.1 sec)).map (·.2)

/-- `self._values.setdefault(section)` -/
def cfgSetDefault (cfg : Cfg) (sec : Section) : Cfg :=
  if cfg.any (fun e => sameSection e.1 sec) then cfg else cfg ++ [(sec, [])]

/-- modify (in place) the entries of `sec` -/
def cfgModify (cfg : Cfg) (sec : Section) (f : Entries → Entries) : Cfg :=
  cfg.map (fun e => if sameSection e.1 sec then (e.1, f e.2) else e)

/-- `ConfigDict.set` -/
def cfgSet (cfg : Cfg) (sec : Section) (k v : Bytes) : Cfg :=
  cfgModify (cfgSetDefault cfg sec) sec (fun d => entSet d k v)
/-- `ConfigDict.add` -/
def cfgAdd (cfg : Cfg) (sec : Section) (k v : Bytes) : Cfg :=
  cfgModify (cfgSetDefault cfg sec) sec (fun d => entAdd d k v)
/-- `ConfigDict.remove` -/
def cfgRemove (cfg : Cfg) (sec : Section) (k : Bytes) : Except Err Cfg :=
  match cfgFind cfg sec with
  | none => .error .key
  | some d =>
    match entDel d k with
    | .error e => .error e
    | .ok _ => .ok (cfgModify cfg sec (fun d => d.filter (fun e => !sameKey e.1 k)))
/-- `ConfigDict.get`: with a subsection, fall back to the plain section on KeyError -/
def cfgGet (cfg : Cfg) (sec : Section) (k : Bytes) : Option Bytes :=
  let direct := (cfgFind cfg sec).bind (fun d => entGet d k)
  match sec.2, direct with
  | some _, none => (cfgFind cfg (sec.1, none)).bind (fun d => entGet d k)
  | _, r => r
/-- `ConfigDict.get_multivar`: falls back only when the *section* is missing -/
def cfgGetAll (cfg : Cfg) (sec : Section) (k : Bytes) : Option (List Bytes) :=
  match sec.2, cfgFind cfg sec with
  | some _, none => (cfgFind cfg (sec.1, none)).map (fun d => entGetAll d k)
  | _, r => r.map (fun d => entGetAll d k)

/-! ## `ConfigFile.write_to_file` -/

def writeHeader (sec : Section) : Except Err Bytes :=
  match sec.2 with
  | none => .ok (Gen.Config.wHdrOpen ++ sec.1 ++ Gen.Config.wHdrClose)
  | some sub =>
    match escapeSubsection sub with
    | .error e => .error e
    | .ok esc => .ok (Gen.Config.wHdrOpen ++ sec.1 ++ Gen.Config.wSubOpen ++ esc ++ Gen.Config.wSubClose)

def writeEntry (e : Bytes × Bytes) : Bytes :=
  Gen.Config.wIndent ++ e.1 ++ Gen.Config.wSep ++ formatString e.2 ++ Gen.Config.wEnd

def writeEntries (d : Entries) : Bytes := d.flatMap writeEntry

/-- `write_to_file` (the bytes written before a ValueError are not modelled) -/
def writeFile : Cfg → Except Err Bytes
  | [] => .ok []
  | (sec, d) :: rest =>
    match writeHeader sec with
    | .error e => .error e
    | .ok h =>
      match writeFile rest with
      | .error e => .error e
      | .ok r => .ok (h ++ writeEntries d ++ r)

/-! ## `ConfigFile.from_file` (no include expansion) -/

/-- `f.readlines()`: split after every LF, keeping it -/
def splitLinesAux : Bytes → Bytes → List Bytes
  | [], cur => if cur.isEmpty then [] else [cur.reverse]
  | c :: rest, cur =>
    if c = 10 then (c :: cur).reverse :: splitLinesAux rest []
    else splitLinesAux rest (c :: cur)

def splitLines (data : Bytes) : List Bytes := splitLinesAux data []

structure RState where
  cfg : Cfg
  sec : Option Section
  /-- `(setting, continuation)` while inside a continued value -/
  pending : Option (Bytes × Bytes)

/-- `ret._values[section][setting] = value` -/
def cfgAppend (cfg : Cfg) (sec : Section) (k v : Bytes) : Cfg :=
  cfgModify cfg sec (fun d => entAdd d k v)

/-- one iteration of the `for lineno, line in enumerate(f.readlines())` loop -/
def readLine (st : RState) (first : Bool) (line0 : Bytes) : Except Err RState :=
  let line1 := if first && Gen.Config.bom.isPrefixOf line0 then line0.drop Gen.Config.bom.length else line0
  let line := lstrip line1
  match st.pending with
  | none =>
    let hdr : Except Err (RState × Bytes) :=
      if line.head? = some Gen.Config.lineHeaderStart then
        match parseHeader line with
        | .error e => .error e
        | .ok (sec, rest) => .ok ({ st with cfg := cfgSetDefault st.cfg sec, sec := some sec }, rest)
      else .ok (st, line)
    match hdr with
    | .error e => .error e
    | .ok (st, line) =>
      if strip (stripComments line) = [] then .ok st
      else match st.sec with
        | none => .error .format
        | some sec =>
          let (setting0, value) : Bytes × Bytes :=
            match splitOnce Gen.Config.settingSep line with
            | (a, some b) => (a, b)
            | (a, none) => (a, Gen.Config.impliedValue)
          let setting := strip setting0
          if !checkVariableName setting then .error .format
          else if isLineContinuation value then
            .ok { st with pending := some (setting, continuationBody value) }
          else match parseString value with
            | .error e => .error e
            | .ok v => .ok { st with cfg := cfgAppend st.cfg sec setting v, pending := none }
  | some (setting, cont) =>
    if isLineContinuation line then
      .ok { st with pending := some (setting, cont ++ continuationBody line) }
    else match parseString (cont ++ line), st.sec with
      | .error e, _ => .error e
      | .ok _, none => .error .other   -- unreachable: a pending setting implies a section
      | .ok v, some sec => .ok { st with cfg := cfgAppend st.cfg sec setting v, pending := none }

def readLines : RState → Bool → List Bytes → Except Err RState
  | st, _, [] => .ok st
  | st, first, l :: ls =>
    match readLine st first l with
    | .error e => .error e
    | .ok st' => readLines st' false ls

/-- `ConfigFile.from_file(BytesIO(data))` for data without include directives: the resulting
`_values` as an ordered list (a continued value still pending at EOF is dropped, as in the code). -/
def readFile (data : Bytes) : Except Err Cfg :=
  match readLines { cfg := [], sec := none, pending := none } true (splitLines data) with
  | .error e => .error e
  | .ok st => .ok st.cfg

/-! ## well-formedness predicates used by the theorems (decidable; evaluated by the driver too)

Values need none: every byte string round-trips. -/

/-- Subsections the writer accepts (git forbids LF and NUL in a subsection; `_escape_subsection` raises). -/
def wfSubsection (s : Bytes) : Bool :=
  !s.any (fun c => Gen.Config.subsectionForbidden.contains c)

/-- Section names the reader accepts back unchanged: `isalnum`/`-` (and `.` only when a subsection
follows — `[a.b]` is the legacy spelling of section `a`, subsection `b`). -/
def wfSection (s : Section) : Bool :=
  match s.2 with
  | none => checkSectionName s.1 && !s.1.contains Gen.Config.hdrDot
  | some sub => checkSectionName s.1 && wfSubsection sub

/-- non-empty variable names over `isalnum`/`-` (the code also round-trips the empty name; git requires a leading letter) -/
def wfKey (k : Bytes) : Bool := !k.isEmpty && checkVariableName k

def wfEntries (d : Entries) : Bool := d.all (fun e => wfKey e.1)

/-- sections pairwise distinct under `lower_key` (what `ConfigDict.set/add` maintain) -/
def distinctSections : Cfg → Bool
  | [] => true
  | (s, _) :: rest => !rest.any (fun e => sameSection e.1 s) && distinctSections rest

def wfCfg (cfg : Cfg) : Bool :=
  cfg.all (fun e => wfSection e.1 && wfEntries e.2) && distinctSections cfg

end Dulwich.Config
