/-
  C14 — EWAH bitmap codec as coded in dulwich/bitmap.py:
    `_encode_ewah_words`, `EWAHBitmap.encode`, `EWAHBitmap._decode`.

  Words are 64-bit values modelled as `Nat`; a bitmap is a dense `List Bool` (bit `p` set ⇔ `bits[p] = true`)
  on the encoder side and the dense list of uncompressed words on the decoder side (the Python decoder adds
  `64·i + j` to a set for every set bit `j` of uncompressed word `i` — `positions` below).
  The word layout constants come from Gen/Accel.lean (regenerated from the source on every run).
  Arithmetic is `/ % *` instead of `>> & <<` (tied by the byte-for-byte correspondence stream).
  Core Lean only.
-/
import DulwichModel.Model.Basic
import DulwichModel.Gen.Accel

namespace Dulwich.Ewah
open Dulwich

def allOnes : Nat := Gen.Accel.ewahAllOnes
def maxLit : Nat := Gen.Accel.maxLiteralWords

/-! ### fixed-width big-endian integers (`struct.pack(">I" / ">Q")`) -/

def beBytes : Nat → Nat → Bytes
  | 0, _ => []
  | k + 1, v => beBytes k (v / 256) ++ [UInt8.ofNat (v % 256)]

def beVal : Bytes → Nat
  | bs => bs.foldl (fun acc b => acc * 256 + b.toNat) 0

/-! ### bits ↔ words -/

/-- value of up to 64 bits, least significant first (`words[i] |= 1 << bit_idx`) -/
def wordVal : List Bool → Nat
  | [] => 0
  | b :: bs => (if b then 1 else 0) + 2 * wordVal bs

/-- `bit_count = max(self.bits) + 1` (0 for the empty set) -/
def bitCount : List Bool → Nat
  | [] => 0
  | b :: bs => let n := bitCount bs; if n = 0 then (if b then 1 else 0) else n + 1

/-- the `word_count = (bit_count + 63) // 64` literal words of `encode` -/
def wordsOfBits (bits : List Bool) : List Nat :=
  (List.range ((bitCount bits + 63) / 64)).map (fun i => wordVal ((bits.drop (64 * i)).take 64))

/-- bit `p` of a dense word list (`literal & (1 << i)` at `current_bit + i`) -/
def bitAt (ws : List Nat) (p : Nat) : Bool :=
  (ws.getD (p / 64) 0) / 2 ^ (p % 64) % 2 == 1

/-- the set the Python decoder builds, as an increasing list -/
def positions (ws : List Nat) : List Nat :=
  (List.range (64 * ws.length)).filter (bitAt ws)

/-! ### `_encode_ewah_words` -/

/-- `while i < len(words) and words[i] == run_value: run_length += 1` -/
def takeRun (v : Nat) : List Nat → Nat × List Nat
  | [] => (0, [])
  | w :: ws => if w = v then (let r := takeRun v ws; (r.1 + 1, r.2)) else (0, w :: ws)

/-- `while i < len(words) and words[i] != 0 and words[i] != ONES: literals.append(..); if len(literals) >= MAX: break`
(`n` = literals collected so far) -/
def takeLits (mx : Nat) : Nat → List Nat → List Nat × List Nat
  | _, [] => ([], [])
  | n, w :: ws =>
    if w ≠ 0 ∧ w ≠ allOnes then
      if n + 1 ≥ mx then ([w], ws) else (let r := takeLits mx (n + 1) ws; (w :: r.1, r.2))
    else ([], w :: ws)

/-- `(len(literals) << 33) | (run_length << 1) | running_bit` (the three fields do not overlap when
`run_length < 2^32`, `running_bit < 2`) -/
def rlw (nlit runLen runBit : Nat) : Nat :=
  nlit * 2 ^ Gen.Accel.ewahLitShiftEnc + runLen * 2 ^ Gen.Accel.ewahRunShiftEnc + runBit

def encodeWordsAux (mx : Nat) : Nat → List Nat → List Nat
  | 0, _ => []
  | _ + 1, [] => []
  | fuel + 1, w :: ws =>
    if w = 0 ∨ w = allOnes then
      let run := takeRun w (w :: ws)
      let lit := takeLits mx 0 run.2
      rlw lit.1.length run.1 (if w = allOnes then 1 else 0) :: (lit.1 ++ encodeWordsAux mx fuel lit.2)
    else
      let lit := takeLits mx 0 (w :: ws)
      rlw lit.1.length 0 0 :: (lit.1 ++ encodeWordsAux mx fuel lit.2)

/-- every iteration of the outer loop consumes at least one word, so `length` fuel suffices -/
def encodeWords (ws : List Nat) : List Nat := encodeWordsAux maxLit ws.length ws

/-! ### `EWAHBitmap.encode` -/

/-- `struct.pack` range errors are explicit (`struct.error` ⇒ `.format`). -/
def serialize (bitCnt : Nat) (cw : List Nat) : Except Err Bytes :=
  if bitCnt ≥ 2 ^ 32 ∨ cw.length ≥ 2 ^ 32 ∨ cw.any (· ≥ 2 ^ 64) then .error .format
  else .ok (beBytes 4 bitCnt ++ beBytes 4 cw.length ++ cw.flatMap (beBytes 8) ++ beBytes 4 0)

def encode (bits : List Bool) : Except Err Bytes :=
  if bitCount bits = 0 then .ok (beBytes 4 0 ++ beBytes 4 0 ++ beBytes 4 0)
  else serialize (bitCount bits) (encodeWords (wordsOfBits bits))

/-! ### `EWAHBitmap._decode` -/

/-- `for _ in range(word_count): word_bytes = f.read(8); if len(word_bytes) < 8: break` -/
def readWords : Nat → Bytes → List Nat
  | 0, _ => []
  | n + 1, bs => if bs.length < 8 then [] else beVal (bs.take 8) :: readWords n (bs.drop 8)

/-- the literal loop of one chunk: `for _ in range(literal_words): if idx >= len(words): break;
if current_bit + 64 > max_bits: raise; …` (`cur` counts uncompressed words so far) -/
def takeLitsDec (maxWords : Nat) : Nat → Nat → List Nat → Except Err (List Nat × List Nat)
  | 0, _, ws => .ok ([], ws)
  | _ + 1, _, [] => .ok ([], [])
  | n + 1, cur, w :: ws =>
    if cur + 1 > maxWords then .error .format
    else match takeLitsDec maxWords n (cur + 1) ws with
      | .ok (l, r) => .ok (w :: l, r)
      | .error e => .error e

def runLenOf (w : Nat) : Nat := w / 2 ^ Gen.Accel.ewahRunShiftDec % (Gen.Accel.ewahRunMask + 1)
def litCntOf (w : Nat) : Nat := w / 2 ^ Gen.Accel.ewahLitShiftDec

def decodeWordsAux (maxWords : Nat) : Nat → Nat → List Nat → Except Err (List Nat)
  | 0, _, _ => .ok []
  | _ + 1, _, [] => .ok []
  | fuel + 1, cur, w :: ws =>
    if runLenOf w > 0 ∧ cur + runLenOf w > maxWords then .error .format
    else match takeLitsDec maxWords (litCntOf w) (cur + runLenOf w) ws with
      | .error e => .error e
      | .ok (lits, rest) =>
        match decodeWordsAux maxWords fuel (cur + runLenOf w + lits.length) rest with
        | .error e => .error e
        | .ok tl => .ok (List.replicate (runLenOf w) (if w % 2 = 1 then allOnes else 0) ++ lits ++ tl)

/-- compressed words → dense uncompressed words; never more than `maxWords = ⌈bit_count/64⌉` of them -/
def decodeWords (maxWords : Nat) (cw : List Nat) : Except Err (List Nat) :=
  decodeWordsAux maxWords cw.length 0 cw

/-- `EWAHBitmap(data)`: `(bit_count, dense words)`; a buffer shorter than the 8-byte header decodes to the
empty bitmap (`if len(...) < 4: return`). -/
def decode (data : Bytes) : Except Err (Nat × List Nat) :=
  if data.length < 8 then .ok (0, [])
  else
    let bc := beVal (data.take 4)
    let wc := beVal ((data.drop 4).take 4)
    match decodeWords ((bc + 63) / 64) (readWords wc (data.drop 8)) with
    | .ok ws => .ok (bc, ws)
    | .error e => .error e

end Dulwich.Ewah
