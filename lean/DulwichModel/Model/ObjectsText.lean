/-
  Model of the text-level building blocks of dulwich/objects.py (property C01):

    * `str(n).encode()`, `int(b)`, `int(b, 8)` exactly as CPython's `bytes -> int` parser behaves
      (surrounding ASCII whitespace, sign, `0o` prefix for base 8, single underscores between digits),
      Rust's `u32::from_str_radix(_, 8)`;
    * `binascii.hexlify/unhexlify`, `hex_to_sha`, `sha_to_hex`;
    * `object_header`;
    * `_format_message` / `_parse_message` (header folding with continuation lines);
    * `format_timezone` / `parse_timezone`, `format_time_entry` / `parse_time_entry`.

  Constants (header names, separators, the timezone arithmetic, …) come from `Gen/Objects.lean`, which
  the translator regenerates from /repo on every run.  Core Lean only.

  Float arithmetic in `format_timezone` / `parse_timezone` (`offset / 3600`, `int(offset / 100)`) is
  modelled by integer division; this is exact below 2^53 and the harness keeps offsets below that.
  CPython's 4300-digit limit of `int()` is not modelled (inputs that long are not generated).
-/
import DulwichModel.Model.Basic
import DulwichModel.Gen.Objects

namespace Dulwich.Objects
open Dulwich



/-- `Except` has no `DecidableEq` in core; needed to `decide` concrete witnesses. -/
instance instDecidableEqExcept {ε α : Type} [DecidableEq ε] [DecidableEq α] : DecidableEq (Except ε α) :=
  fun a b =>
    match a, b with
    | .ok x, .ok y => if h : x = y then isTrue (by rw [h]) else isFalse (fun e => h (by cases e; rfl))
    | .error x, .error y => if h : x = y then isTrue (by rw [h]) else isFalse (fun e => h (by cases e; rfl))
    | .ok _, .error _ => isFalse (fun e => by cases e)
    | .error _, .ok _ => isFalse (fun e => by cases e)

/-! ## numbers -/

def digitChar (d : Nat) : UInt8 := UInt8.ofNat (48 + d)

/-- Digits of `n` in base `b` (`2 ≤ b ≤ 10`), most significant first.  Structural on fuel. -/
def natToBaseAux (b : Nat) : Nat → Nat → Bytes
  | 0, _ => []
  | f + 1, n => if n < b then [digitChar n] else natToBaseAux b f (n / b) ++ [digitChar (n % b)]

def natToBase (b n : Nat) : Bytes := natToBaseAux b (n + 1) n

/-- `str(n).encode("ascii")` for `n ≥ 0`. -/
def natToDec (n : Nat) : Bytes := natToBase 10 n

/-- `"%o" % n` for `n ≥ 0`. -/
def natToOct (n : Nat) : Bytes := natToBase 8 n

/-- `str(i).encode("ascii")`. -/
def intToDec (i : Int) : Bytes :=
  if i < 0 then 45 :: natToDec (-i).toNat else natToDec i.toNat

/-- `Py_ISSPACE`: space, `\t \n \v \f \r`. -/
def isSpace (b : UInt8) : Bool := b == 32 || (9 ≤ b && b ≤ 13)

def stripL : Bytes → Bytes
  | [] => []
  | b :: rest => if isSpace b then stripL rest else b :: rest

def stripR : Bytes → Bytes
  | [] => []
  | b :: rest =>
    match stripR rest with
    | [] => if isSpace b then [] else [b]
    | r => b :: r

def digitVal? (base : Nat) (b : UInt8) : Option Nat :=
  if 48 ≤ b.toNat ∧ b.toNat < 48 + base then some (b.toNat - 48) else none

/-- digit (`_`? digit)* — CPython's scanning loop: no leading, trailing or doubled underscore,
at least one digit. -/
def parseDigits (base : Nat) : Bytes → Nat → Bool → Option Nat
  | [], acc, prevDigit => if prevDigit then some acc else none
  | b :: rest, acc, prevDigit =>
    if b = 95 then (if prevDigit then parseDigits base rest acc false else none)
    else match digitVal? base b with
      | some d => parseDigits base rest (acc * base + d) true
      | none => none

def dropSign (t : Bytes) : Bool × Bytes :=
  match t with
  | [] => (false, [])
  | c :: r => if c = 45 then (true, r) else if c = 43 then (false, r) else (false, c :: r)

/-- `0o` / `0O` prefix (base 8 only), after which one underscore is allowed. -/
def dropOctPrefix (t : Bytes) : Bytes :=
  match t with
  | a :: b :: r =>
    if a = 48 ∧ (b = 111 ∨ b = 79) then
      (match r with
       | [] => []
       | c :: r' => if c = 95 then r' else c :: r')
    else t
  | _ => t

/-- `int(s, base)` for `bytes` input, `base ∈ {8, 10}`; `none` = `ValueError`. -/
def pyInt (base : Nat) (s : Bytes) : Option Int :=
  let t := stripR (stripL s)
  let sg := dropSign t
  let t' := if base = 8 then dropOctPrefix sg.2 else sg.2
  (parseDigits base t' 0 false).map fun n => if sg.1 then -(n : Int) else (n : Int)

def allOct : Bytes → Bool
  | [] => true
  | b :: r => (48 ≤ b && b ≤ 55) && allOct r

def octVal : Bytes → Nat → Nat
  | [], acc => acc
  | b :: r, acc => octVal r (acc * 8 + (b.toNat - 48))

/-- Rust `u32::from_str_radix(String::from_utf8_lossy(s), 8)`: optional `+`, octal digits, `< 2^32`. -/
def rsOctU32 (s : Bytes) : Option Nat :=
  let t := match s with
    | [] => []
    | c :: r => if c = 43 then r else c :: r
  if t.isEmpty || !allOct t then none
  else
    let v := octVal t 0
    if v < 4294967296 then some v else none

/-! ## hex -/

def hexNib (n : Nat) : UInt8 := if n < 10 then UInt8.ofNat (48 + n) else UInt8.ofNat (87 + n)

/-- `binascii.hexlify`. -/
def hexlify : Bytes → Bytes
  | [] => []
  | b :: r => hexNib (b.toNat / 16) :: hexNib (b.toNat % 16) :: hexlify r

def nibVal? (c : UInt8) : Option Nat :=
  let n := c.toNat
  if 48 ≤ n ∧ n ≤ 57 then some (n - 48)
  else if 97 ≤ n ∧ n ≤ 102 then some (n - 87)
  else if 65 ≤ n ∧ n ≤ 70 then some (n - 55)
  else none

/-- `binascii.unhexlify`; `none` = `binascii.Error` (a `ValueError`). -/
def unhexlify : Bytes → Option Bytes
  | [] => some []
  | [_] => none
  | a :: b :: r =>
    match nibVal? a, nibVal? b, unhexlify r with
    | some x, some y, some rest => some (UInt8.ofNat (16 * x + y) :: rest)
    | _, _, _ => none

/-- `hex_to_sha`: length must be in `OGen.hexLens` (40, 64). -/
def hexToSha (h : Bytes) : Except Err Bytes :=
  if OGen.hexLens.contains h.length then
    match unhexlify h with
    | some r => .ok r
    | none => .error .format
  else .error .format

/-- `sha_to_hex`. -/
def shaToHex (raw : Bytes) : Except Err Bytes :=
  let h := hexlify raw
  if OGen.hexLens.contains h.length then .ok h else .error .format

/-! ## object header -/

def typeName? (num : Nat) : Option Bytes := (OGen.typeTable.find? (·.1 == num)).map (·.2)

def typeNum? (name : Bytes) : Option Nat := (OGen.typeTable.find? (·.2 == name)).map (·.1)

/-- `object_header(num_type, length)`: `type_name + b" " + str(length) + b"\0"`. -/
def objectHeader (num len : Nat) : Option Bytes :=
  (typeName? num).map fun t => t ++ [32] ++ natToDec len ++ [0]

/-- What `ShaFile.sha()` feeds the hash: `_header() + as_raw_string()`. -/
def hashInput (num : Nat) (body : Bytes) : Option Bytes :=
  (objectHeader num body.length).map (· ++ body)

/-! ## `_format_message` / `_parse_message` -/

/-- A header value with every LF followed by the continuation prefix: what
`lines = value.split(b"\n"); lines[0] + "\n" + " " + lines[1] + "\n" …` produces, minus the final LF. -/
def foldValue : Bytes → Bytes
  | [] => []
  | b :: r => if b = 10 then 10 :: OGen.contFmt :: foldValue r else b :: foldValue r

def formatHeader (kv : Bytes × Bytes) : Bytes := kv.1 ++ [32] ++ foldValue kv.2 ++ [10]

def formatHeaders : List (Bytes × Bytes) → Bytes
  | [] => []
  | kv :: hs => formatHeader kv ++ formatHeaders hs

/-- `_format_message(headers, body)`: headers, a blank line, then the body if it is truthy. -/
def formatMessage (hs : List (Bytes × Bytes)) (body : Option Bytes) : Bytes :=
  formatHeaders hs ++ [10] ++ body.getD []

/-- Iteration of a `BytesIO`: lines keep their LF; the last line may lack it; no empty line. -/
def splitLinesAux : Bytes → Bytes → List Bytes
  | [], cur => if cur.isEmpty then [] else [cur]
  | b :: rest, cur => if b = 10 then (cur ++ [10]) :: splitLinesAux rest [] else splitLinesAux rest (cur ++ [b])

def splitLines (s : Bytes) : List Bytes := splitLinesAux s []

/-- `line.split(b" ", 1)` when it yields two parts. -/
def splitFirst (sep : UInt8) : Bytes → Option (Bytes × Bytes)
  | [] => none
  | b :: r => if b = sep then some ([], r) else (splitFirst sep r).map fun p => (b :: p.1, p.2)

def stripLastLF (v : Bytes) : Bytes := if v.getLast? = some 10 then v.dropLast else v

def flushHeader (k : Option Bytes) (v : Bytes) : List (Bytes × Bytes) :=
  match k with
  | none => []
  | some k => [(k, stripLastLF v)]

/-- The loop of `_parse_message` over the lines, with the pending header `(k, v)`.
Result: the `(field, value)` pairs in order and the body (`none` = the `(None, None)` pair: EOF came
before the blank line).  `.format` = `ValueError` from `(k, rest) = line.split(b" ", 1)`. -/
def parseLines : Option Bytes → Bytes → List Bytes → Except Err (List (Bytes × Bytes) × Option Bytes)
  | k, v, [] => .ok (flushHeader k v, none)
  | k, v, line :: rest =>
    if line.head? = some OGen.contParse then parseLines k (v ++ line.tail) rest
    else if line = [10] then .ok (flushHeader k v, some rest.flatten)
    else
      match splitFirst 32 line with
      | none => .error .format
      | some (k', r) =>
        match parseLines (some k') r rest with
        | .ok (hs, body) => .ok (flushHeader k v ++ hs, body)
        | .error e => .error e

def parseMessage (s : Bytes) : Except Err (List (Bytes × Bytes) × Option Bytes) :=
  parseLines none [] (splitLines s)

/-- `_parse_message` is a generator: the consumer (`Tag._deserialize`, `_parse_commit`) handles every
`(field, value)` pair as soon as it is yielded, i.e. before the following line is even split.  This
variant returns the pairs yielded before the generator stopped, and how it stopped (`.ok body` or the
error of the line it could not split), so that the consumers can be modelled with the real order of
failures. -/
def parseLinesP : Option Bytes → Bytes → List Bytes → List (Bytes × Bytes) × Except Err (Option Bytes)
  | k, v, [] => (flushHeader k v, .ok none)
  | k, v, line :: rest =>
    if line.head? = some OGen.contParse then parseLinesP k (v ++ line.tail) rest
    else if line = [10] then (flushHeader k v, .ok (some rest.flatten))
    else
      match splitFirst 32 line with
      | none => (flushHeader k v, .error .format)
      | some (k', r) =>
        let p := parseLinesP (some k') r rest
        (flushHeader k v ++ p.1, p.2)

def parseMessageP (s : Bytes) : List (Bytes × Bytes) × Except Err (Option Bytes) :=
  parseLinesP none [] (splitLines s)

/-! ## time zones and time entries -/

/-- `"%02d" % x` for an integer-valued argument. -/
def fmt02 (x : Int) : Bytes :=
  if x < 0 then 45 :: natToDec (-x).toNat
  else if x < 10 then [48, digitChar x.toNat] else natToDec x.toNat

/-- `format_timezone(offset, unnecessary_negative_timezone)`; `.format` = the `ValueError` for a
non-minute offset.  With the flag set and a positive offset the real code negates the offset and
prints the (negative) quotient with `%02d`, giving `--700`; `int(float)` truncates toward zero
(`Int.tdiv`), float `%` follows the sign of the divisor (`Int.emod`). -/
def formatTimezone (off : Int) (neg : Bool) : Except Err Bytes :=
  if off % (OGen.tzCheckMod : Int) ≠ 0 then .error .format
  else
    let sgn : UInt8 := if off < 0 || neg then 45 else 43
    let o : Int := if off < 0 || neg then -off else off
    .ok (sgn :: (fmt02 (Int.tdiv o OGen.tzHourDiv) ++ fmt02 ((Int.tdiv o OGen.tzMinDiv) % (OGen.tzMinMod : Int))))

/-- `parse_timezone(text)`.  `.other` = `IndexError` on empty text (not caught by `parse_time_entry`),
`.format` = `ValueError`. -/
def parseTimezone (text : Bytes) : Except Err (Int × Bool) :=
  match text with
  | [] => .error .other
  | s :: digits =>
    if s ≠ 43 ∧ s ≠ 45 then .error .format
    else
      match pyInt 10 digits with
      | none => .error .format
      | some n =>
        let offset : Int := if s = 45 then -n else n
        let negUtc : Bool := decide (offset ≥ 0) && s == 45
        let signum : Int := if offset < 0 then -1 else 1
        let a : Nat := offset.natAbs
        let hours := a / OGen.tzpDiv
        let minutes := a % OGen.tzpMod
        .ok (signum * ((hours * OGen.tzpHourMul + minutes * OGen.tzpMinMul : Nat) : Int), negUtc)

/-- `format_time_entry(person, time, (timezone, neg_utc))`. -/
def formatTimeEntry (person : Bytes) (time : Int) (tz : Int) (neg : Bool) : Except Err Bytes :=
  match formatTimezone tz neg with
  | .ok z => .ok (person ++ [32] ++ intToDec time ++ [32] ++ z)
  | .error e => .error e

/-- `value.rindex(b"> ")`. -/
def rindexGtSp : Bytes → Option Nat
  | [] => none
  | b :: rest =>
    match rindexGtSp rest with
    | some i => some (i + 1)
    | none => if b = 62 ∧ rest.head? = some 32 then some 0 else none

/-- `rest.rsplit(b" ", 1)` when it yields two parts. -/
def rsplitSpace : Bytes → Option (Bytes × Bytes)
  | [] => none
  | b :: rest =>
    match rsplitSpace rest with
    | some (l, r) => some (b :: l, r)
    | none => if b = 32 then some ([], rest) else none

/-- person, time, timezone, neg-utc flag as the attributes end up on the object. -/
structure TimeInfo where
  person : Option Bytes
  time : Option Int
  tz : Option Int
  neg : Option Bool
  deriving DecidableEq, Repr

/-- `parse_time_entry(value)`. -/
def parseTimeEntry (value : Bytes) : Except Err TimeInfo :=
  match rindexGtSp value with
  | none => .ok ⟨some value, none, none, some false⟩
  | some sep =>
    let person := value.take (sep + 1)
    let rest := value.drop (sep + 2)
    match rsplitSpace rest with
    | none => .error .format
    | some (timeText, tzText) =>
      match pyInt 10 timeText with
      | none => .error .format
      | some t =>
        match parseTimezone tzText with
        | .ok (tz, neg) => .ok ⟨some person, some t, some tz, some neg⟩
        | .error e => .error e

end Dulwich.Objects
