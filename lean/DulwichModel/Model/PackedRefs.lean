/-
  Model of the packed-refs file codec of `dulwich/refs.py` (C16):
  `write_packed_refs` (as `DiskRefsContainer` calls it: with a peeled map, hence with the header),
  `_split_ref_line`, `read_packed_refs`, `read_packed_refs_with_peeled` and the header dispatch in
  `DiskRefsContainer.get_packed_refs`.  Markers and the header come from Gen/Refs.lean.
  Core Lean only.
-/
import DulwichModel.Model.RefFormat

namespace Dulwich.PackedRefs
open Dulwich Dulwich.RefFormat Dulwich.Gen.Refs

structure Entry where
  name : Bytes
  sha : Bytes
  peeled : Option Bytes
  deriving DecidableEq, Repr

/-- bytewise lexicographic `<` (Python's ordering of `bytes`) -/
def bytesLt : Bytes → Bytes → Bool
  | [], [] => false
  | [], _ :: _ => true
  | _ :: _, [] => false
  | a :: as, b :: bs => if a.toNat < b.toNat then true else if b.toNat < a.toNat then false else bytesLt as bs

def insertEntry (e : Entry) : List Entry → List Entry
  | [] => [e]
  | x :: xs => if bytesLt e.name x.name then e :: x :: xs else x :: insertEntry e xs

/-- `sorted(packed_refs.keys())` (names are unique: they are dict keys) -/
def sortEntries (es : List Entry) : List Entry := es.foldr insertEntry []

/-- `b"^" + peeled_refs[refname] + b"\n"` when the name has a peeled value -/
def peeledBytes (e : Entry) : Bytes :=
  match e.peeled with
  | some p => packedCaret :: p ++ [10]
  | none => []

/-- the loop of `write_packed_refs`: `git_line(sha, name)` then the `^peeled` line when there is one -/
def writeEntries : List Entry → Bytes
  | [] => []
  | e :: r => e.sha ++ 32 :: e.name ++ 10 :: (peeledBytes e ++ writeEntries r)

/-- `write_packed_refs(f, packed, peeled)` with `peeled is not None`, entries in the order given -/
def writeFile (es : List Entry) : Bytes := packedHeader ++ writeEntries es

/-- iteration over a binary file: lines keep their `\n`; the last one may lack it -/
def lines : Bytes → List Bytes
  | [] => []
  | b :: rest =>
    if b = 10 then [10] :: lines rest
    else match lines rest with
      | [] => [[b]]
      | l :: ls => (b :: l) :: ls

/-- `line.rstrip(b"\r\n")` -/
def rstripCRLF (l : Bytes) : Bytes := (l.reverse.dropWhile fun b => b = 10 || b = 13).reverse

/-- `_split_ref_line`: `none` = `PackedRefsException` -/
def splitRefLine (line : Bytes) : Option (Bytes × Bytes) :=
  match splitOnByte 32 (rstripCRLF line) with
  | [sha, name] => if validHexSha sha && checkRefFormat name == some true then some (sha, name) else none
  | _ => none

/-- `read_packed_refs` -/
def readPlain : List Bytes → Option (List Entry)
  | [] => some []
  | line :: rest =>
    if line.head? = some packedComment then readPlain rest
    else if line.head? = some packedCaret then none
    else match splitRefLine line with
      | none => none
      | some (s, n) => (readPlain rest).map ({ name := n, sha := s, peeled := none } :: ·)

/-- `read_packed_refs_with_peeled`; `last = []` plays Python's `None`/`b""` (both falsy) -/
def readPeeled : List Bytes → Bytes → Option (List Entry)
  | [], last =>
    if last.isEmpty then some []
    else (splitRefLine last).map fun (s, n) => [{ name := n, sha := s, peeled := none }]
  | line :: rest, last =>
    if line.head? = some packedComment then readPeeled rest last
    else
      let line := rstripCRLF line
      if line.head? = some packedCaret then
        if last.isEmpty then none
        else if !validHexSha line.tail then none
        else match splitRefLine last with
          | none => none
          | some (s, n) => (readPeeled rest []).map ({ name := n, sha := s, peeled := some line.tail } :: ·)
      else if last.isEmpty then readPeeled rest line
      else match splitRefLine last with
        | none => none
        | some (s, n) => (readPeeled rest line).map ({ name := n, sha := s, peeled := none } :: ·)

/-- the parse in `DiskRefsContainer.get_packed_refs`: `none` = an exception (`StopIteration` on an
empty file, `PackedRefsException` otherwise) -/
def readFile (f : Bytes) : Option (List Entry) :=
  match lines f with
  | [] => none
  | first :: rest =>
    if packedHeaderProbe1.isPrefixOf first && hasInfix packedHeaderProbe2 first then readPeeled rest []
    else readPlain (first :: rest)

end Dulwich.PackedRefs
