/-
  Abstract git object graph (C05).

  An object store is a partial map `Id → Option Obj`; ids stand for object names (the harness
  numbers the objects of a generated history and maps the numbers to the real SHA-1s).  An
  object is a commit (tree, parents), a tree (entries of kind file/dir/gitlink), a blob or an
  annotated tag (target).  `Reach s roots` is the set of object names reachable from `roots`
  following commit→tree, commit→parent, tree→entry (gitlinks excluded: a gitlink names a commit
  of another repository) and tag→target.  It is a set of *names*: a name the store does not
  have can be reachable (dangling); `Closed`/`ClosedFor` say that this does not happen.

  Core Lean only.
-/
import DulwichModel.Model.Basic
import DulwichModel.Gen.ObjGraph

namespace Dulwich.Graph

abbrev Id := Nat

/-- What a tree entry's mode says about the entry (`stat.S_ISDIR`, `S_ISGITLINK`; everything
else — regular file, executable, symlink — is a blob entry). -/
inductive Kind where
  | file | dir | gitlink
  deriving DecidableEq, Repr, Inhabited

/-- `S_ISGITLINK(m)` / `stat.S_ISDIR(m)` on a numeric mode: the file-type bits are
`m & 0o170000`; the gitlink type comes from `dulwich/objects.py` (`S_IFGITLINK`). -/
def kindOfMode (m : Nat) : Kind :=
  let ifmt := (m / 4096) % 16 * 4096
  if ifmt = Gen.sIfGitlink then .gitlink
  else if ifmt = 0o040000 then .dir
  else .file

inductive Obj where
  | commit (tree : Id) (parents : List Id)
  | tree (entries : List (Kind × Id))
  | blob
  | tag (target : Id)
  deriving DecidableEq, Repr, Inhabited

abbrev Store := Id → Option Obj

/-- Names a tree refers to, gitlinks excluded. -/
def treeKids (es : List (Kind × Id)) : List Id :=
  (es.filter (fun e => e.1 ≠ Kind.gitlink)).map (·.2)

/-- The outgoing edges of an object. -/
def children : Obj → List Id
  | .commit t ps => t :: ps
  | .tree es => treeKids es
  | .blob => []
  | .tag t => [t]

/-- Reachability from a list of roots (inductive closure). -/
inductive Reach (s : Store) (roots : List Id) : Id → Prop where
  | root {x : Id} : x ∈ roots → Reach s roots x
  | step {y x : Id} {o : Obj} : Reach s roots y → s y = some o → x ∈ children o → Reach s roots x

/-- Every reference of every stored object is stored. -/
def Closed (s : Store) : Prop :=
  ∀ x o, s x = some o → ∀ c ∈ children o, (s c).isSome = true

/-- The store holds everything reachable from `roots`. -/
def ClosedFor (s : Store) (roots : List Id) : Prop :=
  ∀ x, Reach s roots x → (s x).isSome = true

/-- The names in `l` the store actually has. -/
def present (s : Store) (l : List Id) : List Id := l.filter fun x => (s x).isSome

/-- Store given by an association list (first binding wins) — what the driver and the concrete
examples use. -/
def ofList (l : List (Id × Obj)) : Store := fun x => l.lookup x

/-- Union of two stores, the left one taking precedence ("receiver ∪ sent"). -/
def union (a b : Store) : Store := fun x => (a x).or (b x)

/-- Restriction of a store to a list of names (the objects put on the wire). -/
def restrict (s : Store) (ids : List Id) : Store := fun x => if x ∈ ids then s x else none

/-! ## executable closure (fuelled worklist) -/

/-- Worklist closure: `seen` accumulates visited names.  One unit of fuel per worklist item. -/
def closureAux (s : Store) : Nat → List Id → List Id → Option (List Id)
  | _, [], seen => some seen
  | 0, _ :: _, _ => none
  | fuel + 1, x :: todo, seen =>
    if x ∈ seen then closureAux s fuel todo seen
    else
      match s x with
      | none => closureAux s fuel todo (x :: seen)
      | some o => closureAux s fuel (children o ++ todo) (x :: seen)

/-- `closure s fuel roots`: all names reachable from `roots` (`none` = out of fuel). -/
def closure (s : Store) (fuel : Nat) (roots : List Id) : Option (List Id) :=
  closureAux s fuel roots []

/-! ## well-typedness (what content addressing and `check()` guarantee for real objects) -/

def isTree : Option Obj → Bool
  | some (.tree _) => true
  | _ => false

def isBlobOrAbsent : Option Obj → Bool
  | some .blob => true
  | none => true
  | _ => false

def isTreeOrAbsent : Option Obj → Bool
  | some (.tree _) => true
  | none => true
  | _ => false

/-- Modes agree with object types: a commit's tree is a tree, a `dir` entry names a tree, a
`file` entry names a blob (or the object is absent). -/
def WellTyped (s : Store) : Prop :=
  ∀ x o, s x = some o →
    match o with
    | .commit t _ => isTreeOrAbsent (s t) = true
    | .tree es => ∀ e ∈ es, (e.1 = Kind.dir → isTreeOrAbsent (s e.2) = true) ∧
                            (e.1 = Kind.file → isBlobOrAbsent (s e.2) = true)
    | _ => True

/-- Boolean version for association-list stores. -/
def wellTypedObjB (s : Store) : Obj → Bool
  | .commit t _ => isTreeOrAbsent (s t)
  | .tree es => es.all fun e =>
      (if e.1 = Kind.dir then isTreeOrAbsent (s e.2) else true) &&
      (if e.1 = Kind.file then isBlobOrAbsent (s e.2) else true)
  | _ => true

def wellTypedB (l : List (Id × Obj)) : Bool :=
  l.all fun p => wellTypedObjB (ofList l) p.2

end Dulwich.Graph
