/-
  Shallow boundaries on the wire (C05).

  Client side — the head of an upload-pack request (`dulwich/client.py: _handle_upload_pack_head`):
  a receiver that is shallow must announce its boundary (`shallow <sha>` per entry of its shallow
  file) in EVERY request, deepening or not; otherwise the sender takes the receiver's haves for
  complete histories and leaves out what lies below the boundary.  In the source the block that
  writes the shallow lines is guarded by "deepening OR the walker has shallow commits"; whether the
  second disjunct is there is read from the source by the translator (`Gen.headAnnouncesWhenShallow`).

  Server side — `_ProtocolGraphWalker._handle_shallow_request` with `find_shallow`
  (dulwich/server.py, dulwich/object_store.py): the answer to `shallow …`/`deepen N` is
  `new_shallow = (shallow − not_shallow) − client_shallow`, `unshallow = not_shallow ∩ client_shallow`
  where `(shallow, not_shallow)` come from the depth-limited walk over the WANTS — for every depth,
  the infinite one included (`Gen.unshallowFromWalk`: the assignment of `unshallow` is the
  unconditional `not_shallow & self.client_shallow`).

  Core Lean only.
-/
import DulwichModel.Model.Missing

namespace Dulwich.Shallow
open Dulwich Dulwich.Graph Dulwich.Missing

/-! ## client: request head -/

inductive ReqLine where
  | want (x : Id)
  | shallow (x : Id)
  | deepen (n : Nat)
  | deepenSince
  | deepenNot
  | flush
  | done
  deriving DecidableEq, Repr

/-- What the receiver knows when it builds a request: the entries of its shallow file
(`graph_walker.shallow`). -/
structure ClientSt where
  shallow : List Id
  deriving Repr

/-- `depth not in (0, None) or shallow_since is not None or shallow_exclude`. -/
def deepening (depth : Option Nat) (since exclude : Bool) : Bool :=
  (match depth with
   | some d => d != 0
   | none => false) || since || exclude

/-- The lines `_handle_upload_pack_head` writes before the haves, and the closing `done`
(`v2`: protocol version 2 — no flush after the arguments, one after `done`). -/
def mkRequest (st : ClientSt) (wants : List Id) (depth : Option Nat) (since exclude v2 : Bool) :
    List ReqLine :=
  wants.map ReqLine.want ++
  (if deepening depth since exclude || (Gen.headAnnouncesWhenShallow && !st.shallow.isEmpty) then
     st.shallow.map ReqLine.shallow ++
     (match depth with
      | some d => [ReqLine.deepen d]
      | none => []) ++
     (if since then [ReqLine.deepenSince] else []) ++
     (if exclude then [ReqLine.deepenNot] else [])
   else []) ++
  (if v2 then [] else [ReqLine.flush]) ++ [ReqLine.done] ++ (if v2 then [ReqLine.flush] else [])

def shallowLines (l : List ReqLine) : List Id :=
  l.filterMap fun
    | .shallow x => some x
    | _ => none

/-! ## server: `find_shallow` and the shallow/unshallow answer -/

/-- Peel tags down to a commit (`while isinstance(obj, Tag)` in `find_shallow`): `some c` for a commit,
`none` when the peeled object is not a commit (such a head is skipped). -/
def peelCommit (s : Store) : Nat → Id → Except MErr (Option Id)
  | 0, _ => .error .fuel
  | fuel + 1, x =>
    match s x with
    | none => .error .key
    | some (.commit _ _) => .ok (some x)
    | some (.tag t) => peelCommit s fuel t
    | some _ => .ok none

def peelHeads (s : Store) (fuel : Nat) : List Id → Except MErr (List (Id × Nat))
  | [] => .ok []
  | h :: rest =>
    match peelCommit s fuel h with
    | .error e => .error e
    | .ok c =>
      match peelHeads s fuel rest with
      | .error e => .error e
      | .ok l => .ok ((match c with
          | some c => [(c, 1)]
          | none => []) ++ l)

/-- The `while todo:` loop of `find_shallow`: a stack of `(sha, depth)` states, deduplicated on the
state; `sh` = `shallow`, `ns` = `not_shallow`. -/
def walk (s : Store) (depth : Nat) :
    Nat → List (Id × Nat) → List (Id × Nat) → List Id → List Id → Except MErr (List Id × List Id)
  | _, [], _, sh, ns => .ok (sh, ns)
  | 0, _ :: _, _, _, _ => .error .fuel
  | fuel + 1, (x, d) :: todo, seen, sh, ns =>
    if (x, d) ∈ seen then walk s depth fuel todo seen sh ns
    else if d < depth then
      match s x with
      | none => .error .key
      | some (.commit _ ps) =>
        walk s depth fuel ((ps.map fun p => (p, d + 1)) ++ todo) ((x, d) :: seen) sh (x :: ns)
      | some _ => .error .type
    else walk s depth fuel todo ((x, d) :: seen) (x :: sh) ns

/-- `find_shallow(store, heads, depth)` = `(shallow, not_shallow)`. -/
def findShallow (s : Store) (fuel : Nat) (heads : List Id) (depth : Nat) :
    Except MErr (List Id × List Id) :=
  match peelHeads s fuel heads with
  | .error e => .error e
  | .ok todo => walk s depth fuel todo [] [] []

structure Answer where
  boundary : List Id      -- `self.shallow` after the request (`shallow - not_shallow`)
  newShallow : List Id    -- `shallow <sha>` lines
  unshallow : List Id     -- `unshallow <sha>` lines
  deriving Repr

/-- `_handle_shallow_request` after the client's `shallow`/`deepen` lines have been read. -/
def shallowAnswer (s : Store) (fuel : Nat) (wants clientShallow : List Id) (depth : Nat) :
    Except MErr Answer :=
  match findShallow s fuel wants depth with
  | .error e => .error e
  | .ok r =>
    let boundary := r.1.filter fun x => x ∉ r.2
    .ok { boundary := boundary,
          newShallow := boundary.filter fun x => x ∉ clientShallow,
          unshallow := if Gen.unshallowFromWalk then r.2.filter fun x => x ∈ clientShallow
                       else clientShallow }

end Dulwich.Shallow
