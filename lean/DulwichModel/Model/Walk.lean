/-
  C13 — executable model of `dulwich/walk.py`: `_CommitTimeQueue` (streaming mode without excludes,
  buffered mode with excludes, `_exclude_parents`, the `_MAX_EXTRA_COMMITS` slop for excludes and
  `since`), `Walker._next`/`_should_return` (since / until / excluded / max_entries), `_reorder`
  (`_topo_reorder`, `reverse`).

  Sets (`_pq_set`, `_seen`, `_done`, `excluded`) are duplicate-free lists; the heap `_pq` of
  `(-commit_time, commit)` is a list popped by `LCA.popMax` (largest stamp, ties: smallest id, which is
  how `ShaFile.__lt__` orders commits once the harness numbers them by SHA rank).

  Simplification that is justified in the text and checked by the correspondence: `Walker._next`
  keeps up to `_MAX_EXTRA_COMMITS` entries in `_out_queue` before it asks `_should_return`, so that
  `excluded` can still grow.  In streaming mode `excluded` is empty for ever, in buffered mode the
  queue is drained completely by the first `next()`; in both modes every `_should_return` call
  therefore sees the final `excluded` set, and the walker's output is
  `(filter shouldReturn queueOutput).take max_entries`.  `paths`/`follow` are not modelled.

  Core Lean only.
-/
import DulwichModel.Model.LCA

namespace Dulwich.Walk
open Dulwich.LCA (Graph Entry popMax best)

/-! ## `_CommitTimeQueue` -/

structure QSt where
  pq : List Entry
  pqSet : List Nat
  seen : List Nat
  done : List Nat
  excluded : List Nat
  last : Option Nat
  extraLeft : Int
  finished : Bool

/-- `_push(object_id)` for a commit id (tags and non-commits are not modelled) -/
def push (g : Graph) (s : QSt) (c : Nat) : QSt :=
  if s.pqSet.contains c || s.done.contains c then s
  else { s with pq := (g.ts c, c) :: s.pq, pqSet := c :: s.pqSet, seen := c :: s.seen }

def setAdd (s : List Nat) (c : Nat) : List Nat := if s.contains c then s else c :: s

/-- body of `for parent in self._get_parents(commit):` in `_exclude_parents`; state is
`(excluded, todo)` with the top of the `todo` stack at the head -/
def excludeParent (seen : List Nat) (acc : List Nat × List Nat) (p : Nat) : List Nat × List Nat :=
  let todo := if !acc.1.contains p && seen.contains p then p :: acc.2 else acc.2
  (setAdd acc.1 p, todo)

/-- `_exclude_parents`: `while todo: commit = todo.pop(); for parent in parents: ...`;
`none` = out of fuel (never with fuel `n + 2`, each commit enters `todo` at most once) -/
def excludeParents (g : Graph) (seen : List Nat) : Nat → List Nat → List Nat → Option (List Nat)
  | _, [], ex => some ex
  | 0, _ :: _, _ => none
  | fuel + 1, c :: todo, ex =>
    let r := (g.parents c).foldl (excludeParent seen) (ex, todo)
    excludeParents g seen fuel r.2 r.1

/-- `n.commit_time >= self._last.commit_time`: "the next queued commit is not older than the last one returned,
keep walking so that the excluded set can catch up".  The operator is generated from the source. -/
def catchUpWith (ge : Bool) (n last : Int) : Bool := if ge then decide (n ≥ last) else decide (n > last)

def catchUp (n last : Int) : Bool := catchUpWith Gen.walkCatchUpGe n last

/-- `_step()`: result `(state, some commit)` when a commit is returned, `(state, none)` when the walk
is finished; outer `none` = out of fuel -/
def step (g : Graph) (since : Option Int) : Nat → QSt → Option (QSt × Option Nat)
  | 0, _ => none
  | fuel + 1, s =>
    match popMax s.pq with
    | none => some ({ s with finished := true }, none)
    | some ((_, c), rest) =>
      let s1 : QSt := { s with pq := rest, pqSet := s.pqSet.erase c }
      if s1.done.contains c then step g since fuel s1
      else
        let s2 : QSt := { s1 with done := c :: s1.done }
        let s3 := (g.parents c).foldl (push g) s2
        let isEx := s3.excluded.contains c
        let exRes : Option (QSt × Bool) :=
          if isEx then
            match excludeParents g s3.seen (g.n + 2) [c] s3.excluded with
            | none => none
            | some ex =>
              let s4 : QSt := { s3 with excluded := ex }
              let reset :=
                if !s4.pq.isEmpty && s4.pq.all (fun e => ex.contains e.2) then
                  match s4.pq, s4.last with
                  | e :: r, some l => catchUp (best e r).1 (g.ts l)
                  | _, _ => false
                else true
              some (s4, reset)
          else some (s3, true)
        match exRes with
        | none => none
        | some (s5, reset0) =>
          let reset := match since with
            | some m => if g.ts c < m then false else reset0
            | none => reset0
          if reset then
            let s6 : QSt := { s5 with extraLeft := (Gen.walkMaxExtraCommits : Int) }
            if !isEx then some ({ s6 with last := some c }, some c) else step g since fuel s6
          else
            let s6 : QSt := { s5 with extraLeft := s5.extraLeft - 1 }
            if s6.extraLeft = 0 then some ({ s6 with finished := true }, none)
            else if !isEx then some ({ s6 with last := some c }, some c) else step g since fuel s6

/-- the queue's constructor: push every include, then every exclude -/
def qInit (g : Graph) (incl excl : List Nat) : QSt :=
  (incl ++ excl).foldl (push g)
    { pq := [], pqSet := [], seen := [], done := [], excluded := excl.eraseDups, last := none,
      extraLeft := (Gen.walkMaxExtraCommits : Int), finished := false }

/-- repeated `_step()` until it reports the end; returns the final state and the commits in order -/
def drain (g : Graph) (since : Option Int) : Nat → QSt → List Nat → Option (QSt × List Nat)
  | 0, _, _ => none
  | fuel + 1, s, acc =>
    match step g since (g.n + 1) s with
    | none => none
    | some (s', none) => some (s', acc.reverse)
    | some (s', some c) => drain g since fuel s' (c :: acc)

/-- everything `next(queue)` yields, in order, and the final `excluded` set.  Buffered mode filters the
buffered commits against the final `excluded` set; streaming mode has no excludes. -/
def queueOutput (g : Graph) (incl excl : List Nat) (since : Option Int) : Option (List Nat × List Nat) :=
  match drain g since (g.n + 2) (qInit g incl excl) [] with
  | none => none
  | some (s, out) =>
    if excl.isEmpty then some (out, s.excluded)
    else some (out.filter (fun c => !s.excluded.contains c), s.excluded)

/-! ## the same queue with the catch-up comparison as a parameter (`ge = true`: `>=`, `false`: `>`)

Only for the witness in Props/C13.lean that the strict comparison yields an excluded commit on tied stamps; the
theorems are about `step`/`drain`/`queueOutput` above, whose operator comes from the source. -/

namespace Variant

/-- `_step()`: result `(state, some commit)` when a commit is returned, `(state, none)` when the walk
is finished; outer `none` = out of fuel -/
def step (ge : Bool) (g : Graph) (since : Option Int) : Nat → QSt → Option (QSt × Option Nat)
  | 0, _ => none
  | fuel + 1, s =>
    match popMax s.pq with
    | none => some ({ s with finished := true }, none)
    | some ((_, c), rest) =>
      let s1 : QSt := { s with pq := rest, pqSet := s.pqSet.erase c }
      if s1.done.contains c then step ge g since fuel s1
      else
        let s2 : QSt := { s1 with done := c :: s1.done }
        let s3 := (g.parents c).foldl (push g) s2
        let isEx := s3.excluded.contains c
        let exRes : Option (QSt × Bool) :=
          if isEx then
            match excludeParents g s3.seen (g.n + 2) [c] s3.excluded with
            | none => none
            | some ex =>
              let s4 : QSt := { s3 with excluded := ex }
              let reset :=
                if !s4.pq.isEmpty && s4.pq.all (fun e => ex.contains e.2) then
                  match s4.pq, s4.last with
                  | e :: r, some l => catchUpWith ge (best e r).1 (g.ts l)
                  | _, _ => false
                else true
              some (s4, reset)
          else some (s3, true)
        match exRes with
        | none => none
        | some (s5, reset0) =>
          let reset := match since with
            | some m => if g.ts c < m then false else reset0
            | none => reset0
          if reset then
            let s6 : QSt := { s5 with extraLeft := (Gen.walkMaxExtraCommits : Int) }
            if !isEx then some ({ s6 with last := some c }, some c) else step ge g since fuel s6
          else
            let s6 : QSt := { s5 with extraLeft := s5.extraLeft - 1 }
            if s6.extraLeft = 0 then some ({ s6 with finished := true }, none)
            else if !isEx then some ({ s6 with last := some c }, some c) else step ge g since fuel s6

/-- the queue's constructor: push every include, then every exclude -/
def qInit (g : Graph) (incl excl : List Nat) : QSt :=
  (incl ++ excl).foldl (push g)
    { pq := [], pqSet := [], seen := [], done := [], excluded := excl.eraseDups, last := none,
      extraLeft := (Gen.walkMaxExtraCommits : Int), finished := false }

/-- repeated `_step()` until it reports the end; returns the final state and the commits in order -/
def drain (ge : Bool) (g : Graph) (since : Option Int) : Nat → QSt → List Nat → Option (QSt × List Nat)
  | 0, _, _ => none
  | fuel + 1, s, acc =>
    match step ge g since (g.n + 1) s with
    | none => none
    | some (s', none) => some (s', acc.reverse)
    | some (s', some c) => drain ge g since fuel s' (c :: acc)

/-- everything `next(queue)` yields, in order, and the final `excluded` set.  Buffered mode filters the
buffered commits against the final `excluded` set; streaming mode has no excludes. -/
def queueOutput (ge : Bool) (g : Graph) (incl excl : List Nat) (since : Option Int) : Option (List Nat × List Nat) :=
  match drain ge g since (g.n + 2) (qInit g incl excl) [] with
  | none => none
  | some (s, out) =>
    if excl.isEmpty then some (out, s.excluded)
    else some (out.filter (fun c => !s.excluded.contains c), s.excluded)

end Variant

/-! ## `_topo_reorder` -/

def bump (nc : Nat → Int) (p : Nat) (d : Int) : Nat → Int := fun x => if x = p then nc x + d else nc x

/-- first loop: `num_children[p] += 1` for every parent of every entry -/
def countChildren (parents : Nat → List Nat) (entries : List Nat) : Nat → Int :=
  entries.foldl (fun nc e => (parents e).foldl (fun nc p => bump nc p 1) nc) (fun _ => 0)

structure TSt where
  todo : List Nat
  pending : List Nat
  nc : Nat → Int

/-- body of `for parent_id in get_parents(commit):` in the second loop -/
def releaseParent (s : TSt) (p : Nat) : TSt :=
  let nc := bump s.nc p (-1)
  if nc p = 0 then
    if s.pending.contains p then { todo := p :: s.todo, pending := s.pending.erase p, nc := nc }
    else { s with nc := nc }
  else { s with nc := nc }

/-- second loop `while todo:`; `none` = out of fuel -/
def topoLoop (parents : Nat → List Nat) : Nat → TSt → List Nat → Option (List Nat)
  | _, ⟨[], _, _⟩, out => some out.reverse
  | 0, ⟨_ :: _, _, _⟩, _ => none
  | fuel + 1, ⟨e :: todo, pending, nc⟩, out =>
    if nc e ≠ 0 then topoLoop parents fuel ⟨todo, setAdd pending e, nc⟩ out
    else topoLoop parents fuel ((parents e).foldl releaseParent ⟨todo, pending, nc⟩) (e :: out)

/-- `_topo_reorder(entries, get_parents)` as a list function -/
def topoReorder (parents : Nat → List Nat) (entries : List Nat) : Option (List Nat) :=
  topoLoop parents (2 * entries.length + 1) ⟨entries, [], countChildren parents entries⟩ []

/-! ## `Walker` -/

structure Opts where
  incl : List Nat
  excl : List Nat
  topo : Bool
  reverse : Bool
  maxEntries : Option Nat
  since : Option Int
  untl : Option Int

/-- `_should_return(entry)` without paths, against the final `excluded` set -/
def shouldReturn (g : Graph) (o : Opts) (excluded : List Nat) (c : Nat) : Bool :=
  (match o.since with | some m => !(g.ts c < m) | none => true) &&
  (match o.untl with | some m => !(g.ts c > m) | none => true) &&
  !excluded.contains c

/-- `list(Walker(store, include, exclude, order, reverse, max_entries, since, until))` as commit ids -/
def walk (g : Graph) (o : Opts) : Option (List Nat) :=
  match queueOutput g o.incl o.excl o.since with
  | none => none
  | some (q, excluded) =>
    let kept := q.filter (shouldReturn g o excluded)
    let limited := match o.maxEntries with
      | some m => kept.take m
      | none => kept
    let ordered : Option (List Nat) := if o.topo then topoReorder g.parents limited else some limited
    match ordered with
    | none => none
    | some l => some (if o.reverse then l.reverse else l)

end Dulwich.Walk
