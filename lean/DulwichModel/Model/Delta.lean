/-
  Model of dulwich's git delta codec.

  Python side (dulwich/pack.py): `_delta_encode_size`, `_encode_copy_operation`,
  `_create_delta_py` (the opcode emitter; the opcode list itself is a parameter — it is
  whatever `difflib.SequenceMatcher.get_opcodes()` or the Rust `similar` crate returned),
  `apply_delta`.

  Rust side (crates/pack/src/lib.rs): `get_delta_header_size`, `apply_delta` with `usize`
  (64-bit) arithmetic as coded after the two `fix:` commits (oversized size headers are rejected,
  the output buffer grows with the data, opcodes overflowing the declared size are errors).

  Arithmetic is written with `/`, `%`, `*` instead of `>>`, `&`, `|` where the two coincide;
  the correspondence check ties these definitions to the real code byte-for-byte.
-/
import DulwichModel.Model.Basic
import DulwichModel.Gen.Delta

namespace Dulwich.Delta
open Dulwich

/-! ## size varint -/

/-- `_delta_encode_size` (and Rust `delta_encode_size`). -/
def encodeSize (n : Nat) : Bytes :=
  if n < 128 then [UInt8.ofNat n]
  else UInt8.ofNat (n % 128 + 128) :: encodeSize (n / 128)
termination_by n
decreasing_by omega

/-- Python `get_delta_header_size`: unbounded integers.  Returns `(size, rest)` or `none`
when the delta ends inside the varint (`ApplyDeltaError("delta truncated in size header")`). -/
def decodeSizeAux (shift acc : Nat) : Bytes → Option (Nat × Bytes)
  | [] => none
  | b :: rest =>
    let acc' := acc + (b.toNat % 128) * 2 ^ shift
    if b.toNat < 128 then some (acc', rest) else decodeSizeAux (shift + 7) acc' rest

def decodeSize (d : Bytes) : Option (Nat × Bytes) := decodeSizeAux 0 0 d

/-! ## copy operation -/

/-- Little-endian bytes of `n` in `k` positions; zero bytes are skipped and flagged `false`
(the two loops of `_encode_copy_operation`). -/
def emitLE : Nat → Nat → List Bool × Bytes
  | 0, _ => ([], [])
  | k + 1, n =>
    let r := emitLE k (n / 256)
    if n % 256 = 0 then (false :: r.1, r.2) else (true :: r.1, UInt8.ofNat (n % 256) :: r.2)

/-- Read one byte per `true` flag, byte `i` weighted `256^i`
(the `for i in range(..): if cmd & (1 << i): x = read_byte()` loops of `apply_delta`).
`none` = `read_byte` ran off the end of the delta. -/
def readLE : List Bool → Bytes → Option (Nat × Bytes)
  | [], d => some (0, d)
  | false :: fl, d => (readLE fl d).map fun p => (256 * p.1, p.2)
  | true :: _, [] => none
  | true :: fl, b :: d => (readLE fl d).map fun p => (b.toNat + 256 * p.1, p.2)

/-- Value of a list of flag bits, bit `i` weighted `2^i`. -/
def bitsVal : List Bool → Nat
  | [] => 0
  | b :: bs => (if b then 1 else 0) + 2 * bitsVal bs

/-- The low `k` bits of `n`, least significant first (`cmd & (1 << i)` for `i < k`). -/
def bitsOf : Nat → Nat → List Bool
  | 0, _ => []
  | k + 1, n => (n % 2 = 1) :: bitsOf k (n / 2)

/-- `_encode_copy_operation(start, length)`: `Gen.copyOffsetBytes` (=4) offset bytes and
`Gen.copyLengthBytes` (=2) length bytes as read from the source by the translator. -/
def encodeCopy (off len : Nat) : Bytes :=
  let o := emitLE Gen.copyOffsetBytes off
  let l := emitLE Gen.copyLengthBytes len
  UInt8.ofNat (128 + bitsVal o.1 + 16 * bitsVal l.1) :: (o.2 ++ l.2)

/-! ## opcode emitter (`_create_delta_py` after difflib, Rust `create_delta_internal` after `similar`) -/

inductive Op where
  | copy (off len : Nat)       -- "equal" block: base[off : off+len]
  | insert (data : Bytes)      -- "replace"/"insert" block: literal target bytes
  deriving Repr, DecidableEq

/-- What an opcode list denotes. -/
def opsTarget (base : Bytes) : List Op → Bytes
  | [] => []
  | .copy off len :: ops => (base.drop off).take len ++ opsTarget base ops
  | .insert data :: ops => data ++ opsTarget base ops

/-- `while copy_len > 0: to_copy = min(copy_len, _MAX_COPY_LEN); yield _encode_copy_operation(...)`.
Fuel-free: structural on a bound `fuel ≥ len`. -/
def emitCopy (fuel off len : Nat) : Bytes :=
  match fuel with
  | 0 => []
  | fuel + 1 =>
    if len = 0 then [] else
    let n := min len Gen.maxCopyLen
    encodeCopy off n ++ emitCopy fuel (off + n) (len - n)

/-- `while s > 127: yield [127] + 127 bytes … ; yield [s] + rest`.  For an empty block the Python
code emits a lone `0` byte (never produced by difflib: replace/insert blocks are non-empty). -/
def emitInsert (fuel : Nat) (data : Bytes) : Bytes :=
  match fuel with
  | 0 => []
  | fuel + 1 =>
    if data.length > Gen.maxInsertLen then
      UInt8.ofNat Gen.maxInsertLen :: data.take Gen.maxInsertLen
        ++ emitInsert fuel (data.drop Gen.maxInsertLen)
    else UInt8.ofNat data.length :: data

def emitOps : List Op → Bytes
  | [] => []
  | .copy off len :: ops => emitCopy (len + 1) off len ++ emitOps ops
  | .insert data :: ops => emitInsert (data.length + 1) data ++ emitOps ops

/-- The whole delta for an opcode list. -/
def createDelta (base : Bytes) (ops : List Op) : Bytes :=
  encodeSize base.length ++ encodeSize (opsTarget base ops).length ++ emitOps ops

/-! ## Python `apply_delta` -/

def finish (destSize : Nat) (out : Bytes) : Except Err Bytes :=
  if out.length = destSize then .ok out else .error .delta

/-- Argument bytes of a copy opcode `cmd` (≥ 0x80): offset bytes for bits 0‥3, size bytes for bits
4‥6, a zero size meaning 0x10000.  `none` = `read_byte` ran past the end of the delta. -/
def decodeCopy (cmd : Nat) (rest : Bytes) : Option (Nat × Nat × Bytes) :=
  match readLE (bitsOf Gen.applyOffsetBytes cmd) rest with
  | none => none
  | some (off, r1) =>
    match readLE (bitsOf Gen.applySizeBytes (cmd / 16)) r1 with
    | none => none
    | some (sz0, r2) => some (off, if sz0 = 0 then Gen.copyZeroSize else sz0, r2)

/-- The opcode loop of `apply_delta`.  `fuel` bounds the number of opcodes; each consumes at least
one byte, so `d.length` suffices (`Props.C03.applyLoop_fuel`). -/
def applyLoop (src : Bytes) (destSize : Nat) : Nat → Bytes → Bytes → Except Err Bytes
  | _, [], out => finish destSize out
  | 0, _ :: _, _ => .error .other          -- out of fuel (unreachable with fuel ≥ length)
  | fuel + 1, cmd :: rest, out =>
    if cmd.toNat ≥ 128 then
      match decodeCopy cmd.toNat rest with
      | none => .error .delta                                  -- read_byte past the end
      | some (off, sz, r2) =>
        if off + sz > src.length ∨ sz > destSize then
          -- `break`; then `index != delta_length` ⇒ error, else the dest-size check
          if r2.isEmpty then finish destSize out else .error .delta
        else applyLoop src destSize fuel r2 (out ++ (src.drop off).take sz)
    else if cmd.toNat ≠ 0 then
      if cmd.toNat > rest.length then .error .delta            -- truncated insert
      else applyLoop src destSize fuel (rest.drop cmd.toNat) (out ++ rest.take cmd.toNat)
    else .error .delta                                         -- opcode 0

/-- Python `apply_delta(src, delta)`. -/
def applyDelta (src delta : Bytes) : Except Err Bytes :=
  match decodeSize delta with
  | none => .error .delta
  | some (srcSize, d1) =>
    match decodeSize d1 with
    | none => .error .delta
    | some (destSize, d2) =>
      if srcSize ≠ src.length then .error .delta
      else applyLoop src destSize d2.length d2 []

/-- The size a delta declares for its output (second varint), if the header parses. -/
def declaredDest (delta : Bytes) : Option Nat :=
  match decodeSize delta with
  | none => none
  | some (_, d1) => (decodeSize d1).map (·.1)

/-! ## Rust `apply_delta` (crates/pack/src/lib.rs) -/

def usizeMod : Nat := 2 ^ Gen.rsUsizeBits

/-- Rust `get_delta_header_size` on a 64-bit `usize`: a non-zero 7-bit group that would be shifted
(partly) out of the word is rejected (`"delta size header too large"`); zero groups are accepted at
any position.  `none` = `ApplyDeltaError` (truncated or too large). -/
def rsDecodeSizeAux (shift acc : Nat) : Bytes → Option (Nat × Bytes)
  | [] => none
  | b :: rest =>
    let bits := b.toNat % 128
    if bits ≠ 0 ∧ (shift ≥ Gen.rsUsizeBits ∨ bits * 2 ^ shift ≥ usizeMod) then none else
    let acc' := acc + bits * 2 ^ shift
    if b.toNat < 128 then some (acc', rest) else rsDecodeSizeAux (shift + 7) acc' rest

/-- Rust opcode loop; `outindex = out.length`.  `none` = `ApplyDeltaError`. -/
def rsApplyLoop (src : Bytes) (destSize : Nat) : Nat → Bytes → Bytes → Option Bytes
  | _, [], out => if out.length = destSize then some out else none
  | 0, _ :: _, _ => none
  | fuel + 1, cmd :: rest, out =>
    if cmd.toNat ≥ 128 then
      match readLE (bitsOf Gen.rsApplyOffsetBytes cmd.toNat) rest with
      | none => none
      | some (off, r1) =>
        match readLE (bitsOf Gen.rsApplySizeBytes (cmd.toNat / 16)) r1 with
        | none => none
        | some (sz0, r2) =>
          let sz := if sz0 = 0 then Gen.rsCopyZeroSize else sz0
          if sz > src.length ∨ off > src.length ∨ off > src.length - sz ∨ sz > destSize then
            -- `break`
            if r2.isEmpty then (if out.length = destSize then some out else none) else none
          else if out.length > destSize - sz then none
          else rsApplyLoop src destSize fuel r2 (out ++ (src.drop off).take sz)
    else if cmd.toNat ≠ 0 then
      if cmd.toNat > destSize then none
      else if out.length + cmd.toNat > destSize then none
      else if cmd.toNat > rest.length then none
      else rsApplyLoop src destSize fuel (rest.drop cmd.toNat) (out ++ rest.take cmd.toNat)
    else none

/-- Rust `apply_delta`: the source size is checked before the destination size is parsed. -/
def applyDeltaRs (src delta : Bytes) : Except Err Bytes :=
  match rsDecodeSizeAux 0 0 delta with
  | none => .error .delta
  | some (srcSize, d1) =>
    if srcSize ≠ src.length then .error .delta else
    match rsDecodeSizeAux 0 0 d1 with
    | none => .error .delta
    | some (destSize, d2) =>
      match rsApplyLoop src destSize d2.length d2 [] with
      | some out => .ok out
      | none => .error .delta

end Dulwich.Delta
