/-
  Model of `dulwich/object_store.py`: `_split_commits_and_tags`, `_collect_ancestors`,
  `_collect_filetree_revs` (through `GraphTraversalReachability.get_tree_objects`) and
  `MissingObjectFinder` (`__init__`, `add_todo`, `__next__`).

  Python sets are modelled as lists (membership is all that is ever asked of them).  The one place
  where the *order* of a Python set matters is `self.objects_to_send.pop()`: the model takes the
  pop order as a parameter `pick` (step number and current queue ↦ index of the popped entry), so
  every theorem that quantifies over `pick` covers every order CPython may produce.

  Every exception the real code can raise on these paths is an explicit error: `key` = `KeyError`
  (object not in the sender's store), `type` = a failed `assert isinstance(...)`; `fuel` is the
  model running out of fuel (never produced for the fuel the driver supplies; the harness treats
  it as a disagreement).  The structural facts the model relies on (which todo entries are leaves,
  where gitlinks are skipped, whether the root tree is part of `get_tree_objects`) are read from
  the source by the translator (`Gen/ObjGraph.lean`).

  Assumed (parameters of the real code left at their defaults): no commit-graph file
  (`store.get_commit_graph()` is falsy), `get_parents = commit.parents` outside the shallow set,
  the reachability provider is `GraphTraversalReachability`.
-/
import DulwichModel.Model.Graph

namespace Dulwich.Missing
open Dulwich Dulwich.Graph

inductive MErr where
  | key | type | fuel
  deriving DecidableEq, Repr, Inhabited

def MErr.toString : MErr → String
  | .key => "key" | .type => "type" | .fuel => "fuel"

instance : ToString MErr := ⟨MErr.toString⟩

/-! ## `_split_commits_and_tags` -/

/-- One element of `lst`: `(commits, tags, others)`.  `ign` = `unknown="ignore"`. -/
def splitOne (s : Store) (ign : Bool) : Nat → Id → Except MErr (List Id × List Id × List Id)
  | 0, _ => .error .fuel
  | fuel + 1, e =>
    match s e with
    | none => if ign then .ok ([], [], []) else .error .key
    | some (.commit _ _) => .ok ([e], [], [])
    | some (.tag t) =>
      match splitOne s ign fuel t with
      | .ok r => .ok (r.1, e :: r.2.1, r.2.2)
      | .error err => .error err
    | some _ => .ok ([], [], [e])

def split (s : Store) (ign : Bool) (fuel : Nat) :
    List Id → Except MErr (List Id × List Id × List Id)
  | [] => .ok ([], [], [])
  | e :: rest =>
    match splitOne s ign fuel e with
    | .error err => .error err
    | .ok a =>
      match split s ign fuel rest with
      | .error err => .error err
      | .ok b => .ok (a.1 ++ b.1, a.2.1 ++ b.2.1, a.2.2 ++ b.2.2)

/-! ## `_collect_ancestors` -/

/-- The `while queue:` loop: `q` is the queue (`pop(0)` / `extend`), `cs` = `commits`,
`bs` = `bases`.  Returns `(commits, bases)`. -/
def collectAncestors (s : Store) (common shallow : List Id) :
    Nat → List Id → List Id → List Id → Except MErr (List Id × List Id)
  | _, [], cs, bs => .ok (cs, bs)
  | 0, _ :: _, _, _ => .error .fuel
  | fuel + 1, e :: q, cs, bs =>
    if e ∈ common then collectAncestors s common shallow fuel q cs (e :: bs)
    else if e ∈ cs then collectAncestors s common shallow fuel q cs bs
    else if e ∈ shallow then collectAncestors s common shallow fuel q (e :: cs) bs
    else
      match s e with
      | none => .error .key
      | some (.commit _ ps) => collectAncestors s common shallow fuel (q ++ ps) (e :: cs) bs
      | some _ => .error .type

/-! ## `_collect_filetree_revs` / `get_tree_objects` -/

/-- Depth-first walk with an explicit stack of pending entry lists; `k` = `kset`. -/
def cftr (s : Store) : Nat → List (List (Kind × Id)) → List Id → Except MErr (List Id)
  | _, [], k => .ok k
  | 0, _ :: _, _ => .error .fuel
  | fuel + 1, [] :: st, k => cftr s fuel st k
  | fuel + 1, (e :: es) :: st, k =>
    if (Gen.cftrSkipsGitlinks && e.1 == Kind.gitlink) || e.2 ∈ k then cftr s fuel (es :: st) k
    else if e.1 = Kind.dir then
      match s e.2 with
      | none => .error .key
      | some (.tree es') => cftr s fuel (es' :: es :: st) (e.2 :: k)
      | some _ => .error .type
    else cftr s fuel (es :: st) (e.2 :: k)

/-- `get_tree_objects([tree])` with a fresh result set. -/
def treeObjects (s : Store) (fuel : Nat) (t : Id) : Except MErr (List Id) :=
  match s t with
  | none => .error .key
  | some (.tree es) => cftr s fuel [es] (if Gen.cftrAddsRoot then [t] else [])
  | some _ => .error .type

/-- `for h in common_commits: remote_has.add(h); remote_has.update(get_tree_objects([h.tree]))`. -/
def remoteHas (s : Store) (fuel : Nat) : List Id → Except MErr (List Id)
  | [] => .ok []
  | h :: rest =>
    match s h with
    | none => .error .key
    | some (.commit t _) =>
      match treeObjects s fuel t with
      | .error err => .error err
      | .ok k =>
        match remoteHas s fuel rest with
        | .error err => .error err
        | .ok r => .ok (h :: k ++ r)
    | some _ => .error .type

/-! ## `MissingObjectFinder` -/

/-- `objects_to_send` (entries `(sha, leaf)`; name and type hint do not influence the walk),
`sha_done`, and the shas yielded so far (most recent first). -/
structure St where
  todo : List (Id × Bool)
  done : List Id
  sent : List Id
  deriving Repr

/-- Result of `__init__`: initial queue and `remote_has` (= initial `sha_done`). -/
def init (s : Store) (fuel : Nat) (haves wants shallow : List Id) : Except MErr St :=
  match split s true fuel haves with
  | .error err => .error err
  | .ok h =>
    match split s false fuel wants with
    | .error err => .error err
    | .ok w =>
      match collectAncestors s [] shallow fuel h.1 [] [] with
      | .error err => .error err
      | .ok anc =>
        match collectAncestors s anc.1 shallow fuel w.1 [] [] with
        | .error err => .error err
        | .ok mc =>
          match remoteHas s fuel mc.2 with
          | .error err => .error err
          | .ok rh =>
            .ok { todo := (mc.1.map fun c => (c, false)) ++
                          ((w.2.1.filter fun t => t ∉ h.2.1).map fun t => (t, false)) ++
                          ((w.2.2.filter fun o => o ∉ h.2.2).map fun o => (o, false)),
                  done := h.2.1 ++ rh,
                  sent := [] }

/-- The todo entries produced by loading `x` (the `if not leaf:` block of `__next__`). -/
def expand (s : Store) (x : Id) : Except MErr (List (Id × Bool)) :=
  match s x with
  | none => .error .key
  | some (.commit t _) => .ok [(t, Gen.mofCommitTreeLeaf)]
  | some (.tree es) =>
    .ok (es.filterMap fun e =>
      if Gen.mofTreeSkipsGitlinks && e.1 == Kind.gitlink then none
      else some (e.2, Gen.mofEntryLeafIsNotDir && e.1 != Kind.dir))
  | some (.tag t) => .ok [(t, Gen.mofTagTargetLeaf)]
  | some .blob => .ok []

/-- `add_todo`: entries whose sha is already done are dropped. -/
def addTodo (done : List Id) (entries todo : List (Id × Bool)) : List (Id × Bool) :=
  entries.filter (fun e => e.1 ∉ done) ++ todo

/-- One `objects_to_send.pop()` and what follows it.  `i` is the index of the popped entry. -/
def step (s : Store) (tagged : List (Id × Id)) (i : Nat) (st : St) : Except MErr St :=
  match st.todo[i]? with
  | none => .ok st
  | some (x, leaf) =>
    let todo := st.todo.eraseIdx i
    if x ∈ st.done then .ok { st with todo := todo }
    else
      match (if leaf then .ok [] else expand s x) with
      | .error err => .error err
      | .ok kids =>
        let tg := match tagged.lookup x with
          | some t => [(t, Gen.mofTaggedLeaf)]
          | none => []
        .ok { todo := addTodo st.done tg (addTodo st.done kids todo),
              done := x :: st.done,
              sent := x :: st.sent }

/-- Iterate `__next__` until the queue is empty.  `pick n todo` chooses the popped entry
(taken modulo the queue length) — any function at all. -/
def run (s : Store) (tagged : List (Id × Id)) (pick : Nat → List (Id × Bool) → Nat) :
    Nat → St → Except MErr St
  | 0, st => match st.todo with
    | [] => .ok st
    | _ :: _ => .error .fuel
  | fuel + 1, st =>
    match st.todo with
    | [] => .ok st
    | _ :: _ =>
      match step s tagged (pick fuel st.todo % st.todo.length) st with
      | .error err => .error err
      | .ok st' => run s tagged pick fuel st'

/-- `list(MissingObjectFinder(store, haves, wants, shallow=…, get_tagged=…))` as a list of names
(in the order yielded, most recent first). -/
def mof (s : Store) (tagged : List (Id × Id)) (pick : Nat → List (Id × Bool) → Nat)
    (fuel : Nat) (haves wants shallow : List Id) : Except MErr (List Id) :=
  match init s fuel haves wants shallow with
  | .error err => .error err
  | .ok st0 =>
    match run s tagged pick fuel st0 with
    | .error err => .error err
    | .ok st => .ok st.sent

/-- `get_remote_has()`. -/
def mofRemoteHas (s : Store) (fuel : Nat) (haves wants shallow : List Id) :
    Except MErr (List Id) :=
  match init s fuel haves wants shallow with
  | .error err => .error err
  | .ok st0 => .ok st0.done

/-- Hypothesis on `get_tagged()` used by the completeness theorem: an entry `sha ↦ tag` names a tag
object whose target is `sha` itself (what `UploadPackHandler.get_tagged` builds for a tag of a
non-tag; a tag of a tag is mapped from its *peeled* target and is not covered). -/
def TaggedDirect (s : Store) (tagged : List (Id × Id)) : Prop :=
  ∀ x t, tagged.lookup x = some t → s t = some (.tag x) ∨ s t = none

/-! ## thin packs at the logical level (`add_thin_pack` → `extend_pack`) -/

/-- A pack entry: the object it encodes and, for a delta, the name of its base. -/
abbrev PackEntry := Id × Option Id

/-- `ext_refs`: delta bases that are not themselves in the pack. -/
def extRefs (p : List PackEntry) : List Id :=
  (p.filterMap (·.2)).filter fun b => b ∉ p.map (·.1)

/-- `extend_pack`: append every external base as a full object (looked up in the receiver). -/
def completeThin (have_ : Id → Bool) (p : List PackEntry) : Except MErr (List PackEntry) :=
  if (extRefs p).all have_ then .ok (p ++ (extRefs p).eraseDups.map fun b => (b, none))
  else .error .key

/-- A pack is self-contained when every delta base is in the pack. -/
def SelfContained (p : List PackEntry) : Prop :=
  ∀ e ∈ p, ∀ b, e.2 = some b → b ∈ p.map (·.1)

end Dulwich.Missing
