/-
  C06 — executable model of the push path, transcribed AS CODED from

    dulwich/server.py   ReceivePackHandler._apply_pack / _report_status / handle
    dulwich/client.py   ReportStatusParser (handle_packet, check), LocalGitClient.send_pack
    dulwich/refs.py     set_if_equals / remove_if_equals (logical contract: compare with the current value,
                        "absent" reads as the zero sha, return whether the swap happened)

  Refs are a function `Name → Option Id`, the object store a predicate on ids.  Every literal, the exception
  tuple, the capability lists and the three `Flags` that say what `_apply_pack` does with the CAS result /
  the new object / old values under `atomic` come from `Gen/ReceivePack.lean` (regenerated from the source
  on every run).  `Flags.coded` is what the source does now; `Flags.repaired` is the behaviour of the
  proposed fix (same code path, three switches).

  Core Lean only.
-/
import DulwichModel.Model.Basic
import DulwichModel.Gen.ReceivePack

namespace Dulwich.ReceivePack
open Dulwich
open Dulwich.Gen.ReceivePack (Part)

abbrev Name := Bytes
abbrev Id := Bytes
abbrev Refs := Name → Option Id
abbrev Store := Id → Bool

/-- `zero_sha = b"0" * hex_length` -/
def zeroSha : Id := List.replicate Gen.ReceivePack.hexLength Gen.ReceivePack.zeroChar

structure Cmd where
  old : Id
  new : Id
  name : Name
  deriving DecidableEq, Repr

structure Srv where
  refs : Refs
  store : Store

/-- What `_apply_pack` does beyond calling the ref container. -/
structure Flags where
  /-- use the boolean returned by set_if_equals / remove_if_equals for the status -/
  useCas : Bool
  /-- non-atomic loop: reject a command whose new value is not in the object store -/
  checkNew : Bool
  /-- under `atomic`, compare old values with the current refs in the validation loop -/
  atomicOld : Bool
  /-- under `atomic`, reject new values that are not in the object store in the validation loop -/
  atomicNew : Bool
  deriving DecidableEq, Repr

/-- the source as it is now (read by the translator) -/
def Flags.coded : Flags :=
  ⟨Gen.ReceivePack.casResultUsed, Gen.ReceivePack.newObjectChecked, Gen.ReceivePack.atomicValidatesOld,
   Gen.ReceivePack.atomicValidatesNew⟩
/-- the defective behaviour (F5): CAS result dropped, no object check, atomic validates hooks only -/
def Flags.unrepaired : Flags := ⟨false, false, false, false⟩
/-- behaviour of the fix series -/
def Flags.repaired : Flags := ⟨true, true, true, true⟩
/-- the atomic apply loop never tests the object store itself (the validation loop does, when `atomicNew`) -/
def Flags.noCheck (fl : Flags) : Flags := { fl with checkNew := false }

/-- Environment: everything `_apply_pack` calls out to.
* `fault n = some mro`: the ref container raises, for name `n`, an exception whose class names (mro, with
  aliases) are `mro` — `RefFormatError` for a name `_check_refname` rejects, an `OSError` for a
  directory/file conflict.  `none`: the container performs the compare-and-swap.
* `hook c = some msg`: the `update` hook declines command `c` with message `msg` (`_on_update`). -/
structure Env where
  fault : Name → Option (List Bytes)
  hook : Cmd → Option Bytes

def Env.quiet : Env := ⟨fun _ => none, fun _ => none⟩

/-- exceptions escaping `_apply_pack` / `handle` -/
inductive Exc where
  | protocol          -- GitProtocolError
  | refError          -- exception from the ref container not caught by either handler
  | unpack            -- exception from add_thin_pack outside `all_exceptions`
  deriving DecidableEq, Repr

def Exc.toString : Exc → String
  | .protocol => "protocol" | .refError => "ref-error" | .unpack => "unpack"

/-! ### the ref container contract (refs.py, logical level) -/

/-- `read_loose_ref(..) or packed.get(.., ZERO_SHA)`: an absent ref reads as the zero sha. -/
def cur (r : Refs) (n : Name) : Id :=
  match r n with
  | some v => v
  | none => zeroSha

def Refs.set (r : Refs) (n : Name) (v : Id) : Refs := fun m => if m = n then some v else r m
def Refs.del (r : Refs) (n : Name) : Refs := fun m => if m = n then none else r m

/-- `set_if_equals(name, old, new)` with `old` not None: new refs and the returned boolean. -/
def setIfEquals (r : Refs) (n : Name) (old new : Id) : Refs × Bool :=
  if cur r n = old then (r.set n new, true) else (r, false)

/-- `remove_if_equals(name, old)` with `old` not None. -/
def removeIfEquals (r : Refs) (n : Name) (old : Id) : Refs × Bool :=
  if cur r n = old then (r.del n, true) else (r, false)

/-! ### `_apply_pack` -/

def isZero (x : Id) : Bool := x == zeroSha

/-- the value the client asks the ref to hold: `none` = deleted -/
def Cmd.target (c : Cmd) : Option Id := if isZero c.new then none else some c.new

/-- `for command in refs: if command[1] != zero_sha: will_send_pack = True` -/
def willSendPack (cmds : List Cmd) : Bool := cmds.any (fun c => !isZero c.new)

/-- is an exception with class names `mro` caught by `except <classes>`? -/
def catches (classes mro : List Bytes) : Bool := mro.any (fun k => classes.contains k)

/-- `hook_error = self._on_update(..)`; `if hook_error:` (an empty message is falsy) -/
def hookError (env : Env) (c : Cmd) : Option Bytes :=
  match env.hook c with
  | some m => if m.isEmpty then none else some m
  | none => none

/-- `CAPABILITY_DELETE_REFS not in self.capabilities()` (the server's own list, as coded) or, if the source
tests the client's capabilities, `not self.has_capability(..)`. -/
def deleteRefused (caps : List Bytes) : Bool :=
  if Gen.ReceivePack.deleteCheckClient then !caps.contains Gen.ReceivePack.deleteRefsCap
  else !Gen.ReceivePack.serverCaps.contains Gen.ReceivePack.deleteRefsCap

/-- The body of the per-ref `try:` — the container call wrapped in `except all_exceptions` and the outer
`except KeyError`.  `failMsg` is "failed to delete"/"failed to write". Result: new server state and
`ref_status`, or the escaping exception. -/
def guarded (env : Env) (s : Srv) (n : Name) (failMsg : Bytes) (call : Unit → Refs × Bool)
    (fl : Flags) : Except Exc (Srv × Bytes) :=
  match env.fault n with
  | some mro =>
    if catches Gen.ReceivePack.lockCatches mro then .ok (s, Gen.ReceivePack.failedLockMsg)   -- `except FileLocked:` (if any)
    else if catches Gen.ReceivePack.allExceptions mro then .ok (s, failMsg)
    else if catches Gen.ReceivePack.badRefCatches mro then .ok (s, Gen.ReceivePack.badRefMsg)
    else .error .refError
  | none =>
    let (r', b) := call ()
    .ok ({ s with refs := r' }, if fl.useCas && !b then Gen.ReceivePack.staleMsg else Gen.ReceivePack.okMsg)

/-- One ref update (`if sha == zero_sha: … remove_if_equals … else: … set_if_equals …`).
`delCheck`: the delete-refs test is made here (non-atomic loop) or was made in the validation loop. -/
def updateRef (fl : Flags) (env : Env) (caps : List Bytes) (delCheck : Bool) (s : Srv) (c : Cmd) :
    Except Exc (Srv × Bytes) :=
  if isZero c.new then
    if delCheck && deleteRefused caps then .error .protocol
    else guarded env s c.name Gen.ReceivePack.failedDeleteMsg (fun _ => removeIfEquals s.refs c.name c.old) fl
  else if fl.checkNew && !s.store c.new then .ok (s, Gen.ReceivePack.missingMsg)
  else guarded env s c.name Gen.ReceivePack.failedWriteMsg (fun _ => setIfEquals s.refs c.name c.old c.new) fl

structure Outcome where
  srv : Srv
  /-- the `(name, message)` tuples `_apply_pack` yielded (lost when `raised`) -/
  status : List (Bytes × Bytes)
  raised : Option Exc

/-- the common shape of the two update loops: `for oldsha, sha, ref in refs: … yield (ref, ref_status)`;
an escaping exception ends the generator (the statuses yielded so far are lost with it) -/
def runLoop (step : Srv → Cmd → Except Exc (Srv × Bytes)) : Srv → List Cmd → Outcome
  | s, [] => ⟨s, [], none⟩
  | s, c :: cs =>
    match step s c with
    | .error e => ⟨s, [], some e⟩
    | .ok (s', m) =>
      let o := runLoop step s' cs
      ⟨o.srv, (c.name, m) :: o.status, o.raised⟩

/-- non-atomic branch, one iteration: update hook, then the update with the delete-refs test -/
def plainStep (fl : Flags) (env : Env) (caps : List Bytes) (s : Srv) (c : Cmd) : Except Exc (Srv × Bytes) :=
  match hookError env c with
  | some msg => .ok (s, msg)
  | none => updateRef fl env caps true s c

def plainLoop (fl : Flags) (env : Env) (caps : List Bytes) : Srv → List Cmd → Outcome :=
  runLoop (plainStep fl env caps)

/-- atomic branch, apply loop (no hooks, no delete-refs test) -/
def atomicApply (fl : Flags) (env : Env) (caps : List Bytes) : Srv → List Cmd → Outcome :=
  runLoop (updateRef fl.noCheck env caps false)

/-- atomic branch, validation of one command: `(ref_status, has_failure)` or the escaping
GitProtocolError.  Unrepaired, only the hook and the delete capability are looked at; with `fl.atomicNew`
the new object and with `fl.atomicOld` the old value are validated too. -/
def validate (fl : Flags) (env : Env) (caps : List Bytes) (s : Srv) (c : Cmd) : Except Exc (Bytes × Bool) :=
  match hookError env c with
  | some msg => .ok (msg, true)
  | none =>
    if isZero c.new && deleteRefused caps then .error .protocol
    else if fl.atomicNew && !isZero c.new && !s.store c.new then .ok (Gen.ReceivePack.missingMsg, true)
    else if fl.atomicOld && cur s.refs c.name != c.old then .ok (Gen.ReceivePack.staleMsg, true)
    else .ok (Gen.ReceivePack.okMsg, false)

def validateAll (fl : Flags) (env : Env) (caps : List Bytes) (s : Srv) :
    List Cmd → Except Exc (List (Bytes × Bytes) × Bool)
  | [] => .ok ([], false)
  | c :: cs =>
    match validate fl env caps s c with
    | .error e => .error e
    | .ok (m, f) =>
      match validateAll fl env caps s cs with
      | .error e => .error e
      | .ok (rs, f') => .ok ((c.name, m) :: rs, f || f')

/-- `if status == b"ok": yield (ref, b"atomic push failed") else: yield (ref, status)` -/
def failAll (rs : List (Bytes × Bytes)) : List (Bytes × Bytes) :=
  rs.map (fun p => if p.2 = Gen.ReceivePack.okMsg then (p.1, Gen.ReceivePack.atomicFailedMsg) else p)

def refLoop (fl : Flags) (env : Env) (caps : List Bytes) (s : Srv) (cmds : List Cmd) : Outcome :=
  if caps.contains Gen.ReceivePack.atomicCap then
    match validateAll fl env caps s cmds with
    | .error e => ⟨s, [], some e⟩
    | .ok (rs, true) => ⟨s, failAll rs, none⟩
    | .ok (_, false) => atomicApply fl env caps s cmds
  else plainLoop fl env caps s cmds

/-- What `add_thin_pack` does with the bytes the client sent: the ids it added, or the class names (mro, with
aliases) of the exception it raised. -/
inductive Unpack where
  | ok (ids : List Id)
  | raises (mro : List Bytes)
  deriving Repr

/-- placeholder for `str(e)` in `(b"unpack", str(e)…)`: the harness canonicalises the real text to this -/
def unpackErrorMsg : Bytes := [101, 114, 114, 111, 114]  -- "error"

def Store.add (st : Store) (ids : List Id) : Store := fun i => st i || ids.contains i

/-- `_apply_pack(refs)` -/
def applyPack (fl : Flags) (env : Env) (caps : List Bytes) (s : Srv) (u : Unpack) (cmds : List Cmd) : Outcome :=
  let go (s' : Srv) : Outcome :=
    let o := refLoop fl env caps s' cmds
    ⟨o.srv, (Gen.ReceivePack.unpackName, Gen.ReceivePack.okMsg) :: o.status, o.raised⟩
  if willSendPack cmds then
    match u with
    | .ok ids => go { s with store := s.store.add ids }
    | .raises mro =>
      if catches Gen.ReceivePack.allExceptions mro then
        ⟨s, [(Gen.ReceivePack.unpackName, unpackErrorMsg)], none⟩
      else ⟨s, [], some .unpack⟩
  else go s

/-! ### `_report_status` (payload lines; side-band framing is C19's subject) -/

def renderParts (name msg : Bytes) : List Part → Bytes
  | [] => []
  | .lit b :: ps => b ++ renderParts name msg ps
  | .name :: ps => name ++ renderParts name msg ps
  | .msg :: ps => msg ++ renderParts name msg ps

def statusLine (p : Bytes × Bytes) : Bytes :=
  if p.1 = Gen.ReceivePack.rsUnpackName then renderParts p.1 p.2 Gen.ReceivePack.fmtUnpack
  else if p.2 = Gen.ReceivePack.rsOkMsg then renderParts p.1 p.2 Gen.ReceivePack.fmtOk
  else renderParts p.1 p.2 Gen.ReceivePack.fmtNg

/-- the pkt-line payloads written, in order; the final flush-pkt is `none` -/
def reportStatus (status : List (Bytes × Bytes)) : List (Option Bytes) :=
  status.map (fun p => some (statusLine p)) ++ [none]

/-! ### `handle` (after the advertisement) -/

def capAllowed (c : Bytes) : Bool :=
  Gen.ReceivePack.serverCaps.contains c || Gen.ReceivePack.innocuousCaps.contains c
    || (Gen.ReceivePack.agentCap ++ [61]).isPrefixOf c

structure Handled where
  out : Outcome
  /-- pkt-line payloads of the status report, when one is written -/
  report : Option (List (Option Bytes))
  /-- a side-band channel-3 (fatal) packet precedes the report: `_on_pre_receive` writes the hook error there
  when side-band-64k was negotiated; the client raises GitProtocolError on it -/
  fatal : Bool := false

/-- `handle()` from the first command line on.  `preDeclines`: the pre-receive hook raises HookError. -/
def handle (fl : Flags) (env : Env) (preDeclines : Bool) (caps : List Bytes) (s : Srv) (u : Unpack)
    (cmds : List Cmd) : Handled :=
  if cmds.isEmpty then ⟨⟨s, [], none⟩, none, false⟩
  else if !caps.all capAllowed then ⟨⟨s, [], some .protocol⟩, none, false⟩
  else
    let rep := caps.contains Gen.ReceivePack.reportStatusCap
    if preDeclines then
      let st := (Gen.ReceivePack.unpackName, Gen.ReceivePack.preReceiveDeclinedMsg) ::
        cmds.map (fun c => (c.name, Gen.ReceivePack.preReceiveDeclinedMsg))
      ⟨⟨s, st, none⟩, if rep then some (reportStatus st) else none, caps.contains Gen.ReceivePack.sideBand64kCap⟩
    else
      let o := applyPack fl env caps s u cmds
      match o.raised with
      | some _ => ⟨o, none, false⟩
      | none => ⟨o, if rep then some (reportStatus o.status) else none, false⟩

/-! ### client: `ReportStatusParser` -/

/-- bytes `bytes.strip()` removes: space, \t \n \v \f \r -/
def isWs (b : UInt8) : Bool := b == 32 || (9 ≤ b && b ≤ 13)

def lstrip (b : Bytes) : Bytes := b.dropWhile isWs
def rstrip (b : Bytes) : Bytes := (b.reverse.dropWhile isWs).reverse
def strip (b : Bytes) : Bytes := rstrip (lstrip b)

/-- `x.split(sep, 1)` when it yields two parts -/
def splitOnce (sep : UInt8) : Bytes → Option (Bytes × Bytes)
  | [] => none
  | b :: rest =>
    if b = sep then some ([], rest)
    else match splitOnce sep rest with
      | some (a, r) => some (b :: a, r)
      | none => none

structure Parser where
  done : Bool := false
  packStatus : Option Bytes := none
  refStatuses : List Bytes := []   -- in arrival order
  deriving Repr, DecidableEq

inductive ParseErr where
  | protocol   -- GitProtocolError
  | sendPack   -- SendPackError (server could not unpack)
  | value      -- ValueError from `ref, error = rest.split(b" ", 1)`
  deriving DecidableEq, Repr

def ParseErr.toString : ParseErr → String
  | .protocol => "protocol" | .sendPack => "sendpack" | .value => "value"

/-- `handle_packet(pkt)` -/
def Parser.handlePacket (p : Parser) (pkt : Option Bytes) : Except ParseErr Parser :=
  if p.done then .error .protocol
  else match pkt with
    | none => .ok { p with done := true }
    | some b =>
      match p.packStatus with
      | none => .ok { p with packStatus := some (strip b) }
      | some _ => .ok { p with refStatuses := p.refStatuses ++ [strip b] }

def Parser.feed (p : Parser) : List (Option Bytes) → Except ParseErr Parser
  | [] => .ok p
  | x :: xs =>
    match p.handlePacket x with
    | .error e => .error e
    | .ok p' => p'.feed xs

def checkStatuses : List Bytes → Except ParseErr (List (Bytes × Option Bytes))
  | [] => .ok []
  | st :: rest =>
    match splitOnce Gen.ReceivePack.parserSep st with
    | none => checkStatuses rest            -- malformed response, move on
    | some (kw, r) =>
      if kw = Gen.ReceivePack.parserNg then
        match splitOnce Gen.ReceivePack.parserSep r with
        | none => .error .value
        | some (ref, err) =>
          match checkStatuses rest with
          | .error e => .error e
          | .ok l => .ok ((ref, some err) :: l)
      else if kw = Gen.ReceivePack.parserOk then
        match checkStatuses rest with
        | .error e => .error e
        | .ok l => .ok ((r, none) :: l)
      else .error .protocol

/-- `check()`: `(ref, None)` for ok, `(ref, error)` for ng, in order (the caller makes a dict of it). -/
def Parser.check (p : Parser) : Except ParseErr (List (Bytes × Option Bytes)) :=
  match p.packStatus with
  | none => checkStatuses p.refStatuses
  | some ps => if ps = Gen.ReceivePack.parserUnpackOk then checkStatuses p.refStatuses else .error .sendPack

/-- what the client makes of a status report -/
def clientParse (lines : List (Option Bytes)) : Except ParseErr (List (Bytes × Option Bytes)) :=
  match (Parser.feed {} lines) with
  | .error e => .error e
  | .ok p => p.check

/-- `_handle_receive_pack_tail` on what `handle` wrote: a fatal side-band packet raises before anything is
parsed -/
def clientTail (h : Handled) : Option (Except ParseErr (List (Bytes × Option Bytes))) :=
  match h.report with
  | none => none
  | some lines => if h.fatal then some (.error .protocol) else some (clientParse lines)

/-! ### `LocalGitClient.send_pack` (in-process push) -/

/-- Target repository of the local path: refs plus which names are in the packed-refs file (with the
"peeled" header) — `get_peeled` answers only for those. -/
structure LocalRepo where
  refs : Refs
  store : Store
  packed : Name → Bool

/-- `DiskRefsContainer.get_peeled(name)` for refs that do not point at tags: the current value when the name
is in packed-refs, `None` otherwise (loose refs have no cached peeled value). -/
def getPeeled (t : LocalRepo) (n : Name) : Option Id := if t.packed n then t.refs n else none

inductive LocalMsg where
  | unableToSet | unableToRemove | atomicFailed | missingObject
  deriving DecidableEq, Repr

def LocalMsg.toString : LocalMsg → String
  | .unableToSet => "set" | .unableToRemove => "remove" | .atomicFailed => "atomic" | .missingObject => "missing"

/-- What `LocalGitClient.send_pack` does (read from the source by the translator). -/
structure LocalFlags where
  /-- `if not target.refs.set_if_equals(...)`: the status comes from the compare-and-swap -/
  usesCas : Bool
  /-- the apply loop refuses a new value the target's object store does not have -/
  checksNew : Bool
  /-- so does the atomic pre-check -/
  precheckNew : Bool
  /-- the atomic pre-check reads `get_peeled()` (None for loose and for missing refs) instead of the value
  the compare-and-swap will see -/
  precheckPeeled : Bool
  deriving DecidableEq, Repr

def LocalFlags.coded : LocalFlags :=
  ⟨Gen.ReceivePack.localUsesCasResult, Gen.ReceivePack.localChecksNew, Gen.ReceivePack.localPrecheckChecksNew,
   Gen.ReceivePack.localPrecheckGetPeeled⟩
/-- the behaviour before the fixes -/
def LocalFlags.unrepaired : LocalFlags := ⟨true, false, false, true⟩
def LocalFlags.repaired : LocalFlags := ⟨true, true, true, false⟩

/-- old value the client uses: `old_refs.get(refname, ZERO_SHA)` from its snapshot -/
def snapOld (snap : Refs) (n : Name) : Id := cur snap n

def localStaleMsg (c : Name × Id) : LocalMsg := if isZero c.2 then .unableToRemove else .unableToSet

/-- the atomic pre-check of one `(refname, new)` -/
def localPrecheck (lf : LocalFlags) (snap : Refs) (t : LocalRepo) (c : Name × Id) : Option LocalMsg :=
  if lf.precheckNew && !isZero c.2 && !t.store c.2 then some .missingObject
  else if lf.precheckPeeled then
    -- `current = get_peeled(..); if current is not None and current != old_sha1`
    match getPeeled t c.1 with
    | some v => if v != snapOld snap c.1 then some (localStaleMsg c) else none
    | none => none
  else
    -- `(current or ZERO_SHA) != old_sha1` with the value the compare-and-swap will read
    if cur t.refs c.1 != snapOld snap c.1 then some (localStaleMsg c) else none

/-- one iteration of the apply loop: `if not target.refs.set_if_equals(refname, old_sha1, new_sha1): …
ref_status[refname] = msg` (resp. `remove_if_equals`); `ref_status[refname]` is only set on failure
(`none` = success).  A successful removal also drops the name from packed-refs. -/
def localStep (lf : LocalFlags) (snap : Refs) (t : LocalRepo) (c : Name × Id) : LocalRepo × Option LocalMsg :=
  if isZero c.2 then
    let r := removeIfEquals t.refs c.1 (snapOld snap c.1)
    (if r.2 then ⟨r.1, t.store, fun m => if m = c.1 then false else t.packed m⟩ else t,
     if lf.usesCas && !r.2 then some .unableToRemove else none)
  else if lf.checksNew && !t.store c.2 then (t, some .missingObject)
  else
    let r := setIfEquals t.refs c.1 (snapOld snap c.1) c.2
    ({ t with refs := r.1 }, if lf.usesCas && !r.2 then some .unableToSet else none)

/-- the apply loop -/
def localApply (lf : LocalFlags) (snap : Refs) : LocalRepo → List (Name × Id) → LocalRepo × List (Name × Option LocalMsg)
  | t, [] => (t, [])
  | t, c :: cs =>
    ((localApply lf snap (localStep lf snap t c).1 cs).1,
     (c.1, (localStep lf snap t c).2) :: (localApply lf snap (localStep lf snap t c).1 cs).2)

/-- `LocalGitClient.send_pack(path, update_refs, generate_pack_data, atomic=…)`.
`snap` is `old_refs` (the refs read at the start), `t` the target as it is when the updates are applied
(different from `snap` only when a second pusher got in between), `cmds` the dict `update_refs` returned
(in order), `packIds` what `generate_pack_data` supplies.  Returns the target afterwards and
`ref_status` (none = success; an absent key in Python). `none` for the early return with `ref_status={}`. -/
def localSendPack (lf : LocalFlags) (snap : Refs) (t : LocalRepo) (atomic : Bool) (packIds : List Id) (have_ : List Id)
    (cmds : List (Name × Id)) : LocalRepo × Option (List (Name × Option LocalMsg)) :=
  let want := cmds.filter (fun c => !have_.contains c.2 && !isZero c.2)
  if want.isEmpty && cmds.all (fun c => snap c.1 = some c.2) then (t, none)
  else
    let t1 : LocalRepo := { t with store := t.store.add packIds }
    let pre := cmds.map (fun c => (c.1, localPrecheck lf snap t1 c))
    if atomic && pre.any (fun p => p.2.isSome) then
      (t1, some (pre.map (fun p => (p.1, some (match p.2 with | some m => m | none => .atomicFailed)))))
    else ((localApply lf snap t1 cmds).1, some (localApply lf snap t1 cmds).2)

end Dulwich.ReceivePack
