/-
  C10 (logical half) — executable model of dulwich's maintenance operations on the *logical* object store.

  Modelled code (dulwich/gc.py, dulwich/object_store.py):
    find_reachable_objects      -> `walk` / `findReachable`  (the `reachable` set + `pending` deque worklist)
    find_unreachable_objects    -> `unreachable`
    prune_unreachable_objects   -> `pruneLoose`
    garbage_collect             -> `gc`   (to-prune set with grace period, delete loose, repack(exclude), temp-file prune)
    PackBasedObjectStore.repack -> `repack`
    pack_loose_objects          -> `packLoose`
    DiskObjectStore.get_object_mtime -> `Store.mtime?`
    __contains__ / __iter__     -> `Store.has` / `Store.allIds`

  The store is logical: loose objects (id, mtime), packs (id list, mtime of the .pack file), alternates (ids, read-only).
  Object content is a function of the id (content addressing, property C01), so the object graph is a global
  children map `G : Id → List Id` (tree + parents of a commit, entries of a tree, target of a tag, [] for a blob);
  whether `G x` can be *read* is decided by the store (`store[sha]` raises KeyError for an absent object and the
  walk skips it).  Time (`now`) and mtimes are inputs.

  Core Lean only.
-/
import DulwichModel.Model.Basic
import DulwichModel.Gen.GC
namespace Dulwich.GC

abbrev Id := Nat

structure Pack where
  ids : List Id
  mtime : Nat
  deriving DecidableEq, Repr

structure Store where
  /-- loose objects with the mtime of the loose file -/
  loose : List (Id × Nat)
  /-- packs, in the order of `store.packs` (the `_pack_cache` dict order) -/
  packs : List Pack
  /-- objects of the alternate stores (never written by maintenance) -/
  alts : List Id
  deriving DecidableEq, Repr

def Store.looseIds (s : Store) : List Id := s.loose.map (·.1)

def Store.packed (s : Store) (x : Id) : Bool := s.packs.any (fun p => p.ids.contains x)

def Store.isLoose (s : Store) (x : Id) : Bool := s.looseIds.contains x

/-- `sha in store` / `store[sha]` succeeds: packs, then loose, then alternates. -/
def Store.has (s : Store) (x : Id) : Bool := s.packed x || s.isLoose x || s.alts.contains x

/-- `iter(store)`: packs, loose, alternates (a multiset; callers use it as a set). -/
def Store.allIds (s : Store) : List Id := s.packs.flatMap (·.ids) ++ s.looseIds ++ s.alts

/-- Which of the two behaviours repaired by the C10 fix series the model follows (`Gen/GC.lean` says what the source
does now; the theorems about grace periods are for `Variant.fixed`). -/
structure Variant where
  /-- `get_object_mtime` returns the most recent mtime over all copies (old code: the loose file's, else the first pack's) -/
  maxMtime : Bool
  /-- `_complete_pack` refreshes the mtime of an existing pack with the same objects (old code: left it as it was) -/
  refreshExisting : Bool
  deriving DecidableEq, Repr

def Variant.fixed : Variant := { maxMtime := true, refreshExisting := true }
def Variant.old : Variant := { maxMtime := false, refreshExisting := false }

/-- mtimes of all copies of `x`: loose files, then packs (in `store.packs` order) -/
def Store.mtimes (s : Store) (x : Id) : List Nat :=
  (s.loose.filter (fun e => e.1 == x)).map (·.2) ++ (s.packs.filter (fun p => p.ids.contains x)).map (·.mtime)

def maxOf : List Nat → Option Nat
  | [] => none
  | t :: ts => some (ts.foldl max t)

/-- `DiskObjectStore.get_object_mtime`: the most recent mtime over all copies; `KeyError` (`none`) when there is no
local copy (object only in an alternate).  Old variant: the loose file's mtime if loose, else the mtime of the first pack
(in `store.packs` order) that has it. -/
def Store.mtime? (v : Variant) (s : Store) (x : Id) : Option Nat :=
  if v.maxMtime then maxOf (s.mtimes x) else (s.mtimes x).head?

/-! ### find_reachable_objects -/

/-- the inner `if c not in reachable: pending.append(c); reachable.add(c)` loop -/
def addKids (seen pending : List Id) : List Id → List Id × List Id
  | [] => (seen, pending)
  | c :: cs => if seen.contains c then addKids seen pending cs
               else addKids (seen ++ [c]) (pending ++ [c]) cs

/-- The `while pending:` loop.  `kids x = none` models `object_store[sha]` raising `KeyError` (`continue`).
Returns `none` when the fuel runs out (the Python loop has no fuel; `walk_total` shows enough fuel exists). -/
def walk (kids : Id → Option (List Id)) : Nat → List Id → List Id → Option (List Id)
  | _, seen, [] => some seen
  | 0, _, _ :: _ => none
  | fuel + 1, seen, p :: rest =>
    match kids p with
    | none => walk kids fuel seen rest
    | some cs => walk kids fuel (addKids seen rest cs).1 (addKids seen rest cs).2

/-- what the walk can read of object `x` in store `s` -/
def kidsIn (s : Store) (G : Id → List Id) (x : Id) : Option (List Id) :=
  if s.has x then some (G x) else none

/-- `find_reachable_objects(store, refs)`; `roots` = the values of all refs and HEAD (`refs.allkeys()`,
symbolic refs followed, broken refs skipped). -/
def findReachable (s : Store) (G : Id → List Id) (roots : List Id) (fuel : Nat) : Option (List Id) :=
  walk (kidsIn s G) fuel (addKids [] [] roots).1 (addKids [] [] roots).2

/-- `find_unreachable_objects` -/
def unreachable (s : Store) (reach : List Id) : List Id := s.allIds.filter (fun x => !reach.contains x)

/-! ### grace period -/

/-- `age < grace_period` with `age = now - mtime` (no truncation: `now < mtime + grace`);
`grace_period is None` disables the test. -/
def young (grace : Option Nat) (now mtime : Nat) : Bool :=
  match grace with
  | none => false
  | some g => decide (now < mtime + g)

/-- the grace-period filter of `garbage_collect` / `prune_unreachable_objects`: with a grace period, an object whose
mtime cannot be determined (`KeyError`: only in an alternate) is skipped, a young one is kept; without one everything
unreachable is selected. -/
def selectable (v : Variant) (s : Store) (grace : Option Nat) (now : Nat) (x : Id) : Bool :=
  match grace with
  | none => true
  | some g => match s.mtime? v x with
    | none => false
    | some t => !young (some g) now t

def toPrune (v : Variant) (s : Store) (reach : List Id) (grace : Option Nat) (now : Nat) : List Id :=
  (unreachable s reach).filter (selectable v s grace now)

/-! ### repack / pack_loose_objects -/

def dedup : List Id → List Id
  | [] => []
  | x :: xs => if xs.contains x then dedup xs else x :: dedup xs

def sameSet (a b : List Id) : Bool := a.all (b.contains ·) && b.all (a.contains ·)

/-- `add_objects` followed by `_complete_pack`: a pack whose name (hash of its sorted ids) equals that of an
existing pack is not written, the existing pack is returned — with its mtime refreshed (`refreshExisting`). -/
def installPack (v : Variant) (packs : List Pack) (objs : List Id) (now : Nat) : List Pack × Pack :=
  match packs.find? (fun p => sameSet p.ids objs) with
  | some p =>
    if v.refreshExisting then
      (packs.map (fun q => if q = p then { q with mtime := now } else q), { p with mtime := now })
    else (packs, p)
  | none => (packs ++ [{ ids := objs, mtime := now }], { ids := objs, mtime := now })

/-- `PackBasedObjectStore.repack(exclude)`: everything loose or packed that is not excluded goes into one
new pack; all loose objects (packed or excluded) are deleted; all old packs except a same-named one are removed. -/
def repack (v : Variant) (s : Store) (exclude : List Id) (now : Nat) : Store :=
  let objs := dedup ((s.looseIds.filter (fun x => !exclude.contains x)) ++
                     s.packs.flatMap (fun p => p.ids.filter (fun x => !exclude.contains x)))
  if objs.isEmpty then { loose := [], packs := [], alts := s.alts }
  else { loose := [], packs := [(installPack v s.packs objs now).2], alts := s.alts }

/-- `pack_loose_objects()` -/
def packLoose (v : Variant) (s : Store) (now : Nat) : Store :=
  if s.looseIds.isEmpty then s
  else { loose := [], packs := (installPack v s.packs (dedup s.looseIds) now).1, alts := s.alts }

/-- `prune_unreachable_objects(store, refs, grace_period)`: deletes the *loose* file of every unreachable
object that is old enough according to `get_object_mtime` (packed copies are untouched: `delete_loose_object` raises
`FileNotFoundError`, which is swallowed).  `reach` is the result of `findReachable`. -/
def pruneLoose (v : Variant) (s : Store) (reach : List Id) (grace : Option Nat) (now : Nat) : Store :=
  { s with loose := s.loose.filter (fun e => reach.contains e.1 || !selectable v s grace now e.1) }

/-- the set returned by `prune_unreachable_objects` -/
def prunedLoose (v : Variant) (s : Store) (reach : List Id) (grace : Option Nat) (now : Nat) : List Id :=
  (s.loose.filter (fun e => !(reach.contains e.1 || !selectable v s grace now e.1))).map (·.1)

/-- `garbage_collect(repo, prune=…, grace_period=…)` given the reachable set: select, pack refs (no effect on
objects), delete the selected loose objects, `repack(exclude=selected)`, prune temp files (no logical effect). -/
def gcWith (v : Variant) (s : Store) (reach : List Id) (prune : Bool) (grace : Option Nat) (now : Nat) : Store :=
  let sel := if prune then toPrune v s reach grace now else []
  let s1 : Store := { s with loose := s.loose.filter (fun e => !sel.contains e.1) }
  repack v s1 sel now

/-! ### maintenance from a long-lived handle whose pack cache may be stale

`view` is what `self.packs` returns in that handle: its cached `Pack` objects, in cache order — some of them possibly of
files that ANOTHER process has removed since — followed by the packs a directory rescan finds.  The rescan closes the
cached packs whose files are gone, so touching one (`pack.name()`) raises `PackFileDisappeared`: the operation stops
before it has deleted anything.  A pack of the view is "on disk" iff it is one of `s.packs`. -/

/-- `_complete_pack`'s "are these objects already packed?" loop over `self.packs`.  `none` = `PackFileDisappeared`.
`trustStale = true` is NOT the code: it is the variant in which a cached pack counts as holding the objects without the
directory being consulted (kept for the regression witness). -/
def installPackV (v : Variant) (trustStale : Bool) (disk : List Pack) (objs : List Id) (now : Nat) :
    List Pack → Option (List Pack)
  | [] => some (disk ++ [{ ids := objs, mtime := now }])
  | p :: rest =>
    if disk.contains p then
      if sameSet p.ids objs then
        some (if v.refreshExisting then disk.map (fun q => if q = p then { q with mtime := now } else q) else disk)
      else installPackV v trustStale disk objs now rest
    else if trustStale then
      if sameSet p.ids objs then some disk else installPackV v trustStale disk objs now rest
    else none

/-- `pack_loose_objects()` from a handle with the given view: (resulting store, raised?) -/
def packLooseV (v : Variant) (trustStale : Bool) (view : List Pack) (s : Store) (now : Nat) : Store × Bool :=
  if s.looseIds.isEmpty then (s, false)
  else match installPackV v trustStale s.packs (dedup s.looseIds) now view with
    | none => (s, true)
    | some pk => ({ loose := [], packs := pk, alts := s.alts }, false)

/-- `repack()` from a handle with the given view: `{p.name(): p for p in self.packs}` raises on a vanished pack -/
def repackV (v : Variant) (view : List Pack) (s : Store) (now : Nat) : Store × Bool :=
  if view.any (fun p => !s.packs.contains p) then (s, true) else (repack v s [] now, false)

/-! ### operations as data -/

inductive Op where
  | packLoose (now : Nat)
  | repack (now : Nat)
  | prune (grace : Option Nat) (now : Nat)
  | gc (prune : Bool) (grace : Option Nat) (now : Nat)
  /-- `refs.pack_refs()`, `object_store.prune()` (temp files): no effect on the logical store -/
  | noop
  deriving DecidableEq, Repr

/-- One maintenance operation; `none` only when the reachability walk runs out of fuel. -/
def apply (v : Variant) (G : Id → List Id) (roots : List Id) (fuel : Nat) (op : Op) (s : Store) : Option Store :=
  match op with
  | .packLoose now => some (packLoose v s now)
  | .repack now => some (repack v s [] now)
  | .prune grace now => (findReachable s G roots fuel).map (fun r => pruneLoose v s r grace now)
  | .gc prune grace now => (findReachable s G roots fuel).map (fun r => gcWith v s r prune grace now)
  | .noop => some s

def applyAll (v : Variant) (G : Id → List Id) (roots : List Id) (fuel : Nat) : List Op → Store → Option Store
  | [], s => some s
  | op :: ops, s => (apply v G roots fuel op s).bind (applyAll v G roots fuel ops)

/-- the store as the reachability walk of a long-lived handle may see it: objects of cached packs whose files are gone
can still be READ (not deleted) for as long as those packs stay mapped, i.e. until the handle's next directory rescan -/
def Store.withStale (s : Store) (extra : List Id) : Store := { s with alts := s.alts ++ extra }

/-- One maintenance operation from a handle with the given view of the packs.  `garbage_collect` rescans the pack
directory before anything else and does not depend on the view; `prune_unreachable_objects` walks the graph first, and
that walk may read `extra`: some objects of vanished packs that are still mapped (which ones depends on when the walk's
lookups trigger a rescan — any subset is allowed for).  Returns (store, raised `PackFileDisappeared`?). -/
def applyV (v : Variant) (G : Id → List Id) (roots : List Id) (fuel : Nat) (view : List Pack) (extra : List Id)
    (op : Op) (s : Store) : Option (Store × Bool) :=
  match op with
  | .packLoose now => some (packLooseV v false view s now)
  | .repack now => some (repackV v view s now)
  | .prune grace now =>
    (findReachable (s.withStale extra) G roots fuel).map (fun r => (pruneLoose v s r grace now, false))
  | _ => (apply v G roots fuel op s).map (fun s' => (s', false))

/-- a sequence of operations, each from its own (arbitrary) view; an operation that raises leaves the store as it was -/
def applyAllV (v : Variant) (G : Id → List Id) (roots : List Id) (fuel : Nat) :
    List (List Pack × List Id × Op) → Store → Option Store
  | [], s => some s
  | (view, extra, op) :: ops, s =>
    (applyV v G roots fuel view extra op s).bind (fun r => applyAllV v G roots fuel ops r.1)

/-! ### the roots: enumerating refs while a ref packer runs

A ref is stored as a loose file, in `packed-refs`, or both.  `pack_refs` writes the new `packed-refs` and unlinks loose
files.  `allkeys()` (what `find_reachable_objects` enumerates) reads the loose tree and `packed-refs` one after the other;
the roots are the union of the two views. -/

/-- the ref storage as far as one ref name is concerned: (loose file exists, line in packed-refs exists) -/
abbrev RefAt := Bool × Bool

inductive RefAct where
  | writePacked   -- a new packed-refs containing the ref is renamed into place
  | unlinkLoose   -- the loose file is removed
  | other         -- anything that does not concern this ref
  deriving DecidableEq, Repr

def RefAct.ofCode : Nat → RefAct
  | 0 => .writePacked
  | 1 => .unlinkLoose
  | _ => .other

def RefAt.act (s : RefAt) : RefAct → RefAt
  | .writePacked => (s.1, true)
  | .unlinkLoose => (false, s.2)
  | .other => s

/-- the states the storage goes through while the packer's program runs (initial state first) -/
def refTrace (s : RefAt) : List RefAct → List RefAt
  | [] => [s]
  | a :: rest => s :: refTrace (s.act a) rest

/-- the packer writes packed-refs before it unlinks the loose file -/
def packsBeforeUnlink : Bool → List RefAct → Bool
  | _, [] => true
  | packed, .writePacked :: rest => packsBeforeUnlink (packed || true) rest
  | packed, .unlinkLoose :: rest => packed && packsBeforeUnlink packed rest
  | packed, .other :: rest => packsBeforeUnlink packed rest

/-- is the ref among the roots when the loose tree is read in the `i`-th and packed-refs in the `j`-th state of `tr`?
(`looseFirst` = the order in the source: requires `i ≤ j`; otherwise `j ≤ i`) -/
def rootSeen (tr : List RefAt) (i j : Nat) : Bool :=
  ((tr[i]?).map (·.1)).getD false || ((tr[j]?).map (·.2)).getD false

/-! ### the grace period as configured (`gc.pruneExpire`)

`ConfigValue` is the configured value as classified by its shape; `graceOf` is `get_prune_grace_period` (keyword table
and default regenerated from the source); `expiryOf` is what the value MEANS (git's reading): the instant before which
unreachable objects may be pruned.  `never` means "no object is ever old enough"; it is kept distinct from the API's
`grace_period=None`, which means "no age check at all". -/

inductive ConfigValue where
  | unset
  | keyword (k : String)
  | secondsAgo (n : Nat)      -- "<n> <unit> ago", "<n>.<unit>.ago", "yesterday"
  | absolute (t : Nat)        -- a date / date-time, as a timestamp
  | other                     -- anything else
  deriving DecidableEq, Repr

inductive GraceResult where
  | refuse                    -- ValueError: gc does not run
  | secs (g : Nat)            -- grace period in seconds
  | noAgeCheck                -- the API's None: everything unreachable goes
  deriving DecidableEq, Repr

/-- `get_prune_grace_period(config)`; `table` = the literal keywords the function answers itself (value, or `none` for the
API's None), `dflt` = its answer when the key is not set -/
def graceOf (table : List (String × Option Nat)) (dflt now : Nat) : ConfigValue → GraceResult
  | .unset => .secs dflt
  | .keyword k =>
    match table.lookup k with
    | some (some g) => .secs g
    | some none => .noAgeCheck
    | none => .refuse
  | .secondsAgo n => .secs n
  | .absolute t => .secs (now - t)
  | .other => .refuse

/-- the keywords git gives a meaning to: `true` = "everything may go" (now, all), `false` = "nothing ever" (never, false) -/
def gitKeyword (k : String) : Option Bool :=
  if k = "now" ∨ k = "all" then some true else if k = "never" ∨ k = "false" then some false else none

/-- the expiry instant the value denotes (`none`: the value has no meaning) -/
def expiryOf (now : Nat) : ConfigValue → Option Nat
  | .unset => some (now - 1209600)
  | .keyword k => (gitKeyword k).map (fun all => if all then now else 0)
  | .secondsAgo n => some (now - n)
  | .absolute t => some t
  | .other => none

/-- a keyword table is acceptable iff every keyword it answers means "everything may go" -/
def tableSound (table : List (String × Option Nat)) : Bool :=
  table.all (fun e => gitKeyword e.1 == some true)

/-- the default `grace_period` argument of `garbage_collect` (regenerated from the source) -/
def defaultGrace : Option Nat := some Dulwich.Gen.GC.defaultGracePeriod

/-- the variant the source implements now (regenerated) -/
def Variant.current : Variant :=
  { maxMtime := Dulwich.Gen.GC.getObjectMtimeUsesMax, refreshExisting := Dulwich.Gen.GC.completePackRefreshesMtime }

end Dulwich.GC
