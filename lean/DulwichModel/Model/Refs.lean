/-
  Model of the ref containers of `dulwich/refs.py` and `dulwich/reftable.py` (C16), as coded —
  defects included.

  * `Spec`      the two-line abstract spec: a map `Name → Option Val` (raw values: a hex sha or
                `ref: <target>`), symrefs followed on update, `None` old value = unconditional,
                `ZERO_SHA` old value = "must be absent".
  * `follow`    `RefsContainer.follow` (base class; shared by every backend through `read_ref`).
  * `Dict`      `DictRefsContainer` (a plain map; does *not* follow symrefs on update).
  * `Disk`      `DiskRefsContainer` at the logical level: loose files + directories that exist below
                the git dir + packed map + peeled map; loose precedence; the directory/file conflict
                probes exactly as coded (`_check_packed_conflict` against packed ancestors and
                descendants in all three writers, `os.makedirs`, lock-file creation and the final
                rename against loose files/dirs, `_remove_empty_directories`);
                `pack_refs`/`add_packed_refs`, `_remove_packed_ref`, empty-parent clean-up.
                (The model of the code before the C16 fix series is kept in Model/RefsOld.lean.)
  * `Reftable`  `ReftableRefsContainer.set_if_equals/add_if_new/remove_if_equals/set_symbolic_ref`
                (merged view of all tables = one raw map).
  * `namespaced` `NamespacedRefsContainer` as a wrapper over any `Ops`.

  Assumptions (state-level, checked by the harness on everything it generates): ref names have no
  empty path component (so `os.path.dirname`, `rsplit(b"/",1)` and "text before the last slash"
  coincide and distinct names are distinct files), one work tree (worktree_path = path), no
  concurrent writer (a lock file never pre-exists), no symlinks below the git dir.
  Core Lean only.
-/
import DulwichModel.Model.RefFormat

namespace Dulwich.Refs
open Dulwich Dulwich.RefFormat Dulwich.Gen.Refs

abbrev Name := Bytes
abbrev Val := Bytes

/-- exception classes the ref code raises, canonicalised -/
inductive Exc where
  | refFormat    -- RefFormatError
  | value        -- ValueError (`_check_ref_value`)
  | symrefLoop   -- SymrefLoop
  | os           -- any OSError (NotADirectoryError, IsADirectoryError, FileNotFoundError, …)
  | key          -- KeyError
  | notImpl      -- NotImplementedError (base-class method a backend does not override)
  deriving DecidableEq, Repr

abbrev Res (α : Type) := Except Exc α

/-- (explicit and namespaced: a `deriving instance … for Except` would get the same global name in every
module of the package that does it) -/
instance instDecEqRes {α : Type} [DecidableEq α] : DecidableEq (Res α) := fun x y =>
  match x, y with
  | .ok a, .ok b =>
    if h : a = b then isTrue (by rw [h]) else isFalse (fun h' => by injection h' with h'; exact h h')
  | .error a, .error b =>
    if h : a = b then isTrue (by rw [h]) else isFalse (fun h' => by injection h' with h'; exact h h')
  | .ok _, .error _ => isFalse (fun h => by cases h)
  | .error _, .ok _ => isFalse (fun h => by cases h)

/-! ### finite maps (association lists, first match wins; `set` keeps keys unique) -/

abbrev Map := List (Bytes × Bytes)

namespace Map
def get : Map → Bytes → Option Bytes
  | [], _ => none
  | (k', v) :: r, k => if k' = k then some v else get r k

def del : Map → Bytes → Map
  | [], _ => []
  | (k', v) :: r, k => if k' = k then del r k else (k', v) :: del r k

def set (m : Map) (k v : Bytes) : Map := (k, v) :: del m k

def keys (m : Map) : List Bytes := m.map (·.1)
end Map

def dedup : List Bytes → List Bytes
  | [] => []
  | a :: r => if a ∈ r then dedup r else a :: dedup r

/-! ### the abstract spec -/

abbrev RefMap := Name → Option Val

def RefMap.update (m : RefMap) (k : Name) (v : Option Val) : RefMap := fun n => if n = k then v else m n

/-- `RefsContainer.follow(name)` over `read = self.read_ref`: the chain of names visited and the final
contents (`none` when the chain ends at a missing/empty ref); `SymrefLoop` when the depth limit is
exceeded.  `fuel` is the remaining depth: the Python loop raises when `depth > symrefMaxDepth`, i.e. on
its `(symrefMaxDepth+1)`-th successful read. -/
def followAux (read : Name → Option Val) : Nat → Name → List Name → Res (List Name × Option Val)
  | fuel, refname, acc =>
    match read refname with
    | none => .ok (acc ++ [refname], none)
    | some c =>
      if c.isEmpty then .ok (acc ++ [refname], none)
      else match fuel with
        | 0 => .error .symrefLoop
        | fuel' + 1 =>
          if symref.isPrefixOf c then followAux read fuel' (c.drop symref.length) (acc ++ [refname])
          else .ok (acc ++ [refname], some c)

def follow (read : Name → Option Val) (name : Name) : Res (List Name × Option Val) :=
  followAux read symrefMaxDepth name []

/-- the name an update of `name` lands on: `realnames[-1]`, or `name` itself when `follow` raises
(`except (KeyError, IndexError, SymrefLoop): realname = name`) -/
def realname (read : Name → Option Val) (name : Name) : Name :=
  match follow read name with
  | .ok (names, _) => (names.getLast?).getD name   -- IndexError branch of the code: `realname = name`
  | .error _ => name

/-- the compare part of compare-and-swap: `None` = unconditional; otherwise the current raw value
(absent = `ZERO_SHA`) must equal `old` -/
def casOk (cur : Option Val) (old : Option Val) : Bool :=
  match old with
  | none => true
  | some o => (match cur with | some c => c | none => zeroSha) == o

namespace Spec
def setIfEquals (m : RefMap) (name : Name) (old : Option Val) (new : Val) : Bool × RefMap :=
  let r := realname m name
  if casOk (m r) old then (true, m.update r (some new)) else (false, m)

def addIfNew (m : RefMap) (name : Name) (v : Val) : Res Bool × RefMap :=
  match follow m name with
  | .error e => (.error e, m)
  | .ok (names, contents) =>
    if contents.isSome then (.ok false, m)
    else (.ok true, m.update ((names.getLast?).getD name) (some v))

def removeIfEquals (m : RefMap) (name : Name) (old : Option Val) : Bool × RefMap :=
  if casOk (m name) old then (true, m.update name none) else (false, m)

def setSymbolicRef (m : RefMap) (name other : Name) : RefMap := m.update name (some (symref ++ other))
end Spec

/-- `read_ref`: loose first, packed when the loose read gave nothing (`if not contents`) -/
def readRefOf (loose packed : Option Val) : Option Val :=
  match loose with
  | some c => if c.isEmpty then packed else some c
  | none => packed

/-! ### DictRefsContainer -/

namespace Dict
def readRef (m : Map) (n : Name) : Option Val := readRefOf (m.get n) none

def setIfEquals (m : Map) (name : Name) (old : Option Val) (new : Val) : Res Bool × Map :=
  if !validRefValue new then (.error .value, m)
  else if !casOk (m.get name) old then (.ok false, m)
  else if !checkRefname name then (.error .refFormat, m)
  else (.ok true, m.set name new)

def addIfNew (m : Map) (name : Name) (v : Val) : Res Bool × Map :=
  if !validRefValue v then (.error .value, m)
  else if (m.get name).isSome then (.ok false, m)
  else (.ok true, m.set name v)

def removeIfEquals (m : Map) (name : Name) (old : Option Val) : Res Bool × Map :=
  if !casOk (m.get name) old then (.ok false, m) else (.ok true, m.del name)

/-- (the old value is followed for the log only; a `SymrefLoop` there is caught) -/
def setSymbolicRef (m : Map) (name other : Name) : Res Unit × Map :=
  (.ok (), m.set name (symref ++ other))
end Dict

/-! ### DiskRefsContainer -/

/-- text before the last `/` (`none` when there is no `/`) -/
def parent? : Bytes → Option Bytes
  | [] => none
  | b :: rest =>
    match parent? rest with
    | some p => some (b :: p)
    | none => if b = 47 then some [] else none

/-- every non-empty proper prefix that is followed by a `/`: the directories on the way to `n`
(`refs/heads/a/b` ↦ `refs`, `refs/heads`, `refs/heads/a`) -/
def ancestors : Bytes → List Bytes
  | [] => []
  | b :: rest =>
    let r := (ancestors rest).map (b :: ·)
    if rest.head? = some 47 then [b] :: r else r

structure Disk where
  /-- loose ref files (`HEAD`, `refs/**`): name ↦ first line without the line terminator -/
  files : Map
  /-- directories that exist below the git dir, as ref-path names (`refs`, `refs/heads`, …) -/
  dirs : List Bytes
  /-- `packed-refs`: name ↦ sha -/
  packed : Map
  /-- peeled lines of `packed-refs`: name ↦ peeled sha -/
  peeled : Map
  deriving DecidableEq, Repr

namespace Disk

/-- `read_loose_ref`: `None` for a name `_check_refname` rejects, for a missing file and for any
`OSError` (a directory, a non-directory ancestor) -/
def readLoose (d : Disk) (n : Name) : Option Val := if checkRefname n then d.files.get n else none

def readRef (d : Disk) (n : Name) : Option Val := readRefOf (d.readLoose n) (d.packed.get n)

/-- the value the compare-and-swap paths look at: `read_loose_ref(n)`, and only when that `is None`
the packed value (`read_ref` falls back on any falsy loose value instead) -/
def origRef (d : Disk) (n : Name) : Option Val :=
  match d.readLoose n with
  | some c => some c
  | none => d.packed.get n

def isFile (d : Disk) (p : Bytes) : Bool := (d.files.get p).isSome

def addDirs (dirs : List Bytes) : List Bytes → List Bytes
  | [] => dirs
  | p :: ps => addDirs (if p ∈ dirs then dirs else dirs ++ [p]) ps

/-- `ensure_dir_exists(dirname(refpath(name)))` followed by creating `<name>.lock`: fails with an
`OSError` iff some directory on the way is a loose file (`os.makedirs` raises `NotADirectoryError`, or
swallows `FileExistsError` and the lock-file `open` raises it); otherwise the missing directories
have been created. -/
def lockMkdirs (d : Disk) (name : Name) : Res Disk :=
  if (ancestors name).any d.isFile then .error .os
  else .ok { d with dirs := addDirs d.dirs (ancestors name) }

/-- `_check_packed_conflict(name)` raises: a leading part of `name` is a packed ref
(`NotADirectoryError`) or a packed ref lives below `name` (`IsADirectoryError`) -/
def packedConflict (d : Disk) (name : Name) : Bool :=
  (ancestors name).any (fun p => (d.packed.get p).isSome) ||
    d.packed.keys.any (fun k => decide (name ∈ ancestors k))

/-- `_remove_empty_directories(refpath(name))`: bottom-up `rmdir` of `name` and everything below it,
failures ignored — every directory at or below `name` that has no loose file beneath it goes away -/
def pruneEmpty (d : Disk) (name : Name) : Disk :=
  { d with dirs := d.dirs.filter fun q =>
      !((q == name || decide (name ∈ ancestors q)) && d.files.keys.all (fun f => !decide (q ∈ ancestors f))) }

/-- `_GitFile.close()`: rename the lock file over `name`; `IsADirectoryError` when `name` is a directory -/
def commitFile (d : Disk) (name : Name) (content : Val) : Res Disk :=
  if name ∈ d.dirs then .error .os else .ok { d with files := d.files.set name content }

def setIfEquals (d : Disk) (name : Name) (old : Option Val) (new : Val) : Res Bool × Disk :=
  if !checkRefname name then (.error .refFormat, d)
  else if !validRefValue new then (.error .value, d)
  else
    let real := realname d.readRef name
    -- "make sure neither an ancestor folder nor a descendant is in packed refs"
    if d.packedConflict real then (.error .os, d)
    else match d.lockMkdirs real with
      | .error e => (.error e, d)
      | .ok d1 =>
        if !casOk (d1.origRef real) old then (.ok false, d1)
        else if d1.origRef real == some new then (.ok true, d1)     -- "Ref already has desired value"
        else match (d1.pruneEmpty real).commitFile real new with
          | .error e => (.error e, d1.pruneEmpty real)
          | .ok d2 => (.ok true, d2)

def pathExists (d : Disk) (p : Bytes) : Bool := d.isFile p || decide (p ∈ d.dirs)

def addIfNew (d : Disk) (name : Name) (v : Val) : Res Bool × Disk :=
  if !validRefValue v then (.error .value, d)
  else match follow d.readRef name with
    | .error e => (.error e, d)                          -- SymrefLoop is not caught here
    | .ok (names, contents) =>
      if contents.isSome then (.ok false, d)
      else
        let real := (names.getLast?).getD name
        if !checkRefname real then (.error .refFormat, d)
        else if d.packedConflict real then (.error .os, d)
        else match d.lockMkdirs real with
          | .error e => (.error e, d)
          | .ok d1 =>
            if (d1.pruneEmpty real).pathExists real || (d1.packed.get real).isSome then (.ok false, d1.pruneEmpty real)
            else match (d1.pruneEmpty real).commitFile real v with
              | .error e => (.error e, d1.pruneEmpty real)
              | .ok d2 => (.ok true, d2)

/-- `_remove_packed_ref` -/
def removePacked (d : Disk) (name : Name) : Disk :=
  if (d.packed.get name).isSome then { d with packed := d.packed.del name, peeled := d.peeled.del name } else d

def dirEmpty (d : Disk) (p : Bytes) : Bool :=
  d.files.keys.all (fun f => parent? f != some p) && d.dirs.all (fun q => parent? q != some p)

/-- the clean-up loop at the end of `remove_if_equals`: `rmdir` each parent, nearest first, stopping
at `refs`, at the first failure, or when there is no `/` left -/
def cleanupParents : Nat → Disk → Bytes → Disk
  | 0, d, _ => d
  | fuel + 1, d, n =>
    match parent? n with
    | none => d
    | some p =>
      if p = b!"refs" then d
      else if decide (p ∈ d.dirs) && d.dirEmpty p then
        cleanupParents fuel { d with dirs := d.dirs.filter (· != p) } p
      else d

def removeIfEquals (d : Disk) (name : Name) (old : Option Val) : Res Bool × Disk :=
  if !checkRefname name then (.error .refFormat, d)
  else match d.lockMkdirs name with
    | .error e => (.error e, d)
    | .ok d1 =>
      if !casOk (d1.origRef name) old then (.ok false, d1)   -- `return False` inside `try`: no clean-up
      else
        -- the packed entry goes first; then the loose file is unlinked — or, when a directory sits at
        -- its path, that directory is pruned as far as it is empty (never an error)
        let d2 := (({ d1 with files := d1.files.del name } : Disk).removePacked name)
        let d3 := if name ∈ d2.dirs then d2.pruneEmpty name else d2
        (.ok true, cleanupParents name.length d3 name)

def setSymbolicRef (d : Disk) (name other : Name) : Res Unit × Disk :=
  if !checkRefname name then (.error .refFormat, d)
  else if !checkRefname other then (.error .refFormat, d)
  else if d.packedConflict name then (.error .os, d)
  else match d.lockMkdirs name with
    | .error e => (.error e, d)
    | .ok d1 =>
      -- (the old value is followed for the log only; a `SymrefLoop` there is caught)
      match (d1.pruneEmpty name).commitFile name (symref ++ other) with
      | .error e => (.error e, d1.pruneEmpty name)
      | .ok d2 => (.ok (), d2)

/-- `allkeys()`: HEAD if its file exists, loose files below `refs/` whose *full* name passes
`check_ref_format`, packed names -/
def allKeys (d : Disk) : List Name :=
  dedup ((if d.pathExists headRef then [headRef] else [])
    ++ d.files.keys.filter (fun n => b!"refs/".isPrefixOf n && checkRefFormat n == some true)
    ++ d.packed.keys)

/-- the peeled value on record is forgotten when the packed value is replaced by a different one -/
def peeledAfter (d : Disk) (ref : Name) (target : Val) : Map :=
  match d.packed.get ref with
  | some old => if old != target then d.peeled.del ref else d.peeled
  | none => d.peeled

/-- `_prune_loose_ref(ref, target)`: the loose file is removed only if (under its lock) it still reads as
the value that was packed; a missing, unreadable or different loose file stays -/
def filesAfterPrune (d : Disk) (ref : Name) (target : Val) : Map :=
  if d.readLoose ref == some target then d.files.del ref else d.files

/-- the loop of `add_packed_refs(…, prune_only_if_unchanged=True)` as `pack_refs` calls it (entries other
than HEAD): the value goes into the packed map, a stale peeled value is dropped, and — once the new
packed-refs is in place — the loose file is pruned -/
def addPacked (d : Disk) : List (Name × Val) → Disk
  | [] => d
  | (ref, target) :: rest =>
    addPacked { d with files := d.filesAfterPrune ref target, peeled := d.peeledAfter ref target,
                       packed := d.packed.set ref target } rest

/-- the selection loop of `pack_refs`: the ref's own value (`read_ref`, not followed); HEAD, missing or
empty values and symbolic refs are skipped -/
def packSelect (d : Disk) (all : Bool) : List Name → List (Name × Val)
  | [] => []
  | ref :: rest =>
    if ref = headRef then packSelect d all rest
    else if all || localTagPrefix.isPrefixOf ref then
      match d.readRef ref with
      | none => packSelect d all rest
      | some c =>
        if c.isEmpty || symref.isPrefixOf c then packSelect d all rest
        else (ref, c) :: packSelect d all rest
    else packSelect d all rest

def packRefs (d : Disk) (all : Bool) : Res Unit × Disk :=
  (.ok (), addPacked d (packSelect d all d.allKeys))

/-- `get_peeled` -/
def getPeeled (d : Disk) (name : Name) : Res (Option Val) :=
  if (d.packed.get name).isNone then .ok none
  else if (d.readLoose name).isSome then .ok none          -- a loose ref overrides the packed entry
  else match d.peeled.get name with
    | some p => .ok (some p)
    | none =>
      match follow d.readRef name with                   -- "Known not peelable": `self[name]`
      | .error e => .error e
      | .ok (_, none) => .error .key
      | .ok (_, some sha) => .ok (some sha)

end Disk

/-! ### ReftableRefsContainer (merged view of all tables = one raw map) -/

namespace Reftable
/-- `_matches_old_ref`: `None` = unconditionally, `ZERO_SHA` = the ref must not exist -/
def matchesOld (cur old : Option Val) : Bool :=
  match old with
  | none => true
  | some o => if o = zeroSha then cur.isNone else cur == some o

def setIfEquals (m : Map) (name : Name) (old : Option Val) (new : Val) : Res Bool × Map :=
  if !matchesOld (m.get name) old then (.ok false, m) else (.ok true, m.set name new)

def addIfNew (m : Map) (name : Name) (v : Val) : Res Bool × Map :=
  if (m.get name).isSome then (.ok false, m) else (.ok true, m.set name v)

def removeIfEquals (m : Map) (name : Name) (old : Option Val) : Res Bool × Map :=
  if !matchesOld (m.get name) old then (.ok false, m) else (.ok true, m.del name)

def setSymbolicRef (m : Map) (name other : Name) : Res Unit × Map := (.ok (), m.set name (symref ++ other))
end Reftable

/-! ### the container interface, the operations derived from it in the base class, namespaces -/

structure Ops (σ : Type) where
  readRef : σ → Name → Option Val
  allKeys : σ → List Name
  getPeeled : σ → Name → Res (Option Val)
  setIfEquals : σ → Name → Option Val → Val → Res Bool × σ
  addIfNew : σ → Name → Val → Res Bool × σ
  removeIfEquals : σ → Name → Option Val → Res Bool × σ
  setSymbolicRef : σ → Name → Name → Res Unit × σ
  packRefs : σ → Bool → Res Unit × σ

def diskOps : Ops Disk :=
  { readRef := Disk.readRef, allKeys := Disk.allKeys, getPeeled := Disk.getPeeled,
    setIfEquals := Disk.setIfEquals, addIfNew := Disk.addIfNew, removeIfEquals := Disk.removeIfEquals,
    setSymbolicRef := Disk.setSymbolicRef, packRefs := Disk.packRefs }

def dictOps : Ops Map :=
  { readRef := Dict.readRef, allKeys := fun m => dedup m.keys,
    getPeeled := fun _ _ => .ok none,                    -- `_peeled` is only filled by test helpers
    setIfEquals := Dict.setIfEquals, addIfNew := Dict.addIfNew, removeIfEquals := Dict.removeIfEquals,
    setSymbolicRef := Dict.setSymbolicRef,
    packRefs := fun m _ => (.error .notImpl, m) }

namespace Ops
variable {σ : Type} (o : Ops σ)

/-- `__getitem__` -/
def getItem (s : σ) (name : Name) : Res Val :=
  match follow (o.readRef s) name with
  | .error e => .error e
  | .ok (_, none) => .error .key
  | .ok (_, some sha) => .ok sha

/-- `__setitem__`: `_check_ref_value` then `set_if_equals(name, None, ref)` (result dropped) -/
def setItem (s : σ) (name : Name) (v : Val) : Res Unit × σ :=
  if !validRefValue v then (.error .value, s)
  else match o.setIfEquals s name none v with
    | (.error e, s') => (.error e, s')
    | (.ok _, s') => (.ok (), s')

/-- `__delitem__` -/
def delItem (s : σ) (name : Name) : Res Unit × σ :=
  match o.removeIfEquals s name none with
  | (.error e, s') => (.error e, s')
  | (.ok _, s') => (.ok (), s')

/-- `as_dict()`: every key that resolves (`SymrefLoop`/`KeyError` skipped) -/
def asDict (s : σ) : List (Name × Val) :=
  (o.allKeys s).filterMap fun k =>
    match o.getItem s k with
    | .ok v => some (k, v)
    | .error _ => none

/-- `get_symrefs()` (keys whose `read_ref` is `None` would trip the `assert`; they do not occur for
the states the harness builds) -/
def getSymrefs (s : σ) : List (Name × Name) :=
  (o.allKeys s).filterMap fun k =>
    match o.readRef s k with
    | some c => if symref.isPrefixOf c then some (k, c.drop symref.length) else none
    | none => none

end Ops

/-! ### NamespacedRefsContainer -/

/-- `refs/namespaces/<part>/` for every `/`-separated part of the namespace -/
def nsPrefix (ns : Bytes) : Bytes :=
  (splitOnByte 47 ns).foldl (fun acc part => acc ++ b!"refs/namespaces/" ++ part ++ [47]) []

def applyNs (pfx : Bytes) (n : Name) : Name :=
  if n = headRef || !(b!"refs/").isPrefixOf n then n else pfx ++ n

def stripNs (pfx : Bytes) (n : Name) : Option Name :=
  if n = headRef || !(b!"refs/").isPrefixOf n then some n
  else if pfx.isPrefixOf n then some (n.drop pfx.length) else none

/-- the target of a symbolic ref is handed out without the prefix `set_symbolic_ref` stored it with
(a target outside the namespace is left as it is) -/
def stripSymref (pfx : Bytes) (c : Val) : Val :=
  if symref.isPrefixOf c then
    match stripNs pfx (c.drop symref.length) with
    | some t => symref ++ t
    | none => c
  else c

/-- Every operation applies the prefix to the names it is given and delegates.  `read_ref` is the
base-class one over the namespaced `read_loose_ref`/`get_packed_refs`, i.e. the inner `read_ref` of the
prefixed name, with the target of a symbolic ref stripped of the prefix again. -/
def namespaced {σ : Type} (o : Ops σ) (pfx : Bytes) : Ops σ :=
  { readRef := fun s n => (o.readRef s (applyNs pfx n)).map (stripSymref pfx),
    allKeys := fun s => dedup ((o.allKeys s).filterMap (stripNs pfx)),
    getPeeled := fun s n => o.getPeeled s (applyNs pfx n),
    setIfEquals := fun s n old new => o.setIfEquals s (applyNs pfx n) old new,
    addIfNew := fun s n v => o.addIfNew s (applyNs pfx n) v,
    removeIfEquals := fun s n old => o.removeIfEquals s (applyNs pfx n) old,
    setSymbolicRef := fun s n other => o.setSymbolicRef s (applyNs pfx n) (applyNs pfx other),
    packRefs := o.packRefs }

end Dulwich.Refs
