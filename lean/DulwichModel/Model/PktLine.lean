/-
  C19 — executable model of dulwich's pkt-line / side-band framing (dulwich/protocol.py,
  client._read_side_band64k_data, pack.PackStreamReader._read).  Core Lean only.

  Every constant comes from Gen/PktLine.lean (regenerated from /repo on each run).  The model
  describes the code that exists, including: `pkt_line` raises ValueError above
  `MAX_PKT_LINE_DATA_LEN`; `read_pkt_line` does not touch the transport for the empty pkt-line
  `0004` (`ReceivableProtocol.read(0)` would trip `assert size > 0`); `PktLineParser` rejects the
  delim-pkt `0001` that `read_pkt_line` accepts; `BufferedPktLineWriter.flush` resets `_len`, not
  `_buflen`.  The behaviour before the C19 fix series is kept in `namespace Old` for the
  regression witnesses in Props/C19.lean.
-/
import DulwichModel.Model.Basic
import DulwichModel.Gen.PktLine

namespace Dulwich.PktLine
open Dulwich

/-- A pkt-line as `pkt_line` takes it and the decoders return it: `none` = `None` (flush-pkt). -/
abbrev Pkt := Option Bytes

/-- git's `LARGE_PACKET_MAX` (pkt-line.h): the longest frame a conforming peer may send.  An
external constant of the wire format; dulwich's code mentions it only in a comment. -/
def gitLargePacketMax : Nat := 65520

/-! ## Encoder: `pkt_line`, `pkt_seq` -/

/-- lower-case hex digit, as Python's `x` presentation type -/
def hexChar (d : Nat) : UInt8 := if d < 10 then UInt8.ofNat (48 + d) else UInt8.ofNat (87 + d)

/-- little-endian base-16 digits of `n` (at least one digit); fuel `n + 1` always suffices -/
def hexDigitsLE : Nat → Nat → List Nat
  | 0, _ => []
  | f + 1, n => if n < 16 then [n] else (n % 16) :: hexDigitsLE f (n / 16)

/-- `format(n, "x")` -/
def hexStr (n : Nat) : Bytes := ((hexDigitsLE (n + 1) n).reverse).map hexChar

/-- `format(n, "0{w}x")`: zero padded to *at least* `w` digits — never truncated. -/
def fmtHex (w n : Nat) : Bytes :=
  let s := hexStr n
  List.replicate (w - s.length) (48 : UInt8) ++ s

/-- The bytes of one frame: the flush-pkt literal, or `f"{len(data) + 4:04x}" + data` — the
formatting step of `pkt_line`, without its size check (also what `unread_pkt_line` writes with
`b"%04x"`). -/
def frame : Pkt → Bytes
  | none => Gen.PktLine.flushPkt.map UInt8.ofNat
  | some d => fmtHex Gen.PktLine.fmtWidth (d.length + Gen.PktLine.fmtHdr) ++ d

/-- `pkt_line(data)`; `none` = ValueError (payload longer than `MAX_PKT_LINE_DATA_LEN`) -/
def pktLine : Pkt → Option Bytes
  | none => some (frame none)
  | some d => if d.length > Gen.PktLine.maxDataLen then none else some (frame (some d))

/-- the byte stream of a sequence of frames -/
def encode (ps : List Pkt) : Bytes := (ps.map frame).flatten

/-- `b"".join(pkt_line(p) for p in ps)`; `none` = ValueError -/
def wire (ps : List Pkt) : Option Bytes := (ps.mapM pktLine).map List.flatten

/-- `pkt_seq(*seq)`; `none` = ValueError -/
def pktSeq (ps : List Pkt) : Option Bytes := (wire ps).map (· ++ frame none)

/-! ## `_parse_pkt_line_length` -/

/-- value of an ASCII hex digit as `int(_, 16)` reads it -/
def digitVal (b : UInt8) : Option Nat :=
  let n := b.toNat
  if 48 ≤ n ∧ n ≤ 57 then some (n - 48)
  else if 97 ≤ n ∧ n ≤ 102 then some (n - 87)
  else if 65 ≤ n ∧ n ≤ 70 then some (n - 55)
  else none

/-- `int(s, base)` restricted to strings of plain digits (what `_HEX_DIGITS` lets through) -/
def intOfDigits (base : Nat) : Bytes → Nat → Option Nat
  | [], acc => some acc
  | b :: r, acc =>
    match digitVal b with
    | some v => if v < base then intOfDigits base r (acc * base + v) else none
    | none => none

/-- Outcome classes of a length-prefix parse. -/
inductive LenResult where
  | ok (n : Nat)
  | protocol          -- GitProtocolError
  | other             -- ValueError from `int()` (unreachable with the shipped `_HEX_DIGITS`)
  deriving DecidableEq, Repr

def parseLen (s : Bytes) : LenResult :=
  if s.length ≠ Gen.PktLine.lenWidth ∨ ¬ s.all (fun b => Gen.PktLine.hexDigits.contains b.toNat) then .protocol
  else match intOfDigits Gen.PktLine.lenBase s 0 with
    | some n => .ok n
    | none => .other

/-! ## `Protocol.read_pkt_line` over an abstract blocking reader -/

/-- Result of one `read_pkt_line` call on reader state `τ`. -/
inductive Rd (τ : Type) where
  | pkt (p : Pkt) (s : τ)
  | hangup (s : τ)      -- HangupException: clean EOF where a length prefix was expected
  | protoErr            -- GitProtocolError
  | otherErr            -- anything else (AssertionError, ValueError)
  deriving Repr

/-- A reader `rd n s` returns the bytes read and the new state, or `none` when the call itself
raises something that is not a protocol error (ReceivableProtocol's `assert size > 0`). -/
abbrev Reader (τ : Type) := Nat → τ → Option (Bytes × τ)

/-- `io.BytesIO(s).read` / any blocking file-like `read`: exactly `n` bytes unless EOF. -/
def bytesRead : Reader Bytes := fun n s => some (s.take n, s.drop n)

/-- The body of `read_pkt_line` after the reader has been chosen. -/
def readCore {τ : Type} (rd : Reader τ) (s : τ) : Rd τ :=
  match rd Gen.PktLine.rdPrefix s with
  | none => .otherErr
  | some (sizestr, s1) =>
    if sizestr = [] then .hangup s1
    else match parseLen sizestr with
      | .protocol => .protoErr
      | .other => .otherErr
      | .ok size =>
        if size = Gen.PktLine.rdFlush ∨ size = Gen.PktLine.rdDelim then .pkt none s1
        else if size < Gen.PktLine.rdMin then .protoErr
        else
          -- `read(size - 4) if size > 4 else b""`
          let r := if size > Gen.PktLine.rdEmpty then rd (size - Gen.PktLine.rdHdr) s1 else some ([], s1)
          match r with
          | none => .otherErr
          | some (body, s2) =>
            if body.length + Gen.PktLine.rdChk ≠ size then .protoErr else .pkt (some body) s2

/-- `Protocol` state: the one-slot readahead buffer and the transport. -/
structure PState (τ : Type) where
  ra : Option Bytes
  st : τ
  deriving Repr

/-- `Protocol.read_pkt_line` -/
def readPktLine {τ : Type} (rd : Reader τ) (ps : PState τ) : Rd (PState τ) :=
  match ps.ra with
  | none =>
    match readCore rd ps.st with
    | .pkt p s => .pkt p ⟨none, s⟩
    | .hangup s => .hangup ⟨none, s⟩
    | .protoErr => .protoErr
    | .otherErr => .otherErr
  | some buf =>
    -- both reads go to the BytesIO; what is left in it is dropped
    match readCore bytesRead buf with
    | .pkt p _ => .pkt p ⟨none, ps.st⟩
    | .hangup _ => .hangup ⟨none, ps.st⟩
    | .protoErr => .protoErr
    | .otherErr => .otherErr

/-- `Protocol.unread_pkt_line`; `none` = ValueError (slot occupied, or a line too long for the
four-digit length field) -/
def unreadPktLine {τ : Type} (p : Pkt) (ps : PState τ) : Option (PState τ) :=
  match ps.ra with
  | some _ => none
  | none =>
    match p with
    | none => (pktLine none).map fun f => ⟨some f, ps.st⟩
    | some d =>
      if d.length + Gen.PktLine.unHdr > Gen.PktLine.unMax then none
      else some ⟨some (fmtHex Gen.PktLine.unWidth (d.length + Gen.PktLine.unHdr) ++ d), ps.st⟩

/-- Result of `Protocol.eof()` -/
inductive EofResult (τ : Type) where
  | ok (b : Bool) (s : PState τ)
  | protoErr
  | otherErr

def eof {τ : Type} (rd : Reader τ) (ps : PState τ) : EofResult τ :=
  match readPktLine rd ps with
  | .hangup s => .ok true s
  | .protoErr => .protoErr
  | .otherErr => .otherErr
  | .pkt p s =>
    match unreadPktLine p s with
    | some s' => .ok false s'
    | none => .otherErr

/-- How a run of `read_pkt_line` calls ends. -/
inductive End where
  | hangup | protoErr | otherErr | fuel
  deriving DecidableEq, Repr

/-- Call `read_pkt_line` until it raises; collect what it returned. -/
def readAll {τ : Type} (rd : Reader τ) : Nat → PState τ → List Pkt × End
  | 0, _ => ([], .fuel)
  | f + 1, ps =>
    match readPktLine rd ps with
    | .pkt p s => let (l, e) := readAll rd f s; (p :: l, e)
    | .hangup _ => ([], .hangup)
    | .protoErr => ([], .protoErr)
    | .otherErr => ([], .otherErr)

/-- `Protocol.read_pkt_seq`: packets up to the first falsy one (`None` **or** `b""`). -/
def readPktSeq {τ : Type} (rd : Reader τ) : Nat → PState τ → List Bytes × Option End × PState τ
  | 0, ps => ([], some .fuel, ps)
  | f + 1, ps =>
    match readPktLine rd ps with
    | .pkt (some (b :: r)) s => let (l, e) := readPktSeq rd f s; ((b :: r) :: l, e)
    | .pkt _ s => ([], none, s)                    -- terminator consumed: normal end
    | .hangup s => ([], some .hangup, s)
    | .protoErr => ([], some .protoErr, ps)
    | .otherErr => ([], some .otherErr, ps)

/-! ## `ReceivableProtocol.read` / `.recv` over a transport that delivers arbitrary fragments -/

/-- `ReceivableProtocol` state: unread part of `_rbuf`, and the fragments the transport's
`recv` will deliver (each call returns the head fragment, cut to the requested size; an
exhausted list is EOF, `recv` returning `b""`). -/
structure RP where
  rbuf : Bytes
  src : List Bytes
  deriving Repr, DecidableEq

/-- the transport's `recv(n)` -/
def srcRecv (n : Nat) : List Bytes → Bytes × List Bytes
  | [] => ([], [])
  | c :: cs => if c.length ≤ n then (c, cs) else (c.take n, c.drop n :: cs)

/-- The `while True:` loop of `ReceivableProtocol.read`, fused with `srcRecv` so that it is
structurally recursive on the fragment list: `buf` is what the BytesIO holds from `start`.
Branches, in source order: `recv` returned `b""` → break; `n == size and not buf_len` → return
data (same bytes as the next branch yields); `n == left` → write, break; else write and loop. -/
def rpFill (size : Nat) : Bytes → List Bytes → Bytes × List Bytes
  | buf, [] => (buf, [])
  | buf, c :: cs =>
    let left := size - buf.length
    if c.length ≤ left then
      if c = [] then (buf, cs)
      else if c.length = left then (buf ++ c, cs)
      else rpFill size (buf ++ c) cs
    else (buf ++ c.take left, c.drop left :: cs)

/-- `ReceivableProtocol.read(size)`; `none` = AssertionError (`assert size > 0`) -/
def rpRead : Reader RP := fun size st =>
  if size = 0 then none
  else if st.rbuf.length ≥ size then some (st.rbuf.take size, ⟨st.rbuf.drop size, st.src⟩)
  else
    let (out, src') := rpFill size st.rbuf st.src
    some (out, ⟨[], src'⟩)

/-- `ReceivableProtocol.recv(size)` with `_rbufsize = rbufsize` -/
def rpRecv (rbufsize : Nat) : Reader RP := fun size st =>
  if size = 0 then none
  else if st.rbuf = [] then
    let (data, src') := srcRecv rbufsize st.src
    if data.length = size then some (data, ⟨[], src'⟩)
    else some (data.take size, ⟨data.drop size, src'⟩)
  else some (st.rbuf.take size, ⟨st.rbuf.drop size, st.src⟩)

/-- The byte stream a `ReceivableProtocol` state still has to deliver. -/
def RP.stream (st : RP) : Bytes := st.rbuf ++ st.src.flatten

/-! ## `PktLineParser` (incremental) -/

/-- Outcome of feeding data to the parser: packets handed to the callback, then either the
new tail or a protocol error. -/
inductive PEnd where
  | tail (t : Bytes)
  | protoErr
  | otherErr
  deriving DecidableEq, Repr

/-- The `while len(buf) >= 4` loop of `PktLineParser.parse`.  Every iteration that continues
consumes at least `psMin` bytes; fuel `buf.length` always suffices (`parseLoop_fuel`). -/
def parseLoop : Nat → Bytes → List Pkt × PEnd
  | 0, buf => ([], .tail buf)
  | f + 1, buf =>
    if buf.length < Gen.PktLine.psMin then ([], .tail buf)
    else match parseLen (buf.take Gen.PktLine.psPrefix) with
      | .protocol => ([], .protoErr)
      | .other => ([], .otherErr)
      | .ok size =>
        if size = Gen.PktLine.psFlush then
          let (l, e) := parseLoop f (buf.drop Gen.PktLine.psFlushDrop); (none :: l, e)
        else if size < Gen.PktLine.psMinSize then ([], .protoErr)
        else if size ≤ buf.length then
          let (l, e) := parseLoop f (buf.drop size)
          (some ((buf.take size).drop Gen.PktLine.psHdr) :: l, e)
        else ([], .tail buf)

/-- one `parse(data)` call on a parser whose `_readahead` holds `tail` -/
def parse (buf : Bytes) : List Pkt × PEnd := parseLoop buf.length buf

/-- Feed fragments one `parse()` call each (an exception ends the session). -/
def feedAll : Bytes → List Bytes → List Pkt × PEnd
  | tail, [] => ([], .tail tail)
  | tail, c :: cs =>
    match parse (tail ++ c) with
    | (l, .tail t) => let (l', e) := feedAll t cs; (l ++ l', e)
    | (l, e) => (l, e)

/-! ## side-band: `Protocol.write_sideband`, `client._read_side_band64k_data` -/

/-- the slices `blob[:N]`, `blob[N:2N]`, … of the `while blob:` loop (fuel `blob.length`) -/
def sbChunks : Nat → Bytes → List Bytes
  | 0, _ => []
  | f + 1, blob =>
    if blob = [] then []
    else blob.take Gen.PktLine.sbChunk :: sbChunks f (blob.drop Gen.PktLine.sbChunk)

/-- frames written by `write_sideband(channel, blob)`; `none` = ValueError from `pkt_line`
(never, as long as the slice size leaves room for the channel byte: `sideband_split_ok`) -/
def writeSideband (chan : UInt8) (blob : Bytes) : Option (List Bytes) :=
  (sbChunks blob.length blob).mapM (fun c => pktLine (some (chan :: c)))

/-- `_read_side_band64k_data`; `none` = TypeError from `ord(b"")` on an empty packet -/
def sidebandDemux : List Bytes → Option (List (UInt8 × Bytes))
  | [] => some []
  | [] :: _ => none
  | (ch :: d) :: r => (sidebandDemux r).map ((ch, d) :: ·)

/-! ## `BufferedPktLineWriter` -/

/-- Python `l[:i]` for any integer `i` -/
def pySliceTo (l : Bytes) (i : Int) : Bytes :=
  if i ≥ 0 then l.take i.toNat else l.take (l.length - (-i).toNat)

/-- Python `l[i:]` for any integer `i` -/
def pySliceFrom (l : Bytes) (i : Int) : Bytes :=
  if i ≥ 0 then l.drop i.toNat else l.drop (l.length - (-i).toNat)

structure BW where
  wbuf : Bytes
  buflen : Nat
  deriving Repr

/-- `flush()`: returns what is handed to the underlying `write` (nothing when empty). -/
def bwFlush (st : BW) : List Bytes × BW :=
  (if st.wbuf = [] then [] else [st.wbuf],
   ⟨[], if Gen.PktLine.bwFlushResetsBuflen then 0 else st.buflen⟩)

/-- `write(data)` for data that `pkt_line` accepts (`bwRun` checks) -/
def bwWrite (bufsize : Nat) (st : BW) (data : Bytes) : List Bytes × BW :=
  let line := frame (some data)
  let over : Int := (st.buflen : Int) + line.length - bufsize
  if over ≥ 0 then
    let start : Int := line.length - over
    let (outs, st1) := bwFlush ⟨st.wbuf ++ pySliceTo line start, st.buflen⟩
    let saved := pySliceFrom line start
    (outs, ⟨st1.wbuf ++ saved, st1.buflen + saved.length⟩)
  else
    ([], ⟨st.wbuf ++ line, st.buflen + line.length⟩)

/-- a sequence of `write` calls followed by a final `flush`: everything the underlying writer got;
`none` = ValueError (`pkt_line` refused one of the writes) -/
def bwRun (bufsize : Nat) : BW → List Bytes → Option (List Bytes)
  | st, [] => some (bwFlush st).1
  | st, d :: ds =>
    match pktLine (some d) with
    | none => none
    | some _ => let (o, st') := bwWrite bufsize st d; (bwRun bufsize st' ds).map (o ++ ·)

/-! ## capability lists and ref lines -/

/-- `bytes.isspace` alphabet: what `strip()`/`rstrip()` without argument remove -/
def isWs (b : UInt8) : Bool := b = 9 || b = 10 || b = 11 || b = 12 || b = 13 || b = 32

/-- the bytes `strip(b" \n")` removes: the list separator and the line terminator -/
def isSepLf (b : UInt8) : Bool := b = 32 || b = 10

def lstripBy (p : UInt8 → Bool) (s : Bytes) : Bytes := s.dropWhile p
def rstripBy (p : UInt8 → Bool) (s : Bytes) : Bytes := (s.reverse.dropWhile p).reverse
def stripBy (p : UInt8 → Bool) (s : Bytes) : Bytes := lstripBy p (rstripBy p s)

/-- `bytes.split(sep)` for a one-byte separator (always at least one field) -/
def splitOn (sep : UInt8) : Bytes → List Bytes
  | [] => [[]]
  | b :: r =>
    if b = sep then [] :: splitOn sep r
    else match splitOn sep r with
      | [] => [[b]]
      | h :: t => (b :: h) :: t

/-- `sep.join(parts)` for a one-byte separator -/
def joinWith (sep : UInt8) : List Bytes → Bytes
  | [] => []
  | [p] => p
  | p :: q :: r => p ++ sep :: joinWith sep (q :: r)

/-- `format_capability_line` -/
def formatCapabilityLine (caps : List Bytes) : Bytes := (caps.map (fun c => (32 : UInt8) :: c)).flatten

/-- `format_ref_line(ref, sha, capabilities)` -/
def formatRefLine (ref sha : Bytes) : Option (List Bytes) → Bytes
  | none => sha ++ [32] ++ ref ++ [10]
  | some caps => sha ++ [32] ++ ref ++ [0] ++ formatCapabilityLine caps ++ [10]

/-- `extract_capabilities(text)`; `none` = ValueError (more than one NUL: unpacking fails) -/
def extractCapabilities (text : Bytes) : Option (Bytes × List Bytes) :=
  if ¬ text.contains 0 then some (text, [])
  else match splitOn 0 text with
    | [t, c] =>
      let c' := stripBy isSepLf c
      if c' = [] then some (t, []) else some (t, splitOn 32 c')
    | _ => none

/-- `extract_want_line_capabilities(text)` -/
def extractWantLineCapabilities (text : Bytes) : Bytes × List Bytes :=
  let parts := splitOn 32 (rstripBy isSepLf text)
  if parts.length < Gen.PktLine.wantMin then (text, [])
  else (joinWith 32 (parts.take Gen.PktLine.wantHead), parts.drop Gen.PktLine.wantHead)

/-! ## `PackStreamReader._read`: checksum-trailer tracking under arbitrary read sizes -/

/-- `hashed`: everything passed to `sha.update` so far; `trailer`: the deque. -/
structure Trailer where
  hashed : Bytes
  trailer : Bytes
  deriving Repr, DecidableEq

/-- the effect of one `_read` that obtained `data` (hash size `h`) -/
def trailerStep (h : Nat) (st : Trailer) (data : Bytes) : Trailer :=
  let n := data.length
  let tn := st.trailer.length
  let toPop := if n ≥ h then tn else (n + tn - h)
  let toAdd := if n ≥ h then h else n
  -- `data[-to_add:]` and `data[:-to_add]`; for `to_add = 0` Python's `-0` makes these `data`
  -- and `b""` (only reachable with `n = 0`, or with a zero-length digest)
  let keep := if toAdd = 0 then data else data.drop (n - toAdd)
  let upd := if toAdd = 0 then [] else data.take (n - toAdd)
  ⟨st.hashed ++ st.trailer.take toPop ++ upd, st.trailer.drop toPop ++ keep⟩

def trailerRun (h : Nat) (st : Trailer) (chunks : List Bytes) : Trailer := chunks.foldl (trailerStep h) st

/-! ## The code before the C19 fix series (regression witnesses only) -/
namespace Old

/-- old `pkt_line`: total, five hex digits from 65532 payload bytes on -/
def pktLine : Pkt → Bytes := frame

/-- old `read_pkt_line` body: always calls `read(size - 4)`, also for `size = 4` -/
def readCore {τ : Type} (rd : Reader τ) (s : τ) : Rd τ :=
  match rd Gen.PktLine.rdPrefix s with
  | none => .otherErr
  | some (sizestr, s1) =>
    if sizestr = [] then .hangup s1
    else match parseLen sizestr with
      | .protocol => .protoErr
      | .other => .otherErr
      | .ok size =>
        if size = Gen.PktLine.rdFlush ∨ size = Gen.PktLine.rdDelim then .pkt none s1
        else if size < Gen.PktLine.rdMin then .protoErr
        else match rd (size - Gen.PktLine.rdHdr) s1 with
          | none => .otherErr
          | some (body, s2) =>
            if body.length + Gen.PktLine.rdChk ≠ size then .protoErr else .pkt (some body) s2

/-- old `extract_capabilities`: `rstrip()` / `strip()` over all ASCII whitespace, no empty-list case -/
def extractCapabilities (text : Bytes) : Option (Bytes × List Bytes) :=
  if ¬ text.contains 0 then some (text, [])
  else match splitOn 0 (rstripBy isWs text) with
    | [t, c] => some (t, splitOn 32 (stripBy isWs c))
    | _ => none

/-- old `extract_want_line_capabilities` -/
def extractWantLineCapabilities (text : Bytes) : Bytes × List Bytes :=
  let parts := splitOn 32 (rstripBy isWs text)
  if parts.length < Gen.PktLine.wantMin then (text, [])
  else (joinWith 32 (parts.take Gen.PktLine.wantHead), parts.drop Gen.PktLine.wantHead)

end Old

end Dulwich.PktLine
