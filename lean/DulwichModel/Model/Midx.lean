/-
  C14 — multi-pack-index lookup as coded in dulwich/midx.py:
    `MultiPackIndex.object_offset` (fan-out window + bisect), `_get_pack_info` (OOFF / LOFF),
    and the writer's cumulative fan-out and large-offset spill (`write_midx`).
  Object ids are modelled as `Nat` (the big-endian value of the fixed-width id: for equal-length byte
  strings Python's `bytes` order is the numeric order); `firstByte` is the id's most significant byte.
  Core Lean only.
-/
import DulwichModel.Model.Basic
import DulwichModel.Gen.Accel

namespace Dulwich.Midx
open Dulwich

/-- `while start_idx < end_idx: mid = (start+end)//2; …`; `_get_oid` raises `IndexError` outside the table -/
def bisect (oids : List Nat) (sha : Nat) : Nat → Nat → Nat → Except Err (Option Nat)
  | 0, _, _ => .ok none
  | fuel + 1, lo, hi =>
    if lo < hi then
      match oids[(lo + hi) / 2]? with
      | none => .error .other
      | some m =>
        if m = sha then .ok (some ((lo + hi) / 2))
        else if m < sha then bisect oids sha fuel ((lo + hi) / 2 + 1) hi
        else bisect oids sha fuel lo ((lo + hi) / 2)
    else .ok none

/-- `object_offset`: position in the OID table, `none` when absent (`fb` = first byte of the id) -/
def lookup (fanout : List Nat) (oids : List Nat) (fb : Nat) (sha : Nat) : Except Err (Option Nat) :=
  let lo := if fb = 0 then 0 else fanout.getD (fb - 1) 0
  let hi := fanout.getD fb 0
  bisect oids sha (hi + 1) lo hi

/-- the writer's fan-out: cumulative number of ids whose first byte is ≤ b -/
def writeFanout (firstBytes : List Nat) : List Nat :=
  (List.range 256).map (fun b => (firstBytes.filter (· ≤ b)).length)

/-- `write_midx` OOFF/LOFF: offsets ≥ 2^31 spill to the large table, in order -/
def encodeOffsets : List Nat → Nat → List Nat × List Nat
  | [], _ => ([], [])
  | o :: os, nLarge =>
    if o ≥ 2 ^ 31 then
      let r := encodeOffsets os (nLarge + 1)
      ((Gen.Accel.midxLargeFlag + nLarge) :: r.1, o :: r.2)
    else
      let r := encodeOffsets os nLarge
      (o :: r.1, r.2)

/-- `_get_pack_info`: `if pack_offset & 0x80000000: pack_offset = LOFF[pack_offset & 0x7FFFFFFF]`
(`loff = none` ⇔ no LOFF chunk ⇒ `ValueError`) -/
def decodeOffset (w : Nat) (loff : Option (List Nat)) : Except Err Nat :=
  if w / Gen.Accel.midxLargeFlag % 2 = 1 then
    match loff with
    | none => .error .format
    | some t => match t[w % (Gen.Accel.midxLargeMask + 1)]? with
      | some v => .ok v
      | none => .error .format
  else .ok w

end Dulwich.Midx
