/-
  C09 — crash safety of repository-changing operations.

  An abstract file system (`Path → Option Content`), the mutating system calls dulwich issues
  (`Call`), the way dulwich *reads* a repository out of a file system (`Vis`: which objects are
  visible; `rawRef`: the ref map, loose before packed; lock/temp files are never read as data),
  the crash-recovery predicate `Recoverable`, and an EXECUTABLE checker `checkProgram` that
  decides, for a recorded system-call program, a local discipline (temp-then-rename, objects before
  ref, pack before index, new pack before old removed) which is proved sound once and for all in
  Props/C09.lean (`crashSafe_of_check`): every prefix of an accepted program, run from any start
  state that satisfies the program's precondition, is `Recoverable`.

  Core Lean only (the driver links this file).
-/
import DulwichModel.Model.Basic

namespace Dulwich.Crash

/-! ## File system -/

/-- Canonical path names.  Object ids, pack names, ref names, temp names are numbered by the
translator (`o<n>`, `p<n>`, `r<n>`, `tmp<n>`).  `tmp` covers every `*.lock`, `tmp*` file: dulwich
never reads those as data.  `other` covers directories, reflogs and files outside the property. -/
inductive Path where
  | loose (o : Nat)      -- objects/xx/yyyy…  (the final path of loose object `o`)
  | pack (p : Nat)       -- objects/pack/<p>.pack
  | idx (p : Nat)        -- objects/pack/<p>.idx
  | ref (r : Nat)        -- HEAD or refs/…  (loose ref file)
  | packedRefs           -- packed-refs
  | shallow              -- shallow (the graft points of a shallow clone)
  | plain (n : Nat)      -- index, config
  | tmp (n : Nat)        -- *.lock, tmp*  (never read as data)
  | other (n : Nat)
  deriving DecidableEq, Repr

/-- What a ref holds when read without following symrefs. -/
inductive RefV where
  | sha (o : Nat)
  | sym (r : Nat)
  | bad                  -- a loose ref file whose content is not a ref (half-written)
  deriving DecidableEq, Repr

/-- Canonical file contents. -/
inductive Content where
  | obj (o : Nat)                        -- a complete loose-object file whose bytes hash to `o`
  | packData (k : Nat)                   -- a complete pack file with trailer checksum `k`
  | idxData (k : Nat) (objs : List Nat)  -- a complete index for the pack with checksum `k`, listing `objs`
  | refSha (o : Nat)                     -- "<hex>\n"
  | refSym (r : Nat)                     -- "ref: <name>\n"
  | packed (m : List (Nat × Nat))        -- a complete packed-refs file: ref ↦ object
  | blob (k : Nat)                       -- complete other content (index, config), identified by hash
  | shallowSet (l : List Nat)            -- a complete `shallow` file: the commits whose parents are cut off
  | junk                                 -- empty / half-written / unparsable
  | dir
  deriving DecidableEq, Repr

abbrev FS := Path → Option Content

def upd (s : FS) (p : Path) (c : Option Content) : FS := fun q => if q = p then c else s q

/-- Mutating calls.  `write p c`: the file at `p` now holds `c` (creation, truncation or a completed
`write(2)`; `Content.junk` when what is on disk is not yet a complete file). -/
inductive Call where
  | write (p : Path) (c : Content)
  | rename (a b : Path)
  | unlink (p : Path)
  | mkdir (p : Path)
  | rmdir (p : Path)
  /-- no file-system effect: the operation decided NOT to write object `o` because of what it observed at
  path `ev` (`add_object`: `os.utime` of the final path succeeded).  Recorded so that the checker can demand
  that the evidence is the object's FINAL path (or a pack index listing it) — never `<o>.lock`. -/
  | skip (o : Nat) (ev : Path)
  deriving DecidableEq, Repr

def step : Call → FS → FS
  | .write p c, s => upd s p (some c)
  | .rename a b, s =>
    match s a with
    | some c => upd (upd s a none) b (some c)
    | none => s
  | .unlink p, s => upd s p none
  | .mkdir p, s => upd s p (some .dir)
  | .rmdir p, s => upd s p none
  | .skip _ _, s => s

def run : List Call → FS → FS
  | [], s => s
  | c :: cs, s => run cs (step c s)

def touched : Call → List Path
  | .write p _ => [p]
  | .rename a b => [a, b]
  | .unlink p => [p]
  | .mkdir p => [p]
  | .rmdir p => [p]
  | .skip _ _ => []

/-! ## Reading a repository out of a file system (as dulwich does) -/

/-- Object `o` is readable: a well-formed loose file under its own name, or listed by the index of a
pack of which BOTH the `.pack` and the matching `.idx` are present (`_update_pack_cache`). -/
def Vis (s : FS) (o : Nat) : Prop :=
  s (.loose o) = some (.obj o) ∨
  ∃ p k objs, s (.pack p) = some (.packData k) ∧ s (.idx p) = some (.idxData k objs) ∧ o ∈ objs

def looseRef : Content → RefV
  | .refSha o => .sha o
  | .refSym r => .sym r
  | _ => .bad

def packedLk : Option Content → Nat → Option RefV
  | some (.packed m), r => (m.lookup r).map .sha
  | _, _ => none

/-- `RefsContainer.read_ref`: the loose file wins; otherwise the packed-refs entry. -/
def rawRef (s : FS) (r : Nat) : Option RefV :=
  match s (.ref r) with
  | some c => some (looseRef c)
  | none => packedLk (s .packedRefs) r

/-- Reachability in the object graph, as dulwich (and git) walk it in a possibly SHALLOW repository:
`G` maps an object to the ids it refers to other than commit parents (tree, tag target, tree entries),
`GP` maps a commit to its parents; both are content-addressed, hence global functions.  Parent edges
are NOT followed out of a commit listed in the shallow set `S` (`Repo.get_parents`: `if commit_id in
self.shallows: return []`). -/
inductive ReachFrom (G GP : Nat → List Nat) (S : List Nat) : Nat → Nat → Prop where
  | refl (a : Nat) : ReachFrom G GP S a a
  | dep {a b c : Nat} : b ∈ G a → ReachFrom G GP S b c → ReachFrom G GP S a c
  | par {a b c : Nat} : a ∉ S → b ∈ GP a → ReachFrom G GP S b c → ReachFrom G GP S a c

def shalOf : Option Content → List Nat
  | some (.shallowSet l) => l
  | _ => []

/-- the shallow set a file system denotes (`Repo.get_shallow`; no file = not shallow) -/
def shal (s : FS) : List Nat := shalOf (s .shallow)

def Reach (G GP : Nat → List Nat) (s : FS) (o : Nat) : Prop :=
  ∃ r v, rawRef s r = some (.sha v) ∧ ReachFrom G GP (shal s) v o

/-- Content that may legitimately sit at a data path (a half-written file at a data path is "taken
for valid data").  Temp and `other` paths may hold anything. -/
def typedB : Path → Content → Bool
  | .loose o, .obj o' => o == o'
  | .pack _, .packData _ => true
  | .idx _, .idxData _ _ => true
  | .ref _, .refSha _ => true
  | .ref _, .refSym _ => true
  | .packedRefs, .packed _ => true
  | .shallow, .shallowSet _ => true
  | .plain _, .blob _ => true
  | .tmp _, _ => true
  | .other _, _ => true
  | _, _ => false

/-- A `.pack` and an `.idx` of the same name belong together (the index names the pack's checksum).
`Pack.data` checks this when it loads the pair (`check_length_and_checksum`) and RAISES on a mismatch, which
breaks every read that walks the packs — a mismatched pair is not merely invisible, it poisons the store. -/
def PairedAt (s : FS) (p : Nat) : Prop :=
  ∀ k k' objs, s (.pack p) = some (.packData k) → s (.idx p) = some (.idxData k' objs) → k = k'

/-! ## Specification of one operation -/

abbrev Known := List (Path × Option Content)

structure Spec where
  /-- the object graph of every object the scenario mentions: id ↦ (non-parent references, parents) -/
  edges : List (Nat × List Nat × List Nat)
  /-- facts about the start state: path ↦ content (`none` = absent).  First entry wins. -/
  known : Known
  /-- refs the operation intends to change, with the new raw value (`none` = deleted) -/
  newRefs : List (Nat × Option RefV)
  /-- plain files (index, config) the operation intends to change, with the new content -/
  newPlain : List (Nat × Option Content)
  /-- objects asserted unreachable in the start state (maintenance may drop them) -/
  garbage : List Nat

def lk : Known → Path → Option (Option Content)
  | [], _ => none
  | (q, c) :: K, p => if q = p then some c else lk K p

def Agrees (s : FS) (K : Known) : Prop := ∀ p c, lk K p = some c → s p = c

/-- Precondition on the start state. -/
structure Pre (spec : Spec) (G GP : Nat → List Nat) (s : FS) : Prop where
  agrees : Agrees s spec.known
  graph : ∀ o ds ps, spec.edges.lookup o = some (ds, ps) → G o = ds ∧ GP o = ps
  consistent : ∀ o, Reach G GP s o → Vis s o
  garbage : ∀ o, o ∈ spec.garbage → ¬ Reach G GP s o
  typed : ∀ p c, s p = some c → typedB p c = true
  paired : ∀ p, PairedAt s p

def RefOldOrNew (spec : Spec) (s0 s : FS) (r : Nat) : Prop :=
  rawRef s r = rawRef s0 r ∨ ∃ e ∈ spec.newRefs, e.1 = r ∧ rawRef s r = e.2

def PlainOldOrNew (spec : Spec) (s0 s : FS) (n : Nat) : Prop :=
  s (.plain n) = s0 (.plain n) ∨ ∃ e ∈ spec.newPlain, e.1 = n ∧ s (.plain n) = e.2

instance (spec : Spec) (s0 s : FS) (r : Nat) : Decidable (RefOldOrNew spec s0 s r) := by
  unfold RefOldOrNew; exact inferInstance

instance (spec : Spec) (s0 s : FS) (n : Nat) : Decidable (PlainOldOrNew spec s0 s n) := by
  unfold PlainOldOrNew; exact inferInstance

/-- The property's words about the state `s` a crash leaves, `s0` being the state before the
operation: every ref holds its old or its new value; every ref names an object that is visible
together with everything it reaches — history being cut at the commits the CURRENT `shallow` file
lists —; everything reachable before is still visible; index/config hold
the old or the new content; no half-written file sits at a data path; no pack is paired with the index
of a different pack. -/
structure Recoverable (spec : Spec) (G GP : Nat → List Nat) (s0 s : FS) : Prop where
  refs : ∀ r, RefOldOrNew spec s0 s r
  consistent : ∀ o, Reach G GP s o → Vis s o
  kept : ∀ o, Reach G GP s0 o → Vis s o
  plain : ∀ n, PlainOldOrNew spec s0 s n
  typed : ∀ p c, s p = some c → typedB p c = true
  paired : ∀ p, PairedAt s p

/-! ## The executable checker -/

def stepK : Call → Known → Option Known
  | .write p c, K => some ((p, some c) :: K)
  | .rename a b, K =>
    match lk K a with
    | some (some c) => some ((b, some c) :: (a, none) :: K)
    | _ => none
  | .unlink p, K => some ((p, none) :: K)
  | .mkdir p, K => some ((p, some .dir) :: K)
  | .rmdir p, K => some ((p, none) :: K)
  | .skip _ _, K => some K

def runK : List Call → Known → Option Known
  | [], K => some K
  | c :: cs, K => match stepK c K with
    | some K' => runK cs K'
    | none => none

/-- Is pack `p` known to be visible, and with which objects? -/
def packObjsK (K : Known) (p : Nat) : Option (List Nat) :=
  match lk K (.pack p), lk K (.idx p) with
  | some (some (.packData k)), some (some (.idxData k' objs)) => if k = k' then some objs else none
  | _, _ => none

def visK (K : Known) (o : Nat) : Bool :=
  (match lk K (.loose o) with
   | some (some (.obj o')) => o == o'
   | _ => false) ||
  K.any (fun e => match e.1 with
    | .pack p => (match packObjsK K p with
        | some objs => objs.contains o
        | none => false)
    | _ => false)

def rawRefK (K : Known) (r : Nat) : Option (Option RefV) :=
  match lk K (.ref r) with
  | some (some c) => some (some (looseRef c))
  | some none => (match lk K .packedRefs with
      | some pc => some (packedLk pc r)
      | none => none)
  | none => none

/-- Objects that may stop being visible when path `t` changes (`none`: not enough is known). -/
def mayLose (K : Known) : Path → Option (List Nat)
  | .loose o => some [o]
  | .pack p => (match lk K (.pack p), lk K (.idx p) with
      | some _, some _ => some ((packObjsK K p).getD [])
      | _, _ => none)
  | .idx p => (match lk K (.pack p), lk K (.idx p) with
      | some _, some _ => some ((packObjsK K p).getD [])
      | _, _ => none)
  | _ => some []

def keysOf : Option Content → List Nat
  | some (.packed m) => m.map Prod.fst
  | _ => []

/-- Refs whose value may change when path `t` changes. -/
def mayChange (K K' : Known) : Path → Option (List Nat)
  | .ref r => some [r]
  | .packedRefs => (match lk K .packedRefs, lk K' .packedRefs with
      | some a, some b => some (keysOf a ++ keysOf b)
      | _, _ => none)
  | _ => some []

/-- the shallow set according to what is known (`none`: the `shallow` path is not known) -/
def shalK (K : Known) : Option (List Nat) := (lk K .shallow).map shalOf

def children (edges : List (Nat × List Nat × List Nat)) (S : List Nat) (l : List Nat) : List Nat :=
  l.flatMap (fun o => match edges.lookup o with
    | some (ds, ps) => ds ++ (if S.contains o then [] else ps)
    | none => [])

def addNew (acc : List Nat) : List Nat → List Nat
  | [] => acc
  | x :: xs => if acc.contains x then addNew acc xs else addNew (acc ++ [x]) xs

def closeN (edges : List (Nat × List Nat × List Nat)) (S : List Nat) : Nat → List Nat → List Nat
  | 0, l => l
  | n + 1, l => closeN edges S n (addNew l (children edges S l))

/-- Candidate closure of `v` in the spec's graph cut at `S` (any list would do: `closedOK` re-checks it). -/
def cl (spec : Spec) (S : List Nat) (v : Nat) : List Nat := closeN spec.edges S spec.edges.length [v]

def nodeOK (edges : List (Nat × List Nat × List Nat)) (S c : List Nat) (o : Nat) : Bool :=
  match edges.lookup o with
  | some (ds, ps) => ds.all c.contains && (S.contains o || ps.all c.contains)
  | none => false

def closedOK (spec : Spec) (S : List Nat) (v : Nat) : Bool :=
  let c := cl spec S v
  c.contains v && c.all (nodeOK spec.edges S c)

/-- Everything `v` reaches — history cut at the shallow set known in `K` — is known to be visible (and
none of it may be dropped). -/
def closedVis (spec : Spec) (K : Known) (v : Nat) : Bool :=
  match shalK K with
  | some S => closedOK spec S v && (cl spec S v).all (fun o => visK K o && !spec.garbage.contains o)
  | none => false

def typedOK (K' : Known) (t : Path) : Bool :=
  match lk K' t with
  | some (some c) => typedB t c
  | some none => true
  | none => false

/-- after the step, the pack/index pair a touched path belongs to is known and matches -/
def pairOK (K' : Known) : Path → Bool
  | .pack p => (match lk K' (.pack p), lk K' (.idx p) with
      | some (some (.packData k)), some (some (.idxData k' _)) => k == k'
      | some _, some _ => true
      | _, _ => false)
  | .idx p => (match lk K' (.pack p), lk K' (.idx p) with
      | some (some (.packData k)), some (some (.idxData k' _)) => k == k'
      | some _, some _ => true
      | _, _ => false)
  | _ => true

def objsOK (spec : Spec) (K K' : Known) (t : Path) : Bool :=
  match mayLose K t with
  | some l => l.all (fun o => visK K' o || spec.garbage.contains o)
  | none => false

/-- The shallow set may only lose a commit whose (newly uncut) history is already visible: new objects
visible BEFORE the shallow set shrinks. -/
def shallowOK (spec : Spec) (K K' : Known) : Path → Bool
  | .shallow => (match shalK K, shalK K' with
      | some a, some b => (a.filter (fun x => !b.contains x)).all (closedVis spec K')
      | _, _ => false)
  | _ => true

def refOK (spec : Spec) (K0 K K' : Known) (r : Nat) : Bool :=
  match rawRefK K' r with
  | some v' =>
    (rawRefK K r == some v' || rawRefK K0 r == some v' || spec.newRefs.contains (r, v')) &&
    (match v' with
     | some (.sha v) => closedVis spec K' v
     | some .bad => false
     | _ => true)
  | none => false

def refsOK (spec : Spec) (K0 K K' : Known) (t : Path) : Bool :=
  match mayChange K K' t with
  | some l => l.all (refOK spec K0 K K')
  | none => false

def plainOK (spec : Spec) (K0 K' : Known) : Path → Bool
  | .plain n => (match lk K' (.plain n) with
      | some c => lk K0 (.plain n) == some c || spec.newPlain.contains (n, c)
      | none => false)
  | _ => true

/-- A lock file is NEVER evidence of presence: an operation may skip writing object `o` only after observing
`o`'s final path holding `o`, or a complete pack/index pair whose index lists `o`. -/
def skipOK (K : Known) : Call → Bool
  | .skip o (.loose o') => o == o' && (match lk K (.loose o) with
      | some (some (.obj o'')) => o == o''
      | _ => false)
  | .skip o (.idx p) => (match packObjsK K p with
      | some objs => objs.contains o
      | none => false)
  | .skip _ _ => false
  | _ => true

def safeStep (spec : Spec) (K0 K K' : Known) (c : Call) : Bool :=
  skipOK K c &&
  (touched c).all (fun t =>
    typedOK K' t && objsOK spec K K' t && refsOK spec K0 K K' t && plainOK spec K0 K' t && pairOK K' t &&
    shallowOK spec K K' t)

def go (spec : Spec) (K0 : Known) : Known → List Call → Bool
  | _, [] => true
  | K, c :: cs =>
    match stepK c K with
    | some K' => safeStep spec K0 K K' c && go spec K0 K' cs
    | none => false

/-- The checker: every step of the program keeps the crash-safety discipline. -/
def checkProgram (spec : Spec) (p : List Call) : Bool := go spec spec.known spec.known p

/-- Retry after a crash: `qs[k]` is the program the RE-RUN operation issued on the state left by the first `k`
calls of `p` (recorded from the real code; an operation that stops with an error contributes the calls it made
before the error, possibly none).  Each must be accepted from the knowledge reached after `k` calls. -/
def retryOK (spec : Spec) (p : List Call) (qs : List (List Call)) : Bool :=
  (List.range qs.length).all (fun k =>
    match runK (p.take k) spec.known with
    | some Kk => go spec spec.known Kk (qs.getD k [])
    | none => false)

/-- Index of the first step the checker rejects (diagnostics; `none` = accepted). -/
def firstUnsafeAux (spec : Spec) (K0 : Known) : Known → List Call → Nat → Option Nat
  | _, [], _ => none
  | K, c :: cs, i =>
    match stepK c K with
    | some K' => if safeStep spec K0 K K' c then firstUnsafeAux spec K0 K' cs (i + 1) else some i
    | none => some i

def firstUnsafe (spec : Spec) (p : List Call) : Option Nat :=
  firstUnsafeAux spec spec.known spec.known p 0

/-! ## Closed-world evaluation of a finite state (driver: correspondence with the real `Repo`) -/

/-- The file system a finite listing denotes (everything not listed is absent). -/
def toFS (K : Known) : FS := fun p => (lk K p).getD none

/-- All ref ids mentioned by a listing (loose files and packed-refs entries). -/
def refIds (K : Known) : List Nat :=
  K.flatMap (fun e => match e.1, e.2 with
    | .ref r, _ => [r]
    | .packedRefs, some (.packed m) => m.map Prod.fst
    | _, _ => [])

/-- closed world: the pack/index pair named by an entry's path matches (or is not a pair) -/
def pairC (K : Known) : Path → Bool
  | .pack p => (match (lk K (.pack p)).getD none, (lk K (.idx p)).getD none with
      | some (.packData k), some (.idxData k' _) => k == k'
      | _, _ => true)
  | _ => true

def rawRefC (K : Known) (r : Nat) : Option RefV :=
  match lk K (.ref r) with
  | some (some c) => some (looseRef c)
  | _ => (match lk K .packedRefs with
      | some pc => packedLk pc r
      | none => none)

/-- closed world: the shallow set of a listing -/
def shalC (K : Known) : List Nat := shalOf ((lk K .shallow).getD none)

/-- Closed-world `Recoverable`, as a Boolean, for the state `K` reached from the start listing `K0`:
used by the driver to compare the model's verdict on each crash prefix with the real oracle. -/
def recoverableK (spec : Spec) (K0 K : Known) : Bool :=
  let refs := (refIds K0 ++ refIds K ++ spec.newRefs.map Prod.fst)
  refs.all (fun r =>
    let v := rawRefC K r
    (v == rawRefC K0 r || spec.newRefs.contains (r, v)) &&
    (match v with
     | some (.sha o) => closedOK spec (shalC K) o && (cl spec (shalC K) o).all (visK K)
     | some .bad => false
     | _ => true)) &&
  (refIds K0).all (fun r => match rawRefC K0 r with
    | some (.sha o) => (cl spec (shalC K0) o).all (visK K)
    | _ => true) &&
  K.all (fun e => match e.1 with
    | .plain n => (lk K (.plain n)).getD none == (lk K0 (.plain n)).getD none ||
        spec.newPlain.contains (n, (lk K (.plain n)).getD none)
    | _ => true) &&
  K0.all (fun e => match e.1 with
    | .plain n => (lk K (.plain n)).getD none == (lk K0 (.plain n)).getD none ||
        spec.newPlain.contains (n, (lk K (.plain n)).getD none)
    | _ => true) &&
  K.all (fun e => match lk K e.1 with
    | some (some c) => typedB e.1 c
    | _ => true) &&
  K.all (fun e => pairC K e.1)

/-- The object graph a spec denotes (objects it does not list refer to nothing). -/
def graphOf (spec : Spec) : Nat → List Nat := fun o => ((spec.edges.lookup o).getD ([], [])).1

def parentsOf (spec : Spec) : Nat → List Nat := fun o => ((spec.edges.lookup o).getD ([], [])).2

/-- Executable precondition check for the closed-world start state `toFS spec.known`: every ref's
closure is visible and disjoint from `garbage`; data paths hold well-typed content. -/
def preK (spec : Spec) : Bool :=
  (shalK spec.known).isSome &&
  (refIds spec.known).all (fun r => match rawRefC spec.known r with
    | some (.sha v) => closedVis spec spec.known v
    | _ => true) &&
  spec.known.all (fun e => match lk spec.known e.1 with
    | some (some c) => typedB e.1 c
    | _ => true) &&
  spec.known.all (fun e => pairC spec.known e.1)

end Dulwich.Crash
