/-
  C14 — commit-graph file format as coded in dulwich/commit_graph.py:
    `CommitGraph.write_to_file` (OIDF / OIDL / CDAT, two parent slots, no EDGE chunk),
    `CommitGraph._read_from_file` / `_parse_chunks` / `_parse_extra_edges` (reads C git's EDGE chunk),
    `CommitGraph.get_parents`.
  Object ids are raw byte strings.  Marker values and layout constants come from Gen/Accel.lean.
  Core Lean only.
-/
import DulwichModel.Model.Ewah

namespace Dulwich.CommitGraphFmt
open Dulwich Dulwich.Ewah

/-- `GRAPH_PARENT_MISSING`: there is a parent, but it is not in the file -/
def MISSING : Nat := Gen.Accel.graphParentMissing
/-- `GRAPH_PARENT_NONE`: no parent in this position -/
def NONE : Nat := Gen.Accel.graphParentNone
def EXTRA : Nat := Gen.Accel.graphExtraEdgesNeeded
def LAST : Nat := Gen.Accel.graphLastEdge

/-- `parents = none` ⇔ `CommitGraphEntry.parents is None`: the graph does not know all parents -/
structure Entry where
  cid : Bytes
  tree : Bytes
  parents : Option (List Bytes)
  gen : Nat
  time : Nat
  deriving DecidableEq, Repr

/-! ### parent encoding (writer) -/

/-- `oid_to_index = {entry.commit_id: i for i, entry in enumerate(sorted_entries)}`:
for a duplicate-free table the position of an id is its first (= only) position. -/
def indexOf (oids : List Bytes) (o : Bytes) : Option Nat :=
  match oids with
  | [] => none
  | x :: xs => if x = o then some 0 else (indexOf xs o).map (· + 1)

/-- `parent_pos(parent)`: `oid_to_index.get(parent, GRAPH_PARENT_MISSING)` -/
def parentPos (oids : List Bytes) (p : Bytes) : Nat := (indexOf oids p).getD MISSING

/-- `extra_edges[-1] |= GRAPH_LAST_EDGE` -/
def flagLast : List Nat → List Nat
  | [] => []
  | [x] => [x + LAST]
  | x :: y :: r => x :: flagLast (y :: r)

/-- the `if entry.parents is None … elif len(entry.parents) == 0 … 1 … 2 … else` ladder of `write_to_file`:
(slot 1, slot 2, words appended to the extra edge list); `nEdges = len(extra_edges)` so far.
`GRAPH_EXTRA_EDGES_NEEDED | n` is `+ n` (n < 2^31). -/
def encodeParents (oids : List Bytes) (ps : Option (List Bytes)) (nEdges : Nat) : Nat × Nat × List Nat :=
  match ps with
  | none => (MISSING, NONE, [])
  | some [] => (NONE, NONE, [])
  | some [a] => (parentPos oids a, NONE, [])
  | some [a, b] => (parentPos oids a, parentPos oids b, [])
  | some (a :: rest) => (parentPos oids a, EXTRA + nEdges, flagLast (rest.map (parentPos oids)))

/-- the loop over `sorted_entries`: slots per entry and the complete extra edge list -/
def encodeAll (oids : List Bytes) : List (Option (List Bytes)) → Nat → List (Nat × Nat) × List Nat
  | [], _ => ([], [])
  | ps :: more, n =>
    let t := encodeParents oids ps n
    let r := encodeAll oids more (n + t.2.2.length)
    ((t.1, t.2.1) :: r.1, t.2.2 ++ r.2)

/-- the parent ladder of the ORIGINAL writer (two slots only, no EDGE chunk, a parent outside the table written
with the value of GRAPH_PARENT_NONE): kept for the regression witnesses -/
def encodeParentsOld (oids : List Bytes) (ps : List Bytes) : Nat × Nat :=
  let look := fun (i : Nat) => match ps[i]? with
    | some p => (indexOf oids p).getD NONE
    | none => NONE
  match ps with
  | [] => (NONE, NONE)
  | [_] => (look 0, NONE)
  | _ => (look 0, look 1)

/-! ### parent decoding (reader) -/

/-- `_parse_extra_edges` over the 4-byte words of the EDGE chunk from `index` on; `none` ⇔ a word names
GRAPH_PARENT_MISSING (`parent_pos & ~GRAPH_LAST_EDGE == GRAPH_PARENT_MISSING`) -/
def parseExtraEdges (oids : List Bytes) : List Nat → Option (List Bytes)
  | [] => some []
  | w :: ws =>
    if (if w ≥ LAST then w - LAST else w) = MISSING then none
    else if w ≥ LAST then
      (match oids[w - LAST]? with | some o => some [o] | none => some [])
    else
      match parseExtraEdges oids ws with
      | none => none
      | some r => (match oids[w]? with | some o => some (o :: r) | none => some r)

/-- first parent slot of `_parse_chunks`: a position, GRAPH_PARENT_MISSING (⇒ unknown) or anything else (no parent) -/
def firstSlot (oids : List Bytes) (p1 : Nat) : Except Err (Option (List Bytes)) :=
  if p1 < NONE then (match oids[p1]? with | some o => .ok (some [o]) | none => .error .format)
  else if p1 = MISSING then .ok none else .ok (some [])

/-- second parent slot: a position, MISSING, a pointer into the extra edge list, or nothing;
`a` = the parents so far (`none` = already unknown) -/
def secondSlot (oids : List Bytes) (edges : Option (List Nat)) (a : Option (List Bytes)) (p2 : Nat) :
    Except Err (Option (List Bytes)) :=
  if p2 < NONE then
    (match oids[p2]? with
      | some o => .ok (a.map (· ++ [o]))
      | none => .error .format)
  else if p2 = MISSING then .ok none
  else if p2 ≥ EXTRA then
    .ok (match a, (match edges with
                   | none => some []
                   | some ws => parseExtraEdges oids (ws.drop (p2 - EXTRA))) with
      | some x, some y => some (x ++ y)
      | _, _ => none)
  else .ok a

/-- the parent part of `_parse_chunks`; `edges = none` ⇔ the file has no EDGE chunk; the answer `none` ⇔ the
entry's `parents` is None (unknown), never a shortened list -/
def decodeParents (oids : List Bytes) (edges : Option (List Nat)) (p1 p2 : Nat) :
    Except Err (Option (List Bytes)) :=
  match firstSlot oids p1 with
  | .error e => .error e
  | .ok a => secondSlot oids edges a p2

/-- What a reader of the written file answers for the commit at position `i` (`none`: no such position);
inside, `.ok none` = "unknown, read the commit object".  The EDGE chunk exists iff there are extra edges. -/
def roundTripParents (es : List (Bytes × List Bytes)) (i : Nat) : Option (Except Err (Option (List Bytes))) :=
  let oids := es.map (·.1)
  let r := encodeAll oids (es.map (fun e => some e.2)) 0
  match r.1[i]? with
  | none => none
  | some (p1, p2) => some (decodeParents oids (if r.2.isEmpty then none else some r.2) p1 p2)

/-- the same with the writer as it originally was -/
def roundTripParentsOld (es : List (Bytes × List Bytes)) (i : Nat) : Option (Except Err (Option (List Bytes))) :=
  match es[i]? with
  | none => none
  | some e =>
    let oids := es.map (·.1)
    let p := encodeParentsOld oids e.2
    some (decodeParents oids none p.1 p.2)

/-! ### whole file: writer -/

def bytesLe : Bytes → Bytes → Bool
  | [], _ => true
  | _ :: _, [] => false
  | a :: as, b :: bs => if a < b then true else if b < a then false else bytesLe as bs

def insertSorted (e : Entry) : List Entry → List Entry
  | [] => [e]
  | x :: xs => if bytesLe x.cid e.cid then x :: insertSorted e xs else e :: x :: xs

/-- `sorted(self.entries, key=lambda e: e.commit_id)` (stable) -/
def sortEntries (es : List Entry) : List Entry := es.foldl (fun acc e => insertSorted e acc) []

/-- `fanout_counts[first_byte] = i + 1` for every entry, then gaps filled from the left -/
def fanoutRaw (es : List Entry) : List Nat :=
  (List.range 256).map (fun b =>
    (es.zipIdx.foldl (fun acc (e, i) => if (e.cid.headD 0).toNat = b then i + 1 else acc) 0))

def fillGaps : Nat → List Nat → List Nat
  | _, [] => []
  | prev, c :: cs => let v := if c = 0 then prev else c; v :: fillGaps v cs

def fanout (es : List Entry) : List Nat :=
  match fanoutRaw es with
  | [] => []
  | c :: cs => c :: fillGaps c cs

def be32? (v : Nat) : Except Err Bytes := if v < 2 ^ 32 then .ok (beBytes 4 v) else .error .format

def cdatRecord (e : Entry) (slot : Nat × Nat) : Except Err Bytes := do
  let a ← be32? slot.1
  let b ← be32? slot.2
  let g ← be32? ((e.gen <<< Gen.Accel.cgGenShift) ||| (e.time >>> Gen.Accel.cgTimeShift))
  let t := beBytes 4 (e.time % 2 ^ 32)
  .ok (e.tree ++ a ++ b ++ g ++ t)

/-- table of contents + chunk data for a list of (id, data) chunks -/
def tocAndData (chunks : List (Bytes × Bytes)) : Bytes :=
  let first := Gen.Accel.cgHeaderSize + (chunks.length + 1) * Gen.Accel.cgTocEntrySize
  let rec go : List (Bytes × Bytes) → Nat → Bytes
    | [], off => [0, 0, 0, 0] ++ beBytes 8 off
    | (id, d) :: r, off => id ++ beBytes 8 off ++ go r (off + d.length)
  go chunks first ++ (chunks.map (·.2)).flatten

/-- `CommitGraph.write_to_file` (`ValueError` on an empty graph, `struct.error` on field overflow) -/
def writeFile (hashVersion : Nat) (entries : List Entry) : Except Err Bytes := do
  if entries.isEmpty then .error .format
  let es := sortEntries entries
  let oids := es.map (·.cid)
  let oidl := oids.flatten
  let (slots, edges) := encodeAll oids (es.map (·.parents)) 0
  let recs ← (es.zip slots).mapM (fun (e, sl) => cdatRecord e sl)
  let cdat := recs.flatten
  let fan := (fanout es).flatMap (beBytes 4)
  let edgeWords ← edges.mapM be32?
  let chunks := [(Gen.Accel.chunkOidFanout, fan), (Gen.Accel.chunkOidLookup, oidl), (Gen.Accel.chunkCommitData, cdat)]
    ++ (if edges.isEmpty then [] else [(Gen.Accel.chunkExtraEdges, edgeWords.flatten)])
  .ok (Gen.Accel.cgSignature ++ [UInt8.ofNat Gen.Accel.cgVersion, UInt8.ofNat hashVersion, UInt8.ofNat chunks.length, 0]
    ++ tocAndData chunks)

/-! ### whole file: reader -/

def chunksOf (n : Nat) : Nat → Bytes → List Bytes
  | 0, _ => []
  | k + 1, bs => if bs.length < n ∨ n = 0 then [] else bs.take n :: chunksOf n k (bs.drop n)

/-- table of contents: `num_chunks + 1` entries of (4-byte id, 8-byte absolute offset) -/
def readToc : Nat → Bytes → Except Err (List (Bytes × Nat))
  | 0, _ => .ok []
  | n + 1, bs =>
    if bs.length < 12 then .error .format
    else match readToc n (bs.drop 12) with
      | .ok r => .ok ((bs.take 4, beVal ((bs.drop 4).take 8)) :: r)
      | .error e => .error e

/-- `graph.chunks[chunk_id] = data` in TOC order (a later duplicate id replaces an earlier one) -/
def lookupChunk (cs : List (Bytes × Bytes)) (id : Bytes) : Option Bytes :=
  (cs.reverse.find? (·.1 = id)).map (·.2)

def chunkData (file : Bytes) : List (Bytes × Nat) → List (Bytes × Bytes)
  | (id, off) :: (id2, off2) :: rest =>
    -- `f.seek(offset); f.read(next_offset - offset)`: a negative size reads to the end of the file
    (id, if off2 < off then file.drop off else (file.drop off).take (off2 - off)) :: chunkData file ((id2, off2) :: rest)
  | _ => []

def parseEntry (oidLen : Nat) (oids : List Bytes) (edges : Option (List Nat)) (cid : Bytes) (rec : Bytes) :
    Except Err Entry :=
  let tree := rec.take oidLen
  let p1 := beVal ((rec.drop oidLen).take 4)
  let p2 := beVal ((rec.drop (oidLen + 4)).take 4)
  let g := beVal ((rec.drop (oidLen + 8)).take 4)
  let t := beVal ((rec.drop (oidLen + 12)).take 4)
  match decodeParents oids edges p1 p2 with
  | .error e => .error e
  | .ok ps => .ok { cid := cid, tree := tree, parents := ps, gen := g >>> 2, time := t ||| ((g &&& 3) <<< 32) }

/-- `CommitGraph.from_file`: entries in file order (`ValueError` / `struct.error` ⇒ `.format`) -/
def readFile (file : Bytes) : Except Err (List Entry) := do
  if file.length < 8 then .error .format
  if file.take 4 ≠ Gen.Accel.cgSignature then .error .format
  if (file.getD 4 0).toNat ≠ Gen.Accel.cgVersion then .error .format
  let hv := (file.getD 5 0).toNat
  let oidLen ← if hv = Gen.Accel.hashVersionSha1 then .ok 20
               else if hv = Gen.Accel.hashVersionSha256 then .ok 32 else .error .format
  let n := (file.getD 6 0).toNat
  let toc ← readToc (n + 1) (file.drop 8)
  let cs := chunkData file toc
  let oidl ← match lookupChunk cs Gen.Accel.chunkOidLookup with | some d => .ok d | none => .error .format
  let cdat ← match lookupChunk cs Gen.Accel.chunkCommitData with | some d => .ok d | none => .error .format
  let num := oidl.length / oidLen
  let oids := chunksOf oidLen num oidl
  if cdat.length ≠ num * (oidLen + 16) then .error .format
  let edges := (lookupChunk cs Gen.Accel.chunkExtraEdges).map
    (fun d => (chunksOf 4 (d.length / 4) d).map beVal)
  let recs := chunksOf (oidLen + 16) num cdat
  (oids.zip recs).mapM (fun (cid, r) => parseEntry oidLen oids edges cid r)

/-- `get_parents`: `_oid_to_index[oid] = i` in a loop keeps the LAST position of a repeated id -/
def getParents (es : List Entry) (oid : Bytes) : Option (List Bytes) :=
  (es.reverse.find? (·.cid = oid)).bind (·.parents)

end Dulwich.CommitGraphFmt
