/-
  C14 — commit-graph file format as coded in dulwich/commit_graph.py:
    `CommitGraph.write_to_file` (OIDF / OIDL / CDAT, two parent slots, no EDGE chunk),
    `CommitGraph._read_from_file` / `_parse_chunks` / `_parse_extra_edges` (reads C git's EDGE chunk),
    `CommitGraph.get_parents`.
  Object ids are raw byte strings.  Marker values and layout constants come from Gen/Accel.lean.
  Core Lean only.
-/
import DulwichModel.Model.Ewah

namespace Dulwich.CommitGraphFmt
open Dulwich Dulwich.Ewah

def MISSING : Nat := Gen.Accel.graphParentMissing
def EXTRA : Nat := Gen.Accel.graphExtraEdgesNeeded
def LAST : Nat := Gen.Accel.graphLastEdge

structure Entry where
  cid : Bytes
  tree : Bytes
  parents : List Bytes
  gen : Nat
  time : Nat
  deriving DecidableEq, Repr

/-! ### parent encoding (writer) -/

/-- `oid_to_index = {entry.commit_id: i for i, entry in enumerate(sorted_entries)}` followed by `.get(p)`:
for a duplicate-free table this is the first (= only) position. -/
def indexOf (oids : List Bytes) (o : Bytes) : Option Nat :=
  match oids with
  | [] => none
  | x :: xs => if x = o then some 0 else (indexOf xs o).map (· + 1)

/-- `oid_to_index.get(entry.parents[i], GRAPH_PARENT_MISSING)` -/
def slot (oids : List Bytes) (ps : List Bytes) (i : Nat) : Nat :=
  match ps[i]? with
  | some p => (indexOf oids p).getD MISSING
  | none => MISSING

/-- the `if len(entry.parents) == 0 … elif 1 … elif 2 … else` ladder of `write_to_file` -/
def encodeParents (oids : List Bytes) (ps : List Bytes) : Nat × Nat :=
  match ps with
  | [] => (MISSING, MISSING)
  | [_] => (slot oids ps 0, MISSING)
  | [_, _] => (slot oids ps 0, slot oids ps 1)
  | _ => (slot oids ps Gen.Accel.octopusSlot1, slot oids ps Gen.Accel.octopusSlot2)

/-! ### parent decoding (reader) -/

/-- `_parse_extra_edges` over the 4-byte words of the EDGE chunk from `index` on -/
def parseExtraEdges (oids : List Bytes) : List Nat → List Bytes
  | [] => []
  | w :: ws =>
    if w ≥ LAST then
      (match oids[w - LAST]? with | some o => [o] | none => [])
    else
      (match oids[w]? with | some o => o :: parseExtraEdges oids ws | none => parseExtraEdges oids ws)

/-- the parent part of `_parse_chunks`; `edges = none` ⇔ the file has no EDGE chunk -/
def decodeParents (oids : List Bytes) (edges : Option (List Nat)) (p1 p2 : Nat) : Except Err (List Bytes) :=
  let first : Except Err (List Bytes) :=
    if p1 < MISSING then (match oids[p1]? with | some o => .ok [o] | none => .error .format) else .ok []
  match first with
  | .error e => .error e
  | .ok a =>
    if p2 < MISSING then
      (match oids[p2]? with | some o => .ok (a ++ [o]) | none => .error .format)
    else if p2 ≥ EXTRA then
      .ok (a ++ (match edges with
                 | none => []
                 | some ws => parseExtraEdges oids (ws.drop (p2 - EXTRA))))
    else .ok a

/-- What a reader of the written table answers for the commit at position `i`:
`reader (writer es)` restricted to the parent lists. -/
def roundTripParents (es : List (Bytes × List Bytes)) (i : Nat) : Option (Except Err (List Bytes)) :=
  match es[i]? with
  | none => none
  | some e =>
    let oids := es.map (·.1)
    let p := encodeParents oids e.2
    some (decodeParents oids none p.1 p.2)

/-! ### whole file: writer -/

def bytesLe : Bytes → Bytes → Bool
  | [], _ => true
  | _ :: _, [] => false
  | a :: as, b :: bs => if a < b then true else if b < a then false else bytesLe as bs

def insertSorted (e : Entry) : List Entry → List Entry
  | [] => [e]
  | x :: xs => if bytesLe x.cid e.cid then x :: insertSorted e xs else e :: x :: xs

/-- `sorted(self.entries, key=lambda e: e.commit_id)` (stable) -/
def sortEntries (es : List Entry) : List Entry := es.foldl (fun acc e => insertSorted e acc) []

/-- `fanout_counts[first_byte] = i + 1` for every entry, then gaps filled from the left -/
def fanoutRaw (es : List Entry) : List Nat :=
  (List.range 256).map (fun b =>
    (es.zipIdx.foldl (fun acc (e, i) => if (e.cid.headD 0).toNat = b then i + 1 else acc) 0))

def fillGaps : Nat → List Nat → List Nat
  | _, [] => []
  | prev, c :: cs => let v := if c = 0 then prev else c; v :: fillGaps v cs

def fanout (es : List Entry) : List Nat :=
  match fanoutRaw es with
  | [] => []
  | c :: cs => c :: fillGaps c cs

def be32? (v : Nat) : Except Err Bytes := if v < 2 ^ 32 then .ok (beBytes 4 v) else .error .format

def cdatRecord (oids : List Bytes) (e : Entry) : Except Err Bytes := do
  let p := encodeParents oids e.parents
  let a ← be32? p.1
  let b ← be32? p.2
  let g ← be32? ((e.gen <<< Gen.Accel.cgGenShift) ||| (e.time >>> Gen.Accel.cgTimeShift))
  let t := beBytes 4 (e.time % 2 ^ 32)
  .ok (e.tree ++ a ++ b ++ g ++ t)

/-- `CommitGraph.write_to_file` (`ValueError` on an empty graph, `struct.error` on field overflow) -/
def writeFile (hashVersion : Nat) (entries : List Entry) : Except Err Bytes := do
  if entries.isEmpty then .error .format
  let es := sortEntries entries
  let oids := es.map (·.cid)
  let oidl := oids.flatten
  let recs ← es.mapM (cdatRecord oids)
  let cdat := recs.flatten
  let fan := (fanout es).flatMap (beBytes 4)
  let c1 := Gen.Accel.cgHeaderSize + Gen.Accel.cgTocSize
  let c2 := c1 + fan.length
  let c3 := c2 + oidl.length
  let term := c3 + cdat.length
  .ok (Gen.Accel.cgSignature ++ [UInt8.ofNat Gen.Accel.cgVersion, UInt8.ofNat hashVersion, 3, 0]
    ++ Gen.Accel.chunkOidFanout ++ beBytes 8 c1
    ++ Gen.Accel.chunkOidLookup ++ beBytes 8 c2
    ++ Gen.Accel.chunkCommitData ++ beBytes 8 c3
    ++ [0, 0, 0, 0] ++ beBytes 8 term
    ++ fan ++ oidl ++ cdat)

/-! ### whole file: reader -/

def chunksOf (n : Nat) : Nat → Bytes → List Bytes
  | 0, _ => []
  | k + 1, bs => if bs.length < n ∨ n = 0 then [] else bs.take n :: chunksOf n k (bs.drop n)

/-- table of contents: `num_chunks + 1` entries of (4-byte id, 8-byte absolute offset) -/
def readToc : Nat → Bytes → Except Err (List (Bytes × Nat))
  | 0, _ => .ok []
  | n + 1, bs =>
    if bs.length < 12 then .error .format
    else match readToc n (bs.drop 12) with
      | .ok r => .ok ((bs.take 4, beVal ((bs.drop 4).take 8)) :: r)
      | .error e => .error e

/-- `graph.chunks[chunk_id] = data` in TOC order (a later duplicate id replaces an earlier one) -/
def lookupChunk (cs : List (Bytes × Bytes)) (id : Bytes) : Option Bytes :=
  (cs.reverse.find? (·.1 = id)).map (·.2)

def chunkData (file : Bytes) : List (Bytes × Nat) → List (Bytes × Bytes)
  | (id, off) :: (id2, off2) :: rest =>
    -- `f.seek(offset); f.read(next_offset - offset)`: a negative size reads to the end of the file
    (id, if off2 < off then file.drop off else (file.drop off).take (off2 - off)) :: chunkData file ((id2, off2) :: rest)
  | _ => []

def parseEntry (oidLen : Nat) (oids : List Bytes) (edges : Option (List Nat)) (cid : Bytes) (rec : Bytes) :
    Except Err Entry :=
  let tree := rec.take oidLen
  let p1 := beVal ((rec.drop oidLen).take 4)
  let p2 := beVal ((rec.drop (oidLen + 4)).take 4)
  let g := beVal ((rec.drop (oidLen + 8)).take 4)
  let t := beVal ((rec.drop (oidLen + 12)).take 4)
  match decodeParents oids edges p1 p2 with
  | .error e => .error e
  | .ok ps => .ok { cid := cid, tree := tree, parents := ps, gen := g >>> 2, time := t ||| ((g &&& 3) <<< 32) }

/-- `CommitGraph.from_file`: entries in file order (`ValueError` / `struct.error` ⇒ `.format`) -/
def readFile (file : Bytes) : Except Err (List Entry) := do
  if file.length < 8 then .error .format
  if file.take 4 ≠ Gen.Accel.cgSignature then .error .format
  if (file.getD 4 0).toNat ≠ Gen.Accel.cgVersion then .error .format
  let hv := (file.getD 5 0).toNat
  let oidLen ← if hv = Gen.Accel.hashVersionSha1 then .ok 20
               else if hv = Gen.Accel.hashVersionSha256 then .ok 32 else .error .format
  let n := (file.getD 6 0).toNat
  let toc ← readToc (n + 1) (file.drop 8)
  let cs := chunkData file toc
  let oidl ← match lookupChunk cs Gen.Accel.chunkOidLookup with | some d => .ok d | none => .error .format
  let cdat ← match lookupChunk cs Gen.Accel.chunkCommitData with | some d => .ok d | none => .error .format
  let num := oidl.length / oidLen
  let oids := chunksOf oidLen num oidl
  if cdat.length ≠ num * (oidLen + 16) then .error .format
  let edges := (lookupChunk cs Gen.Accel.chunkExtraEdges).map
    (fun d => (chunksOf 4 (d.length / 4) d).map beVal)
  let recs := chunksOf (oidLen + 16) num cdat
  (oids.zip recs).mapM (fun (cid, r) => parseEntry oidLen oids edges cid r)

/-- `get_parents`: `_oid_to_index[oid] = i` in a loop keeps the LAST position of a repeated id -/
def getParents (es : List Entry) (oid : Bytes) : Option (List Bytes) :=
  (es.reverse.find? (·.cid = oid)).map (·.parents)

end Dulwich.CommitGraphFmt
