/-
  C04 — model of pack ingestion as coded in dulwich (defects included).

  Python side:
    dulwich/pack.py   read_pack_header_at, take_msb_bytes(_at), _decode_object_header,
                      _decode_delta_base_offset, unpack_object(_at), read_zlib_chunks(_at),
                      PackStreamReader.read_objects (trailer = last 20 bytes read from the wire),
                      PackData.__init__ / iter_unpacked, DeltaChainIterator (record, _walk_all_chains,
                      _walk_ref_chains, _follow_chain, _resolve_object), Pack.get_ref / resolve_object
    dulwich/object_store.py  DiskObjectStore.add_thin_pack / add_pack().commit / _complete_pack,
                      MemoryObjectStore.add_pack().commit / add_thin_pack (logical level + the
                      file-system steps of the disk paths)

  Parameters (never axioms): `inflate : Bytes → Option (Bytes × Bytes)` — zlib: the output of the
  complete stream at the head of the input and the unread rest, `none` = zlib.error or EOF inside
  the stream; `H : Bytes → Bytes` — the object/pack hash, used only as a function;
  `valid : Obj → Bool` — the object-content parser of dulwich/objects.py (C01), consulted where the
  real code materialises a ShaFile.  The driver instantiates them (SHA-1 implemented in the driver,
  zlib's actual behaviour on the given input supplied by the harness as a table).

  Scope assumption of `parsePackStream`: the stream is shorter than the 64 KiB read buffer, so that
  the first `recv` of the first object drains the wire (this fixes which bytes count as "trailer").
-/
import DulwichModel.Model.Basic
import DulwichModel.Model.Delta
import DulwichModel.Gen.Ingest

namespace Dulwich.Ingest
open Dulwich

abbrev Inflate := Bytes → Option (Bytes × Bytes)
abbrev Hash := Bytes → Bytes

/-! ## pack entries -/

inductive Kind where
  | full (ty : Nat) (data : Bytes)        -- commit/tree/blob/tag (or an unsupported type number 0/5)
  | ofs (k : Nat) (delta : Bytes)         -- OFS_DELTA: base at `off - k`
  | ref (name : Bytes) (delta : Bytes)    -- REF_DELTA: base named `name`
  deriving Repr, DecidableEq

structure Entry where
  off : Nat
  kind : Kind
  deriving Repr, DecidableEq

/-! ## framing -/

/-- Where a framing failure comes from.  The distinction matters as coded: a `zlib.error` is raised inside
`read_zlib_chunks_at` while a memoryview slice of the mapped pack is alive in the frame, so the pack can no
longer be closed (`BufferError`) by whoever handles the exception. -/
inductive PErr where
  | hdr      -- AssertionError / TypeError / struct.error: header, EOF inside a header
  | zlib     -- zlib.error: bad stream, EOF inside a stream, wrong size, no byte after the stream
  | delta    -- ApplyDeltaError: OFS_DELTA with offset 0
  | fuel     -- out of fuel (unreachable, `Props.C04.parse_total`)
  deriving Repr, DecidableEq

def PErr.toErr : PErr → Err
  | .hdr => .format | .zlib => .format | .delta => .delta | .fuel => .other

/-- `take_msb_bytes`: bytes up to and including the first one with the high bit clear.
`none` = the input ended first (`ord(b"")` ⇒ TypeError / AssertionError in the `_at` variant). -/
def takeMsb : Bytes → Option (Bytes × Bytes)
  | [] => none
  | b :: rest =>
    if b.toNat < 128 then some ([b], rest)
    else match takeMsb rest with
      | none => none
      | some (bs, r) => some (b :: bs, r)

/-- `sum((byte & 0x7F) << (i*7 + 4))` over `raw[1:]`. -/
def sizeTail (shift : Nat) : Bytes → Nat
  | [] => 0
  | b :: bs => (b.toNat % (Gen.Ingest.groupMask + 1)) * 2 ^ shift + sizeTail (shift + Gen.Ingest.groupBits) bs

/-- `_decode_object_header`: `(type_num, size)`. -/
def objHeader : Bytes → Nat × Nat
  | [] => (0, 0)   -- not reachable: `takeMsb` never returns an empty list
  | b0 :: bs =>
    ((b0.toNat / 2 ^ Gen.Ingest.typeShift) % (Gen.Ingest.typeMask + 1),
     b0.toNat % (Gen.Ingest.lowMask + 1) + sizeTail Gen.Ingest.lowBits bs)

/-- loop of `_decode_delta_base_offset`: `off += 1; off <<= 7; off += byte & 0x7F`. -/
def ofsTail (acc : Nat) : Bytes → Nat
  | [] => acc
  | b :: bs => ofsTail ((acc + 1) * 128 + b.toNat % 128) bs

def decodeOfs : Bytes → Nat
  | [] => 0
  | b0 :: bs => ofsTail (b0.toNat % 128) bs

/-- One zlib stream of declared size `size` at the head of `inp` (`read_zlib_chunks(_at)`):
EOF ⇒ error; zlib error ⇒ error; wrong size ⇒ error (the bounded `decompress(add, size+1-have)`
only makes this failure early); and the loop only ends once zlib reports unused data, so a stream
that ends exactly at the end of the input is an error too ("EOF before end of zlib stream"). -/
def inflateSized (inflate : Inflate) (size : Nat) (inp : Bytes) : Except PErr (Bytes × Bytes) :=
  if inp.isEmpty then .error .zlib else
  match inflate inp with
  | none => .error .zlib
  | some (out, rest) =>
    if Gen.Ingest.zlibSizeChecked && out.length != size then .error .zlib
    else if rest.isEmpty then .error .zlib
    else .ok (out, rest)

/-- `unpack_object` / `unpack_object_at` for the entry at offset `off`. -/
def parseEntry (inflate : Inflate) (off : Nat) (inp : Bytes) : Except PErr (Entry × Bytes) :=
  match takeMsb inp with
  | none => .error .hdr
  | some (raw, r1) =>
    let ts := objHeader raw
    if ts.1 = Gen.Ingest.ofsDelta then
      match takeMsb r1 with
      | none => .error .hdr
      | some (raw2, r2) =>
        let k := decodeOfs raw2
        if Gen.Ingest.ofsZeroRejected && k == 0 then .error .delta   -- ApplyDeltaError("OFS_DELTA has delta_base_offset of 0")
        else match inflateSized inflate ts.2 r2 with
          | .error e => .error e
          | .ok (d, r3) => .ok (⟨off, .ofs k d⟩, r3)
    else if ts.1 = Gen.Ingest.refDelta then
      -- `read_all(20)` comes back short at EOF and the zlib read then fails; `_at` asserts
      if r1.length < Gen.Ingest.oidLen then .error .hdr
      else match inflateSized inflate ts.2 (r1.drop Gen.Ingest.oidLen) with
        | .error e => .error e
        | .ok (d, r3) => .ok (⟨off, .ref (r1.take Gen.Ingest.oidLen) d⟩, r3)
    else
      match inflateSized inflate ts.2 r1 with
      | .error e => .error e
      | .ok (d, r3) => .ok (⟨off, .full ts.1 d⟩, r3)

/-- `for _ in range(num_objects): unpack_object(...)`.  `fuel` bounds the iterations by the length of
the remaining input + 1 (every entry consumes at least its header byte; the last iteration may fail on
an empty input); `.other` = out of fuel, which `Props.C04.parse_total` shows unreachable.  `total` is the length of the whole stream (for offsets). -/
def parseEntries (inflate : Inflate) (total : Nat) : Nat → Nat → Bytes → Except PErr (List Entry × Bytes)
  | _, 0, inp => .ok ([], inp)
  | 0, _ + 1, _ => .error .fuel
  | fuel + 1, count + 1, inp =>
    match parseEntry inflate (total - inp.length) inp with
    | .error e => .error e
    | .ok (e, rest) =>
      match parseEntries inflate total fuel count rest with
      | .error e' => .error e'
      | .ok (es, r) => .ok (e :: es, r)

def be32 : Bytes → Nat
  | [a, b, c, d] => ((a.toNat * 256 + b.toNat) * 256 + c.toNat) * 256 + d.toNat
  | _ => 0

/-- `read_pack_header_at` on the first 12 bytes: the object count, or the (format-class) error:
empty ⇒ AssertionError, short ⇒ AssertionError/struct.error, bad magic/version ⇒ AssertionError. -/
def parseHeader (inp : Bytes) : Except Err Nat :=
  if inp.length < Gen.Ingest.packHeaderLen then .error .format
  else if inp.take 4 != Gen.Ingest.packMagic then .error .format
  else if !(Gen.Ingest.packVersions.contains (be32 ((inp.drop 4).take 4))) then .error .format
  else .ok (be32 ((inp.drop 8).take 4))

/-- Last `n` bytes / all but the last `n` bytes. -/
def lastN (n : Nat) (b : Bytes) : Bytes := b.drop (b.length - n)
def butLastN (n : Nat) (b : Bytes) : Bytes := b.take (b.length - n)

/-- The bytes `PackStreamReader` has read from the wire when it reaches the trailer check: with at least one
object the first `recv` drained the wire, without objects exactly header + 20 bytes were read. -/
def streamConsumed (count : Nat) (inp : Bytes) : Bytes :=
  if count = 0 then inp.take (Gen.Ingest.packHeaderLen + Gen.Ingest.oidLen) else inp

/-- `pack_sha != self.sha.digest()` ⇒ ChecksumMismatch — `_read` keeps the last 20 bytes read from the wire as
the trailer and hashes everything before them.  Fewer than 20 bytes read in total: building the
ChecksumMismatch fails in `sha_to_hex` (ValueError). -/
def checkTrailer (H : Hash) (consumed : Bytes) (entries : List Entry) : Except Err (List Entry) :=
  if Gen.Ingest.trailerVerified && lastN Gen.Ingest.oidLen consumed != H (butLastN Gen.Ingest.oidLen consumed) then
    (if consumed.length < Gen.Ingest.oidLen then .error .format else .error .checksum)
  else .ok entries

/-- `PackStreamReader.read_objects` on a stream fed from a file-like object (`read_some = read`):
header, `count` entries, then the trailer check. -/
def parsePackStream (inflate : Inflate) (H : Hash) (inp : Bytes) : Except Err (List Entry) :=
  match parseHeader inp with
  | .error e => .error e
  | .ok count =>
    let body := inp.drop Gen.Ingest.packHeaderLen
    match parseEntries inflate inp.length (body.length + 1) count body with
    | .error e => .error e.toErr
    | .ok (entries, _) => checkTrailer H (streamConsumed count inp) entries

/-- `PackData(file)` + `iter_unpacked()`: minimum size header+20, header, `count` entries; the
trailer is not looked at (add_pack().commit of the disk store rewrites it, the memory store calls
`check()` separately).  Also returns what follows the last entry. -/
def parsePackDataX (inflate : Inflate) (inp : Bytes) : Except PErr (List Entry × Bytes) :=
  if inp.length < Gen.Ingest.packHeaderLen + Gen.Ingest.oidLen then .error .hdr else
  match parseHeader inp with
  | .error _ => .error .hdr
  | .ok count =>
    let body := inp.drop Gen.Ingest.packHeaderLen
    parseEntries inflate inp.length (body.length + 1) count body

def parsePackData (inflate : Inflate) (inp : Bytes) : Except Err (List Entry) :=
  match parsePackDataX inflate inp with
  | .error e => .error e.toErr
  | .ok (entries, _) => .ok entries

/-- `PackData.check()`: stored checksum (last 20 bytes of the file) = hash of the rest. -/
def packDataCheck (H : Hash) (inp : Bytes) : Bool :=
  lastN Gen.Ingest.oidLen inp == H (butLastN Gen.Ingest.oidLen inp)

/-! ## objects and names -/

structure Obj where
  name : Bytes
  ty : Nat
  data : Bytes
  deriving Repr, DecidableEq

def natDecAux : Nat → Nat → Bytes
  | 0, _ => []
  | f + 1, n => if n < 10 then [UInt8.ofNat (48 + n)] else natDecAux f (n / 10) ++ [UInt8.ofNat (48 + n % 10)]

/-- `str(n).encode("ascii")` -/
def natDec (n : Nat) : Bytes := natDecAux (n + 1) n

/-- `object_header(num_type, length)`; `none` = unsupported type number (AssertionError). -/
def objectHeader (ty len : Nat) : Option Bytes :=
  (Gen.Ingest.typeNames.find? (fun p => p.1 == ty)).map fun p => p.2 ++ [32] ++ natDec len ++ [0]

/-- The object `(ty, data)` under the name the code computes for it (`obj_sha`). -/
def mkObj (H : Hash) (ty : Nat) (data : Bytes) : Option Obj :=
  (objectHeader ty data.length).map fun h => ⟨H (h ++ data), ty, data⟩

/-- What the property demands of a stored object: its name is the hash of header ++ data. -/
def HashOK (H : Hash) (o : Obj) : Prop :=
  ∃ h, objectHeader o.ty o.data.length = some h ∧ o.name = H (h ++ o.data)

abbrev Store := List Obj

def Store.lookup (s : Store) (n : Bytes) : Option (Nat × Bytes) :=
  (s.find? (fun o => o.name == n)).map fun o => (o.ty, o.data)

def Store.names (s : Store) : List Bytes := s.map (·.name)

/-! ## forward chaining (`DeltaChainIterator`) -/

def isFull (e : Entry) : Bool := match e.kind with | .full .. => true | _ => false

/-- `e` is an OFS delta waiting for the object at offset `off` (`_pending_ofs[e.off - k]`). -/
def isOfsFor (off : Nat) (e : Entry) : Bool :=
  match e.kind with | .ofs k _ => off + k == e.off | _ => false

/-- `e` is a REF delta waiting for the object named `name` (`_pending_ref[name]`). -/
def isRefFor (name : Bytes) (e : Entry) : Bool :=
  match e.kind with | .ref n _ => n == name | _ => false

/-- A work item of `_follow_chain`: the entry and the base it is applied to (`none` for full objects) … -/
abbrev Work0 := Entry × Option (Nat × Bytes)

/-- … together with the ids of the objects the entry is (directly or indirectly) a delta against, an external
base included (`on_chain` at the moment the item is popped). -/
abbrev Work := Work0 × List Bytes

/-- `_resolve_object` + `_result` for one work item. -/
def resolveOne (H : Hash) (valid : Obj → Bool) (w : Work0) : Except Err Obj :=
  let mk := fun (ty : Nat) (data : Bytes) =>
    match mkObj H ty data with
    | none => Except.error Err.format                  -- unsupported type number
    | some o => if valid o then Except.ok o else Except.error Err.format
  let app := fun (ty : Nat) (base d : Bytes) =>
    match Delta.applyDelta base d with
    | .error _ => Except.error Err.delta
    | .ok data =>
      if Gen.Ingest.emptyGuard && ty != Gen.Ingest.blobType && data.isEmpty then Except.error Err.delta
      else mk ty data
  match w with
  | (⟨_, .full ty data⟩, none) => mk ty data
  | (⟨_, .ofs _ d⟩, some (ty, base)) => app ty base d
  | (⟨_, .ref _ d⟩, some (ty, base)) => app ty base d
  | _ => .error .other                                  -- `assert` in `_resolve_object`; never built by `resolveAll`

/-- `_follow_chain`: pop a work item, resolve it, yield it, and push everything it unblocks
(`_pending_ofs.pop(offset)` then `_pending_ref.pop(sha)`, processed last-in first-out).
The unblocked entries are REMOVED from `pending`: each entry is resolved at most once.
With `rej` (`reject_delta_cycles=True`, what the object stores pass since the fix) a delta that resolves to an
object of its own chain — `sha in on_chain` — stops the walk with ApplyDeltaError BEFORE it is yielded.
Result: objects yielded so far, each with the ids it was a delta against; entries still pending; the error. -/
def chainLoop (rej : Bool) (H : Hash) (valid : Obj → Bool) :
    Nat → List Work → List Entry → List (Obj × List Bytes) → List (Obj × List Bytes) × List Entry × Option Err
  | _, [], pending, acc => (acc, pending, none)
  | 0, _ :: _, pending, acc => (acc, pending, some .other)
  | fuel + 1, w :: todo, pending, acc =>
    match resolveOne H valid w.1 with
    | .error e => (acc, pending, some e)
    | .ok o =>
      if rej && w.2.contains o.name then (acc, pending, some .delta) else
      let hit := fun e => isOfsFor w.1.1.off e || isRefFor o.name e
      let ub := pending.filter (isOfsFor w.1.1.off) ++ pending.filter (isRefFor o.name)
      chainLoop rej H valid fuel ((ub.map fun e => ((e, some (o.ty, o.data)), o.name :: w.2)).reverse ++ todo)
        (pending.filter fun e => !hit e) (acc ++ [(o, w.2)])

/-- One outer step of `_walk_all_chains`: a full object (`for offset, type_num in self._full_ofs`) or
an external base name (`for base_sha, pending in sorted(self._pending_ref.items())`). -/
inductive Job where
  | full (e : Entry)
  | ext (name : Bytes)

def runJob (rej : Bool) (H : Hash) (valid : Obj → Bool) (ext : Bytes → Option (Nat × Bytes)) (fuel : Nat)
    (j : Job) (pending : List Entry) (acc : List (Obj × List Bytes)) : List (Obj × List Bytes) × List Entry × Option Err :=
  match j with
  | .full e => chainLoop rej H valid fuel [((e, none), [])] pending acc
  | .ext name =>
    match ext name with
    | none => (acc, pending, none)                        -- KeyError: `continue`
    | some base =>                                        -- `_follow_chain(…, base_sha=base_sha)`
      chainLoop rej H valid fuel ((pending.filter (isRefFor name)).map fun e => ((e, some base), [name]))
        (pending.filter fun e => !isRefFor name e) acc

def runJobs (rej : Bool) (H : Hash) (valid : Obj → Bool) (ext : Bytes → Option (Nat × Bytes)) (fuel : Nat) :
    List Job → List Entry → List (Obj × List Bytes) → List (Obj × List Bytes) × List Entry × Option Err
  | [], pending, acc => (acc, pending, none)
  | j :: js, pending, acc =>
    match runJob rej H valid ext fuel j pending acc with
    | (acc', pending', none) => runJobs rej H valid ext fuel js pending' acc'
    | r => r

def bytesLt : Bytes → Bytes → Bool
  | [], [] => false
  | [], _ :: _ => true
  | _ :: _, [] => false
  | a :: as, b :: bs => a.toNat < b.toNat || (a == b && bytesLt as bs)

def insertSorted (x : Bytes) : List Bytes → List Bytes
  | [] => [x]
  | y :: ys => if x == y then y :: ys else if bytesLt x y then x :: y :: ys else y :: insertSorted x ys

/-- The base names REF deltas in `pending` wait for, sorted, without repetitions. -/
def refNames : List Entry → List Bytes
  | [] => []
  | e :: es => match e.kind with
    | .ref n _ => insertSorted n (refNames es)
    | _ => refNames es

inductive Status where
  | done                               -- every entry resolved
  | unresolved (names : List Bytes)    -- `UnresolvedDeltas`
  | failed (e : Err)                   -- the walk stopped with an error (`.format` also = dangling OFS: `assert not self._pending_ofs`)
  deriving Repr, DecidableEq

structure ChainOut where
  chains : List (Obj × List Bytes)   -- yielded, in order, each with the ids of the objects it was a delta against
  status : Status
  deriving Repr

/-- What an incremental consumer has seen. -/
def ChainOut.objs (o : ChainOut) : List Obj := o.chains.map (·.1)

/-- `DeltaChainIterator.__iter__` after `record()`-ing every entry (`rej` = `reject_delta_cycles`). -/
def resolveAll (rej : Bool) (H : Hash) (valid : Obj → Bool) (ext : Bytes → Option (Nat × Bytes)) (entries : List Entry) : ChainOut :=
  let n := entries.length
  match runJobs rej H valid ext n ((entries.filter isFull).map Job.full) (entries.filter fun e => !isFull e) [] with
  | (acc, _, some e) => ⟨acc, .failed e⟩
  | (acc, pending, none) =>
    match runJobs rej H valid ext n ((refNames pending).map Job.ext) pending acc with
    | (acc', _, some e) => ⟨acc', .failed e⟩
    | (acc', pending', none) =>
      if !(refNames pending').isEmpty then ⟨acc', .unresolved (refNames pending')⟩
      else if !pending'.isEmpty then ⟨acc', .failed .format⟩
      else ⟨acc', .done⟩

/-! ## the behaviours that the `fix:` series changed

The model is parametrised by them so that the code before the series stays available as `Cfg.old` (regression
witnesses in Props/C04.lean); `Cfg.current` is what the translator finds in the source now. -/

structure Cfg where
  visitedSet : Bool            -- `Pack.resolve_object` remembers the offsets on the chain (cycle ⇒ UnresolvedDeltas)
  rollbackCloseGuarded : Bool  -- the rollback of `_complete_pack` cannot be cut short by `final_pack.close()` raising
  commitChecksTrailer : Bool   -- `DiskObjectStore.add_pack().commit` calls `pd.check()` before indexing
  memAddsIncrementally : Bool  -- `MemoryObjectStore` adds objects while the inflater is drained
  failureRemovesTmp : Bool × Bool  -- (add_thin_pack, add_pack().commit) remove their temp file on failure
  rejectDeltaCycles : Bool := true -- the stores pass `reject_delta_cycles=True` to their indexers / inflaters
  deriving Repr, DecidableEq

def Cfg.current : Cfg :=
  ⟨Gen.Ingest.visitedSet, Gen.Ingest.rollbackCloseGuarded, Gen.Ingest.commitChecksTrailer, Gen.Ingest.memAddsIncrementally,
   (Gen.Ingest.thinFailureRemovesTmp, Gen.Ingest.commitFailureRemovesTmp), Gen.Ingest.storesRejectDeltaCycles⟩

/-- The code before the series (snapshot 671b511 … bb5afda). -/
def Cfg.old : Cfg := ⟨false, false, false, true, (false, false), false⟩

/-! ## random access (`Pack.get_raw` → `resolve_object`) as coded -/

/-- `entryAt off` = what `PackData.get_object_at(off)` returns or raises;
`idx` = the pack index (name ↦ offset), `ext` = `resolve_ext_ref`.  Result: `none` = out of fuel
(the Python loop is still running), `some r` = returned/raised.  The walk follows the chain down
to a non-delta and applies the deltas on the way back.  Cycle checks: "REF base offset == own offset"
(always), and with `c.visitedSet` the set of offsets already on the chain (`visited`, which then contains
every offset passed before `off`): coming back to one of them raises UnresolvedDeltas (`.key`). -/
def resolveAtC (c : Cfg) (entryAt : Nat → Except Err Kind) (idx : Bytes → Option Nat) (ext : Bytes → Option (Nat × Bytes)) :
    Nat → List Nat → Nat → Option (Except Err (Nat × Bytes))
  | 0, _, _ => none
  | fuel + 1, visited, off =>
    let seen := if c.visitedSet then off :: visited else []
    let app := fun (d : Bytes) (r : Option (Except Err (Nat × Bytes))) =>
      r.map fun x => match x with
        | .error e => Except.error e
        | .ok (ty, base) => match Delta.applyDelta base d with
          | .error _ => Except.error Err.delta
          | .ok data => Except.ok (ty, data)
    match entryAt off with
    | .error e => some (.error e)
    | .ok (.full ty data) => some (.ok (ty, data))
    | .ok (.ofs k d) =>
      if k > off then some (.error .format)          -- `assert offset >= self._header_size`
      else if seen.contains (off - k) then some (.error .key)
      else app d (resolveAtC c entryAt idx ext fuel seen (off - k))
    | .ok (.ref name d) =>
      match idx name with
      | some o =>
        if o = 0 then                                 -- `if offset:` — offset 0 is treated like "not in this pack"
          match ext name with
          | some b => app d (some (.ok b))
          | none => some (.error .key)
        else if (Gen.Ingest.selfRefChecked && o = off) || seen.contains o then some (.error .key)   -- UnresolvedDeltas
        else app d (resolveAtC c entryAt idx ext fuel seen o)
      | none =>
        match ext name with
        | some b => app d (some (.ok b))
        | none => some (.error .key)

/-- `Pack.get_raw` of the code that exists now. -/
def resolveAt (entryAt : Nat → Except Err Kind) (idx : Bytes → Option Nat) (ext : Bytes → Option (Nat × Bytes))
    (fuel off : Nat) : Option (Except Err (Nat × Bytes)) :=
  resolveAtC Cfg.current entryAt idx ext fuel [] off

/-- `PackData.get_object_at(off)` on the bytes of a pack: `assert offset >= header size`, then `unpack_object_at`
at that offset — ANY offset, entry boundary or not (this is what an attacker-controlled index can point at). -/
def entryAtOf (inflate : Inflate) (inp : Bytes) (off : Nat) : Except Err Kind :=
  if off < Gen.Ingest.packHeaderLen then .error .format else
  match parseEntry inflate off (inp.drop off) with
  | .ok (e, _) => .ok e.kind
  | .error e => .error e.toErr

/-! ## logical ingest -/

inductive Path where
  | thin      -- add_thin_pack(read_all, read_some): PackStreamCopier.verify (trailer) + indexer
  | addPack   -- add_pack(): f.write(stream); commit()
  deriving Repr, DecidableEq

def statusErr : Status → Option Err
  | .done => none
  | .unresolved _ => some .key
  | .failed e => some e

/-- Replay of the second phase of `_walk_all_chains`, collecting the names for which `_resolve_ext_ref` was
consulted successfully (`self._ext_refs.append(base_sha)`): a name is used when, at its turn in the sorted
snapshot, some REF delta is still waiting for it and the store has it — whether or not an entry of the pack
turns out to carry the same name (a REF delta whose base is an object of the store and whose RESULT is that
very object is such a case: the base is appended all the same, or the pack would need it to resolve it). -/
def extNamesUsed (rej : Bool) (H : Hash) (valid : Obj → Bool) (ext : Bytes → Option (Nat × Bytes)) (fuel : Nat) :
    List Bytes → List Entry → List (Obj × List Bytes) → List Bytes
  | [], _, _ => []
  | n :: ns, pending, acc =>
    if pending.any (isRefFor n) then
      match ext n with
      | none => extNamesUsed rej H valid ext fuel ns pending acc
      | some _ =>
        match runJob rej H valid ext fuel (.ext n) pending acc with
        | (acc', pending', none) => n :: extNamesUsed rej H valid ext fuel ns pending' acc'
        | _ => [n]
    else extNamesUsed rej H valid ext fuel ns pending acc

/-- The external bases forward chaining used (`indexer.ext_refs()`), in the sorted order of `_walk_ref_chains`;
`extend_pack` appends every one of them. -/
def extUsed (rej : Bool) (H : Hash) (ext : Bytes → Option (Nat × Bytes)) (entries : List Entry) : List (Nat × Bytes) :=
  match runJobs rej H (fun _ => true) ext entries.length ((entries.filter isFull).map Job.full)
      (entries.filter fun e => !isFull e) [] with
  | (acc, pending, none) =>
    (extNamesUsed rej H (fun _ => true) ext entries.length (refNames pending) pending acc).filterMap ext
  | _ => []

/-- `pack_object_header(type, size)`: the inverse of `objHeader`. -/
def encObjHdrAux : Nat → Nat → Nat → Bytes
  | 0, c, _ => [UInt8.ofNat c]
  | f + 1, c, size => if size = 0 then [UInt8.ofNat c] else UInt8.ofNat (c + 128) :: encObjHdrAux f (size % 128) (size / 128)

def encObjHdr (ty size : Nat) : Bytes := encObjHdrAux (size + 1) (ty * 16 + size % 16) (size / 16)

def be32enc (n : Nat) : Bytes :=
  [UInt8.ofNat (n / 16777216 % 256), UInt8.ofNat (n / 65536 % 256), UInt8.ofNat (n / 256 % 256), UInt8.ofNat (n % 256)]

/-- `extend_pack`: (when bases are appended) the header is rewritten with version 2 and the new count; the hash of
everything but the last 20 bytes of the FILE — whether or not those were a trailer — is computed; the missing
bases are written from that position on (`deflate` = zlib.compress at the store's level), then the new hash. -/
def extendPack (H : Hash) (deflate : Bytes → Bytes) (file : Bytes) (bases : List (Nat × Bytes)) : Bytes :=
  let keep := file.length - Gen.Ingest.oidLen
  let p := if bases.isEmpty then file.take keep
    else Gen.Ingest.packMagic ++ be32enc 2 ++ be32enc (be32 ((file.drop 8).take 4) + bases.length) ++
      (file.take keep).drop Gen.Ingest.packHeaderLen
  let a := bases.flatMap fun b => encObjHdr b.1 b.2.length ++ deflate b.2
  p ++ a ++ H (p ++ a)

/-- `_complete_pack` for a temp file `file` whose entries resolved to `objs` (first pass, PackIndexer — no
content parsing) using the external `bases`: extend, rename into place, write the index, THEN validate the
installed pack (framing again + PackInflater, which parses object contents) and roll back on failure.
Before the series (`c.rollbackCloseGuarded = false`) the handler first called `final_pack.close()`; when the
failure was a `zlib.error` raised inside the mapped pack this raised `BufferError` and the two `os.remove`
calls were never reached: the corrupt pack STAYED installed and its index kept listing `objs`
(`.other` = that BufferError). -/
def completePack (c : Cfg) (inflate : Inflate) (H : Hash) (deflate : Bytes → Bytes) (valid : Obj → Bool) (s : Store)
    (file : Bytes) (objs : List Obj) (bases : List (Nat × Bytes)) : Store × Option Err :=
  match parsePackDataX inflate (extendPack H deflate file bases) with
  | .error .zlib => if c.rollbackCloseGuarded then (s, some .format) else (s ++ objs, some .other)
  | .error e => (s, some e.toErr)
  | .ok (es, _) =>
    match (resolveAll c.rejectDeltaCycles H valid s.lookup es).status with
    | .done => (s ++ objs, none)
    | st => (s, statusErr st)

/-- `PackData(file)`, optionally `check()`, then `iter_unpacked()` — in that order: size and header
(AssertionError), checksum (ChecksumMismatch), entries. -/
def checkedPackData (inflate : Inflate) (H : Hash) (check : Bool) (file : Bytes) : Except Err (List Entry × Bytes) :=
  if file.length < Gen.Ingest.packHeaderLen + Gen.Ingest.oidLen then .error .format else
  match parseHeader file with
  | .error e => .error e
  | .ok _ =>
    if check && !packDataCheck H file then .error .checksum else
    match parsePackDataX inflate file with
    | .error e => .error e.toErr
    | .ok r => .ok r

/-- The temp file of a disk ingest and the result of the first pass, if it gets that far:
`(file, objects, external bases used)`. -/
def diskFirstPass (c : Cfg) (inflate : Inflate) (H : Hash) (p : Path) (s : Store) (inp : Bytes) :
    Except Err (Option (Bytes × List Obj × List (Nat × Bytes))) :=
  let file : Except Err Bytes := match p with
    | .thin => match parsePackStream inflate H inp with
      | .error e => .error e
      | .ok _ => .ok (match parseHeader inp with
                      | .ok 0 => inp.take (Gen.Ingest.packHeaderLen + Gen.Ingest.oidLen)
                      | _ => inp)
    | .addPack => .ok inp
  match file with
  | .error e => .error e
  | .ok file =>
    if file.isEmpty then .ok none else                   -- `if f.tell() > 0` (add_pack); a thin stream is never empty here
    -- add_thin_pack indexes while copying (no PackData, trailer already verified); commit() maps the file
    match checkedPackData inflate H (p == .addPack && c.commitChecksTrailer) file with
    | .error e => .error e
    | .ok (entries, _) =>
      let out := resolveAll c.rejectDeltaCycles H (fun _ => true) s.lookup entries
      match out.status with
      | .done => .ok (some (file, out.objs, extUsed c.rejectDeltaCycles H s.lookup entries))
      | st => .error ((statusErr st).getD .other)

/-- `DiskObjectStore.add_thin_pack` / `add_pack().commit`: framing, trailer (thin: always; commit: since the
series), first-pass resolution; any failure there leaves the store as it was; then `_complete_pack`. -/
def ingestDiskC (c : Cfg) (inflate : Inflate) (H : Hash) (deflate : Bytes → Bytes) (valid : Obj → Bool) (p : Path)
    (s : Store) (inp : Bytes) : Store × Option Err :=
  match diskFirstPass c inflate H p s inp with
  | .error e => (s, some e)
  | .ok none => (s, none)
  | .ok (some (file, objs, bases)) => completePack c inflate H deflate valid s file objs bases

def ingestDisk := ingestDiskC Cfg.current

/-- `MemoryObjectStore`: `add_thin_pack` = PackStreamCopier.verify into a spool file, then `commit()`;
`commit()` = `PackData` + `check()` + PackInflater.  Before the series (`c.memAddsIncrementally`) objects were
added while the iterator was drained, so whatever was yielded before a failure STAYED in the store; now the
whole pack is resolved first. -/
def ingestMemC (c : Cfg) (inflate : Inflate) (H : Hash) (valid : Obj → Bool) (p : Path) (s : Store) (inp : Bytes) :
    Store × Option Err :=
  let spooled : Except Err Bytes := match p with
    | .thin => match parsePackStream inflate H inp with
      | .error e => .error e
      | .ok _ =>   -- bytes copied to the spool file = bytes read from the wire
        .ok (match parseHeader inp with
             | .ok 0 => inp.take (Gen.Ingest.packHeaderLen + Gen.Ingest.oidLen)
             | _ => inp)
    | .addPack => .ok inp
  match spooled with
  | .error e => (s, some e)
  | .ok file =>
    if file.isEmpty then (s, none) else                  -- `if size > 0`
    match checkedPackData inflate H Gen.Ingest.memChecksTrailer file with
    | .error e => (s, some e)                            -- iter_unpacked is drained by for_pack_data before anything is added
    | .ok (entries, _) =>
      let out := resolveAll c.rejectDeltaCycles H valid s.lookup entries
      match out.status with
      | .done => (s ++ out.objs, none)
      | st => (if c.memAddsIncrementally then s ++ out.objs else s, statusErr st)

def ingestMem := ingestMemC Cfg.current

/-! ## file-system steps of the disk paths (one new pack `b`; everything else is frame)

State of the files the ingest creates: the temporary file (`objects/tmp_pack_*` or
`objects/pack/tmp*.pack`), `pack-b.pack`, the index lock file, `pack-b.idx`.  A pack is VISIBLE to
`_update_pack_cache` iff both `pack-b.pack` and `pack-b.idx` exist. -/

structure FS where
  tmp : Bool := false
  tmpComplete : Bool := false     -- every byte of the stream (+ appended bases, new trailer) written
  pack : Bool := false            -- pack-b.pack exists
  packComplete : Bool := false
  idxLock : Bool := false
  idx : Bool := false
  deriving Repr, DecidableEq

def FS.visible (fs : FS) : Bool := fs.pack && fs.idx

inductive FsOp where
  | createTmp | writeTmp | renameTmpToPack | openIdxLock | renameIdxLock | removePack | removeIdx | removeTmp
  | abortIdxLock   -- `GitFile.__exit__` on an exception: the lock file is removed
  deriving Repr, DecidableEq

def FsOp.apply (fs : FS) : FsOp → FS
  | .createTmp => { fs with tmp := true, tmpComplete := false }
  | .writeTmp => { fs with tmpComplete := fs.tmp }
  | .renameTmpToPack => if fs.tmp then { fs with tmp := false, tmpComplete := false, pack := true, packComplete := fs.tmpComplete } else fs
  | .openIdxLock => { fs with idxLock := true }
  | .renameIdxLock => if fs.idxLock then { fs with idxLock := false, idx := true } else fs
  | .removePack => { fs with pack := false, packComplete := false }
  | .removeIdx => { fs with idx := false }
  | .removeTmp => { fs with tmp := false, tmpComplete := false }
  | .abortIdxLock => { fs with idxLock := false }

def runOps (fs : FS) : List FsOp → FS
  | [] => fs
  | op :: ops => runOps (op.apply fs) ops

/-- Where an ingest fails. -/
inductive FailAt where
  | never
  | copy        -- while copying / framing / trailer / indexing (before `_complete_pack`)
  | validate    -- post-install validation in `_complete_pack` fails outside the zlib reader (object contents, deltas)
  | validateZlib -- post-install validation fails with a zlib.error inside the mapped pack (⇒ `final_pack.close()` raises)
  deriving Repr, DecidableEq

/-- The mutating calls `add_thin_pack` / `add_pack().commit` make, as coded, for each failure point. -/
def diskProgramC (c : Cfg) (p : Path) (f : FailAt) : List FsOp :=
  let install := [FsOp.renameTmpToPack, .openIdxLock, .renameIdxLock]
  let rp := if Gen.Ingest.rollbackRemovesPack then [FsOp.removePack] else []
  let ri := if Gen.Ingest.rollbackRemovesIdx then [FsOp.removeIdx] else []
  let rollback := if Gen.Ingest.rollbackIdxFirst then ri ++ rp else rp ++ ri
  let cleanup := match p with
    | .thin => if c.failureRemovesTmp.1 then [FsOp.removeTmp] else []
    | .addPack => if c.failureRemovesTmp.2 then [FsOp.removeTmp] else []
  match f with
  | .never => [.createTmp, .writeTmp] ++ install
  | .copy => [.createTmp, .writeTmp] ++ cleanup
  | .validate => [.createTmp, .writeTmp] ++ install ++ rollback
  | .validateZlib => [.createTmp, .writeTmp] ++ install ++ (if c.rollbackCloseGuarded then rollback else [])

def diskProgram := diskProgramC Cfg.current

/-- `add_pack()`; write fails; `abort()`. -/
def abortProgram : List FsOp :=
  [.createTmp] ++ (if Gen.Ingest.abortRemovesTmp then [FsOp.removeTmp] else [])

/-! ## a one-shot fault at every step of a disk ingest

The steps of `add_thin_pack` / `add_pack().commit` + `_complete_pack`, each with the handler it runs under, as the
translator reads them off the statement structure of `_complete_pack`. -/

inductive Guard where
  | callerCleanup    -- before the pack has its final name: the caller's `except BaseException` removes the temp file
  | removesPack      -- the `try` around the index write: `except BaseException: os.remove(target_pack_path)`
  | removesBoth      -- the validation `try`: rollback of index and pack
  | nothing          -- under no handler that touches the files
  deriving Repr, DecidableEq

structure GStep where
  op : Option FsOp   -- `none` = calls that do not change which files exist (opening and reading the installed pack, …)
  guard : Guard
  deriving Repr, DecidableEq

/-- The ingest as a list of fault points.  `idxGuarded` = `Gen.idxWriteGuarded`; `bitmapStep` = the unguarded bitmap
block is reachable (option on AND the path passes `refs`). -/
def ingestSteps (idxGuarded bitmapStep : Bool) : List GStep :=
  [⟨some .createTmp, .callerCleanup⟩, ⟨some .writeTmp, .callerCleanup⟩, ⟨some .renameTmpToPack, .callerCleanup⟩,
   ⟨some .openIdxLock, if idxGuarded then .removesPack else .nothing⟩,
   ⟨some .renameIdxLock, if idxGuarded then .removesPack else .nothing⟩] ++
  (if bitmapStep then [⟨none, .nothing⟩] else []) ++
  [⟨none, .removesBoth⟩, ⟨none, .removesBoth⟩]        -- open + read the installed pack: `check_length_and_checksum`, `PackInflater`

/-- The rollback of the validation handler, with a second one-shot fault possibly hitting ITS `j`-th removal:
`independent` = every removal is attempted whatever happened to the others; otherwise the first failure ends it. -/
def rollbackOps (idxFirst independent : Bool) (faultIn : Option Nat) : List FsOp :=
  let ops := if idxFirst then [FsOp.removeIdx, .removePack] else [FsOp.removePack, .removeIdx]
  match faultIn with
  | none => ops
  | some j => if independent then ops.eraseIdx j else ops.take j

/-- Files after: steps `0..k-1` done, step `k` raises instead of executing, the handler of step `k` runs (with
`faultIn`), the caller's cleanup runs when its temp file still exists. -/
def faultRun (steps : List GStep) (cleanupTmp idxFirst independent : Bool) (k : Nat) (faultIn : Option Nat) : FS :=
  let fs := runOps {} ((steps.take k).filterMap (·.op))
  match (steps[k]?).map (fun st => st.guard) with
  | some Guard.removesBoth => runOps fs (rollbackOps idxFirst independent faultIn)
  | some Guard.removesPack => runOps fs [.abortIdxLock, .removePack]
  | some Guard.callerCleanup => if cleanupTmp then runOps fs [.removeTmp] else fs
  | _ => fs

/-! ## a caching reader: `DiskRefsContainer.get_packed_refs` and the rewrites that go through it

The file is seen through its parse: the entries of the lines before the first bad line, the error of that line
if there is one, and the identity (`_packed_refs_key`: inode, size, times) the cache is validated against. -/

structure RefEntry where
  name : Bytes
  sha : Bytes
  peeled : Option Bytes
  deriving Repr, DecidableEq

structure RFile where
  parsed : List RefEntry     -- what the parse loop has put into `_packed_refs` when it stops
  err : Option Err           -- why it stopped early (PackedRefsException …), `none` = the whole file parsed
  key : Nat
  deriving Repr, DecidableEq

structure RCache where
  refs : Option (List RefEntry)   -- `_packed_refs` (+ `_peeled_refs`)
  key : Option Nat                -- `_packed_refs_key`
  deriving Repr, DecidableEq

def RCache.empty : RCache := ⟨none, none⟩

/-- `get_packed_refs()`.  A cache whose key differs from the file on disk is dropped; an empty cache is filled by
the parse loop, which populates `_packed_refs` line by line; `keyAfterParse` = the key is recorded only AFTER
the loop has run to its end (what the translator checks in the source): a parse that raises leaves the
partially filled dict behind, but under no key. -/
def getPacked (keyAfterParse : Bool) (file : Option RFile) (c : RCache) : Except Err (List RefEntry) × RCache :=
  let c1 := if c.refs.isSome && c.key != file.map (·.key) then RCache.empty else c
  match c1.refs with
  | some r => (.ok r, c1)
  | none =>
    match file with
    | none => (.ok [], ⟨some [], none⟩)
    | some f =>
      match f.err with
      | some e => (.error e, ⟨some f.parsed, if keyAfterParse then none else some f.key⟩)
      | none => (.ok f.parsed, ⟨some f.parsed, some f.key⟩)

/-- `add_packed_refs` / `_remove_packed_ref` / `pack_refs`: under the lock, re-read through `get_packed_refs`,
apply the change, write the file anew (`newKey` = identity of the new file); `finally` the cache is dropped.
If the read raises the lock file is aborted and the file stays as it is. -/
def rewritePacked (keyAfterParse : Bool) (file : Option RFile) (c : RCache) (newKey : Nat)
    (upd : List RefEntry → List RefEntry) : Except Err Unit × Option RFile × RCache :=
  match (getPacked keyAfterParse file c).1 with
  | .error e => (.error e, file, RCache.empty)
  | .ok r => (.ok (), some ⟨upd r, none, newKey⟩, RCache.empty)

/-- The reader of the code that exists. -/
def getPackedNow := getPacked Gen.Ingest.packedRefsKeyAfterParse
def rewritePackedNow := rewritePacked Gen.Ingest.packedRefsKeyAfterParse

end Dulwich.Ingest
