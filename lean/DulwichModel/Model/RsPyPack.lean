/-
  C15 — pack functions with two implementations.

    Python  dulwich/pack.py            bisect_find_sha, _create_delta_py (emitter: Model/Delta.lean)
    Rust    crates/pack/src/lib.rs     bisect_find_sha, create_delta_internal

  `apply_delta` (both sides) is in Model/Delta.lean (property C03), reused read-only.
  The `unpack_name` callback is a parameter `Int → Except Exc Bytes`.
-/
import DulwichModel.Model.RsPy
import DulwichModel.Model.Delta

namespace Dulwich.RsPy
open Dulwich

/-! ## bisect_find_sha -/

/-- Python: `while start <= end: i = (start + end) // 2 …` on unbounded integers, floor division.
At most `end - start + 1` iterations (`Props.C15.bisect_py_fuel`). -/
def bisectLoopPy (unpack : Int → Except Exc Bytes) (sha : Bytes) :
    Nat → Int → Int → Except Exc (Option Int)
  | 0, _, _ => .error .fuel
  | fuel + 1, start, «end» =>
    if start ≤ «end» then
      let i := Int.fdiv (start + «end») 2
      match unpack i with
      | .error e => .error e
      | .ok fileSha =>
        if bytesLt fileSha sha then bisectLoopPy unpack sha fuel (i + 1) «end»
        else if bytesLt sha fileSha then bisectLoopPy unpack sha fuel start (i - 1)
        else .ok (some i)
    else .ok none

def bisectFuel (start «end» : Int) : Nat := («end» - start + 2).toNat

/-- Python `bisect_find_sha(start, end, sha, unpack_name)` (repaired: the three argument checks). -/
def bisectPy (unpack : Int → Except Exc Bytes) (sha : Bytes) (start «end» : Int) :
    Except Exc (Option Int) :=
  if start < 0 then .error .value                               -- "start must not be negative"
  else if start > «end» then .error .value                      -- "start > end"
  else if «end» > Gen.pyMaxsize then .error .overflow           -- end > sys.maxsize
  else bisectLoopPy unpack sha (bisectFuel start «end») start «end»

/-- Before the repair: `assert start <= end` only. -/
def bisectPyOld (unpack : Int → Except Exc Bytes) (sha : Bytes) (start «end» : Int) :
    Except Exc (Option Int) :=
  if ¬ (start ≤ «end») then .error .assertion
  else bisectLoopPy unpack sha (bisectFuel start «end») start «end»

def inSigned (bits : Nat) (x : Int) : Bool := decide (-(2 ^ (bits - 1) : Int) ≤ x) && decide (x < (2 ^ (bits - 1) : Int))

/-- Rust loop on `isize` (repaired): `i = start + (end - start) / 2` (debug build: every `+`/`-` panics
on overflow; `/` truncates toward zero), `i.checked_add(1)` — `None` leaves the loop —, `end = i - 1`. -/
def bisectLoopRs (unpack : Int → Except Exc Bytes) (sha : Bytes) :
    Nat → Int → Int → Except Exc (Option Int)
  | 0, _, _ => .error .fuel
  | fuel + 1, start, «end» =>
    if start > «end» then .ok none else
    if ¬ inSigned Gen.rsBisectBits («end» - start) then .error .panic else
    let i := start + Int.tdiv («end» - start) 2
    if ¬ inSigned Gen.rsBisectBits i then .error .panic else
    match unpack i with
    | .error e => .error e
    | .ok fileSha =>
      if fileSha.length ∉ Gen.rsIsShaLens then .error .type      -- "unpack_name returned non-sha object"
      else
        match cmpBytes fileSha sha with
        | .lt => if ¬ inSigned Gen.rsBisectBits (i + 1) then .ok none     -- checked_add: None => break
                 else bisectLoopRs unpack sha fuel (i + 1) «end»
        | .gt => if ¬ inSigned Gen.rsBisectBits (i - 1) then .error .panic
                 else bisectLoopRs unpack sha fuel start (i - 1)
        | .eq => .ok (some i)

/-- Rust `bisect_find_sha(start, end, sha, unpack_name)`: argument extraction to `isize` first. -/
def bisectRs (unpack : Int → Except Exc Bytes) (sha : Bytes) (start «end» : Int) :
    Except Exc (Option Int) :=
  if ¬ inSigned Gen.rsBisectBits start ∨ ¬ inSigned Gen.rsBisectBits «end» then .error .overflow
  else if sha.length ∉ Gen.rsBisectShaLens then .error .value
  else if start < 0 then .error .value
  else if start > «end» then .error .value
  else bisectLoopRs unpack sha (bisectFuel start «end») start «end»

/-- Before the repair: `i32` bounds, `i = (start + end) / 2`, unchecked `i + 1`. -/
def bisectLoopRsOld (unpack : Int → Except Exc Bytes) (sha : Bytes) :
    Nat → Int → Int → Except Exc (Option Int)
  | 0, _, _ => .error .fuel
  | fuel + 1, start, «end» =>
    if start > «end» then .ok none else
    let s := start + «end»
    if ¬ inSigned 32 s then .error .panic else
    let i := Int.tdiv s 2
    match unpack i with
    | .error e => .error e
    | .ok fileSha =>
      if fileSha.length ∉ [20, 32] then .error .type
      else
        match cmpBytes fileSha sha with
        | .lt => if ¬ inSigned 32 (i + 1) then .error .panic
                 else bisectLoopRsOld unpack sha fuel (i + 1) «end»
        | .gt => if ¬ inSigned 32 (i - 1) then .error .panic
                 else bisectLoopRsOld unpack sha fuel start (i - 1)
        | .eq => .ok (some i)

def bisectRsOld (unpack : Int → Except Exc Bytes) (sha : Bytes) (start «end» : Int) :
    Except Exc (Option Int) :=
  if ¬ inSigned 32 start ∨ ¬ inSigned 32 «end» then .error .overflow
  else if sha.length ∉ [20, 32] then .error .value
  else if start > «end» then .error .value
  else bisectLoopRsOld unpack sha (bisectFuel start «end») start «end»

/-! ## the three callbacks the harness uses -/

/-- `table[i]` for `0 ≤ i < len`, `IndexError` otherwise. -/
def unpackStrict (table : List Bytes) (i : Int) : Except Exc Bytes :=
  if i < 0 then .error .index else
  match table[i.toNat]? with
  | some s => .ok s
  | none => .error .index

/-- Python list indexing `table[i]`: negative indexes count from the end. -/
def unpackWrap (table : List Bytes) (i : Int) : Except Exc Bytes :=
  let j := if i < 0 then i + table.length else i
  if j < 0 then .error .index else
  match table[j.toNat]? with
  | some s => .ok s
  | none => .error .index

/-- big-endian bytes of `n` in `k` positions -/
def beBytes : Nat → Nat → Bytes
  | 0, _ => []
  | k + 1, n => beBytes k (n / 256) ++ [UInt8.ofNat (n % 256)]

/-- `(i + off).to_bytes(width, "big")`: a table defined (and sorted) on every index `≥ -off`;
`OverflowError` below. -/
def unpackSynth (off : Nat) (width : Nat) (i : Int) : Except Exc Bytes :=
  if i + off < 0 then .error .overflow else .ok (beBytes width (i + off).toNat)

/-! ## Rust delta emitter (`create_delta_internal` after `similar`) -/

open Dulwich.Delta in
/-- `while remaining > 0 { chunk = min(remaining, 127); push(chunk); extend(data[..chunk]) … }` -/
def rsEmitInsert (fuel : Nat) (data : Bytes) : Bytes :=
  match fuel with
  | 0 => []
  | fuel + 1 =>
    if data.length = 0 then [] else
    let n := min data.length Gen.rsMaxInsertLen
    UInt8.ofNat n :: data.take n ++ rsEmitInsert fuel (data.drop n)

open Dulwich.Delta in
/-- `while copy_len > 0 { to_copy = min(copy_len, MAX_COPY_LEN); encode_copy_operation … }`
(`encode_copy_operation` has the same 4/2 byte loops as the Python one: `Delta.encodeCopy`). -/
def rsEmitCopy (fuel off len : Nat) : Bytes :=
  match fuel with
  | 0 => []
  | fuel + 1 =>
    if len = 0 then [] else
    let n := min len Gen.rsMaxCopyLen
    encodeCopy off n ++ rsEmitCopy fuel (off + n) (len - n)

open Dulwich.Delta in
def rsEmitOps : List Op → Bytes
  | [] => []
  | .copy off len :: ops => rsEmitCopy (len + 1) off len ++ rsEmitOps ops
  | .insert data :: ops => rsEmitInsert (data.length + 1) data ++ rsEmitOps ops

open Dulwich.Delta in
/-- Rust `create_delta` for the opcode list `similar` returned (Equal ↦ copy, Insert/Replace ↦ insert). -/
def rsCreateDelta (base : Bytes) (ops : List Op) : Bytes :=
  encodeSize base.length ++ encodeSize (opsTarget base ops).length ++ rsEmitOps ops

end Dulwich.RsPy
